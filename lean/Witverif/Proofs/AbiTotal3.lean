import Witverif.Proofs.AbiTotal2
/-! C16 (core), continued: `deallocate_indirect` (any type) and flat `deallocate` (≤ 16 slots) do not panic. -/
namespace Witverif.Abi

mutual
/-- `deallocate_indirect` never panics — any type, any nesting, both cleanup modes -/
theorem deallocIndirect_total (hd' : Bool) : ∀ (t : Ty) (lvl : Nat) (a : Expr) (off : Off),
    ∃ ss, deallocIndirect hd' lvl t a off = .ok ss
  | .bool, _, _, _ | .s8, _, _, _ | .u8, _, _, _ | .s16, _, _, _ | .u16, _, _, _ | .s32, _, _, _
  | .u32, _, _, _ | .s64, _, _, _ | .u64, _, _, _ | .f32, _, _, _ | .f64, _, _, _ | .char, _, _, _
  | .errctx, _, _, _ | .own, _, _, _ | .borrow, _, _, _ | .future _, _, _, _ | .stream _, _, _, _
  | .string, _, _, _ | .enum _, _, _, _ | .flags _, _, _, _ | .flist _ _, _, _, _ => by
      simp [deallocIndirect, pure, Except.pure]
  | .list e, lvl, a, off => by
      have ⟨b, hb⟩ := deallocIndirect_total hd' e (lvl + 1) (.base (lvl + 1)) Off.zero
      simp [deallocIndirect, hb, bind, Except.bind, pure, Except.pure]
  | .map k v, lvl, a, off => by
      have ⟨b1, h1⟩ := deallocIndirect_total hd' k (lvl + 1) (.base (lvl + 1)) Off.zero
      have ⟨b2, h2⟩ := deallocIndirect_total hd' v (lvl + 1) (.base (lvl + 1)) ((fieldOffs [k, v]).getD 1 Off.zero)
      simp only [List.getD_eq_getElem?_getD] at h2
      simp [deallocIndirect, h1, h2, bind, Except.bind, pure, Except.pure]
  | .record fs, lvl, a, off => by
      simp only [deallocIndirect]
      split
      · exact deallocIndirectFields_total hd' fs lvl (fieldOffs fs) a off
      · exact ⟨_, rfl⟩
  | .tuple ts, lvl, a, off => by
      simp only [deallocIndirect]
      split
      · exact deallocIndirectFields_total hd' ts lvl (fieldOffs ts) a off
      · exact ⟨_, rfl⟩
  | .variant cs, lvl, a, off => by
      simp only [deallocIndirect]
      split
      · have ⟨r, hr⟩ := deallocIndirectArms_total hd' cs lvl a (off + payloadOff (discriminant cs.length) cs)
        simp only [hr, bind, Except.bind, pure, Except.pure]
        exact ⟨_, rfl⟩
      · exact ⟨_, rfl⟩
  | .option t, lvl, a, off => by
      simp only [deallocIndirect]
      split
      · have ⟨r, hr⟩ := deallocIndirect_total hd' t (lvl + 1) a (off + payloadOff .u8 [none, some t])
        simp only [hr, bind, Except.bind, pure, Except.pure]
        exact ⟨_, rfl⟩
      · exact ⟨_, rfl⟩
  | .result ok err, lvl, a, off => by
      simp only [deallocIndirect]
      split
      · have ⟨r0, h0⟩ := deallocIndirectArm_total hd' ok lvl a (off + payloadOff .u8 [ok, err])
        have ⟨r1, h1⟩ := deallocIndirectArm_total hd' err lvl a (off + payloadOff .u8 [ok, err])
        simp only [h0, h1, bind, Except.bind, pure, Except.pure]
        exact ⟨_, rfl⟩
      · exact ⟨_, rfl⟩
theorem deallocIndirectFields_total (hd' : Bool) : ∀ (ts : List Ty) (lvl : Nat) (fos : List Off) (a : Expr) (off : Off),
    ∃ ss, deallocIndirectFields hd' lvl ts fos a off = .ok ss
  | [], _, _, _, _ => by simp [deallocIndirectFields, pure, Except.pure]
  | t :: ts, lvl, fos, a, off => by
      cases fos with
      | nil => simp [deallocIndirectFields, pure, Except.pure]
      | cons fo fos =>
        have ⟨r1, h1⟩ := deallocIndirect_total hd' t lvl a (off + fo)
        have ⟨r2, h2⟩ := deallocIndirectFields_total hd' ts lvl fos a off
        simp [deallocIndirectFields, h1, h2, bind, Except.bind, pure, Except.pure]
theorem deallocIndirectArms_total (hd' : Bool) : ∀ (cs : List (Option Ty)) (lvl : Nat) (a : Expr) (poff : Off),
    ∃ r, deallocIndirectArms hd' lvl cs a poff = .ok r
  | [], _, _, _ => by simp [deallocIndirectArms, pure, Except.pure]
  | o :: cs, lvl, a, poff => by
      have ⟨r1, h1⟩ := deallocIndirectArm_total hd' o lvl a poff
      have ⟨r2, h2⟩ := deallocIndirectArms_total hd' cs lvl a poff
      simp [deallocIndirectArms, h1, h2, bind, Except.bind, pure, Except.pure]
theorem deallocIndirectArm_total (hd' : Bool) : ∀ (o : Option Ty) (lvl : Nat) (a : Expr) (poff : Off),
    ∃ r, deallocIndirectArm hd' lvl o a poff = .ok r
  | none, _, _, _ => by simp [deallocIndirectArm, pure, Except.pure]
  | some t, lvl, a, poff => by
      have ⟨r, hr⟩ := deallocIndirect_total hd' t (lvl + 1) a poff
      simp [deallocIndirectArm, hr]
end

mutual
/-- flat `deallocate` never panics on a valid type with at most 16 flat slots, whatever the operands -/
theorem dealloc_total (hd' : Bool) : ∀ (t : Ty) (lvl : Nat) (xs : List Expr), (flatten t).length ≤ 16 →
    flistsNonEmpty t = true → ∃ r, dealloc hd' lvl t xs = .ok r
  | .bool, _, _, _, _ | .s8, _, _, _, _ | .u8, _, _, _, _ | .s16, _, _, _, _ | .u16, _, _, _, _
  | .s32, _, _, _, _ | .u32, _, _, _, _ | .s64, _, _, _, _ | .u64, _, _, _, _ | .f32, _, _, _, _
  | .f64, _, _, _, _ | .char, _, _, _, _ | .errctx, _, _, _, _ | .own, _, _, _, _ | .borrow, _, _, _, _
  | .future _, _, _, _, _ | .stream _, _, _, _, _ | .string, _, _, _, _ | .enum _, _, _, _, _
  | .flags _, _, _, _, _ => by simp [dealloc, pure, Except.pure]
  | .list e, lvl, xs, _, _ => by
      have ⟨b, hb⟩ := deallocIndirect_total hd' e (lvl + 1) (.base (lvl + 1)) Off.zero
      simp [dealloc, hb, bind, Except.bind, pure, Except.pure]
  | .map k v, lvl, xs, _, _ => by
      have ⟨b1, h1⟩ := deallocIndirect_total hd' k (lvl + 1) (.base (lvl + 1)) Off.zero
      have ⟨b2, h2⟩ := deallocIndirect_total hd' v (lvl + 1) (.base (lvl + 1)) ((fieldOffs [k, v]).getD 1 Off.zero)
      simp only [List.getD_eq_getElem?_getD] at h2
      simp [dealloc, h1, h2, bind, Except.bind, pure, Except.pure]
  | .record fs, lvl, xs, h, hv => by
      have ⟨r, hr⟩ := deallocFields_total hd' fs lvl xs (by simpa [flatten] using h) (by simpa [flistsNonEmpty] using hv)
      simp [dealloc, flatU_total h, hr, bind, Except.bind]
  | .tuple ts, lvl, xs, h, hv => by
      have ⟨r, hr⟩ := deallocFields_total hd' ts lvl xs (by simpa [flatten] using h) (by simpa [flistsNonEmpty] using hv)
      simp [dealloc, flatU_total h, hr, bind, Except.bind]
  | .variant cs, lvl, xs, h, hv => by
      have hl : (flattenCases cs).length ≤ 15 := by simp [flatten] at h; omega
      have ⟨arms, ha⟩ := deallocArms_total hd' cs lvl ((flatten (.variant cs)).drop 1) (xs.drop 1) cs
        (fun _ hc => hc) hl (by simp [flatten]) (by simpa [flistsNonEmpty] using hv)
      simp only [dealloc, flatU_total h, ha, bind, Except.bind, pure, Except.pure]
      exact ⟨_, rfl⟩
  | .option t, lvl, xs, h, hv => by
      have hdrop : (flatten (.option t)).drop 1 = flatten t := by simp [flatten, joinFlat]
      have ht : (flatten t).length ≤ 16 := by simp [flatten, joinFlat] at h; omega
      have ⟨ins, hi⟩ := armInputs_total ((flatten (.option t)).drop 1) (xs.drop 1) (flatten t)
        (by rw [hdrop]; intro k hk; exact ⟨hk, le_refl _⟩)
      have ⟨r, hr⟩ := dealloc_total hd' t (lvl + 1) ins ht (by simpa [flistsNonEmpty] using hv)
      simp only [dealloc, flatU_total h, flatU_total ht, hi, hr, bind, Except.bind, pure, Except.pure]
      exact ⟨_, rfl⟩
  | .result a b, lvl, xs, h, hv => by
      have hdrop : (flatten (.result a b)).drop 1 = joinFlat (flattenOpt a) (flattenOpt b) := by simp [flatten]
      have hl : (joinFlat (flattenOpt a) (flattenOpt b)).length ≤ 15 := by simp [flatten] at h; omega
      simp [flistsNonEmpty] at hv
      have ⟨a0, h0⟩ := deallocArm_total hd' a lvl ((flatten (.result a b)).drop 1) (xs.drop 1)
        (by have := joinFlat_length_left (flattenOpt a) (flattenOpt b); omega)
        (by rw [hdrop]; exact joinFlat_le_left _ _) hv.1
      have ⟨a1, h1⟩ := deallocArm_total hd' b lvl ((flatten (.result a b)).drop 1) (xs.drop 1)
        (by have := joinFlat_length_right (flattenOpt a) (flattenOpt b); omega)
        (by rw [hdrop]; exact joinFlat_le_right _ _) hv.2
      simp only [dealloc, flatU_total h, h0, h1, bind, Except.bind, pure, Except.pure]
      exact ⟨_, rfl⟩
  | .flist e n, lvl, xs, h, hv => by
      simp [flistsNonEmpty] at hv
      have he : (flatten e).length ≤ 16 := by
        have := flattenRep_le (flatten e) n hv.1
        simp [flatten] at h; omega
      have ⟨rs, hrs⟩ := mapM_total (dealloc hd' lvl e)
        (chunks xs (List.replicate n (flatten e).length))
        (fun y _ => dealloc_total hd' e lvl y he hv.2)
      simp [dealloc, flatU_total h, flatU_total he, hrs, bind, Except.bind, pure, Except.pure]
theorem deallocFields_total (hd' : Bool) : ∀ (fs : List Ty) (lvl : Nat) (xs : List Expr),
    (flattenList fs).length ≤ 16 → flistsNonEmptyAll fs = true → ∃ r, deallocFields hd' lvl fs xs = .ok r
  | [], _, _, _, _ => by simp [deallocFields, pure, Except.pure]
  | t :: ts, lvl, xs, h, hv => by
      simp [flattenList] at h
      simp [flistsNonEmptyAll] at hv
      have ht : (flatten t).length ≤ 16 := by omega
      have ⟨r1, h1⟩ := dealloc_total hd' t lvl (xs.take (flatten t).length) ht hv.1
      have ⟨r2, h2⟩ := deallocFields_total hd' ts lvl (xs.drop (flatten t).length) (by omega) hv.2
      simp [deallocFields, flatU_total ht, h1, h2, bind, Except.bind, pure, Except.pure]
theorem deallocArms_total (hd' : Bool) : ∀ (cs : List (Option Ty)) (lvl : Nat) (params1 : List CoreTy)
    (inputs : List Expr) (all : List (Option Ty)), (∀ d ∈ cs, d ∈ all) → (flattenCases all).length ≤ 15 →
    params1 = flattenCases all → flistsNonEmptyCases all = true →
    ∃ arms, deallocArms hd' lvl cs params1 inputs = .ok arms
  | [], _, _, _, _, _, _, _, _ => by simp [deallocArms, pure, Except.pure]
  | o :: cs, lvl, params1, inputs, all, hsub, hl, hp, hv => by
      have hmem : o ∈ all := hsub o (by simp)
      have ⟨arm, ha⟩ := deallocArm_total hd' o lvl params1 inputs
        (by have := flattenCases_length_mem all o hmem; omega)
        (by rw [hp]; exact flattenCases_bounds all o hmem) (flistsNonEmptyCases_mem all o hmem hv)
      have ⟨rest, hr⟩ := deallocArms_total hd' cs lvl params1 inputs all (fun d hd => hsub d (by simp [hd])) hl hp hv
      simp [deallocArms, ha, hr, bind, Except.bind, pure, Except.pure]
theorem deallocArm_total (hd' : Bool) : ∀ (o : Option Ty) (lvl : Nat) (params1 : List CoreTy) (inputs : List Expr),
    (flattenOpt o).length ≤ 15 →
    (∀ (k : Nat) (hk : k < (flattenOpt o).length),
        ∃ h' : k < params1.length, le ((flattenOpt o)[k]) (params1[k]) = true) →
    flistsNonEmptyOpt o = true →
    ∃ b, deallocArm hd' lvl o params1 inputs = .ok b
  | none, _, _, _, _, _, _ => by simp [deallocArm, pure, Except.pure]
  | some t, lvl, params1, inputs, hl, hb, hv => by
      simp only [flattenOpt] at hl hb
      have ht : (flatten t).length ≤ 16 := by omega
      have ⟨ins, hi⟩ := armInputs_total params1 inputs (flatten t) hb
      have ⟨r, hr⟩ := dealloc_total hd' t (lvl + 1) ins ht (by simpa [flistsNonEmptyOpt] using hv)
      simp [deallocArm, flatU_total ht, hi, hr, bind, Except.bind]
end

end Witverif.Abi
