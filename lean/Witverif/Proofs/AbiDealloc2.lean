import Witverif.Proofs.AbiDealloc
/-! C03: the cleanup through memory releases exactly the blocks reachable from the stored value
(lists-only mode, types without fixed-length lists). -/
namespace Witverif.Abi
open Spec

theorem reachMany_nil (f : Nat → List (Nat × Nat × Nat)) (sz : Nat) (hf : ∀ a, f a = []) :
    ∀ (a n : Nat), reachMany f sz a n = [] := by
  intro a n
  induction n generalizing a with
  | zero => rfl
  | succ n ih => simp [reachMany, hf, ih]

mutual
/-- a type that needs no lists-only cleanup has no block to release, whatever the memory holds -/
theorem cleanup_nil (p : Nat) (m : Mem) : ∀ (t : Ty) (a : Nat), needsDealloc false t = false →
    cleanupBlocks p m t a = []
  | .bool, _, _ | .s8, _, _ | .u8, _, _ | .s16, _, _ | .u16, _, _ | .s32, _, _ | .u32, _, _
  | .s64, _, _ | .u64, _, _ | .f32, _, _ | .f64, _, _ | .char, _, _ | .errctx, _, _ | .own, _, _
  | .borrow, _, _ | .flags _, _, _ | .enum _, _, _ | .future _, _, _ | .stream _, _, _ => by
      simp [cleanupBlocks]
  | .string, _, h | .list _, _, h | .map _ _, _, h => by simp [needsDealloc] at h
  | .flist e n, a, h => by
      simp [needsDealloc] at h
      simp only [cleanupBlocks]
      exact reachMany_nil _ _ (fun b => cleanup_nil p m e b h) a n
  | .record fs, a, h => by simp [needsDealloc] at h; simp [cleanupBlocks, cleanupFields_nil p m fs a 0 h]
  | .tuple ts, a, h => by simp [needsDealloc] at h; simp [cleanupBlocks, cleanupFields_nil p m ts a 0 h]
  | .variant cs, a, h => by simp [needsDealloc] at h; simp [cleanupBlocks, cleanupCase_nil p m cs _ _ h]
  | .option t, a, h => by
      simp [needsDealloc] at h
      simp only [cleanupBlocks]; split <;> simp [cleanup_nil p m t _ h]
  | .result ok err, a, h => by
      simp [needsDealloc] at h
      simp only [cleanupBlocks]
      split
      · exact cleanupOpt_nil p m ok _ h.1
      · split
        · exact cleanupOpt_nil p m err _ h.2
        · rfl
theorem cleanupFields_nil (p : Nat) (m : Mem) : ∀ (ts : List Ty) (a cur : Nat), needsDeallocAny false ts = false →
    cleanupFields p m ts a cur = []
  | [], _, _, _ => by simp [cleanupFields]
  | t :: ts, a, cur, h => by
      simp [needsDeallocAny] at h
      simp [cleanupFields, cleanup_nil p m t _ h.1, cleanupFields_nil p m ts a _ h.2]
theorem cleanupOpt_nil (p : Nat) (m : Mem) : ∀ (o : Option Ty) (a : Nat), needsDeallocOpt false o = false →
    cleanupOpt p m o a = []
  | none, _, _ => by simp [cleanupOpt]
  | some t, a, h => by simp [needsDeallocOpt] at h; simp [cleanupOpt, cleanup_nil p m t a h]
theorem cleanupCase_nil (p : Nat) (m : Mem) : ∀ (cs : List (Option Ty)) (i a : Nat),
    needsDeallocAnyOpt false cs = false → cleanupCase p m cs i a = []
  | [], _, _, _ => by simp [cleanupCase]
  | c :: cs, 0, a, h => by
      simp [needsDeallocAnyOpt] at h; simp [cleanupCase, cleanupOpt_nil p m c a h.1]
  | c :: cs, i + 1, a, h => by
      simp [needsDeallocAnyOpt] at h; simp [cleanupCase, cleanupCase_nil p m cs i a h.2]
end

/-- environment equal to `env` up to the results of executed statements -/
def Env.withLets (env : Env) (ls : List (String × List MV)) : Env := { env with lets := ls }
/-- environment with additional inner block frames -/
def Env.extend (env : Env) (fs : List Frame) : Env := { env with frames := env.frames ++ fs }

/-- the address expression denotes `addr` whatever has been executed and however deep we are -/
def AddrStable (env : Env) (m : Mem) (a : Expr) (addr : Nat) : Prop :=
  ∀ fs ls, eval ((env.extend fs).withLets ls) m a = some (.c ⟨ptrFT env.p, addr⟩)

theorem Off.at_add (a b : Off) (p : Nat) : (a + b).at p = a.at p + b.at p := by
  simp only [Off.at]
  split <;> rfl

theorem Off.ptrs_at (p : Nat) (hp : p = 4 ∨ p = 8) : (Off.ptrs 1).at p = p := by
  rcases hp with rfl | rfl <;> simp [Off.at, Off.ptrs]

theorem enter_length_eq (env : Env) (f : Frame) :
    env.enter env.frames.length f = env.extend [f] := by
  simp [Env.enter, Env.extend]

end Witverif.Abi

namespace Witverif.Abi
open Spec

abbrev Blk := Nat × Nat × Nat

theorem reachMany_eq_flatMap (f : Nat → List Blk) (sz : Nat) : ∀ (n a : Nat),
    reachMany f sz a n = (List.range n).flatMap fun i => f (a + i * sz) := by
  intro n
  induction n with
  | zero => intro a; simp [reachMany]
  | succ n ih =>
    intro a
    simp only [reachMany, ih]
    rw [List.range_succ_eq_map, List.flatMap_cons, List.flatMap_map]
    simp [Nat.succ_mul, Nat.add_assoc, Nat.add_comm sz]

/-- adding released blocks to the ledger -/
def MSt.free (s : MSt) (bs : List Blk) : MSt := { s with freed := bs.reverse ++ s.freed }

@[simp] theorem MSt.free_st (s : MSt) (bs : List Blk) : (s.free bs).st = s.st := rfl
@[simp] theorem MSt.free_nil (s : MSt) : s.free [] = s := by simp [MSt.free]
theorem MSt.free_free (s : MSt) (a b : List Blk) : (s.free a).free b = s.free (a ++ b) := by
  simp [MSt.free, List.reverse_append]

theorem foldRange_free (n : Nat) (f : Nat → MSt → Option MSt) (g : Nat → List Blk) (s0 : MSt)
    (hf : ∀ (i : Nat) (s : MSt), i < n → s.st = s0.st → f i s = some (s.free (g i))) :
    foldRange n s0 f = some (s0.free ((List.range n).flatMap g)) := by
  unfold foldRange
  induction n with
  | zero => simp [pure]
  | succ n ih =>
    rw [List.range_succ, List.foldlM_append, ih (fun i s hi hs => hf i s (by omega) hs)]
    simp only [Option.bind_eq_bind, Option.bind_some, List.foldlM_cons, List.foldlM_nil]
    rw [hf n _ (by omega) (by simp)]
    simp [MSt.free_free, pure]

end Witverif.Abi

namespace Witverif.Abi
open Spec

def Frees (p lvl : Nat) (a : Expr) (ds : List Stmt) (blocks : Mem → Nat → List Blk) (valid : Mem → Nat → Bool) : Prop :=
  ∀ (env : Env) (s : MSt) (addr : Nat), env.p = p → env.frames.length = lvl + 1 →
    AddrStable env s.st.mem a addr → valid s.st.mem addr = true →
    ∃ ls, execStmts env s ds = some (env.withLets ls, s.free (blocks s.st.mem addr))

theorem withLets_self (env : Env) : env.withLets env.lets = env := rfl
theorem withLets_withLets (env : Env) (a b : List (String × List MV)) : (env.withLets a).withLets b = env.withLets b := rfl
theorem extend_withLets (env : Env) (fs : List Frame) (ls : List (String × List MV)) :
    (env.withLets ls).extend fs = (env.extend fs).withLets ls := rfl
theorem extend_nil (env : Env) : env.extend [] = env := by simp [Env.extend]

theorem AddrStable.withLets {env : Env} {m : Mem} {a : Expr} {addr : Nat} (h : AddrStable env m a addr)
    (ls : List (String × List MV)) : AddrStable (env.withLets ls) m a addr := by
  intro fs ls'
  exact h fs ls'

theorem AddrStable.here {env : Env} {m : Mem} {a : Expr} {addr : Nat} (h : AddrStable env m a addr) :
    eval env m a = some (.c ⟨ptrFT env.p, addr⟩) := by
  simpa [extend_nil, withLets_self] using h [] env.lets

theorem AddrStable.extend {env : Env} {m : Mem} {a : Expr} {addr : Nat} (h : AddrStable env m a addr)
    (gs : List Frame) : AddrStable (env.extend gs) m a addr := by
  intro fs ls
  have := h (gs ++ fs) ls
  simpa [Env.extend, List.append_assoc] using this

theorem frees_nil (p lvl : Nat) (a : Expr) (valid : Mem → Nat → Bool) :
    Frees p lvl a [] (fun _ _ => []) valid := by
  intro env s addr _ _ _ _
  exact ⟨env.lets, by simp [execStmts, withLets_self]⟩

theorem frees_append {p lvl : Nat} {a : Expr} {d1 d2 : List Stmt} {b1 b2 : Mem → Nat → List Blk}
    {v1 v2 : Mem → Nat → Bool} (h1 : Frees p lvl a d1 b1 v1) (h2 : Frees p lvl a d2 b2 v2) :
    Frees p lvl a (d1 ++ d2) (fun m x => b1 m x ++ b2 m x) (fun m x => v1 m x && v2 m x) := by
  intro env s addr hp hl hst hv
  simp at hv
  have ⟨l1, e1⟩ := h1 env s addr hp hl hst hv.1
  have ⟨l2, e2⟩ := h2 (env.withLets l1) (s.free (b1 s.st.mem addr)) addr hp hl (hst.withLets l1) (by simpa using hv.2)
  refine ⟨l2, ?_⟩
  rw [execStmts_append, e1]
  simp only [Option.bind_some, e2, withLets_withLets, MSt.free_st, MSt.free_free]

theorem frees_congr {p lvl : Nat} {a : Expr} {ds : List Stmt} {b b' : Mem → Nat → List Blk}
    {v v' : Mem → Nat → Bool} (h : Frees p lvl a ds b v) (hb : ∀ m x, b m x = b' m x)
    (hv : ∀ m x, v' m x = true → v m x = true) : Frees p lvl a ds b' v' := by
  intro env s addr hp hl hst hvv
  have ⟨ls, e⟩ := h env s addr hp hl hst (hv _ _ hvv)
  exact ⟨ls, by rw [e, hb]⟩

/-- loads through a stable address -/
theorem eval_ld_stable (env : Env) (m : Mem) (a : Expr) (addr : Nat) (k : LoadKind) (off : Off)
    (h : eval env m a = some (.c ⟨ptrFT env.p, addr⟩)) :
    eval env m (ld k off a) = some (.c (loadSem env.p m k (addr + off.at env.p))) := by
  simp [ld, eval, h, opSem, pureSem]

end Witverif.Abi

namespace Witverif.Abi
open Spec

theorem allMany_get (f : Nat → Bool) (sz : Nat) : ∀ (n a : Nat), allMany f sz a n = true →
    ∀ i, i < n → f (a + i * sz) = true := by
  intro n
  induction n with
  | zero => intro a _ i hi; omega
  | succ n ih =>
    intro a h i hi
    simp [allMany] at h
    cases i with
    | zero => simpa using h.1
    | succ i =>
      have := ih (a + sz) h.2 i (by omega)
      simpa [Nat.succ_mul, Nat.add_assoc, Nat.add_comm sz] using this

theorem evalList_ptrLen (env : Env) (m : Mem) (hp : env.p = 4 ∨ env.p = 8) (a : Expr) (addr : Nat) (off : Off)
    (h : eval env m a = some (.c ⟨ptrFT env.p, addr⟩)) :
    evalList env m (ptrLen a off) =
      some [.c ⟨ptrFT env.p, m.loadLE (addr + off.at env.p) env.p⟩,
            .c ⟨ptrFT env.p, m.loadLE (addr + off.at env.p + env.p) env.p⟩] := by
  simp only [ptrLen, evalList_cons, evalList_nil, eval_ld_stable env m a addr _ _ h, loadSem,
    Off.at_add, Off.ptrs_at env.p hp, Option.bind_some, Option.map_some, Nat.add_assoc]

theorem frees_string (p : Nat) (hp : p = 4 ∨ p = 8) (lvl : Nat) (a : Expr) (off : Off) :
    Frees p lvl a [.eff .deallocString (ptrLen a off) []]
      (fun m addr => cleanupBlocks p m .string (addr + off.at p)) (fun _ _ => true) := by
  intro env s addr hpe _ hst _
  subst hpe
  refine ⟨(keyOf .deallocString (ptrLen a off), []) :: env.lets, ?_⟩
  simp only [execStmts, exec, evalList_ptrLen env s.st.mem hp a addr off hst.here, Option.bind_some, execOp,
    Option.map_some, cleanupBlocks]
  simp [Env.bind, Env.withLets, MSt.free, Nat.add_assoc]

/-- environment of the `i`-th iteration of a list block -/
theorem stable_base (env : Env) (m : Mem) (lvl : Nat) (hl : env.frames.length = lvl + 1) (f : Frame) (b : Nat)
    (hb : f.base = some b) : AddrStable (env.extend [f]) m (.base (lvl + 1)) b := by
  intro fs ls
  simp [eval, frameAt, Env.extend, Env.withLets, List.getD, hl, hb]

theorem frees_list (p : Nat) (hp : p = 4 ∨ p = 8) (lvl : Nat) (a : Expr) (off : Off) (e : Ty) (body : List Stmt)
    (hbody : Frees p (lvl + 1) (.base (lvl + 1)) body (fun m x => cleanupBlocks p m e x) (fun m x => validDiscs p m e x)) :
    Frees p lvl a [.eff (.deallocList e) (ptrLen a off) [(body, [])]]
      (fun m addr => cleanupBlocks p m (.list e) (addr + off.at p))
      (fun m addr => validDiscs p m (.list e) (addr + off.at p)) := by
  intro env s addr hpe hl hst hv
  subst hpe
  refine ⟨(keyOf (.deallocList e) (ptrLen a off), []) :: env.lets, ?_⟩
  simp only [execStmts, exec, evalList_ptrLen env s.st.mem hp a addr off hst.here, Option.bind_some, execOp]
  -- every iteration releases the element's blocks
  have hiter := foldRange_free (s.st.mem.loadLE (addr + off.at env.p + env.p) env.p)
    (fun i s' => (execBlockAt env s' [(body, [])] 0
        { base := some (s.st.mem.loadLE (addr + off.at env.p) env.p + i * elemSize env.p e) }).map (·.2))
    (fun i => cleanupBlocks env.p s.st.mem e (s.st.mem.loadLE (addr + off.at env.p) env.p + i * elemSize env.p e)) s
    (by
      intro i s' hi hs'
      have hvi : validDiscs env.p s'.st.mem e (s.st.mem.loadLE (addr + off.at env.p) env.p + i * elemSize env.p e) = true := by
        rw [hs']
        simp only [validDiscs] at hv
        exact allMany_get _ _ _ _ (by simpa [Nat.add_assoc] using hv) i (by simpa [Nat.add_assoc] using hi)
      have ⟨ls, he⟩ := hbody (env.extend [{ base := some (s.st.mem.loadLE (addr + off.at env.p) env.p + i * elemSize env.p e) }]) s' _
        rfl (by simp [Env.extend, hl]) (stable_base env s'.st.mem lvl hl _ _ rfl) hvi
      simp only [execBlockAt, enter_length_eq, he, Option.bind_some, evalList_nil, Option.map_some, hs'])
  simp only [Nat.add_assoc] at hiter ⊢
  rw [hiter]
  simp only [Option.map_some, cleanupBlocks, reachMany_eq_flatMap]
  simp [Env.bind, Env.withLets, MSt.free, Nat.add_assoc, List.reverse_append]

end Witverif.Abi

namespace Witverif.Abi
open Spec

theorem alignTo_zero (a : Nat) : alignTo 0 a = 0 := by
  unfold alignTo
  cases a with
  | zero => simp
  | succ a => simp [Nat.div_eq_of_lt]

theorem frees_map (p : Nat) (hp : p = 4 ∨ p = 8) (lvl : Nat) (a : Expr) (off : Off) (k v : Ty) (body : List Stmt)
    (hbody : Frees p (lvl + 1) (.base (lvl + 1)) body
      (fun m x => cleanupBlocks p m k x ++ cleanupBlocks p m v (x + alignTo (elemSize p k) (alignment p v)))
      (fun m x => validDiscs p m k x && validDiscs p m v (x + alignTo (elemSize p k) (alignment p v)))) :
    Frees p lvl a [.eff (.deallocMap k v) (ptrLen a off) [(body, [])]]
      (fun m addr => cleanupBlocks p m (.map k v) (addr + off.at p))
      (fun m addr => validDiscs p m (.map k v) (addr + off.at p)) := by
  intro env s addr hpe hl hst hv
  subst hpe
  refine ⟨(keyOf (.deallocMap k v) (ptrLen a off), []) :: env.lets, ?_⟩
  simp only [execStmts, exec, evalList_ptrLen env s.st.mem hp a addr off hst.here, Option.bind_some, execOp]
  have hiter := foldRange_free (s.st.mem.loadLE (addr + off.at env.p + env.p) env.p)
    (fun i s' => (execBlockAt env s' [(body, [])] 0
        { base := some (s.st.mem.loadLE (addr + off.at env.p) env.p + i * elemSize env.p (.tuple [k, v])) }).map (·.2))
    (fun i =>
      let b := s.st.mem.loadLE (addr + off.at env.p) env.p + i * elemSize env.p (.tuple [k, v])
      cleanupBlocks env.p s.st.mem k b ++ cleanupBlocks env.p s.st.mem v (b + alignTo (elemSize env.p k) (alignment env.p v))) s
    (by
      intro i s' hi hs'
      have hvi := allMany_get _ _ _ _ (by simpa [validDiscs, Nat.add_assoc] using hv) i (by simpa [Nat.add_assoc] using hi)
      have ⟨ls, he⟩ := hbody (env.extend [{ base := some (s.st.mem.loadLE (addr + off.at env.p) env.p + i * elemSize env.p (.tuple [k, v])) }]) s' _
        rfl (by simp [Env.extend, hl]) (stable_base env s'.st.mem lvl hl _ _ rfl) (by rw [hs']; exact hvi)
      simp only [execBlockAt, enter_length_eq, he, Option.bind_some, evalList_nil, Option.map_some, hs'])
  simp only [Nat.add_assoc] at hiter ⊢
  rw [hiter]
  simp only [Option.map_some, cleanupBlocks, reachMany_eq_flatMap]
  simp [Env.bind, Env.withLets, MSt.free, Nat.add_assoc, List.reverse_append]

theorem execBlockAt_get (env : Env) (s : MSt) : ∀ (blocks : List (List Stmt × List Expr)) (i : Nat) (f : Frame)
    (b : List Stmt × List Expr), blocks[i]? = some b →
    execBlockAt env s blocks i f =
      (execStmts (env.enter env.frames.length f) s b.1).bind fun (env', s') =>
        (evalList env' s'.st.mem b.2).map fun xs => (xs, s') := by
  intro blocks
  induction blocks with
  | nil => intro i f b h; simp at h
  | cons b0 bs ih =>
    intro i f b h
    cases i with
    | zero => simp at h; subst h; obtain ⟨ss, rs⟩ := b0; simp [execBlockAt]
    | succ i => simp at h; obtain ⟨ss, rs⟩ := b0; simp [execBlockAt, ih i f b h]

theorem evalList_loadInt (env : Env) (m : Mem) (a : Expr) (addr : Nat) (tag : IntRepr) (off : Off)
    (h : eval env m a = some (.c ⟨ptrFT env.p, addr⟩)) :
    ∃ ty, evalList env m [loadInt tag off a] = some [.c ⟨ty, m.loadLE (addr + off.at env.p) tag.size⟩] := by
  cases tag <;> simp [loadInt, eval_ld_stable env m a addr _ _ h, loadSem, IntRepr.size]

/-- a variant-shaped cleanup from its arms -/
theorem frees_variant (p lvl : Nat) (a : Expr) (off : Off) (tag : IntRepr) (n : Nat) (arms : List (List Stmt × List Expr))
    (blocks : Nat → Mem → Nat → List Blk) (valid : Nat → Mem → Nat → Bool) (hlen : arms.length = n)
    (harms : ∀ (i : Nat) (h : i < n), (arms[i]'(hlen ▸ h)).2 = [] ∧
      Frees p (lvl + 1) a (arms[i]'(hlen ▸ h)).1 (blocks i) (valid i)) :
    Frees p lvl a [.eff (.deallocVariant n) [loadInt tag off a] arms]
      (fun m addr => blocks (m.loadLE (addr + off.at p) tag.size) m addr)
      (fun m addr => decide (m.loadLE (addr + off.at p) tag.size < n) && valid (m.loadLE (addr + off.at p) tag.size) m addr) := by
  intro env s addr hpe hl hst hv
  subst hpe
  simp at hv
  obtain ⟨hlt, hvalid⟩ := hv
  have ⟨ty, hdisc⟩ := evalList_loadInt env s.st.mem a addr tag off hst.here
  have ⟨hres, hfr⟩ := harms _ hlt
  have hget : arms[s.st.mem.loadLE (addr + off.at env.p) tag.size]? = some (arms[s.st.mem.loadLE (addr + off.at env.p) tag.size]'(hlen ▸ hlt)) := by
    simp [hlen, hlt]
  have ⟨ls, he⟩ := hfr (env.extend [{}]) s addr rfl (by simp [Env.extend, hl]) (hst.extend _) hvalid
  refine ⟨(keyOf (.deallocVariant n) [loadInt tag off a], []) :: env.lets, ?_⟩
  simp only [execStmts, exec, hdisc, Option.bind_some, execOp, hlt, if_true]
  rw [execBlockAt_get env s arms _ {} _ hget, enter_length_eq, he]
  simp [hres, Env.bind, Env.withLets]

end Witverif.Abi
