import Witverif.Async.ExportGlue
import Witverif.Proofs.Task
/-!
C08, export side: invariant of the combined system `ExportGlue.Sys` (generated async export wrapper ∥
executor of C22) tying the state of the wrapper's root future and of the executor to the state of the
specification monitor `GlueSpec.expStep` after the observations made so far.  Preserved by every
possible step, for every label — every user function behaviour, every executor step, every conforming
host event.  Method: as `Proofs/Task.lean` (`step_split` on the executor step, `simp_all`).
-/
namespace Witverif.Async.ExportGlue
open Witverif.Async Witverif.Async.Task Witverif.Async.GlueSpec Witverif.Generated

/-- a call of the host into the task is in progress -/
def inCall : Pc → Bool
  | .fresh | .idle | .gone => false
  | _ => true

def notFresh : Pc → Bool
  | .fresh => false
  | _ => true

def isGone : Pc → Bool
  | .gone => true
  | _ => false

/-- the destructor of the task state has been entered -/
def dropPhase : Pc → Bool
  | .dropCancelWake | .dropTasks | .dropFields | .gone => true
  | _ => false

structure J (s : Sys) (m : ExpMon) : Prop where
  drv : s.ex.driver = .start
  called : m.called = notFresh s.ex.pc
  running : m.running = inCall s.ex.pc
  exited : m.exited = isGone s.ex.pc
  users : m.users = if s.fut = .unpolled then 0 else 1
  returns : m.returns = if s.fut = .done then 1 else 0
  cancels : m.cancels = if s.fut = .dropped true then 1 else 0
  creq : m.cancelReq = s.cancelSeen
  emptyGone : s.ex.tasksEmpty = true → s.fut.gone = true
  unp : s.fut = .unpolled → (s.ex.pc = .fresh ∨ s.ex.pc = .cancelWake ∨ s.ex.pc = .setPolling ∨ s.ex.pc = .pollTasks)
  dropC : dropPhase s.ex.pc = true → (s.cancelSeen = true ∨ s.fut.gone = true)
  goneF : (s.ex.pc = .dropFields ∨ s.ex.pc = .gone) → s.fut.gone = true
  noDF : s.fut ≠ .dropped false
  lastOk : s.ex.pc = .idle → (s.ex.last = some .yield ∨ ∃ x, s.ex.last = some (.wait x))
  dropCS : s.fut = .dropped true → s.cancelSeen = true

theorem J_init (itw : Bool) : J (Sys.init itw) {} := by
  constructor <;> simp [Sys.init, St.init, inCall, dropPhase, Fut.gone, notFresh, isGone]

theorem okOf_some {α} {x : Step α} {a : α} (h : okOf x = some a) : ∃ evs, x = .ok a evs := by
  cases x with
  | ok b e => simp [okOf] at h; subst h; exact ⟨e, rfl⟩
  | panic m e => simp [okOf] at h

theorem expRun_append (m : ExpMon) (a b : List ExpEv) :
    expRun m (a ++ b) = match expRun m a with
      | .ok m' => expRun m' b
      | .error c => .error c := by
  induction a generalizing m with
  | nil => simp [expRun]
  | cons e es ih =>
    simp only [List.cons_append, expRun]
    cases expStep m e with
    | ok m' => simp [ih]
    | error c => simp

/-- goal shape of one step: the monitor accepts the new observations and the invariant holds again -/
def Good (m : ExpMon) (s' : Sys) (new : List ExpEv) : Prop := ∃ m', expRun m new = .ok m' ∧ J s' m'

section
variable {s : Sys} {m : ExpMon} {e1 : St} {evs : List Ev}
set_option maxHeartbeats 4000000

/-- finishing tactic for executor steps: unfold the successor, evaluate the monitor on the tokens -/
macro "exec_auto" h:ident hj:ident : tactic => `(tactic| (
  step_split $h
  all_goals (obtain ⟨hs, _⟩ := $h; subst hs)
  all_goals (obtain ⟨j1, j2, j3, j4, j5, j6, j7, j8, j9, j10, j11, j12, j13, j14, j15⟩ := $hj)
  all_goals try (cases ‹Next›)
  all_goals (simp_all [Good, cbTokens, expRun, expStep, inCall, dropPhase, notFresh, isGone, userPc, Next.pc])
  all_goals try (constructor <;> simp_all [inCall, dropPhase, notFresh, isGone, userPc, Next.pc])
  all_goals try (cases hf : (‹Sys›).fut <;> simp_all [Fut.gone, inCall, dropPhase, notFresh, isGone])
  all_goals try (constructor <;> simp_all [inCall, dropPhase, notFresh, isGone, userPc, Next.pc, Fut.gone])))

theorem J_tau (hj : J s m) (h : Task.step s.ex .tau = .ok e1 evs) :
    Good m { s with ex := e1, obs := s.obs ++ cbTokens s.ex e1 } (cbTokens s.ex e1) := by
  exec_auto h hj
theorem J_tok {e} (hj : J s m) (h : Task.step s.ex (.tok e) = .ok e1 evs) :
    Good m { s with ex := e1, obs := s.obs ++ cbTokens s.ex e1 } (cbTokens s.ex e1) := by
  exec_auto h hj
theorem J_reg {w n} (hj : J s m) (h : Task.step s.ex (.reg w n) = .ok e1 evs) :
    Good m { s with ex := e1, obs := s.obs ++ cbTokens s.ex e1 } (cbTokens s.ex e1) := by
  exec_auto h hj
theorem J_unreg {w} (hj : J s m) (h : Task.step s.ex (.unreg w) = .ok e1 evs) :
    Good m { s with ex := e1, obs := s.obs ++ cbTokens s.ex e1 } (cbTokens s.ex e1) := by
  exec_auto h hj
theorem J_cloneRef (hj : J s m) (h : Task.step s.ex .cloneRef = .ok e1 evs) :
    Good m { s with ex := e1, obs := s.obs ++ cbTokens s.ex e1 } (cbTokens s.ex e1) := by
  exec_auto h hj
theorem J_dropRef (hj : J s m) (h : Task.step s.ex .dropRef = .ok e1 evs) :
    Good m { s with ex := e1, obs := s.obs ++ cbTokens s.ex e1 } (cbTokens s.ex e1) := by
  exec_auto h hj
theorem J_wake {a} (hj : J s m) (h : Task.step s.ex (.wake a) = .ok e1 evs) :
    Good m { s with ex := e1, obs := s.obs ++ cbTokens s.ex e1 } (cbTokens s.ex e1) := by
  exec_auto h hj
theorem J_cbDone (hj : J s m) (h : Task.step s.ex .cbDone = .ok e1 evs) :
    Good m { s with ex := e1, obs := s.obs ++ cbTokens s.ex e1 } (cbTokens s.ex e1) := by
  exec_auto h hj
theorem J_cancelRead {a} (hj : J s m) (h : Task.step s.ex (.cancelRead a) = .ok e1 evs) :
    Good m { s with ex := e1, obs := s.obs ++ cbTokens s.ex e1 } (cbTokens s.ex e1) := by
  exec_auto h hj
theorem J_pollDone {r e} (hj : J s m) (hu : s.fut ≠ .unpolled) (he : e = true → s.fut.gone = true)
    (h : Task.step s.ex (.pollDone r e) = .ok e1 evs) :
    Good m { s with ex := e1, obs := s.obs ++ cbTokens s.ex e1 } (cbTokens s.ex e1) := by
  exec_auto h hj
theorem J_decide {e w c} (hj : J s m) (h : Task.step s.ex (.decide e w c) = .ok e1 evs) :
    Good m { s with ex := e1, obs := s.obs ++ cbTokens s.ex e1 } (cbTokens s.ex e1) := by
  exec_auto h hj
theorem J_sleepRead {r w n a} (hj : J s m) (h : Task.step s.ex (.sleepRead r w n a) = .ok e1 evs) :
    Good m { s with ex := e1, obs := s.obs ++ cbTokens s.ex e1 } (cbTokens s.ex e1) := by
  exec_auto h hj
theorem J_dropTasksDone (hj : J s m) (hg : s.fut.gone = true) (h : Task.step s.ex .dropTasksDone = .ok e1 evs) :
    Good m { s with ex := e1, obs := s.obs ++ cbTokens s.ex e1 } (cbTokens s.ex e1) := by
  exec_auto h hj

/-- `start_task`: publish the state, then the first callback with EVENT_NONE -/
theorem J_hostCall {e2 : St} {evs2 : List Ev} (hj : J s m) (hp : s.ex.pc = .fresh)
    (h1 : Task.step s.ex .start = .ok e1 evs) (h2 : Task.step e1 (.call Limits.eventNone 0 0) = .ok e2 evs2) :
    Good m { s with ex := e2, obs := s.obs ++ [.call] } [.call] := by
  obtain ⟨j1, j2, j3, j4, j5, j6, j7, j8, j9, j10, j11, j12, j13, j14, j15⟩ := hj
  step_split h1
  all_goals (obtain ⟨hs, _⟩ := h1; subst hs)
  step_split h2
  all_goals (obtain ⟨hs, _⟩ := h2; subst hs)
  all_goals (simp_all [Good, expRun, expStep, inCall, dropPhase, notFresh, isGone])
  all_goals (constructor <;> simp_all [inCall, dropPhase, notFresh, isGone])

theorem J_hostCb {e w c} (hj : J s m) (hp : s.ex.pc = .idle) (hc : ¬ (e = Limits.eventCancel ∧ s.fut = .done))
    (h : Task.step s.ex (.call e w c) = .ok e1 evs) :
    Good m { s with ex := e1, cancelSeen := s.cancelSeen || e == Limits.eventCancel, obs := s.obs ++ [.ev e] } [.ev e] := by
  obtain ⟨j1, j2, j3, j4, j5, j6, j7, j8, j9, j10, j11, j12, j13, j14, j15⟩ := hj
  step_split h
  all_goals (obtain ⟨hs, _⟩ := h; subst hs)
  all_goals (simp_all [Good, expRun, expStep, inCall, dropPhase, notFresh, isGone])
  all_goals try (constructor <;> simp_all [inCall, dropPhase, notFresh, isGone])
  all_goals try (cases hf : s.fut <;> simp_all [Fut.gone])
end

theorem J_rootPoll {s : Sys} {m : ExpMon} {ready : Bool} {f : Fut} {evs : List ExpEv} (hj : J s m)
    (hp : s.ex.pc = .pollTasks) (h : s.fut.poll ready = some (f, evs)) :
    Good m { s with fut := f, obs := s.obs ++ evs } evs := by
  obtain ⟨j1, j2, j3, j4, j5, j6, j7, j8, j9, j10, j11, j12, j13, j14, j15⟩ := hj
  cases hf : s.fut <;> cases ready <;> simp [hf, Fut.poll] at h
  all_goals (obtain ⟨rfl, rfl⟩ := h)
  all_goals (simp_all [Good, expRun, expStep, inCall, dropPhase, notFresh, isGone, Fut.gone])
  all_goals (constructor <;> simp_all [inCall, dropPhase, notFresh, isGone, Fut.gone])

theorem J_rootDrop {s : Sys} {m : ExpMon} {f : Fut} {evs : List ExpEv} (hj : J s m)
    (hp : s.ex.pc = .dropTasks) (h : s.fut.drop = some (f, evs)) :
    Good m { s with fut := f, obs := s.obs ++ evs } evs := by
  obtain ⟨j1, j2, j3, j4, j5, j6, j7, j8, j9, j10, j11, j12, j13, j14, j15⟩ := hj
  cases hf : s.fut <;> simp [hf, Fut.drop] at h
  all_goals (obtain ⟨rfl, rfl⟩ := h)
  all_goals (simp_all [Good, expRun, expStep, inCall, dropPhase, notFresh, isGone, Fut.gone])
  all_goals try (constructor <;> simp_all [inCall, dropPhase, notFresh, isGone, Fut.gone])

/-- every possible step: the specification monitor accepts the new observations and the invariant holds again -/
theorem J_step {s s' : Sys} {m : ExpMon} {l : Label} (hj : J s m) (h : s.step l = some s') :
    ∃ new m', s'.obs = s.obs ++ new ∧ expRun m new = .ok m' ∧ J s' m' := by
  cases l with
  | hostCall =>
    simp only [Sys.step] at h
    split at h
    · simp at h
    · rename_i hp
      simp only [ne_eq, Decidable.not_not] at hp
      split at h
      · simp at h
      · rename_i e1 he1
        split at h
        · simp at h
        · rename_i e2 he2
          obtain ⟨ev1, h1⟩ := okOf_some he1
          obtain ⟨ev2, h2⟩ := okOf_some he2
          simp at h; subst h
          obtain ⟨m', hm, hj'⟩ := J_hostCall hj hp h1 h2
          exact ⟨_, m', rfl, hm, hj'⟩
  | hostCb e w c =>
    simp only [Sys.step] at h
    split at h
    · simp at h
    · rename_i hp
      simp only [ne_eq, Decidable.not_not] at hp
      split at h
      · simp at h
      · rename_i hc
        split at h
        · simp at h
        · rename_i e1 he1
          obtain ⟨ev1, h1⟩ := okOf_some he1
          simp at h; subst h
          obtain ⟨m', hm, hj'⟩ := J_hostCb hj hp hc h1
          exact ⟨_, m', rfl, hm, hj'⟩
  | rootPoll ready =>
    simp only [Sys.step] at h
    split at h
    · simp at h
    · rename_i hp
      simp only [ne_eq, Decidable.not_not] at hp
      split at h
      · simp at h
      · rename_i f evs hf
        simp at h; subst h
        obtain ⟨m', hm, hj'⟩ := J_rootPoll hj hp hf
        exact ⟨_, m', rfl, hm, hj'⟩
  | rootDrop =>
    simp only [Sys.step] at h
    split at h
    · simp at h
    · rename_i hp
      simp only [ne_eq, Decidable.not_not] at hp
      split at h
      · simp at h
      · rename_i f evs hf
        simp at h; subst h
        obtain ⟨m', hm, hj'⟩ := J_rootDrop hj hp hf
        exact ⟨_, m', rfl, hm, hj'⟩
  | exec l =>
    have fin : ∀ {e1 : St}, Good m { s with ex := e1, obs := s.obs ++ cbTokens s.ex e1 } (cbTokens s.ex e1) →
        some ({ s with ex := e1, obs := s.obs ++ cbTokens s.ex e1 } : Sys) = some s' →
        ∃ new m', s'.obs = s.obs ++ new ∧ expRun m new = .ok m' ∧ J s' m' := by
      intro e1 hg hs
      simp at hs; subst hs
      obtain ⟨m', hm, hj'⟩ := hg
      exact ⟨_, m', rfl, hm, hj'⟩
    cases l with
    | start => simp [Sys.step] at h
    | call e w c => simp [Sys.step] at h
    | pollDone r e =>
      simp only [Sys.step] at h
      split at h
      · simp at h
      · rename_i hc
        simp only [not_or, not_and] at hc
        split at h
        · simp at h
        · rename_i e1 he1
          obtain ⟨ev1, h1⟩ := okOf_some he1
          exact fin (J_pollDone hj hc.1 (by intro he; have := hc.2 he; simpa using this) h1) h
    | dropTasksDone =>
      simp only [Sys.step] at h
      split at h
      · simp at h
      · rename_i hc
        split at h
        · simp at h
        · rename_i e1 he1
          obtain ⟨ev1, h1⟩ := okOf_some he1
          exact fin (J_dropTasksDone hj (by simpa using hc) h1) h
    | tau => simp only [Sys.step] at h; split at h; · simp at h
             · rename_i e1 he1; obtain ⟨ev1, h1⟩ := okOf_some he1; exact fin (J_tau hj h1) h
    | tok e => simp only [Sys.step] at h; split at h; · simp at h
               · rename_i e1 he1; obtain ⟨ev1, h1⟩ := okOf_some he1; exact fin (J_tok hj h1) h
    | reg w n => simp only [Sys.step] at h; split at h; · simp at h
                 · rename_i e1 he1; obtain ⟨ev1, h1⟩ := okOf_some he1; exact fin (J_reg hj h1) h
    | unreg w => simp only [Sys.step] at h; split at h; · simp at h
                 · rename_i e1 he1; obtain ⟨ev1, h1⟩ := okOf_some he1; exact fin (J_unreg hj h1) h
    | cloneRef => simp only [Sys.step] at h; split at h; · simp at h
                  · rename_i e1 he1; obtain ⟨ev1, h1⟩ := okOf_some he1; exact fin (J_cloneRef hj h1) h
    | dropRef => simp only [Sys.step] at h; split at h; · simp at h
                 · rename_i e1 he1; obtain ⟨ev1, h1⟩ := okOf_some he1; exact fin (J_dropRef hj h1) h
    | wake a => simp only [Sys.step] at h; split at h; · simp at h
                · rename_i e1 he1; obtain ⟨ev1, h1⟩ := okOf_some he1; exact fin (J_wake hj h1) h
    | cbDone => simp only [Sys.step] at h; split at h; · simp at h
                · rename_i e1 he1; obtain ⟨ev1, h1⟩ := okOf_some he1; exact fin (J_cbDone hj h1) h
    | cancelRead a => simp only [Sys.step] at h; split at h; · simp at h
                      · rename_i e1 he1; obtain ⟨ev1, h1⟩ := okOf_some he1; exact fin (J_cancelRead hj h1) h
    | decide e w c => simp only [Sys.step] at h; split at h; · simp at h
                      · rename_i e1 he1; obtain ⟨ev1, h1⟩ := okOf_some he1; exact fin (J_decide hj h1) h
    | sleepRead r w n a => simp only [Sys.step] at h; split at h; · simp at h
                           · rename_i e1 he1; obtain ⟨ev1, h1⟩ := okOf_some he1; exact fin (J_sleepRead hj h1) h

/-- the invariant holds in every reachable state, for the monitor state reached on the observations -/
theorem reach_J {itw : Bool} {s : Sys} (h : Reach itw s) : ∃ m, expRun {} s.obs = .ok m ∧ J s m := by
  induction h with
  | init => exact ⟨{}, rfl, J_init itw⟩
  | step _ hs ih =>
    obtain ⟨m, hm, hj⟩ := ih
    obtain ⟨new, m', ho, hr, hj'⟩ := J_step hj hs
    refine ⟨m', ?_, hj'⟩
    rw [ho, expRun_append, hm]
    exact hr

theorem run_reach {itw : Bool} {s s' : Sys} (ls : List Label) (h : Reach itw s) (hr : run s ls = some s') : Reach itw s' := by
  induction ls generalizing s with
  | nil => simp [run] at hr; subst hr; exact h
  | cons l ls ih =>
    simp only [run] at hr
    split at hr
    · exact ih (.step h ‹_›) hr
    · simp at hr

end Witverif.Async.ExportGlue
