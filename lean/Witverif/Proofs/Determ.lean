import Witverif.Text.Determ
/-! Helper lemmas for C15: insertion sort is a sort. -/
namespace Witverif.Text.Determ

theorem insertSorted_perm {α} (le : α → α → Bool) (a : α) (l : List α) :
    (insertSorted le a l).Perm (a :: l) := by
  induction l with
  | nil => exact List.Perm.refl _
  | cons b bs ih =>
    unfold insertSorted
    split
    · exact List.Perm.refl _
    · exact (List.Perm.cons b ih).trans (List.Perm.swap a b bs)

theorem sortBy_perm {α} (le : α → α → Bool) (l : List α) : (sortBy le l).Perm l := by
  induction l with
  | nil => exact List.Perm.refl _
  | cons a as ih => exact (insertSorted_perm le a _).trans (List.Perm.cons a ih)

theorem insertSorted_pairwise {α} (le : α → α → Bool)
    (htotal : ∀ a b, le a b = true ∨ le b a = true)
    (htrans : ∀ a b c, le a b = true → le b c = true → le a c = true)
    (a : α) (l : List α) (h : l.Pairwise (fun x y => le x y = true)) :
    (insertSorted le a l).Pairwise (fun x y => le x y = true) := by
  induction l with
  | nil => simp [insertSorted]
  | cons b bs ih =>
    unfold insertSorted
    have hb := (List.pairwise_cons.mp h)
    split
    · rename_i hab
      refine List.pairwise_cons.mpr ⟨?_, h⟩
      intro y hy
      rcases List.mem_cons.mp hy with rfl | hy
      · exact hab
      · exact htrans _ _ _ hab (hb.1 y hy)
    · rename_i hab
      have hba : le b a = true := by
        rcases htotal a b with h1 | h1
        · exact absurd h1 hab
        · exact h1
      refine List.pairwise_cons.mpr ⟨?_, ih hb.2⟩
      intro y hy
      have := (insertSorted_perm le a bs).mem_iff.mp hy
      rcases List.mem_cons.mp this with rfl | hy'
      · exact hba
      · exact hb.1 y hy'

theorem sortBy_pairwise {α} (le : α → α → Bool)
    (htotal : ∀ a b, le a b = true ∨ le b a = true)
    (htrans : ∀ a b c, le a b = true → le b c = true → le a c = true) (l : List α) :
    (sortBy le l).Pairwise (fun x y => le x y = true) := by
  induction l with
  | nil => simp [sortBy]
  | cons a as ih => exact insertSorted_pairwise le htotal htrans a _ ih

end Witverif.Text.Determ
