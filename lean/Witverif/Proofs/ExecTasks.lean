import Witverif.Async.ExecScript
/-!
`Tasks::poll_next` (model in `Async/ExecScript.lean`: spawn.rs with `FuturesUnordered`, and
spawn_disabled.rs) reports `Ready` only when no future is left and nothing spawned is waiting to be
adopted — the fact behind the executor's `assert!(me.tasks.is_empty())` and C22
`spawned_finish_before_exit`.
-/
namespace Witverif.Async.Exec
open Witverif.Async Witverif.Async.Task

/-- no future of task `t` is left -/
def NoFutures (s : Sys) (t : Nat) : Prop :=
  match s.getTask t with
  | some r => r.fu.linked = []
  | none => True

theorem fuPollNext_go_readyNone (t len : Nat) : ∀ (fuel polled yielded : Nat) (s s' : Sys),
    fuPollNext.go t len fuel polled yielded s = (s', .readyNone) → NoFutures s' t := by
  intro fuel
  induction fuel with
  | zero => intro p y s s' h; simp [fuPollNext.go] at h
  | succ n ih =>
    intro p y s s' h
    unfold fuPollNext.go at h
    simp only at h
    repeat' split at h
    all_goals first
      | exact ih _ _ _ _ h
      | (simp at h; done)
      | (simp at h; obtain ⟨rfl, _⟩ := h; simp_all [NoFutures])

theorem fuPollNext_readyNone {s s' : Sys} {t : Nat} (h : fuPollNext s t = (s', .readyNone)) : NoFutures s' t := by
  unfold fuPollNext at h
  exact fuPollNext_go_readyNone _ _ _ _ _ _ _ h

end Witverif.Async.Exec

namespace Witverif.Async.Exec
open Witverif.Async Witverif.Async.Task

theorem modFU_spawned (s : Sys) (t : Nat) (f : FU → FU) : (s.modFU t f).spawned = s.spawned := by
  unfold Sys.modFU; split <;> simp [Sys.setTask]; split <;> rfl

theorem getTask_modFU_id (s : Sys) (t : Nat) : (s.modFU t (fun fu => fu)).getTask t = s.getTask t := by
  unfold Sys.modFU
  cases h : s.getTask t with
  | none => simp [h]
  | some r =>
    simp only
    unfold Sys.getTask Sys.setTask at *
    split at h
    · simp at h
    · rename_i ht
      simp only [ht, if_false]
      have hlt : t - 1 < s.tasks.length := by
        rcases Nat.lt_or_ge (t - 1) s.tasks.length with h' | h'
        · exact h'
        · simp [List.getElem?_eq_none h'] at h
      simp [hlt]

theorem tasksPollNext_go_ready (t : Nat) : ∀ (fuel : Nat) (s s' : Sys) (empty : Bool),
    tasksPollNext.go t fuel s = (s', true, empty) → NoFutures s' t ∧ s'.spawned = [] := by
  intro fuel
  induction fuel with
  | zero => intro s s' e h; simp [tasksPollNext.go] at h
  | succ n ih =>
    intro s s' e h
    unfold tasksPollNext.go at h
    simp only at h
    generalize hfu : fuPollNext s t = fp at h
    obtain ⟨s1, p⟩ := fp
    simp only at h
    split at h
    · simp at h
    · cases p with
      | pending =>
        simp only at h
        split at h
        · simp at h
        · exact ih _ _ _ h
      | readySome => exact ih _ _ _ h
      | readyNone =>
        simp only at h
        split at h
        · -- `Ready(None)` and nothing was spawned: nothing is adopted, the futures are as `poll_next` left them
          rename_i hsp
          simp at h
          obtain ⟨rfl, _⟩ := h
          have hn := fuPollNext_readyNone hfu
          simp at hsp
          constructor
          · have hg := getTask_modFU_id { s1 with spawned := [] } t
            simp only [NoFutures, hsp, List.foldl_nil] at hn ⊢
            rw [hg]
            exact hn
          · simp [modFU_spawned]
        · simp at h

/-- `Tasks::poll_next` (either variant) answers `Ready` only with no future left; in the `async-spawn`
variant additionally nothing spawned is waiting in `SPAWNED`. -/
theorem tasksPollNext_ready {s s' : Sys} {t : Nat} {empty : Bool} (h : tasksPollNext s t = (s', true, empty)) :
    NoFutures s' t ∧ (s.build.spawn = true → s'.spawned = []) := by
  unfold tasksPollNext at h
  split at h
  · rename_i hsp
    refine ⟨?_, fun h' => by simp [h'] at hsp⟩
    split at h
    · rename_i hn
      simp at h
      obtain ⟨rfl, _⟩ := h
      unfold NoFutures
      cases hg : s.getTask t with
      | none => simp
      | some r => simp [hg] at hn; simp [hn]
    · simp only at h
      split at h
      · simp at h
      · simp at h
        obtain ⟨rfl, he, _⟩ := h
        unfold isEmpty at he
        unfold NoFutures
        split at he <;> simp_all
  · have := tasksPollNext_go_ready t _ _ _ _ h
    exact ⟨this.1, fun _ => this.2⟩

end Witverif.Async.Exec
