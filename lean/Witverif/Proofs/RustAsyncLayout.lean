import Witverif.Abi.RustAsync
import Witverif.Abi.AsyncHostCall
import Witverif.Proofs.CLayout
import Witverif.Proofs.AbiSig
/-! C08: the layout numbers the Rust backend computes for an async-lowered import (`abi_layout`,
`results_offset`, the parameter offsets of `params_lower`) satisfy what the canonical ABI requires of
the parameter / result area (`AsyncHost.areaOk`), for every function and both pointer widths. -/
namespace Witverif.Abi.RustAsync
open Witverif.Abi Witverif.Abi.CProfile

/-! ### arithmetic of `alignTo` on the alignments that occur (1, 2, 4, 8) -/

theorem P2_pos {a : Nat} (h : P2 a) : 0 < a := by rcases h with rfl | rfl | rfl | rfl <;> decide

theorem alignTo_ge (n a : Nat) (h : P2 a) : n ≤ alignTo n a := by
  unfold alignTo
  rcases h with rfl | rfl | rfl | rfl <;> omega

theorem alignTo_mod (n a : Nat) (h : P2 a) : alignTo n a % a = 0 := by
  unfold alignTo
  rcases h with rfl | rfl | rfl | rfl <;> omega

theorem alignTo_zero (a : Nat) (h : P2 a) : alignTo 0 a = 0 := by
  unfold alignTo
  rcases h with rfl | rfl | rfl | rfl <;> decide

theorem P2_mod_of_le {a b : Nat} (ha : P2 a) (hb : P2 b) (h : a ≤ b) : b % a = 0 := by
  rcases ha with rfl | rfl | rfl | rfl <;> rcases hb with rfl | rfl | rfl | rfl <;> omega

/-- aligning a smaller offset to a coarser-or-equal power of two never overtakes aligning a larger
offset to a finer one -/
theorem alignTo_mono (x y a b : Nat) (ha : P2 a) (hb : P2 b) (hab : a ≤ b) (hxy : x ≤ y) :
    alignTo x a ≤ alignTo y b := by
  unfold alignTo
  rcases ha with rfl | rfl | rfl | rfl <;> rcases hb with rfl | rfl | rfl | rfl <;> omega

theorem max_one_P2 {a : Nat} (h : P2 a) : Nat.max a 1 = a := by
  rcases h with rfl | rfl | rfl | rfl <;> decide

/-! ### records extended by one field -/

theorem fieldOffsets_append (p : Nat) (t : Ty) : ∀ (ts : List Ty) (cur : Nat),
    fieldOffsets p cur (ts ++ [t]) = fieldOffsets p cur ts ++ [alignTo (recordEnd p cur ts) (alignment p t)]
  | [], cur => by simp [fieldOffsets, recordEnd]
  | u :: ts, cur => by
      simp only [List.cons_append, fieldOffsets, recordEnd]
      rw [fieldOffsets_append p t ts]

theorem recordEnd_append (p : Nat) (t : Ty) : ∀ (ts : List Ty) (cur : Nat),
    recordEnd p cur (ts ++ [t]) = alignTo (recordEnd p cur ts) (alignment p t) + elemSize p t
  | [], cur => by simp [recordEnd]
  | u :: ts, cur => by
      simp only [List.cons_append, recordEnd]
      rw [recordEnd_append p t ts]

theorem maxAlign_append (p : Nat) (t : Ty) : ∀ (ts : List Ty),
    maxAlign p (ts ++ [t]) = Nat.max (maxAlign p ts) (Nat.max (alignment p t) 1)
  | [] => by
      simp only [List.nil_append, maxAlign, Nat.max_def]
      repeat' split
      all_goals omega
  | u :: ts => by
      simp only [List.cons_append, maxAlign]
      rw [maxAlign_append p t ts]
      simp only [Nat.max_def]
      repeat' split
      all_goals omega

theorem fieldOffsets_length (p : Nat) : ∀ (ts : List Ty) (cur : Nat), (fieldOffsets p cur ts).length = ts.length
  | [], _ => rfl
  | t :: ts, cur => by simp [fieldOffsets, fieldOffsets_length p ts]

/-- the offsets `params_lower` stores the parameters at are a prefix of the offsets of the whole
`heap_types` record: parameter `i` lies where the host's `load` of the parameter TUPLE reads it -/
theorem param_offsets_prefix (p : Nat) (ts : List Ty) (t : Ty) :
    (fieldOffsets p 0 (ts ++ [t])).take ts.length = fieldOffsets p 0 ts := by
  rw [fieldOffsets_append]
  simp [fieldOffsets_length]

/-! ### the numbers of the model at one pointer width -/

theorem at4 (a b : Nat) : (Off.mk a b).at 4 = a := by simp [Off.at]
theorem at8 (a b : Nat) : (Off.mk a b).at 8 = b := by simp [Off.at]

theorem size_at (p : Nat) (hp : p = 4 ∨ p = 8) (f : Func) :
    (abiLayout f).1.at p = elemSize p (.record (heapTypes f)) := by
  rcases hp with rfl | rfl <;> simp [abiLayout, recordSizeOff, sizeOff, Off.at]

theorem align_at (p : Nat) (hp : p = 4 ∨ p = 8) (f : Func) :
    (abiLayout f).2.at p = maxAlign p (heapTypes f) := by
  rcases hp with rfl | rfl <;> simp [abiLayout, recordAlignOff, alignOff, Off.at, alignment]

theorem getLast_zipWith_append {α β γ : Type} (g : α → β → γ) (as : List α) (bs : List β) (a : α) (b : β)
    (h : as.length = bs.length) :
    (List.zipWith g (as ++ [a]) (bs ++ [b])).getLast? = some (g a b) := by
  rw [List.zipWith_append h]
  simp

theorem roff_at (p : Nat) (hp : p = 4 ∨ p = 8) (f : Func) (t : Ty) (hr : f.result = some t) :
    (resultsOffset f).at p =
      alignTo (recordEnd p 0 (if indirect f then f.params else [])) (alignment p t) := by
  unfold resultsOffset heapTypes fieldOffs
  simp only [hr, Option.toList]
  rw [fieldOffsets_append, fieldOffsets_append,
    getLast_zipWith_append _ _ _ _ _ (by simp [fieldOffsets_length])]
  rcases hp with rfl | rfl <;> simp [Off.at]

theorem indirect_iff_spec (p : Nat) (hp : p = 4 ∨ p = 8) (f : Func) :
    AsyncHost.paramsIndirect p f.params = indirect f := by
  unfold AsyncHost.paramsIndirect indirect HostCall.paramsTy AsyncHost.maxFlatAsyncParams
  simp only [Spec.flatten, flattenList_len p hp, wasmSignature, maxFlatAsyncParams]
  simp [apply_ite Sig.indirectParams]

/-- **`abi_layout` / `results_offset` meet the canonical ABI's requirements** for the area an
async-lowered call hands to the host, for every function (any parameter and result types) and both
pointer widths: when the parameters travel through memory the parameter pointer (`base`) is aligned
for the parameter tuple and the whole tuple is in bounds; when there is a result the result pointer
(`base + results_offset`) is aligned for the result type, the result is in bounds, and it starts at
or after the last byte of the last parameter — so the host's `load` of the parameters at STARTED and
its `store` of the result at RETURNED are legal and touch disjoint bytes. -/
theorem areaOk_model (p : Nat) (hp : p = 4 ∨ p = 8) (f : Func) :
    AsyncHost.areaOk p f.params f.result ((abiLayout f).1.at p) ((abiLayout f).2.at p) ((resultsOffset f).at p) = true := by
  have hP : ∀ t, P2 (alignment p t) := alignment_P2 p hp
  have hM : ∀ ts, P2 (maxAlign p ts) := maxAlign_P2 p hp
  unfold AsyncHost.areaOk
  rw [indirect_iff_spec p hp, size_at p hp, align_at p hp]
  simp only [HostCall.paramsTy, alignment, elemSize, AsyncHost.paramsExtent]
  cases hr : f.result with
  | none =>
    have hh : heapTypes f = if indirect f then f.params else [] := by simp [heapTypes, hr]
    rw [hh]
    cases hi : indirect f
    · simp [maxAlign]
    · simp only [if_true, Bool.not_true, Bool.false_or, Bool.and_true, Bool.and_eq_true, beq_iff_eq, decide_eq_true_eq]
      have := hM f.params
      refine ⟨⟨?_, Nat.le_refl _⟩, P2_pos this⟩
      rcases this with h | h | h | h <;> simp [h]
  | some t =>
    rw [roff_at p hp f t hr]
    have hh : heapTypes f = (if indirect f then f.params else []) ++ [t] := by simp [heapTypes, hr]
    rw [hh]
    cases hi : indirect f
    · -- only the result lives in the area
      simp only [Bool.false_eq_true, if_false, List.nil_append, Bool.not_false, Bool.true_or, Bool.true_and, Bool.and_true,
        recordEnd, maxAlign, Bool.and_eq_true, beq_iff_eq, decide_eq_true_eq]
      have h1 := hP t
      rw [max_one_P2 h1, alignTo_zero _ h1]
      refine ⟨⟨⟨?_, rfl⟩, ?_⟩, P2_pos h1⟩
      · rcases h1 with h | h | h | h <;> simp [h]
      · simpa using alignTo_ge (elemSize p t) _ h1
    · simp only [if_true, Bool.not_true, Bool.false_or, Bool.and_eq_true, beq_iff_eq, decide_eq_true_eq]
      have hA := hM f.params
      have hT := hP t
      have hT1 : Nat.max (alignment p t) 1 = alignment p t := max_one_P2 hT
      have hM' : P2 (maxAlign p (f.params ++ [t])) := hM _
      have hmax := maxAlign_append p t f.params
      rw [hT1] at hmax
      have hleA : maxAlign p f.params ≤ maxAlign p (f.params ++ [t]) := by rw [hmax]; exact Nat.le_max_left _ _
      have hleT : alignment p t ≤ maxAlign p (f.params ++ [t]) := by rw [hmax]; exact Nat.le_max_right _ _
      rw [recordEnd_append]
      refine ⟨⟨⟨P2_mod_of_le hA hM' hleA, ?_⟩, ⟨⟨⟨P2_mod_of_le hT hM' hleT, alignTo_mod _ _ hT⟩, alignTo_ge _ _ hM'⟩, alignTo_ge _ _ hT⟩⟩, P2_pos hM'⟩
      exact alignTo_mono _ _ _ _ hA hM' hleA (Nat.le_trans (alignTo_ge _ _ hT) (Nat.le_add_right _ _))

/-- without indirect parameters the result sits at offset 0 -/
theorem resultsOffset_direct (p : Nat) (hp : p = 4 ∨ p = 8) (f : Func) (hi : indirect f = false) :
    (resultsOffset f).at p = 0 := by
  cases hr : f.result with
  | none => simp [resultsOffset, hr, Off.zero, Off.at]
  | some t =>
    rw [roff_at p hp f t hr]
    simp [hi, recordEnd, alignTo_zero _ (alignment_P2 p hp t)]

/-- with indirect parameters, parameter `i` is stored at offset `i` of the parameter TUPLE's own
layout (what `Spec.load (tuple params)` reads), whatever result type follows in `heap_types` -/
theorem paramOffsets_are_tuple_offsets (f : Func) (hi : indirect f = true) :
    paramOffsets f = fieldOffs f.params ∧
    ∀ t, f.result = some t →
      (fieldOffs (heapTypes f)).take f.params.length = fieldOffs f.params := by
  refine ⟨by simp [paramOffsets, hi], ?_⟩
  intro t hr
  simp only [heapTypes, hi, if_true, hr, Option.toList, fieldOffs]
  rw [List.take_zipWith, param_offsets_prefix, param_offsets_prefix]

end Witverif.Abi.RustAsync
