import Witverif.Text.ByteLit
/-! Helper lemmas for the component-type literal (C09): the Rust lexer inverts `emit_custom_section`'s escaping. -/
namespace Witverif.Text.ByteLit
open Witverif.Text.ByteLitSpec

/-- the two-character escapes of the Rust lexer and their values -/
def litDecodes (s : List Char) (b : Nat) : Bool :=
  (s == ['\\', '\\'] && b == 92) || (s == ['\\', '"'] && b == 34) || (s == ['\\', '0'] && b == 0) ||
  (s == ['\\', 'n'] && b == 10) || (s == ['\\', 't'] && b == 9) || (s == ['\\', 'r'] && b == 13) ||
  (s == ['\\', '\''] && b == 39)

/-- what an arm's action must satisfy for the byte it is applied to: a literal must be the lexer's
escape of that byte; a byte written verbatim must be ASCII, not `\` or `"`, and **not whitespace**
(a whitespace character right after a `\`-newline continuation is skipped by the lexer) -/
def byteOk (arms : List (Pat × Act)) (b : Nat) : Bool :=
  match actOf arms b with
  | .lit s => litDecodes s b
  | .verbatim => b < 128 && b != 32 && b != 9 && b != 10 && b != 13 && b != 92 && b != 34
  | .hex => true

/-- decidable fact about the extracted table -/
def tableOk (arms : List (Pat × Act)) : Bool := (List.range 256).all (byteOk arms)

theorem byteOk_of_tableOk {arms : List (Pat × Act)} (h : tableOk arms = true) {b : Nat} (hb : b < 256) :
    byteOk arms b = true := by
  simp only [tableOk, List.all_eq_true, List.mem_range] at h
  exact h b hb

theorem toNat_ofNat_lt (n : Nat) (h : n < 0xd800) : (Char.ofNat n).toNat = n := by
  have hv : n.isValidChar := Or.inl h
  simp only [Char.ofNat, hv, dite_true, Char.ofNatAux, Char.toNat]
  simp [UInt32.toNat_ofNatLT]

theorem hexVal_hexDigit : ∀ n, n < 16 → hexVal (hexDigit n) = some n := by decide

theorem decode_continuation (skip : Bool) (t : List Char) :
    decode skip ('\\' :: '\n' :: t) = decode true t := by
  conv => lhs; unfold decode
  cases skip <;> simp [isWs]

theorem decode_quote (skip : Bool) (rest : List Char) : decode skip ('"' :: rest) = some ([], rest) := by
  conv => lhs; unfold decode
  cases skip <;> simp [isWs]

/-- one byte: the lexer reads back what the table wrote, whatever follows and whether or not a
continuation is being skipped -/
theorem decode_escByte (arms : List (Pat × Act)) (b : Nat) (hb : b < 256) (h : byteOk arms b = true)
    (skip : Bool) (tail : List Char) :
    decode skip (escByte arms b ++ tail) = consB b (decode false tail) := by
  unfold byteOk at h
  unfold escByte
  cases ha : actOf arms b with
  | lit s =>
    simp only [ha, litDecodes, Bool.or_eq_true, Bool.and_eq_true, beq_iff_eq] at h
    rcases h with (((((⟨rfl, rfl⟩ | ⟨rfl, rfl⟩) | ⟨rfl, rfl⟩) | ⟨rfl, rfl⟩) | ⟨rfl, rfl⟩) | ⟨rfl, rfl⟩) | ⟨rfl, rfl⟩ <;>
      (simp only [List.cons_append, List.nil_append]; conv => lhs; unfold decode
       simp [isWs])
  | verbatim =>
    simp only [ha, Bool.and_eq_true, decide_eq_true_eq, bne_iff_ne, ne_eq] at h
    obtain ⟨⟨⟨⟨⟨⟨h128, h32⟩, h9⟩, h10⟩, h13⟩, h92⟩, h34⟩ := h
    have ht : (Char.ofNat b).toNat = b := toNat_ofNat_lt b (by omega)
    have hne : ∀ (c : Char), c.toNat ≠ b → (Char.ofNat b == c) = false := by
      intro c hc
      cases hx : Char.ofNat b == c
      · rfl
      · have : Char.ofNat b = c := by simpa using hx
        rw [← this] at hc; exact absurd ht hc
    have w1 := hne ' ' (fun e => h32 (by rw [← e]; rfl))
    have w2 := hne '\t' (fun e => h9 (by rw [← e]; rfl))
    have w3 := hne '\n' (fun e => h10 (by rw [← e]; rfl))
    have w4 := hne '\r' (fun e => h13 (by rw [← e]; rfl))
    have w5 := hne '\\' (fun e => h92 (by rw [← e]; rfl))
    have w6 := hne '"' (fun e => h34 (by rw [← e]; rfl))
    generalize Char.ofNat b = c at ht w1 w2 w3 w4 w5 w6
    have hws : isWs c = false := by simp [isWs, w1, w2, w3, w4]
    have hcr : (c != '\r') = true := by simp [bne, w4]
    show decode skip (c :: tail) = _
    conv => lhs; unfold decode
    simp [hws, w5, w6, ht, h128, hcr]
  | hex =>
    have h1 := hexVal_hexDigit (b / 16) (by omega)
    have h2 := hexVal_hexDigit (b % 16) (by omega)
    have hb' : b / 16 * 16 + b % 16 = b := by omega
    cases skip <;> simp [decode, isWs, h1, h2, hb']

/-- **The lexer inverts the escaping**, for every byte list and every placement of continuations. -/
theorem decode_emitW (arms : List (Pat × Act)) (hok : tableOk arms = true) :
    ∀ (ws : List Bool) (bs : List Nat), ws.length = bs.length → (∀ b ∈ bs, b < 256) →
      ∀ (skip : Bool) (rest : List Char),
        decode skip (emitW arms ws bs ++ '"' :: rest) = some (bs, rest) := by
  intro ws
  induction ws with
  | nil =>
    intro bs hl _ skip rest
    cases bs with
    | nil => simp [emitW, decode_quote]
    | cons _ _ => simp at hl
  | cons w ws ih =>
    intro bs hl hb skip rest
    cases bs with
    | nil => simp at hl
    | cons b bs =>
      have hb0 : b < 256 := hb b (by simp)
      have ih' := ih bs (by simpa using hl) (fun x hx => hb x (by simp [hx])) false rest
      have hesc := fun sk => decode_escByte arms b hb0 (byteOk_of_tableOk hok hb0) sk
        (emitW arms ws bs ++ '"' :: rest)
      cases w with
      | false =>
        simp only [emitW, Bool.false_eq_true, if_false, List.nil_append, List.append_assoc]
        rw [hesc, ih']; rfl
      | true =>
        simp only [emitW, if_true, List.cons_append, List.nil_append, List.append_assoc]
        rw [decode_continuation, hesc, ih']; rfl

theorem emitLoop_eq_emitW (arms : List (Pat × Act)) (width : Nat) :
    ∀ (bs : List Nat) (ll : Nat), emitLoop arms width ll bs = emitW arms (wrapsOf arms width ll bs) bs := by
  intro bs
  induction bs with
  | nil => intro ll; simp [emitLoop, wrapsOf, emitW]
  | cons b bs ih => intro ll; simp [emitLoop, wrapsOf, emitW, ih]

theorem wrapsOf_length (arms : List (Pat × Act)) (width : Nat) :
    ∀ (bs : List Nat) (ll : Nat), (wrapsOf arms width ll bs).length = bs.length := by
  intro bs
  induction bs with
  | nil => intro ll; simp [wrapsOf]
  | cons b bs ih => intro ll; simp [wrapsOf, ih]

end Witverif.Text.ByteLit
