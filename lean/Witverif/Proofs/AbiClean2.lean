import Witverif.Proofs.AbiClean
/-! C03: `dealloc_cleans` — cleanup through memory in both modes. -/
namespace Witverif.Abi
open Spec

mutual
theorem needs_mono : ∀ (t : Ty), needsDealloc true t = false → needsDealloc false t = false
  | .bool, _ | .s8, _ | .u8, _ | .s16, _ | .u16, _ | .s32, _ | .u32, _ | .s64, _ | .u64, _ | .f32, _ | .f64, _
  | .char, _ | .errctx, _ | .own, _ | .borrow, _ | .flags _, _ | .enum _, _ | .future _, _ | .stream _, _ => by
      simp [needsDealloc]
  | .string, h | .list _, h | .map _ _, h => by simp [needsDealloc] at h
  | .flist e _, h => by simp [needsDealloc] at h ⊢; exact needs_mono e h
  | .record fs, h => by simp [needsDealloc] at h ⊢; exact needsAny_mono fs h
  | .tuple ts, h => by simp [needsDealloc] at h ⊢; exact needsAny_mono ts h
  | .variant cs, h => by simp [needsDealloc] at h ⊢; exact needsAnyOpt_mono cs h
  | .option t, h => by simp [needsDealloc] at h ⊢; exact needs_mono t h
  | .result a b, h => by
      simp [needsDealloc] at h ⊢
      exact ⟨needsOpt_mono a h.1, needsOpt_mono b h.2⟩
theorem needsAny_mono : ∀ (ts : List Ty), needsDeallocAny true ts = false → needsDeallocAny false ts = false
  | [], _ => by simp [needsDeallocAny]
  | t :: ts, h => by
      simp [needsDeallocAny] at h ⊢
      exact ⟨needs_mono t h.1, needsAny_mono ts h.2⟩
theorem needsOpt_mono : ∀ (o : Option Ty), needsDeallocOpt true o = false → needsDeallocOpt false o = false
  | none, _ => by simp [needsDeallocOpt]
  | some t, h => by simp [needsDeallocOpt] at h ⊢; exact needs_mono t h
theorem needsAnyOpt_mono : ∀ (cs : List (Option Ty)), needsDeallocAnyOpt true cs = false → needsDeallocAnyOpt false cs = false
  | [], _ => by simp [needsDeallocAnyOpt]
  | c :: cs, h => by
      simp [needsDeallocAnyOpt] at h ⊢
      exact ⟨needsOpt_mono c h.1, needsAnyOpt_mono cs h.2⟩
end

mutual
/-- a type that owns nothing in the ownership-releasing mode stores no owned handle (below anything
but a fixed-length list, which the cleanup skips) -/
theorem cleanupHandles_nil (p : Nat) (m : Mem) : ∀ (t : Ty) (a : Nat), needsDealloc true t = false →
    cleanupHandles p m t a = []
  | .bool, _, _ | .s8, _, _ | .u8, _, _ | .s16, _, _ | .u16, _, _ | .s32, _, _ | .u32, _, _
  | .s64, _, _ | .u64, _, _ | .f32, _, _ | .f64, _, _ | .char, _, _ | .errctx, _, _
  | .borrow, _, _ | .flags _, _, _ | .enum _, _, _ | .string, _, _ | .flist _ _, _, _ => by
      simp [cleanupHandles]
  | .own, _, h | .future _, _, h | .stream _, _, h | .list _, _, h | .map _ _, _, h => by simp [needsDealloc] at h
  | .record fs, a, h => by simp [needsDealloc] at h; simp [cleanupHandles, cleanupHandlesFields_nil p m fs a 0 h]
  | .tuple ts, a, h => by simp [needsDealloc] at h; simp [cleanupHandles, cleanupHandlesFields_nil p m ts a 0 h]
  | .variant cs, a, h => by simp [needsDealloc] at h; simp [cleanupHandles, cleanupHandlesCase_nil p m cs _ _ h]
  | .option t, a, h => by
      simp [needsDealloc] at h
      simp only [cleanupHandles]; split <;> simp [cleanupHandles_nil p m t _ h]
  | .result ok err, a, h => by
      simp [needsDealloc] at h
      simp only [cleanupHandles]
      split
      · exact cleanupHandlesOpt_nil p m ok _ h.1
      · split
        · exact cleanupHandlesOpt_nil p m err _ h.2
        · rfl
theorem cleanupHandlesFields_nil (p : Nat) (m : Mem) : ∀ (ts : List Ty) (a cur : Nat), needsDeallocAny true ts = false →
    cleanupHandlesFields p m ts a cur = []
  | [], _, _, _ => by simp [cleanupHandlesFields]
  | t :: ts, a, cur, h => by
      simp [needsDeallocAny] at h
      simp [cleanupHandlesFields, cleanupHandles_nil p m t _ h.1, cleanupHandlesFields_nil p m ts a _ h.2]
theorem cleanupHandlesOpt_nil (p : Nat) (m : Mem) : ∀ (o : Option Ty) (a : Nat), needsDeallocOpt true o = false →
    cleanupHandlesOpt p m o a = []
  | none, _, _ => by simp [cleanupHandlesOpt]
  | some t, a, h => by simp [needsDeallocOpt] at h; simp [cleanupHandlesOpt, cleanupHandles_nil p m t a h]
theorem cleanupHandlesCase_nil (p : Nat) (m : Mem) : ∀ (cs : List (Option Ty)) (i a : Nat),
    needsDeallocAnyOpt true cs = false → cleanupHandlesCase p m cs i a = []
  | [], _, _, _ => by simp [cleanupHandlesCase]
  | c :: cs, 0, a, h => by
      simp [needsDeallocAnyOpt] at h; simp [cleanupHandlesCase, cleanupHandlesOpt_nil p m c a h.1]
  | c :: cs, i + 1, a, h => by
      simp [needsDeallocAnyOpt] at h; simp [cleanupHandlesCase, cleanupHandlesCase_nil p m cs i a h.2]
end

/-- the ledger effect the spec assigns to cleaning up a value of type `t` at `x` in mode `hd` -/
def cleanupEff (hd : Bool) (p : Nat) (m : Mem) (t : Ty) (x : Nat) : Eff :=
  (cleanupBlocks p m t x, if hd then cleanupHandles p m t x else [])
def cleanupEffFields (hd : Bool) (p : Nat) (m : Mem) (ts : List Ty) (x cur : Nat) : Eff :=
  (cleanupFields p m ts x cur, if hd then cleanupHandlesFields p m ts x cur else [])
def cleanupEffOpt (hd : Bool) (p : Nat) (m : Mem) (o : Option Ty) (x : Nat) : Eff :=
  (cleanupOpt p m o x, if hd then cleanupHandlesOpt p m o x else [])
def cleanupEffCase (hd : Bool) (p : Nat) (m : Mem) (cs : List (Option Ty)) (i x : Nat) : Eff :=
  (cleanupCase p m cs i x, if hd then cleanupHandlesCase p m cs i x else [])

theorem cleanupEff_nil (hd : Bool) (p : Nat) (m : Mem) (t : Ty) (x : Nat) (h : needsDealloc hd t = false) :
    cleanupEff hd p m t x = ([], []) := by
  cases hd
  · simp [cleanupEff, cleanup_nil p m t x h]
  · simp [cleanupEff, cleanup_nil p m t x (needs_mono t h), cleanupHandles_nil p m t x h]

set_option maxHeartbeats 800000 in
mutual
theorem dealloc_cleans (hd : Bool) (p : Nat) (hp : p = 4 ∨ p = 8) : ∀ (t : Ty), noFlist t = true →
    ∀ (lvl : Nat) (a : Expr) (off : Off) (ds : List Stmt), deallocIndirect hd lvl t a off = .ok ds →
    Cleans p lvl a ds (fun m x => cleanupEff hd p m t (x + off.at p)) (fun m x => validDiscs p m t (x + off.at p))
  | .bool, _, _, _, _, _, h | .s8, _, _, _, _, _, h | .u8, _, _, _, _, _, h | .s16, _, _, _, _, _, h
  | .u16, _, _, _, _, _, h | .s32, _, _, _, _, _, h | .u32, _, _, _, _, _, h | .s64, _, _, _, _, _, h
  | .u64, _, _, _, _, _, h | .f32, _, _, _, _, _, h | .f64, _, _, _, _, _, h | .char, _, _, _, _, _, h
  | .errctx, _, _, _, _, _, h | .borrow, _, _, _, _, _, h | .flags _, _, _, _, _, _, h
  | .enum _, _, _, _, _, _, h => by
      simp [deallocIndirect, pure, Except.pure] at h
      subst h
      exact cleans_of_empty (by intros; cases hd <;> simp [cleanupEff, cleanupBlocks, cleanupHandles])
  | .own, _, lvl, a, off, ds, h => by
      simp [deallocIndirect, pure, Except.pure] at h
      subst h
      cases hd
      · exact cleans_of_empty (by intros; simp [cleanupEff, cleanupBlocks])
      · exact cleans_congr (cleans_drop p lvl a off .own (Or.inl rfl))
          (by intros; simp [cleanupEff, cleanupBlocks, cleanupHandles]) (fun _ _ _ => rfl)
  | .future q, _, lvl, a, off, ds, h => by
      simp [deallocIndirect, pure, Except.pure] at h
      subst h
      cases hd
      · exact cleans_of_empty (by intros; simp [cleanupEff, cleanupBlocks])
      · exact cleans_congr (cleans_drop p lvl a off (.future q) (Or.inr (Or.inl ⟨q, rfl⟩)))
          (by intros; simp [cleanupEff, cleanupBlocks, cleanupHandles]) (fun _ _ _ => rfl)
  | .stream q, _, lvl, a, off, ds, h => by
      simp [deallocIndirect, pure, Except.pure] at h
      subst h
      cases hd
      · exact cleans_of_empty (by intros; simp [cleanupEff, cleanupBlocks])
      · exact cleans_congr (cleans_drop p lvl a off (.stream q) (Or.inr (Or.inr ⟨q, rfl⟩)))
          (by intros; simp [cleanupEff, cleanupBlocks, cleanupHandles]) (fun _ _ _ => rfl)
  | .flist _ _, hn, _, _, _, _, _ => by simp [noFlist] at hn
  | .string, _, lvl, a, off, ds, h => by
      simp [deallocIndirect, pure, Except.pure] at h
      subst h
      exact cleans_congr (cleans_of_frees (frees_string p hp lvl a off))
        (by intros; cases hd <;> simp [cleanupEff, cleanupHandles]) (fun _ _ _ => rfl)
  | .list e, hn, lvl, a, off, ds, h => by
      simp [noFlist] at hn
      simp only [deallocIndirect, bind_ok] at h
      obtain ⟨body, hbody, hp'⟩ := h
      simp [pure, Except.pure] at hp'
      subst hp'
      have hb := dealloc_cleans hd p hp e hn (lvl + 1) (.base (lvl + 1)) Off.zero body hbody
      have := cleans_list p hp lvl a off e body _ _ hb
      refine cleans_congr this ?_ ?_
      · intro m x
        cases hd <;>
          simp [cleanupEff, cleanupBlocks, cleanupHandles, reachMany_eq_flatMap, reachManyH_eq_flatMap, Off.zero_at, Nat.add_assoc]
      · intro m x hv
        simpa [validDiscs, Off.zero_at, Nat.add_assoc] using hv
  | .map k v, hn, lvl, a, off, ds, h => by
      simp [noFlist] at hn
      simp only [deallocIndirect, bind_ok] at h
      obtain ⟨b1, hb1, b2, hb2, hp'⟩ := h
      simp [pure, Except.pure] at hp'
      subst hp'
      have h1 := dealloc_cleans hd p hp k hn.1 (lvl + 1) (.base (lvl + 1)) Off.zero b1 hb1
      have h2 := dealloc_cleans hd p hp v hn.2 (lvl + 1) (.base (lvl + 1)) _ b2 hb2
      have hvo : ((fieldOffs [k, v]).getD 1 Off.zero).at p = alignTo (elemSize p k) (alignment p v) := by
        rcases hp with rfl | rfl <;> simp [fieldOffs, fieldOffsets, Off.at, alignTo_zero]
      have h1' : Cleans p (lvl + 1) (.base (lvl + 1)) b1 (fun m x => cleanupEff hd p m k x) (fun m x => validDiscs p m k x) :=
        cleans_congr h1 (by intros; simp [Off.zero_at]) (by intro m x hv; simpa [Off.zero_at] using hv)
      have h2' : Cleans p (lvl + 1) (.base (lvl + 1)) b2
          (fun m x => cleanupEff hd p m v (x + alignTo (elemSize p k) (alignment p v)))
          (fun m x => validDiscs p m v (x + alignTo (elemSize p k) (alignment p v))) :=
        cleans_congr h2 (by intros; rw [hvo]) (by intro m x hv; rw [hvo]; exact hv)
      have := cleans_map p hp lvl a off k v (b1 ++ b2) _ _ (cleans_append h1' h2')
      refine cleans_congr this ?_ ?_
      · intro m x
        cases hd <;>
          simp [cleanupEff, Eff.app, cleanupBlocks, cleanupHandles, reachMany_eq_flatMap, reachManyH_eq_flatMap,
            Nat.add_assoc]
      · intro m x hv
        simpa [validDiscs, Nat.add_assoc] using hv
  | .record fs, hn, lvl, a, off, ds, h => by
      simp [noFlist] at hn
      simp only [deallocIndirect] at h
      split at h
      · have := deallocFields_cleans hd p hp fs hn lvl 0 0 a off ds h
        exact cleans_congr this (by intro m x; cases hd <;> simp [cleanupEff, cleanupEffFields, cleanupBlocks, cleanupHandles, curOf])
          (by intro m x hv; simpa [validDiscs, curOf] using hv)
      · rename_i hnd
        simp [pure, Except.pure] at h; subst h
        exact cleans_of_empty (by intro m x; exact cleanupEff_nil hd p m (.record fs) _ (by simpa [needsDealloc] using hnd))
  | .tuple ts, hn, lvl, a, off, ds, h => by
      simp [noFlist] at hn
      simp only [deallocIndirect] at h
      split at h
      · have := deallocFields_cleans hd p hp ts hn lvl 0 0 a off ds h
        exact cleans_congr this (by intro m x; cases hd <;> simp [cleanupEff, cleanupEffFields, cleanupBlocks, cleanupHandles, curOf])
          (by intro m x hv; simpa [validDiscs, curOf] using hv)
      · rename_i hnd
        simp [pure, Except.pure] at h; subst h
        exact cleans_of_empty (by intro m x; exact cleanupEff_nil hd p m (.tuple ts) _ (by simpa [needsDealloc] using hnd))
  | .variant cs, hn, lvl, a, off, ds, h => by
      simp [noFlist] at hn
      simp only [deallocIndirect] at h
      split at h
      · simp only [bind_ok] at h
        obtain ⟨arms, harms, hp'⟩ := h
        simp [pure, Except.pure] at hp'
        subst hp'
        have ⟨hlen, hall⟩ := deallocArms_cleans hd p hp cs hn lvl a (off + payloadOff (discriminant cs.length) cs) arms harms
        have := cleans_variant p lvl a off (discriminant cs.length) cs.length arms
          (fun i m x => cleanupEffCase hd p m cs i (x + (off + payloadOff (discriminant cs.length) cs).at p))
          (fun i m x => validCase p m cs i (x + (off + payloadOff (discriminant cs.length) cs).at p)) hlen hall
        exact cleans_congr this
          (by intro m x; cases hd <;> simp [cleanupEff, cleanupEffCase, cleanupBlocks, cleanupHandles, Off.at_add, payloadOff_at p hp, Nat.add_assoc])
          (by intro m x hv; simpa [validDiscs, Off.at_add, payloadOff_at p hp, Nat.add_assoc] using hv)
      · rename_i hnd
        simp [pure, Except.pure] at h; subst h
        exact cleans_of_empty (by intro m x; exact cleanupEff_nil hd p m (.variant cs) _ (by simpa [needsDealloc] using hnd))
  | .option t, hn, lvl, a, off, ds, h => by
      simp [noFlist] at hn
      simp only [deallocIndirect] at h
      split at h
      · simp only [bind_ok] at h
        obtain ⟨body, hbody, hp'⟩ := h
        simp [pure, Except.pure] at hp'
        subst hp'
        have hb := dealloc_cleans hd p hp t hn (lvl + 1) a (off + payloadOff .u8 [none, some t]) body hbody
        have := cleans_variant p lvl a off .u8 2 [([], []), (body, [])]
          (fun i m x => if i = 1 then cleanupEff hd p m t (x + (off + payloadOff .u8 [none, some t]).at p) else ([], []))
          (fun i m x => i != 1 || validDiscs p m t (x + (off + payloadOff .u8 [none, some t]).at p)) rfl
          (by
            intro i hi
            rcases i with _ | _ | i
            · exact ⟨rfl, cleans_of_empty (by intros; simp)⟩
            · exact ⟨rfl, cleans_congr hb (by intros; simp) (by intro m x hv; simpa using hv)⟩
            · omega)
        exact cleans_congr this
          (by
            intro m x
            cases hd <;> simp only [cleanupEff, cleanupBlocks, cleanupHandles, Off.at_add, payloadOff_at p hp, Nat.add_assoc, IntRepr.size] <;>
              split <;> simp_all)
          (by intro m x hv; simp only [validDiscs, Off.at_add, payloadOff_at p hp, Nat.add_assoc, IntRepr.size] at hv ⊢; first | exact hv | (simp only [Bool.and_eq_true] at hv ⊢; refine ⟨hv.1, ?_⟩; have h2 := hv.2; split at h2 <;> simp_all))
      · rename_i hnd
        simp [pure, Except.pure] at h; subst h
        exact cleans_of_empty (by intro m x; exact cleanupEff_nil hd p m (.option t) _ (by simpa [needsDealloc] using hnd))
  | .result ok err, hn, lvl, a, off, ds, h => by
      simp [noFlist] at hn
      simp only [deallocIndirect] at h
      split at h
      · simp only [bind_ok] at h
        obtain ⟨b0, hb0, b1, hb1, hp'⟩ := h
        simp [pure, Except.pure] at hp'
        subst hp'
        have h0 := deallocArm_cleans hd p hp ok hn.1 lvl a (off + payloadOff .u8 [ok, err]) b0 hb0
        have h1 := deallocArm_cleans hd p hp err hn.2 lvl a (off + payloadOff .u8 [ok, err]) b1 hb1
        have := cleans_variant p lvl a off .u8 2 [(b0, []), (b1, [])]
          (fun i m x => if i = 0 then cleanupEffOpt hd p m ok (x + (off + payloadOff .u8 [ok, err]).at p)
            else if i = 1 then cleanupEffOpt hd p m err (x + (off + payloadOff .u8 [ok, err]).at p) else ([], []))
          (fun i m x => if i = 0 then validOpt p m ok (x + (off + payloadOff .u8 [ok, err]).at p)
            else validOpt p m err (x + (off + payloadOff .u8 [ok, err]).at p)) rfl
          (by
            intro i hi
            rcases i with _ | _ | i
            · exact ⟨rfl, cleans_congr h0 (by intros; simp) (by intro m x hv; simpa using hv)⟩
            · exact ⟨rfl, cleans_congr h1 (by intros; simp) (by intro m x hv; simpa using hv)⟩
            · omega)
        exact cleans_congr this
          (by
            intro m x
            cases hd <;> simp only [cleanupEff, cleanupEffOpt, cleanupBlocks, cleanupHandles, Off.at_add, payloadOff_at p hp, Nat.add_assoc, IntRepr.size] <;>
              split <;> (try split) <;> simp_all)
          (by intro m x hv; simp only [validDiscs, Off.at_add, payloadOff_at p hp, Nat.add_assoc, IntRepr.size] at hv ⊢; first | exact hv | (simp only [Bool.and_eq_true] at hv ⊢; refine ⟨hv.1, ?_⟩; have h2 := hv.2; split at h2 <;> simp_all))
      · rename_i hnd
        simp [pure, Except.pure] at h; subst h
        exact cleans_of_empty (by intro m x; exact cleanupEff_nil hd p m (.result ok err) _ (by simpa [needsDealloc] using hnd))
theorem deallocFields_cleans (hd : Bool) (p : Nat) (hp : p = 4 ∨ p = 8) : ∀ (ts : List Ty), noFlistAll ts = true →
    ∀ (lvl c4 c8 : Nat) (a : Expr) (off : Off) (ds : List Stmt),
      deallocIndirectFields hd lvl ts (List.zipWith Off.mk (fieldOffsets 4 c4 ts) (fieldOffsets 8 c8 ts)) a off = .ok ds →
      Cleans p lvl a ds (fun m x => cleanupEffFields hd p m ts (x + off.at p) (curOf p c4 c8))
        (fun m x => validFields p m ts (x + off.at p) (curOf p c4 c8))
  | [], _, lvl, c4, c8, a, off, ds, h => by
      simp [deallocIndirectFields, pure, Except.pure] at h
      subst h
      exact cleans_of_empty (by intros; cases hd <;> simp [cleanupEffFields, cleanupFields, cleanupHandlesFields])
  | t :: ts, hn, lvl, c4, c8, a, off, ds, h => by
      simp [noFlistAll] at hn
      simp only [fieldOffsets, List.zipWith_cons_cons, deallocIndirectFields, bind_ok] at h
      obtain ⟨s1, h1, s2, h2, hp'⟩ := h
      simp [pure, Except.pure] at hp'
      subst hp'
      have f1 := dealloc_cleans hd p hp t hn.1 lvl a _ s1 h1
      have f2 := deallocFields_cleans hd p hp ts hn.2 lvl _ _ a off s2 h2
      refine cleans_congr (cleans_append f1 f2) ?_ ?_
      · intro m x
        rcases hp with rfl | rfl <;> cases hd <;>
          simp [cleanupEff, cleanupEffFields, Eff.app, cleanupFields, cleanupHandlesFields, curOf, Off.at_add, Off.at, Nat.add_assoc]
      · intro m x hv
        rcases hp with rfl | rfl <;>
          simpa [validFields, curOf, Off.at_add, Off.at, Nat.add_assoc] using hv
theorem deallocArms_cleans (hd : Bool) (p : Nat) (hp : p = 4 ∨ p = 8) : ∀ (cs : List (Option Ty)), noFlistCases cs = true →
    ∀ (lvl : Nat) (a : Expr) (poff : Off) (arms : List (List Stmt × List Expr)),
      deallocIndirectArms hd lvl cs a poff = .ok arms →
      ∃ hlen : arms.length = cs.length, ∀ (i : Nat) (h : i < cs.length),
        (arms[i]'(hlen ▸ h)).2 = [] ∧
        Cleans p (lvl + 1) a (arms[i]'(hlen ▸ h)).1 (fun m x => cleanupEffCase hd p m cs i (x + poff.at p))
          (fun m x => validCase p m cs i (x + poff.at p))
  | [], _, lvl, a, poff, arms, h => by
      simp [deallocIndirectArms, pure, Except.pure] at h
      subst h
      exact ⟨rfl, fun i hi => by simp at hi⟩
  | o :: cs, hn, lvl, a, poff, arms, h => by
      simp [noFlistCases] at hn
      simp only [deallocIndirectArms, bind_ok] at h
      obtain ⟨body, hbody, rest, hrest, hp'⟩ := h
      simp [pure, Except.pure] at hp'
      subst hp'
      have fb := deallocArm_cleans hd p hp o hn.1 lvl a poff body hbody
      have ⟨hl, hr⟩ := deallocArms_cleans hd p hp cs hn.2 lvl a poff rest hrest
      refine ⟨by simp [hl], ?_⟩
      intro i hi
      cases i with
      | zero => exact ⟨rfl, cleans_congr fb (by intros; cases hd <;> simp [cleanupEffCase, cleanupEffOpt, cleanupCase, cleanupHandlesCase])
          (by intro m x hv; simpa [validCase] using hv)⟩
      | succ i =>
        have := hr i (by simpa using hi)
        exact ⟨by simpa using this.1, cleans_congr (by simpa using this.2)
          (by intros; cases hd <;> simp [cleanupEffCase, cleanupCase, cleanupHandlesCase])
          (by intro m x hv; simpa [validCase] using hv)⟩
theorem deallocArm_cleans (hd : Bool) (p : Nat) (hp : p = 4 ∨ p = 8) : ∀ (o : Option Ty), noFlistOpt o = true →
    ∀ (lvl : Nat) (a : Expr) (poff : Off) (body : List Stmt),
      deallocIndirectArm hd lvl o a poff = .ok body →
      Cleans p (lvl + 1) a body (fun m x => cleanupEffOpt hd p m o (x + poff.at p)) (fun m x => validOpt p m o (x + poff.at p))
  | none, _, lvl, a, poff, body, h => by
      simp [deallocIndirectArm, pure, Except.pure] at h
      subst h
      exact cleans_of_empty (by intros; cases hd <;> simp [cleanupEffOpt, cleanupOpt, cleanupHandlesOpt])
  | some t, hn, lvl, a, poff, body, h => by
      simp [noFlistOpt] at hn
      simp only [deallocIndirectArm] at h
      exact cleans_congr (dealloc_cleans hd p hp t hn (lvl + 1) a poff body h)
        (by intros; cases hd <;> simp [cleanupEff, cleanupEffOpt, cleanupOpt, cleanupHandlesOpt])
        (by intro m x hv; simpa [validOpt] using hv)
end

end Witverif.Abi
