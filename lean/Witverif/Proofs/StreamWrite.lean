import Witverif.Proofs.Chan
/-! C19, guest-writer stream channel: the states reachable by legal labels (`SWShape`) and the proof
that every legal step — under the hypothesis of `stream_never_traps_partial`: the body does not start a
write on an end after `StreamResult::Dropped` — is panic-free and trap-free and leads to such a state
again (`sw_step_safe`).  The shapes carry the facts that make it so: the host's view of the guest
buffer is the buffer's window, `progress ≤ n ≤ remaining`, every code the guest is told has a count the
buffer can absorb, the operation is registered exactly while the host is copying.
Buffers are arbitrary (`AbiBuffer` with `cursor ≤ length`); all payload kinds; both task ABI versions. -/
namespace Witverif.Async
open Witverif.Generated
open Witverif.Async.Host (CopySt)

structure SWP where
  c : Nat
  hd : Nat
  kind : PKind
  tp : Nat
  v : Nat

def SWP.t (p : SWP) : CurTask := ⟨p.tp, p.v⟩
def SWP.g0 (p : SWP) : GChan := { c := p.c, fut := false, gw := true, kind := p.kind, adapter := false }
def SWP.task (p : SWP) (reg : Option Nat) : Option CabiTask := if p.v = 2 then some ⟨p.tp, reg⟩ else none

/-- which future owns the write in flight: a plain `write` / `write_buf`, or `write_all` / `write_one` -/
inductive OpK
  | plain
  | all (one first : Bool)
deriving DecidableEq

def OpK.act (k : OpK) (w : WOp WSt WSt) : Act :=
  match k with
  | .plain => .swrite w
  | .all one first => .sall one (.awaiting first w)

/-- the host's side: copy state by flags -/
def swHost (p : SWP) (st : CopySt) (n progress : Nat) (pending : Option Nat) (win rcv : List Nat) (gone : Bool) : HChan :=
  { e := { fut := false, writer := true, st := st, n := n, progress := progress, pending := pending },
    handle := p.hd, window := win, received := rcv, gone := gone }

def stOf (hdone : Bool) : CopySt := if hdone then .done else .idle

/-- buffers the channel can hold: of this channel and kind, cursor within bounds -/
def SWP.okBuf (p : SWP) (b : AbiBuffer) : Prop := b.c = p.c ∧ b.kind = p.kind ∧ b.cursor ≤ b.items.length

def offerOf (b : AbiBuffer) : Nat := min b.remaining Limits.streamMaxLength

inductive SWShape
  | closed
  /-- no operation: the writer (`gd` = its `done` flag) in its slot, possibly a kept buffer; `hdn` = the host's end is done -/
  | idle (n : Nat) (gd hdn : Bool) (kept : Option AbiBuffer) (win rcv : List Nat)
  /-- a `write` / `write_buf` future created, not polled yet -/
  | ready (n : Nat) (gd hdn : Bool) (b : AbiBuffer) (win rcv : List Nat)
  /-- `write_all` / `write_one` created, not polled yet (holds the values) -/
  | allNew (n : Nat) (one : Bool) (items : List Nat) (gd hdn : Bool) (win rcv : List Nat)
  /-- `write_all` between two writes of one poll (`running`) -/
  | running (n : Nat) (one : Bool) (b : AbiBuffer) (gs gd hdn : Bool) (win rcv : List Nat)
  /-- a write is in flight: the host is copying, the operation is registered -/
  | waiting (n : Nat) (k : OpK) (b : AbiBuffer) (pr : Nat) (pend : Option Nat) (rcv : List Nat)
  /-- the event was delivered, the future has not been polled yet -/
  | queued (n : Nat) (k : OpK) (b : AbiBuffer) (code : Nat) (rcv : List Nat)
  /-- the writer was dropped -/
  | gone (n : Nat) (st : CopySt) (win rcv : List Nat)

def swSys (p : SWP) : SWShape → ChanSys
  | .closed => ⟨p.g0, { e := { fut := false, writer := true } }, ⟨some p.t, []⟩⟩
  | .idle n gd hdn kept win rcv =>
    ⟨{ p.g0 with opened := true, nextId := n, sw := some ⟨p.hd, gd⟩, kept := kept },
     swHost p (stOf hdn) 0 0 none win rcv false, ⟨some p.t, []⟩⟩
  | .ready n gd hdn b win rcv =>
    ⟨{ p.g0 with opened := true, nextId := n, sw := some ⟨p.hd, gd⟩, act := .swrite (WOp.new ⟨b, ⟨p.hd, gd⟩⟩) },
     swHost p (stOf hdn) 0 0 none win rcv false, ⟨some p.t, []⟩⟩
  | .allNew n one items gd hdn win rcv =>
    ⟨{ p.g0 with opened := true, nextId := n, sw := some ⟨p.hd, gd⟩, act := .sall one (.unpolled items) },
     swHost p (stOf hdn) 0 0 none win rcv false, ⟨some p.t, []⟩⟩
  | .running n one b gs gd hdn win rcv =>
    ⟨{ p.g0 with opened := true, nextId := n, sw := some ⟨p.hd, gs⟩, running := true,
                 act := .sall one (.awaiting false (WOp.new ⟨b, ⟨p.hd, gd⟩⟩)) },
     swHost p (stOf hdn) 0 0 none win rcv false, ⟨some p.t, []⟩⟩
  | .waiting n k b pr pend rcv =>
    ⟨{ p.g0 with opened := true, nextId := n, sw := some ⟨p.hd, false⟩,
                 act := k.act ⟨.inProgress ⟨b, ⟨p.hd, false⟩⟩, none, true, p.task (some p.hd)⟩ },
     swHost p .copying (offerOf b) pr pend b.window rcv false, ⟨some p.t, [(p.tp, p.hd)]⟩⟩
  | .queued n k b code rcv =>
    ⟨{ p.g0 with opened := true, nextId := n, sw := some ⟨p.hd, false⟩,
                 act := k.act ⟨.inProgress ⟨b, ⟨p.hd, false⟩⟩, some code, false, p.task (some p.hd)⟩ },
     swHost p (Host.End.stAfter false code) 0 0 none b.window rcv false, ⟨some p.t, []⟩⟩
  | .gone n st win rcv =>
    ⟨{ p.g0 with opened := true, nextId := n }, swHost p st 0 0 none win rcv true, ⟨some p.t, []⟩⟩

/-- a code with a count the buffer can absorb: COMPLETED|k or DROPPED|k, `k ≤` what was offered -/
def codeOk (b : AbiBuffer) (code : Nat) : Prop :=
  ∃ base k, code = Host.packCode base k ∧ (base = Host.COMPLETED ∨ base = Host.DROPPED) ∧ k ≤ offerOf b

/-- side conditions of a shape -/
def swOk (p : SWP) : SWShape → Prop
  | .closed => True
  | .idle _ gd hdn kept _ _ => (gd = true ↔ hdn = true) ∧ (∀ b, kept = some b → p.okBuf b)
  | .ready _ gd hdn b _ _ => (gd = true ↔ hdn = true) ∧ p.okBuf b
  | .allNew _ _ _ gd hdn _ _ => (gd = true ↔ hdn = true)
  | .running _ _ b gs gd hdn _ _ => (gd = true → hdn = true) ∧ p.okBuf b ∧ b.remaining ≠ 0 ∧ (hdn = true → gd = true) ∧ (gs = true → gd = true)
  | .waiting _ _ b pr pend _ =>
    p.okBuf b ∧ pr ≤ offerOf b ∧
    (pend = none ∧ pr = 0 ∨ pend = some (Host.packCode Host.COMPLETED pr) ∨ pend = some (Host.packCode Host.DROPPED pr))
  | .queued _ _ b code _ => p.okBuf b ∧ codeOk b code
  | .gone _ st _ _ => st ≠ .copying

def SWInvAt (p : SWP) (s : ChanSys) (sh : SWShape) : Prop := s = swSys p sh ∧ swOk p sh

def SWInv (p : SWP) (s : ChanSys) : Prop :=
  p.hd ≠ 0 ∧ (p.v = 1 ∨ p.v = 2) ∧ ∃ sh, SWInvAt p s sh

def SWLegal (p : SWP) (s : ChanSys) (l : CLabel) : Prop :=
  CLegal s l ∧ (∀ h1 h2, l = .opn h1 h2 → h1 = p.hd)

/-- the values of the live buffer the host has not taken yet, in order: the window of the buffer of the write in
flight beyond what the host has taken in this operation (its `progress` while it is copying; the count of the
code the operation has received but not yet processed), the window of the buffer of a write not started yet or
of the kept buffer, the values a `write_all` not polled yet holds -/
def opNext (w : WOp WSt WSt) (h : HChan) : List Nat :=
  match w.state with
  | .start st => st.buf.window
  | .inProgress st =>
    match w.code with
    | some c => st.buf.window.drop (Host.codeCount c)
    | none => st.buf.window.drop h.e.progress
  | .done => []

def nextUp (s : ChanSys) : List Nat :=
  match s.g.act with
  | .swrite w => opNext w s.h
  | .sall _ (.unpolled items) => items
  | .sall _ (.awaiting _ w) => opNext w s.h
  | _ => match s.g.kept with
    | some b => b.window
    | none => []

/-- one step of the channel, seen from the reader: the host receives the next `j` values the guest exposes, in
order (nothing else, nothing twice); and the guest's buffer afterwards exposes exactly the rest — unless no
buffer is left (it was given back to the body as a vector or dropped: `untransferred_returned_or_dropped_once`), or
the body made a new buffer of fresh values (ids `nextId …`) -/
def FifoStep (s s' : ChanSys) : Prop :=
  ∃ j, s'.h.received = s.h.received ++ (nextUp s).take j ∧ s.g.nextId ≤ s'.g.nextId ∧
    (nextUp s' = (nextUp s).drop j ∨ (s'.g.act.isNone = true ∧ s'.g.kept = none) ∨
     nextUp s' = List.range' s.g.nextId (s'.g.nextId - s.g.nextId))

def SWGood (p : SWP) (s : ChanSys) : Step ChanSys → Prop
  | .ok s' _ => s'.h.trapped = false ∧ SWInv p s' ∧ FifoStep s s'
  | .panic _ _ => False

end Witverif.Async

namespace Witverif.Async
open Witverif.Generated
open Witverif.Async.Host (CopySt)

/-! ### codes -/

theorem code_eq_pack (ans : Nat) : ans = Host.packCode (ans % 16) (ans / 16) := by
  unfold Host.packCode; omega

theorem swUpdate_blocked (p : WSt) : streamWriteUpdate p 4294967295 = .ok (.inr p) [] := by
  simp [streamWriteUpdate, RetCode.decode]

@[simp] theorem pack0_ne_blocked (k : Nat) : (16 * k == 4294967295) = false := by
  simp only [beq_eq_false_iff_ne, ne_eq]; omega
@[simp] theorem pack1_ne_blocked (k : Nat) : (1 + 16 * k == 4294967295) = false := by
  simp only [beq_eq_false_iff_ne, ne_eq]; omega
@[simp] theorem pack2_ne_blocked (k : Nat) : (2 + 16 * k == 4294967295) = false := by
  simp only [beq_eq_false_iff_ne, ne_eq]; omega
@[simp] theorem pack0_mod (k : Nat) : 16 * k % 16 = 0 := by omega
@[simp] theorem pack1_mod (k : Nat) : (1 + 16 * k) % 16 = 1 := by omega
@[simp] theorem pack2_mod (k : Nat) : (2 + 16 * k) % 16 = 2 := by omega
@[simp] theorem pack0_div (k : Nat) : 16 * k / 16 = k := by omega
@[simp] theorem pack1_div (k : Nat) : (1 + 16 * k) / 16 = k := by omega
@[simp] theorem pack2_div (k : Nat) : (2 + 16 * k) / 16 = k := by omega

theorem swUpdate_dropped0 (p : WSt) : streamWriteUpdate p 1 = .ok (.inl (.dropped, { p with wr := { p.wr with done := true } })) [] := by
  simp [streamWriteUpdate, RetCode.decode]

theorem swUpdate_cancelled0 (p : WSt) : streamWriteUpdate p 2 = .ok (.inl (.cancelled, p)) [] := by
  simp [streamWriteUpdate, RetCode.decode]

/-- what a conforming host may answer at once to a stream copy of `n` items -/
theorem legalImmediate_stream (e : Host.End) (n ans : Nat) (hf : e.fut = false) (h : e.legalImmediate n ans = true) :
    ans = Host.BLOCKED ∨ ans = Host.DROPPED ∨
      ∃ k, ans = Host.packCode Host.COMPLETED k ∧ k ≤ n ∧ (1 ≤ k ∨ n = 0) := by
  simp only [Host.End.legalImmediate, hf, Bool.false_eq_true, if_false, Bool.or_eq_true, beq_iff_eq, Bool.and_eq_true,
    decide_eq_true_eq, Host.codeBase, Host.codeCount, Host.COMPLETED] at h
  rcases h with (h | h) | ⟨⟨h1, h2⟩, h3⟩
  · exact .inl h
  · exact .inr (.inl h)
  · refine .inr (.inr ⟨ans / 16, ?_, of_decide_eq_true h2, h3.imp of_decide_eq_true id⟩)
    have := code_eq_pack ans
    rw [h1] at this
    exact this

/-! ### events the host does not react to -/

def Ev.passive : Ev → Bool
  | .ch .swrite _ | .ch .sread _ | .ch .fwrite _ | .ch .fread _ => false
  | .ch .scw _ | .ch .scr _ | .ch .fcw _ | .ch .fcr _ => false
  | .ch .sdw _ | .ch .sdr _ | .ch .fdw _ | .ch .fdr _ => false
  | _ => true

theorem hostApply_passive (c : Nat) (h : HChan) (e : Ev) (hp : e.passive = true) : hostApply c h e = (h, [e]) := by
  cases e with
  | ch t ns => cases t <;> simp_all [Ev.passive, hostApply]
  | _ => rfl

theorem hostApplyAll_passive (c : Nat) (h : HChan) (evs : List Ev) (hp : ∀ e ∈ evs, e.passive = true) :
    hostApplyAll c h evs = (h, evs) := by
  induction evs with
  | nil => rfl
  | cons e es ih =>
    simp only [hostApplyAll, hostApply_passive c h e (hp e (List.mem_cons_self ..)),
      ih (fun x hx => hp x (List.mem_cons_of_mem _ hx))]
    rfl

theorem hostApplyAll_append (c : Nat) (h : HChan) (a b : List Ev) :
    hostApplyAll c h (a ++ b) =
      ((hostApplyAll c (hostApplyAll c h a).1 b).1, (hostApplyAll c h a).2 ++ (hostApplyAll c (hostApplyAll c h a).1 b).2) := by
  induction a generalizing h with
  | nil => simp [hostApplyAll]
  | cons e es ih => simp [hostApplyAll, ih, List.append_assoc]

theorem passive_map {f : Nat → Ev} (hf : ∀ x, (f x).passive = true) (l : List Nat) : ∀ e ∈ l.map f, e.passive = true := by
  intro e he; simp only [List.mem_map] at he; obtain ⟨x, _, rfl⟩ := he; exact hf x

theorem passive_dropEvs (b : AbiBuffer) : ∀ e ∈ b.dropEvs, e.passive = true := by
  intro e he
  simp only [AbiBuffer.dropEvs, AbiBuffer.takeVec, valDrops, List.mem_append] at he
  rcases he with (he | he) | he
  · split at he
    · exact passive_map (fun _ => rfl) _ e he
    · simp at he
  · split at he
    · simp at he; subst he; rfl
    · simp at he
  · split at he
    · exact passive_map (fun _ => rfl) _ e he
    · simp at he

theorem passive_new (c : Nat) (k : PKind) (items : List Nat) : ∀ e ∈ (AbiBuffer.new c k items).2, e.passive = true := by
  intro e he
  unfold AbiBuffer.new at he
  split at he
  · exact passive_map (fun _ => rfl) _ e he
  · simp at he

theorem passive_takeVec (b : AbiBuffer) : ∀ e ∈ b.takeVec.2.2, e.passive = true := by
  intro e he
  simp only [AbiBuffer.takeVec, List.mem_append] at he
  rcases he with he | he
  · split at he
    · exact passive_map (fun _ => rfl) _ e he
    · simp at he
  · split at he
    · simp at he; subst he; rfl
    · simp at he

theorem passive_valDrops (c : Nat) (k : PKind) (l : List Nat) : ∀ e ∈ valDrops c k l, e.passive = true := by
  intro e he
  unfold valDrops at he
  split at he
  · exact passive_map (fun _ => rfl) _ e he
  · simp at he

@[simp] theorem hostApplyAll_dropEvs (c : Nat) (h : HChan) (b : AbiBuffer) : hostApplyAll c h b.dropEvs = (h, b.dropEvs) :=
  hostApplyAll_passive c h _ (passive_dropEvs b)
@[simp] theorem hostApplyAll_new (c : Nat) (h : HChan) (c' : Nat) (k : PKind) (items : List Nat) :
    hostApplyAll c h (AbiBuffer.new c' k items).2 = (h, (AbiBuffer.new c' k items).2) :=
  hostApplyAll_passive c h _ (passive_new c' k items)
@[simp] theorem hostApplyAll_takeVec (c : Nat) (h : HChan) (b : AbiBuffer) :
    hostApplyAll c h b.takeVec.2.2 = (h, b.takeVec.2.2) := hostApplyAll_passive c h _ (passive_takeVec b)
@[simp] theorem hostApplyAll_valDrops (c : Nat) (h : HChan) (c' : Nat) (k : PKind) (l : List Nat) :
    hostApplyAll c h (valDrops c' k l) = (h, valDrops c' k l) := hostApplyAll_passive c h _ (passive_valDrops c' k l)
@[simp] theorem hostApplyAll_map_dli (c : Nat) (h : HChan) (c' : Nat) (l : List Nat) :
    hostApplyAll c h (l.map (evDli c')) = (h, l.map (evDli c')) := hostApplyAll_passive c h _ (passive_map (fun _ => rfl) l)

@[simp] theorem hostApplyAll_take_map_dli (c : Nat) (h : HChan) (c' k : Nat) (l : List Nat) :
    hostApplyAll c h (List.take k (l.map (evDli c'))) = (h, List.take k (l.map (evDli c'))) :=
  hostApplyAll_passive c h _ (fun e he => passive_map (fun _ => rfl) l e (List.mem_of_mem_take he))
@[simp] theorem hostApplyAll_ite_dli (c : Nat) (h : HChan) (q : Prop) [Decidable q] (c' k : Nat) (l : List Nat) :
    hostApplyAll c h (if q then List.take k (l.map (evDli c')) else []) = (h, if q then List.take k (l.map (evDli c')) else []) := by
  split
  · exact hostApplyAll_take_map_dli c h c' k l
  · rfl
@[simp] theorem hostApplyAll_ite_dli' (c : Nat) (h : HChan) (q : Prop) [Decidable q] (c' : Nat) (l : List Nat) :
    hostApplyAll c h (if q then l.map (evDli c') else []) = (h, if q then l.map (evDli c') else []) := by
  split
  · exact hostApplyAll_map_dli c h c' l
  · rfl
@[simp] theorem hostApplyAll_nil (c : Nat) (h : HChan) : hostApplyAll c h [] = (h, []) := rfl

@[simp] theorem remaining_mk (c : Nat) (kind : PKind) (items : List Nat) (cursor : Nat) (slab : Bool) :
    (AbiBuffer.mk c kind items cursor slab).remaining = items.length - cursor := rfl

@[simp] theorem new_fst_window (c : Nat) (k : PKind) (items : List Nat) : (AbiBuffer.new c k items).1.window = items :=
  (AbiBuffer.new_spec c k items).2.2.1
@[simp] theorem new_fst_remaining (c : Nat) (k : PKind) (items : List Nat) : (AbiBuffer.new c k items).1.remaining = items.length := by
  unfold AbiBuffer.new AbiBuffer.remaining; by_cases h : k.lowers <;> simp [h]
@[simp] theorem new_fst_cursor (c : Nat) (k : PKind) (items : List Nat) : (AbiBuffer.new c k items).1.cursor = 0 :=
  (AbiBuffer.new_spec c k items).2.1
@[simp] theorem new_fst_items (c : Nat) (k : PKind) (items : List Nat) : (AbiBuffer.new c k items).1.items = items :=
  (AbiBuffer.new_spec c k items).1

macro "sw_eval" : tactic => `(tactic|
  simp (config := { decide := true }) [SWGood, SWInv, swSys, swHost, stOf, offerOf, SWP.g0, SWP.t, SWP.task, OpK.act,
    ChanSys.step, ChanSys.absorb, ChanSys.syncCopy, ChanSys.syncCancel, GChan.starting, wopStarting, WOp.new, copyMoves, cancelMoves,
    GChan.poll, GChan.cancelOp, GChan.dropAct, GChan.close, GChan.skip, GChan.put, GChan.wake, GChan.keptDrop, GChan.fresh,
    GChan.writeDone, GChan.pollAll, GChan.allAfter, GChan.allFinish, dropWrite,
    Act.isNone, Act.window, evSkip, evP, evXf, evWres,
    pollComplete, pollCompleteWithCode, cancel, cancelPrepare, cabiWake, dropOpC, taskDropEvs,
    streamWriteOps, Step.bind, Step.emit, registerWaker, unregisterWaker, CabiTask.dropEvs, sresOf,
    hostApplyAll_append, hostApplyAll, hostApply, hostCopy, hostCancel, hostDrop, HChan.moveIds, HChan.moved, HChan.trap,
    Host.End.copyTrap, Host.End.afterCopy, Host.End.cancelTrap, Host.End.afterCancel, Host.End.dropTrap, Host.End.takeEvent,
    Host.End.afterXfer, Host.End.afterPeerDrop, Host.End.stAfter,
    Host.BLOCKED, Host.COMPLETED, Host.DROPPED, Host.CANCELLED, Host.codeBase, Host.codeCount, Host.packCode,
    AbiBuffer.intoVec, swUpdate_blocked, swUpdate_dropped0, swUpdate_cancelled0, *])

macro "sw_chk" : tactic => `(tactic|
  ((simp (config := { decide := true }) [SWInvAt, swSys, swHost, swOk, stOf, offerOf, SWP.g0, SWP.t, SWP.task, OpK.act, WOp.new,
    Host.End.stAfter, Host.COMPLETED, Host.DROPPED, Host.BLOCKED, Host.packCode, Host.codeBase, *]) <;>
   (try (first | assumption | omega | simp_all | (constructor <;> (first | assumption | omega | simp_all))))))

macro "fifo_chk" : tactic => `(tactic|
  ((simp (config := { decide := true }) [FifoStep, nextUp, opNext, WOp.new, Host.codeCount, AbiBuffer.window, List.drop_drop, *]) <;>
   (first | (exact ⟨_, rfl⟩) | (exact ⟨_, rfl, Or.inl rfl⟩) | (exact ⟨_, rfl, Or.inl (by omega)⟩) | (exact ⟨_, rfl, Or.inr (by omega)⟩) | omega)))

macro "sw_try" t:term : tactic => `(tactic| (refine ⟨⟨$t, ?_⟩, ?_⟩; (· sw_chk); (· fifo_chk)))

syntax "sw_go" "[" term,+ "]" : tactic
macro_rules
  | `(tactic| sw_go [$a]) => `(tactic| (sw_eval; all_goals (first | sw_try $a | skip)))
  | `(tactic| sw_go [$a, $b]) => `(tactic| (sw_eval; all_goals (first | sw_try $a | sw_try $b | skip)))
  | `(tactic| sw_go [$a, $b, $c]) => `(tactic| (sw_eval; all_goals (first | sw_try $a | sw_try $b | sw_try $c | skip)))
  | `(tactic| sw_go [$a, $b, $c, $d]) =>
    `(tactic| (sw_eval; all_goals (first | sw_try $a | sw_try $b | sw_try $c | sw_try $d | skip)))
  | `(tactic| sw_go [$a, $b, $c, $d, $e]) =>
    `(tactic| (sw_eval; all_goals (first | sw_try $a | sw_try $b | sw_try $c | sw_try $d | sw_try $e | skip)))

macro "sw_legal" : tactic => `(tactic|
  simp (config := { decide := true }) [CLegal, swSys, swHost, stOf, offerOf, SWP.g0, SWP.t, SWP.task, OpK.act,
    GChan.offer, GChan.cancels, wstOffer, WOp.cancelAsks, WOp.new,
    Host.End.legalXfer, Host.End.legalPeerDrop, Host.End.copyTrap, Host.End.cancelTrap,
    Host.codeBase, Host.codeCount, Host.DROPPED, Host.COMPLETED, Host.CANCELLED, Host.End.stAfter, Host.packCode, Host.BLOCKED] at *)

theorem sw_closed (p : SWP) (hh : p.hd ≠ 0) (hv : p.v = 1 ∨ p.v = 2) (l : CLabel)
    (hl : SWLegal p (swSys p .closed) l) : SWGood p (swSys p .closed) ((swSys p .closed).step l) := by
  obtain ⟨hl, hopn⟩ := hl
  cases l with
  | opn h1 h2 =>
    have := hopn h1 h2 rfl
    subst this
    clear hopn hl
    sw_go [.idle 1 false false none [] []]
  | peerXfer k => sw_legal
  | deliver => sw_legal
  | deferStart ans => sw_legal
  | close ex ans => clear hopn hl; cases ex <;> sw_go [.closed]
  | _ => clear hopn hl; sw_go [.closed]

theorem new_okBuf (p : SWP) (items : List Nat) : p.okBuf (AbiBuffer.new p.c p.kind items).1 := by
  unfold AbiBuffer.new SWP.okBuf
  by_cases h : p.kind.lowers <;> simp [h]

theorem sw_idle (p : SWP) (n : Nat) (gd hdn : Bool) (kept : Option AbiBuffer) (win rcv : List Nat)
    (hh : p.hd ≠ 0) (hv : p.v = 1 ∨ p.v = 2) (hok : swOk p (.idle n gd hdn kept win rcv)) (l : CLabel)
    (hl : SWLegal p (swSys p (.idle n gd hdn kept win rcv)) l) : SWGood p (swSys p (.idle n gd hdn kept win rcv)) ((swSys p (.idle n gd hdn kept win rcv)).step l) := by
  simp only [swOk] at hok
  obtain ⟨hgd, hkb⟩ := hok
  obtain ⟨hl, hopn⟩ := hl
  clear hopn
  cases l with
  | peerXfer k => cases hdn <;> sw_legal
  | deliver => sw_legal
  | deferStart ans => sw_legal
  | write k =>
    clear hl
    have hb := new_okBuf p (List.range' n k)
    cases kept <;> sw_go [.ready (n + k) gd hdn (AbiBuffer.new p.c p.kind (List.range' n k)).1 win rcv]
  | writeAll k => clear hl; cases kept <;> sw_go [.allNew (n + k) false (List.range' n k) gd hdn win rcv]
  | writeOne => clear hl; cases kept <;> sw_go [.allNew (n + 1) true (List.range' n 1) gd hdn win rcv]
  | resume =>
    clear hl
    cases kept with
    | none => sw_go [.idle n gd hdn none win rcv]
    | some b => have := hkb b rfl; sw_go [.ready n gd hdn b win rcv]
  | intoVec =>
    clear hl
    cases kept with
    | none => sw_go [.idle n gd hdn none win rcv]
    | some b => sw_go [.idle n gd hdn none win rcv]
  | close ex ans =>
    clear hl
    cases ex <;> cases kept <;> cases hdn <;> sw_go [.gone n .idle win rcv, .gone n .done win rcv]
  | peerDrop =>
    clear hl
    cases kept with
    | none => cases hdn <;> sw_go [.idle n gd false none win rcv, .idle n gd true none win rcv]
    | some b =>
      have := hkb b rfl
      cases hdn <;> sw_go [.idle n gd false (some b) win rcv, .idle n gd true (some b) win rcv]
  | _ =>
    clear hl
    cases kept with
    | none => sw_go [.idle n gd hdn none win rcv]
    | some b => have := hkb b rfl; sw_go [.idle n gd hdn (some b) win rcv]

theorem okBuf_advance (p : SWP) (b : AbiBuffer) (k : Nat) (hb : p.okBuf b) (hk : k ≤ offerOf b) :
    p.okBuf { b with cursor := b.cursor + k } ∧ k ≤ b.remaining ∧ k ≤ 268435455 := by
  obtain ⟨h1, h2, h3⟩ := hb
  simp only [offerOf, AbiBuffer.remaining, Limits.streamMaxLength] at hk ⊢
  refine ⟨⟨h1, h2, ?_⟩, ?_, ?_⟩
  · show b.cursor + k ≤ b.items.length; omega
  · omega
  · omega

theorem sw_ready (p : SWP) (n : Nat) (gd hdn : Bool) (b : AbiBuffer) (win rcv : List Nat)
    (hh : p.hd ≠ 0) (hv : p.v = 1 ∨ p.v = 2) (hok : swOk p (.ready n gd hdn b win rcv)) (l : CLabel)
    (hl : SWLegal p (swSys p (.ready n gd hdn b win rcv)) l) : SWGood p (swSys p (.ready n gd hdn b win rcv)) ((swSys p (.ready n gd hdn b win rcv)).step l) := by
  simp only [swOk] at hok
  obtain ⟨hgd, hb⟩ := hok
  obtain ⟨hl, hopn⟩ := hl
  clear hopn
  cases l with
  | peerXfer k => cases hdn <;> sw_legal
  | deliver => sw_legal
  | deferStart ans => sw_legal
  | poll ans =>
    cases gd with
    | true =>
      clear hl
      sw_go [.idle n true true (some b) b.window rcv]
    | false =>
      have hdn0 : hdn = false := by cases hdn <;> sw_legal
      subst hdn0
      have hli : (swSys p (.ready n false false b win rcv)).h.e.legalImmediate (offerOf b) ans = true := by
        sw_legal; exact hl
      clear hl
      rcases legalImmediate_stream _ _ _ rfl hli with rfl | rfl | ⟨k, rfl, hk, hk1⟩
      · clear hli; rcases hv with hv | hv <;> sw_go [.waiting n .plain b 0 none rcv]
      · clear hli; sw_go [.idle n true true (some b) b.window rcv]
      · clear hli
        obtain ⟨hb', hkr, hk2⟩ := okBuf_advance p b k hb hk
        have hu := streamWrite_update_spec ⟨b, ⟨p.hd, false⟩⟩ 0 k (by omega) hkr hk2 hb.2.2
        simp only [Host.packCode, Nat.zero_add] at hu
        simp only [Host.COMPLETED]
        sw_go [.idle n false false (some { b with cursor := b.cursor + k }) b.window (rcv ++ b.window.take k)]
  | close ex ans => clear hl; cases ex <;> cases hdn <;> sw_go [.gone n .idle win rcv, .gone n .done win rcv]
  | peerDrop => clear hl; cases hdn <;> sw_go [.ready n gd false b win rcv, .ready n gd true b win rcv]
  | _ => clear hl; sw_go [.ready n gd hdn b win rcv, .idle n gd hdn (some b) win rcv, .idle n gd hdn none win rcv]

/-- the outcome of `in_progress_update` for a code the buffer can absorb -/
theorem swUpdate_ok (p : SWP) (b : AbiBuffer) (base k : Nat) (hb : p.okBuf b) (hbase : base = 0 ∨ base = 1)
    (hk : k ≤ offerOf b) :
    streamWriteUpdate ⟨b, ⟨p.hd, false⟩⟩ (base + 16 * k) =
      .ok (.inl (sresOf base k, ⟨{ b with cursor := b.cursor + k }, ⟨p.hd, base == 1⟩⟩))
        (if b.kind = .lists then (b.window.take k).map (evDli b.c) else []) := by
  obtain ⟨_, hkr, hk2⟩ := okBuf_advance p b k hb hk
  have hu := streamWrite_update_spec ⟨b, ⟨p.hd, false⟩⟩ base k (by omega) hkr hk2 hb.2.2
  simpa [Host.packCode] using hu

theorem swUpdate_ok3 (p : SWP) (b : AbiBuffer) (base k : Nat) (hb : p.okBuf b) (hbase : base < 3)
    (hk : k ≤ offerOf b) :
    streamWriteUpdate ⟨b, ⟨p.hd, false⟩⟩ (base + 16 * k) =
      .ok (.inl (sresOf base k, ⟨{ b with cursor := b.cursor + k }, ⟨p.hd, base == 1⟩⟩))
        (if b.kind = .lists then (b.window.take k).map (evDli b.c) else []) := by
  obtain ⟨_, hkr, hk2⟩ := okBuf_advance p b k hb hk
  have hu := streamWrite_update_spec ⟨b, ⟨p.hd, false⟩⟩ base k hbase hkr hk2 hb.2.2
  simpa [Host.packCode] using hu

/-- what a conforming host may answer to a stream cancel when no event is pending -/
theorem legalCancelRet_stream (e : Host.End) (ans : Nat) (hf : e.fut = false) (hp : e.pending = none)
    (h : e.legalCancelRet ans = true) :
    ∃ base k, ans = base + 16 * k ∧ base < 3 ∧ k ≤ e.n := by
  simp only [Host.End.legalCancelRet, hp, hf, Bool.false_eq_true, if_false, Bool.and_eq_true, decide_eq_true_eq,
    Bool.or_eq_true, beq_iff_eq, Host.codeBase, Host.codeCount, Host.CANCELLED, Host.DROPPED, Host.COMPLETED] at h
  refine ⟨ans % 16, ans / 16, by omega, ?_, of_decide_eq_true h.1⟩
  rcases h.2 with (h2 | h2) | ⟨h2, _⟩ <;> omega

theorem sw_allNew (p : SWP) (n : Nat) (one : Bool) (items : List Nat) (gd hdn : Bool) (win rcv : List Nat)
    (hh : p.hd ≠ 0) (hv : p.v = 1 ∨ p.v = 2) (hok : swOk p (.allNew n one items gd hdn win rcv)) (l : CLabel)
    (hl : SWLegal p (swSys p (.allNew n one items gd hdn win rcv)) l) :
    SWGood p (swSys p (.allNew n one items gd hdn win rcv)) ((swSys p (.allNew n one items gd hdn win rcv)).step l) := by
  simp only [swOk] at hok
  obtain ⟨hl, hopn⟩ := hl
  clear hopn
  have hb := new_okBuf p items
  cases l with
  | peerXfer k => cases hdn <;> sw_legal
  | deliver => sw_legal
  | deferStart ans => sw_legal
  | poll ans =>
    cases gd with
    | true =>
      clear hl
      cases one <;> sw_go [.idle n true true none items rcv]
    | false =>
      have hdn0 : hdn = false := by cases hdn <;> sw_legal
      subst hdn0
      have hli : (swSys p (.allNew n one items false false win rcv)).h.e.legalImmediate (offerOf (AbiBuffer.new p.c p.kind items).1) ans = true := by
        sw_legal; exact hl
      clear hl
      rcases legalImmediate_stream _ _ _ rfl hli with rfl | rfl | ⟨k, rfl, hk, hk1⟩
      · clear hli; rcases hv with hv | hv <;> sw_go [.waiting n (.all one true) (AbiBuffer.new p.c p.kind items).1 0 none rcv]
      · clear hli; cases one <;> sw_go [.idle n true true none items rcv]
      · clear hli
        obtain ⟨hb', hkr, hk2⟩ := okBuf_advance p _ k hb hk
        have hu := swUpdate_ok p _ 0 k hb (.inl rfl) hk
        simp only [Nat.zero_add, new_fst_cursor, new_fst_items, new_fst_window] at hu hb' hkr
        simp only [Host.COMPLETED]
        by_cases hr : items.length - k = 0
        · cases one <;> sw_go [.idle n false false none items (rcv ++ items.take k)]
        · cases one <;>
            sw_go [.running n false { (AbiBuffer.new p.c p.kind items).1 with items := items, cursor := k } false false false items (rcv ++ items.take k),
                   .running n true { (AbiBuffer.new p.c p.kind items).1 with items := items, cursor := k } false false false items (rcv ++ items.take k)]
  | close ex ans => clear hl; cases ex <;> cases hdn <;> sw_go [.gone n .idle win rcv, .gone n .done win rcv]
  | peerDrop => clear hl; cases hdn <;> sw_go [.allNew n one items gd false win rcv, .allNew n one items gd true win rcv]
  | _ => clear hl; sw_go [.allNew n one items gd hdn win rcv, .idle n gd hdn none win rcv]

theorem sw_running (p : SWP) (n : Nat) (one : Bool) (b : AbiBuffer) (gs gd hdn : Bool) (win rcv : List Nat)
    (hh : p.hd ≠ 0) (hv : p.v = 1 ∨ p.v = 2) (hok : swOk p (.running n one b gs gd hdn win rcv)) (l : CLabel)
    (hl : SWLegal p (swSys p (.running n one b gs gd hdn win rcv)) l) :
    SWGood p (swSys p (.running n one b gs gd hdn win rcv)) ((swSys p (.running n one b gs gd hdn win rcv)).step l) := by
  simp only [swOk] at hok
  obtain ⟨hgd, hb, hrem, hdg, hgs⟩ := hok
  obtain ⟨hl, hopn⟩ := hl
  clear hopn
  cases l with
  | poll ans =>
    cases gd with
    | true =>
      have : hdn = true := hgd rfl
      subst this
      clear hl
      cases one <;> cases gs <;> sw_go [.idle n true true none b.window rcv]
    | false =>
      have hdn0 : hdn = false := by cases hdn <;> simp_all
      subst hdn0
      have hgs0 : gs = false := by cases gs <;> simp_all
      subst hgs0
      have hli : (swSys p (.running n one b false false false win rcv)).h.e.legalImmediate (offerOf b) ans = true := by
        sw_legal; exact hl
      clear hl
      rcases legalImmediate_stream _ _ _ rfl hli with rfl | rfl | ⟨k, rfl, hk, hk1⟩
      · clear hli; rcases hv with hv | hv <;> sw_go [.waiting n (.all one false) b 0 none rcv]
      · clear hli; cases one <;> sw_go [.idle n true true none b.window rcv]
      · clear hli
        obtain ⟨hb', hkr, hk2⟩ := okBuf_advance p b k hb hk
        have hu := swUpdate_ok p b 0 k hb (.inl rfl) hk
        simp only [Nat.zero_add] at hu
        simp only [Host.COMPLETED]
        by_cases hr : b.items.length - (b.cursor + k) = 0
        · cases one <;> sw_go [.idle n false false none b.window (rcv ++ b.window.take k)]
        · cases one <;>
            sw_go [.running n false { b with cursor := b.cursor + k } false false false b.window (rcv ++ b.window.take k),
                   .running n true { b with cursor := b.cursor + k } false false false b.window (rcv ++ b.window.take k)]
  | _ => sw_legal

/-- the three forms of the pending event of a write in flight -/
def pendOk (pr : Nat) (pend : Option Nat) : Prop :=
  (pend = none ∧ pr = 0) ∨ pend = some (0 + 16 * pr) ∨ pend = some (1 + 16 * pr)

theorem swOk_waiting_iff (p : SWP) (n : Nat) (k : OpK) (b : AbiBuffer) (pr : Nat) (pend : Option Nat) (rcv : List Nat) :
    swOk p (.waiting n k b pr pend rcv) ↔ p.okBuf b ∧ pr ≤ offerOf b ∧ pendOk pr pend := by
  simp [swOk, pendOk, Host.packCode, Host.COMPLETED, Host.DROPPED]

theorem sw_waiting_host (p : SWP) (n : Nat) (k : OpK) (b : AbiBuffer) (pr : Nat) (pend : Option Nat) (rcv : List Nat)
    (hh : p.hd ≠ 0) (hv : p.v = 1 ∨ p.v = 2) (hb : p.okBuf b) (hpr : pr ≤ offerOf b) (hp : pendOk pr pend) (l : CLabel)
    (hl : CLegal (swSys p (.waiting n k b pr pend rcv)) l)
    (hkind : l = .peerDrop ∨ l = .deliver ∨ (∃ j, l = .peerXfer j) ∨ (∃ a, l = .poll a)) :
    SWGood p (swSys p (.waiting n k b pr pend rcv)) ((swSys p (.waiting n k b pr pend rcv)).step l) := by
  rcases hkind with rfl | rfl | ⟨j, rfl⟩ | ⟨a, rfl⟩
  · -- the peer drops
    rcases hp with ⟨rfl, rfl⟩ | rfl | rfl
    · clear hl
      cases k with
      | plain => rcases hv with hv | hv <;> sw_go [.waiting n .plain b 0 (some (1 + 16 * 0)) rcv]
      | all one first => rcases hv with hv | hv <;> sw_go [.waiting n (.all one first) b 0 (some (1 + 16 * 0)) rcv]
    · clear hl
      cases k with
      | plain => rcases hv with hv | hv <;> sw_go [.waiting n .plain b pr (some (1 + 16 * pr)) rcv]
      | all one first => rcases hv with hv | hv <;> sw_go [.waiting n (.all one first) b pr (some (1 + 16 * pr)) rcv]
    · cases k <;> sw_legal
  · -- delivery
    rcases hp with ⟨rfl, rfl⟩ | rfl | rfl
    · cases k <;> sw_legal
    · clear hl
      have hc : codeOk b (16 * pr) := ⟨0, pr, by simp [Host.packCode], .inl rfl, hpr⟩
      cases k with
      | plain => rcases hv with hv | hv <;> sw_go [.queued n .plain b (0 + 16 * pr) rcv]
      | all one first => rcases hv with hv | hv <;> sw_go [.queued n (.all one first) b (0 + 16 * pr) rcv]
    · clear hl
      have hc : codeOk b (1 + 16 * pr) := ⟨1, pr, by simp [Host.packCode], .inr rfl, hpr⟩
      cases k with
      | plain => rcases hv with hv | hv <;> sw_go [.queued n .plain b (1 + 16 * pr) rcv]
      | all one first => rcases hv with hv | hv <;> sw_go [.queued n (.all one first) b (1 + 16 * pr) rcv]
  · -- the peer takes `j` more items
    have hx : pr + j ≤ offerOf b ∧ pend ≠ some (1 + 16 * pr) := by
      rcases hp with ⟨rfl, rfl⟩ | rfl | rfl <;> cases k <;> sw_legal <;> simp_all
    obtain ⟨hj, hnd⟩ := hx
    clear hl
    simp only [offerOf] at hj hpr
    rcases hp with ⟨rfl, rfl⟩ | rfl | rfl
    · cases k with
      | plain =>
        rcases hv with hv | hv <;>
          sw_go [.waiting n .plain b (0 + j) (some (0 + 16 * (0 + j))) (rcv ++ (b.window.drop 0).take j)]
      | all one first =>
        rcases hv with hv | hv <;>
          sw_go [.waiting n (.all one first) b (0 + j) (some (0 + 16 * (0 + j))) (rcv ++ (b.window.drop 0).take j)]
    · cases k with
      | plain =>
        rcases hv with hv | hv <;>
          sw_go [.waiting n .plain b (pr + j) (some (0 + 16 * (pr + j))) (rcv ++ (b.window.drop pr).take j)]
      | all one first =>
        rcases hv with hv | hv <;>
          sw_go [.waiting n (.all one first) b (pr + j) (some (0 + 16 * (pr + j))) (rcv ++ (b.window.drop pr).take j)]
    · exact absurd rfl hnd
  · -- polled again without news: registers again
    clear hl
    rcases hp with ⟨rfl, rfl⟩ | rfl | rfl
    · cases k with
      | plain => rcases hv with hv | hv <;> sw_go [.waiting n .plain b 0 none rcv]
      | all one first => rcases hv with hv | hv <;> sw_go [.waiting n (.all one first) b 0 none rcv]
    · cases k with
      | plain => rcases hv with hv | hv <;> sw_go [.waiting n .plain b pr (some (0 + 16 * pr)) rcv]
      | all one first => rcases hv with hv | hv <;> sw_go [.waiting n (.all one first) b pr (some (0 + 16 * pr)) rcv]
    · cases k with
      | plain => rcases hv with hv | hv <;> sw_go [.waiting n .plain b pr (some (1 + 16 * pr)) rcv]
      | all one first => rcases hv with hv | hv <;> sw_go [.waiting n (.all one first) b pr (some (1 + 16 * pr)) rcv]

/-- cancelling / dropping / closing a plain write in flight when NO event is pending: the host resolves
the race with any `base|j` the rules allow -/
theorem sw_waiting_plain_end0 (p : SWP) (n : Nat) (b : AbiBuffer) (rcv : List Nat)
    (hh : p.hd ≠ 0) (hv : p.v = 1 ∨ p.v = 2) (hb : p.okBuf b) (l : CLabel)
    (hl : CLegal (swSys p (.waiting n .plain b 0 none rcv)) l)
    (hkind : (∃ a, l = .cancel a) ∨ (∃ a, l = .dropOp a) ∨ (∃ ex a, l = .close ex a)) :
    SWGood p (swSys p (.waiting n .plain b 0 none rcv)) ((swSys p (.waiting n .plain b 0 none rcv)).step l) := by
  have hans : ∀ a, (swSys p (.waiting n .plain b 0 none rcv)).h.e.legalCancelRet a = true →
      ∃ base j, a = base + 16 * j ∧ base < 3 ∧ j ≤ offerOf b := by
    intro a ha
    obtain ⟨base, j, h1, h2, h3⟩ := legalCancelRet_stream _ a rfl rfl ha
    exact ⟨base, j, h1, h2, h3⟩
  rcases hkind with ⟨a, rfl⟩ | ⟨a, rfl⟩ | ⟨ex, a, rfl⟩
  all_goals
    have hla : (swSys p (.waiting n .plain b 0 none rcv)).h.e.legalCancelRet a = true := by sw_legal; exact hl
    obtain ⟨base, j, rfl, hbase, hj⟩ := hans a hla
    clear hl hla hans
    have hu := swUpdate_ok3 p b base j hb hbase hj
    obtain ⟨hb', _, _⟩ := okBuf_advance p b j hb hj
    rcases Nat.eq_zero_or_pos j with rfl | hjp
  · -- cancel, nothing moved
    rcases (by omega : base = 0 ∨ base = 1 ∨ base = 2) with rfl | rfl | rfl <;> simp only [Nat.zero_add, Nat.mul_zero, Nat.add_zero] at hu <;>
      rcases hv with hv | hv <;>
      sw_go [.idle n false false (some { b with cursor := b.cursor + 0 }) b.window rcv,
             .idle n true true (some { b with cursor := b.cursor + 0 }) b.window rcv]
  · -- cancel, `j > 0` items moved in the race
    have hj0 : j ≠ 0 := by omega
    rcases (by omega : base = 0 ∨ base = 1 ∨ base = 2) with rfl | rfl | rfl <;> (try simp only [Nat.zero_add] at hu) <;>
      rcases hv with hv | hv <;>
      sw_go [.idle n false false (some { b with cursor := b.cursor + j }) b.window (rcv ++ (b.window.drop 0).take j),
             .idle n true true (some { b with cursor := b.cursor + j }) b.window (rcv ++ (b.window.drop 0).take j)]
  · -- drop, nothing moved
    rcases (by omega : base = 0 ∨ base = 1 ∨ base = 2) with rfl | rfl | rfl <;> simp only [Nat.zero_add, Nat.mul_zero, Nat.add_zero] at hu <;>
      rcases hv with hv | hv <;>
      sw_go [.idle n false false none b.window rcv, .idle n true true none b.window rcv]
  · have hj0 : j ≠ 0 := by omega
    rcases (by omega : base = 0 ∨ base = 1 ∨ base = 2) with rfl | rfl | rfl <;> (try simp only [Nat.zero_add] at hu) <;>
      rcases hv with hv | hv <;>
      sw_go [.idle n false false none b.window (rcv ++ (b.window.drop 0).take j),
             .idle n true true none b.window (rcv ++ (b.window.drop 0).take j)]
  · -- close, nothing moved
    rcases (by omega : base = 0 ∨ base = 1 ∨ base = 2) with rfl | rfl | rfl <;> simp only [Nat.zero_add, Nat.mul_zero, Nat.add_zero] at hu <;>
      cases ex <;> rcases hv with hv | hv <;>
      sw_go [.gone n .idle b.window rcv, .gone n .done b.window rcv]
  · have hj0 : j ≠ 0 := by omega
    rcases (by omega : base = 0 ∨ base = 1 ∨ base = 2) with rfl | rfl | rfl <;> (try simp only [Nat.zero_add] at hu) <;>
      cases ex <;> rcases hv with hv | hv <;>
      sw_go [.gone n .idle b.window (rcv ++ (b.window.drop 0).take j), .gone n .done b.window (rcv ++ (b.window.drop 0).take j)]

/-- dropping / closing a `write_all` / `write_one` whose write is in flight, no event pending -/
theorem sw_waiting_all_end0 (p : SWP) (n : Nat) (one first : Bool) (b : AbiBuffer) (rcv : List Nat)
    (hh : p.hd ≠ 0) (hv : p.v = 1 ∨ p.v = 2) (hb : p.okBuf b) (l : CLabel)
    (hl : CLegal (swSys p (.waiting n (.all one first) b 0 none rcv)) l)
    (hkind : (∃ a, l = .dropOp a) ∨ (∃ ex a, l = .close ex a)) :
    SWGood p (swSys p (.waiting n (.all one first) b 0 none rcv)) ((swSys p (.waiting n (.all one first) b 0 none rcv)).step l) := by
  have hans : ∀ a, (swSys p (.waiting n (.all one first) b 0 none rcv)).h.e.legalCancelRet a = true →
      ∃ base j, a = base + 16 * j ∧ base < 3 ∧ j ≤ offerOf b := by
    intro a ha
    obtain ⟨base, j, h1, h2, h3⟩ := legalCancelRet_stream _ a rfl rfl ha
    exact ⟨base, j, h1, h2, h3⟩
  rcases hkind with ⟨a, rfl⟩ | ⟨ex, a, rfl⟩
  all_goals
    have hla : (swSys p (.waiting n (.all one first) b 0 none rcv)).h.e.legalCancelRet a = true := by sw_legal; exact hl
    obtain ⟨base, j, rfl, hbase, hj⟩ := hans a hla
    clear hl hla hans
    have hu := swUpdate_ok3 p b base j hb hbase hj
    obtain ⟨hb', _, _⟩ := okBuf_advance p b j hb hj
    rcases Nat.eq_zero_or_pos j with rfl | hjp
  · rcases (by omega : base = 0 ∨ base = 1 ∨ base = 2) with rfl | rfl | rfl <;> simp only [Nat.mul_zero, Nat.add_zero] at hu <;>
      rcases hv with hv | hv <;>
      sw_go [.idle n false false none b.window rcv, .idle n true true none b.window rcv]
  · have hj0 : j ≠ 0 := by omega
    rcases (by omega : base = 0 ∨ base = 1 ∨ base = 2) with rfl | rfl | rfl <;> (try simp only [Nat.zero_add] at hu) <;>
      rcases hv with hv | hv <;>
      sw_go [.idle n false false none b.window (rcv ++ (b.window.drop 0).take j),
             .idle n true true none b.window (rcv ++ (b.window.drop 0).take j)]
  · rcases (by omega : base = 0 ∨ base = 1 ∨ base = 2) with rfl | rfl | rfl <;> simp only [Nat.mul_zero, Nat.add_zero] at hu <;>
      cases ex <;> rcases hv with hv | hv <;>
      sw_go [.gone n .idle b.window rcv, .gone n .done b.window rcv]
  · have hj0 : j ≠ 0 := by omega
    rcases (by omega : base = 0 ∨ base = 1 ∨ base = 2) with rfl | rfl | rfl <;> (try simp only [Nat.zero_add] at hu) <;>
      cases ex <;> rcases hv with hv | hv <;>
      sw_go [.gone n .idle b.window (rcv ++ (b.window.drop 0).take j), .gone n .done b.window (rcv ++ (b.window.drop 0).take j)]

/-- cancelling / dropping / closing a write in flight whose event is pending: the cancel returns that code -/
theorem sw_waiting_end1 (p : SWP) (n : Nat) (k : OpK) (b : AbiBuffer) (pr base : Nat) (rcv : List Nat)
    (hh : p.hd ≠ 0) (hv : p.v = 1 ∨ p.v = 2) (hb : p.okBuf b) (hpr : pr ≤ offerOf b) (hbase : base = 0 ∨ base = 1) (l : CLabel)
    (hl : CLegal (swSys p (.waiting n k b pr (some (base + 16 * pr)) rcv)) l)
    (hkind : (∃ a, l = .cancel a) ∨ (∃ a, l = .dropOp a) ∨ (∃ ex a, l = .close ex a)) :
    SWGood p (swSys p (.waiting n k b pr (some (base + 16 * pr)) rcv)) ((swSys p (.waiting n k b pr (some (base + 16 * pr)) rcv)).step l) := by
  have hu := swUpdate_ok3 p b base pr hb (by omega) hpr
  obtain ⟨hb', _, _⟩ := okBuf_advance p b pr hb hpr
  rcases hkind with ⟨a, rfl⟩ | ⟨a, rfl⟩ | ⟨ex, a, rfl⟩
  · cases k with
    | plain =>
      have : a = base + 16 * pr := by rcases hbase with rfl | rfl <;> sw_legal <;> simp_all [Host.End.legalCancelRet]
      subst this; clear hl
      rcases hbase with rfl | rfl <;> (try simp only [Nat.zero_add] at hu) <;> rcases hv with hv | hv <;>
        sw_go [.idle n false false (some { b with cursor := b.cursor + pr }) b.window rcv,
               .idle n true true (some { b with cursor := b.cursor + pr }) b.window rcv]
    | all one first =>
      clear hl
      rcases hbase with rfl | rfl <;> rcases hv with hv | hv <;>
        sw_go [.waiting n (.all one first) b pr (some (0 + 16 * pr)) rcv, .waiting n (.all one first) b pr (some (1 + 16 * pr)) rcv]
  · have : a = base + 16 * pr := by
      rcases hbase with rfl | rfl <;> cases k <;> sw_legal <;> simp_all [Host.End.legalCancelRet]
    subst this; clear hl
    cases k with
    | plain =>
      rcases hbase with rfl | rfl <;> (try simp only [Nat.zero_add] at hu) <;> rcases hv with hv | hv <;>
        sw_go [.idle n false false none b.window rcv, .idle n true true none b.window rcv]
    | all one first =>
      rcases hbase with rfl | rfl <;> (try simp only [Nat.zero_add] at hu) <;> rcases hv with hv | hv <;>
        sw_go [.idle n false false none b.window rcv, .idle n true true none b.window rcv]
  · have : a = base + 16 * pr := by
      rcases hbase with rfl | rfl <;> cases k <;> sw_legal <;> simp_all [Host.End.legalCancelRet]
    subst this; clear hl
    cases k with
    | plain =>
      rcases hbase with rfl | rfl <;> (try simp only [Nat.zero_add] at hu) <;> cases ex <;> rcases hv with hv | hv <;>
        sw_go [.gone n .idle b.window rcv, .gone n .done b.window rcv]
    | all one first =>
      rcases hbase with rfl | rfl <;> (try simp only [Nat.zero_add] at hu) <;> cases ex <;> rcases hv with hv | hv <;>
        sw_go [.gone n .idle b.window rcv, .gone n .done b.window rcv]

theorem sw_waiting (p : SWP) (n : Nat) (k : OpK) (b : AbiBuffer) (pr : Nat) (pend : Option Nat) (rcv : List Nat)
    (hh : p.hd ≠ 0) (hv : p.v = 1 ∨ p.v = 2) (hok : swOk p (.waiting n k b pr pend rcv)) (l : CLabel)
    (hl : SWLegal p (swSys p (.waiting n k b pr pend rcv)) l) :
    SWGood p (swSys p (.waiting n k b pr pend rcv)) ((swSys p (.waiting n k b pr pend rcv)).step l) := by
  obtain ⟨hb, hpr, hp⟩ := (swOk_waiting_iff p n k b pr pend rcv).mp hok
  obtain ⟨hl, hopn⟩ := hl
  clear hopn
  have hend : ∀ l', l' = l → ((∃ a, l' = .cancel a) ∨ (∃ a, l' = .dropOp a) ∨ (∃ ex a, l' = .close ex a)) →
      SWGood p (swSys p (.waiting n k b pr pend rcv)) ((swSys p (.waiting n k b pr pend rcv)).step l') := by
    intro l' hll hk'
    subst hll
    rcases hp with ⟨rfl, rfl⟩ | rfl | rfl
    · cases k with
      | plain => exact sw_waiting_plain_end0 p n b rcv hh hv hb l' hl hk'
      | all one first =>
        rcases hk' with ⟨a, rfl⟩ | hk'
        · clear hl; rcases hv with hv | hv <;> sw_go [.waiting n (.all one first) b 0 none rcv]
        · exact sw_waiting_all_end0 p n one first b rcv hh hv hb l' hl hk'
    · exact sw_waiting_end1 p n k b pr 0 rcv hh hv hb hpr (.inl rfl) l' hl hk'
    · exact sw_waiting_end1 p n k b pr 1 rcv hh hv hb hpr (.inr rfl) l' hl hk'
  cases l with
  | peerDrop => exact sw_waiting_host p n k b pr pend rcv hh hv hb hpr hp _ hl (.inl rfl)
  | deliver => exact sw_waiting_host p n k b pr pend rcv hh hv hb hpr hp _ hl (.inr (.inl rfl))
  | peerXfer j => exact sw_waiting_host p n k b pr pend rcv hh hv hb hpr hp _ hl (.inr (.inr (.inl ⟨j, rfl⟩)))
  | poll a => exact sw_waiting_host p n k b pr pend rcv hh hv hb hpr hp _ hl (.inr (.inr (.inr ⟨a, rfl⟩)))
  | cancel a => exact hend _ rfl (.inl ⟨a, rfl⟩)
  | dropOp a => exact hend _ rfl (.inr (.inl ⟨a, rfl⟩))
  | close ex a => exact hend _ rfl (.inr (.inr ⟨ex, a, rfl⟩))
  | deferStart ans => cases k <;> sw_legal
  | _ =>
    clear hl hend
    rcases hp with ⟨rfl, rfl⟩ | rfl | rfl
    · cases k with
      | plain => rcases hv with hv | hv <;> sw_go [.waiting n .plain b 0 none rcv]
      | all one first => rcases hv with hv | hv <;> sw_go [.waiting n (.all one first) b 0 none rcv]
    · cases k with
      | plain => rcases hv with hv | hv <;> sw_go [.waiting n .plain b pr (some (0 + 16 * pr)) rcv]
      | all one first => rcases hv with hv | hv <;> sw_go [.waiting n (.all one first) b pr (some (0 + 16 * pr)) rcv]
    · cases k with
      | plain => rcases hv with hv | hv <;> sw_go [.waiting n .plain b pr (some (1 + 16 * pr)) rcv]
      | all one first => rcases hv with hv | hv <;> sw_go [.waiting n (.all one first) b pr (some (1 + 16 * pr)) rcv]

set_option maxHeartbeats 2000000 in
theorem sw_queued (p : SWP) (n : Nat) (k : OpK) (b : AbiBuffer) (code : Nat) (rcv : List Nat)
    (hh : p.hd ≠ 0) (hv : p.v = 1 ∨ p.v = 2) (hok : swOk p (.queued n k b code rcv)) (l : CLabel)
    (hl : SWLegal p (swSys p (.queued n k b code rcv)) l) :
    SWGood p (swSys p (.queued n k b code rcv)) ((swSys p (.queued n k b code rcv)).step l) := by
  simp only [swOk] at hok
  obtain ⟨hb, base, j, rfl, hbase, hj⟩ := hok
  obtain ⟨hl, hopn⟩ := hl
  clear hopn
  have hbase' : base = 0 ∨ base = 1 := hbase
  have hu := swUpdate_ok3 p b base j hb (by rcases hbase' with rfl | rfl <;> omega) hj
  obtain ⟨hb', _, _⟩ := okBuf_advance p b j hb hj
  simp only [Host.packCode]
  cases l with
  | peerXfer x => rcases hbase' with rfl | rfl <;> cases k <;> sw_legal
  | deliver => rcases hbase' with rfl | rfl <;> cases k <;> sw_legal
  | deferStart ans => cases k <;> sw_legal
  | poll a =>
    clear hl
    cases k with
    | plain =>
      rcases hbase' with rfl | rfl <;> (try simp only [Nat.zero_add] at hu) <;> rcases hv with hv | hv <;>
        sw_go [.idle n false false (some { b with cursor := b.cursor + j }) b.window rcv,
               .idle n true true (some { b with cursor := b.cursor + j }) b.window rcv]
    | all one first =>
      by_cases hr : b.items.length - (b.cursor + j) = 0
      · rcases hbase' with rfl | rfl <;> (try simp only [Nat.zero_add] at hu) <;>
          rcases Nat.eq_zero_or_pos j with rfl | hjp <;> (try have hj0 : j ≠ 0 := by omega) <;>
          (try simp only [Nat.add_zero] at hr hb') <;>
          cases one <;> cases first <;> rcases hv with hv | hv <;>
          sw_go [.idle n false false none b.window rcv, .idle n true true none b.window rcv, .idle n true true none b.window rcv]
      · rcases hbase' with rfl | rfl <;> (try simp only [Nat.zero_add] at hu) <;>
          rcases Nat.eq_zero_or_pos j with rfl | hjp <;> (try have hj0 : j ≠ 0 := by omega) <;>
          (try simp only [Nat.add_zero] at hr hb') <;>
          cases one <;> cases first <;> rcases hv with hv | hv <;>
          sw_go [.running n false { b with cursor := b.cursor + j } false false false b.window rcv,
                 .running n true { b with cursor := b.cursor + j } false false false b.window rcv,
                 .running n false { b with cursor := b.cursor + j } false true true b.window rcv,
                 .running n true { b with cursor := b.cursor + j } false true true b.window rcv,
                 .idle n true true none b.window rcv] <;>
          (first | sw_try (.running n false { b with cursor := b.cursor } false false false b.window rcv)
                 | sw_try (.running n true { b with cursor := b.cursor } false false false b.window rcv))
  | cancel a =>
    clear hl
    cases k with
    | plain =>
      rcases hbase' with rfl | rfl <;> (try simp only [Nat.zero_add] at hu) <;> rcases hv with hv | hv <;>
        sw_go [.idle n false false (some { b with cursor := b.cursor + j }) b.window rcv,
               .idle n true true (some { b with cursor := b.cursor + j }) b.window rcv]
    | all one first =>
      have hc0 : codeOk b (16 * j) := ⟨0, j, by simp [Host.packCode], .inl rfl, hj⟩
      have hc1 : codeOk b (1 + 16 * j) := ⟨1, j, by simp [Host.packCode], .inr rfl, hj⟩
      rcases hbase' with rfl | rfl <;> rcases hv with hv | hv <;>
        sw_go [.queued n (.all one first) b (0 + 16 * j) rcv, .queued n (.all one first) b (1 + 16 * j) rcv]
  | dropOp a =>
    clear hl
    cases k <;> rcases hbase' with rfl | rfl <;> (try simp only [Nat.zero_add] at hu) <;> rcases hv with hv | hv <;>
      sw_go [.idle n false false none b.window rcv, .idle n true true none b.window rcv]
  | close ex a =>
    clear hl
    cases k <;> rcases hbase' with rfl | rfl <;> (try simp only [Nat.zero_add] at hu) <;> cases ex <;> rcases hv with hv | hv <;>
      sw_go [.gone n .idle b.window rcv, .gone n .done b.window rcv]
  | _ =>
    clear hl
    have hc0 : codeOk b (16 * j) := ⟨0, j, by simp [Host.packCode], .inl rfl, hj⟩
    have hc1 : codeOk b (1 + 16 * j) := ⟨1, j, by simp [Host.packCode], .inr rfl, hj⟩
    cases k with
    | plain =>
      rcases hbase' with rfl | rfl <;> rcases hv with hv | hv <;>
        sw_go [.queued n .plain b (0 + 16 * j) rcv, .queued n .plain b (1 + 16 * j) rcv]
    | all one first =>
      rcases hbase' with rfl | rfl <;> rcases hv with hv | hv <;>
        sw_go [.queued n (.all one first) b (0 + 16 * j) rcv, .queued n (.all one first) b (1 + 16 * j) rcv]

theorem sw_gone (p : SWP) (n : Nat) (st : CopySt) (win rcv : List Nat) (hh : p.hd ≠ 0) (hv : p.v = 1 ∨ p.v = 2)
    (hok : swOk p (.gone n st win rcv)) (l : CLabel)
    (hl : SWLegal p (swSys p (.gone n st win rcv)) l) : SWGood p (swSys p (.gone n st win rcv)) ((swSys p (.gone n st win rcv)).step l) := by
  simp only [swOk] at hok
  have hst : st = .idle ∨ st = .done := by cases st <;> simp at hok ⊢
  obtain ⟨hl, hopn⟩ := hl
  clear hopn
  cases l with
  | deferStart ans => sw_legal
  | peerXfer k => rcases hst with rfl | rfl <;> sw_legal
  | deliver => sw_legal
  | close ex ans => clear hl; cases ex <;> rcases hst with rfl | rfl <;> sw_go [.gone n .idle win rcv, .gone n .done win rcv]
  | _ => clear hl; rcases hst with rfl | rfl <;> sw_go [.gone n .idle win rcv, .gone n .done win rcv]

/-- Every legal step from a state satisfying the invariant is good. -/
theorem sw_step_safe (p : SWP) (s : ChanSys) (l : CLabel) (hI : SWInv p s) (hl : SWLegal p s l) :
    SWGood p s (s.step l) := by
  obtain ⟨hh, hv, sh, rfl, hok⟩ := hI
  cases sh with
  | closed => exact sw_closed p hh hv l hl
  | idle n gd hdn kept win rcv => exact sw_idle p n gd hdn kept win rcv hh hv hok l hl
  | ready n gd hdn b win rcv => exact sw_ready p n gd hdn b win rcv hh hv hok l hl
  | allNew n one items gd hdn win rcv => exact sw_allNew p n one items gd hdn win rcv hh hv hok l hl
  | running n one b gs gd hdn win rcv => exact sw_running p n one b gs gd hdn win rcv hh hv hok l hl
  | waiting n k b pr pend rcv => exact sw_waiting p n k b pr pend rcv hh hv hok l hl
  | queued n k b code rcv => exact sw_queued p n k b code rcv hh hv hok l hl
  | gone n st win rcv => exact sw_gone p n st win rcv hh hv hok l hl

/-- states reachable from a fresh guest-writer stream channel by legal labels -/
inductive SWReach (p : SWP) : ChanSys → List Ev → Prop
  | init : SWReach p (swSys p .closed) []
  | step {s tr l s' evs} : SWReach p s tr → SWLegal p s l → s.step l = .ok s' evs → SWReach p s' (tr ++ evs)

theorem sw_reach_inv {p : SWP} (hh : p.hd ≠ 0) (hv : p.v = 1 ∨ p.v = 2) {s tr} (h : SWReach p s tr) :
    SWInv p s ∧ s.h.trapped = false := by
  induction h with
  | init => exact ⟨⟨hh, hv, .closed, rfl, trivial⟩, rfl⟩
  | step hr hl hs ih =>
    have hg := sw_step_safe p _ _ ih.1 hl
    rw [hs] at hg
    exact ⟨hg.2.1, hg.1⟩

/-! ### FIFO: what the reader gets, over all histories -/

theorem sw_step_fifo {p : SWP} (hh : p.hd ≠ 0) (hv : p.v = 1 ∨ p.v = 2) {s tr} (h : SWReach p s tr) {l : CLabel}
    (hl : SWLegal p s l) {s' evs} (hs : s.step l = .ok s' evs) : FifoStep s s' := by
  have hg := sw_step_safe p s l (sw_reach_inv hh hv h).1 hl
  rw [hs] at hg
  exact hg.2.2

/-- everything the reader has received followed by what the guest still exposes is strictly increasing (values are
numbered in the order the body wrote them) and below the next fresh id -/
def FifoInv (s : ChanSys) : Prop :=
  (s.h.received ++ nextUp s).Pairwise (· < ·) ∧ ∀ x ∈ s.h.received ++ nextUp s, x < s.g.nextId

theorem nextUp_noBuffer (s : ChanSys) (h1 : s.g.act.isNone = true) (h2 : s.g.kept = none) : nextUp s = [] := by
  unfold nextUp
  cases ha : s.g.act <;> simp_all [Act.isNone]

theorem fifoInv_step {s s' : ChanSys} (hi : FifoInv s) (hf : FifoStep s s') : FifoInv s' := by
  obtain ⟨hp, hb⟩ := hi
  obtain ⟨j, hr, hn, hcase⟩ := hf
  have hsub : (s.h.received ++ (nextUp s).take j).Sublist (s.h.received ++ nextUp s) :=
    List.Sublist.append_left (List.take_sublist _ _) _
  rcases hcase with hc | ⟨h1, h2⟩ | hc
  · have heq : s'.h.received ++ nextUp s' = s.h.received ++ nextUp s := by
      rw [hr, hc, List.append_assoc, List.take_append_drop]
    unfold FifoInv
    rw [heq]
    exact ⟨hp, fun x hx => Nat.lt_of_lt_of_le (hb x hx) hn⟩
  · have hu := nextUp_noBuffer s' h1 h2
    unfold FifoInv
    rw [hu, List.append_nil, hr]
    exact ⟨hp.sublist hsub, fun x hx => Nat.lt_of_lt_of_le (hb x (hsub.subset hx)) hn⟩
  · unfold FifoInv
    rw [hc, hr]
    refine ⟨?_, ?_⟩
    · rw [List.pairwise_append]
      refine ⟨hp.sublist hsub, List.pairwise_lt_range', ?_⟩
      intro a ha b hb'
      have := hb a (hsub.subset ha)
      rw [List.mem_range'_1] at hb'
      omega
    · intro x hx
      rw [List.mem_append] at hx
      rcases hx with hx | hx
      · have := hb x (hsub.subset hx); omega
      · rw [List.mem_range'_1] at hx; omega

theorem sw_reach_fifo {p : SWP} (hh : p.hd ≠ 0) (hv : p.v = 1 ∨ p.v = 2) {s tr} (h : SWReach p s tr) : FifoInv s := by
  induction h with
  | init => exact ⟨by simp [swSys, nextUp, SWP.g0], by simp [swSys, nextUp, SWP.g0]⟩
  | step hr hl hs ih => exact fifoInv_step ih (sw_step_fifo hh hv hr hl hs)

end Witverif.Async
