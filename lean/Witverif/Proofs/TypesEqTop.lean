import Witverif.Proofs.TypesEqInfo
/-! Helper lemmas for C28, part 6: glue for the property theorems (`rep`, the bundle of facts
after `collect_equal_types`, alias chasing of the error type). -/
namespace Witverif.Text.TypesEq
open Witverif.Text.TypesEqSpec

/-- the representative the model answers for `a` in state `s` (`get_representative_type`) -/
def rep (s : Types) (a : Nat) : Option Nat := (getRepresentativeType s a).map (·.1)

theorem rep_eq_root (s : Types) (a : Nat) (hp : s.equalTypes.ParLe) :
    rep s a = some (s.equalTypes.root a) := by
  obtain ⟨s', h, _, _⟩ := getRepresentativeType_spec s a hp
  simp [rep, h]

/-- Everything the proofs know about the state after `collect_equal_types`. -/
structure Collected (T : Table) (mayAlias : Nat → Bool) (live : List Nat) (infos : List TypeInfo)
    (s : Types) : Prop where
  inv : OuterInv T mayAlias live s.equalTypes
  len : s.typeInfo.length = T.length
  info : ∀ a, a < T.length → ∀ f, ((s.typeInfo.getD a {}).get f = true ↔
    ∃ b, b < T.length ∧ s.equalTypes.root b = s.equalTypes.root a ∧ (infos.getD b {}).get f = true)

theorem collected_of_eq {T : Table} (hwf : WF T) {mayAlias : Nat → Bool}
    {infos : List TypeInfo} (hlen : infos.length = T.length)
    {live : List Nat} (hlive : ∀ x ∈ live, x < T.length)
    {order : List Nat} (hord1 : ∀ i ∈ order, i < T.length) (hord2 : ∀ i, i < T.length → i ∈ order)
    {s : Types}
    (h : collectEqualTypes T { typeInfo := infos, equalTypes := {} } live mayAlias order = some s) :
    Collected T mayAlias live infos s := by
  obtain ⟨s', h', h1, h2, h3⟩ := collectEqualTypes_spec hwf mayAlias infos hlen live hlive order hord1 hord2
  rw [h] at h'
  cases h'
  exact ⟨h1, h2, h3⟩


/-! ### `resolve_type_definition_id` = the spec's alias chasing -/

theorem resolve_eq_aliasTarget {T : Table} (hwf : WF T) : ∀ (fuel e : Nat), e < fuel → e < T.length →
    ∃ d, resolveTypeDefinitionId T fuel e = some d ∧ d < T.length ∧
      ∀ fuel', e < fuel' → aliasTarget T fuel' (.id e) = .id d := by
  intro fuel
  induction fuel with
  | zero => intro e h; omega
  | succ f ih =>
    intro e hef hen
    have hd : T[e]? = some T[e] := by simp [hen]
    by_cases hal : ∃ j, T[e] = .alias (.id j)
    · obtain ⟨j, hj⟩ := hal
      rw [hj] at hd
      have hje : j < e := hwf.ref_lt hd (by simp [Def.refs])
      obtain ⟨d, h1, h2, h3⟩ := ih j (by omega) (by omega)
      refine ⟨d, by simp [resolveTypeDefinitionId, hd, h1], h2, ?_⟩
      intro fuel' hf'
      cases fuel' with
      | zero => omega
      | succ g => simp only [aliasTarget, hd]; exact h3 g (by omega)
    · refine ⟨e, ?_, hen, ?_⟩
      · simp only [resolveTypeDefinitionId, hd]
        split
        · rename_i h; simp at h
        · rename_i d h; simp only [Option.some.injEq] at h; exact absurd ⟨d, h⟩ hal
        · rfl
      · intro fuel' hf'
        cases fuel' with
        | zero => omega
        | succ g =>
          simp only [aliasTarget, hd]
          split
          · rename_i j h; simp only [Option.some.injEq] at h; exact absurd ⟨j, h⟩ hal
          · rfl


end Witverif.Text.TypesEq
