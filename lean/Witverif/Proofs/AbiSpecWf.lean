import Witverif.Proofs.AbiFlatten
/-! Well-formedness of `Spec.lowerFlat` on memory-free types: it does not touch the state, produces
exactly `Spec.flatten` many values of the right core types, each within its width. -/
namespace Witverif.Abi
open Spec

mutual
/-- types whose canonical encoding involves no linear memory (no string / list / map), with
discriminants that fit 32 bits -/
def memFree : Ty → Bool
  | .string | .list _ | .map _ _ => false
  | .flist e _ => memFree e
  | .record fs => memFreeAll fs
  | .tuple ts => memFreeAll ts
  | .variant cs => cs.length ≤ 4294967296 && memFreeCases cs
  | .enum n => n ≤ 4294967296
  | .option t => memFree t
  | .result a b => memFreeOpt a && memFreeOpt b
  | _ => true
def memFreeAll : List Ty → Bool
  | [] => true
  | t :: ts => memFree t && memFreeAll ts
def memFreeOpt : Option Ty → Bool
  | none => true
  | some t => memFree t
def memFreeCases : List (Option Ty) → Bool
  | [] => true
  | c :: cs => memFreeOpt c && memFreeCases cs
end

/-- a list of core values is well-formed for the flat types `ts` -/
def WfFlat (cs : List CVal) (ts : List FT) : Prop :=
  cs.map (·.ty) = ts ∧ ∀ x ∈ cs, x.bits < 2 ^ x.ty.width

theorem WfFlat.nil : WfFlat [] [] := ⟨rfl, by simp⟩

theorem WfFlat.append {a b : List CVal} {ta tb : List FT} (ha : WfFlat a ta) (hb : WfFlat b tb) :
    WfFlat (a ++ b) (ta ++ tb) := by
  refine ⟨by simp [ha.1, hb.1], ?_⟩
  intro x hx
  rcases List.mem_append.mp hx with h | h
  · exact ha.2 x h
  · exact hb.2 x h

theorem wrap_lt (w : Nat) (n : Int) : wrap w n < 2 ^ w := by
  unfold wrap
  have hp : 0 < 2 ^ w := Nat.pow_pos (by decide)
  have hpos : (0 : Int) < ((2 ^ w : Nat) : Int) := by omega
  have h1 := Int.emod_lt_of_pos n hpos
  have h0 := Int.emod_nonneg n (Int.ne_of_gt hpos)
  omega

theorem sum_pow_lt (f : Nat → Nat) (hf : ∀ i, f i ≤ 2 ^ i) :
    ∀ n, ((List.range n).map f).sum < 2 ^ n := by
  intro n
  induction n with
  | zero => simp
  | succ n ih =>
    rw [List.range_succ]
    simp only [List.map_append, List.sum_append, List.map_cons, List.map_nil, List.sum_cons, List.sum_nil]
    have := hf n
    rw [Nat.pow_succ]
    omega

theorem flagsWord_lt (bs : List Bool) (w : Nat) : flagsWord bs w < 2 ^ 32 := by
  unfold flagsWord
  apply sum_pow_lt
  intro i
  split <;> simp

theorem isChar_lt {c : Nat} (h : isChar c = true) : c < 2 ^ 32 := by
  unfold isChar at h
  simp at h
  omega

end Witverif.Abi

namespace Witverif.Abi
open Spec

theorem specJoin_width_left : ∀ a b : FT, a.width ≤ (Spec.join a b).width := by
  intro a b; cases a <;> cases b <;> decide
theorem specJoin_width_right : ∀ a b : FT, b.width ≤ (Spec.join a b).width := by
  intro a b; cases a <;> cases b <;> decide

/-- `ws` bounds `ts` slot-wise in width (and is at least as long) -/
def WidthLe (ts ws : List FT) : Prop :=
  ∀ (k : Nat) (h : k < ts.length), ∃ h' : k < ws.length, (ts[k]).width ≤ (ws[k]).width

theorem WidthLe.refl (ts : List FT) : WidthLe ts ts := fun k h => ⟨h, Nat.le_refl _⟩

theorem WidthLe.trans {a b c : List FT} (h1 : WidthLe a b) (h2 : WidthLe b c) : WidthLe a c := by
  intro k h
  have ⟨h', hle⟩ := h1 k h
  have ⟨h'', hle'⟩ := h2 k h'
  exact ⟨h'', Nat.le_trans hle hle'⟩

theorem specJoinFlat_widthLe_left : ∀ as bs : List FT, WidthLe as (Spec.joinFlat as bs) := by
  intro as
  induction as with
  | nil => intro bs k h; simp at h
  | cons a as ih =>
    intro bs
    cases bs with
    | nil => simpa [Spec.joinFlat] using WidthLe.refl (a :: as)
    | cons b bs =>
      intro k h
      cases k with
      | zero => exact ⟨by simp [Spec.joinFlat], by simpa [Spec.joinFlat] using specJoin_width_left a b⟩
      | succ k =>
        have ⟨h', hle⟩ := ih bs k (by simpa using h)
        exact ⟨by simp [Spec.joinFlat]; omega, by simpa [Spec.joinFlat] using hle⟩

theorem specJoinFlat_widthLe_right : ∀ as bs : List FT, WidthLe bs (Spec.joinFlat as bs) := by
  intro as
  induction as with
  | nil => intro bs; simpa [Spec.joinFlat] using WidthLe.refl bs
  | cons a as ih =>
    intro bs
    cases bs with
    | nil => intro k h; simp at h
    | cons b bs =>
      intro k h
      cases k with
      | zero => exact ⟨by simp [Spec.joinFlat], by simpa [Spec.joinFlat] using specJoin_width_right a b⟩
      | succ k =>
        have ⟨h', hle⟩ := ih bs k (by simpa using h)
        exact ⟨by simp [Spec.joinFlat]; omega, by simpa [Spec.joinFlat] using hle⟩

theorem specFlattenCases_widthLe (p : Nat) (cs : List (Option Ty)) (i : Nat) (c : Option Ty)
    (hc : cs[i]? = some c) : WidthLe (Spec.flattenOpt p c) (Spec.flattenCases p cs) := by
  induction cs generalizing i with
  | nil => simp at hc
  | cons d ds ih =>
    cases i with
    | zero =>
      simp at hc; subst hc
      simpa [Spec.flattenCases] using specJoinFlat_widthLe_left _ _
    | succ i =>
      have := ih i (by simpa using hc)
      simpa [Spec.flattenCases] using this.trans (specJoinFlat_widthLe_right _ _)

/-- coercing a well-formed payload into wider-or-equal joined slots, padding with zeros -/
theorem coercePayload_wf : ∀ (vs : List CVal) (tp ws : List FT),
    WfFlat vs tp → WidthLe tp ws → WfFlat (coercePayload vs ws) ws := by
  intro vs
  induction vs with
  | nil =>
    intro tp ws _ _
    refine ⟨by simp [coercePayload, Function.comp_def], ?_⟩
    intro x hx
    simp [coercePayload] at hx
    obtain ⟨w, _, rfl⟩ := hx
    exact Nat.pow_pos (by decide)
  | cons v vs ih =>
    intro tp ws hwf hle
    cases tp with
    | nil => simp [WfFlat] at hwf
    | cons t tp =>
      cases ws with
      | nil => have ⟨h', _⟩ := hle 0 (by simp); simp at h'
      | cons w ws =>
        have hv : v.ty = t := by have := hwf.1; simp at this; exact this.1
        have hvb : v.bits < 2 ^ v.ty.width := hwf.2 v (by simp)
        have ⟨_, hw0⟩ := hle 0 (by simp)
        simp at hw0
        have hrest := ih tp ws ⟨by have := hwf.1; simp at this; exact this.2,
            fun x hx => hwf.2 x (by simp [hx])⟩
          (by intro k h; have ⟨h', hl⟩ := hle (k + 1) (by simpa using h); exact ⟨by simpa using h', by simpa using hl⟩)
        refine ⟨by simp [coercePayload, coerceSlot, hrest.1], ?_⟩
        intro x hx
        simp only [coercePayload, List.mem_cons] at hx
        rcases hx with rfl | hx
        · simp only [coerceSlot]
          split
          · rename_i hcond
            rw [hcond.2]
            have : (2:Nat) ^ 32 < 2 ^ 64 := by decide
            have := Nat.mod_lt v.bits (show 0 < 2 ^ 32 by decide)
            omega
          · rw [hv] at hvb
            exact Nat.lt_of_lt_of_le hvb (Nat.pow_le_pow_right (by decide) hw0)
        · exact hrest.2 x hx

end Witverif.Abi
