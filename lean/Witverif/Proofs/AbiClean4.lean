import Witverif.Proofs.AbiClean3
/-! C03: `dealloc_flat_cleans` — cleanup on flat operands (direct mode), both cleanup modes. -/
namespace Witverif.Abi
open Spec

/-- effect of cleaning `n` elements at `ptr` (through memory) and then the buffer itself -/
def bufEff (be : Nat → Eff) (ptr n sz al : Nat) : Eff :=
  (((List.range n).flatMap fun i => (be (ptr + i * sz)).1) ++ [(ptr, n * sz, al)],
   (List.range n).flatMap fun i => (be (ptr + i * sz)).2)

mutual
/-- ledger effect the spec assigns to cleaning up a value given by its flat core values -/
def flatEff (hd : Bool) (p : Nat) (m : Mem) : Ty → List CVal → Eff
  | .string, [a, n] => ([(a.bits, n.bits, 1)], [])
  | .list e, [a, n] => bufEff (cleanupEff hd p m e) a.bits n.bits (elemSize p e) (alignment p e)
  | .map k v, [a, n] =>
      bufEff (fun b => (cleanupEff hd p m k b).app (cleanupEff hd p m v (b + alignTo (elemSize p k) (alignment p v))))
        a.bits n.bits (elemSize p (.tuple [k, v])) (alignment p (.tuple [k, v]))
  | .own, [h] | .future _, [h] | .stream _, [h] => ([], if hd then [h.bits % 2 ^ 32] else [])
  | .record fs, cs => flatEffFields hd p m fs cs
  | .tuple ts, cs => flatEffFields hd p m ts cs
  | .variant cs', d :: rest => flatEffCase hd p m cs' d.bits rest
  | .option t, d :: rest => if d.bits == 1 then flatEff hd p m t (coerceBack rest (Spec.flatten p t)) else ([], [])
  | .result a b, d :: rest =>
      if d.bits == 0 then flatEffOpt hd p m a rest else if d.bits == 1 then flatEffOpt hd p m b rest else ([], [])
  | _, _ => ([], [])
def flatEffFields (hd : Bool) (p : Nat) (m : Mem) : List Ty → List CVal → Eff
  | [], _ => ([], [])
  | t :: ts, cs =>
      (flatEff hd p m t (cs.take (Spec.flatten p t).length)).app (flatEffFields hd p m ts (cs.drop (Spec.flatten p t).length))
def flatEffOpt (hd : Bool) (p : Nat) (m : Mem) : Option Ty → List CVal → Eff
  | none, _ => ([], [])
  | some t, cs => flatEff hd p m t (coerceBack cs (Spec.flatten p t))
def flatEffCase (hd : Bool) (p : Nat) (m : Mem) : List (Option Ty) → Nat → List CVal → Eff
  | [], _, _ => ([], [])
  | c :: _, 0, cs => flatEffOpt hd p m c cs
  | _ :: cs', i + 1, cs => flatEffCase hd p m cs' i cs
end

mutual
/-- discriminants inspected by the cleanup on flat operands are in range -/
def flatValid (p : Nat) (m : Mem) : Ty → List CVal → Bool
  | .list e, [a, n] => allMany (validDiscs p m e) (elemSize p e) a.bits n.bits
  | .map k v, [a, n] =>
      allMany (fun b => validDiscs p m k b && validDiscs p m v (b + alignTo (elemSize p k) (alignment p v)))
        (elemSize p (.tuple [k, v])) a.bits n.bits
  | .record fs, cs => flatValidFields p m fs cs
  | .tuple ts, cs => flatValidFields p m ts cs
  | .variant cs', d :: rest => decide (d.bits < cs'.length) && flatValidCase p m cs' d.bits rest
  | .option t, d :: rest =>
      decide (d.bits < 2) && (d.bits != 1 || flatValid p m t (coerceBack rest (Spec.flatten p t)))
  | .result a b, d :: rest =>
      decide (d.bits < 2) && (if d.bits == 0 then flatValidOpt p m a rest else flatValidOpt p m b rest)
  | _, _ => true
def flatValidFields (p : Nat) (m : Mem) : List Ty → List CVal → Bool
  | [], _ => true
  | t :: ts, cs =>
      flatValid p m t (cs.take (Spec.flatten p t).length) && flatValidFields p m ts (cs.drop (Spec.flatten p t).length)
def flatValidOpt (p : Nat) (m : Mem) : Option Ty → List CVal → Bool
  | none, _ => true
  | some t, cs => flatValid p m t (coerceBack cs (Spec.flatten p t))
def flatValidCase (p : Nat) (m : Mem) : List (Option Ty) → Nat → List CVal → Bool
  | [], _, _ => true
  | c :: _, 0, cs => flatValidOpt p m c cs
  | _ :: cs', i + 1, cs => flatValidCase p m cs' i cs
end

theorem cleansF_append {p lvl : Nat} {tys : List FT} {xs : List Expr} {d1 d2 : List Stmt}
    {e1 e2 : Mem → List CVal → Eff} {v1 v2 : Mem → List CVal → Bool}
    (h1 : CleansF p lvl tys xs d1 e1 v1) (h2 : CleansF p lvl tys xs d2 e2 v2) :
    CleansF p lvl tys xs (d1 ++ d2) (fun m cs => (e1 m cs).app (e2 m cs)) (fun m cs => v1 m cs && v2 m cs) := by
  intro env s cs hp hl hwf hst hv
  simp at hv
  have ⟨l1, x1⟩ := h1 env s cs hp hl hwf hst hv.1
  have ⟨l2, x2⟩ := h2 (env.withLets l1) (s.release (e1 s.st.mem cs)) cs hp hl hwf (hst.withLets l1) (by simpa using hv.2)
  refine ⟨l2, ?_⟩
  rw [execStmts_append, x1]
  simp only [Option.bind_some, x2, withLets_withLets, MSt.release_st, MSt.release_release]

/-- re-target a cleanup from operands `ys` (denoting `g cs`) to operands `xs` (denoting `cs`) -/
theorem cleansF_of_operands {p lvl : Nat} {tys tys' : List FT} {xs ys : List Expr} {ds : List Stmt}
    {e : Mem → List CVal → Eff} {v : Mem → List CVal → Bool} (g : List CVal → List CVal)
    (h : CleansF p lvl tys' ys ds e v)
    (hg : ∀ (env : Env) (m : Mem) (cs : List CVal), env.p = p → WfFlat cs tys → FlatStable env m xs cs →
      WfFlat (g cs) tys' ∧ FlatStable env m ys (g cs)) :
    CleansF p lvl tys xs ds (fun m cs => e m (g cs)) (fun m cs => v m (g cs)) := by
  intro env s cs hp hl hwf hst hv
  have ⟨hw', hs'⟩ := hg env s.st.mem cs hp hwf hst
  exact h env s (g cs) hp hl hw' hs' hv

/-- a variant-shaped cleanup on flat operands from its arms -/
theorem cleansF_variant (p lvl : Nat) (tys : List FT) (xs : List Expr) (n : Nat) (arms : List (List Stmt × List Expr))
    (effs : Nat → Mem → List CVal → Eff) (valid : Nat → Mem → List CVal → Bool) (hlen : arms.length = n)
    (harms : ∀ (i : Nat) (h : i < n), (arms[i]'(hlen ▸ h)).2 = [] ∧
      CleansF p (lvl + 1) tys xs (arms[i]'(hlen ▸ h)).1 (effs i) (valid i)) :
    CleansF p lvl tys xs [.eff (.deallocVariant n) [hd xs] arms]
      (fun m cs => match cs with | d :: _ => effs d.bits m cs | [] => ([], []))
      (fun m cs => match cs with | d :: _ => decide (d.bits < n) && valid d.bits m cs | [] => false) := by
  intro env s cs hpe hl hwf hst hv
  cases cs with
  | nil => simp at hv
  | cons d rest =>
    simp at hv
    obtain ⟨hlt, hvalid⟩ := hv
    have hd' := hst.head
    have ⟨hres, hfr⟩ := harms _ hlt
    have hget : arms[d.bits]? = some (arms[d.bits]'(hlen ▸ hlt)) := by simp [hlen, hlt]
    have ⟨ls, he⟩ := hfr (env.extend [{}]) s (d :: rest) hpe (by simp [Env.extend, hl]) hwf (hst.extend _) hvalid
    refine ⟨(keyOf (.deallocVariant n) [hd xs], []) :: env.lets, ?_⟩
    simp only [execStmts, exec, evalList_cons, evalList_nil, hd', Option.bind_some, Option.map_some, execOp, hlt, if_true]
    rw [execBlockAt_get env s arms _ {} _ hget, enter_length_eq, he]
    simp [hres, Env.bind, Env.withLets]

def ArmCleansF (hd : Bool) (p : Nat) (o : Option Ty) : Prop :=
  ∀ (lvl : Nat) (params1 : List CoreTy) (inputs : List Expr) (body : List Stmt),
    (∀ (k : Nat) (h : k < (flattenOpt o).length), ∃ h' : k < params1.length, le ((flattenOpt o)[k]) (params1[k]) = true) →
    deallocArm hd lvl o params1 inputs = .ok body →
    CleansF p (lvl + 1) (params1.map (CoreTy.erase p)) inputs body
      (fun m rest => flatEffOpt hd p m o rest) (fun m rest => flatValidOpt p m o rest)

theorem armCleansF_none (hd : Bool) (p : Nat) : ArmCleansF hd p none := by
  intro lvl params1 inputs body _ h
  simp [deallocArm, pure, Except.pure] at h
  subst h
  exact cleansF_of_empty (by intros; simp [flatEffOpt])

theorem armCleansF_some (hd : Bool) (p : Nat) (hp : p = 4 ∨ p = 8) (t : Ty)
    (ih : ∀ (lvl : Nat) (xs : List Expr) (ds : List Stmt), dealloc hd lvl t xs = .ok ds →
      CleansF p lvl (Spec.flatten p t) xs ds (fun m cs => flatEff hd p m t cs) (fun m cs => flatValid p m t cs)) :
    ArmCleansF hd p (some t) := by
  intro lvl params1 inputs body hb h
  simp only [deallocArm, bind_ok] at h
  obtain ⟨temp, htemp, ins, hins, hbody⟩ := h
  have ht := flatU_ok htemp
  subst ht
  simp only [armInputs, bind_ok] at hins
  obtain ⟨casts, hcasts, hins⟩ := hins
  simp [pure, Except.pure] at hins
  subst hins
  have hb' : ∀ (k : Nat) (h : k < (flatten t).length), ∃ h' : k < params1.length, le ((flatten t)[k]) (params1[k]) = true := by
    simpa [flattenOpt] using hb
  have hle : (flatten t).length ≤ params1.length := by
    by_cases h0 : (flatten t).length = 0
    · omega
    · have ⟨h', _⟩ := hb' ((flatten t).length - 1) (by omega); omega
  have hcl := castsFor_length _ _ _ hcasts
  have := cleansF_of_operands (tys := params1.map (CoreTy.erase p)) (xs := inputs)
    (fun rest => coerceBack rest (Spec.flatten p t)) (ih (lvl + 1) _ body hbody)
    (by
      intro env m rest hpe hwf hst
      have ⟨hz, hwfc⟩ := casts_coerceBack p hp (flatten t) params1 casts rest hcasts hb' hwf
      rw [flatten_erase p hp t] at hz hwfc
      refine ⟨hwfc, ?_⟩
      intro fs ls
      have hvl : rest.length = params1.length := by simpa using hwf.length
      have hil : inputs.length = rest.length := hst.length
      have h1 := (hst.take (flatten t).length) fs ls
      have := evalList_applyCasts ((env.extend fs).withLets ls) m (casts.take (flatten t).length)
        (inputs.take (flatten t).length) (rest.take (flatten t).length)
        (by simp [hcl]; omega) h1 (by simp; omega)
        (by
          have hpp : ((env.extend fs).withLets ls).p = p := hpe
          rw [hpp]; exact (castsFor_typed p hp _ _ casts rest hcasts hwf.1).take _)
      have hpp : ((env.extend fs).withLets ls).p = p := hpe
      rw [this, hpp, hz])
  exact cleansF_congr this (by intros; simp [flatEffOpt]) (by intro m cs _ hv; simpa [flatValidOpt] using hv)

set_option maxHeartbeats 800000 in
mutual
theorem dealloc_flat_cleans (hd : Bool) (p : Nat) (hp : p = 4 ∨ p = 8) : ∀ (t : Ty), noFlist t = true →
    ∀ (lvl : Nat) (xs : List Expr) (ds : List Stmt), dealloc hd lvl t xs = .ok ds →
    CleansF p lvl (Spec.flatten p t) xs ds (fun m cs => flatEff hd p m t cs) (fun m cs => flatValid p m t cs)
  | .bool, _, _, _, _, h | .s8, _, _, _, _, h | .u8, _, _, _, _, h | .s16, _, _, _, _, h
  | .u16, _, _, _, _, h | .s32, _, _, _, _, h | .u32, _, _, _, _, h | .s64, _, _, _, _, h
  | .u64, _, _, _, _, h | .f32, _, _, _, _, h | .f64, _, _, _, _, h | .char, _, _, _, _, h
  | .errctx, _, _, _, _, h | .borrow, _, _, _, _, h | .flags _, _, _, _, _, h | .enum _, _, _, _, _, h => by
      simp [dealloc, pure, Except.pure] at h
      subst h
      exact cleansF_of_empty (by intros; simp [flatEff])
  | .flist _ _, hn, _, _, _, _ => by simp [noFlist] at hn
  | .own, _, lvl, xs, ds, h => by
      simp [dealloc, pure, Except.pure] at h
      subst h
      cases hd
      · exact cleansF_of_empty (by intro m cs; rcases cs with _ | ⟨h, _ | ⟨_, _⟩⟩ <;> simp [flatEff])
      · exact cleansF_congr (cleansF_drop p lvl xs .own (Or.inl rfl))
          (by intro m cs hwf; obtain ⟨h, rfl, _, _⟩ := single_of_wf hwf; simp [flatEff]) (fun _ _ _ _ => rfl)
  | .future q, _, lvl, xs, ds, h => by
      simp [dealloc, pure, Except.pure] at h
      subst h
      cases hd
      · exact cleansF_of_empty (by intro m cs; rcases cs with _ | ⟨h, _ | ⟨_, _⟩⟩ <;> simp [flatEff])
      · exact cleansF_congr (cleansF_drop p lvl xs (.future q) (Or.inr (Or.inl ⟨q, rfl⟩)))
          (by intro m cs hwf; obtain ⟨h, rfl, _, _⟩ := single_of_wf hwf; simp [flatEff]) (fun _ _ _ _ => rfl)
  | .stream q, _, lvl, xs, ds, h => by
      simp [dealloc, pure, Except.pure] at h
      subst h
      cases hd
      · exact cleansF_of_empty (by intro m cs; rcases cs with _ | ⟨h, _ | ⟨_, _⟩⟩ <;> simp [flatEff])
      · exact cleansF_congr (cleansF_drop p lvl xs (.stream q) (Or.inr (Or.inr ⟨q, rfl⟩)))
          (by intro m cs hwf; obtain ⟨h, rfl, _, _⟩ := single_of_wf hwf; simp [flatEff]) (fun _ _ _ _ => rfl)
  | .string, _, lvl, xs, ds, h => by
      simp [dealloc, pure, Except.pure] at h
      subst h
      exact cleansF_congr (cleansF_string p lvl xs)
        (by intro m cs hwf; obtain ⟨a, n, rfl, _, _⟩ := two_of_wf hwf; simp [flatEff]) (fun _ _ _ _ => rfl)
  | .list e, hn, lvl, xs, ds, h => by
      simp [noFlist] at hn
      simp only [dealloc, bind_ok] at h
      obtain ⟨body, hbody, hp'⟩ := h
      simp [pure, Except.pure] at hp'
      subst hp'
      have hb := dealloc_cleans hd p hp e hn (lvl + 1) (.base (lvl + 1)) Off.zero body hbody
      have hb' : Cleans p (lvl + 1) (.base (lvl + 1)) body (fun m x => cleanupEff hd p m e x) (fun m x => validDiscs p m e x) :=
        cleans_congr hb (by intros; simp [Off.zero_at]) (by intro m x hv; simpa [Off.zero_at] using hv)
      exact cleansF_congr (cleansF_list p lvl xs e body _ _ hb')
        (by intro m cs hwf; obtain ⟨a, n, rfl, _, _⟩ := two_of_wf hwf; simp [flatEff, bufEff])
        (by intro m cs _ hv; rcases cs with _ | ⟨a, _ | ⟨n, _ | ⟨z, r⟩⟩⟩ <;> simp_all [flatValid])
  | .map k v, hn, lvl, xs, ds, h => by
      simp [noFlist] at hn
      simp only [dealloc, bind_ok] at h
      obtain ⟨b1, hb1, b2, hb2, hp'⟩ := h
      simp [pure, Except.pure] at hp'
      subst hp'
      have h1 := dealloc_cleans hd p hp k hn.1 (lvl + 1) (.base (lvl + 1)) Off.zero b1 hb1
      have h2 := dealloc_cleans hd p hp v hn.2 (lvl + 1) (.base (lvl + 1)) _ b2 hb2
      have hvo : ((fieldOffs [k, v]).getD 1 Off.zero).at p = alignTo (elemSize p k) (alignment p v) := by
        rcases hp with rfl | rfl <;> simp [fieldOffs, fieldOffsets, Off.at, alignTo_zero]
      have h1' : Cleans p (lvl + 1) (.base (lvl + 1)) b1 (fun m x => cleanupEff hd p m k x) (fun m x => validDiscs p m k x) :=
        cleans_congr h1 (by intros; simp [Off.zero_at]) (by intro m x hv; simpa [Off.zero_at] using hv)
      have h2' : Cleans p (lvl + 1) (.base (lvl + 1)) b2
          (fun m x => cleanupEff hd p m v (x + alignTo (elemSize p k) (alignment p v)))
          (fun m x => validDiscs p m v (x + alignTo (elemSize p k) (alignment p v))) :=
        cleans_congr h2 (by intros; rw [hvo]) (by intro m x hv; rw [hvo]; exact hv)
      exact cleansF_congr (cleansF_map p lvl xs k v (b1 ++ b2) _ _ (cleans_append h1' h2'))
        (by intro m cs hwf; obtain ⟨a, n, rfl, _, _⟩ := two_of_wf hwf; simp [flatEff, bufEff])
        (by intro m cs _ hv; rcases cs with _ | ⟨a, _ | ⟨n, _ | ⟨z, r⟩⟩⟩ <;> simp_all [flatValid])
  | .record fs, hn, lvl, xs, ds, h => by
      simp [noFlist] at hn
      simp only [dealloc, bind_ok] at h
      obtain ⟨_, _, h⟩ := h
      exact cleansF_congr (deallocFields_flat_cleans hd p hp fs hn lvl xs ds h)
        (by intros; simp [flatEff]) (by intro m cs _ hv; simpa [flatValid] using hv)
  | .tuple ts, hn, lvl, xs, ds, h => by
      simp [noFlist] at hn
      simp only [dealloc, bind_ok] at h
      obtain ⟨_, _, h⟩ := h
      exact cleansF_congr (deallocFields_flat_cleans hd p hp ts hn lvl xs ds h)
        (by intros; simp [flatEff]) (by intro m cs _ hv; simpa [flatValid] using hv)
  | .variant cs', hn, lvl, xs, ds, h => by
      simp [noFlist] at hn
      simp only [dealloc, bind_ok] at h
      obtain ⟨params, hparams, arms, harms, hp'⟩ := h
      have hpr := flatU_ok hparams
      simp [pure, Except.pure] at hp'
      subst hp'
      have hdrop : params.drop 1 = flattenCases cs' := by rw [hpr]; simp [flatten]
      have ⟨hlen, hall⟩ := deallocArms_flat_cleans hd p hp cs' hn lvl (params.drop 1) (xs.drop 1) arms
        (by rw [hdrop]; intro i ci hci; exact flattenCases_get_bounds cs' i ci hci) harms
      have := cleansF_variant p lvl (Spec.flatten p (.variant cs')) xs cs'.length arms
        (fun i m cs => flatEffCase hd p m cs' i (cs.drop 1)) (fun i m cs => flatValidCase p m cs' i (cs.drop 1)) hlen
        (by
          intro i hi
          have ⟨hr, hc⟩ := hall i hi
          refine ⟨hr, ?_⟩
          exact cleansF_of_operands (fun cs => cs.drop 1) hc (by
            intro env m cs _ hwf hst
            refine ⟨?_, hst.drop 1⟩
            rw [hdrop, flattenCases_erase p hp cs']
            simp only [Spec.flatten] at hwf
            cases cs with
            | nil => have := hwf.1; simp at this
            | cons d rest => exact (WfFlat.cons_inv hwf).2.2))
      exact cleansF_congr this
        (by
          intro m cs hwf
          simp only [Spec.flatten] at hwf
          cases cs with
          | nil => have := hwf.1; simp at this
          | cons d rest => simp [flatEff])
        (by
          intro m cs hwf hv
          cases cs with
          | nil => have := hwf.1; simp [Spec.flatten] at this
          | cons d rest => simpa [flatValid] using hv)
  | .option t, hn, lvl, xs, ds, h => by
      simp [noFlist] at hn
      simp only [dealloc, bind_ok] at h
      obtain ⟨params, hparams, temp, htemp, ins, hins, body, hbody, hp'⟩ := h
      have hpr := flatU_ok hparams
      simp [pure, Except.pure] at hp'
      subst hp'
      have hdrop : params.drop 1 = flatten t := by rw [hpr]; simp [flatten, joinFlat]
      have harm : deallocArm hd lvl (some t) (params.drop 1) (xs.drop 1) = .ok body := by
        simp only [deallocArm, bind_ok]
        exact ⟨temp, htemp, ins, hins, hbody⟩
      have hsome := armCleansF_some hd p hp t (fun lvl' xs' ds' h' => dealloc_flat_cleans hd p hp t hn lvl' xs' ds' h')
        lvl (params.drop 1) (xs.drop 1) body
        (by rw [hdrop]; intro k h; exact ⟨by simpa [flattenOpt] using h, by simp only [flattenOpt]; exact le_refl _⟩) harm
      have := cleansF_variant p lvl (Spec.flatten p (.option t)) xs 2 [([], []), (body, [])]
        (fun i m cs => if i = 1 then flatEffOpt hd p m (some t) (cs.drop 1) else ([], []))
        (fun i m cs => i != 1 || flatValidOpt p m (some t) (cs.drop 1)) rfl
        (by
          intro i hi
          rcases i with _ | _ | i
          · exact ⟨rfl, cleansF_of_empty (by intros; simp)⟩
          · refine ⟨rfl, ?_⟩
            have hc := cleansF_of_operands (tys := Spec.flatten p (.option t)) (xs := xs) (fun cs => cs.drop 1) hsome (by
              intro env m cs _ hwf hst
              refine ⟨?_, hst.drop 1⟩
              rw [hdrop, flatten_erase p hp t]
              simp only [Spec.flatten] at hwf
              cases cs with
              | nil => have := hwf.1; simp at this
              | cons d rest => simpa [Spec.joinFlat] using (WfFlat.cons_inv hwf).2.2)
            exact cleansF_congr hc (by intros; simp) (by intro m cs _ hv; simpa using hv)
          · omega)
      exact cleansF_congr this
        (by
          intro m cs hwf
          simp only [Spec.flatten] at hwf
          cases cs with
          | nil => have := hwf.1; simp at this
          | cons d rest => simp only [flatEff, flatEffOpt, List.drop_succ_cons, List.drop_zero]; split <;> simp_all)
        (by
          intro m cs hwf hv
          cases cs with
          | nil => have := hwf.1; simp [Spec.flatten] at this
          | cons d rest => simpa [flatValid, flatValidOpt] using hv)
  | .result a b, hn, lvl, xs, ds, h => by
      simp [noFlist] at hn
      simp only [dealloc, bind_ok] at h
      obtain ⟨params, hparams, b0, hb0, b1, hb1, hp'⟩ := h
      have hpr := flatU_ok hparams
      simp [pure, Except.pure] at hp'
      subst hp'
      have hdrop : params.drop 1 = joinFlat (flattenOpt a) (flattenOpt b) := by rw [hpr]; simp [flatten]
      have herase : (joinFlat (flattenOpt a) (flattenOpt b)).map (CoreTy.erase p)
          = Spec.joinFlat (Spec.flattenOpt p a) (Spec.flattenOpt p b) := by
        rw [joinFlat_erase p hp, flattenOpt_erase p hp, flattenOpt_erase p hp]
      have s0 := deallocArm_flat_cleans hd p hp a hn.1 lvl (params.drop 1) (xs.drop 1) b0
        (by rw [hdrop]; exact joinFlat_le_left _ _) hb0
      have s1 := deallocArm_flat_cleans hd p hp b hn.2 lvl (params.drop 1) (xs.drop 1) b1
        (by rw [hdrop]; exact joinFlat_le_right _ _) hb1
      have hop : ∀ (env : Env) (m : Mem) (cs : List CVal), env.p = p → WfFlat cs (Spec.flatten p (.result a b)) →
          FlatStable env m xs cs →
          WfFlat (cs.drop 1) ((params.drop 1).map (CoreTy.erase p)) ∧ FlatStable env m (xs.drop 1) (cs.drop 1) := by
        intro env m cs _ hwf hst
        refine ⟨?_, hst.drop 1⟩
        rw [hdrop, herase]
        simp only [Spec.flatten] at hwf
        cases cs with
        | nil => have := hwf.1; simp at this
        | cons d rest => exact (WfFlat.cons_inv hwf).2.2
      have := cleansF_variant p lvl (Spec.flatten p (.result a b)) xs 2 [(b0, []), (b1, [])]
        (fun i m cs => if i = 0 then flatEffOpt hd p m a (cs.drop 1)
          else if i = 1 then flatEffOpt hd p m b (cs.drop 1) else ([], []))
        (fun i m cs => if i = 0 then flatValidOpt p m a (cs.drop 1) else flatValidOpt p m b (cs.drop 1)) rfl
        (by
          intro i hi
          rcases i with _ | _ | i
          · exact ⟨rfl, cleansF_congr (cleansF_of_operands (fun cs => cs.drop 1) s0 hop) (by intros; simp) (by intro m cs _ hv; simpa using hv)⟩
          · exact ⟨rfl, cleansF_congr (cleansF_of_operands (fun cs => cs.drop 1) s1 hop) (by intros; simp) (by intro m cs _ hv; simpa using hv)⟩
          · omega)
      exact cleansF_congr this
        (by
          intro m cs hwf
          simp only [Spec.flatten] at hwf
          cases cs with
          | nil => have := hwf.1; simp at this
          | cons d rest => simp only [flatEff, List.drop_succ_cons, List.drop_zero]; split <;> (try split) <;> simp_all)
        (by
          intro m cs hwf hv
          cases cs with
          | nil => have := hwf.1; simp [Spec.flatten] at this
          | cons d rest =>
            simp only [flatValid, Bool.and_eq_true, decide_eq_true_eq] at hv
            simp only [List.drop_succ_cons, List.drop_zero, Bool.and_eq_true, decide_eq_true_eq]
            refine ⟨hv.1, ?_⟩
            have h2 := hv.2
            split at h2 <;> simp_all)
theorem deallocFields_flat_cleans (hd : Bool) (p : Nat) (hp : p = 4 ∨ p = 8) : ∀ (ts : List Ty), noFlistAll ts = true →
    ∀ (lvl : Nat) (xs : List Expr) (ds : List Stmt), deallocFields hd lvl ts xs = .ok ds →
    CleansF p lvl (Spec.flattenList p ts) xs ds (fun m cs => flatEffFields hd p m ts cs) (fun m cs => flatValidFields p m ts cs)
  | [], _, lvl, xs, ds, h => by
      simp [deallocFields, pure, Except.pure] at h
      subst h
      exact cleansF_of_empty (by intros; simp [flatEffFields])
  | t :: ts, hn, lvl, xs, ds, h => by
      simp [noFlistAll] at hn
      simp only [deallocFields, bind_ok] at h
      obtain ⟨f, hf, s1, h1, s2, h2, hp'⟩ := h
      have hf' := flatU_ok hf
      subst hf'
      simp [pure, Except.pure] at hp'
      subst hp'
      have hk := flatten_len p hp t
      rw [hk] at h1 h2
      have c1 := dealloc_flat_cleans hd p hp t hn.1 lvl _ s1 h1
      have c2 := deallocFields_flat_cleans hd p hp ts hn.2 lvl _ s2 h2
      have c1' := cleansF_of_operands (tys := Spec.flattenList p (t :: ts)) (xs := xs)
        (fun cs => cs.take (Spec.flatten p t).length) c1 (by
          intro env m cs _ hwf hst
          have hwf' : WfFlat cs (Spec.flatten p t ++ Spec.flattenList p ts) := by simpa [Spec.flattenList] using hwf
          exact ⟨(WfFlat.split hwf').1, hst.take _⟩)
      have c2' := cleansF_of_operands (tys := Spec.flattenList p (t :: ts)) (xs := xs)
        (fun cs => cs.drop (Spec.flatten p t).length) c2 (by
          intro env m cs _ hwf hst
          have hwf' : WfFlat cs (Spec.flatten p t ++ Spec.flattenList p ts) := by simpa [Spec.flattenList] using hwf
          exact ⟨(WfFlat.split hwf').2, hst.drop _⟩)
      exact cleansF_congr (cleansF_append c1' c2') (by intros; simp [flatEffFields])
        (by intro m cs _ hv; simpa [flatValidFields] using hv)
theorem deallocArms_flat_cleans (hd : Bool) (p : Nat) (hp : p = 4 ∨ p = 8) : ∀ (cs : List (Option Ty)), noFlistCases cs = true →
    ∀ (lvl : Nat) (params1 : List CoreTy) (inputs : List Expr) (arms : List (List Stmt × List Expr)),
      (∀ (i : Nat) (ci : Option Ty), cs[i]? = some ci →
        ∀ (k : Nat) (h : k < (flattenOpt ci).length), ∃ h' : k < params1.length, le ((flattenOpt ci)[k]) (params1[k]) = true) →
      deallocArms hd lvl cs params1 inputs = .ok arms →
      ∃ hlen : arms.length = cs.length, ∀ (i : Nat) (h : i < cs.length),
        (arms[i]'(hlen ▸ h)).2 = [] ∧
        CleansF p (lvl + 1) (params1.map (CoreTy.erase p)) inputs (arms[i]'(hlen ▸ h)).1
          (fun m rest => flatEffCase hd p m cs i rest) (fun m rest => flatValidCase p m cs i rest)
  | [], _, lvl, params1, inputs, arms, _, h => by
      simp [deallocArms, pure, Except.pure] at h
      subst h
      exact ⟨rfl, fun i hi => by simp at hi⟩
  | o :: cs, hn, lvl, params1, inputs, arms, hb, h => by
      simp [noFlistCases] at hn
      simp only [deallocArms, bind_ok] at h
      obtain ⟨body, hbody, rest, hrest, hp'⟩ := h
      simp [pure, Except.pure] at hp'
      subst hp'
      have fb := deallocArm_flat_cleans hd p hp o hn.1 lvl params1 inputs body (hb 0 o (by simp)) hbody
      have ⟨hl, hr⟩ := deallocArms_flat_cleans hd p hp cs hn.2 lvl params1 inputs rest
        (fun i ci hci => hb (i + 1) ci (by simpa using hci)) hrest
      refine ⟨by simp [hl], ?_⟩
      intro i hi
      cases i with
      | zero => exact ⟨rfl, cleansF_congr fb (by intros; simp [flatEffCase]) (by intro m cs _ hv; simpa [flatValidCase] using hv)⟩
      | succ i =>
        have := hr i (by simpa using hi)
        exact ⟨by simpa using this.1, cleansF_congr (by simpa using this.2) (by intros; simp [flatEffCase])
          (by intro m cs _ hv; simpa [flatValidCase] using hv)⟩
theorem deallocArm_flat_cleans (hd : Bool) (p : Nat) (hp : p = 4 ∨ p = 8) : ∀ (o : Option Ty), noFlistOpt o = true →
    ArmCleansF hd p o
  | none, _ => armCleansF_none hd p
  | some t, hn => armCleansF_some hd p hp t
      (fun lvl xs ds h => dealloc_flat_cleans hd p hp t (by simpa [noFlistOpt] using hn) lvl xs ds h)
end

end Witverif.Abi
