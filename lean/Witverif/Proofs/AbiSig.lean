import Witverif.Proofs.AbiFlatten
/-! C02: the core signature of every function is the canonical one. -/
namespace Witverif.Abi
open Spec

def Variant.async : Variant → Bool
  | .guestImport | .guestExport => false
  | _ => true
def Variant.ctx : Variant → Spec.Ctx
  | .guestImport | .guestImportAsync => .lower
  | _ => .lift
def Variant.callback : Variant → Bool
  | .guestExportAsync => true
  | _ => false

theorem map_erase_length (p : Nat) (l : List CoreTy) : (l.map (CoreTy.erase p)).length = l.length := by simp

theorem flattenList_len (p : Nat) (hp : p = 4 ∨ p = 8) (ts : List Ty) :
    (Spec.flattenList p ts).length = (flattenList ts).length := by
  rw [← flattenList_erase p hp ts]; simp

theorem flattenOpt_len (p : Nat) (hp : p = 4 ∨ p = 8) (o : Option Ty) :
    (Spec.flattenOpt p o).length = (flattenOpt o).length := by
  rw [← flattenOpt_erase p hp o]; simp

theorem erase_ptr (p : Nat) : CoreTy.erase p .ptr = ptrFT p := rfl

/-- `wasm_signature` is the spec's `flatten_functype`, for every function whose result (if any) has at
least one flat slot, except for the documented `self`-pointer tweak of exported methods. -/
theorem wasmSignature_spec (p : Nat) (hp : p = 4 ∨ p = 8) (v : Variant) (f : Func)
    (hm : (f.isMethod && v.isExport) = false)
    (hr : f.result.isSome = true → flattenOpt f.result ≠ []) :
    ((wasmSignature v f).params.map (CoreTy.erase p), (wasmSignature v f).results.map (CoreTy.erase p))
      = Spec.flattenFunctype p v.async v.callback v.ctx f.params f.result := by
  have hl := flattenList_len p hp f.params
  have ho := flattenOpt_len p hp f.result
  have hle := flattenList_erase p hp f.params
  have hoe := flattenOpt_erase p hp f.result
  have hres0 : f.result.isSome = true ↔ (flattenOpt f.result).length > 0 := by
    cases hfr : f.result with
    | none => simp [flattenOpt]
    | some t =>
      have := hr (by simp [hfr])
      simp only [hfr] at this
      simp
      exact List.length_pos_iff.mpr this
  cases v <;>
    simp only [wasmSignature, Spec.flattenFunctype, Variant.async, Variant.callback, Variant.ctx, hm,
      maxFlatParams, maxFlatAsyncParams, maxFlatResults, Bool.false_eq_true, if_false, Bool.not_false,
      Bool.not_true, if_true, reduceIte, reduceCtorEq, hl, ho, decide_eq_true_eq] <;>
    (split <;> (try split) <;> simp_all [erase_ptr, CoreTy.erase])

end Witverif.Abi
