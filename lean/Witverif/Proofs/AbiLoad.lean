import Witverif.Proofs.AbiLift3
import Witverif.Proofs.AbiDealloc3
import Witverif.Proofs.AbiMem
/-! C01, lifting from memory (all types, including strings, lists and maps): the expression built by
`read_from_memory` evaluates to `Spec.load` (including agreement on traps), for any memory. -/
namespace Witverif.Abi
open Spec

def LoadSound (p : Nat) (c : Cfg) (t : Ty) : Prop :=
  ∀ (lvl : Nat) (a : Expr) (off : Off) (env : Env) (m : Mem) (addr : Nat) (e : Expr),
    env.p = p → env.frames.length = lvl + 1 → AddrStable env m a addr → load c lvl t a off = .ok e →
    ∀ ls, eval (env.withLets ls) m e = (Spec.load p m t (addr + off.at p)).map MV.v

@[simp] theorem withLets_p (env : Env) (ls : List (String × List MV)) : (env.withLets ls).p = env.p := rfl
@[simp] theorem withLets_frames (env : Env) (ls : List (String × List MV)) : (env.withLets ls).frames = env.frames := rfl

theorem AddrStable.hereL {env : Env} {m : Mem} {a : Expr} {addr : Nat} (h : AddrStable env m a addr)
    (ls : List (String × List MV)) : eval (env.withLets ls) m a = some (.c ⟨ptrFT env.p, addr⟩) := by
  simpa [extend_nil] using h [] ls

/-- leaf: one load instruction followed by one scalar instruction -/
theorem load_leaf (p : Nat) (c : Cfg) (t : Ty) (k : LoadKind) (s : ScalarOp)
    (hl : ∀ lvl a off, load c lvl t a off = .ok (sc s (ld k off a)))
    (hsem : ∀ (m : Mem) (x : Nat), scalarSem s (.c (loadSem p m k x)) = (Spec.load p m t x).map MV.v) :
    LoadSound p c t := by
  intro lvl a off env m addr e hp _ hst h ls
  rw [hl] at h
  simp at h
  subst h
  subst hp
  rw [eval_sc, eval_ld_stable _ m a addr k off (hst.hereL ls)]
  simpa using hsem m (addr + off.at env.p)

theorem load_handle (p : Nat) (c : Cfg) (t : Ty) (o : Op)
    (hl : ∀ lvl a off, load c lvl t a off = .ok (pure1 o [ld .i32 off a]))
    (hsem : ∀ pp m bev (v : CVal), opSem pp m bev o [.c v] = some [.v (.handle (v.bits % 2 ^ 32))])
    (hspec : ∀ (m : Mem) (x : Nat), Spec.load p m t x = some (.handle (m.loadLE x 4))) :
    LoadSound p c t := by
  intro lvl a off env m addr e hp _ hst h ls
  rw [hl] at h
  simp at h
  subst h
  subst hp
  have hld := eval_ld_stable (env.withLets ls) m a addr .i32 off (hst.hereL ls)
  simp only [pure1, eval, evalList_cons, evalList_nil, hld, Option.bind_some, Option.map_some, hsem, hspec, loadSem]
  have : m.loadLE (addr + off.at env.p) 4 < 2 ^ 32 := mem_loadLE_lt m 4 _
  simp [Nat.mod_eq_of_lt this, Env.withLets]

/-! ### iteration lemmas -/

theorem mapM_map_opt {α β γ : Type} (g : α → β) (F : β → Option γ) : ∀ (l : List α),
    (l.map g).mapM F = l.mapM (fun x => F (g x)) := by
  intro l
  induction l with
  | nil => simp
  | cons x xs ih => simp [List.mapM_cons, ih]

theorem forRange_succ (n : Nat) (F : Nat → Option MV) :
    forRange (n + 1) F = (F 0).bind fun x => (forRange n (fun i => F (i + 1))).map fun xs => x :: xs := by
  unfold forRange
  rw [List.range_succ_eq_map, List.mapM_cons, mapM_map_opt]
  cases F 0 <;> simp
  cases List.mapM (fun x => F (x + 1)) (List.range n) <;> simp

theorem forRange_loadMany (f : Nat → Option Val) (sz : Nat) : ∀ (n : Nat) (F : Nat → Option MV) (a : Nat),
    (∀ i, i < n → F i = (f (a + i * sz)).map MV.v) →
    forRange n F = (loadMany f sz a n).map (·.map MV.v) := by
  intro n
  induction n with
  | zero => intro F a _; simp [forRange, loadMany]
  | succ n ih =>
    intro F a h
    have h0 := h 0 (by omega)
    simp at h0
    have hrest := ih (fun i => F (i + 1)) (a + sz) (by
      intro i hi
      rw [h (i + 1) (by omega)]
      congr 2
      rw [Nat.succ_mul]; omega)
    rw [forRange_succ, h0, hrest]
    simp only [loadMany]
    cases f a <;> simp
    cases loadMany f sz (a + sz) n <;> simp

theorem listOf_map_v (vs : List Val) : listOf (vs.map MV.v) = some (.v (.list vs)) := by
  simp [listOf, vals_map_v]

theorem forRange_load (f : Nat → Option Val) (sz : Nat) (n : Nat) (F : Nat → Option MV) (a : Nat)
    (h : ∀ i, i < n → F i = (f (a + i * sz)).map MV.v) :
    (forRange n F).bind listOf = (loadMany f sz a n).map (fun vs => MV.v (.list vs)) := by
  rw [forRange_loadMany f sz n F a h]
  cases loadMany f sz a n <;> simp [listOf_map_v]

theorem forRange_loadEntries (fk fv : Nat → Option Val) (vo sz : Nat) : ∀ (n : Nat) (F : Nat → Option MV) (a : Nat),
    (∀ i, i < n → F i = (fk (a + i * sz)).bind fun x => (fv (a + i * sz + vo)).map fun y => MV.v (.record [x, y])) →
    forRange n F = (loadManyEntries fk fv vo sz a n).map (·.map MV.v) := by
  intro n
  induction n with
  | zero => intro F a _; simp [forRange, loadManyEntries]
  | succ n ih =>
    intro F a h
    have h0 := h 0 (by omega)
    simp at h0
    have hrest := ih (fun i => F (i + 1)) (a + sz) (by
      intro i hi
      rw [h (i + 1) (by omega)]
      have : a + (i + 1) * sz = a + sz + i * sz := by rw [Nat.succ_mul]; omega
      rw [this])
    rw [forRange_succ, h0, hrest]
    simp only [loadManyEntries]
    cases fk a <;> simp
    cases fv (a + vo) <;> simp
    cases loadManyEntries fk fv vo sz (a + sz) n <;> simp

/-! ### pieces -/

theorem eval_loadInt (env : Env) (m : Mem) (a : Expr) (addr : Nat) (r : IntRepr) (off : Off)
    (h : eval env m a = some (.c ⟨ptrFT env.p, addr⟩)) :
    ∃ ty, eval env m (loadInt r off a) = some (.c ⟨ty, m.loadLE (addr + off.at env.p) r.size⟩) := by
  unfold loadInt
  cases r <;> simp only [eval_ld_stable env m a addr _ off h, loadSem, IntRepr.size] <;> exact ⟨_, rfl⟩

theorem loadCase_get (p : Nat) (m : Mem) : ∀ (cs : List (Option Ty)) (i : Nat) (c : Option Ty) (a : Nat),
    cs[i]? = some c → Spec.loadCase p m cs i a = Spec.loadOpt p m c a
  | [], i, c, a, h => by simp at h
  | d :: ds, 0, c, a, h => by simp at h; subst h; simp [Spec.loadCase]
  | d :: ds, i + 1, c, a, h => by simpa [Spec.loadCase] using loadCase_get p m ds i c a (by simpa using h)

theorem loadArms_get (c : Cfg) (lvl : Nat) (a : Expr) (poff : Off) :
    ∀ (cs : List (Option Ty)) (arms : List (List Expr)), loadArms c lvl cs a poff = .ok arms →
    arms.length = cs.length ∧
    ∀ (j : Nat) (cj : Option Ty), cs[j]? = some cj →
      ∃ arm, arms[j]? = some arm ∧ loadArm c lvl cj a poff = .ok arm := by
  intro cs
  induction cs with
  | nil =>
    intro arms h
    simp [loadArms, pure, Except.pure] at h
    subst h
    exact ⟨rfl, fun j cj hj => by simp at hj⟩
  | cons o cs ih =>
    intro arms h
    simp only [loadArms, bind_ok] at h
    obtain ⟨arm, harm, rest, hrest, hp'⟩ := h
    simp [pure, Except.pure] at hp'
    subst hp'
    have ⟨hl, hg⟩ := ih rest hrest
    refine ⟨by simp [hl], ?_⟩
    intro j cj hj
    cases j with
    | zero => simp at hj; subst hj; exact ⟨arm, by simp, harm⟩
    | succ j => simpa using hg j cj (by simpa using hj)

theorem loadFields_length (p : Nat) (m : Mem) : ∀ (ts : List Ty) (a cur : Nat) (vs : List Val),
    Spec.loadFields p m ts a cur = some vs → vs.length = ts.length
  | [], a, cur, vs, h => by simp [Spec.loadFields] at h; subst h; rfl
  | t :: ts, a, cur, vs, h => by
      simp only [Spec.loadFields, Option.bind_eq_bind, Option.bind_eq_some_iff] at h
      obtain ⟨v, _, ws, hws, hp'⟩ := h
      simp [pure] at hp'
      subst hp'
      simp [loadFields_length p m ts _ _ ws hws]

theorem loadMany_length (f : Nat → Option Val) (sz : Nat) : ∀ (n a : Nat) (vs : List Val),
    loadMany f sz a n = some vs → vs.length = n
  | 0, a, vs, h => by simp [loadMany] at h; subst h; rfl
  | n + 1, a, vs, h => by
      simp only [loadMany, Option.bind_eq_bind, Option.bind_eq_some_iff] at h
      obtain ⟨v, _, ws, hws, hp'⟩ := h
      simp [pure] at hp'
      subst hp'
      simp [loadMany_length f sz n _ ws hws]

theorem evalList_map_range (env : Env) (m : Mem) (g : Nat → Expr) (h : Nat → MV)
    (hg : ∀ i, eval env m (g i) = some (h i)) : ∀ (l : List Nat),
    evalList env m (l.map g) = some (l.map h) := by
  intro l
  induction l with
  | nil => simp
  | cons x xs ih => simp [evalList_cons, hg, ih]

theorem Off.bytes_at' (n p : Nat) : (Off.bytes n).at p = n := by
  simp only [Off.bytes, Off.at]; split <;> rfl

def ArmLoadSound (p : Nat) (c : Cfg) (o : Option Ty) : Prop :=
  ∀ (lvl : Nat) (a : Expr) (off : Off) (env : Env) (m : Mem) (addr : Nat) (arm : List Expr),
    env.p = p → env.frames.length = lvl + 1 → AddrStable env m a addr → loadArm c lvl o a off = .ok arm →
    ∀ ls (f : Frame), evalList ((env.extend [f]).withLets ls) m arm
      = (Spec.loadOpt p m o (addr + off.at p)).map optVals

theorem armLoad_none (p : Nat) (c : Cfg) : ArmLoadSound p c none := by
  intro lvl a off env m addr arm _ _ _ h ls f
  simp [loadArm, pure, Except.pure] at h
  subst h
  simp [Spec.loadOpt, optVals]

theorem armLoad_some (p : Nat) (c : Cfg) (t : Ty) (ih : LoadSound p c t) : ArmLoadSound p c (some t) := by
  intro lvl a off env m addr arm hp hl hst h ls f
  simp only [loadArm, bind_ok] at h
  obtain ⟨r, hr, hp'⟩ := h
  simp [pure, Except.pure] at hp'
  subst hp'
  have := ih (lvl + 1) a off (env.extend [f]) m addr r hp (by simp [Env.extend, hl]) (hst.extend [f]) hr ls
  simp only [evalList_cons, evalList_nil, this, Spec.loadOpt]
  cases Spec.load p m t (addr + off.at p) <;> simp [optVals]

/-- a variant-like load: discriminant load selects the arm -/
theorem variant_load_eval (p : Nat) (c : Cfg) (o : Op) (n : Nat)
    (hop : ∀ pp mm bev (d : CVal), opSem pp mm bev o [.c d] =
      if d.bits < n then ((bev d.bits {}).bind (variantOf d.bits)).map ([·]) else none)
    (lvl : Nat) (a : Expr) (off poff : Off) (tag : IntRepr) (env : Env) (m : Mem) (addr : Nat)
    (hp : env.p = p) (hl : env.frames.length = lvl + 1) (hst : AddrStable env m a addr)
    (arms : List (List Expr)) (hlen : arms.length = n)
    (res : Nat → Option (Option Val))
    (harm : ∀ i arm, arms[i]? = some arm → ∀ ls, evalList ((env.extend [{}]).withLets ls) m arm = (res i).map optVals) :
    ∀ ls, eval (env.withLets ls) m (.op o [loadInt tag off a] arms 0) =
      (if m.loadLE (addr + off.at p) tag.size < n
        then (res (m.loadLE (addr + off.at p) tag.size)).map (fun ov => Val.variant (m.loadLE (addr + off.at p) tag.size) ov)
        else none).map MV.v := by
  intro ls
  subst hp
  have ⟨ty, hd⟩ := eval_loadInt (env.withLets ls) m a addr tag off (hst.hereL ls)
  simp only [withLets_p] at hd
  rw [variant_lift_eval (env.withLets ls) m o n hop _ _ arms hlen hd
    (res (m.loadLE (addr + off.at env.p) tag.size))]
  · simp only
    split <;> simp
    cases res (m.loadLE (addr + off.at env.p) tag.size) <;> simp
  · intro arm harm0
    have := harm _ arm harm0 ls
    have ht : List.take (lvl + 1) env.frames = env.frames := List.take_of_length_le (by omega)
    simpa [withLets_frames, hl, Env.enter, Env.extend, Env.withLets, ht] using this

theorem signed8_rt (v : Nat) : signed 8 (wrap 32 (signed 8 v)) = signed 8 v := by
  simp only [signed, wrap, Nat.reducePow, Nat.reduceSub]
  omega

theorem signed16_rt (v : Nat) : signed 16 (wrap 32 (signed 16 v)) = signed 16 v := by
  simp only [signed, wrap, Nat.reducePow, Nat.reduceSub]
  omega

theorem leaf_sem_bool (p : Nat) (m : Mem) (x : Nat) :
    scalarSem .boolFromI32 (.c (loadSem p m .i32_8u x)) = (Spec.load p m .bool x).map MV.v := by
  have := mem_loadLE_lt m 1 x
  simp only [scalarSem, loadSem, Spec.load, Option.map_some]
  rw [Nat.mod_eq_of_lt (by omega)]

theorem leaf_sem_u (p : Nat) (m : Mem) (x : Nat) (s : ScalarOp) (k : LoadKind) (t : Ty) (n w : Nat)
    (hs : ∀ c : CVal, scalarSem s (.c c) = some (.v (.int (c.bits % 2 ^ w))))
    (hk : loadSem p m k x = ⟨(loadSem p m k x).ty, m.loadLE x n⟩) (hw : 256 ^ n ≤ 2 ^ w)
    (ht : Spec.load p m t x = some (.int (m.loadLE x n))) :
    scalarSem s (.c (loadSem p m k x)) = (Spec.load p m t x).map MV.v := by
  have := mem_loadLE_lt m n x
  rw [hs, ht, hk]
  simp only [Option.map_some]
  have h2 : ((m.loadLE x n : Nat) : Int) % 2 ^ w = (m.loadLE x n : Int) := by
    apply Int.emod_eq_of_lt (by omega)
    have : m.loadLE x n < 2 ^ w := by omega
    exact_mod_cast this
  rw [h2]

set_option maxHeartbeats 400000 in
mutual
theorem load_sound (p : Nat) (hp : p = 4 ∨ p = 8) (c : Cfg) : ∀ (t : Ty), LoadSound p c t
  | .bool => load_leaf p c _ .i32_8u .boolFromI32 (by intros; simp [load, pure, Except.pure]) (leaf_sem_bool p)
  | .u8 => load_leaf p c _ .i32_8u .u8FromI32 (by intros; simp [load, pure, Except.pure])
      (fun m x => leaf_sem_u p m x _ _ _ 1 8 (by intro c; simp [scalarSem]) (by simp [loadSem]) (by decide) (by simp [Spec.load]))
  | .u16 => load_leaf p c _ .i32_16u .u16FromI32 (by intros; simp [load, pure, Except.pure])
      (fun m x => leaf_sem_u p m x _ _ _ 2 16 (by intro c; simp [scalarSem]) (by simp [loadSem]) (by decide) (by simp [Spec.load]))
  | .u32 => load_leaf p c _ .i32 .u32FromI32 (by intros; simp [load, pure, Except.pure])
      (fun m x => leaf_sem_u p m x _ _ _ 4 32 (by intro c; simp [scalarSem]) (by simp [loadSem]) (by decide) (by simp [Spec.load]))
  | .u64 => load_leaf p c _ .i64 .u64FromI64 (by intros; simp [load, pure, Except.pure])
      (fun m x => leaf_sem_u p m x _ _ _ 8 64 (by intro c; simp [scalarSem]) (by simp [loadSem]) (by decide) (by simp [Spec.load]))
  | .s8 => load_leaf p c _ .i32_8s .s8FromI32 (by intros; simp [load, pure, Except.pure])
      (by intro m x; simp [scalarSem, loadSem, Spec.load, signed8_rt])
  | .s16 => load_leaf p c _ .i32_16s .s16FromI32 (by intros; simp [load, pure, Except.pure])
      (by intro m x; simp [scalarSem, loadSem, Spec.load, signed16_rt])
  | .s32 => load_leaf p c _ .i32 .s32FromI32 (by intros; simp [load, pure, Except.pure])
      (by intro m x; simp [scalarSem, loadSem, Spec.load])
  | .s64 => load_leaf p c _ .i64 .s64FromI64 (by intros; simp [load, pure, Except.pure])
      (by intro m x; simp [scalarSem, loadSem, Spec.load])
  | .f32 => load_leaf p c _ .f32 .f32FromCoreF32 (by intros; simp [load, pure, Except.pure])
      (by intro m x; simp [scalarSem, loadSem, Spec.load])
  | .f64 => load_leaf p c _ .f64 .f64FromCoreF64 (by intros; simp [load, pure, Except.pure])
      (by intro m x; simp [scalarSem, loadSem, Spec.load])
  | .char => load_leaf p c _ .i32 .charFromI32 (by intros; simp [load, pure, Except.pure])
      (by intro m x; simp only [scalarSem, loadSem, Spec.load]; split <;> simp_all)
  | .errctx => load_handle p c _ .errLift (by intros; simp [load, pure, Except.pure])
      (by intros; simp [opSem, pureSem]) (by intros; simp [Spec.load])
  | .own => load_handle p c _ (.handleLift true) (by intros; simp [load, pure, Except.pure])
      (by intros; simp [opSem, pureSem]) (by intros; simp [Spec.load])
  | .borrow => load_handle p c _ (.handleLift false) (by intros; simp [load, pure, Except.pure])
      (by intros; simp [opSem, pureSem]) (by intros; simp [Spec.load])
  | .future _ => load_handle p c _ .futureLift (by intros; simp [load, pure, Except.pure])
      (by intros; simp [opSem, pureSem]) (by intros; simp [Spec.load])
  | .stream _ => load_handle p c _ .streamLift (by intros; simp [load, pure, Except.pure])
      (by intros; simp [opSem, pureSem]) (by intros; simp [Spec.load])
  | .string => by
      intro lvl a off env m addr e hpe _ hst h ls
      simp [load, pure, Except.pure] at h
      subst h; subst hpe
      have h1 := eval_ld_stable (env.withLets ls) m a addr .ptr off (hst.hereL ls)
      have h2 := eval_ld_stable (env.withLets ls) m a addr .len (off + Off.ptrs 1) (hst.hereL ls)
      simp only [withLets_p, Off.at_add, Off.ptrs_at env.p hp] at h1 h2
      simp [pure1, eval, evalList_cons, h1, h2, opSem, pureSem, loadSem, Spec.load, Nat.add_assoc]
  | .enum n => by
      intro lvl a off env m addr e hpe _ hst h ls
      simp [load, pure, Except.pure] at h
      subst h; subst hpe
      have ⟨ty, hd⟩ := eval_loadInt (env.withLets ls) m a addr (discriminant n) off (hst.hereL ls)
      simp only [withLets_p] at hd
      simp only [pure1, eval, evalList_cons, evalList_nil, hd, Option.bind_some, Option.map_some, opSem, pureSem, Spec.load]
      split <;> simp
  | .flags n => by
      intro lvl a off env m addr e hpe _ hst h ls
      subst hpe
      simp only [load] at h
      split at h <;> simp [pure, Except.pure] at h <;> subst h
      · rename_i hr
        have ⟨ty, hd⟩ := eval_loadInt (env.withLets ls) m a addr .u8 off (hst.hereL ls)
        simp only [withLets_p] at hd
        simp [pure1, eval, evalList_cons, hd, opSem, pureSem, cvals, MV.core?, Spec.load, hr, IntRepr.size]
      · rename_i hr
        have ⟨ty, hd⟩ := eval_loadInt (env.withLets ls) m a addr .u16 off (hst.hereL ls)
        simp only [withLets_p] at hd
        simp [pure1, eval, evalList_cons, hd, opSem, pureSem, cvals, MV.core?, Spec.load, hr, IntRepr.size]
      · rename_i k hr
        have hl := evalList_map_range (env.withLets ls) m (fun i => ld .i32 (off + Off.bytes (i * 4)) a)
          (fun i => MV.c (loadSem env.p m .i32 (addr + (off + Off.bytes (i * 4)).at env.p)))
          (fun i => by simpa using eval_ld_stable (env.withLets ls) m a addr .i32 _ (hst.hereL ls)) (List.range k)
        rw [show (List.range k).map (fun i => MV.c (loadSem env.p m .i32 (addr + (off + Off.bytes (i * 4)).at env.p)))
            = ((List.range k).map fun i => loadSem env.p m .i32 (addr + (off + Off.bytes (i * 4)).at env.p)).map MV.c by
          simp [List.map_map, Function.comp_def]] at hl
        simp only [pure1, eval, hl, Option.bind_some, opSem, pureSem, Spec.load, hr, cvals_map_c]
        simp [loadSem, Off.at_add, Off.bytes_at', Function.comp_def, Nat.mul_comm, Nat.add_assoc]
  | .list e => by
      intro lvl a off env m addr ex hpe hl hst h ls
      subst hpe
      have h1 := eval_ld_stable (env.withLets ls) m a addr .ptr off (hst.hereL ls)
      have h2 := eval_ld_stable (env.withLets ls) m a addr .len (off + Off.ptrs 1) (hst.hereL ls)
      simp only [withLets_p, Off.at_add, Off.ptrs_at env.p hp] at h1 h2
      simp only [load] at h
      split at h
      · simp [pure, Except.pure] at h
        subst h
        simp only [pure1, eval, evalList_cons, evalList_nil, h1, h2, Option.bind_some, Option.map_some, opSem, pureSem,
          loadSem, Spec.load, Nat.add_assoc, withLets_p]
        by_cases hal : (m.loadLE (addr + off.at env.p) env.p % alignment env.p e != 0) = true
        · simp [hal]
        · simp only [hal, Bool.false_eq_true, if_false]
          cases loadMany _ _ _ _ <;> simp
      · simp only [bind_ok] at h
        obtain ⟨r, hr, hp'⟩ := h
        simp [pure, Except.pure] at hp'
        subst hp'
        simp only [eval, evalList_cons, evalList_nil, h1, h2, Option.bind_some, Option.map_some, opSem, loadSem,
          Spec.load, Nat.add_assoc, withLets_p]
        by_cases hal : (m.loadLE (addr + off.at env.p) env.p % alignment env.p e != 0) = true
        · simp [hal]
        · simp only [hal, Bool.false_eq_true, if_false]
          have := forRange_load (Spec.load env.p m e) (elemSize env.p e) (m.loadLE (addr + (off.at env.p + env.p)) env.p)
            (fun i => (evalBlockAt (env.withLets ls) m [[r]] 0
              { base := some (m.loadLE (addr + off.at env.p) env.p + i * elemSize env.p e) }).bind fun rs => rs[0]?)
            (m.loadLE (addr + off.at env.p) env.p)
            (by
              intro i _
              have hb := load_sound _ hp c e (lvl + 1) (.base (lvl + 1)) Off.zero
                (env.extend [{ base := some (m.loadLE (addr + off.at env.p) env.p + i * elemSize env.p e) }]) m _ r rfl
                (by simp [Env.extend, hl]) (stable_base env m lvl hl _ _ rfl) hr ls
              have ht : List.take (lvl + 1) env.frames = env.frames := List.take_of_length_le (by omega)
              simp only [evalBlockAt, evalList_cons, evalList_nil, withLets_frames, hl, Env.enter, ht]
              simp only [Env.extend, Env.withLets, Off.zero_at, Nat.add_zero] at hb
              simp only [Env.withLets, hb]
              cases Spec.load env.p m e _ <;> simp)
          rw [this]
          cases loadMany _ _ _ _ <;> simp
  | .map k v => by
      intro lvl a off env m addr ex hpe hl hst h ls
      subst hpe
      have h1 := eval_ld_stable (env.withLets ls) m a addr .ptr off (hst.hereL ls)
      have h2 := eval_ld_stable (env.withLets ls) m a addr .len (off + Off.ptrs 1) (hst.hereL ls)
      simp only [withLets_p, Off.at_add, Off.ptrs_at env.p hp] at h1 h2
      simp only [load, bind_ok] at h
      obtain ⟨rk, hrk, rv, hrv, hp'⟩ := h
      simp [pure, Except.pure] at hp'
      subst hp'
      simp only [eval, evalList_cons, evalList_nil, h1, h2, Option.bind_some, Option.map_some, opSem, loadSem,
        Spec.load, Nat.add_assoc, withLets_p]
      by_cases hal : (m.loadLE (addr + off.at env.p) env.p % alignment env.p (.tuple [k, v]) != 0) = true
      · simp [hal]
      · simp only [hal, Bool.false_eq_true, if_false]
        have hvo : ((fieldOffs [k, v]).getD 1 Off.zero).at env.p = alignTo (elemSize env.p k) (alignment env.p v) := by
          rcases hp with hp | hp <;> rw [hp] <;> simp [fieldOffs, fieldOffsets, Off.at, alignTo_zero]
        have := forRange_loadEntries (Spec.load env.p m k) (Spec.load env.p m v)
            (alignTo (elemSize env.p k) (alignment env.p v)) (elemSize env.p (.tuple [k, v]))
            (m.loadLE (addr + (off.at env.p + env.p)) env.p)
            (fun i => (evalBlockAt (env.withLets ls) m [[rk, rv]] 0
              { base := some (m.loadLE (addr + off.at env.p) env.p + i * elemSize env.p (.tuple [k, v])) }).bind entryOf)
            (m.loadLE (addr + off.at env.p) env.p)
            (by
              intro i _
              have hbk := load_sound _ hp c k (lvl + 1) (.base (lvl + 1)) Off.zero
                (env.extend [{ base := some (m.loadLE (addr + off.at env.p) env.p + i * elemSize env.p (.tuple [k, v])) }]) m _ rk rfl
                (by simp [Env.extend, hl]) (stable_base env m lvl hl _ _ rfl) hrk ls
              have hbv := load_sound _ hp c v (lvl + 1) (.base (lvl + 1)) _
                (env.extend [{ base := some (m.loadLE (addr + off.at env.p) env.p + i * elemSize env.p (.tuple [k, v])) }]) m _ rv rfl
                (by simp [Env.extend, hl]) (stable_base env m lvl hl _ _ rfl) hrv ls
              have ht : List.take (lvl + 1) env.frames = env.frames := List.take_of_length_le (by omega)
              simp only [evalBlockAt, evalList_cons, evalList_nil, withLets_frames, hl, Env.enter, ht]
              simp only [Env.extend, Env.withLets, Off.zero_at, Nat.add_zero, hvo] at hbk hbv
              simp only [Env.withLets, hbk, hbv]
              cases Spec.load env.p m k _ <;> simp [entryOf]
              cases Spec.load env.p m v _ <;> simp [entryOf])
        rw [this]
        cases loadManyEntries _ _ _ _ _ _ <;> simp [listOf_map_v]
  | .record fs => by
      intro lvl a off env m addr e hpe hl hst h ls
      simp only [load, bind_ok] at h
      obtain ⟨fields, hfields, hp'⟩ := h
      simp [pure, Except.pure] at hp'
      subst hp'
      have hf := loadFields_sound p hp c fs lvl a off 0 0 env m addr fields hpe hl hst (by simpa [fieldOffs] using hfields) ls
      simp only [pure1, eval, hf, Spec.load, curOf, ite_self]
      cases hl' : Spec.loadFields p m fs (addr + off.at p) 0 with
      | none => simp
      | some vs =>
        have hlen := loadFields_length p m fs _ _ vs hl'
        simp [opSem, pureSem, vals_map_v, hlen]
  | .tuple ts => by
      intro lvl a off env m addr e hpe hl hst h ls
      simp only [load, bind_ok] at h
      obtain ⟨fields, hfields, hp'⟩ := h
      simp [pure, Except.pure] at hp'
      subst hp'
      have hf := loadFields_sound p hp c ts lvl a off 0 0 env m addr fields hpe hl hst (by simpa [fieldOffs] using hfields) ls
      simp only [pure1, eval, hf, Spec.load, curOf, ite_self]
      cases hl' : Spec.loadFields p m ts (addr + off.at p) 0 with
      | none => simp
      | some vs =>
        have hlen := loadFields_length p m ts _ _ vs hl'
        simp [opSem, pureSem, vals_map_v, hlen]
  | .flist e n => by
      intro lvl a off env m addr ex hpe hl hst h ls
      subst hpe
      simp only [load, bind_ok] at h
      obtain ⟨r, hr, hp'⟩ := h
      simp [pure, Except.pure] at hp'
      subst hp'
      simp only [eval, evalList_cons, evalList_nil, hst.hereL ls, Option.bind_some, Option.map_some, opSem, Spec.load]
      have := forRange_load (Spec.load env.p m e) (elemSize env.p e) n
        (fun i => (evalBlockAt (env.withLets ls) m [[r]] 0
          { base := some (addr + i * elemSize env.p e) }).bind fun rs => rs[0]?)
        (addr + off.at env.p)
        (by
          intro i _
          have hb := load_sound _ hp c e (lvl + 1) (.base (lvl + 1)) off
            (env.extend [{ base := some (addr + i * elemSize env.p e) }]) m _ r rfl
            (by simp [Env.extend, hl]) (stable_base env m lvl hl _ _ rfl) hr ls
          have ht : List.take (lvl + 1) env.frames = env.frames := List.take_of_length_le (by omega)
          simp only [evalBlockAt, evalList_cons, evalList_nil, withLets_frames, hl, Env.enter, ht]
          simp only [Env.extend, Env.withLets] at hb
          simp only [Env.withLets, hb]
          have : addr + i * elemSize env.p e + off.at env.p = addr + off.at env.p + i * elemSize env.p e := by omega
          rw [this]
          cases Spec.load env.p m e _ <;> simp)
      simp only [withLets_p]
      rw [this]
      cases loadMany _ _ _ _ <;> simp
  | .variant cs => by
      intro lvl a off env m addr e hpe hl hst h ls
      simp only [load, bind_ok] at h
      obtain ⟨arms, harms, hp'⟩ := h
      simp [pure, Except.pure] at hp'
      subst hp'
      have ⟨hal, hag⟩ := loadArms_get c lvl a _ cs arms harms
      rw [variant_load_eval p c (.variantLift cs.length) cs.length (by intros; simp [opSem]) lvl a off
        (off + payloadOff (discriminant cs.length) cs) (discriminant cs.length) env m addr hpe hl hst arms hal
        (fun i => Spec.loadCase p m cs i (addr + off.at p + payloadOffset p (discriminant cs.length) cs))
        (by
          intro i arm0 harm0 ls'
          have hlt : i < cs.length := by have := (List.getElem?_eq_some_iff.mp harm0).1; omega
          have hci : cs[i]? = some (cs[i]'hlt) := by simp [hlt]
          have ⟨arm, harm, hla⟩ := hag i _ hci
          have harm' : arm0 = arm := by rw [harm0] at harm; exact Option.some.inj harm
          subst harm'
          rw [loadCase_get p m cs i _ _ hci]
          have := loadArms_sound p hp c cs i (cs[i]'hlt) hci lvl a _ env m addr arm0 hpe hl hst hla ls' {}
          simpa [Off.at_add, payloadOff_at p hp, Nat.add_assoc] using this) ls]
      simp only [Spec.load]
  | .option t => by
      intro lvl a off env m addr e hpe hl hst h ls
      simp only [load, bind_ok] at h
      obtain ⟨r, hr, hp'⟩ := h
      simp [pure, Except.pure] at hp'
      subst hp'
      rw [variant_load_eval p c .optionLift 2 (by intros; simp [opSem]) lvl a off
        (off + payloadOff .u8 [none, some t]) .u8 env m addr hpe hl hst [[], [r]] rfl
        (fun i => Spec.loadCase p m [none, some t] i (addr + off.at p + payloadOffset p .u8 [none, some t]))
        (by
          intro i arm0 harm0 ls'
          rcases i with _ | _ | i
          · simp at harm0; subst harm0; simp [Spec.loadCase, Spec.loadOpt, optVals]
          · simp at harm0; subst harm0
            have := armLoad_some p c t (load_sound p hp c t) lvl a (off + payloadOff .u8 [none, some t]) env m addr [r]
              hpe hl hst (by simp [loadArm, hr, pure, Except.pure, bind, Except.bind]) ls' {}
            simpa [Spec.loadCase, Off.at_add, payloadOff_at p hp, Nat.add_assoc] using this
          · simp at harm0) ls]
      simp only [Spec.load]
      have key : ∀ x : Nat, (if x < 2 then
            (Spec.loadCase p m [none, some t] x (addr + off.at p + payloadOffset p .u8 [none, some t])).map
              (fun ov => Val.variant x ov) else none)
          = (match x with
            | 0 => some (.variant 0 none)
            | 1 => (Spec.load p m t (addr + off.at p + payloadOffset p .u8 [none, some t])).map fun v => .variant 1 (some v)
            | _ => none) := by
        intro x
        match x with
        | 0 => simp [Spec.loadCase, Spec.loadOpt]
        | 1 => simp [Spec.loadCase, Spec.loadOpt]; cases Spec.load p m t _ <;> simp
        | x + 2 => simp; intro h; omega
      exact congrArg _ (key _)
  | .result ok err => by
      intro lvl a off env m addr e hpe hl hst h ls
      simp only [load, bind_ok] at h
      obtain ⟨a0, ha0, a1, ha1, hp'⟩ := h
      simp [pure, Except.pure] at hp'
      subst hp'
      rw [variant_load_eval p c .resultLift 2 (by intros; simp [opSem]) lvl a off
        (off + payloadOff .u8 [ok, err]) .u8 env m addr hpe hl hst [a0, a1] rfl
        (fun i => Spec.loadCase p m [ok, err] i (addr + off.at p + payloadOffset p .u8 [ok, err]))
        (by
          intro i arm0 harm0 ls'
          rcases i with _ | _ | i
          · simp at harm0; subst harm0
            have := loadArm_sound p hp c ok lvl a (off + payloadOff .u8 [ok, err]) env m addr a0 hpe hl hst ha0 ls' {}
            simpa [Spec.loadCase, Off.at_add, payloadOff_at p hp, Nat.add_assoc] using this
          · simp at harm0; subst harm0
            have := loadArm_sound p hp c err lvl a (off + payloadOff .u8 [ok, err]) env m addr a1 hpe hl hst ha1 ls' {}
            simpa [Spec.loadCase, Off.at_add, payloadOff_at p hp, Nat.add_assoc] using this
          · simp at harm0) ls]
      simp only [Spec.load]
      have key : ∀ x : Nat, (if x < 2 then
            (Spec.loadCase p m [ok, err] x (addr + off.at p + payloadOffset p .u8 [ok, err])).map
              (fun ov => Val.variant x ov) else none)
          = (match x with
            | 0 => (Spec.loadOpt p m ok (addr + off.at p + payloadOffset p .u8 [ok, err])).map (.variant 0)
            | 1 => (Spec.loadOpt p m err (addr + off.at p + payloadOffset p .u8 [ok, err])).map (.variant 1)
            | _ => none) := by
        intro x
        match x with
        | 0 => simp [Spec.loadCase]
        | 1 => simp [Spec.loadCase]
        | x + 2 => simp; intro h; omega
      exact congrArg _ (key _)
theorem loadFields_sound (p : Nat) (hp : p = 4 ∨ p = 8) (c : Cfg) : ∀ (ts : List Ty) (lvl : Nat) (a : Expr) (off : Off)
    (c4 c8 : Nat) (env : Env) (m : Mem) (addr : Nat) (fields : List Expr),
    env.p = p → env.frames.length = lvl + 1 → AddrStable env m a addr →
    loadFields c lvl ts (List.zipWith Off.mk (fieldOffsets 4 c4 ts) (fieldOffsets 8 c8 ts)) a off = .ok fields →
    ∀ ls, evalList (env.withLets ls) m fields
      = (Spec.loadFields p m ts (addr + off.at p) (curOf p c4 c8)).map (·.map MV.v)
  | [], lvl, a, off, c4, c8, env, m, addr, fields, _, _, _, h, ls => by
      simp [loadFields, pure, Except.pure] at h
      subst h
      simp [Spec.loadFields]
  | t :: ts, lvl, a, off, c4, c8, env, m, addr, fields, hpe, hl, hst, h, ls => by
      simp only [fieldOffsets, List.zipWith_cons_cons, loadFields, bind_ok] at h
      obtain ⟨r, hr, rs, hrs, hp'⟩ := h
      simp [pure, Except.pure] at hp'
      subst hp'
      have h1 := load_sound p hp c t lvl a _ env m addr r hpe hl hst hr ls
      have h2 := loadFields_sound p hp c ts lvl a off _ _ env m addr rs hpe hl hst hrs ls
      simp only [evalList_cons, h1, h2, Spec.loadFields]
      have e1 : addr + (off + Off.mk (alignTo c4 (alignment 4 t)) (alignTo c8 (alignment 8 t))).at p
          = addr + off.at p + alignTo (curOf p c4 c8) (alignment p t) := by
        rcases hp with rfl | rfl <;> simp [curOf, Off.at_add, Off.at, Nat.add_assoc]
      have e2 : curOf p (alignTo c4 (alignment 4 t) + elemSize 4 t) (alignTo c8 (alignment 8 t) + elemSize 8 t)
          = alignTo (curOf p c4 c8) (alignment p t) + elemSize p t := by
        rcases hp with rfl | rfl <;> simp [curOf]
      rw [e1, e2]
      cases Spec.load p m t _ <;> simp
      cases Spec.loadFields p m ts _ _ <;> simp
theorem loadArms_sound (p : Nat) (hp : p = 4 ∨ p = 8) (c : Cfg) : ∀ (cs : List (Option Ty))
    (i : Nat) (ci : Option Ty), cs[i]? = some ci → ArmLoadSound p c ci
  | [], i, ci, h => by simp at h
  | o :: cs, 0, ci, h => by
      simp at h; subst h; exact loadArm_sound p hp c o
  | o :: cs, i + 1, ci, h => loadArms_sound p hp c cs i ci (by simpa using h)
theorem loadArm_sound (p : Nat) (hp : p = 4 ∨ p = 8) (c : Cfg) : ∀ (o : Option Ty), ArmLoadSound p c o
  | none => armLoad_none p c
  | some t => armLoad_some p c t (load_sound p hp c t)
end

end Witverif.Abi
