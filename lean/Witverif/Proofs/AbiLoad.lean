import Witverif.Proofs.AbiLift3
import Witverif.Proofs.AbiDealloc3
import Witverif.Proofs.AbiMem
/-! C01, lifting from memory of memory-free types: the expression built by `read_from_memory`
evaluates to `Spec.load` (including agreement on traps), for any memory. -/
namespace Witverif.Abi
open Spec

def LoadSound (p : Nat) (c : Cfg) (t : Ty) : Prop :=
  ∀ (lvl : Nat) (a : Expr) (off : Off) (env : Env) (m : Mem) (addr : Nat) (e : Expr),
    env.p = p → env.frames.length = lvl + 1 → AddrStable env m a addr → load c lvl t a off = .ok e →
    ∀ ls, eval (env.withLets ls) m e = (Spec.load p m t (addr + off.at p)).map MV.v

@[simp] theorem withLets_p (env : Env) (ls : List (String × List MV)) : (env.withLets ls).p = env.p := rfl

theorem AddrStable.hereL {env : Env} {m : Mem} {a : Expr} {addr : Nat} (h : AddrStable env m a addr)
    (ls : List (String × List MV)) : eval (env.withLets ls) m a = some (.c ⟨ptrFT env.p, addr⟩) := by
  simpa [extend_nil] using h [] ls

/-- leaf: one load instruction followed by one scalar instruction -/
theorem load_leaf (p : Nat) (c : Cfg) (t : Ty) (k : LoadKind) (s : ScalarOp)
    (hl : ∀ lvl a off, load c lvl t a off = .ok (sc s (ld k off a)))
    (hsem : ∀ (m : Mem) (x : Nat), scalarSem s (.c (loadSem p m k x)) = (Spec.load p m t x).map MV.v) :
    LoadSound p c t := by
  intro lvl a off env m addr e hp _ hst h ls
  rw [hl] at h
  simp at h
  subst h
  subst hp
  rw [eval_sc, eval_ld_stable _ m a addr k off (hst.hereL ls)]
  simpa using hsem m (addr + off.at env.p)

theorem load_handle (p : Nat) (c : Cfg) (t : Ty) (o : Op)
    (hl : ∀ lvl a off, load c lvl t a off = .ok (pure1 o [ld .i32 off a]))
    (hsem : ∀ pp m bev (v : CVal), opSem pp m bev o [.c v] = some [.v (.handle (v.bits % 2 ^ 32))])
    (hspec : ∀ (m : Mem) (x : Nat), Spec.load p m t x = some (.handle (m.loadLE x 4))) :
    LoadSound p c t := by
  intro lvl a off env m addr e hp _ hst h ls
  rw [hl] at h
  simp at h
  subst h
  subst hp
  have hld := eval_ld_stable (env.withLets ls) m a addr .i32 off (hst.hereL ls)
  simp only [pure1, eval, evalList_cons, evalList_nil, hld, Option.bind_some, Option.map_some, hsem, hspec, loadSem]
  have : m.loadLE (addr + off.at env.p) 4 < 2 ^ 32 := mem_loadLE_lt m 4 _
  simp [Nat.mod_eq_of_lt this, Env.withLets]

end Witverif.Abi
