import Witverif.Scalar.Claims
import Std.Tactic.BVDecide
/-! Helper lemmas and the fixed tactic script for C14 / C04 (backend half).

`scalar_tac T` proves `∀ e ∈ T, e.Correct` (or `CorrectIf`, `IsSpec`, `RoundTrips`) for a generated
table `T` by (1) turning the list quantifier into a conjunction, (2) unfolding the evaluator and the
per-language semantics on the concrete expression (`simp` with the definitional lemmas below),
(3) closing what is left — equations between 64-bit bit-vector terms, for all operand values —
with `bv_decide`.  The script is the same for every table: when a backend's template changes,
the generated table changes and the theorem is re-proved (or fails). -/
namespace Witverif.Scalar
open Spec

/-- the pointwise evaluation used by the driver is implied by the claim -/
theorem Entry.evalAt_of_correct (e : Entry) (h : e.Correct) (i : BitVec 64) (dbg : Bool) :
    (e.evalAt i dbg).1 = true := by
  obtain ⟨_, h⟩ := h
  unfold Entry.evalAt
  cases hd : e.dir <;> cases hp : e.pos <;> simp only [hd, hp] at h ⊢
  · by_cases hv : e.wty.valid (BitVec.setWidth e.wty.width i) = true
    · exact (by simpa using Or.inr (h _ dbg trivial hv))
    · simp [hv]
  · by_cases hv : e.wty.valid (BitVec.setWidth e.wty.width i) = true
    · exact (by simpa using Or.inr (h _ dbg trivial hv))
    · simp [hv]
  · by_cases hv : liftDefined e.wty (BitVec.setWidth e.wty.core.width i) = true
    · exact (by simpa using Or.inr (h _ dbg trivial hv))
    · simp [hv]
  · by_cases hv : loadDefined e.wty (BitVec.setWidth e.wty.memBits i) = true
    · exact (by simpa using Or.inr (h _ dbg trivial hv))
    · simp [hv]

@[simp] theorem thenRes_ok (v : Val) (k : Val → Res) : thenRes (.ok v) k = k v := rfl
@[simp] theorem thenRes_trap (k : Val → Res) : thenRes .trap k = .trap := rfl
@[simp] theorem thenRes_err (m : String) (k : Val → Res) : thenRes (.err m) k = .err m := rfl
@[simp] theorem thenRes_ite (c : Prop) [Decidable c] (a b : Res) (k : Val → Res) :
    thenRes (if c then a else b) k = if c then thenRes a k else thenRes b k := by
  split <;> rfl
@[simp] theorem cellOf_ok (v : Val) : cellOf (.ok v) = some (v.ty.memBits, v.bits) := rfl
@[simp] theorem cellOf_trap : cellOf .trap = none := rfl
@[simp] theorem cellOf_err (m : String) : cellOf (.err m) = none := rfl
@[simp] theorem cellOf_ite (c : Prop) [Decidable c] (a b : Res) :
    cellOf (if c then a else b) = if c then cellOf a else cellOf b := by
  split <;> rfl
/-- case analysis on a conditional result, in a form `bv_decide` accepts -/
theorem ite_eq_iff_imp {α : Type} (c : Prop) [Decidable c] (x y z : α) :
    ((if c then x else y) = z) ↔ ((c → x = z) ∧ (¬ c → y = z)) := by
  by_cases h : c <;> simp [h]

theorem CastEntry.evalAt_of_isSpec (e : CastEntry) (h : e.IsSpec) (i junk : BitVec 64) :
    (e.evalAt i junk).1 = true := by
  obtain ⟨_, h⟩ := h
  unfold CastEntry.evalAt
  cases hl : e.lowering <;> simp only [hl] at h ⊢
  · simpa using h _ junk trivial
  · simpa using h _ junk trivial

/-! `bv_decide` generates `T.enumToBitVec` helper declarations for every enumeration type it meets, in the
module where it first meets it.  Force that to happen here, once, so that the per-backend theorem files
(which are imported together) do not each generate their own copy. -/
theorem enum_prime_Ty (a b : Ty) (h : a = b) : b = a := by bv_decide
theorem enum_prime_Kind (a b : Kind) (h : a = b) : b = a := by bv_decide
theorem enum_prime_Lang (a b : Lang) (h : a = b) : b = a := by bv_decide
theorem enum_prime_Op (a b : Op) (h : a = b) : b = a := by bv_decide
theorem enum_prime_Dir (a b : Dir) (h : a = b) : b = a := by bv_decide
theorem enum_prime_Pos (a b : Pos) (h : a = b) : b = a := by bv_decide
theorem enum_prime_WTy (a b : WTy) (h : a = b) : b = a := by bv_decide
theorem enum_prime_Core (a b : Core) (h : a = b) : b = a := by bv_decide

end Witverif.Scalar

open Witverif.Scalar Witverif.Scalar.Spec in
/-- unfold the evaluator, the language semantics, the representation tables and the spec
(staged: list quantifier → claim on each concrete entry → evaluator) -/
macro "scalar_unfold" : tactic => `(tactic| (
  simp only [List.forall_mem_cons, List.not_mem_nil, false_imp_iff, implies_true, and_true, List.mem_cons,
    forall_eq_or_imp, forall_eq, RoundTrips]
  try simp only [Entry.Correct, Entry.CorrectIf, Entry.typesAgree, Entry.evalAt, agrees,
    CastEntry.IsSpec, CastEntry.IsSpecIf, CastEntry.evalAt, CastEntry.typesAgree, CastEntry.runLower, CastEntry.runLift, RoundTrip]
  try simp [specLower, specLift, joinConv,
    eval, castSem, implSem, binSem, appSem, wrapTo, mk, Val.ext, litVal, promote, common,
    truthy, boolVal, expect, reinterpret, rustLossless, Lang.strict, validScalar,
    Ty.signed, Ty.kind, Ty.width, Ty.intLike, Ty.memBits, trunc, sext, reprVal, reprTy, coreTy, coreVal, slotTy, slotVal, embed,
    lower, lift, store, load, liftDefined, loadDefined, scalarValue, WTy.valid, WTy.width, WTy.core, WTy.signed,
    WTy.memBits, Core.width, ite_eq_iff_imp]))

/-- the fixed proof script -/
macro "scalar_tac" : tactic => `(tactic| (
  scalar_unfold
  all_goals (try (repeat' (first | intro _ | apply And.intro)))
  all_goals (try bv_decide)))
