import Witverif.Abi.CProfile
/-! C11: the generated free helpers (model `cFrees`) free exactly the owned buffers; the dtor name. -/
namespace Witverif.Abi.CProfile
open Witverif.Abi Witverif.Abi.CProfileSpec

theorem freesMany_perm (f g : Nat → List (Nat × Nat)) (h : ∀ x, (f x).Perm (g x)) (sz : Nat) :
    ∀ (n a : Nat), (freesMany f sz a n).Perm (freesMany g sz a n)
  | 0, _ => by simp [freesMany]
  | n + 1, a => by
      simp only [freesMany]
      exact (h a).append (freesMany_perm f g h sz n (a + sz))

theorem freesMany_congr (f g : Nat → List (Nat × Nat)) (h : ∀ x, f x = g x) (sz : Nat) :
    ∀ (n a : Nat), freesMany f sz a n = freesMany g sz a n
  | 0, _ => by simp [freesMany]
  | n + 1, a => by simp only [freesMany, h a, freesMany_congr f g h sz n (a + sz)]

variable (p : Nat) (m : Spec.Mem)

mutual
theorem cFrees_perm : ∀ (t : Ty) (a : Nat), (cFrees p m t a).Perm (ownedBuffers p m t a)
  | .string, a => by simp [cFrees, ownedBuffers]
  | .list e, a => by
      simp only [cFrees, ownedBuffers]
      split
      · exact List.perm_append_singleton _ _ |>.trans
          (List.Perm.cons _ (freesMany_perm _ _ (fun x => cFrees_perm e x) _ _ _))
      · exact List.Perm.refl _
  | .map k v, a => by
      simp only [cFrees, ownedBuffers]
      split
      · exact List.perm_append_singleton _ _ |>.trans
          (List.Perm.cons _ (freesMany_perm _ _ (fun x => (cFrees_perm k x).append (cFrees_perm v _)) _ _ _))
      · exact List.Perm.refl _
  | .record fs, a => by simpa [cFrees, ownedBuffers] using cFreesFields_perm fs a 0
  | .tuple ts, a => by simpa [cFrees, ownedBuffers] using cFreesFields_perm ts a 0
  | .variant cs, a => by simpa [cFrees, ownedBuffers] using cFreesCase_perm cs _ _
  | .option t, a => by
      simp only [cFrees, ownedBuffers]
      split
      · exact cFrees_perm t _
      · exact List.Perm.refl _
  | .result ok err, a => by
      simp only [cFrees, ownedBuffers]
      split
      · exact cFreesOpt_perm ok _
      · exact cFreesOpt_perm err _
  | .bool, _ | .s8, _ | .u8, _ | .s16, _ | .u16, _ | .s32, _ | .u32, _ | .s64, _ | .u64, _ | .f32, _ | .f64, _
  | .char, _ | .errctx, _ | .flist _ _, _ | .flags _, _ | .enum _, _ | .own, _ | .borrow, _ | .future _, _ | .stream _, _ => by
      simp [cFrees, ownedBuffers]
theorem cFreesFields_perm : ∀ (ts : List Ty) (a cur : Nat),
    (cFreesFields p m ts a cur).Perm (ownedBuffersFields p m ts a cur)
  | [], _, _ => by simp [cFreesFields, ownedBuffersFields]
  | t :: ts, a, cur => by
      simp only [cFreesFields, ownedBuffersFields]
      exact (cFrees_perm t _).append (cFreesFields_perm ts a _)
theorem cFreesOpt_perm : ∀ (o : Option Ty) (a : Nat), (cFreesOpt p m o a).Perm (ownedBuffersOpt p m o a)
  | none, _ => by simp [cFreesOpt, ownedBuffersOpt]
  | some t, a => by simpa [cFreesOpt, ownedBuffersOpt] using cFrees_perm t a
theorem cFreesCase_perm : ∀ (cs : List (Option Ty)) (i a : Nat),
    (cFreesCase p m cs i a).Perm (ownedBuffersCase p m cs i a)
  | [], _, _ => by simp [cFreesCase, ownedBuffersCase]
  | c :: _, 0, a => by simpa [cFreesCase, ownedBuffersCase] using cFreesOpt_perm c a
  | _ :: cs, i + 1, a => by simpa [cFreesCase, ownedBuffersCase] using cFreesCase_perm cs i a
end

mutual
theorem cFreesLate_eq : ∀ (t : Ty) (a : Nat), noSharedMember t = true → cFreesLate p m t a = cFrees p m t a
  | .string, a, _ => by simp [cFreesLate, cFrees]
  | .list e, a, h => by
      simp only [noSharedMember, Bool.and_eq_true, Bool.not_eq_true'] at h
      simp only [cFreesLate, cFrees, h.1]
      rw [freesMany_congr _ (cFrees p m e) (fun x => by simpa using cFreesLate_eq e x h.2)]
  | .map k v, a, h => by
      simp only [noSharedMember, Bool.and_eq_true, Bool.not_eq_true'] at h
      simp only [cFreesLate, cFrees, h.1.1.1, h.1.1.2]
      rw [freesMany_congr _ (fun x => cFrees p m k x ++ cFrees p m v (x + alignTo (elemSize p k) (alignment p v)))
        (fun x => by simp [cFreesLate_eq k x h.1.2, cFreesLate_eq v _ h.2])]
  | .record fs, a, h => by simpa [cFreesLate, cFrees] using cFreesLateFields_eq fs a 0 (by simpa [noSharedMember] using h)
  | .tuple ts, a, h => by simpa [cFreesLate, cFrees] using cFreesLateFields_eq ts a 0 (by simpa [noSharedMember] using h)
  | .variant cs, a, h => by simpa [cFreesLate, cFrees] using cFreesLateCase_eq cs _ _ (by simpa [noSharedMember] using h)
  | .option t, a, h => by
      simp only [noSharedMember, Bool.and_eq_true, Bool.not_eq_true'] at h
      simp only [cFreesLate, cFrees, h.1]
      split
      · simpa using cFreesLate_eq t _ h.2
      · rfl
  | .result ok err, a, h => by
      simp only [noSharedMember, Bool.and_eq_true] at h
      simp only [cFreesLate, cFrees]
      split
      · exact cFreesLateOpt_eq ok _ h.1
      · exact cFreesLateOpt_eq err _ h.2
  | .bool, _, _ | .s8, _, _ | .u8, _, _ | .s16, _, _ | .u16, _, _ | .s32, _, _ | .u32, _, _ | .s64, _, _ | .u64, _, _
  | .f32, _, _ | .f64, _, _ | .char, _, _ | .errctx, _, _ | .flist _ _, _, _ | .flags _, _, _ | .enum _, _, _
  | .own, _, _ | .borrow, _, _ | .future _, _, _ | .stream _, _, _ => by simp [cFreesLate, cFrees]
theorem cFreesLateFields_eq : ∀ (ts : List Ty) (a cur : Nat), noSharedMembers ts = true →
    cFreesLateFields p m ts a cur = cFreesFields p m ts a cur
  | [], _, _, _ => by simp [cFreesLateFields, cFreesFields]
  | t :: ts, a, cur, h => by
      simp only [noSharedMembers, Bool.and_eq_true, Bool.not_eq_true'] at h
      simp [cFreesLateFields, cFreesFields, h.1.1, cFreesLate_eq t _ h.1.2, cFreesLateFields_eq ts a _ h.2]
theorem cFreesLateOpt_eq : ∀ (o : Option Ty) (a : Nat), noSharedOpt o = true →
    cFreesLateOpt p m o a = cFreesOpt p m o a
  | none, _, _ => by simp [cFreesLateOpt, cFreesOpt]
  | some t, a, h => by
      simp only [noSharedOpt, Bool.and_eq_true, Bool.not_eq_true'] at h
      simp [cFreesLateOpt, cFreesOpt, h.1, cFreesLate_eq t a h.2]
theorem cFreesLateCase_eq : ∀ (cs : List (Option Ty)) (i a : Nat), noSharedCases cs = true →
    cFreesLateCase p m cs i a = cFreesCase p m cs i a
  | [], _, _, _ => by simp [cFreesLateCase, cFreesCase]
  | c :: _, 0, a, h => by
      simp only [noSharedCases, Bool.and_eq_true] at h
      simpa [cFreesLateCase, cFreesCase] using cFreesLateOpt_eq c a h.1
  | _ :: cs, i + 1, a, h => by
      simp only [noSharedCases, Bool.and_eq_true] at h
      simpa [cFreesLateCase, cFreesCase] using cFreesLateCase_eq cs i a h.2
end

end Witverif.Abi.CProfile

