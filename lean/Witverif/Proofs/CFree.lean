import Witverif.Abi.CProfile
/-! C11: the generated free helpers (model `cFrees` of `define_dtor`) free exactly the non-empty blocks
that the independent spec `reachBlocks` (Abi/Validate.lean, shared with C03/C06) finds in the value. -/
namespace Witverif.Abi.CProfile
open Witverif.Abi Witverif.Abi.CProfileSpec

/-- non-empty block -/
def nz (b : Nat × Nat × Nat) : Bool := decide (0 < b.2.1)

/-- addresses freed by the helper / addresses of the non-empty reachable blocks -/
abbrev A (l : List (Nat × Nat)) : List Nat := l.map (·.1)
abbrev R (l : List (Nat × Nat × Nat)) : List Nat := (l.filter nz).map (·.1)

theorem R_append (x y : List (Nat × Nat × Nat)) : R (x ++ y) = R x ++ R y := by simp [R]
theorem A_append (x y : List (Nat × Nat)) : A (x ++ y) = A x ++ A y := by simp [A]

theorem perm_shuffle {α} (a b c d : List α) : ((a ++ b) ++ (c ++ d)).Perm ((a ++ c) ++ (b ++ d)) := by
  simp only [List.append_assoc]
  apply List.Perm.append_left
  rw [← List.append_assoc, ← List.append_assoc]
  exact List.Perm.append_right _ List.perm_append_comm

theorem freesMany_congr (f g : Nat → List (Nat × Nat)) (h : ∀ x, f x = g x) (sz : Nat) :
    ∀ (n a : Nat), freesMany f sz a n = freesMany g sz a n
  | 0, _ => by simp [freesMany]
  | n + 1, a => by simp only [freesMany, h a, freesMany_congr f g h sz n (a + sz)]

theorem many_perm (F : Nat → List (Nat × Nat)) (G : Nat → List (Nat × Nat × Nat)) (ok : Nat → Bool)
    (h : ∀ x, ok x = true → (A (F x)).Perm (R (G x))) (sz : Nat) :
    ∀ (n a : Nat), manyAll ok sz a n = true → (A (freesMany F sz a n)).Perm (R (reachMany G sz a n))
  | 0, _, _ => by simp [freesMany, reachMany, A, R]
  | n + 1, a, hok => by
      simp only [manyAll, Bool.and_eq_true] at hok
      simp only [freesMany, reachMany, A_append, R_append]
      exact (h a hok.1).append (many_perm F G ok h sz n (a + sz) hok.2)

/-- map entries: the helper frees key then value per entry, the spec lists all keys then all values -/
theorem many_perm2 (Fk Fv : Nat → List (Nat × Nat)) (Gk Gv : Nat → List (Nat × Nat × Nat)) (okk okv : Nat → Bool)
    (hk : ∀ x, okk x = true → (A (Fk x)).Perm (R (Gk x))) (hv : ∀ x, okv x = true → (A (Fv x)).Perm (R (Gv x)))
    (sz vo : Nat) : ∀ (n a : Nat), manyAll okk sz a n = true → manyAll okv sz (a + vo) n = true →
      (A (freesMany (fun x => Fk x ++ Fv (x + vo)) sz a n)).Perm
        (R (reachMany Gk sz a n ++ reachMany Gv sz (a + vo) n))
  | 0, _, _, _ => by simp [freesMany, reachMany, A, R]
  | n + 1, a, h1, h2 => by
      simp only [manyAll, Bool.and_eq_true] at h1 h2
      have ih := many_perm2 Fk Fv Gk Gv okk okv hk hv sz vo n (a + sz) h1.2
        (by rw [Nat.add_right_comm]; exact h2.2)
      simp only [freesMany, reachMany, A_append, R_append] at ih ⊢
      rw [Nat.add_right_comm a sz vo] at ih
      exact (((hk a h1.1).append (hv (a + vo) h2.1)).append ih).trans (perm_shuffle _ _ _ _)

variable (p : Nat) (m : Spec.Mem)

mutual
theorem cFrees_reach : ∀ (t : Ty) (a : Nat), cSupported t = true → elemsPos p t = true → optTagsOk p m t a = true →
    (A (cFrees p m t a)).Perm (R (reachBlocks false p m t a))
  | .string, a, _, _, _ => by
      simp only [cFrees, reachBlocks]
      by_cases h : m.loadLE (a + p) p > 0 <;> simp [h, A, R, nz]
  | .list e, a, hs, hp, ho => by
      simp only [cSupported] at hs
      simp only [elemsPos, Bool.and_eq_true, decide_eq_true_eq] at hp
      simp only [optTagsOk] at ho
      simp only [cFrees, reachBlocks]
      by_cases h : m.loadLE (a + p) p > 0
      · have hnz : nz (m.loadLE a p, m.loadLE (a + p) p * elemSize p e, alignment p e) = true := by
          simp only [nz, decide_eq_true_eq]; exact Nat.mul_pos h hp.1
        simp only [h, if_true, A_append]
        have ih := many_perm (cFrees p m e) (reachBlocks false p m e) (optTagsOk p m e)
          (fun x hx => cFrees_reach e x hs hp.2 hx) (elemSize p e) _ _ ho
        refine (List.perm_append_singleton _ _).trans ?_
        simp only [R, List.filter_cons, hnz, if_true, List.map_cons]
        exact List.Perm.cons _ ih
      · have h0 : m.loadLE (a + p) p = 0 := by omega
        simp [h0, reachMany, A, R, nz]
  | .map k v, a, hs, hp, ho => by
      simp only [cSupported, Bool.and_eq_true] at hs
      simp only [elemsPos, Bool.and_eq_true, decide_eq_true_eq] at hp
      simp only [optTagsOk, Bool.and_eq_true] at ho
      simp only [cFrees, reachBlocks]
      by_cases h : m.loadLE (a + p) p > 0
      · have hnz : nz (m.loadLE a p, m.loadLE (a + p) p * elemSize p (.tuple [k, v]), alignment p (.tuple [k, v])) = true := by
          simp only [nz, decide_eq_true_eq]; exact Nat.mul_pos h hp.1.1
        simp only [h, if_true, A_append]
        have ih := many_perm2 (cFrees p m k) (cFrees p m v) (reachBlocks false p m k) (reachBlocks false p m v)
          (optTagsOk p m k) (optTagsOk p m v)
          (fun x hx => cFrees_reach k x hs.1 hp.1.2 hx) (fun x hx => cFrees_reach v x hs.2 hp.2 hx)
          (elemSize p (.tuple [k, v])) (alignTo (elemSize p k) (alignment p v)) _ _ ho.1 ho.2
        refine (List.perm_append_singleton _ _).trans ?_
        simp only [R, List.filter_cons, hnz, if_true, List.map_cons]
        exact List.Perm.cons _ ih
      · have h0 : m.loadLE (a + p) p = 0 := by omega
        simp [h0, reachMany, A, R, nz]
  | .flist _ _, _, hs, _, _ => by simp [cSupported] at hs
  | .record fs, a, hs, hp, ho => by
      simpa [cFrees, reachBlocks] using cFreesFields_reach fs a 0 (by simpa [cSupported] using hs)
        (by simpa [elemsPos] using hp) (by simpa [optTagsOk] using ho)
  | .tuple ts, a, hs, hp, ho => by
      simpa [cFrees, reachBlocks] using cFreesFields_reach ts a 0 (by simpa [cSupported] using hs)
        (by simpa [elemsPos] using hp) (by simpa [optTagsOk] using ho)
  | .variant cs, a, hs, hp, ho => by
      simpa [cFrees, reachBlocks] using cFreesCase_reach cs _ _ (by simpa [cSupported] using hs)
        (by simpa [elemsPos] using hp) (by simpa [optTagsOk] using ho)
  | .option t, a, hs, hp, ho => by
      simp only [cSupported] at hs
      simp only [elemsPos] at hp
      simp only [optTagsOk, Bool.or_eq_true, Bool.and_eq_true, beq_iff_eq] at ho
      simp only [cFrees, reachBlocks]
      rcases ho with h0 | ⟨h1, hok⟩
      · simp [h0, A, R]
      · simp only [h1, bne_iff_ne, ne_eq, Nat.succ_ne_zero, not_false_eq_true, if_true, beq_self_eq_true]
        exact cFrees_reach t _ hs hp hok
  | .result ok err, a, hs, hp, ho => by
      simp only [cSupported, Bool.and_eq_true] at hs
      simp only [elemsPos, Bool.and_eq_true] at hp
      simp only [optTagsOk] at ho
      simp only [cFrees, reachBlocks]
      split
      · rename_i h; simp only [h, if_true] at ho; exact cFreesOpt_reach ok _ hs.1 hp.1 ho
      · rename_i h; simp only [h] at ho; exact cFreesOpt_reach err _ hs.2 hp.2 ho
  | .bool, _, _, _, _ | .s8, _, _, _, _ | .u8, _, _, _, _ | .s16, _, _, _, _ | .u16, _, _, _, _ | .s32, _, _, _, _
  | .u32, _, _, _, _ | .s64, _, _, _, _ | .u64, _, _, _, _ | .f32, _, _, _, _ | .f64, _, _, _, _ | .char, _, _, _, _
  | .errctx, _, _, _, _ | .flags _, _, _, _, _ | .enum _, _, _, _, _ | .own, _, _, _, _ | .borrow, _, _, _, _
  | .future _, _, _, _, _ | .stream _, _, _, _, _ => by simp [cFrees, reachBlocks, A, R]
theorem cFreesFields_reach : ∀ (ts : List Ty) (a cur : Nat), cSupportedAll ts = true → elemsPosAll p ts = true →
    optTagsOkFields p m ts a cur = true →
    (A (cFreesFields p m ts a cur)).Perm (R (reachFields false p m ts a cur))
  | [], _, _, _, _, _ => by simp [cFreesFields, reachFields, A, R]
  | t :: ts, a, cur, hs, hp, ho => by
      simp only [cSupportedAll, Bool.and_eq_true] at hs
      simp only [elemsPosAll, Bool.and_eq_true] at hp
      simp only [optTagsOkFields, Bool.and_eq_true] at ho
      simp only [cFreesFields, reachFields, A_append, R_append]
      exact (cFrees_reach t _ hs.1 hp.1 ho.1).append (cFreesFields_reach ts a _ hs.2 hp.2 ho.2)
theorem cFreesOpt_reach : ∀ (o : Option Ty) (a : Nat), cSupportedOpt o = true → elemsPosOpt p o = true →
    optTagsOkOpt p m o a = true → (A (cFreesOpt p m o a)).Perm (R (reachOpt false p m o a))
  | none, _, _, _, _ => by simp [cFreesOpt, reachOpt, A, R]
  | some t, a, hs, hp, ho => by
      simpa [cFreesOpt, reachOpt] using cFrees_reach t a (by simpa [cSupportedOpt] using hs)
        (by simpa [elemsPosOpt] using hp) (by simpa [optTagsOkOpt] using ho)
theorem cFreesCase_reach : ∀ (cs : List (Option Ty)) (i a : Nat), cSupportedCases cs = true → elemsPosCases p cs = true →
    optTagsOkCase p m cs i a = true → (A (cFreesCase p m cs i a)).Perm (R (reachCase false p m cs i a))
  | [], _, _, _, _, _ => by simp [cFreesCase, reachCase, A, R]
  | c :: _, 0, a, hs, hp, ho => by
      simp only [cSupportedCases, Bool.and_eq_true] at hs
      simp only [elemsPosCases, Bool.and_eq_true] at hp
      simpa [cFreesCase, reachCase] using cFreesOpt_reach c a hs.1 hp.1 (by simpa [optTagsOkCase] using ho)
  | _ :: cs, i + 1, a, hs, hp, ho => by
      simp only [cSupportedCases, Bool.and_eq_true] at hs
      simp only [elemsPosCases, Bool.and_eq_true] at hp
      simpa [cFreesCase, reachCase] using cFreesCase_reach cs i a hs.2 hp.2 (by simpa [optTagsOkCase] using ho)
end

end Witverif.Abi.CProfile

/-! ### values that `Spec.load` accepts have valid option discriminants -/
namespace Witverif.Abi.CProfile
open Witverif.Abi Witverif.Abi.CProfileSpec

theorem loadMany_all (f : Nat → Option Val) (ok : Nat → Bool) (h : ∀ x v, f x = some v → ok x = true) (sz : Nat) :
    ∀ (n a : Nat) (vs : List Val), Spec.loadMany f sz a n = some vs → manyAll ok sz a n = true
  | 0, _, _, _ => by simp [manyAll]
  | n + 1, a, vs, hl => by
      simp only [Spec.loadMany, Option.bind_eq_bind, Option.bind_eq_some_iff] at hl
      obtain ⟨v, hv, rest, hr, _⟩ := hl
      simp [manyAll, h a v hv, loadMany_all f ok h sz n (a + sz) rest hr]

theorem loadManyEntries_all (fk fv : Nat → Option Val) (okk okv : Nat → Bool)
    (hk : ∀ x v, fk x = some v → okk x = true) (hv : ∀ x v, fv x = some v → okv x = true) (vo sz : Nat) :
    ∀ (n a : Nat) (vs : List Val), Spec.loadManyEntries fk fv vo sz a n = some vs →
      manyAll okk sz a n = true ∧ manyAll okv sz (a + vo) n = true
  | 0, _, _, _ => by simp [manyAll]
  | n + 1, a, vs, hl => by
      simp only [Spec.loadManyEntries, Option.bind_eq_bind, Option.bind_eq_some_iff] at hl
      obtain ⟨x, hx, y, hy, rest, hr, _⟩ := hl
      have ih := loadManyEntries_all fk fv okk okv hk hv vo sz n (a + sz) rest hr
      rw [Nat.add_right_comm] at ih
      simp [manyAll, hk a x hx, hv (a + vo) y hy, ih.1, ih.2]

variable (p : Nat) (m : Spec.Mem)

mutual
theorem load_optTagsOk : ∀ (t : Ty) (a : Nat) (v : Val), Spec.load p m t a = some v → optTagsOk p m t a = true
  | .list e, a, v, h => by
      simp only [Spec.load] at h
      split at h
      · simp at h
      · simp only [Option.map_eq_some_iff] at h
        obtain ⟨vs, hvs, _⟩ := h
        simp only [optTagsOk]
        exact loadMany_all _ _ (fun x v hx => load_optTagsOk e x v hx) _ _ _ _ hvs
  | .map k w, a, v, h => by
      simp only [Spec.load] at h
      split at h
      · simp at h
      · simp only [Option.map_eq_some_iff] at h
        obtain ⟨vs, hvs, _⟩ := h
        have := loadManyEntries_all _ _ (optTagsOk p m k) (optTagsOk p m w)
          (fun x v hx => load_optTagsOk k x v hx) (fun x v hx => load_optTagsOk w x v hx) _ _ _ _ _ hvs
        simp [optTagsOk, this.1, this.2]
  | .record fs, a, v, h => by
      simp only [Spec.load, Option.map_eq_some_iff] at h
      obtain ⟨vs, hvs, _⟩ := h
      simpa [optTagsOk] using loadFields_optTagsOk fs a 0 vs hvs
  | .tuple ts, a, v, h => by
      simp only [Spec.load, Option.map_eq_some_iff] at h
      obtain ⟨vs, hvs, _⟩ := h
      simpa [optTagsOk] using loadFields_optTagsOk ts a 0 vs hvs
  | .variant cs, a, v, h => by
      simp only [Spec.load] at h
      split at h
      · simp only [Option.map_eq_some_iff] at h
        obtain ⟨pv, hpv, _⟩ := h
        simpa [optTagsOk] using loadCase_optTagsOk cs _ _ pv hpv
      · simp at h
  | .option t, a, v, h => by
      simp only [Spec.load] at h
      simp only [optTagsOk]
      split at h
      · rename_i h0; simp [h0]
      · rename_i h1
        simp only [Option.map_eq_some_iff] at h
        obtain ⟨x, hx, _⟩ := h
        simp [h1, load_optTagsOk t _ x hx]
      · simp at h
  | .result ok err, a, v, h => by
      simp only [Spec.load] at h
      simp only [optTagsOk]
      split at h
      · rename_i h0
        simp only [Option.map_eq_some_iff] at h
        obtain ⟨pv, hpv, _⟩ := h
        simpa [h0] using loadOpt_optTagsOk ok _ pv hpv
      · rename_i h1
        simp only [Option.map_eq_some_iff] at h
        obtain ⟨pv, hpv, _⟩ := h
        simpa [h1] using loadOpt_optTagsOk err _ pv hpv
      · simp at h
  | .bool, _, _, _ | .s8, _, _, _ | .u8, _, _, _ | .s16, _, _, _ | .u16, _, _, _ | .s32, _, _, _ | .u32, _, _, _
  | .s64, _, _, _ | .u64, _, _, _ | .f32, _, _, _ | .f64, _, _, _ | .char, _, _, _ | .string, _, _, _ | .errctx, _, _, _
  | .flist _ _, _, _, _ | .flags _, _, _, _ | .enum _, _, _, _ | .own, _, _, _ | .borrow, _, _, _ | .future _, _, _, _
  | .stream _, _, _, _ => by simp [optTagsOk]
theorem loadFields_optTagsOk : ∀ (ts : List Ty) (a cur : Nat) (vs : List Val), Spec.loadFields p m ts a cur = some vs →
    optTagsOkFields p m ts a cur = true
  | [], _, _, _, _ => by simp [optTagsOkFields]
  | t :: ts, a, cur, vs, h => by
      simp only [Spec.loadFields, Option.bind_eq_bind, Option.bind_eq_some_iff] at h
      obtain ⟨v, hv, rest, hr, _⟩ := h
      simp [optTagsOkFields, load_optTagsOk t _ v hv, loadFields_optTagsOk ts a _ rest hr]
theorem loadOpt_optTagsOk : ∀ (o : Option Ty) (a : Nat) (pv : Option Val), Spec.loadOpt p m o a = some pv →
    optTagsOkOpt p m o a = true
  | none, _, _, _ => by simp [optTagsOkOpt]
  | some t, a, pv, h => by
      simp only [Spec.loadOpt, Option.map_eq_some_iff] at h
      obtain ⟨v, hv, _⟩ := h
      simpa [optTagsOkOpt] using load_optTagsOk t a v hv
theorem loadCase_optTagsOk : ∀ (cs : List (Option Ty)) (i a : Nat) (pv : Option Val), Spec.loadCase p m cs i a = some pv →
    optTagsOkCase p m cs i a = true
  | [], _, _, _, _ => by simp [optTagsOkCase]
  | c :: _, 0, a, pv, h => by
      simp only [Spec.loadCase] at h
      simpa [optTagsOkCase] using loadOpt_optTagsOk c a pv h
  | _ :: cs, i + 1, a, pv, h => by
      simp only [Spec.loadCase] at h
      simpa [optTagsOkCase] using loadCase_optTagsOk cs i a pv h
end

end Witverif.Abi.CProfile

/-! ### the pre-repair registry agrees with the complete one when no member has a shared anonymous type -/
namespace Witverif.Abi.CProfile
open Witverif.Abi Witverif.Abi.CProfileSpec

variable (p : Nat) (m : Spec.Mem)

mutual
theorem cFreesLate_eq : ∀ (t : Ty) (a : Nat), noSharedMember t = true → cFreesLate p m t a = cFrees p m t a
  | .string, a, _ => by simp [cFreesLate, cFrees]
  | .list e, a, h => by
      simp only [noSharedMember, Bool.and_eq_true, Bool.not_eq_true'] at h
      simp only [cFreesLate, cFrees, h.1]
      rw [freesMany_congr _ (cFrees p m e) (fun x => by simpa using cFreesLate_eq e x h.2)]
  | .map k v, a, h => by
      simp only [noSharedMember, Bool.and_eq_true, Bool.not_eq_true'] at h
      simp only [cFreesLate, cFrees, h.1.1.1, h.1.1.2]
      rw [freesMany_congr _ (fun x => cFrees p m k x ++ cFrees p m v (x + alignTo (elemSize p k) (alignment p v)))
        (fun x => by simp [cFreesLate_eq k x h.1.2, cFreesLate_eq v _ h.2])]
  | .record fs, a, h => by simpa [cFreesLate, cFrees] using cFreesLateFields_eq fs a 0 (by simpa [noSharedMember] using h)
  | .tuple ts, a, h => by simpa [cFreesLate, cFrees] using cFreesLateFields_eq ts a 0 (by simpa [noSharedMember] using h)
  | .variant cs, a, h => by simpa [cFreesLate, cFrees] using cFreesLateCase_eq cs _ _ (by simpa [noSharedMember] using h)
  | .option t, a, h => by
      simp only [noSharedMember, Bool.and_eq_true, Bool.not_eq_true'] at h
      simp only [cFreesLate, cFrees, h.1]
      split
      · simpa using cFreesLate_eq t _ h.2
      · rfl
  | .result ok err, a, h => by
      simp only [noSharedMember, Bool.and_eq_true] at h
      simp only [cFreesLate, cFrees]
      split
      · exact cFreesLateOpt_eq ok _ h.1
      · exact cFreesLateOpt_eq err _ h.2
  | .bool, _, _ | .s8, _, _ | .u8, _, _ | .s16, _, _ | .u16, _, _ | .s32, _, _ | .u32, _, _ | .s64, _, _ | .u64, _, _
  | .f32, _, _ | .f64, _, _ | .char, _, _ | .errctx, _, _ | .flist _ _, _, _ | .flags _, _, _ | .enum _, _, _
  | .own, _, _ | .borrow, _, _ | .future _, _, _ | .stream _, _, _ => by simp [cFreesLate, cFrees]
theorem cFreesLateFields_eq : ∀ (ts : List Ty) (a cur : Nat), noSharedMembers ts = true →
    cFreesLateFields p m ts a cur = cFreesFields p m ts a cur
  | [], _, _, _ => by simp [cFreesLateFields, cFreesFields]
  | t :: ts, a, cur, h => by
      simp only [noSharedMembers, Bool.and_eq_true, Bool.not_eq_true'] at h
      simp [cFreesLateFields, cFreesFields, h.1.1, cFreesLate_eq t _ h.1.2, cFreesLateFields_eq ts a _ h.2]
theorem cFreesLateOpt_eq : ∀ (o : Option Ty) (a : Nat), noSharedOpt o = true →
    cFreesLateOpt p m o a = cFreesOpt p m o a
  | none, _, _ => by simp [cFreesLateOpt, cFreesOpt]
  | some t, a, h => by
      simp only [noSharedOpt, Bool.and_eq_true, Bool.not_eq_true'] at h
      simp [cFreesLateOpt, cFreesOpt, h.1, cFreesLate_eq t a h.2]
theorem cFreesLateCase_eq : ∀ (cs : List (Option Ty)) (i a : Nat), noSharedCases cs = true →
    cFreesLateCase p m cs i a = cFreesCase p m cs i a
  | [], _, _, _ => by simp [cFreesLateCase, cFreesCase]
  | c :: _, 0, a, h => by
      simp only [noSharedCases, Bool.and_eq_true] at h
      simpa [cFreesLateCase, cFreesCase] using cFreesLateOpt_eq c a h.1
  | _ :: cs, i + 1, a, h => by
      simp only [noSharedCases, Bool.and_eq_true] at h
      simpa [cFreesLateCase, cFreesCase] using cFreesLateCase_eq cs i a h.2
end

end Witverif.Abi.CProfile
