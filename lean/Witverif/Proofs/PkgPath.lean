import Witverif.Proofs.Heck
import Witverif.Proofs.Ns
import Witverif.Text.PkgPath
/-! Helper lemmas for C27 (`name_package_module`). -/
namespace Witverif.Text.PkgPath
open Witverif.Text.Heck Witverif.Text.PkgSpec

/-! ### characters -/

theorem us_not_alnum : isAlnum '_' = false := by decide
theorem dash_not_alnum : isAlnum '-' = false := by decide

theorem lod_of_lowerAz {c : Char} (h : isLowerAz c = true) : lod c = true := by
  simp only [isLowerAz] at h; simp [lod, isAsciiLower, h]
theorem lod_of_digit09 {c : Char} (h : isDigit09 c = true) : lod c = true := by
  simp only [isDigit09] at h; simp [lod, isAsciiDigit, h]

theorem lod_ne {c : Char} (h : lod c = true) : c ≠ '_' ∧ c ≠ '.' ∧ c ≠ '-' ∧ c ≠ '+' := by
  have : isAlnum c = true := lod_alnum h
  refine ⟨?_, ?_, ?_, ?_⟩ <;> (intro hc; subst hc; revert this; decide)

theorem digit_of_toDigits {n : Nat} {c : Char} (h : c ∈ Nat.toDigits 10 n) : isDigit09 c = true := by
  have := Nat.isDigit_of_mem_toDigits (by decide) (by decide) h
  simp only [Char.isDigit, ge_iff_le, Bool.and_eq_true, decide_eq_true_eq, UInt32.le_iff_toNat_le] at this
  simp only [isDigit09, Char.toNat, Bool.and_eq_true, decide_eq_true_eq]
  exact this

theorem lod_of_toDigits {n : Nat} {c : Char} (h : c ∈ Nat.toDigits 10 n) : lod c = true :=
  lod_of_digit09 (digit_of_toDigits h)

theorem toDigits_no_us (n : Nat) : '_' ∉ Nat.toDigits 10 n := by
  intro h; have := digit_of_toDigits h; revert this; decide

/-! ### the three `replace` calls -/

def repC (c : Char) : Char := if c = '.' ∨ c = '-' ∨ c = '+' then '_' else c

def rep (s : List Char) : List Char := s.map repC

theorem rep_eq (s : List Char) :
    replaceChar '+' '_' (replaceChar '-' '_' (replaceChar '.' '_' s)) = rep s := by
  simp only [replaceChar, rep, List.map_map]
  apply List.map_congr_left
  intro c _
  simp only [Function.comp, repC]
  by_cases h1 : c = '.'
  · subst h1; decide
  · by_cases h2 : c = '-'
    · subst h2; decide
    · by_cases h3 : c = '+'
      · subst h3; decide
      · simp [h1, h2, h3]

theorem repC_lod {c : Char} (h : lod c = true) : repC c = c := by
  obtain ⟨_, h1, h2, h3⟩ := lod_ne h
  simp [repC, h1, h2, h3]

theorem rep_lod (s : List Char) (h : ∀ c ∈ s, lod c = true) : rep s = s := by
  simp only [rep]
  rw [List.map_congr_left (g := id)]
  · simp
  · intro c hc; exact repC_lod (h c hc)

theorem rep_append (a b : List Char) : rep (a ++ b) = rep a ++ rep b := by simp [rep]
theorem rep_cons (c : Char) (b : List Char) : rep (c :: b) = repC c :: rep b := by simp [rep]

/-- an empty string or one that starts with `_` -/
def UsStart (s : List Char) : Prop := s = [] ∨ ∃ t, s = '_' :: t

/-- `rep (toStr v)` is `M_m_p` followed by nothing or by `_…` -/
theorem rep_toStr (v : Version) : ∃ Y, UsStart Y ∧
    rep v.toStr = Nat.toDigits 10 v.major ++ '_' :: (Nat.toDigits 10 v.minor ++ '_' ::
      (Nat.toDigits 10 v.patch ++ Y)) ∧
    Y = rep ((if v.pre = [] then [] else '-' :: v.pre) ++ (if v.build = [] then [] else '+' :: v.build)) := by
  refine ⟨_, ?_, ?_, rfl⟩
  · by_cases hp : v.pre = []
    · by_cases hb : v.build = []
      · left; simp [hp, hb, rep]
      · right; exact ⟨rep v.build, by simp [hp, hb, rep, repC]⟩
    · right; exact ⟨rep (v.pre ++ if v.build = [] then [] else '+' :: v.build), by simp [hp, rep, repC]⟩
  · simp only [Version.toStr, rep_append, rep_cons]
    rw [rep_lod _ (fun c h => lod_of_toDigits h), rep_lod _ (fun c h => lod_of_toDigits h),
      rep_lod _ (fun c h => lod_of_toDigits h)]
    simp [repC]

/-! ### segments of `word _ rest` -/

theorem joinU_cons (x : List Char) (S : List (List Char)) :
    joinU (x :: S) = x ++ (if S = [] then [] else '_' :: joinU S) := by
  cases S <;> simp [joinU]

theorem segments_lod_sep (a : List Char) (s : Char) (r : List Char) (ha : a ≠ [])
    (h : ∀ c ∈ a, lod c = true) (hs : isAlnum s = false) :
    segments (a ++ s :: r) = a :: segments r := by
  simp only [segments]
  rw [splitWords_append_sep a s r (fun c hc => lod_alnum (h c hc)) hs]
  simp [List.flatMap_cons, wordSegs_lod a h [] .boundary ha, lowerSeg_lod a h]

theorem segments_lod (a : List Char) (ha : a ≠ []) (h : ∀ c ∈ a, lod c = true) :
    segments a = [a] := by
  simp only [segments]
  rw [splitWords_alnum a (fun c hc => lod_alnum (h c hc))]
  simp [List.flatMap_cons, wordSegs_lod a h [] .boundary ha, lowerSeg_lod a h]

/-- `snake (a ++ Y)` for a lower/digit word `a` and `Y` empty or starting with `_` -/
theorem snake_word_us (a Y : List Char) (ha : a ≠ []) (h : ∀ c ∈ a, lod c = true) (hY : UsStart Y) :
    ∃ Z, UsStart Z ∧ snake (a ++ Y) = a ++ Z := by
  rcases hY with rfl | ⟨t, rfl⟩
  · exact ⟨[], Or.inl rfl, by simp [snake, segments_lod a ha h, joinU]⟩
  · refine ⟨if segments t = [] then [] else '_' :: joinU (segments t), ?_, ?_⟩
    · by_cases hs : segments t = []
      · left; simp [hs]
      · right; exact ⟨joinU (segments t), by simp [hs]⟩
    · simp [snake, segments_lod_sep a '_' t ha h us_not_alnum, joinU_cons]

theorem snake_word_sep (a r : List Char) (ha : a ≠ []) (h : ∀ c ∈ a, lod c = true) :
    snake (a ++ '_' :: r) = a ++ (if segments r = [] then [] else '_' :: snake r) := by
  simp [snake, segments_lod_sep a '_' r ha h us_not_alnum, joinU_cons]

/-- The mangled version is `M_m_p` followed by nothing or `_…`, whatever the pre-release and
build metadata are. -/
theorem mangle_struct (v : Version) : ∃ Z, UsStart Z ∧
    mangleVersion v = Nat.toDigits 10 v.major ++ '_' :: (Nat.toDigits 10 v.minor ++ '_' ::
      (Nat.toDigits 10 v.patch ++ Z)) := by
  obtain ⟨Y, hY, hrep, _⟩ := rep_toStr v
  have hd : ∀ n, Nat.toDigits 10 n ≠ [] := fun n => Nat.toDigits_ne_nil
  have hl : ∀ n, ∀ c ∈ Nat.toDigits 10 n, lod c = true := fun n c h => lod_of_toDigits h
  obtain ⟨Z, hZ, hs⟩ := snake_word_us (Nat.toDigits 10 v.patch) Y (hd _) (hl _) hY
  refine ⟨Z, hZ, ?_⟩
  simp only [mangleVersion, rep_eq, hrep]
  rw [snake_word_sep _ _ (hd _) (hl _), snake_word_sep _ _ (hd _) (hl _), hs]
  have h1 : segments (Nat.toDigits 10 v.patch ++ Y) ≠ [] := by
    rcases hY with rfl | ⟨t, rfl⟩
    · simp [segments_lod _ (hd _) (hl _)]
    · simp [segments_lod_sep _ '_' t (hd _) (hl _) us_not_alnum]
  have h2 : segments (Nat.toDigits 10 v.minor ++ '_' :: (Nat.toDigits 10 v.patch ++ Y)) ≠ [] := by
    simp [segments_lod_sep _ '_' _ (hd _) (hl _) us_not_alnum]
  simp [h1, h2]

/-- two `_`-free prefixes followed by nothing or `_…` -/
theorem prefix_unique : ∀ (a a' R R' : List Char), '_' ∉ a → '_' ∉ a' → UsStart R → UsStart R' →
    a ++ R = a' ++ R' → a = a' ∧ R = R' := by
  intro a
  induction a with
  | nil =>
    intro a' R R' _ ha' hR hR' h
    cases a' with
    | nil => exact ⟨rfl, by simpa using h⟩
    | cons x xs =>
      exfalso
      rcases hR with rfl | ⟨t, rfl⟩
      · simp at h
      · simp only [List.nil_append, List.cons_append, List.cons.injEq] at h
        exact ha' (by simp [← h.1])
  | cons x xs ih =>
    intro a' R R' ha ha' hR hR' h
    cases a' with
    | nil =>
      exfalso
      rcases hR' with rfl | ⟨t, rfl⟩
      · simp at h
      · simp only [List.nil_append, List.cons_append, List.cons.injEq] at h
        exact ha (by simp [h.1])
    | cons y ys =>
      simp only [List.cons_append, List.cons.injEq] at h
      obtain ⟨rfl, h⟩ := h
      have := ih ys R R' (fun hm => ha (by simp [hm])) (fun hm => ha' (by simp [hm])) hR hR' h
      exact ⟨by rw [this.1], this.2⟩

theorem usStart_cons_us (t : List Char) : UsStart ('_' :: t) := Or.inr ⟨t, rfl⟩

/-- decompose an `M_m_p Z` string -/
theorem core_unique (M m p M' m' p' : Nat) (Z Z' : List Char) (hZ : UsStart Z) (hZ' : UsStart Z')
    (h : Nat.toDigits 10 M ++ '_' :: (Nat.toDigits 10 m ++ '_' :: (Nat.toDigits 10 p ++ Z)) =
         Nat.toDigits 10 M' ++ '_' :: (Nat.toDigits 10 m' ++ '_' :: (Nat.toDigits 10 p' ++ Z'))) :
    M = M' ∧ m = m' ∧ p = p' ∧ Z = Z' := by
  obtain ⟨h1, h⟩ := prefix_unique _ _ _ _ (toDigits_no_us M) (toDigits_no_us M')
    (usStart_cons_us _) (usStart_cons_us _) h
  simp only [List.cons.injEq, true_and] at h
  obtain ⟨h2, h⟩ := prefix_unique _ _ _ _ (toDigits_no_us m) (toDigits_no_us m')
    (usStart_cons_us _) (usStart_cons_us _) h
  simp only [List.cons.injEq, true_and] at h
  obtain ⟨h3, h⟩ := prefix_unique _ _ _ _ (toDigits_no_us p) (toDigits_no_us p') hZ hZ' h
  exact ⟨Ns.toDigits_injective h1, Ns.toDigits_injective h2, Ns.toDigits_injective h3, h⟩

/-! ### plain versions: the mangled string is the replaced string -/

theorem simpleTail_lod_append (a R : List Char) (h : ∀ c ∈ a, lod c = true) :
    ∀ b, simpleTail b (a ++ R) = (if a = [] then simpleTail b R else simpleTail false R) := by
  induction a with
  | nil => intro b; simp
  | cons c cs ih =>
    intro b
    have hc := h c (by simp)
    have := ih (fun x hx => h x (by simp [hx])) false
    simp only [List.cons_append, simpleTail, lod_alnum hc, if_true, hc, Bool.true_and, this]
    by_cases hcs : cs = [] <;> simp [hcs]

theorem simpleTail_us (R : List Char) : simpleTail false ('_' :: R) = simpleTail true R := by
  simp [simpleTail, us_not_alnum]

theorem repC_dot : repC '.' = '_' := by decide

theorem plainPreTail_simple : ∀ (cs : List Char) (prev : Char), plainPreTail prev cs = true →
    simpleTail (prev == '.') (rep cs) = true ∧ (∀ c ∈ cs, c = '.' ∨ lod c = true) := by
  intro cs
  induction cs with
  | nil => intro prev h; simpa [plainPreTail, rep, simpleTail] using h
  | cons c cs ih =>
    intro prev h
    simp only [plainPreTail, Bool.and_eq_true] at h
    obtain ⟨h1, h2⟩ := h
    obtain ⟨ih1, ih2⟩ := ih c h2
    by_cases hc : c = '.'
    · subst hc
      simp only [beq_self_eq_true, if_true, bne_iff_ne, ne_eq] at h1
      have hp : (prev == '.') = false := by simpa using h1
      refine ⟨?_, ?_⟩
      · simp only [rep_cons, repC_dot, simpleTail, us_not_alnum, Bool.false_eq_true, if_false, hp]
        simpa using ih1
      · intro x hx
        rcases List.mem_cons.mp hx with rfl | hx
        · exact Or.inl rfl
        · exact ih2 x hx
    · have hc' : (c == '.') = false := by simpa using hc
      simp only [hc', Bool.false_eq_true, if_false, Bool.or_eq_true] at h1
      have hl : lod c = true := by
        rcases h1 with h1 | h1
        · exact lod_of_lowerAz h1
        · exact lod_of_digit09 h1
      refine ⟨?_, ?_⟩
      · rw [hc'] at ih1
        simp [rep_cons, repC_lod hl, simpleTail, lod_alnum hl, hl, ih1]
      · intro x hx
        rcases List.mem_cons.mp hx with rfl | hx
        · exact Or.inr hl
        · exact ih2 x hx

theorem plainPre_simple (pre : List Char) (h : plainPre pre = true) (hne : pre ≠ []) :
    simpleTail true (rep pre) = true ∧ (∀ c ∈ pre, c = '.' ∨ lod c = true) := by
  cases pre with
  | nil => exact absurd rfl hne
  | cons c cs =>
    simp only [plainPre, Bool.and_eq_true, Bool.or_eq_true] at h
    have hl : lod c = true := by
      rcases h.1 with h1 | h1
      · exact lod_of_lowerAz h1
      · exact lod_of_digit09 h1
    obtain ⟨ih1, ih2⟩ := plainPreTail_simple cs c h.2
    have hcd : (c == '.') = false := by
      have := (lod_ne hl).2.1; simpa using this
    rw [hcd] at ih1
    refine ⟨by simp [rep_cons, repC_lod hl, simpleTail, lod_alnum hl, hl, ih1], ?_⟩
    intro x hx
    rcases List.mem_cons.mp hx with rfl | hx
    · exact Or.inr hl
    · exact ih2 x hx

theorem sepU_us : sepU '_' = '_' := by decide

theorem map_sepU_rep (s : List Char) (h : ∀ c ∈ s, c = '.' ∨ lod c = true) :
    (rep s).map sepU = rep s := by
  simp only [rep, List.map_map]
  apply List.map_congr_left
  intro c hc
  rcases h c hc with rfl | hl
  · decide
  · simp [Function.comp, repC_lod hl, sepU, lod_alnum hl]

theorem map_sepU_lod (s : List Char) (h : ∀ c ∈ s, lod c = true) : s.map sepU = s := by
  rw [List.map_congr_left (g := id)]
  · simp
  · intro c hc; simp [sepU, lod_alnum (h c hc)]

/-- explicit form of the mangled version of a plain version -/
theorem mangle_plain (v : Version) (h : plainVersion v = true) :
    mangleVersion v = Nat.toDigits 10 v.major ++ '_' :: (Nat.toDigits 10 v.minor ++ '_' ::
      (Nat.toDigits 10 v.patch ++ (if v.pre = [] then [] else '_' :: rep v.pre))) := by
  simp only [plainVersion, Bool.and_eq_true, beq_iff_eq] at h
  obtain ⟨hb, hp⟩ := h
  obtain ⟨Y, _, hrep, hY⟩ := rep_toStr v
  have hY' : Y = if v.pre = [] then [] else '_' :: rep v.pre := by
    rw [hY, hb]; by_cases hpe : v.pre = [] <;> simp [hpe, rep, repC]
  have hd : ∀ n, Nat.toDigits 10 n ≠ [] := fun n => Nat.toDigits_ne_nil
  have hl : ∀ n, ∀ c ∈ Nat.toDigits 10 n, lod c = true := fun n c h => lod_of_toDigits h
  simp only [mangleVersion, rep_eq, hrep, hY']
  have hsimple : simpleTail true (Nat.toDigits 10 v.major ++ '_' :: (Nat.toDigits 10 v.minor ++ '_' ::
      (Nat.toDigits 10 v.patch ++ (if v.pre = [] then [] else '_' :: rep v.pre)))) = true := by
    rw [simpleTail_lod_append _ _ (hl _), if_neg (hd _), simpleTail_us,
      simpleTail_lod_append _ _ (hl _), if_neg (hd _), simpleTail_us,
      simpleTail_lod_append _ _ (hl _), if_neg (hd _)]
    by_cases hpe : v.pre = []
    · simp [hpe, simpleTail]
    · simp only [hpe, if_false, simpleTail_us]
      exact (plainPre_simple _ hp hpe).1
  rw [snake_simple _ hsimple]
  simp only [List.map_append, List.map_cons, sepU_us, map_sepU_lod _ (hl _)]
  by_cases hpe : v.pre = []
  · simp [hpe]
  · simp only [hpe, if_false, List.map_cons, sepU_us]
    rw [map_sepU_rep _ (plainPre_simple _ hp hpe).2]

theorem rep_inj_plain (s t : List Char) (hs : ∀ c ∈ s, c = '.' ∨ lod c = true)
    (ht : ∀ c ∈ t, c = '.' ∨ lod c = true) (h : rep s = rep t) : s = t := by
  induction s generalizing t with
  | nil => cases t with
    | nil => rfl
    | cons _ _ => simp [rep] at h
  | cons c cs ih =>
    cases t with
    | nil => simp [rep] at h
    | cons d ds =>
      simp only [rep_cons, List.cons.injEq] at h
      have hcd : c = d := by
        rcases hs c (by simp) with rfl | hc <;> rcases ht d (by simp) with rfl | hd
        · rfl
        · exfalso; rw [repC_dot, repC_lod hd] at h; exact (lod_ne hd).1 h.1.symm
        · exfalso; rw [repC_dot, repC_lod hc] at h; exact (lod_ne hc).1 h.1
        · rw [repC_lod hc, repC_lod hd] at h; exact h.1
      rw [hcd, ih ds (fun x hx => hs x (by simp [hx])) (fun x hx => ht x (by simp [hx])) h.2]

/-- plain versions are mangled injectively -/
theorem mangle_plain_inj (v w : Version) (hv : plainVersion v = true) (hw : plainVersion w = true)
    (h : mangleVersion v = mangleVersion w) : v = w := by
  rw [mangle_plain v hv, mangle_plain w hw] at h
  have hZ : ∀ u : Version, UsStart (if u.pre = [] then [] else '_' :: rep u.pre) := by
    intro u; by_cases hu : u.pre = []
    · left; simp [hu]
    · right; exact ⟨rep u.pre, by simp [hu]⟩
  obtain ⟨h1, h2, h3, h4⟩ := core_unique _ _ _ _ _ _ _ _ (hZ v) (hZ w) h
  simp only [plainVersion, Bool.and_eq_true, beq_iff_eq] at hv hw
  have hpre : v.pre = w.pre := by
    by_cases hvp : v.pre = [] <;> by_cases hwp : w.pre = []
    · rw [hvp, hwp]
    · simp [hvp, hwp] at h4
    · simp [hvp, hwp] at h4
    · simp only [hvp, hwp, if_false, List.cons.injEq, true_and] at h4
      exact rep_inj_plain _ _ (plainPre_simple _ hv.2 hvp).2 (plainPre_simple _ hw.2 hwp).2 h4
  cases v; cases w
  simp_all

/-! ### plain names -/

theorem plainTail_simple : ∀ (cs : List Char) (prev : Char), plainTail prev cs = true →
    simpleTail (prev == '-') cs = true ∧ (∀ c ∈ cs, c = '-' ∨ lod c = true) := by
  intro cs
  induction cs with
  | nil => intro prev h; simpa [plainTail, simpleTail] using h
  | cons c cs ih =>
    intro prev h
    simp only [plainTail, Bool.and_eq_true] at h
    obtain ⟨h1, h2⟩ := h
    obtain ⟨ih1, ih2⟩ := ih c h2
    by_cases hc : c = '-'
    · subst hc
      simp only [beq_self_eq_true, if_true, bne_iff_ne, ne_eq] at h1
      have hp : (prev == '-') = false := by simpa using h1
      refine ⟨?_, ?_⟩
      · simp only [simpleTail, dash_not_alnum, Bool.false_eq_true, if_false, hp]
        simpa using ih1
      · intro x hx
        rcases List.mem_cons.mp hx with rfl | hx
        · exact Or.inl rfl
        · exact ih2 x hx
    · have hc' : (c == '-') = false := by simpa using hc
      simp only [hc', Bool.false_eq_true, if_false] at h1
      have hl : lod c = true := by
        by_cases hd : isDigit09 c = true
        · exact lod_of_digit09 hd
        · simp only [hd, Bool.false_eq_true, if_false] at h1; exact lod_of_lowerAz h1
      refine ⟨?_, ?_⟩
      · rw [hc'] at ih1
        simp [simpleTail, lod_alnum hl, hl, ih1]
      · intro x hx
        rcases List.mem_cons.mp hx with rfl | hx
        · exact Or.inr hl
        · exact ih2 x hx

theorem plainName_facts (n : List Char) (h : plainName n = true) :
    simpleTail true n = true ∧ (∀ c ∈ n, c = '-' ∨ lod c = true) := by
  cases n with
  | nil => simp [plainName] at h
  | cons c cs =>
    simp only [plainName, Bool.and_eq_true] at h
    have hl := lod_of_lowerAz h.1
    obtain ⟨ih1, ih2⟩ := plainTail_simple cs c h.2
    have hcd : (c == '-') = false := by
      have := (lod_ne hl).2.2.1; simpa using this
    rw [hcd] at ih1
    refine ⟨by simp [simpleTail, lod_alnum hl, hl, ih1], ?_⟩
    intro x hx
    rcases List.mem_cons.mp hx with rfl | hx
    · exact Or.inr hl
    · exact ih2 x hx

/-- the module base of a plain name: `-` ↦ `_` -/
theorem snake_plainName (n : List Char) (h : plainName n = true) : snake n = n.map sepU :=
  snake_simple n (plainName_facts n h).1

theorem sepU_dash : sepU '-' = '_' := by decide

theorem sepU_inj_plain (s t : List Char) (hs : ∀ c ∈ s, c = '-' ∨ lod c = true)
    (ht : ∀ c ∈ t, c = '-' ∨ lod c = true) (h : s.map sepU = t.map sepU) : s = t := by
  induction s generalizing t with
  | nil => cases t with
    | nil => rfl
    | cons _ _ => simp at h
  | cons c cs ih =>
    cases t with
    | nil => simp at h
    | cons d ds =>
      simp only [List.map_cons, List.cons.injEq] at h
      have e : ∀ x, lod x = true → sepU x = x := fun x hx => by simp [sepU, lod_alnum hx]
      have hcd : c = d := by
        rcases hs c (by simp) with rfl | hc <;> rcases ht d (by simp) with rfl | hd
        · rfl
        · exfalso; rw [sepU_dash, e d hd] at h; exact (lod_ne hd).1 h.1.symm
        · exfalso; rw [sepU_dash, e c hc] at h; exact (lod_ne hc).1 h.1
        · rw [e c hc, e d hd] at h; exact h.1
      rw [hcd, ih ds (fun x hx => hs x (by simp [hx])) (fun x hx => ht x (by simp [hx])) h.2]

/-- in a plain name a digit never follows an alphanumeric character -/
theorem plainTail_no_alnum_digit : ∀ (cs : List Char) (prev : Char), plainTail prev cs = true →
    ∀ (l r : List Char) (x d : Char), prev :: cs = l ++ x :: d :: r → isDigit09 d = true → x = '-' := by
  intro cs
  induction cs with
  | nil =>
    intro prev _ l r x d h _
    have := congrArg List.length h
    simp at this; omega
  | cons c cs ih =>
    intro prev h l r x d hsplit hd
    simp only [plainTail, Bool.and_eq_true] at h
    cases l with
    | nil =>
      simp only [List.nil_append, List.cons.injEq] at hsplit
      obtain ⟨rfl, rfl, _⟩ := hsplit
      have h1 := h.1
      have hcd : (c == '-') = false := by
        cases hc : c == '-'
        · rfl
        · have : c = '-' := by simpa using hc
          subst this; revert hd; decide
      simp only [hcd, Bool.false_eq_true, if_false, hd, if_true, beq_iff_eq] at h1
      exact h1
    | cons y ys =>
      simp only [List.cons_append, List.cons.injEq] at hsplit
      exact ih c h.2 ys r x d hsplit.2 hd

/-! ### base ++ suffix -/

/-- what is appended to the base -/
def suffix (pkgs : List Pkg) (p : Pkg) : List Char :=
  if (pkgs.filter (sameName p)).length == 1 then []
  else match p.version with
    | none => []
    | some v => mangleVersion v

theorem name_eq_base_suffix (pkgs : List Pkg) (p : Pkg) :
    namePackageModule pkgs p = snake p.name ++ suffix pkgs p := by
  unfold namePackageModule suffix
  split
  · simp
  · cases p.version <;> simp

theorem suffix_cases (pkgs : List Pkg) (p : Pkg) :
    suffix pkgs p = [] ∨ ∃ v, suffix pkgs p = mangleVersion v := by
  unfold suffix
  split
  · exact Or.inl rfl
  · split
    · exact Or.inl rfl
    · exact Or.inr ⟨_, rfl⟩

theorem filter_two {α} (l : List α) (f : α → Bool) (p q : α) (hp : p ∈ l) (hq : q ∈ l)
    (hne : p ≠ q) (fp : f p = true) (fq : f q = true) : ((l.filter f).length == 1) = false := by
  cases h : l.filter f with
  | nil =>
    have : p ∈ l.filter f := List.mem_filter.mpr ⟨hp, fp⟩
    rw [h] at this; simp at this
  | cons x xs =>
    cases xs with
    | nil =>
      have h1 : p ∈ l.filter f := List.mem_filter.mpr ⟨hp, fp⟩
      have h2 : q ∈ l.filter f := List.mem_filter.mpr ⟨hq, fq⟩
      rw [h] at h1 h2
      simp at h1 h2
      exact absurd (h1.trans h2.symm) hne
    | cons y ys => simp

/-- two different packages of the same name are both listed: the version is always appended -/
theorem suffix_of_two (pkgs : List Pkg) (p q : Pkg) (hp : p ∈ pkgs) (hq : q ∈ pkgs) (hne : p ≠ q)
    (hns : p.ns = q.ns) (hname : p.name = q.name) :
    suffix pkgs p = (match p.version with | none => [] | some v => mangleVersion v) := by
  unfold suffix
  rw [filter_two pkgs (sameName p) p q hp hq hne (by simp [sameName]) (by simp [sameName, hns, hname])]
  simp

theorem mangle_head_digit (v : Version) : ∃ c t, mangleVersion v = c :: t ∧ isDigit09 c = true := by
  obtain ⟨Z, _, e⟩ := mangle_struct v
  cases hd : Nat.toDigits 10 v.major with
  | nil => exact absurd hd Nat.toDigits_ne_nil
  | cons c t =>
    refine ⟨c, _, by rw [e, hd]; rfl, ?_⟩
    exact digit_of_toDigits (n := v.major) (by rw [hd]; simp)

theorem plainTail_last : ∀ (cs : List Char) (prev : Char), plainTail prev cs = true →
    ∀ (l : List Char) (x : Char), prev :: cs = l ++ [x] → x ≠ '-' := by
  intro cs
  induction cs with
  | nil =>
    intro prev h l x hl
    cases l with
    | nil =>
      simp only [List.nil_append, List.cons.injEq, and_true] at hl
      subst hl
      simpa [plainTail] using h
    | cons y ys =>
      have := congrArg List.length hl
      simp at this
  | cons c cs ih =>
    intro prev h l x hl
    simp only [plainTail, Bool.and_eq_true] at h
    cases l with
    | nil => simp at hl
    | cons y ys =>
      simp only [List.cons_append, List.cons.injEq] at hl
      exact ih c h.2 ys x hl.2

theorem sepU_digit {c : Char} (h : isDigit09 (sepU c) = true) : isDigit09 c = true ∧ sepU c = c := by
  by_cases ha : isAlnum c = true
  · simp only [sepU, ha, if_true] at h ⊢; exact ⟨h, trivial⟩
  · have ha' : isAlnum c = false := by simpa using ha
    simp only [sepU, ha', Bool.false_eq_true, if_false] at h
    exact absurd h (by decide)

/-- the base of one plain name cannot be extended to the base of another plain name by something that
starts with a digit -/
theorem no_digit_extension (np nq d : List Char) (c : Char) (hp : plainName np = true)
    (hq : plainName nq = true) (h : nq.map sepU = np.map sepU ++ c :: d) : isDigit09 c = false := by
  cases hcd : isDigit09 c with
  | false => rfl
  | true =>
    exfalso
    obtain ⟨l1, l2, hn, h1, h2⟩ := List.map_eq_append_iff.mp h
    cases l2 with
    | nil => simp at h2
    | cons c0 l2' =>
      simp only [List.map_cons, List.cons.injEq] at h2
      have hc0 : isDigit09 c0 = true := by
        have := sepU_digit (c := c0) (by rw [h2.1]; exact hcd)
        exact this.1
      -- np and l1 are non-empty
      cases np with
      | nil => simp [plainName] at hp
      | cons a as =>
        rcases List.eq_nil_or_concat l1 with rfl | ⟨l1', x, rfl⟩
        · simp at h1
        · -- the last character of np
          rcases List.eq_nil_or_concat (a :: as) with h0 | ⟨m', y, hm⟩
          · simp at h0
          · rw [hm] at h1
            simp only [List.concat_eq_append, List.map_append, List.map_cons, List.map_nil] at h1
            have hxy : sepU x = sepU y := by
              have := congrArg List.getLast? h1
              simpa using this
            -- x = '-' because a digit follows it in nq
            cases nq with
            | nil => simp [plainName] at hq
            | cons b bs =>
              simp only [plainName, Bool.and_eq_true] at hq hp
              have hx : x = '-' := by
                refine plainTail_no_alnum_digit bs b hq.2 l1' l2' x c0 ?_ hc0
                rw [hn]; simp
              have hy : y ≠ '-' := plainTail_last as a hp.2 m' y (by rw [hm]; simp)
              have hyl : lod y = true := by
                have hmem : y ∈ a :: as := by rw [hm]; simp
                have := (plainName_facts (a :: as) (by simp [plainName, hp])).2 y hmem
                rcases this with h | h
                · exact absurd h hy
                · exact h
              rw [hx, sepU_dash] at hxy
              have : sepU y = y := by simp [sepU, lod_alnum hyl]
              rw [this] at hxy
              exact (lod_ne hyl).1 hxy.symm

end Witverif.Text.PkgPath
