import Witverif.Text.MoonPkg
import Witverif.Props.C26
/-! Helper lemmas for C30 (MoonBit package graph). -/
namespace Witverif.Text.MoonPkg
open Witverif.Text Witverif.Text.MoonSpec

/-! ### association lists -/

theorem lookup_upsert_same {α} (k : Str) (v : α) (l : List (Str × α)) :
    lookup k (upsert k v l) = some v := by
  induction l with
  | nil => simp [upsert, lookup]
  | cons x xs ih =>
    obtain ⟨k', v'⟩ := x
    by_cases h : k' = k
    · simp [upsert, h, lookup]
    · simp [upsert, h, lookup, ih]

theorem lookup_upsert_other {α} (k k' : Str) (v : α) (l : List (Str × α)) (hne : k' ≠ k) :
    lookup k' (upsert k v l) = lookup k' l := by
  induction l with
  | nil => simp [upsert, lookup, Ne.symm hne]
  | cons x xs ih =>
    obtain ⟨k2, v2⟩ := x
    by_cases h : k2 = k
    · subst h
      simp [upsert, lookup, Ne.symm hne]
    · by_cases h2 : k2 = k'
      · subst h2; simp [upsert, h, lookup]
      · simp [upsert, h, lookup, h2, ih]

theorem mem_of_lookup {α} (k : Str) (a : α) (l : List (Str × α)) (h : lookup k l = some a) :
    (k, a) ∈ l := by
  induction l with
  | nil => simp [lookup] at h
  | cons x xs ih =>
    obtain ⟨k', v'⟩ := x
    by_cases hk : k' = k
    · simp only [lookup, hk, if_true, Option.some.injEq] at h
      subst h; subst hk; simp
    · simp only [lookup, hk, if_false] at h
      exact List.mem_cons_of_mem _ (ih h)

theorem lookup_none_not_key {α} (k : Str) (l : List (Str × α)) (h : lookup k l = none) :
    (l.map (·.1)).contains k = false := by
  induction l with
  | nil => rfl
  | cons x xs ih =>
    obtain ⟨k', v'⟩ := x
    by_cases hk : k' = k
    · simp [lookup, hk] at h
    · simp only [lookup, hk, if_false] at h
      have := ih h
      simp only [List.map_cons, List.contains_cons, Bool.or_eq_false_iff]
      refine ⟨?_, this⟩
      simpa using Ne.symm hk

theorem lookup_append_left {α} (k : Str) (a : α) (l r : List (Str × α)) (h : lookup k l = some a) :
    lookup k (l ++ r) = some a := by
  induction l with
  | nil => simp [lookup] at h
  | cons x xs ih =>
    obtain ⟨k', v'⟩ := x
    by_cases hk : k' = k
    · simpa [lookup, hk] using h
    · simp only [lookup, hk, if_false] at h
      simp [lookup, hk, ih h]

theorem lookup_append_new {α} (k : Str) (a : α) (l : List (Str × α)) (h : lookup k l = none) :
    lookup k (l ++ [(k, a)]) = some a := by
  induction l with
  | nil => simp [lookup]
  | cons x xs ih =>
    obtain ⟨k', v'⟩ := x
    by_cases hk : k' = k
    · simp [lookup, hk] at h
    · simp only [lookup, hk, if_false] at h
      simp [lookup, hk, ih h]

theorem allDistinct_append_one (l : List Str) (x : Str) :
    allDistinct (l ++ [x]) = (allDistinct l && !l.contains x) := by
  induction l with
  | nil => simp [allDistinct]
  | cons y ys ih =>
    simp only [List.cons_append, allDistinct, ih, List.contains_cons, List.contains_append]
    by_cases h : x = y
    · subst h; simp
    · have h1 : (x == y) = false := by simpa using h
      have h2 : (y == x) = false := by simpa using Ne.symm h
      simp only [h1, h2, Bool.false_or, List.contains_eq_mem]
      cases decide (y ∈ ys) <;> cases decide (x ∈ ys) <;> cases allDistinct ys <;> rfl

theorem lookup_of_mem_distinct {α} (k : Str) (a : α) (l : List (Str × α))
    (hd : allDistinct (l.map (·.1)) = true) (h : (k, a) ∈ l) : lookup k l = some a := by
  induction l with
  | nil => simp at h
  | cons x xs ih =>
    obtain ⟨k', v'⟩ := x
    simp only [List.map_cons, allDistinct, Bool.and_eq_true, Bool.not_eq_true'] at hd
    rcases List.mem_cons.mp h with e | hm
    · injection e with e1 e2; subst e1; subst e2; simp [lookup]
    · by_cases hk : k' = k
      · subst hk
        have : (xs.map (·.1)).contains k' = true := by
          simp only [List.contains_eq_mem, List.mem_map, decide_eq_true_eq]
          exact ⟨(k', a), hm, rfl⟩
        rw [this] at hd; simp at hd
      · simp [lookup, hk, ih hd.2 hm]

/-! ### one package -/

/-- invariant of an `Imports`: aliases are names the `Ns` has handed out, names and aliases are
pairwise distinct -/
structure WF (imp : Imports) : Prop where
  defined : ∀ k a, (k, a) ∈ imp.packages → a ∈ imp.ns.defined
  keys : allDistinct (imp.packages.map (·.1)) = true
  aliases : allDistinct (imp.packages.map (·.2)) = true

theorem wf_empty : WF Imports.empty :=
  ⟨by simp [Imports.empty], by simp [Imports.empty, allDistinct], by simp [Imports.empty, allDistinct]⟩

theorem qualify_step (imp : Imports) (name : Str) (h : WF imp) :
    ∃ a, (imp.qualify name).2 = .alias a ∧ WF (imp.qualify name).1 ∧
      lookup name (imp.qualify name).1.packages = some a ∧
      (∀ k b, lookup k imp.packages = some b → lookup k (imp.qualify name).1.packages = some b) ∧
      (∀ k b, (k, b) ∈ (imp.qualify name).1.packages → (k, b) ∈ imp.packages ∨ (k = name ∧ b = a)) := by
  unfold Imports.qualify
  cases hl : lookup name imp.packages with
  | some a =>
    exact ⟨a, rfl, h, hl, fun _ _ hk => hk, fun _ _ hm => Or.inl hm⟩
  | none =>
    cases ht : imp.ns.tmp (lastSegment name) with
    | none => exact absurd ht (Witverif.Props.C26.tmp_terminates _ _)
    | some p =>
      obtain ⟨ns', a⟩ := p
      have hfresh := Witverif.Props.C26.tmp_fresh _ _ _ _ ht
      have hdef := Witverif.Props.C26.tmp_then_defined _ _ _ _ ht
      refine ⟨a, rfl, ?_, ?_, ?_, ?_⟩
      · refine ⟨?_, ?_, ?_⟩
        · intro k b hm
          simp only [List.mem_append, List.mem_singleton, Prod.mk.injEq] at hm
          rcases hm with hm | ⟨_, rfl⟩
          · exact (hdef b).mpr (Or.inr (h.defined k b hm))
          · exact (hdef b).mpr (Or.inl rfl)
        · simp only [List.map_append, List.map_cons, List.map_nil, allDistinct_append_one, h.keys,
            lookup_none_not_key _ _ hl, Bool.not_false, Bool.and_self]
        · have hna : (imp.packages.map (·.2)).contains a = false := by
            cases hc : (imp.packages.map (·.2)).contains a with
            | false => rfl
            | true =>
              exfalso
              simp only [List.contains_eq_mem, List.mem_map, decide_eq_true_eq] at hc
              obtain ⟨⟨k, b⟩, hm, rfl⟩ := hc
              exact hfresh (h.defined k b hm)
          simp only [List.map_append, List.map_cons, List.map_nil, allDistinct_append_one, h.aliases,
            hna, Bool.not_false, Bool.and_self]
      · exact lookup_append_new _ _ _ hl
      · intro k b hk; exact lookup_append_left _ _ _ _ hk
      · intro k b hm
        simp only [List.mem_append, List.mem_singleton, Prod.mk.injEq] at hm
        rcases hm with hm | ⟨rfl, rfl⟩
        · exact Or.inl hm
        · exact Or.inr ⟨rfl, rfl⟩

/-! ### the resolver -/

def WFS (st : State) : Prop := ∀ this imp, lookup this st = some imp → WF imp

theorem wfs_nil : WFS [] := by intro _ _ h; simp [lookup] at h

theorem trace_cons (st : State) (this name : Str) (calls : List (Str × Str)) :
    trace st ((this, name) :: calls) =
      (this, name, (qualify st this name).2) :: trace (qualify st this name).1 calls := by
  simp [trace, run]

theorem run_cons_fst (st : State) (this name : Str) (calls : List (Str × Str)) :
    (run st ((this, name) :: calls)).1 = (run (qualify st this name).1 calls).1 := by
  simp [run]

/-- what one call does to the state -/
theorem qualify_state (st : State) (this name : Str) (h : WFS st) :
    (name = this → qualify st this name = (st, .self)) ∧
    (name ≠ this → ∃ a imp', (qualify st this name).2 = .alias a ∧
      lookup this (qualify st this name).1 = some imp' ∧ WF imp' ∧
      lookup name imp'.packages = some a ∧
      (∀ t, t ≠ this → lookup t (qualify st this name).1 = lookup t st) ∧
      (∀ k b, lookup k ((lookup this st).getD Imports.empty).packages = some b →
        lookup k imp'.packages = some b) ∧
      (∀ k b, (k, b) ∈ imp'.packages →
        (k, b) ∈ ((lookup this st).getD Imports.empty).packages ∨ (k = name ∧ b = a))) := by
  refine ⟨fun e => by simp [qualify, e], fun hne => ?_⟩
  have hwf : WF ((lookup this st).getD Imports.empty) := by
    cases hl : lookup this st with
    | none => exact wf_empty
    | some imp => exact h this imp hl
  obtain ⟨a, h1, h2, h3, h4, h5⟩ := qualify_step _ name hwf
  refine ⟨a, (((lookup this st).getD Imports.empty).qualify name).1, ?_, ?_, h2, h3, ?_, h4, h5⟩
  · simp [qualify, hne, h1]
  · simp [qualify, hne, lookup_upsert_same]
  · intro t ht
    simp [qualify, hne, lookup_upsert_other _ _ _ _ ht]

theorem wfs_qualify (st : State) (this name : Str) (h : WFS st) : WFS (qualify st this name).1 := by
  by_cases e : name = this
  · rw [(qualify_state st this name h).1 e]; exact h
  · obtain ⟨a, imp', _, hl, hwf, _, hother, _, _⟩ := (qualify_state st this name h).2 e
    intro t imp ht
    by_cases hts : t = this
    · subst hts; rw [hl] at ht; injection ht with ht; subst ht; exact hwf
    · rw [hother t hts] at ht; exact h t imp ht

/-- entries never disappear or change -/
theorem qualify_mono (st : State) (this name : Str) (h : WFS st) :
    ∀ t imp k b, lookup t st = some imp → lookup k imp.packages = some b →
      ∃ imp', lookup t (qualify st this name).1 = some imp' ∧ lookup k imp'.packages = some b := by
  intro t imp k b ht hk
  by_cases e : name = this
  · rw [(qualify_state st this name h).1 e]; exact ⟨imp, ht, hk⟩
  · obtain ⟨a, imp', _, hl, _, _, hother, hold, _⟩ := (qualify_state st this name h).2 e
    by_cases hts : t = this
    · subst hts
      refine ⟨imp', hl, hold k b ?_⟩
      simp [ht, hk]
    · exact ⟨imp, by rw [hother t hts]; exact ht, hk⟩

/-- The specification of a run, from any well-formed state. -/
theorem run_spec : ∀ (calls : List (Str × Str)) (st : State), WFS st →
    WFS (run st calls).1 ∧
    (∀ t imp k b, lookup t st = some imp → lookup k imp.packages = some b →
      ∃ imp', lookup t (run st calls).1 = some imp' ∧ lookup k imp'.packages = some b) ∧
    (∀ c ∈ trace st calls,
      (c.2.1 = c.1 → c.2.2 = .self) ∧
      (c.2.1 ≠ c.1 → ∃ a imp', c.2.2 = .alias a ∧ lookup c.1 (run st calls).1 = some imp' ∧
        lookup c.2.1 imp'.packages = some a)) ∧
    (∀ t imp' k b, lookup t (run st calls).1 = some imp' → (k, b) ∈ imp'.packages →
      (∃ imp, lookup t st = some imp ∧ (k, b) ∈ imp.packages) ∨ (t, k, Out.alias b) ∈ trace st calls) := by
  intro calls
  induction calls with
  | nil =>
    intro st h
    refine ⟨h, ?_, ?_, ?_⟩
    · intro t imp k b ht hk; exact ⟨imp, ht, hk⟩
    · intro c hc; simp [trace, run] at hc
    · intro t imp' k b ht hm; exact Or.inl ⟨imp', ht, hm⟩
  | cons call calls ih =>
    intro st h
    obtain ⟨this, name⟩ := call
    have hwf' := wfs_qualify st this name h
    obtain ⟨i1, i2, i3, i4⟩ := ih (qualify st this name).1 hwf'
    rw [run_cons_fst, trace_cons]
    refine ⟨i1, ?_, ?_, ?_⟩
    · intro t imp k b ht hk
      obtain ⟨imp1, h1, h2⟩ := qualify_mono st this name h t imp k b ht hk
      exact i2 t imp1 k b h1 h2
    · intro c hc
      rcases List.mem_cons.mp hc with rfl | hc
      · refine ⟨fun e => ?_, fun e => ?_⟩
        · simp only at e; rw [(qualify_state st this name h).1 e]
        · simp only at e
          obtain ⟨a, imp', ho, hl, _, hn, _, _, _⟩ := (qualify_state st this name h).2 e
          obtain ⟨imp2, h1, h2⟩ := i2 this imp' name a hl hn
          exact ⟨a, imp2, ho, h1, h2⟩
      · exact i3 c hc
    · intro t imp' k b ht hm
      rcases i4 t imp' k b ht hm with ⟨imp1, h1, h2⟩ | hin
      · by_cases e : name = this
        · rw [(qualify_state st this name h).1 e] at h1
          exact Or.inl ⟨imp1, h1, h2⟩
        · obtain ⟨a, imp2, ho, hl, _, _, hother, _, hnew⟩ := (qualify_state st this name h).2 e
          by_cases hts : t = this
          · subst hts
            rw [hl] at h1; injection h1 with h1; subst h1
            rcases hnew k b h2 with hold | ⟨rfl, rfl⟩
            · cases hs : lookup t st with
              | none => simp [hs, Imports.empty] at hold
              | some imp0 => simp only [hs, Option.getD_some] at hold; exact Or.inl ⟨imp0, rfl, hold⟩
            · right; rw [ho]; simp
          · rw [hother t hts] at h1; exact Or.inl ⟨imp1, h1, h2⟩
      · exact Or.inr (List.mem_cons_of_mem _ hin)

/-! ### sorting -/

theorem insertStr_perm (x : Str) (l : List Str) : (insertStr x l).Perm (x :: l) := by
  induction l with
  | nil => exact List.Perm.refl _
  | cons y ys ih =>
    unfold insertStr
    split
    · exact List.Perm.refl _
    · exact (List.Perm.cons y ih).trans (List.Perm.swap x y ys)

theorem sortStr_perm (l : List Str) : (sortStr l).Perm l := by
  induction l with
  | nil => exact List.Perm.refl _
  | cons x xs ih =>
    simp only [sortStr, List.foldr_cons]
    exact (insertStr_perm x _).trans (List.Perm.cons x ih)

/-! ### paths -/

theorem pathPreserves_dirOf (name : Str) : pathPreserves name (dirOf name) = true := by
  induction name with
  | nil => rfl
  | cons c cs ih =>
    by_cases h : c = '.'
    · subst h; simpa [dirOf, pathPreserves] using ih
    · have : (c == '.') = false := by simpa using h
      simpa [dirOf, pathPreserves, h, this] using ih

theorem dirOf_injective (a b : Str) (ha : '/' ∉ a) (hb : '/' ∉ b) (h : dirOf a = dirOf b) : a = b := by
  induction a generalizing b with
  | nil => cases b with
    | nil => rfl
    | cons _ _ => simp [dirOf] at h
  | cons x xs ih =>
    cases b with
    | nil => simp [dirOf] at h
    | cons y ys =>
      simp only [dirOf, List.map_cons, List.cons.injEq] at h
      have hx : x ≠ '/' := fun e => ha (by simp [e])
      have hy : y ≠ '/' := fun e => hb (by simp [e])
      have hxy : x = y := by
        by_cases h1 : x = '.' <;> by_cases h2 : y = '.'
        · rw [h1, h2]
        · simp only [h1, h2, if_true, if_false] at h; exact absurd h.1.symm hy
        · simp only [h1, h2, if_true, if_false] at h; exact absurd h.1 hx
        · simp only [h1, h2, if_false] at h; exact h.1
      rw [hxy, ih ys (fun hm => ha (by simp [hm])) (fun hm => hb (by simp [hm])) h.2]

/-! ### distinctness -/

theorem allDistinct_map_of_inj {α} (l : List α) (f g : α → Str) (h : allDistinct (l.map f) = true)
    (hinj : ∀ x ∈ l, ∀ y ∈ l, g x = g y → f x = f y) : allDistinct (l.map g) = true := by
  induction l with
  | nil => rfl
  | cons x xs ih =>
    simp only [List.map_cons, allDistinct, Bool.and_eq_true, Bool.not_eq_true'] at h ⊢
    refine ⟨?_, ih h.2 (fun a ha b hb => hinj a (by simp [ha]) b (by simp [hb]))⟩
    cases hc : (xs.map g).contains (g x) with
    | false => rfl
    | true =>
      exfalso
      simp only [List.contains_eq_mem, List.mem_map, decide_eq_true_eq] at hc
      obtain ⟨y, hy, e⟩ := hc
      have := hinj y (by simp [hy]) x (by simp) e
      have hm : (xs.map f).contains (f x) = true := by
        simp only [List.contains_eq_mem, List.mem_map, decide_eq_true_eq]
        exact ⟨y, hy, this⟩
      rw [hm] at h; simp at h

/-- in a duplicate-free projection two members with the same image are equal images' owners:
stated for pairs, the form used below -/
theorem distinct_fst {β} (l : List (Str × β)) (h : allDistinct (l.map (·.1)) = true)
    (k : Str) (a b : β) (ha : (k, a) ∈ l) (hb : (k, b) ∈ l) : a = b := by
  have h1 := lookup_of_mem_distinct k a l h ha
  have h2 := lookup_of_mem_distinct k b l h hb
  rw [h1] at h2; injection h2

theorem distinct_snd (l : List (Str × Str)) (h : allDistinct (l.map (·.2)) = true)
    (k k' a : Str) (ha : (k, a) ∈ l) (hb : (k', a) ∈ l) : k = k' := by
  induction l with
  | nil => simp at ha
  | cons x xs ih =>
    simp only [List.map_cons, allDistinct, Bool.and_eq_true, Bool.not_eq_true'] at h
    have notin : ∀ q, (q, a) ∈ xs → x.2 = a → False := by
      intro q hq e
      have : (xs.map (·.2)).contains x.2 = true := by
        simp only [List.contains_eq_mem, List.mem_map, decide_eq_true_eq]
        exact ⟨(q, a), hq, e.symm⟩
      rw [this] at h; simp at h
    rcases List.mem_cons.mp ha with e1 | h1 <;> rcases List.mem_cons.mp hb with e2 | h2
    · rw [← e1] at e2; injection e2 with e _; exact e.symm
    · exact absurd (by rw [← e1]) (fun e : x.2 = a => notin k' h2 e)
    · exact absurd (by rw [← e2]) (fun e : x.2 = a => notin k h1 e)
    · exact ih h.2 h1 h2

/-! ### membership form of the state invariant (every table, not only the reachable ones) -/

theorem mem_upsert {α} (k : Str) (v : α) (l : List (Str × α)) (t : Str) (x : α)
    (h : (t, x) ∈ upsert k v l) : (t, x) ∈ l ∨ (t = k ∧ x = v) := by
  induction l with
  | nil => simp [upsert] at h; exact Or.inr h
  | cons y ys ih =>
    obtain ⟨k', v'⟩ := y
    by_cases hk : k' = k
    · simp only [upsert, hk, if_true, List.mem_cons, Prod.mk.injEq] at h
      rcases h with h | h
      · exact Or.inr h
      · exact Or.inl (List.mem_cons_of_mem _ h)
    · simp only [upsert, hk, if_false, List.mem_cons, Prod.mk.injEq] at h
      rcases h with h | h
      · exact Or.inl (by simp [h.1, h.2])
      · rcases ih h with h | h
        · exact Or.inl (List.mem_cons_of_mem _ h)
        · exact Or.inr h

theorem keys_upsert {α} (k : Str) (v : α) (l : List (Str × α))
    (h : allDistinct (l.map (·.1)) = true) : allDistinct ((upsert k v l).map (·.1)) = true := by
  induction l with
  | nil => simp [upsert, allDistinct]
  | cons y ys ih =>
    obtain ⟨k', v'⟩ := y
    simp only [List.map_cons, allDistinct, Bool.and_eq_true, Bool.not_eq_true'] at h
    by_cases hk : k' = k
    · subst hk
      simp only [upsert, if_true, List.map_cons, allDistinct, Bool.and_eq_true, Bool.not_eq_true']
      exact h
    · simp only [upsert, hk, if_false, List.map_cons, allDistinct, Bool.and_eq_true, Bool.not_eq_true']
      refine ⟨?_, ih h.2⟩
      cases hc : ((upsert k v ys).map (·.1)).contains k' with
      | false => rfl
      | true =>
        exfalso
        simp only [List.contains_eq_mem, List.mem_map, decide_eq_true_eq] at hc
        obtain ⟨⟨t, x⟩, hm, e⟩ := hc
        simp only at e
        rcases mem_upsert k v ys t x hm with hm | ⟨rfl, _⟩
        · have : (ys.map (·.1)).contains k' = true := by
            simp only [List.contains_eq_mem, List.mem_map, decide_eq_true_eq]
            exact ⟨(t, x), hm, e⟩
          rw [this] at h; simp at h
        · exact hk e.symm

/-- the keys (`this`) of the resolver state stay distinct -/
theorem keys_qualify (st : State) (this name : Str) (h : allDistinct (st.map (·.1)) = true) :
    allDistinct ((qualify st this name).1.map (·.1)) = true := by
  unfold qualify
  split
  · exact h
  · exact keys_upsert _ _ _ h

theorem keys_run : ∀ (calls : List (Str × Str)) (st : State), allDistinct (st.map (·.1)) = true →
    allDistinct ((run st calls).1.map (·.1)) = true := by
  intro calls
  induction calls with
  | nil => intro st h; exact h
  | cons c cs ih =>
    intro st h
    obtain ⟨this, name⟩ := c
    rw [run_cons_fst]
    exact ih _ (keys_qualify st this name h)

end Witverif.Text.MoonPkg
