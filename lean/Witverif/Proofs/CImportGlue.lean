import Witverif.Proofs.AbiDealloc
import Witverif.Proofs.AbiLower
/-! C11: lowering with `realloc: None` (the import direction) contains no release instruction and no
allocation whose ownership passes to the callee. -/
namespace Witverif.Abi

/-- an allocation whose ownership passes to the callee (`realloc: Some`) -/
def ownsAllocOp : Op → Bool
  | .stringLower r | .listLower _ r | .listCanonLower _ r | .mapLower _ _ r => r
  | .malloc _ _ => true
  | _ => false

/-- instructions an import call must not contain for its arguments to stay the caller's -/
def touchOp (o : Op) : Bool := isFreeOp o || ownsAllocOp o || isDropOp o

theorem countOps_stS (k : StoreKind) (off : Off) (v a : Expr) (rest : List Stmt) :
    countOps touchOp (stS k off v a :: rest) = countOps touchOp rest := by
  simp [stS, countOps, countBlocks, touchOp, isFreeOp, ownsAllocOp, isDropOp]

theorem countOps_storeInt (r : IntRepr) (off : Off) (v a : Expr) (rest : List Stmt) :
    countOps touchOp (storeInt r off v a :: rest) = countOps touchOp rest := by
  unfold storeInt; exact countOps_stS _ _ _ _ _

theorem countBlocks_armOfStore (tag : IntRepr) (off : Off) (a : Expr) (i : Nat) (body : List Stmt)
    (rest : List Block) :
    countBlocks touchOp (armOfStore tag off a i body :: rest) = countOps touchOp body + countBlocks touchOp rest := by
  simp [armOfStore, countBlocks, countOps_storeInt]

section
variable (c : Cfg) (hc : c.realloc = false)
include hc

mutual
theorem store_untouched : ∀ (t : Ty) (lvl : Nat) (x a : Expr) (off : Off) (ss : List Stmt),
    store c lvl t x a off = .ok ss → countOps touchOp ss = 0
  | .bool, _, _, _, _, _, h | .u8, _, _, _, _, _, h | .s8, _, _, _, _, _, h | .u16, _, _, _, _, _, h
  | .s16, _, _, _, _, _, h | .u32, _, _, _, _, _, h | .s32, _, _, _, _, _, h | .char, _, _, _, _, _, h
  | .u64, _, _, _, _, _, h | .s64, _, _, _, _, _, h | .f32, _, _, _, _, _, h | .f64, _, _, _, _, _, h
  | .errctx, _, _, _, _, _, h | .own, _, _, _, _, _, h | .borrow, _, _, _, _, _, h
  | .future _, _, _, _, _, _, h | .stream _, _, _, _, _, _, h => by
      simp only [store, pure_ok] at h
      subst h
      simp [countOps_stS, countOps]
  | .enum _, _, _, _, _, _, h => by
      simp only [store, pure_ok] at h
      subst h
      simp [countOps_storeInt, countOps]
  | .string, _, _, _, _, _, h => by
      simp only [store, pure_ok] at h
      subst h
      simp [countOps, countBlocks, countOps_stS, touchOp, isFreeOp, ownsAllocOp, isDropOp, hc]
  | .list e, lvl, x, a, off, ss, h => by
      simp only [store] at h
      split at h
      · simp only [pure_ok] at h
        subst h
        simp [countOps, countBlocks, countOps_stS, touchOp, isFreeOp, ownsAllocOp, isDropOp, hc]
      · simp only [bind_ok, pure_ok] at h
        obtain ⟨body, hb, rfl⟩ := h
        have := store_untouched e _ _ _ _ _ hb
        simp [countOps, countBlocks, countOps_stS, touchOp, isFreeOp, ownsAllocOp, isDropOp, hc] at this ⊢
        exact this
  | .map k v, lvl, x, a, off, ss, h => by
      simp only [store, bind_ok, pure_ok] at h
      obtain ⟨s1, h1, s2, h2, rfl⟩ := h
      have e1 := store_untouched k _ _ _ _ _ h1
      have e2 := store_untouched v _ _ _ _ _ h2
      simp [countOps, countBlocks, countOps_stS, countOps_append, touchOp, isFreeOp, ownsAllocOp, isDropOp, hc] at e1 e2 ⊢
      omega
  | .record fs, lvl, x, a, off, ss, h => by
      simp only [store] at h
      exact storeFields_untouched fs _ _ _ _ _ _ h
  | .tuple ts, lvl, x, a, off, ss, h => by
      simp only [store] at h
      exact storeFields_untouched ts _ _ _ _ _ _ h
  | .flags n, lvl, x, a, off, ss, h => by
      simp only [store] at h
      split at h
      · simp only [pure_ok] at h; subst h; simp [countOps_storeInt, countOps]
      · simp only [pure_ok] at h; subst h; simp [countOps_storeInt, countOps]
      · simp only [pure_ok] at h; subst h
        generalize (List.range _).reverse = l
        induction l with
        | nil => simp [countOps]
        | cons i l ih => simp only [List.map_cons, countOps_stS]; exact ih
  | .variant cs, lvl, x, a, off, ss, h => by
      simp only [store, bind_ok, pure_ok] at h
      obtain ⟨arms, ha, rfl⟩ := h
      have := storeArms_untouched cs _ _ _ _ _ _ _ ha
      simp [countOps, touchOp, isFreeOp, ownsAllocOp, isDropOp] at this ⊢
      exact this
  | .option t, lvl, x, a, off, ss, h => by
      simp only [store, bind_ok, pure_ok] at h
      obtain ⟨body, hb, rfl⟩ := h
      have := store_untouched t _ _ _ _ _ hb
      simp [countOps, countBlocks_armOfStore, countBlocks, touchOp, isFreeOp, ownsAllocOp, isDropOp] at this ⊢
      exact this
  | .result ok err, lvl, x, a, off, ss, h => by
      simp only [store, bind_ok, pure_ok] at h
      obtain ⟨b0, h0, b1, h1, rfl⟩ := h
      have e0 := storeArm_untouched ok _ _ _ _ h0
      have e1 := storeArm_untouched err _ _ _ _ h1
      simp [countOps, countBlocks_armOfStore, countBlocks, touchOp, isFreeOp, ownsAllocOp, isDropOp] at e0 e1 ⊢
      omega
  | .flist e n, lvl, x, a, off, ss, h => by
      simp only [store, bind_ok, pure_ok] at h
      obtain ⟨body, hb, rfl⟩ := h
      have := store_untouched e _ _ _ _ _ hb
      simp [countOps, countBlocks, touchOp, isFreeOp, ownsAllocOp, isDropOp] at this ⊢
      exact this
theorem storeFields_untouched : ∀ (ts : List Ty) (lvl : Nat) (fos : List Off) (xs : List Expr) (a : Expr) (off : Off)
    (ss : List Stmt), storeFields c lvl ts fos xs a off = .ok ss → countOps touchOp ss = 0
  | [], _, _, _, _, _, _, h => by simp only [storeFields, pure_ok] at h; subst h; simp [countOps]
  | _ :: _, _, [], _, _, _, _, h => by simp only [storeFields, pure_ok] at h; subst h; simp [countOps]
  | _ :: _, _, _ :: _, [], _, _, _, h => by simp only [storeFields, pure_ok] at h; subst h; simp [countOps]
  | t :: ts, lvl, fo :: fos, x :: xs, a, off, ss, h => by
      simp only [storeFields, bind_ok, pure_ok] at h
      obtain ⟨s1, h1, s2, h2, rfl⟩ := h
      rw [countOps_append, store_untouched t _ _ _ _ _ h1, storeFields_untouched ts _ _ _ _ _ _ h2]
theorem storeArms_untouched : ∀ (cs : List (Option Ty)) (lvl : Nat) (tag : IntRepr) (a : Expr) (off poff : Off) (i : Nat)
    (arms : List Block), storeArms c lvl cs tag a off poff i = .ok arms → countBlocks touchOp arms = 0
  | [], _, _, _, _, _, _, _, h => by simp only [storeArms, pure_ok] at h; subst h; simp [countBlocks]
  | o :: cs, lvl, tag, a, off, poff, i, arms, h => by
      simp only [storeArms, bind_ok, pure_ok] at h
      obtain ⟨body, hb, rest, hr, rfl⟩ := h
      rw [countBlocks_armOfStore, storeArm_untouched o _ _ _ _ hb, storeArms_untouched cs _ _ _ _ _ _ _ hr]
theorem storeArm_untouched : ∀ (o : Option Ty) (lvl : Nat) (a : Expr) (poff : Off) (ss : List Stmt),
    storeArm c lvl o a poff = .ok ss → countOps touchOp ss = 0
  | none, _, _, _, _, h => by simp only [storeArm, pure_ok] at h; subst h; simp [countOps]
  | some t, lvl, a, poff, ss, h => by
      simp only [storeArm] at h
      exact store_untouched t _ _ _ _ _ h
end
end

theorem mapM_ok_mem {α β : Type} (f : α → G β) : ∀ (xs : List α) (ys : List β),
    xs.mapM f = .ok ys → ∀ y ∈ ys, ∃ x ∈ xs, f x = .ok y := by
  intro xs
  induction xs with
  | nil => intro ys h; simp [pure, Except.pure] at h; subst h; simp
  | cons x xs ih =>
    intro ys h
    simp only [List.mapM_cons, bind_ok] at h
    obtain ⟨y, hy, ys', hys', hp⟩ := h
    simp [pure, Except.pure] at hp
    subst hp
    intro z hz
    rcases List.mem_cons.mp hz with rfl | hz
    · exact ⟨x, by simp, hy⟩
    · obtain ⟨x', hx', hf⟩ := ih ys' hys' z hz
      exact ⟨x', by simp [hx'], hf⟩

theorem countOps_flatMap_zero {α : Type} (f : Op → Bool) (g : α → List Stmt) :
    ∀ (l : List α), (∀ r ∈ l, countOps f (g r) = 0) → countOps f (l.flatMap g) = 0
  | [], _ => by simp [countOps]
  | r :: l, h => by
      simp only [List.flatMap_cons, countOps_append, h r (by simp),
        countOps_flatMap_zero f g l (fun r' hr' => h r' (by simp [hr']))]

theorem finishLower_untouched (o : Op) (x : Expr) (arms : List Block) (n : Nat)
    (ho : touchOp o = false) (ha : countBlocks touchOp arms = 0) :
    countOps touchOp (finishLower o x arms n).1 = 0 := by
  unfold finishLower
  split <;> simp [countOps, ho, ha]

theorem armOfLower_untouched (results : List CoreTy) (i : Nat)
    (p : Option ((List Stmt × List Expr) × List CoreTy)) (b : Block) (h : armOfLower results i p = .ok b)
    (hp : ∀ st rs temp, p = some ((st, rs), temp) → countOps touchOp st = 0) : countOps touchOp b.1 = 0 := by
  match p, h with
  | none, h => simp only [armOfLower, pure_ok] at h; subst h; simp [countOps]
  | some ((st, rs), temp), h =>
    simp only [armOfLower, bind_ok, pure_ok] at h
    obtain ⟨_, _, rfl⟩ := h
    exact hp st rs temp rfl

section
variable (c : Cfg) (hc : c.realloc = false)
include hc

mutual
theorem lower_untouched : ∀ (t : Ty) (lvl : Nat) (x : Expr) (ss : List Stmt) (es : List Expr),
    lower c lvl t x = .ok (ss, es) → countOps touchOp ss = 0
  | .bool, _, _, _, _, h | .s8, _, _, _, _, h | .u8, _, _, _, _, h | .s16, _, _, _, _, h
  | .u16, _, _, _, _, h | .s32, _, _, _, _, h | .u32, _, _, _, _, h | .s64, _, _, _, _, h
  | .u64, _, _, _, _, h | .char, _, _, _, _, h | .f32, _, _, _, _, h | .f64, _, _, _, _, h
  | .errctx, _, _, _, _, h | .own, _, _, _, _, h | .borrow, _, _, _, _, h
  | .future _, _, _, _, _, h | .stream _, _, _, _, _, h | .enum _, _, _, _, _, h | .flags _, _, _, _, _, h => by
      simp only [lower, pure_ok, Prod.mk.injEq] at h
      obtain ⟨rfl, _⟩ := h
      simp [countOps]
  | .string, _, _, _, _, h => by
      simp only [lower, pure_ok, Prod.mk.injEq] at h
      obtain ⟨rfl, _⟩ := h
      simp [countOps, countBlocks, touchOp, isFreeOp, ownsAllocOp, isDropOp, hc]
  | .list e, lvl, x, ss, es, h => by
      simp only [lower] at h
      split at h
      · simp only [pure_ok, Prod.mk.injEq] at h
        obtain ⟨rfl, _⟩ := h
        simp [countOps, countBlocks, touchOp, isFreeOp, ownsAllocOp, isDropOp, hc]
      · simp only [bind_ok, pure_ok, Prod.mk.injEq] at h
        obtain ⟨body, hb, rfl, _⟩ := h
        have := store_untouched c hc e _ _ _ _ _ hb
        simp [countOps, countBlocks, touchOp, isFreeOp, ownsAllocOp, isDropOp, hc] at this ⊢
        exact this
  | .map k v, lvl, x, ss, es, h => by
      simp only [lower, bind_ok, pure_ok, Prod.mk.injEq] at h
      obtain ⟨s1, h1, s2, h2, rfl, _⟩ := h
      have e1 := store_untouched c hc k _ _ _ _ _ h1
      have e2 := store_untouched c hc v _ _ _ _ _ h2
      simp [countOps, countBlocks, countOps_append, touchOp, isFreeOp, ownsAllocOp, isDropOp, hc] at e1 e2 ⊢
      omega
  | .record fs, lvl, x, ss, es, h => by
      simp only [lower] at h
      exact lowerFields_untouched fs _ _ _ _ _ _ h
  | .tuple ts, lvl, x, ss, es, h => by
      simp only [lower] at h
      exact lowerFields_untouched ts _ _ _ _ _ _ h
  | .variant cs, lvl, x, ss, es, h => by
      simp only [lower, bind_ok, pure_ok] at h
      obtain ⟨results, _, arms, harms, hp⟩ := h
      have ha := lowerArms_untouched cs _ _ _ _ harms
      have := finishLower_untouched (.variantLower cs.length results) x arms results.length
        (by simp [touchOp, isFreeOp, ownsAllocOp, isDropOp]) ha
      rw [hp] at this
      exact this
  | .option t, lvl, x, ss, es, h => by
      simp only [lower, bind_ok, pure_ok] at h
      obtain ⟨results, _, a0, ha0, lw, hlw, temp, _, a1, ha1, hp⟩ := h
      have e0 := armOfLower_untouched results 0 none a0 ha0 (by simp)
      have e1 := armOfLower_untouched results 1 _ a1 ha1 (by
        intro st rs temp' he
        simp only [Option.some.injEq, Prod.mk.injEq] at he
        obtain ⟨hl, _⟩ := he
        have := lower_untouched t _ _ lw.1 lw.2 (by rw [hlw])
        rw [hl] at this; exact this)
      have := finishLower_untouched (.optionLower results) x [a0, a1] results.length
        (by simp [touchOp, isFreeOp, ownsAllocOp, isDropOp]) (by rw [countBlocks, countBlocks, countBlocks, e0, e1])
      rw [hp] at this
      exact this
  | .result a b, lvl, x, ss, es, h => by
      simp only [lower, bind_ok, pure_ok] at h
      obtain ⟨results, _, a0, ha0, a1, ha1, hp⟩ := h
      have e0 := lowerArm_untouched a _ _ _ _ ha0
      have e1 := lowerArm_untouched b _ _ _ _ ha1
      have := finishLower_untouched (.resultLower results) x [a0, a1] results.length
        (by simp [touchOp, isFreeOp, ownsAllocOp, isDropOp]) (by rw [countBlocks, countBlocks, countBlocks, e0, e1])
      rw [hp] at this
      exact this
  | .flist e n, lvl, x, ss, es, h => by
      simp only [lower, bind_ok, pure_ok, Prod.mk.injEq] at h
      obtain ⟨rs, hrs, rfl, _⟩ := h
      apply countOps_flatMap_zero
      intro r hr
      obtain ⟨x', _, hx'⟩ := mapM_ok_mem _ _ _ hrs r hr
      exact lower_untouched e _ _ r.1 r.2 (by simpa using hx')
theorem lowerFields_untouched : ∀ (ts : List Ty) (lvl : Nat) (o : Op) (x : Expr) (i : Nat) (ss : List Stmt) (es : List Expr),
    lowerFields c lvl ts o x i = .ok (ss, es) → countOps touchOp ss = 0
  | [], _, _, _, _, _, _, h => by
      simp only [lowerFields, pure_ok, Prod.mk.injEq] at h
      obtain ⟨rfl, _⟩ := h
      simp [countOps]
  | t :: ts, lvl, o, x, i, ss, es, h => by
      simp only [lowerFields, bind_ok, pure_ok, Prod.mk.injEq] at h
      obtain ⟨⟨s1, r1⟩, h1, ⟨s2, r2⟩, h2, rfl, _⟩ := h
      rw [countOps_append, lower_untouched t _ _ _ _ h1, lowerFields_untouched ts _ _ _ _ _ _ h2]
theorem lowerArms_untouched : ∀ (cs : List (Option Ty)) (lvl : Nat) (results : List CoreTy) (i : Nat) (arms : List Block),
    lowerArms c lvl cs results i = .ok arms → countBlocks touchOp arms = 0
  | [], _, _, _, _, h => by simp only [lowerArms, pure_ok] at h; subst h; simp [countBlocks]
  | o :: cs, lvl, results, i, arms, h => by
      simp only [lowerArms, bind_ok, pure_ok] at h
      obtain ⟨arm, ha, rest, hr, rfl⟩ := h
      rw [countBlocks, lowerArm_untouched o _ _ _ _ ha, lowerArms_untouched cs _ _ _ _ hr]
theorem lowerArm_untouched : ∀ (o : Option Ty) (lvl : Nat) (results : List CoreTy) (i : Nat) (b : Block),
    lowerArm c lvl o results i = .ok b → countOps touchOp b.1 = 0
  | none, _, results, i, b, h => by
      simp only [lowerArm] at h
      exact armOfLower_untouched results i none b h (by simp)
  | some t, lvl, results, i, b, h => by
      simp only [lowerArm, bind_ok] at h
      obtain ⟨lw, hlw, temp, _, hb⟩ := h
      exact armOfLower_untouched results i _ b hb (by
        intro st rs temp' he
        simp only [Option.some.injEq, Prod.mk.injEq] at he
        obtain ⟨hl, _⟩ := he
        have := lower_untouched t _ _ lw.1 lw.2 (by rw [hlw])
        rw [hl] at this; exact this)
end
end

end Witverif.Abi

namespace Witverif.Abi

theorem lowerParams_untouched (c : Cfg) (hc : c.realloc = false) : ∀ (ts : List Ty) (nth : Nat) (ss : List Stmt) (es : List Expr),
    lowerParams c ts nth = .ok (ss, es) → countOps touchOp ss = 0
  | [], _, _, _, h => by
      simp only [lowerParams, pure_ok, Prod.mk.injEq] at h
      obtain ⟨rfl, _⟩ := h
      simp [countOps]
  | t :: ts, nth, ss, es, h => by
      simp only [lowerParams, bind_ok, pure_ok, Prod.mk.injEq] at h
      obtain ⟨⟨s1, r1⟩, h1, ⟨s2, r2⟩, h2, rfl, _⟩ := h
      rw [countOps_append, lower_untouched c hc t _ _ _ _ h1, lowerParams_untouched c hc ts _ _ _ h2]

theorem storeParams_untouched (c : Cfg) (hc : c.realloc = false) : ∀ (ts : List Ty) (fos : List Off) (nth : Nat) (ptr : Expr)
    (ss : List Stmt), storeParams c ts fos nth ptr = .ok ss → countOps touchOp ss = 0
  | [], _, _, _, _, h => by simp only [storeParams, pure_ok] at h; subst h; simp [countOps]
  | _ :: _, [], _, _, _, h => by simp only [storeParams, pure_ok] at h; subst h; simp [countOps]
  | t :: ts, fo :: fos, nth, ptr, ss, h => by
      simp only [storeParams, bind_ok, pure_ok] at h
      obtain ⟨s1, h1, s2, h2, rfl⟩ := h
      rw [countOps_append, store_untouched c hc t _ _ _ _ _ h1, storeParams_untouched c hc ts _ _ _ _ h2]

theorem throw_bind_ne_ok {α β : Type} (e : Panic) (f : α → G β) (r : β) :
    ((throw e : G α) >>= f) = .ok r ↔ False := by
  simp [throw, throwThe, MonadExceptOf.throw, bind, Except.bind]

theorem throw_ne_ok {α : Type} (e : Panic) (r : α) : (throw e : G α) = .ok r ↔ False := by
  simp [throw, throwThe, MonadExceptOf.throw]

theorem call_import_untouched (canon : Ty → Bool) (f : Func) (ss : List Stmt)
    (h : call canon .guestImport true false f = .ok ss) : countOps touchOp ss = 0 := by
  unfold call at h
  simp only [Bool.and_self, decide_true, if_true, bind_ok] at h
  obtain ⟨⟨s0, stack0, nrp0⟩, ha, h⟩ := h
  have hs0 : countOps touchOp s0 = 0 := by
    split at ha
    · simp only [bind_ok, pure_ok, Prod.mk.injEq] at ha
      obtain ⟨ss', h', rfl, _⟩ := ha
      exact storeParams_untouched _ rfl _ _ _ _ _ h'
    · simp only [bind_ok, pure_ok, Prod.mk.injEq] at ha
      obtain ⟨x, hx, rfl, _⟩ := ha
      exact lowerParams_untouched _ rfl _ _ x.1 x.2 hx
  generalize (if (true && (wasmSignature Variant.guestImport f).retptr) = true then
      stack0 ++ [Expr.rp nrp0 (recordSizeOff (optTys f.result)) (recordAlignOff (optTys f.result))] else stack0) = stack1 at h
  split at h
  · simp only [throw_bind_ne_ok] at h
  · simp only [bind_ok] at h
    obtain ⟨⟨s2, stack2⟩, h2, h3⟩ := h
    have hs2 : countOps touchOp s2 = 0 := by
      repeat' split at h2
      all_goals
        simp only [bind_ok, pure_ok, throw_bind_ne_ok, throw_ne_ok, Prod.mk.injEq, exists_false, false_and,
          and_false, exists_const] at h2
      all_goals
        first
        | (obtain ⟨_, _, _, _, rfl, _⟩ := h2; simp [countOps, countBlocks, touchOp, isFreeOp, ownsAllocOp, isDropOp])
        | (obtain ⟨_, _, rfl, _⟩ := h2; simp [countOps, countBlocks, touchOp, isFreeOp, ownsAllocOp, isDropOp])
        | (obtain ⟨rfl, _⟩ := h2; simp [countOps])
        | trace_state
    clear h2 ha
    split at h3
    · rename_i hft
      exact absurd hft (by decide)
    · repeat' split at h3
      all_goals (try simp only [throw_bind_ne_ok] at h3)
      all_goals
        simp only [pure_ok] at h3
        subst h3
        rw [countOps_append, countOps_append, countOps_append, hs0, hs2]
        simp [countOps, countBlocks, touchOp, isFreeOp, ownsAllocOp, isDropOp]

mutual
theorem countOps_mono (g h : Op → Bool) (hg : ∀ o, g o = true → h o = true) :
    ∀ ss : List Stmt, countOps g ss ≤ countOps h ss
  | [] => by simp [countOps]
  | .eff o _ blocks :: rest => by
      have h1 := countBlocks_mono g h hg blocks
      have h2 := countOps_mono g h hg rest
      have h3 : (if g o = true then 1 else 0) ≤ (if h o = true then 1 else 0) := by
        by_cases hgo : g o = true
        · simp [hgo, hg o hgo]
        · simp [hgo]
      simp only [countOps]
      omega
theorem countBlocks_mono (g h : Op → Bool) (hg : ∀ o, g o = true → h o = true) :
    ∀ bs : List (List Stmt × List Expr), countBlocks g bs ≤ countBlocks h bs
  | [] => by simp [countBlocks]
  | (ss, _) :: bs => by
      have h1 := countOps_mono g h hg ss
      have h2 := countBlocks_mono g h hg bs
      simp only [countBlocks]
      omega
end

end Witverif.Abi
