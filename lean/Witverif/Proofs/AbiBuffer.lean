import Witverif.Async.Host
import Witverif.Async.StreamOp
/-! Helper lemmas for C19: `AbiBuffer` (`advance`, `take_vec`, `into_vec`, `Drop`) and the two stream
`in_progress_update` functions. -/
namespace Witverif.Async
open Witverif.Generated

namespace AbiBuffer

theorem window_length (b : AbiBuffer) : b.window.length = b.remaining := by
  simp [window, remaining]

/-- `advance` succeeds exactly when `amt` does not exceed what remains -/
theorem advance_ok_iff (b : AbiBuffer) (hc : b.cursor ≤ b.items.length) (amt : Nat) :
    (∃ b' evs, b.advance amt = .ok b' evs) ↔ amt ≤ b.remaining := by
  unfold advance remaining
  by_cases h : amt + b.cursor > b.items.length
  · simp [h]; omega
  · simp only [h, if_false]
    by_cases hk : b.kind != .lists <;> simp [hk] <;> omega

/-- what a successful `advance` does: the cursor moves by `amt`, nothing else changes, and — for
payloads that own lists — exactly the first `amt` values of the window get `dealloc_lists`, in order -/
theorem advance_spec (b : AbiBuffer) (amt : Nat) (h : amt ≤ b.remaining) (hc : b.cursor ≤ b.items.length) :
    b.advance amt = .ok { b with cursor := b.cursor + amt }
      (if b.kind = .lists then (b.window.take amt).map (evDli b.c) else []) := by
  unfold advance
  have : ¬ (amt + b.cursor > b.items.length) := by unfold remaining at h; omega
  simp only [this, if_false]
  by_cases hk : b.kind = .lists <;> simp [hk]

theorem advance_window (b b' : AbiBuffer) (amt : Nat) (evs : List Ev) (h : b.advance amt = .ok b' evs) :
    b'.window = b.window.drop amt ∧ b'.items = b.items ∧ b'.cursor = b.cursor + amt ∧ b'.kind = b.kind ∧ b'.c = b.c ∧ b'.slab = b.slab := by
  unfold advance at h
  by_cases h1 : amt + b.cursor > b.items.length
  · simp [h1] at h
  · simp only [h1, if_false] at h
    by_cases hk : b.kind != .lists
    · simp only [hk, if_true, Step.ok.injEq] at h
      obtain ⟨rfl, _⟩ := h
      simp [window, List.drop_drop, Nat.add_comm]
    · simp only [hk, Bool.false_eq_true, if_false, Step.ok.injEq] at h
      obtain ⟨rfl, _⟩ := h
      simp [window, List.drop_drop, Nat.add_comm]

theorem advance_remaining (b b' : AbiBuffer) (amt : Nat) (evs : List Ev) (h : b.advance amt = .ok b' evs) :
    b'.remaining + amt = b.remaining := by
  unfold advance at h
  by_cases h1 : amt + b.cursor > b.items.length
  · simp [h1] at h
  · simp only [h1, if_false] at h
    by_cases hk : b.kind != .lists
    · simp only [hk, if_true, Step.ok.injEq] at h
      obtain ⟨rfl, _⟩ := h
      simp only [remaining]; omega
    · simp only [hk, Bool.false_eq_true, if_false, Step.ok.injEq] at h
      obtain ⟨rfl, _⟩ := h
      simp only [remaining]; omega

/-- `advance` panics exactly when asked to go past the end (`amt` = the host's count: a conforming
host never reports more than it was offered) -/
theorem advance_panics_iff (b : AbiBuffer) (amt : Nat) (hc : b.cursor ≤ b.items.length) :
    (∃ m evs, b.advance amt = .panic m evs) ↔ b.remaining < amt := by
  unfold advance remaining
  by_cases h : amt + b.cursor > b.items.length
  · simp [h]; omega
  · simp only [h, if_false]
    by_cases hk : b.kind != .lists <;> simp [hk] <;> omega

/-- the loop of `advance` as written in the code (`cursor += 1` first, `dealloc_lists(ptr)`, `ptr` moves by
one element) deallocates exactly the `n` values starting at `ptr`, in order, and moves the cursor by `n` -/
theorem advanceLoop_spec (b : AbiBuffer) (ptr n : Nat) (h : ptr + n ≤ b.items.length) :
    b.advanceLoop ptr n = ({ b with cursor := b.cursor + n }, ((b.items.drop ptr).take n).map (evDli b.c)) := by
  induction n generalizing b ptr with
  | zero => simp [advanceLoop]
  | succ n ih =>
    have hlt : ptr < b.items.length := by omega
    have hih := ih { b with cursor := b.cursor + 1 } (ptr + 1) (by simp only []; omega)
    simp only [advanceLoop, hih, List.getElem?_eq_getElem hlt]
    refine Prod.ext ?_ ?_
    · simp only [AbiBuffer.mk.injEq, true_and, and_true]; omega
    · have hd : List.drop ptr b.items = b.items[ptr] :: List.drop (ptr + 1) b.items := List.drop_eq_getElem_cons hlt
      simp only [List.singleton_append, hd, List.take_succ_cons, List.map_cons]

/-- **the code's `advance` (two asserts, list check, incremental loop) equals the closed form** -/
theorem advanceRust_eq_advance (b : AbiBuffer) (amt : Nat) : b.advanceRust amt = b.advance amt := by
  unfold advanceRust advance
  by_cases h1 : amt + b.cursor > b.items.length
  · simp [h1]
  · simp only [h1, if_false]
    by_cases hk : (b.kind != .lists) = true
    · simp [hk]
    · simp only [hk, Bool.false_eq_true, if_false]
      have h2 : ¬ amt > b.items.length - b.cursor := by omega
      simp only [h2, if_false]
      rw [advanceLoop_spec b b.cursor amt (by omega)]
      simp [window]

/-- `take_vec` hands back exactly the unsent values, lifts each of them once (if they were lowered),
releases the slab if there is one, and leaves an empty buffer -/
theorem takeVec_spec (b : AbiBuffer) :
    b.takeVec.1 = b.window ∧ b.takeVec.2.1.items = [] ∧ b.takeVec.2.1.cursor = 0 ∧ b.takeVec.2.1.slab = false ∧
    b.takeVec.2.2 = (if b.kind.lowers then b.window.map (evLi b.c) else []) ++ (if b.slab then [Ev.free b.c] else []) := by
  simp [takeVec]

/-- a second `take_vec` (the `Drop` after `into_vec`) does nothing -/
theorem takeVec_idem (b : AbiBuffer) : b.takeVec.2.1.takeVec.2.2 = [] ∧ b.takeVec.2.1.takeVec.1 = [] := by
  simp [takeVec, window]

/-- `into_vec` = one effective `take_vec` -/
theorem intoVec_spec (b : AbiBuffer) : b.intoVec = (b.window, b.takeVec.2.2) := by
  simp [intoVec, dropEvs, takeVec, window, valDrops]

/-- the slab is released at most once per buffer: after `take_vec` no later `take_vec`/`Drop` frees it -/
theorem slab_freed_once (b : AbiBuffer) :
    ((b.takeVec.2.2 ++ b.takeVec.2.1.dropEvs).filter (· == Ev.free b.c)).length = (if b.slab then 1 else 0) := by
  have hmem : ∀ a : Ev, a ∈ List.drop b.cursor (List.map (evLi b.c) b.items) → ¬ a = Ev.free b.c := by
    intro a ha
    have := List.mem_of_mem_drop ha
    simp only [List.mem_map] at this
    obtain ⟨x, _, rfl⟩ := this
    simp [evLi]
  by_cases hs : b.slab <;> by_cases hk : b.kind.lowers <;>
    simp [takeVec, dropEvs, valDrops, hs, hk, window] <;> exact hmem

/-- `new` lowers every value once, in order, into a slab that exists iff something was lowered -/
theorem new_spec (c : Nat) (k : PKind) (items : List Nat) :
    (new c k items).1.items = items ∧ (new c k items).1.cursor = 0 ∧ (new c k items).1.window = items ∧
    (new c k items).2 = (if k.lowers then items.map (evLo c) else []) ∧
    ((new c k items).1.slab = true ↔ (k.lowers = true ∧ items ≠ [])) := by
  unfold new
  by_cases hk : k.lowers <;> simp [hk, window]

end AbiBuffer

/-! ## `ReturnCode::decode` agrees with the specification's encoding -/

theorem decode_blocked : RetCode.decode Host.BLOCKED = some .blocked := by decide

theorem decode_pack (base k : Nat) (hb : base < 3) (hk : k ≤ 268435455) :
    RetCode.decode (Host.packCode base k) =
      some (if base = 0 then .completed k else if base = 1 then .dropped k else .cancelled k) := by
  unfold RetCode.decode Host.packCode
  have h1 : base + 16 * k ≠ 4294967295 := by omega
  have h2 : (base + 16 * k) / 16 = k := by omega
  have h3 : (base + 16 * k) % 16 = base := by omega
  simp only [Limits.blocked, h1, if_false, h2, h3, Limits.completed, Limits.dropped, Limits.cancelled]
  rcases (by omega : base = 0 ∨ base = 1 ∨ base = 2) with rfl | rfl | rfl <;> simp

/-! ## The stream `in_progress_update`s -/

/-- result of a copy for a host code `base|k` -/
def sresOf (base k : Nat) : SRes :=
  if k = 0 ∧ base = 1 then .dropped else if k = 0 ∧ base = 2 then .cancelled else .complete k

/-- **A write reports exactly the count the host transferred** (operation level): for a code
`base|k` of a conforming host (`k` ≤ what was offered), the result is `Complete(k)` — `Dropped` /
`Cancelled` only for `k = 0` — the buffer advanced by exactly `k`, nothing else of it changed, the
lists of exactly the first `k` values of the window are deallocated (in order), and the writer is
marked done exactly for DROPPED (any count, 0 included). -/
theorem streamWrite_update_spec (p : WSt) (base k : Nat) (hb : base < 3) (hk : k ≤ p.buf.remaining)
    (hk2 : k ≤ 268435455) (hc : p.buf.cursor ≤ p.buf.items.length) :
    streamWriteUpdate p (Host.packCode base k) =
      .ok (.inl (sresOf base k,
        { buf := { p.buf with cursor := p.buf.cursor + k }, wr := { p.wr with done := p.wr.done || base == 1 } }))
        (if p.buf.kind = .lists then (p.buf.window.take k).map (evDli p.buf.c) else []) := by
  have hadv := AbiBuffer.advance_spec p.buf k hk hc
  unfold streamWriteUpdate
  rw [decode_pack base k hb hk2]
  rcases (by omega : base = 0 ∨ base = 1 ∨ base = 2) with rfl | rfl | rfl
  · simp [hadv, Step.bind, sresOf]
  · cases k with
    | zero => simp [sresOf]
    | succ n => simp [hadv, Step.bind, sresOf]
  · cases k with
    | zero => simp [sresOf]
    | succ n => simp [hadv, Step.bind, sresOf]

/-- a count beyond what was offered makes the runtime panic (`assert!` in `advance`) — never for a
conforming host -/
theorem streamWrite_update_panics (p : WSt) (base k : Nat) (hb : base < 3) (hk : p.buf.remaining < k)
    (hk2 : k ≤ 268435455) :
    ∃ m evs, streamWriteUpdate p (Host.packCode base k) = .panic m evs := by
  have hpos : 0 < k := by omega
  have hadv : ∃ m, p.buf.advance k = .panic m [] := by
    unfold AbiBuffer.advance AbiBuffer.remaining at *
    have : k + p.buf.cursor > p.buf.items.length := by omega
    simp [this]
  obtain ⟨m, hm⟩ := hadv
  unfold streamWriteUpdate
  rw [decode_pack base k hb hk2]
  obtain ⟨n, rfl⟩ : ∃ n, k = n + 1 := ⟨k - 1, by omega⟩
  rcases (by omega : base = 0 ∨ base = 1 ∨ base = 2) with rfl | rfl | rfl <;> simp [hm, Step.bind]

/-- **A read reports exactly the count the host transferred** (operation level): for a code `base|k`
with `k` ≤ the spare capacity, the result is `Complete(k)` (`Dropped`/`Cancelled` only for `k = 0`),
exactly the first `k` values the host wrote are appended to the vector (each lifted once, in order, if
the payload needs lifting), the slab is released, and the reader is marked done exactly for DROPPED
(any count, 0 included). -/
theorem streamRead_update_spec (p : RSt) (base k : Nat) (hb : base < 3) (hk : k ≤ p.spare) (hk2 : k ≤ 268435455) :
    streamReadUpdate p (Host.packCode base k) =
      .ok (.inl (sresOf base k,
        { p with buf := p.buf ++ p.mem.take k, spare := p.spare - k, slab := false, mem := [],
                 rd := { p.rd with done := p.rd.done || base == 1 } }))
        ((if p.kind.lowers then (p.mem.take k).map (evLi p.c) else []) ++ p.freeSlab) := by
  unfold streamReadUpdate
  rw [decode_pack base k hb hk2]
  have hns : ¬ k > p.spare := by omega
  rcases (by omega : base = 0 ∨ base = 1 ∨ base = 2) with rfl | rfl | rfl
  · simp [hns, sresOf]
  · cases k with
    | zero => simp [sresOf]
    | succ n => simp [hns, sresOf]
  · cases k with
    | zero => simp [sresOf]
    | succ n => simp [hns, sresOf]

end Witverif.Async
