import Witverif.Abi.RustLedger
/-! Generic projection lemma for phases over buffer trees (C06): the history of the block
`⟨tag, path⟩` in a phase is the local events of the node at that path, nothing else. -/
namespace Witverif.Abi.RustLedger

theorem proj_append (i : Id) : ∀ (a b : List Ev), proj i (a ++ b) = proj i a ++ proj i b
  | [], b => rfl
  | .alloc j :: a, b => by
      simp only [List.cons_append, proj]; split <;> simp [proj_append i a b]
  | .free j :: a, b => by
      simp only [List.cons_append, proj]; split <;> simp [proj_append i a b]

/-- the events with tag `g` of a local event list -/
def localProj (g : Tag) : List (Bool × Tag) → List Bool
  | [] => []
  | (a, g') :: l => if g' = g then a :: localProj g l else localProj g l

theorem proj_evs_same (g : Tag) (π : List Nat) : ∀ l, proj ⟨g, π⟩ (evs π l) = localProj g l
  | [] => rfl
  | (a, g') :: l => by
      have ih := proj_evs_same g π l
      simp only [evs, List.map_cons] at ih ⊢
      cases a <;> simp only [proj, localProj, ↓reduceIte, Bool.false_eq_true] <;>
        by_cases h : g' = g <;> simp [h, ih, Id.mk.injEq]

theorem proj_evs_other (g : Tag) (π ρ : List Nat) (h : ρ ≠ π) : ∀ l, proj ⟨g, ρ⟩ (evs π l) = []
  | [] => rfl
  | (a, g') :: l => by
      have ih := proj_evs_other g π ρ h l
      simp only [evs, List.map_cons] at ih ⊢
      have hne : ¬ (Id.mk g' π = Id.mk g ρ) := by
        intro e; exact h (by injection e with _ h2; exact h2.symm)
      cases a <;> simp [proj, hne, ih]

mutual
/-- node data at a relative path -/
def nodeAt (uf : Bool) : Tree → List Nat → Option Info
  | .node k b s _, [] => some ⟨k, b, s, uf⟩
  | .node k _ _ kids, i :: rel => kidAt (uf || k == .flist) kids i rel
def kidAt (uf : Bool) : List Tree → Nat → List Nat → Option Info
  | [], _, _ => none
  | t :: _, 0, rel => nodeAt uf t rel
  | _ :: ts, i + 1, rel => kidAt uf ts i rel
end

/-- history contributed by a node with data `n` under table `f` to its own block with tag `g` -/
def nodeHist (f : Table) (g : Tag) (n : Option Info) : List Bool :=
  match n with
  | some n => localProj g (f n).pre ++ localProj g (f n).post
  | none => []

mutual
/-- a phase rooted at `π` never mentions a block whose path does not extend `π` -/
theorem proj_outside (f : Table) (g : Tag) (ρ : List Nat) : ∀ (t : Tree) (uf : Bool) (π : List Nat),
    (∀ rel, ρ ≠ π ++ rel) → proj ⟨g, ρ⟩ (phase f uf π t) = []
  | .node k b s kids, uf, π, h => by
      have hne : ρ ≠ π := by simpa using h []
      simp only [phase, proj_append, proj_evs_other g π ρ hne, List.nil_append, List.append_nil]
      exact proj_outside_kids f g ρ kids _ π 0 h
theorem proj_outside_kids (f : Table) (g : Tag) (ρ : List Nat) : ∀ (ts : List Tree) (uf : Bool) (π : List Nat) (i : Nat),
    (∀ rel, ρ ≠ π ++ rel) → proj ⟨g, ρ⟩ (phaseKids f uf π i ts) = []
  | [], _, _, _, _ => rfl
  | t :: ts, uf, π, i, h => by
      simp only [phaseKids, proj_append]
      rw [proj_outside f g ρ t uf (π ++ [i]) (fun rel => by simpa [List.append_assoc] using h (i :: rel)),
        proj_outside_kids f g ρ ts uf π (i + 1) h]
      rfl
end

mutual
/-- **Projection lemma.** In a phase rooted at `π`, the history of the block `⟨g, π ++ rel⟩` is
exactly what the node at `rel` emits for its own tag `g`. -/
theorem proj_phase (f : Table) (g : Tag) : ∀ (t : Tree) (uf : Bool) (π rel : List Nat),
    proj ⟨g, π ++ rel⟩ (phase f uf π t) = nodeHist f g (nodeAt uf t rel)
  | .node k b s kids, uf, π, [] => by
      have hk : proj ⟨g, π⟩ (phaseKids f (uf || k == .flist) π 0 kids) = [] := by
        have := proj_kids_own f g kids (uf || k == .flist) π 0
        simpa using this
      simp [phase, proj_append, proj_evs_same, hk, nodeAt, nodeHist]
  | .node k b s kids, uf, π, i :: rel => by
      have hne : π ++ i :: rel ≠ π := by
        intro e
        have := congrArg List.length e
        simp at this
      simp only [phase, proj_append, proj_evs_other g π _ hne, List.nil_append, List.append_nil, nodeAt]
      have := proj_kids f g kids (uf || k == .flist) π 0 i rel
      simpa using this
/-- the children of a node never mention the node's own blocks -/
theorem proj_kids_own (f : Table) (g : Tag) : ∀ (ts : List Tree) (uf : Bool) (π : List Nat) (i0 : Nat),
    proj ⟨g, π⟩ (phaseKids f uf π i0 ts) = []
  | [], _, _, _ => rfl
  | t :: ts, uf, π, i0 => by
      simp only [phaseKids, proj_append]
      rw [proj_outside f g π t uf (π ++ [i0]) (fun rel e => by
            have := congrArg List.length e
            simp at this),
          proj_kids_own f g ts uf π (i0 + 1)]
      rfl
/-- children are numbered from `i0`: child `i0 + j` answers for paths `π ++ (i0 + j) :: rel` -/
theorem proj_kids (f : Table) (g : Tag) : ∀ (ts : List Tree) (uf : Bool) (π : List Nat) (i0 i : Nat) (rel : List Nat),
    proj ⟨g, π ++ (i0 + i) :: rel⟩ (phaseKids f uf π i0 ts) = nodeHist f g (kidAt uf ts i rel)
  | [], _, _, _, _, _ => by simp [phaseKids, proj, kidAt, nodeHist]
  | t :: ts, uf, π, i0, 0, rel => by
      simp only [phaseKids, proj_append, Nat.add_zero, kidAt]
      have h1 := proj_phase f g t uf (π ++ [i0]) rel
      simp only [List.append_assoc, List.singleton_append] at h1
      rw [h1]
      have h2 : proj ⟨g, π ++ i0 :: rel⟩ (phaseKids f uf π (i0 + 1) ts) = [] := by
        apply proj_outside_kids_from f g ts uf π (i0 + 1) i0 rel (by omega)
      rw [h2]; simp
  | t :: ts, uf, π, i0, i + 1, rel => by
      simp only [phaseKids, proj_append, kidAt]
      have h1 : proj ⟨g, π ++ (i0 + (i + 1)) :: rel⟩ (phase f uf (π ++ [i0]) t) = [] := by
        apply proj_outside
        intro r e
        simp only [List.append_assoc, List.singleton_append] at e
        have := List.append_cancel_left e
        injection this with h _
        omega
      rw [h1]
      have h2 := proj_kids f g ts uf π (i0 + 1) i rel
      have e : i0 + 1 + i = i0 + (i + 1) := by omega
      rw [e] at h2
      simpa using h2
/-- children numbered from `i0` never mention a path through a smaller index -/
theorem proj_outside_kids_from (f : Table) (g : Tag) : ∀ (ts : List Tree) (uf : Bool) (π : List Nat) (i0 j : Nat)
    (rel : List Nat), j < i0 → proj ⟨g, π ++ j :: rel⟩ (phaseKids f uf π i0 ts) = []
  | [], _, _, _, _, _, _ => rfl
  | t :: ts, uf, π, i0, j, rel, h => by
      simp only [phaseKids, proj_append]
      have h1 : proj ⟨g, π ++ j :: rel⟩ (phase f uf (π ++ [i0]) t) = [] := by
        apply proj_outside
        intro r e
        simp only [List.append_assoc, List.singleton_append] at e
        have := List.append_cancel_left e
        injection this with h' _
        omega
      rw [h1, proj_outside_kids_from f g ts uf π (i0 + 1) j rel (by omega)]
      rfl
end

/-! ### types without buffers below fixed-length lists have clean buffer trees -/

theorem kp : (Kind.plain == Kind.flist) = false := by decide
theorem karm : (Kind.arm == Kind.flist) = false := by decide
theorem ke : (Kind.elems == Kind.flist) = false := by decide
theorem kez : (Kind.elemsZ == Kind.flist) = false := by decide
theorem km : (Kind.map == Kind.flist) = false := by decide
theorem kf : (Kind.flist == Kind.flist) = true := by decide

theorem cleanAllOpt_get (uf : Bool) : ∀ (cs : List (Option Ty)) (i : Nat) (c : Option Ty),
    cleanAllOpt uf cs = true → cs[i]? = some c → cleanOpt uf c = true
  | [], i, c, _, h => by simp at h
  | d :: ds, 0, c, hc, h => by simp at h; subst h; simp [cleanAllOpt] at hc; exact hc.1
  | d :: ds, i + 1, c, hc, h => by
      simp [cleanAllOpt] at hc
      exact cleanAllOpt_get uf ds i c hc.2 (by simpa using h)

mutual
theorem shape_clean : ∀ (v : Val) (t : Ty) (uf : Bool), cleanTy uf t = true → dirty uf (shape t v) = false
  | .str bs, t, uf, h => by
      cases t with
      | string => simp [cleanTy] at h; simp [shape, dirty, dirtyKids, h]
      | _ => simp [shape, dirty, dirtyKids, isBufKind]
  | .list vs, t, uf, h => by
      cases t with
      | list e =>
        simp [cleanTy] at h
        obtain ⟨huf, he⟩ := h
        subst huf
        simp only [shape]
        split
        · simp [dirty, dirtyKids]
        · simp only [dirty, Bool.false_and, Bool.false_or]
          split <;> simpa [isBufKind, kp, karm, ke, kez, km, kf] using shapeAll_clean vs e false he
      | flist e n =>
        simp [cleanTy] at h
        simp only [shape, dirty]
        simpa [isBufKind, kp, karm, ke, kez, km, kf] using shapeAll_clean vs e true h
      | map k v' =>
        simp [cleanTy] at h
        obtain ⟨⟨huf, hk⟩, hv⟩ := h
        subst huf
        simp only [shape, dirty, Bool.false_and, Bool.false_or]
        simpa [isBufKind, kp, karm, ke, kez, km, kf] using shapeEntries_clean vs k v' false hk hv
      | _ => simp [shape, dirty, dirtyKids, isBufKind]
  | .record vs, t, uf, h => by
      cases t with
      | record fs =>
        simp [cleanTy] at h
        simp only [shape, dirty]
        simpa [isBufKind, kp, karm, ke, kez, km, kf] using shapeFields_clean vs fs uf h
      | tuple fs =>
        simp [cleanTy] at h
        simp only [shape, dirty]
        simpa [isBufKind, kp, karm, ke, kez, km, kf] using shapeFields_clean vs fs uf h
      | _ => simp [shape, dirty, dirtyKids, isBufKind]
  | .variant i pv, t, uf, h => by
      cases t with
      | variant cs =>
        simp [cleanTy] at h
        simp only [shape, dirty]
        cases hc : cs[i]? with
        | none => simp [dirtyKids, isBufKind]
        | some c => simpa [isBufKind, kp, karm, ke, kez, km, kf] using shapeOpt_clean pv c uf (cleanAllOpt_get uf cs i c h hc)
      | option t' =>
        cases pv with
        | none => simp [shape, dirty, dirtyKids, isBufKind]
        | some v =>
          simp [cleanTy] at h
          simp only [shape, dirty, dirtyKids]
          simpa [isBufKind, kp, karm, ke, kez, km, kf] using shape_clean v t' uf h
      | result a b =>
        simp [cleanTy] at h
        cases i with
        | zero =>
          simp only [shape, dirty]
          simpa [isBufKind, kp, karm, ke, kez, km, kf] using shapeOpt_clean pv a uf h.1
        | succ i =>
          simp only [shape, dirty]
          simpa [isBufKind, kp, karm, ke, kez, km, kf] using shapeOpt_clean pv b uf h.2
      | _ => simp [shape, dirty, dirtyKids, isBufKind]
  | .bool _, t, uf, _ => by cases t <;> simp [shape, dirty, dirtyKids, isBufKind]
  | .int _, t, uf, _ => by cases t <;> simp [shape, dirty, dirtyKids, isBufKind]
  | .f32 _, t, uf, _ => by cases t <;> simp [shape, dirty, dirtyKids, isBufKind]
  | .f64 _, t, uf, _ => by cases t <;> simp [shape, dirty, dirtyKids, isBufKind]
  | .char _, t, uf, _ => by cases t <;> simp [shape, dirty, dirtyKids, isBufKind]
  | .flags _, t, uf, _ => by cases t <;> simp [shape, dirty, dirtyKids, isBufKind]
  | .enum _, t, uf, _ => by cases t <;> simp [shape, dirty, dirtyKids, isBufKind]
  | .handle _, t, uf, _ => by cases t <;> simp [shape, dirty, dirtyKids, isBufKind]
theorem shapeAll_clean : ∀ (vs : List Val) (t : Ty) (uf : Bool), cleanTy uf t = true → dirtyKids uf (shapeAll t vs) = false
  | [], _, _, _ => by simp [shapeAll, dirtyKids]
  | v :: vs, t, uf, h => by
      simp [shapeAll, dirtyKids, shape_clean v t uf h, shapeAll_clean vs t uf h]
theorem shapeEntries_clean : ∀ (vs : List Val) (k v : Ty) (uf : Bool), cleanTy uf k = true → cleanTy uf v = true →
    dirtyKids uf (shapeEntries k v vs) = false
  | [], _, _, _, _, _ => by simp [shapeEntries, dirtyKids]
  | .record [x, y] :: vs, k, v, uf, hk, hv => by
      simp [shapeEntries, dirtyKids, shape_clean x k uf hk, shape_clean y v uf hv, shapeEntries_clean vs k v uf hk hv]
  | .record [] :: _, _, _, _, _, _ | .record [_] :: _, _, _, _, _, _ | .record (_ :: _ :: _ :: _) :: _, _, _, _, _, _
  | .bool _ :: _, _, _, _, _, _ | .int _ :: _, _, _, _, _, _ | .f32 _ :: _, _, _, _, _, _ | .f64 _ :: _, _, _, _, _, _
  | .char _ :: _, _, _, _, _, _ | .str _ :: _, _, _, _, _, _ | .list _ :: _, _, _, _, _, _ | .flags _ :: _, _, _, _, _, _
  | .variant _ _ :: _, _, _, _, _, _ | .enum _ :: _, _, _, _, _, _ | .handle _ :: _, _, _, _, _, _ => by
      simp [shapeEntries, dirtyKids]
theorem shapeFields_clean : ∀ (vs : List Val) (ts : List Ty) (uf : Bool), cleanAll uf ts = true →
    dirtyKids uf (shapeFields ts vs) = false
  | [], ts, _, _ => by cases ts <;> simp [shapeFields, dirtyKids]
  | v :: vs, [], _, _ => by simp [shapeFields, dirtyKids]
  | v :: vs, t :: ts, uf, h => by
      simp [cleanAll] at h
      simp [shapeFields, dirtyKids, shape_clean v t uf h.1, shapeFields_clean vs ts uf h.2]
theorem shapeOpt_clean : ∀ (pv : Option Val) (o : Option Ty) (uf : Bool), cleanOpt uf o = true →
    dirtyKids uf (shapeOpt o pv) = false
  | none, o, _, _ => by cases o <;> simp [shapeOpt, dirtyKids]
  | some v, none, _, _ => by simp [shapeOpt, dirtyKids]
  | some v, some t, uf, h => by
      simp [cleanOpt] at h
      simp [shapeOpt, dirtyKids, shape_clean v t uf h]
end

end Witverif.Abi.RustLedger
