import Witverif.Proofs.AbiClean2
import Witverif.Proofs.AbiLift3
/-! C03, cleanup on flat operands (direct mode): building blocks. -/
namespace Witverif.Abi
open Spec

/-- `xs` denote the core values `cs` whatever has been executed and however deep we are -/
def FlatStable (env : Env) (m : Mem) (xs : List Expr) (cs : List CVal) : Prop :=
  ∀ fs ls, evalList ((env.extend fs).withLets ls) m xs = some (cs.map MV.c)

theorem FlatStable.here {env : Env} {m : Mem} {xs : List Expr} {cs : List CVal} (h : FlatStable env m xs cs) :
    evalList env m xs = some (cs.map MV.c) := by
  simpa [extend_nil, withLets_self] using h [] env.lets

theorem FlatStable.withLets {env : Env} {m : Mem} {xs : List Expr} {cs : List CVal} (h : FlatStable env m xs cs)
    (ls : List (String × List MV)) : FlatStable (env.withLets ls) m xs cs := fun fs ls' => h fs ls'

theorem FlatStable.extend {env : Env} {m : Mem} {xs : List Expr} {cs : List CVal} (h : FlatStable env m xs cs)
    (gs : List Frame) : FlatStable (env.extend gs) m xs cs := by
  intro fs ls
  have := h (gs ++ fs) ls
  simpa [Env.extend, List.append_assoc] using this

theorem FlatStable.take {env : Env} {m : Mem} {xs : List Expr} {cs : List CVal} (h : FlatStable env m xs cs) (n : Nat) :
    FlatStable env m (xs.take n) (cs.take n) := by
  intro fs ls; simpa [List.map_take] using evalList_take _ m xs _ n (h fs ls)

theorem FlatStable.drop {env : Env} {m : Mem} {xs : List Expr} {cs : List CVal} (h : FlatStable env m xs cs) (n : Nat) :
    FlatStable env m (xs.drop n) (cs.drop n) := by
  intro fs ls; simpa [List.map_drop] using evalList_drop _ m xs _ n (h fs ls)

theorem FlatStable.length {env : Env} {m : Mem} {xs : List Expr} {cs : List CVal} (h : FlatStable env m xs cs) :
    xs.length = cs.length := by
  have h0 := h.here
  clear h
  induction xs generalizing cs with
  | nil => simp at h0; cases cs <;> simp_all
  | cons x xs ih =>
    simp only [evalList_cons] at h0
    cases hx : eval env m x with
    | none => simp [hx] at h0
    | some xv =>
      cases hxs : evalList env m xs with
      | none => simp [hx, hxs] at h0
      | some xvs =>
        simp [hx, hxs] at h0
        cases cs with
        | nil => simp at h0
        | cons c cs =>
          simp at h0
          have := ih (cs := cs) (by rw [hxs, h0.2])
          simp [this]

theorem FlatStable.head {env : Env} {m : Mem} {xs : List Expr} {c : CVal} {cs : List CVal}
    (h : FlatStable env m xs (c :: cs)) : eval env m (hd xs) = some (.c c) := by
  have := h.here
  cases xs with
  | nil => simp at this
  | cons x xs =>
    simp only [evalList_cons] at this
    cases hx : eval env m x with
    | none => simp [hx] at this
    | some xv =>
      cases hxs : evalList env m xs with
      | none => simp [hx, hxs] at this
      | some xvs => simp [hx, hxs] at this; simp [hd, hx, this.1]

/-- statements on flat operands release exactly `eff` -/
def CleansF (p lvl : Nat) (tys : List FT) (xs : List Expr) (ds : List Stmt) (eff : Mem → List CVal → Eff)
    (valid : Mem → List CVal → Bool) : Prop :=
  ∀ (env : Env) (s : MSt) (cs : List CVal), env.p = p → env.frames.length = lvl + 1 →
    WfFlat cs tys → FlatStable env s.st.mem xs cs → valid s.st.mem cs = true →
    ∃ ls, execStmts env s ds = some (env.withLets ls, s.release (eff s.st.mem cs))

theorem cleansF_of_empty {p lvl : Nat} {tys : List FT} {xs : List Expr} {e : Mem → List CVal → Eff}
    {v : Mem → List CVal → Bool} (he : ∀ m cs, e m cs = ([], [])) : CleansF p lvl tys xs [] e v := by
  intro env s cs _ _ _ _ _
  exact ⟨env.lets, by simp [execStmts, withLets_self, he]⟩

theorem cleansF_congr {p lvl : Nat} {tys : List FT} {xs : List Expr} {ds : List Stmt} {e e' : Mem → List CVal → Eff}
    {v v' : Mem → List CVal → Bool} (h : CleansF p lvl tys xs ds e v)
    (he : ∀ m cs, WfFlat cs tys → e m cs = e' m cs) (hv : ∀ m cs, WfFlat cs tys → v' m cs = true → v m cs = true) :
    CleansF p lvl tys xs ds e' v' := by
  intro env s cs hp hl hwf hst hvv
  have ⟨ls, x⟩ := h env s cs hp hl hwf hst (hv _ _ hwf hvv)
  exact ⟨ls, by rw [x, he _ _ hwf]⟩

theorem two_of_wf {cs : List CVal} {t1 t2 : FT} (h : WfFlat cs [t1, t2]) :
    ∃ a n, cs = [a, n] ∧ a.ty = t1 ∧ n.ty = t2 := by
  have := h.1
  rcases cs with _ | ⟨a, _ | ⟨n, _ | ⟨z, r⟩⟩⟩ <;> simp at this
  exact ⟨a, n, rfl, this.1, this.2⟩

/-- `GuestDeallocateString` on operands -/
theorem cleansF_string (p : Nat) (lvl : Nat) (xs : List Expr) :
    CleansF p lvl [ptrFT p, ptrFT p] xs [.eff .deallocString xs []]
      (fun _ cs => match cs with | [a, n] => ([(a.bits, n.bits, 1)], []) | _ => ([], [])) (fun _ _ => true) := by
  intro env s cs hpe _ hwf hst _
  obtain ⟨a, n, rfl, _, _⟩ := two_of_wf hwf
  refine ⟨(keyOf .deallocString xs, []) :: env.lets, ?_⟩
  simp [execStmts, exec, hst.here, execOp, Env.bind, Env.withLets, MSt.release]

/-- `GuestDeallocateList` on operands, the element block cleaning through memory -/
theorem cleansF_list (p : Nat) (lvl : Nat) (xs : List Expr) (e : Ty) (body : List Stmt)
    (be : Mem → Nat → Eff) (bv : Mem → Nat → Bool)
    (hbody : Cleans p (lvl + 1) (.base (lvl + 1)) body be bv) :
    CleansF p lvl [ptrFT p, ptrFT p] xs [.eff (.deallocList e) xs [(body, [])]]
      (fun m cs => match cs with
        | [a, n] => (((List.range n.bits).flatMap fun i => (be m (a.bits + i * elemSize p e)).1)
              ++ [(a.bits, n.bits * elemSize p e, alignment p e)],
            (List.range n.bits).flatMap fun i => (be m (a.bits + i * elemSize p e)).2)
        | _ => ([], []))
      (fun m cs => match cs with | [a, n] => allMany (bv m) (elemSize p e) a.bits n.bits | _ => true) := by
  intro env s cs hpe hl hwf hst hv
  subst hpe
  obtain ⟨a, n, rfl, _, _⟩ := two_of_wf hwf
  simp only at hv
  refine ⟨(keyOf (.deallocList e) xs, []) :: env.lets, ?_⟩
  simp only [execStmts, exec, hst.here, List.map_cons, List.map_nil, Option.bind_some, execOp]
  have hiter := foldRange_release n.bits
    (fun i s' => (execBlockAt env s' [(body, [])] 0 { base := some (a.bits + i * elemSize env.p e) }).map (·.2))
    (fun i => be s.st.mem (a.bits + i * elemSize env.p e)) s
    (by
      intro i s' hi hs'
      have hvi : bv s'.st.mem (a.bits + i * elemSize env.p e) = true := by
        rw [hs']; exact allMany_get _ _ _ _ hv i hi
      have ⟨ls, he⟩ := hbody (env.extend [{ base := some (a.bits + i * elemSize env.p e) }]) s' _
        rfl (by simp [Env.extend, hl]) (stable_base env s'.st.mem lvl hl _ _ rfl) hvi
      simp only [execBlockAt, enter_length_eq, he, Option.bind_some, evalList_nil, Option.map_some, hs'])
  rw [hiter]
  simp [Env.bind, Env.withLets, MSt.release, List.reverse_append]

theorem cleansF_map (p : Nat) (lvl : Nat) (xs : List Expr) (k v : Ty) (body : List Stmt)
    (be : Mem → Nat → Eff) (bv : Mem → Nat → Bool)
    (hbody : Cleans p (lvl + 1) (.base (lvl + 1)) body be bv) :
    CleansF p lvl [ptrFT p, ptrFT p] xs [.eff (.deallocMap k v) xs [(body, [])]]
      (fun m cs => match cs with
        | [a, n] => (((List.range n.bits).flatMap fun i => (be m (a.bits + i * elemSize p (.tuple [k, v]))).1)
              ++ [(a.bits, n.bits * elemSize p (.tuple [k, v]), alignment p (.tuple [k, v]))],
            (List.range n.bits).flatMap fun i => (be m (a.bits + i * elemSize p (.tuple [k, v]))).2)
        | _ => ([], []))
      (fun m cs => match cs with | [a, n] => allMany (bv m) (elemSize p (.tuple [k, v])) a.bits n.bits | _ => true) := by
  intro env s cs hpe hl hwf hst hv
  subst hpe
  obtain ⟨a, n, rfl, _, _⟩ := two_of_wf hwf
  simp only at hv
  refine ⟨(keyOf (.deallocMap k v) xs, []) :: env.lets, ?_⟩
  simp only [execStmts, exec, hst.here, List.map_cons, List.map_nil, Option.bind_some, execOp]
  have hiter := foldRange_release n.bits
    (fun i s' => (execBlockAt env s' [(body, [])] 0 { base := some (a.bits + i * elemSize env.p (.tuple [k, v])) }).map (·.2))
    (fun i => be s.st.mem (a.bits + i * elemSize env.p (.tuple [k, v]))) s
    (by
      intro i s' hi hs'
      have hvi : bv s'.st.mem (a.bits + i * elemSize env.p (.tuple [k, v])) = true := by
        rw [hs']; exact allMany_get _ _ _ _ hv i hi
      have ⟨ls, he⟩ := hbody (env.extend [{ base := some (a.bits + i * elemSize env.p (.tuple [k, v])) }]) s' _
        rfl (by simp [Env.extend, hl]) (stable_base env s'.st.mem lvl hl _ _ rfl) hvi
      simp only [execBlockAt, enter_length_eq, he, Option.bind_some, evalList_nil, Option.map_some, hs'])
  rw [hiter]
  simp [Env.bind, Env.withLets, MSt.release, List.reverse_append]

/-- dropping the handle given as operand -/
theorem cleansF_drop (p lvl : Nat) (xs : List Expr) (t : Ty)
    (ht : t = .own ∨ (∃ q, t = .future q) ∨ (∃ q, t = .stream q)) :
    CleansF p lvl [.i32] xs (dropOf t (liftHandle t xs))
      (fun _ cs => match cs with | [h] => ([], [h.bits % 2 ^ 32]) | _ => ([], [])) (fun _ _ => true) := by
  intro env s cs hpe _ hwf hst _
  obtain ⟨h, rfl, _, _⟩ := single_of_wf hwf
  have hx := hst.here
  have hev : eval env s.st.mem (liftHandle t xs) = some (.v (.handle (h.bits % 2 ^ 32))) := by
    rcases ht with rfl | ⟨q, rfl⟩ | ⟨q, rfl⟩ <;> simp [liftHandle, pure1, eval, hx, opSem, pureSem]
  refine ⟨(keyOf (.dropHandle t) [liftHandle t xs], []) :: env.lets, ?_⟩
  simp [dropOf, execStmts, exec, hev, execOp, Env.bind, Env.withLets, MSt.release]

end Witverif.Abi
