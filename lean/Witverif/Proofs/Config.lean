import Witverif.Text.Config
/-! Helper lemmas for C34 (test-configuration reader). -/
namespace Witverif.Text.ConfigSpec
open Witverif.Text Witverif.Text.Config
open Witverif.Text.RustStr (isWhite)

/-! ### marker lines -/

theorem bodyOf_eq_some_iff (m l b : List Char) : bodyOf m l = some b ↔ l = m ++ b := by
  induction m generalizing l with
  | nil => simp [bodyOf, eq_comm]
  | cons a m ih =>
    cases l with
    | nil => simp [bodyOf]
    | cons c cs =>
      simp only [bodyOf]
      split
      · rename_i h; subst h; simp [ih]
      · rename_i h; simp; intro h'; exact absurd h'.symm h

theorem bodyOf_append (m b : List Char) : bodyOf m (m ++ b) = some b :=
  (bodyOf_eq_some_iff m (m ++ b) b).mpr rfl

theorem startsWith_eq_bodyOf_isSome (m l : List Char) :
    RustStr.startsWith l m = (bodyOf m l).isSome := by
  unfold RustStr.startsWith
  induction m generalizing l with
  | nil => simp [bodyOf]
  | cons a m ih =>
    cases l with
    | nil => simp [bodyOf]
    | cons c cs =>
      simp only [List.isPrefixOf, bodyOf]
      by_cases h : a = c
      · simp [h, ih]
      · simp [h]

theorem drop_of_bodyOf {m l b : List Char} (h : bodyOf m l = some b) : l.drop m.length = b := by
  rw [(bodyOf_eq_some_iff m l b).mp h]; simp

/-- `take_while(starts_with).map(slice)` is the one-pass reading `leadingBodies`. -/
theorem takeWhile_map_eq_leadingBodies (m : List Char) (ls : List (List Char)) :
    (ls.takeWhile (fun l => RustStr.startsWith l m)).map (fun l => l.drop m.length) =
      leadingBodies m ls := by
  induction ls with
  | nil => simp [leadingBodies]
  | cons l ls ih =>
    simp only [List.takeWhile_cons, leadingBodies, startsWith_eq_bodyOf_isSome]
    cases h : bodyOf m l with
    | none => simp
    | some b => simp [drop_of_bodyOf h]; simpa [startsWith_eq_bodyOf_isSome] using ih

theorem join_nl_eq_unlines (bs : List (List Char)) : RustStr2.join ['\n'] bs = unlines bs := by
  induction bs with
  | nil => simp [RustStr2.join, unlines]
  | cons b bs ih =>
    cases bs with
    | nil => simp [RustStr2.join, unlines]
    | cons c cs =>
      simp only [RustStr2.join, ih, unlines, List.flatMap_cons]
      simp

theorem configText_eq (c m : List Char) :
    configText c m = unlines (leadingBodies m (RustStr.lines c)) := by
  unfold configText configLines
  rw [takeWhile_map_eq_leadingBodies, join_nl_eq_unlines]

/-- The leading block splits the list of lines. -/
theorem leading_decomp (m : List Char) (ls : List (List Char)) :
    ∃ rest, ls = (leadingBodies m ls).map (fun b => m ++ b) ++ rest ∧
      (∀ l, rest.head? = some l → bodyOf m l = none) := by
  induction ls with
  | nil => exact ⟨[], by simp [leadingBodies]⟩
  | cons l ls ih =>
    simp only [leadingBodies]
    cases h : bodyOf m l with
    | none => exact ⟨l :: ls, by simp [h]⟩
    | some b =>
      obtain ⟨rest, h1, h2⟩ := ih
      refine ⟨rest, ?_, h2⟩
      simp only [List.map_cons, List.cons_append]
      rw [← h1, (bodyOf_eq_some_iff m l b).mp h]

/-- … and only one split has these properties. -/
theorem leading_unique (m : List Char) (bs : List (List Char)) (rest : List (List Char))
    (hrest : ∀ l, rest.head? = some l → bodyOf m l = none) :
    leadingBodies m (bs.map (fun b => m ++ b) ++ rest) = bs := by
  induction bs with
  | nil =>
    cases rest with
    | nil => simp [leadingBodies]
    | cons l r => simp [leadingBodies, hrest l rfl]
  | cons b bs ih => simp [leadingBodies, bodyOf_append, ih]

/-- Lines after the first non-marker line are never looked at. -/
theorem leadingBodies_append_of_stop (m : List Char) (ls xs : List (List Char))
    (h : ls.any (fun l => (bodyOf m l).isNone) = true) :
    leadingBodies m (ls ++ xs) = leadingBodies m ls := by
  induction ls with
  | nil => simp at h
  | cons l ls ih =>
    simp only [List.cons_append, leadingBodies]
    cases hb : bodyOf m l with
    | none => rfl
    | some b =>
      simp only [List.any_cons, hb, Option.isNone_some, Bool.false_or] at h
      simp [ih h]

/-! ### `str::lines` and concatenation at a newline -/

theorem splitNl_cons_ne_nil (c : Char) (cs : List Char) : RustStr.splitNl (c :: cs) ≠ [] := by
  simp only [RustStr.splitNl]
  split
  · simp
  · split <;> simp

theorem splitNl_append_nl (x t : List Char) :
    RustStr.splitNl (x ++ '\n' :: t) = RustStr.splitNl (x ++ ['\n']) ++ RustStr.splitNl t := by
  induction x with
  | nil => simp [RustStr.splitNl]
  | cons c x ih =>
    simp only [List.cons_append, RustStr.splitNl]
    split
    · simp [ih]
    · rw [ih]
      have hne : RustStr.splitNl (x ++ ['\n']) ≠ [] := by
        cases x with
        | nil => simp [RustStr.splitNl]
        | cons a x => exact splitNl_cons_ne_nil a _
      cases hx : RustStr.splitNl (x ++ ['\n']) with
      | nil => exact absurd hx hne
      | cons p ps => obtain ⟨l, tm⟩ := p; simp

theorem lines_append_nl (x t : List Char) :
    RustStr.lines (x ++ '\n' :: t) = RustStr.lines (x ++ ['\n']) ++ RustStr.lines t := by
  unfold RustStr.lines
  rw [splitNl_append_nl, List.map_append]

/-! ### words -/

theorem isWordsOf_white_cons (c : Char) (cs : List Char) (ws : List (List Char))
    (hc : isWhite c = true) : isWordsOf (c :: cs) ws = isWordsOf cs ws := by
  cases ws with
  | nil => simp [isWordsOf, hc]
  | cons w ws => simp [isWordsOf, hc]

theorem sw_white (c : Char) (cs : List Char) (hc : isWhite c = true) :
    RustStr2.splitWhitespace (c :: cs) = RustStr2.splitWhitespace cs := by
  cases cs <;> simp [RustStr2.splitWhitespace, hc]

theorem sw_last (c : Char) (hc : isWhite c = false) : RustStr2.splitWhitespace [c] = [[c]] := by
  simp [RustStr2.splitWhitespace, hc]

theorem sw_close (c d : Char) (ds : List Char) (hc : isWhite c = false) (hd : isWhite d = true) :
    RustStr2.splitWhitespace (c :: d :: ds) = [c] :: RustStr2.splitWhitespace (d :: ds) := by
  rw [RustStr2.splitWhitespace]; simp [hc, hd]

theorem sw_cont (c d : Char) (ds : List Char) (hc : isWhite c = false) (hd : isWhite d = false) :
    RustStr2.splitWhitespace (c :: d :: ds) =
      RustStr2.consWord c (RustStr2.splitWhitespace (d :: ds)) := by
  rw [RustStr2.splitWhitespace]; simp [hc, hd]

theorem splitWhitespace_isWordsOf (s : List Char) :
    isWordsOf s (RustStr2.splitWhitespace s) = true := by
  induction s with
  | nil => simp [RustStr2.splitWhitespace, isWordsOf]
  | cons c cs ih =>
    cases hc : isWhite c with
    | true => rw [sw_white c cs hc, isWordsOf_white_cons c cs _ hc]; exact ih
    | false =>
      cases cs with
      | nil => rw [sw_last c hc]; simp [isWordsOf, hc]
      | cons d ds =>
        cases hd : isWhite d with
        | true =>
          rw [sw_close c d ds hc hd]
          simp [isWordsOf, hc, hd]
          exact ih
        | false =>
          rw [sw_cont c d ds hc hd]
          cases hw : RustStr2.splitWhitespace (d :: ds) with
          | nil =>
            rw [hw] at ih
            simp [isWordsOf, hd] at ih
          | cons w ws =>
            rw [hw] at ih
            simp only [isWordsOf, List.dropWhile_cons, hd] at ih
            simp only [RustStr2.consWord, isWordsOf, List.dropWhile_cons, hc]
            simp at ih ⊢
            obtain ⟨⟨⟨⟨h1, h2⟩, h3⟩, h4⟩, h5⟩ := ih
            exact ⟨⟨⟨⟨hc, h2⟩, h3⟩, h4⟩, h5⟩

theorem dropWhile_nil_of_all (p : Char → Bool) (l : List Char) (h : l.all p = true) :
    l.dropWhile p = [] := by
  induction l with
  | nil => rfl
  | cons a l ih =>
    simp only [List.all_cons, Bool.and_eq_true] at h
    simp [List.dropWhile_cons, h.1, ih h.2]

/-- a word candidate at the front of `s` is the maximal white-free prefix -/
theorem word_eq_takeWhile (w s : List Char) (hp : w.isPrefixOf s = true)
    (hnw : w.all (fun c => !isWhite c) = true)
    (hb : (match s.drop w.length with | [] => true | c :: _ => isWhite c) = true) :
    w = s.takeWhile (fun c => !isWhite c) := by
  induction w generalizing s with
  | nil =>
    cases s with
    | nil => simp
    | cons c cs => simp at hb; simp [hb]
  | cons a w ih =>
    cases s with
    | nil => simp at hp
    | cons c cs =>
      simp only [List.isPrefixOf, Bool.and_eq_true, beq_iff_eq] at hp
      obtain ⟨rfl, hp⟩ := hp
      simp only [List.all_cons, Bool.and_eq_true] at hnw
      simp only [List.length_cons, List.drop_succ_cons] at hb
      rw [List.takeWhile_cons, hnw.1]
      simp only [if_true, List.cons.injEq, true_and]
      exact ih cs hp hnw.2 hb

theorem isWordsOf_unique (s : List Char) (ws ws' : List (List Char))
    (h : isWordsOf s ws = true) (h' : isWordsOf s ws' = true) : ws = ws' := by
  induction ws generalizing s ws' with
  | nil =>
    cases ws' with
    | nil => rfl
    | cons w' t' =>
      simp only [isWordsOf] at h h'
      have hd : s.dropWhile isWhite = [] := dropWhile_nil_of_all _ _ h
      rw [hd] at h'
      cases w' <;> simp at h'
  | cons w t ih =>
    cases ws' with
    | nil =>
      simp only [isWordsOf] at h h'
      have hd : s.dropWhile isWhite = [] := dropWhile_nil_of_all _ _ h'
      rw [hd] at h
      cases w <;> simp at h
    | cons w' t' =>
      simp only [isWordsOf, Bool.and_eq_true] at h h'
      obtain ⟨⟨⟨⟨_, a2⟩, a3⟩, a4⟩, a5⟩ := h
      obtain ⟨⟨⟨⟨_, b2⟩, b3⟩, b4⟩, b5⟩ := h'
      have e1 := word_eq_takeWhile w _ a3 a2 a4
      have e2 := word_eq_takeWhile w' _ b3 b2 b4
      have : w = w' := by rw [e1, e2]
      subst this
      rw [ih _ t' a5 b5]

theorem isWordsOf_iff (s : List Char) (ws : List (List Char)) :
    isWordsOf s ws = true ↔ ws = RustStr2.splitWhitespace s :=
  ⟨fun h => isWordsOf_unique s ws _ h (splitWhitespace_isWordsOf s),
   fun h => h ▸ splitWhitespace_isWordsOf s⟩

theorem dropWhile_of_word (x r : List Char) (hne : x ≠ [])
    (hnw : x.all (fun c => !isWhite c) = true) : (x ++ r).dropWhile isWhite = x ++ r := by
  cases x with
  | nil => exact absurd rfl hne
  | cons a x =>
    simp only [List.all_cons, Bool.and_eq_true, Bool.not_eq_true'] at hnw
    simp [List.dropWhile_cons, hnw.1]

theorem isWordsOf_join (ws : List (List Char))
    (hw : ∀ w ∈ ws, w ≠ [] ∧ w.all (fun c => !isWhite c) = true) :
    isWordsOf (RustStr2.join [' '] ws) ws = true := by
  induction ws with
  | nil => simp [RustStr2.join, isWordsOf]
  | cons x r ih =>
    have hx := hw x (by simp)
    cases r with
    | nil =>
      simp only [RustStr2.join, isWordsOf]
      have := dropWhile_of_word x [] hx.1 hx.2
      simp only [List.append_nil] at this
      rw [this]
      have hne : x.isEmpty = false := by cases x <;> simp_all
      simp [hx.2, hne]
    | cons y r =>
      have ih' := ih (fun w hwm => hw w (by simp [hwm]))
      have hsp : isWhite ' ' = true := by decide
      have hne : x.isEmpty = false := by cases x <;> simp_all
      have hih : isWordsOf (' ' :: RustStr2.join [' '] (y :: r)) (y :: r) = true := by
        rw [isWordsOf_white_cons _ _ _ hsp]; exact ih'
      rw [RustStr2.join, isWordsOf, List.append_assoc, dropWhile_of_word x _ hx.1 hx.2,
        List.drop_left, List.singleton_append, hih]
      simp only [hne, hsp, hx.2, Bool.not_false, Bool.true_and, Bool.and_true]
      simp

end Witverif.Text.ConfigSpec
