import Witverif.Async.Subtask
import Witverif.Async.SubtaskSpec
/-! Helper definitions and lemmas for C21 (`Props/C21.lean`): the legality of labels (what a
conforming host/executor may do to one call), the invariant tying the runtime state of a call to the
spec monitor's state, and the proof that every legal step is panic-free, accepted by the monitor and
re-establishes the invariant (`step_safe`).  The case analysis is exhaustive over: label × future
state × pending completion code × `started` × task ABI version × empty/non-empty area × host answer;
each leaf is closed by evaluating the model step and the monitor (`c21_eval`). -/
namespace Witverif.Async
open Witverif.Generated SubtaskSpec

/-- What a conforming host and executor may do next to one call, judged on what has been reported so
far (the monitor state `m`): Appendix B, subtask part, as seen from the guest. -/
def LegalLabel (m : CallMon) (c : CallSys) : Label → Prop
  | .poll packed =>
    (∃ spec w, c.fut = .awaiting spec w) ∨
    (∃ spec, c.fut = .unpolled spec ∧ Host.Sub.legalStart (packed % 16) (packed / 16) = true)
  | .deliver code =>
    (∃ t, c.env.cur = some t ∧ c.env.regs.contains (t.ptr, c.fut.handle) = true) ∧
    resolvedKnown m = false ∧ m.cancels = 0 ∧ (code = Host.STARTED ∨ code = Host.RETURNED) ∧ m.reported < code
  | .drop ans =>
    (ans = Host.STARTED_CANCELLED ∧ m.reported = Host.STARTING) ∨ ans = Host.RETURNED_CANCELLED ∨ ans = Host.RETURNED

/-- events of a step (empty on panic is irrelevant: panics are excluded by the theorems) -/
def stepEvs (c : CallSys) (l : Label) : List Ev := (c.step l).evs

def AwaitInv (spec : CallSpec) (t : CurTask) (w : WOp CallSpec InProgress) (regs : List (Nat × Nat)) (m : CallMon) : Prop :=
  (∃ ip, w.state = .inProgress ip ∧ ip.spec = spec ∧ ip.handle = m.handle ∧ m.handle ≠ 0 ∧
        m.listsFreed = (if ip.started then 1 else 0) ∧
        (w.code = none → (ip.started = true ↔ m.reported = 1)) ∧
        (w.code = some 1 → ip.started = false)) ∧
  (m.created = true ∧ m.lowered = true ∧ m.called = true ∧ m.cancels = 0 ∧ m.handleDrops = 0 ∧
          m.areaFreed = 0 ∧ m.lifted = 0 ∧ m.ownsReleased = 0 ∧ m.rdrops = 0 ∧ m.pdrops = 0) ∧
  (w.code = none → w.waker = true ∧ regs = [(t.ptr, m.handle)] ∧ m.registered = true ∧ m.reported ≤ 1) ∧
  (∀ c, w.code = some c → w.waker = false ∧ regs = [] ∧ m.registered = false ∧ c = m.reported ∧ (c = 1 ∨ c = 2)) ∧
  (t.version = 1 → w.task = none) ∧ (t.version = 2 → ∃ r, w.task = some ⟨t.ptr, r⟩)

/-- The invariant tying the runtime state of one call to the monitor state. -/
def Inv (spec : CallSpec) (t : CurTask) (c : CallSys) (m : CallMon) : Prop :=
  c.env.cur = some t ∧ (t.version = 1 ∨ t.version = 2) ∧
  match c.fut with
  | .unpolled s => s = spec ∧ m = { created := true } ∧ c.env.regs = []
  | .awaiting s w => s = spec ∧ AwaitInv spec t w c.env.regs m
  | .finished => complete spec.area m = .ok () ∧ c.env.regs = [] ∧ m.created = true ∧ m.handleDrops ≤ 1 ∧ m.cancels ≤ 1

theorem inv_init (spec : CallSpec) (t : CurTask) (hv : t.version = 1 ∨ t.version = 2) :
    Inv spec t (CallSys.init spec t) { created := true } := by
  simp [Inv, CallSys.init, hv]


/-- outcome of a step is good: no panic, the monitor accepts the events, the invariant holds again -/
def Good (spec : CallSpec) (t : CurTask) (m : CallMon) : Step CallSys → Prop
  | .ok c' evs => match run spec.k m evs with
    | .ok m' => Inv spec t c' m'
    | .error _ => False
  | .panic _ _ => False

theorem legalStart_cases {code h : Nat} (hl : Host.Sub.legalStart code h = true) :
    (code = 0 ∧ h ≠ 0) ∨ (code = 1 ∧ h ≠ 0) ∨ (code = 2 ∧ h = 0) := by
  simp only [Host.Sub.legalStart, Host.STARTING, Host.STARTED, Host.RETURNED, Bool.and_eq_true, Bool.or_eq_true,
    beq_iff_eq] at hl
  obtain ⟨h1, h2⟩ := hl
  rcases h1 with (h1 | h1) | h1 <;> subst h1 <;> simp at h2 <;> simp [h2]

/-- the brute-force evaluator: unfold the model step, the monitor and the invariant -/
macro "c21_eval" : tactic => `(tactic|
  simp (config := { decide := true }) [Good, CallSys.step, Fut.poll, Fut.drop, Fut.wake, Fut.handle, pollComplete, pollCompleteWithCode,
    registerWaker, unregisterWaker, cancel, cancelPrepare, cabiWake, subtaskOps, subtaskUpdate,
    WOp.new, Step.bind, Step.emit, Step.pure, run, SubtaskSpec.step, Inv, AwaitInv, startedKnown, resolvedKnown,
    InProgress.flagStarted, InProgress.dropEvs, CallResult.dropEvs, dropOp, dropCancel, CabiTask.dropEvs, complete, completeChecks,
    Host.STARTED, Host.RETURNED, Host.STARTING, Host.RETURNED_CANCELLED, Host.STARTED_CANCELLED, Host.resolved, *])

set_option maxHeartbeats 1000000 in
theorem step_poll_unpolled (spec : CallSpec) (t : CurTask) (c : CallSys) (m : CallMon)
    (hI : Inv spec t c m) (hf : c.fut = .unpolled spec) (packed : Nat)
    (hl : Host.Sub.legalStart (packed % 16) (packed / 16) = true) :
    Good spec t m (c.step (.poll packed)) := by
  obtain ⟨fut, ⟨cur, regs⟩⟩ := c
  simp only at hf
  subst hf
  obtain ⟨hcur, hv, _, hm, hregs⟩ := hI
  simp only at hcur hregs
  subst hm hcur hregs
  obtain ⟨k, area⟩ := spec
  rcases legalStart_cases hl with ⟨hc, hh⟩ | ⟨hc, hh⟩ | ⟨hc, hh⟩ <;> rcases hv with hv | hv <;> cases area <;>
    simp [Good, CallSys.step, Fut.poll, pollComplete, pollCompleteWithCode, registerWaker, subtaskOps, subtaskUpdate,
        WOp.new, Step.bind, Step.emit, Step.pure, hc, hh, hv, run, SubtaskSpec.step, Inv, AwaitInv, startedKnown, resolvedKnown,
        InProgress.flagStarted, InProgress.dropEvs, CallResult.dropEvs, dropOp, dropCancel, CabiTask.dropEvs, complete, completeChecks,
        Host.STARTED, Host.RETURNED, Host.STARTING, Host.RETURNED_CANCELLED, Host.STARTED_CANCELLED, Host.resolved]


set_option maxHeartbeats 4000000 in
theorem step_poll_awaiting (spec : CallSpec) (t : CurTask) (c : CallSys) (m : CallMon)
    (hI : Inv spec t c m) (w : WOp CallSpec InProgress) (hf : c.fut = .awaiting spec w) (packed : Nat) :
    Good spec t m (c.step (.poll packed)) := by
  obtain ⟨fut, ⟨cur, regs⟩⟩ := c
  simp only at hf
  subst hf
  obtain ⟨hcur, hv, _, ⟨ip, hst, hspec, hh, hh0, hlf, hs1, hs2⟩, hflags, hnc, hcd, ht1, ht2⟩ := hI
  simp only at hcur
  subst hcur
  obtain ⟨state, code, waker, task⟩ := w
  simp only at hst hs1 hs2 hnc hcd ht1 ht2
  subst hst
  obtain ⟨ispec, started, handle⟩ := ip
  simp only at hspec hh hlf hs1 hs2
  subst hspec
  obtain ⟨created, lowered, called, mhandle, reported, listsFreed, ownsReleased, lifted, areaFreed, cancels,
    handleDrops, registered, pdrops, rdrops⟩ := m
  simp only at hh hh0 hlf hs1 hs2 hflags hnc hcd
  obtain ⟨rfl, rfl, rfl, rfl, rfl, rfl, rfl, rfl, rfl, rfl⟩ := hflags
  subst hh hlf
  obtain ⟨k, area⟩ := ispec
  cases code with
  | none =>
    obtain ⟨rfl, rfl, rfl, hrep⟩ := hnc rfl
    have hs := hs1 rfl
    have hr : reported = if started then 1 else 0 := by
      cases started
      · have : reported ≠ 1 := fun h => by simpa using hs.mpr h
        simp; omega
      · simpa using hs
    subst hr
    rcases hv with hv | hv
    · have := ht1 hv; subst this
      cases started <;> cases area <;> c21_eval
    · obtain ⟨r, rfl⟩ := ht2 hv
      cases started <;> cases area <;> c21_eval
  | some cd =>
    obtain ⟨rfl, rfl, rfl, rfl, hcd'⟩ := hcd cd rfl
    rcases hv with hv | hv
    · have := ht1 hv; subst this
      rcases hcd' with rfl | rfl
      · have := hs2 rfl; subst this
        cases area <;> c21_eval
      · cases started <;> cases area <;> c21_eval
    · obtain ⟨r, rfl⟩ := ht2 hv
      rcases hcd' with rfl | rfl
      · have := hs2 rfl; subst this
        cases area <;> c21_eval
      · cases started <;> cases area <;> c21_eval


set_option maxHeartbeats 4000000 in
theorem step_deliver (spec : CallSpec) (t : CurTask) (c : CallSys) (m : CallMon)
    (hI : Inv spec t c m) (code : Nat) (hl : LegalLabel m c (.deliver code)) :
    Good spec t m (c.step (.deliver code)) := by
  obtain ⟨fut, ⟨cur, regs⟩⟩ := c
  obtain ⟨⟨t', hc', hreg⟩, hres, hcan, hcode, hlt⟩ := hl
  obtain ⟨hcur, hv, hrest⟩ := hI
  simp only at hcur hc' hreg hrest
  subst hcur
  simp only [Option.some.injEq] at hc'
  subst hc'
  cases fut with
  | unpolled s => obtain ⟨_, _, rfl⟩ := hrest; simp at hreg
  | finished => obtain ⟨_, rfl, _⟩ := hrest; simp at hreg
  | awaiting s w =>
    obtain ⟨rfl, ⟨ip, hst, hspec, hh, hh0, hlf, hs1, hs2⟩, hflags, hnc, hcd, ht1, ht2⟩ := hrest
    obtain ⟨state, wcode, waker, task⟩ := w
    simp only at hst hs1 hs2 hnc hcd ht1 ht2
    subst hst
    obtain ⟨ispec, started, handle⟩ := ip
    simp only at hspec hh hlf hs1 hs2
    subst hspec
    obtain ⟨created, lowered, called, mhandle, reported, listsFreed, ownsReleased, lifted, areaFreed, cancels,
      handleDrops, registered, pdrops, rdrops⟩ := m
    simp only at hh hh0 hlf hs1 hs2 hflags hnc hcd hres hcan hlt
    obtain ⟨rfl, rfl, rfl, rfl, rfl, rfl, rfl, rfl, rfl, rfl⟩ := hflags
    subst hh hlf
    obtain ⟨k, area⟩ := ispec
    cases wcode with
    | some cd =>
      obtain ⟨_, rfl, _⟩ := hcd cd rfl
      simp [Fut.handle] at hreg
    | none =>
      obtain ⟨rfl, rfl, rfl, hrep⟩ := hnc rfl
      have hs := hs1 rfl
      have hr : reported = if started then 1 else 0 := by
        cases started
        · have : reported ≠ 1 := fun h => by simpa using hs.mpr h
          simp; omega
        · simpa using hs
      subst hr
      rcases hv with hv | hv
      · have := ht1 hv; subst this
        rcases hcode with rfl | rfl <;> cases started <;> cases area <;>
          simp [Host.STARTED, Host.RETURNED] at hlt <;> c21_eval
      · obtain ⟨r, rfl⟩ := ht2 hv
        rcases hcode with rfl | rfl <;> cases started <;> cases area <;>
          simp [Host.STARTED, Host.RETURNED] at hlt <;> c21_eval


set_option maxHeartbeats 8000000 in
theorem step_drop (spec : CallSpec) (t : CurTask) (c : CallSys) (m : CallMon)
    (hI : Inv spec t c m) (ans : Nat) (hl : LegalLabel m c (.drop ans)) :
    Good spec t m (c.step (.drop ans)) := by
  obtain ⟨fut, ⟨cur, regs⟩⟩ := c
  obtain ⟨hcur, hv, hrest⟩ := hI
  simp only at hcur hrest
  subst hcur
  cases fut with
  | unpolled s =>
    obtain ⟨rfl, rfl, rfl⟩ := hrest
    obtain ⟨k, area⟩ := s
    cases area <;> c21_eval
  | finished =>
    obtain ⟨hc, rfl, h1, h2, h3⟩ := hrest
    simp [Good, CallSys.step, Fut.drop, Step.bind, run, Inv, hv, hc, h1, h2, h3]
  | awaiting s w =>
    obtain ⟨rfl, ⟨ip, hst, hspec, hh, hh0, hlf, hs1, hs2⟩, hflags, hnc, hcd, ht1, ht2⟩ := hrest
    obtain ⟨state, wcode, waker, task⟩ := w
    simp only at hst hs1 hs2 hnc hcd ht1 ht2
    subst hst
    obtain ⟨ispec, started, handle⟩ := ip
    simp only at hspec hh hlf hs1 hs2
    subst hspec
    obtain ⟨created, lowered, called, mhandle, reported, listsFreed, ownsReleased, lifted, areaFreed, cancels,
      handleDrops, registered, pdrops, rdrops⟩ := m
    simp only at hh hh0 hlf hs1 hs2 hflags hnc hcd hl
    obtain ⟨rfl, rfl, rfl, rfl, rfl, rfl, rfl, rfl, rfl, rfl⟩ := hflags
    subst hh hlf
    obtain ⟨k, area⟩ := ispec
    simp only [LegalLabel, Host.STARTED_CANCELLED, Host.STARTING, Host.RETURNED_CANCELLED, Host.RETURNED] at hl
    cases wcode with
    | some cd =>
      obtain ⟨rfl, rfl, rfl, rfl, hcd'⟩ := hcd cd rfl
      rcases hv with hv | hv
      · have := ht1 hv; subst this
        rcases hcd' with rfl | rfl
        · have := hs2 rfl; subst this
          rcases hl with ⟨_, h0⟩ | rfl | rfl
          · simp at h0
          · cases area <;> c21_eval
          · cases area <;> c21_eval
        · cases started <;> cases area <;> c21_eval
      · obtain ⟨r, rfl⟩ := ht2 hv
        rcases hcd' with rfl | rfl
        · have := hs2 rfl; subst this
          rcases hl with ⟨_, h0⟩ | rfl | rfl
          · simp at h0
          · cases area <;> c21_eval
          · cases area <;> c21_eval
        · cases started <;> cases area <;> c21_eval
    | none =>
      obtain ⟨rfl, rfl, rfl, hrep⟩ := hnc rfl
      have hs := hs1 rfl
      have hr : reported = if started then 1 else 0 := by
        cases started
        · have : reported ≠ 1 := fun h => by simpa using hs.mpr h
          simp; omega
        · simpa using hs
      subst hr
      rcases hv with hv | hv
      · have := ht1 hv; subst this
        rcases hl with ⟨rfl, h0⟩ | rfl | rfl
        · cases started
          · cases area <;> c21_eval
          · simp at h0
        · cases started <;> cases area <;> c21_eval
        · cases started <;> cases area <;> c21_eval
      · obtain ⟨r, rfl⟩ := ht2 hv
        rcases hl with ⟨rfl, h0⟩ | rfl | rfl
        · cases started
          · cases area <;> c21_eval
          · simp at h0
        · cases started <;> cases area <;> c21_eval
        · cases started <;> cases area <;> c21_eval


/-- Every legal step from a state satisfying the invariant is good. -/
theorem step_safe (spec : CallSpec) (t : CurTask) (c : CallSys) (m : CallMon) (l : Label)
    (hI : Inv spec t c m) (hl : LegalLabel m c l) : Good spec t m (c.step l) := by
  cases l with
  | poll packed =>
    rcases hl with ⟨s, w, hf⟩ | ⟨s, hf, hls⟩
    · have hs : s = spec := by
        have := hI.2.2; rw [hf] at this; exact this.1
      subst hs
      exact step_poll_awaiting s t c m hI w hf packed
    · have hs : s = spec := by
        have := hI.2.2; rw [hf] at this; exact this.1
      subst hs
      exact step_poll_unpolled s t c m hI hf packed hls
  | deliver code => exact step_deliver spec t c m hI code hl
  | drop ans => exact step_drop spec t c m hI ans hl

/-- States reachable from a fresh call by legal labels, with the monitor state and the trace so far. -/
inductive Reach (spec : CallSpec) (t : CurTask) : CallSys → CallMon → List Ev → Prop
  | init : Reach spec t (CallSys.init spec t) { created := true } []
  | step {c m tr l c' evs m'} : Reach spec t c m tr → LegalLabel m c l → c.step l = .ok c' evs →
      run spec.k m evs = .ok m' → Reach spec t c' m' (tr ++ evs)

theorem run_append (k : Nat) (m : CallMon) (a b : List Ev) :
    run k m (a ++ b) = match run k m a with | .ok m' => run k m' b | .error e => .error e := by
  induction a generalizing m with
  | nil => simp [run]
  | cons e a ih =>
    simp only [List.cons_append, run]
    cases step k m e with
    | ok m' => simp [ih]
    | error e => simp

theorem reach_inv {spec : CallSpec} {t : CurTask} (hv : t.version = 1 ∨ t.version = 2) {c m tr}
    (h : Reach spec t c m tr) : Inv spec t c m ∧ run spec.k { created := true } tr = .ok m := by
  induction h with
  | init => exact ⟨inv_init spec t hv, rfl⟩
  | step hr hl hs hm ih =>
    have hg := step_safe spec t _ _ _ ih.1 hl
    rw [hs] at hg
    simp only [Good, hm] at hg
    refine ⟨hg, ?_⟩
    rw [run_append, ih.2]
    exact hm

/-- splitting an accepted trace at an event: the prefix is accepted and the event is accepted in
the state the prefix leads to -/
theorem run_split {k : Nat} {m0 m : CallMon} {pre post : List Ev} {e : Ev}
    (h : run k m0 (pre ++ e :: post) = .ok m) :
    ∃ mp me, run k m0 pre = .ok mp ∧ step k mp e = .ok me ∧ run k me post = .ok m := by
  rw [run_append] at h
  cases hp : run k m0 pre with
  | error x => simp [hp] at h
  | ok mp =>
    simp only [hp, run] at h
    cases he : step k mp e with
    | error x => simp [he] at h
    | ok me => simp only [he] at h; exact ⟨mp, me, rfl, he, h⟩

/-- the end-of-life clause, spelled out for a call that was lowered -/
theorem complete_lowered {area : Bool} {m : CallMon} (h : complete area m = .ok ()) (hc : m.created = true)
    (hl : m.lowered = true) :
    m.called = true ∧ resolvedKnown m = true ∧ m.listsFreed = 1 ∧
    (m.ownsReleased = 1 ↔ m.reported = Host.STARTED_CANCELLED) ∧
    (m.lifted = 1 ↔ m.reported = Host.RETURNED) ∧ m.lifted = m.rdrops ∧
    (m.handle ≠ 0 → m.handleDrops = 1) ∧ (area = true → m.areaFreed = 1) ∧ m.registered = false := by
  unfold complete at h
  simp only [hc, hl, Bool.not_true, Bool.false_eq_true, if_false] at h
  split at h
  · simp at h
  · rename_i hf
    simp only [completeChecks, List.find?_eq_none, List.mem_cons, List.not_mem_nil, or_false, forall_eq_or_imp,
      forall_eq, Bool.not_eq_true] at hf
    obtain ⟨h1, h2, h3, h4, h5, h6, h7, h8, h9⟩ := hf
    simp only [Bool.not_eq_false', bne_eq_false_iff_eq, Bool.and_eq_false_imp, bne_iff_ne, ne_eq, Decidable.not_not,
       Bool.not_eq_eq_eq_not, Bool.not_true] at h1 h2 h3 h4 h5 h6 h7 h8 h9
    refine ⟨h1, h2, h3, ?_, ?_, h6, ?_, ?_, h9⟩
    · constructor
      · intro e; simpa [e] using h4.symm
      · intro e; simpa [e] using h4
    · constructor
      · intro e; simpa [e] using h5.symm
      · intro e; simpa [e] using h5
    · intro hh; exact h7 hh
    · intro ha; exact h8 ha

theorem reach_finished {spec : CallSpec} {t : CurTask} (hv : t.version = 1 ∨ t.version = 2) {c m tr}
    (h : Reach spec t c m tr) (hf : c.fut = .finished) :
    complete spec.area m = .ok () ∧ m.created = true ∧ m.handleDrops ≤ 1 ∧ m.cancels ≤ 1 := by
  have := (reach_inv hv h).1
  simp only [Inv, hf] at this
  exact ⟨this.2.2.1, this.2.2.2.2.1, this.2.2.2.2.2.1, this.2.2.2.2.2.2⟩

/-- number of events of a trace satisfying `p` -/
def cnt (p : Ev → Bool) (tr : List Ev) : Nat := (tr.filter p).length

theorem cnt_cons (p : Ev → Bool) (e : Ev) (tr : List Ev) : cnt p (e :: tr) = (if p e then 1 else 0) + cnt p tr := by
  simp only [cnt, List.filter_cons]; split <;> simp <;> omega

/-- The monitor's counters are the numbers of the corresponding events for call `k` (the monitor
rejects a second one, so each is at most 1). -/
theorem run_counts {k : Nat} {tr : List Ev} : ∀ {m0 m : CallMon}, run k m0 tr = .ok m →
    m0.listsFreed ≤ 1 → m0.ownsReleased ≤ m0.listsFreed → m0.lifted ≤ 1 → m0.areaFreed ≤ 1 →
    (m0.listsFreed + cnt (fun e => e == .deallocLists k || e == .deallocListsOwn k) tr = m.listsFreed ∧ m.listsFreed ≤ 1) ∧
    (m0.ownsReleased + cnt (fun e => e == .deallocListsOwn k) tr = m.ownsReleased ∧ m.ownsReleased ≤ 1) ∧
    (m0.lifted + cnt (fun e => e == .lift k) tr = m.lifted ∧ m.lifted ≤ 1) ∧
    (m0.areaFreed + cnt (fun e => e == .free k) tr = m.areaFreed ∧ m.areaFreed ≤ 1) := by
  induction tr with
  | nil =>
    intro m0 m h h1 h2 h3 h4
    simp only [run, Except.ok.injEq] at h
    subst h
    simp [cnt, h1, h3, h4]; omega
  | cons e tr ih =>
    intro m0 m h h1 h2 h3 h4
    simp only [run] at h
    cases he : step k m0 e with
    | error x => simp [he] at h
    | ok m1 =>
      simp only [he] at h
      simp only [cnt_cons]
      -- how one event changes the four counters
      have key : m1.listsFreed = m0.listsFreed + (if (e == .deallocLists k || e == .deallocListsOwn k) then 1 else 0) ∧
          m1.ownsReleased = m0.ownsReleased + (if e == .deallocListsOwn k then 1 else 0) ∧
          m1.lifted = m0.lifted + (if e == .lift k then 1 else 0) ∧
          m1.areaFreed = m0.areaFreed + (if e == .free k then 1 else 0) ∧
          m1.listsFreed ≤ 1 ∧ m1.ownsReleased ≤ m1.listsFreed ∧ m1.lifted ≤ 1 ∧ m1.areaFreed ≤ 1 := by
        cases e <;> simp only [step] at he <;> (repeat' split at he) <;>
          simp_all <;> (try subst he) <;> simp_all <;> (try omega)
      obtain ⟨k1, k2, k3, k4, b1, b2, b3, b4⟩ := key
      have := ih h b1 b2 b3 b4
      omega

theorem reach_counts {spec : CallSpec} {t : CurTask} (hv : t.version = 1 ∨ t.version = 2) {c m tr}
    (h : Reach spec t c m tr) :
    (cnt (fun e => e == .deallocLists spec.k || e == .deallocListsOwn spec.k) tr = m.listsFreed ∧ m.listsFreed ≤ 1) ∧
    (cnt (fun e => e == .deallocListsOwn spec.k) tr = m.ownsReleased ∧ m.ownsReleased ≤ 1) ∧
    (cnt (fun e => e == .lift spec.k) tr = m.lifted ∧ m.lifted ≤ 1) ∧
    (cnt (fun e => e == .free spec.k) tr = m.areaFreed ∧ m.areaFreed ≤ 1) := by
  have := run_counts (reach_inv hv h).2 (by decide) (by decide) (by decide) (by decide)
  simpa using this

end Witverif.Async
