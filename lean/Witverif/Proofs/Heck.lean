import Witverif.Text.Heck
/-! Helper lemmas about the `Heck` model (used by C27). -/
namespace Witverif.Text.Heck

/-- lower-case ASCII letter or ASCII digit -/
def lod (c : Char) : Bool := isAsciiLower c || isAsciiDigit c

theorem lod_ascii {c : Char} (h : lod c = true) : c.toNat < 128 := by
  simp only [lod, isAsciiLower, isAsciiDigit, Bool.or_eq_true, Bool.and_eq_true, decide_eq_true_eq] at h
  omega

theorem lod_alnum {c : Char} (h : lod c = true) : isAlnum c = true := by
  have := lod_ascii h
  simp only [lod, Bool.or_eq_true] at h
  simp only [isAlnum, this, if_true, Bool.or_eq_true]
  rcases h with h | h
  · exact Or.inl (Or.inl h)
  · exact Or.inr h

theorem lod_not_upper {c : Char} (h : lod c = true) : isUpper c = false := by
  have ha := lod_ascii h
  simp only [lod, isAsciiLower, isAsciiDigit, Bool.or_eq_true, Bool.and_eq_true, decide_eq_true_eq] at h
  simp only [isUpper, ha, if_true, isAsciiUpper]
  simp only [Bool.and_eq_false_iff, decide_eq_false_iff_not]
  omega

theorem lod_lowerChar {c : Char} (h : lod c = true) : lowerChar c = [c] := by
  have ha := lod_ascii h
  have hu := lod_not_upper h
  simp only [isUpper, ha, if_true] at hu
  simp [lowerChar, ha, hu]

theorem lod_ne_sigma {c : Char} (h : lod c = true) : (c == 'Σ') = false := by
  have ha := lod_ascii h
  cases hc : c == 'Σ'
  · rfl
  · have : c = 'Σ' := by simpa using hc
    subst this
    exact absurd ha (by decide)

theorem splitWords_ne_nil (s : List Char) : splitWords s ≠ [] := by
  cases s with
  | nil => simp [splitWords]
  | cons c cs =>
    simp only [splitWords]
    split
    · split <;> simp
    · simp

/-- every word without separators is a single piece -/
theorem splitWords_alnum (a : List Char) (h : ∀ c ∈ a, isAlnum c = true) : splitWords a = [a] := by
  induction a with
  | nil => rfl
  | cons c cs ih =>
    have hc : isAlnum c = true := h c (by simp)
    have := ih (fun x hx => h x (by simp [hx]))
    simp [splitWords, hc, this]

theorem splitWords_append_sep (a : List Char) (s : Char) (r : List Char)
    (h : ∀ c ∈ a, isAlnum c = true) (hs : isAlnum s = false) :
    splitWords (a ++ s :: r) = a :: splitWords r := by
  induction a with
  | nil => simp [splitWords, hs]
  | cons c cs ih =>
    have hc : isAlnum c = true := h c (by simp)
    have := ih (fun x hx => h x (by simp [hx]))
    simp [splitWords, hc, this]

/-- a word of lower-case letters and digits is one segment -/
theorem wordSegs_lod (w : List Char) (hw : ∀ c ∈ w, lod c = true) :
    ∀ (cur : List Char) (m : Mode), w ≠ [] → wordSegs w cur m = [cur ++ w] := by
  induction w with
  | nil => intro _ _ h; exact absurd rfl h
  | cons c cs ih =>
    intro cur m _
    cases cs with
    | nil => simp [wordSegs]
    | cons n rest =>
      have hn : isUpper n = false := lod_not_upper (hw n (by simp))
      have hc : isUpper c = false := lod_not_upper (hw c (by simp))
      have := ih (fun x hx => hw x (by simp [hx])) (cur ++ [c]) (nextMode m c) (by simp)
      simp [wordSegs, hn, hc, this]

theorem lowerSeg_lod (w : List Char) (hw : ∀ c ∈ w, lod c = true) : lowerSeg w = w := by
  induction w with
  | nil => rfl
  | cons c cs ih =>
    have hc := hw c (by simp)
    cases cs with
    | nil => simp [lowerSeg, lod_ne_sigma hc, lod_lowerChar hc]
    | cons n rest =>
      have := ih (fun x hx => hw x (by simp [hx]))
      simp [lowerSeg, lod_lowerChar hc, this]

/-- separators become `_`, everything else is kept -/
def sepU (c : Char) : Char := if isAlnum c then c else '_'

theorem joinU_cons_head (c : Char) (w : List Char) (ws : List (List Char)) :
    joinU ((c :: w) :: ws) = c :: joinU (w :: ws) := by
  cases ws <;> simp [joinU]

theorem joinU_splitWords (s : List Char) : joinU (splitWords s) = s.map sepU := by
  induction s with
  | nil => rfl
  | cons c cs ih =>
    by_cases hc : isAlnum c = true
    · have hne := splitWords_ne_nil cs
      cases hs : splitWords cs with
      | nil => exact absurd hs hne
      | cons w ws =>
        rw [hs] at ih
        simp [splitWords, hc, hs, joinU_cons_head, ih, sepU]
    · have hc' : isAlnum c = false := by simpa using hc
      have hne := splitWords_ne_nil cs
      cases hs : splitWords cs with
      | nil => exact absurd hs hne
      | cons w ws =>
        rw [hs] at ih
        simp [splitWords, hc', hs, joinU, ih, sepU]

/-- `simple` strings: lower-case letters, digits and separators, every word non-empty.
`prevSep` = the previous character was a separator (or the string starts here). -/
def simpleTail : Bool → List Char → Bool
  | prevSep, [] => !prevSep
  | prevSep, c :: cs =>
    if isAlnum c then lod c && simpleTail false cs else !prevSep && simpleTail true cs

theorem simpleTail_words : ∀ (s : List Char) (b : Bool), simpleTail b s = true →
    ∃ w ws, splitWords s = w :: ws ∧ (b = true → w ≠ []) ∧ (∀ c ∈ w, lod c = true) ∧
      (∀ x ∈ ws, x ≠ [] ∧ ∀ c ∈ x, lod c = true) := by
  intro s
  induction s with
  | nil =>
    intro b h
    refine ⟨[], [], rfl, ?_, by simp, by simp⟩
    intro hb; subst hb; simp [simpleTail] at h
  | cons c cs ih =>
    intro b h
    by_cases hc : isAlnum c = true
    · simp only [simpleTail, hc, if_true, Bool.and_eq_true] at h
      obtain ⟨w, ws, hs, _, hw, hws⟩ := ih false h.2
      refine ⟨c :: w, ws, by simp [splitWords, hc, hs], by simp, ?_, hws⟩
      intro x hx
      rcases List.mem_cons.mp hx with rfl | hx
      · exact h.1
      · exact hw x hx
    · have hc' : isAlnum c = false := by simpa using hc
      simp only [simpleTail, hc', Bool.false_eq_true, if_false, Bool.and_eq_true, Bool.not_eq_true'] at h
      obtain ⟨w, ws, hs, hne, hw, hws⟩ := ih true h.2
      refine ⟨[], w :: ws, by simp [splitWords, hc', hs], ?_, by simp, ?_⟩
      · intro hb; rw [hb] at h; simp at h
      · intro x hx
        rcases List.mem_cons.mp hx with rfl | hx
        · exact ⟨hne rfl, hw⟩
        · exact hws x hx

theorem flatMap_singleton {α} (l : List α) (f : α → List α) (h : ∀ x ∈ l, f x = [x]) :
    l.flatMap f = l := by
  induction l with
  | nil => rfl
  | cons x xs ih =>
    simp [List.flatMap_cons, h x (by simp), ih (fun y hy => h y (by simp [hy]))]

/-- On a simple string `to_snake_case` only rewrites separators to `_`. -/
theorem snake_simple (s : List Char) (h : simpleTail true s = true) : snake s = s.map sepU := by
  obtain ⟨w, ws, hs, hne, hw, hws⟩ := simpleTail_words s true h
  have hall : ∀ x ∈ splitWords s, x ≠ [] ∧ ∀ c ∈ x, lod c = true := by
    intro x hx
    rw [hs] at hx
    rcases List.mem_cons.mp hx with rfl | hx
    · exact ⟨hne rfl, hw⟩
    · exact hws x hx
  have h1 : (splitWords s).flatMap (fun w => wordSegs w [] .boundary) = splitWords s :=
    flatMap_singleton _ _ (fun x hx => by
      have := wordSegs_lod x (hall x hx).2 [] .boundary (hall x hx).1
      simpa using this)
  have h2 : (splitWords s).map lowerSeg = splitWords s := by
    rw [List.map_congr_left (g := id)]
    · simp
    · intro x hx; exact lowerSeg_lod x (hall x hx).2
  simp only [snake, segments, h1, h2, joinU_splitWords]

end Witverif.Text.Heck
