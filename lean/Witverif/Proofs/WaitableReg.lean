import Witverif.Async.WaitableSys
/-! Helper definitions and lemmas for C18 (`Props/C18.lean`): one `WaitableOperation` — for an
ARBITRARY operation kind `Ops` (stream/future read/write, subtask) — together with the executors'
maps as a labelled transition system (`GSys`), the registration invariant `RegInv`, and its
preservation by polls (under any task), deliveries and drops. -/
namespace Witverif.Async
open Witverif.Generated

variable {S P R C : Type}

/-- Registration invariant (DESIGN §7 C18, Inv1/Inv4/Inv5 as a state invariant).  `t0`: for the v1
ABI (which cannot clone a task) the operation has to stay in task `t0`. -/
def RegInv (ops : Ops S P R C) (v t0 : Nat) (g : GSys S P) : Prop :=
  if g.gone then g.regs = [] else
  match g.w.state with
  | .start _ => g.regs = [] ∧ g.w.task = none ∧ g.w.code = none
  | .inProgress p =>
    (g.w.code = none → ∃ h tp, ops.waitable p = some h ∧ g.regs = [(tp, h)] ∧ g.w.waker = true ∧
        (v = 2 → g.w.task = some ⟨tp, some h⟩) ∧ (v = 1 → tp = t0)) ∧
    (∀ c, g.w.code = some c → g.regs = [] ∧ g.w.waker = false ∧ (∃ h, ops.waitable p = some h) ∧
        (v = 2 → ∃ tp r, g.w.task = some ⟨tp, r⟩)) ∧
    (v = 1 → g.w.task = none)
  | .done => g.regs = [] ∧ (v = 1 → g.w.task = none) ∧ (∀ t, g.w.task = some t → t.registered = none)

/-- labels an executor / task body may produce: polls and drops of a live operation (under the one
task `t0` for the v1 ABI), deliveries at any time the step itself allows -/
def GLegal (v t0 : Nat) (g : GSys S P) : GLabel → Prop
  | .poll t _ => g.gone = false ∧ (v = 1 → t = t0)
  | .deliver _ => g.gone = false
  | .drop t _ => g.gone = false ∧ (v = 1 → t = t0)

macro "c18_eval" : tactic => `(tactic|
  simp (config := { decide := true }) [GSys.step, GSys.waitable, RegInv, pollComplete, pollCompleteWithCode, registerWaker,
    unregisterWaker, cancel, cancelPrepare, cabiWake, dropOp, dropCancel, CabiTask.dropEvs, Step.bind, Step.emit, Step.pure, *] at *)


theorem regInv_deliver (ops : Ops S P R C) (dropC : C → List Ev) (v t0 : Nat) (g : GSys S P)
    (hI : RegInv ops v t0 g) (code : Nat) (hg : g.gone = false) (g' : GSys S P) (evs : List Ev)
    (hs : g.step ops dropC v (.deliver code) = .ok g' evs) : RegInv ops v t0 g' := by
  obtain ⟨⟨state, wcode, waker, task⟩, regs, gone⟩ := g
  simp only at hg
  subst hg
  cases state with
  | start s => simp [GSys.step, GSys.waitable] at hs
  | done => simp [GSys.step, GSys.waitable] at hs
  | inProgress p =>
    simp only [RegInv, Bool.false_eq_true, if_false] at hI
    obtain ⟨h1, h2, h3⟩ := hI
    cases wcode with
    | some c =>
      obtain ⟨rfl, _, ⟨h, hw⟩, _⟩ := h2 c rfl
      simp [GSys.step, GSys.waitable, hw] at hs
    | none =>
      obtain ⟨h, tp, hw, rfl, rfl, ht2, ht1⟩ := h1 rfl
      simp [GSys.step, GSys.waitable, hw, cabiWake, Step.bind, Step.emit] at hs
      obtain ⟨rfl, _⟩ := hs
      simp only [RegInv, Bool.false_eq_true, if_false]
      refine ⟨by simp, ?_, h3⟩
      intro c _
      refine ⟨by simp, by simp, ⟨h, hw⟩, ?_⟩
      intro hv2
      exact ⟨tp, some h, ht2 hv2⟩


/-- `registerWaker` from a state with no registration for `h` and a clean task slot -/
theorem register_fresh (w : WOp S P) (v t h : Nat) (hv : v = 1 ∨ v = 2)
    (htask : (v = 1 → w.task = none) ∧ (∀ ct, w.task = some ct → ct.registered = none)) :
    ∃ w' evs, registerWaker w ⟨some ⟨t, v⟩, []⟩ h = .ok (w', ⟨some ⟨t, v⟩, [(t, h)]⟩) evs ∧
      w'.state = w.state ∧ w'.code = w.code ∧ w'.waker = true ∧
      (v = 2 → w'.task = some ⟨t, some h⟩) ∧ (v = 1 → w'.task = none) := by
  obtain ⟨state, code, waker, task⟩ := w
  simp only at htask
  rcases hv with rfl | rfl
  · have := htask.1 rfl; subst this
    simp [registerWaker]
  · cases task with
    | none => simp [registerWaker]
    | some ct =>
      obtain ⟨cp, cr⟩ := ct
      have := htask.2 _ rfl
      simp only at this
      subst this
      by_cases hp : cp = t
      · subst hp; simp [registerWaker]
      · simp [registerWaker, hp, CabiTask.dropEvs]


/-- `registerWaker` of an operation that is already registered under task `tp` (it was polled again,
possibly under another task `t`): afterwards it is registered under `t` only. -/
theorem register_again (w : WOp S P) (v t tp h : Nat) (hv : v = 1 ∨ v = 2)
    (ht2 : v = 2 → w.task = some ⟨tp, some h⟩) (ht1 : v = 1 → w.task = none ∧ tp = t) :
    ∃ w' evs, registerWaker w ⟨some ⟨t, v⟩, [(tp, h)]⟩ h = .ok (w', ⟨some ⟨t, v⟩, [(t, h)]⟩) evs ∧
      w'.state = w.state ∧ w'.code = w.code ∧ w'.waker = true ∧
      (v = 2 → w'.task = some ⟨t, some h⟩) ∧ (v = 1 → w'.task = none) ∧
      -- moving to another task (v2): clone the new task, leave the old one, drop its reference, register
      (v = 2 → tp ≠ t → evs = [.clone t, .unreg tp h true, .tdrop tp, .reg t h false]) := by
  obtain ⟨state, code, waker, task⟩ := w
  simp only at ht1 ht2
  rcases hv with rfl | rfl
  · obtain ⟨rfl, rfl⟩ := ht1 rfl
    simp [registerWaker]
  · have := ht2 rfl; subst this
    by_cases hp : tp = t
    · subst hp; simp [registerWaker]
    · simp [registerWaker, hp, CabiTask.dropEvs]
      exact ⟨_, _, ⟨rfl, rfl⟩, rfl, rfl, rfl, rfl, rfl⟩


theorem regInv_poll (ops : Ops S P R C) (hS : ops.Stable) (dropC : C → List Ev) (v t0 : Nat) (hv : v = 1 ∨ v = 2)
    (g : GSys S P) (hI : RegInv ops v t0 g) (t ans : Nat) (hg : g.gone = false) (ht : v = 1 → t = t0)
    (g' : GSys S P) (evs : List Ev)
    (hs : g.step ops dropC v (.poll t ans) = .ok g' evs) :
    RegInv ops v t0 g' ∧ g'.gone = false ∧
    -- the poll consumed any delivered code: the operation is now registered and waiting, or done
    ((∃ p, g'.w.state = .inProgress p ∧ g'.w.code = none ∧ g'.regs ≠ []) ∨ (g'.w.state = .done ∧ g'.regs = [])) := by
  obtain ⟨⟨state, wcode, waker, task⟩, regs, gone⟩ := g
  simp only at hg
  subst hg
  simp only [RegInv, Bool.false_eq_true, if_false] at hI
  cases state with
  | done => simp [GSys.step, pollComplete, Step.bind] at hs
  | start s =>
    obtain ⟨rfl, rfl, rfl⟩ := hI
    simp only [GSys.step, pollComplete, pollCompleteWithCode, Step.bind, Step.emit, Option.map_none] at hs
    cases hu : ops.update (ops.start s ans).2.2 (ops.start s ans).2.1 with
    | panic m e => simp [hu] at hs
    | ok r e =>
      cases r with
      | inl res =>
        simp [hu] at hs
        obtain ⟨rfl, _⟩ := hs
        simp [RegInv]
      | inr p' =>
        cases hw : ops.waitable p' with
        | none => simp [hu, hw] at hs
        | some h =>
          obtain ⟨w', evs', hr, hst, hcd, hwk, h2, h1⟩ := register_fresh
            (⟨.inProgress p', none, waker, none⟩ : WOp S P) v t h hv ⟨fun _ => rfl, fun ct hct => by simp at hct⟩
          simp [hu, hw, hr] at hs
          obtain ⟨rfl, _⟩ := hs
          refine ⟨?_, rfl, .inl ⟨p', hst, hcd, by simp⟩⟩
          simp only [RegInv, Bool.false_eq_true, if_false, hst]
          refine ⟨fun _ => ⟨h, t, hw, rfl, hwk, h2, ht⟩, ?_, h1⟩
          intro c hc; rw [hcd] at hc; simp at hc
  | inProgress p =>
    obtain ⟨h1, h2, h3⟩ := hI
    cases wcode with
    | none =>
      obtain ⟨h, tp, hw, rfl, rfl, ht2, ht1⟩ := h1 rfl
      obtain ⟨w', evs', hr, hst, hcd, hwk, hh2, hh1, _⟩ := register_again
        (⟨.inProgress p, none, true, task⟩ : WOp S P) v t tp h hv ht2
        (fun hv1 => ⟨h3 hv1, (ht1 hv1).trans (ht hv1).symm⟩)
      simp [GSys.step, pollComplete, pollCompleteWithCode, Step.bind, hw, hr] at hs
      obtain ⟨rfl, _⟩ := hs
      refine ⟨?_, rfl, .inl ⟨p, hst, hcd, by simp⟩⟩
      simp only [RegInv, Bool.false_eq_true, if_false, hst]
      refine ⟨fun _ => ⟨h, t, hw, rfl, hwk, hh2, ht⟩, ?_, hh1⟩
      intro c hc; rw [hcd] at hc; simp at hc
    | some c =>
      obtain ⟨rfl, rfl, ⟨h, hw⟩, ht2⟩ := h2 c rfl
      simp only [GSys.step, pollComplete, pollCompleteWithCode, Step.bind] at hs
      cases hu : ops.update p c with
      | panic m e => simp [hu] at hs
      | ok r e =>
        cases r with
        | inl res =>
          simp [hu] at hs
          obtain ⟨rfl, _⟩ := hs
          refine ⟨?_, rfl, .inr ⟨rfl, rfl⟩⟩
          simp only [RegInv, Bool.false_eq_true, if_false]
          refine ⟨by simp, ?_, ?_⟩
          · intro hv1; simp [h3 hv1]
          · intro ct hct
            cases task with
            | none => simp at hct
            | some ct0 => simp at hct; rw [← hct]
        | inr p' =>
          have hw' : ops.waitable p' = some h := (hS p c p' e hu).trans hw
          obtain ⟨w', evs', hr, hst, hcd, hwk, hh2, hh1⟩ := register_fresh
            (⟨.inProgress p', none, false, task.map (fun t => ({ t with registered := none } : CabiTask))⟩ : WOp S P)
            v t h hv ⟨fun hv1 => by simp [h3 hv1], fun ct hct => by
              cases task with
              | none => simp at hct
              | some ct0 => simp at hct; rw [← hct]⟩
          simp [hu, hw', hr] at hs
          obtain ⟨rfl, _⟩ := hs
          refine ⟨?_, rfl, .inl ⟨p', hst, hcd, by simp⟩⟩
          simp only [RegInv, Bool.false_eq_true, if_false, hst]
          refine ⟨fun _ => ⟨h, t, hw', rfl, hwk, hh2, ht⟩, ?_, hh1⟩
          intro c' hc; rw [hcd] at hc; simp at hc


/-- `pollCompleteWithCode` without a context never touches the registrations -/
theorem pcwc_nocx_regs (ops : Ops S P R C) (w : WOp S P) (e : Env) (code : Option Nat)
    (r : PollR R) (w' : WOp S P) (e' : Env) (evs : List Ev)
    (h : pollCompleteWithCode ops w e false code = .ok (r, w', e') evs) : e' = e := by
  unfold pollCompleteWithCode at h
  cases code with
  | none =>
    simp only [Step.bind] at h
    cases hs : w.state <;> simp [hs] at h
    exact h.1.2.2.symm
  | some c =>
    simp only at h
    cases hs : w.state with
    | start s => simp [hs, Step.bind] at h
    | done => simp [hs, Step.bind] at h
    | inProgress p =>
      simp only [hs, Step.bind] at h
      cases hu : ops.update p c with
      | panic m ev => simp [hu] at h
      | ok rr ev =>
        cases rr with
        | inl res => simp [hu] at h; exact h.1.2.2.symm
        | inr p' => simp [hu] at h; exact h.1.2.2.symm

/-- **Inv2 (removed before cancel).**  When `cancel()` of an in-progress operation gets as far as
calling the cancel intrinsic (`cancelPrepare` returned `none`), the operation is registered with no
task any more. -/
theorem cancelPrepare_unregisters (ops : Ops S P R C) (v t0 : Nat) (hv : v = 1 ∨ v = 2)
    (w : WOp S P) (regs : List (Nat × Nat)) (p : P) (hst : w.state = .inProgress p)
    (hI : RegInv ops v t0 ⟨w, regs, false⟩) (t : Nat) (ht : v = 1 → t = t0)
    (d : Option C) (w1 : WOp S P) (e1 : Env) (evs : List Ev)
    (h : cancelPrepare ops w ⟨some ⟨t, v⟩, regs⟩ p = .ok (d, w1, e1) evs) : e1.regs = [] := by
  obtain ⟨state, wcode, waker, task⟩ := w
  simp only at hst
  subst hst
  simp only [RegInv, Bool.false_eq_true, if_false] at hI
  obtain ⟨h1, h2, h3⟩ := hI
  cases wcode with
  | none =>
    obtain ⟨hh, tp, hw, rfl, _, ht2, ht1⟩ := h1 rfl
    rcases hv with rfl | rfl
    · have := h3 rfl; subst this
      have e1' := ht1 rfl; have e2' := ht rfl
      subst e1'; subst e2'
      simp [cancelPrepare, hw, unregisterWaker, Step.bind] at h
      rw [← h.1.2.2]
    · have := ht2 rfl; subst this
      simp [cancelPrepare, hw, unregisterWaker, Step.bind] at h
      rw [← h.1.2.2]
  | some c =>
    obtain ⟨rfl, _, _, _⟩ := h2 c rfl
    simp only [cancelPrepare, Step.bind] at h
    cases hp : pollCompleteWithCode ops ⟨.inProgress p, none, waker, task⟩ ⟨some ⟨t, v⟩, []⟩ false (some c) with
    | panic m ev => simp [hp] at h
    | ok x ev =>
      obtain ⟨r, w', e'⟩ := x
      have := pcwc_nocx_regs ops _ _ _ r w' e' ev hp
      subst this
      simp only [hp] at h
      cases r <;> simp at h <;> (rw [← h.1.2.2])


theorem dropEvs_regs_empty (t : CabiTask) (e : Env) (h : e.regs = []) : (t.dropEvs e).1.regs = [] := by
  unfold CabiTask.dropEvs
  cases t.registered <;> simp [h]

/-- after `cancel()` no task holds a registration of the operation -/
theorem cancel_regs_empty (ops : Ops S P R C) (v t0 : Nat) (hv : v = 1 ∨ v = 2)
    (w : WOp S P) (regs : List (Nat × Nat)) (hI : RegInv ops v t0 ⟨w, regs, false⟩) (t ans : Nat) (ht : v = 1 → t = t0)
    (c : C) (w2 : WOp S P) (e2 : Env) (evs : List Ev)
    (h : cancel ops w ⟨some ⟨t, v⟩, regs⟩ ans = .ok (c, w2, e2) evs) : e2.regs = [] := by
  unfold cancel at h
  cases hst : w.state with
  | done => simp [hst] at h
  | start s =>
    simp only [hst] at h
    have hI' := hI
    simp only [RegInv, Bool.false_eq_true, if_false, hst] at hI'
    simp only [Step.ok.injEq, Prod.mk.injEq] at h
    rw [← h.1.2.2]; exact hI'.1
  | inProgress p =>
    simp only [hst, Step.bind] at h
    cases hp : cancelPrepare ops w ⟨some ⟨t, v⟩, regs⟩ p with
    | panic m ev => simp [hp] at h
    | ok x ev =>
      obtain ⟨d, w1, e1⟩ := x
      have hr := cancelPrepare_unregisters ops v t0 hv w regs p hst hI t ht d w1 e1 ev hp
      simp only [hp] at h
      cases d with
      | some c' =>
        simp only [Step.ok.injEq, Prod.mk.injEq] at h
        rw [← h.1.2.2]; exact hr
      | none =>
        simp only at h
        cases hs1 : w1.state with
        | start s => simp [hs1] at h
        | done => simp [hs1] at h
        | inProgress p' =>
          simp only [hs1, Step.emit, Step.bind] at h
          cases hq : pollCompleteWithCode ops w1 e1 false (some (ops.cancel p' ans).2) with
          | panic m ev2 => simp [hq] at h
          | ok y ev2 =>
            obtain ⟨r, w3, e3⟩ := y
            have := pcwc_nocx_regs ops _ _ _ r w3 e3 ev2 hq
            subst this
            simp only [hq] at h
            cases r with
            | pending => simp at h
            | ready res =>
              simp only [Step.ok.injEq, Prod.mk.injEq] at h
              rw [← h.1.2.2]; exact hr

/-- after the destructor of the operation no task holds a registration of it -/
theorem dropOp_regs_empty (ops : Ops S P R C) (dropC : C → List Ev) (v t0 : Nat) (hv : v = 1 ∨ v = 2)
    (w : WOp S P) (regs : List (Nat × Nat)) (hI : RegInv ops v t0 ⟨w, regs, false⟩) (t ans : Nat) (ht : v = 1 → t = t0)
    (e' : Env) (evs : List Ev)
    (h : dropOp ops dropC w ⟨some ⟨t, v⟩, regs⟩ ans = .ok e' evs) : e'.regs = [] := by
  unfold dropOp at h
  cases hd : dropCancel ops dropC w ⟨some ⟨t, v⟩, regs⟩ ans with
  | panic m e => simp [hd, Step.bind] at h
  | ok x e =>
    obtain ⟨w1, e1⟩ := x
    -- the environment after the (possible) cancel has no registration
    have hr : e1.regs = [] := by
      unfold dropCancel at hd
      cases hst : w.state with
      | done =>
        simp only [hst, Step.ok.injEq, Prod.mk.injEq] at hd
        have hI' := hI
        simp only [RegInv, Bool.false_eq_true, if_false, hst] at hI'
        rw [← hd.1.2]; exact hI'.1
      | start s =>
        simp only [hst, Step.bind] at hd
        cases hc : cancel ops w ⟨some ⟨t, v⟩, regs⟩ ans with
        | panic m e => simp [hc] at hd
        | ok x e =>
          obtain ⟨c, w2, e2⟩ := x
          simp only [hc, Step.ok.injEq, Prod.mk.injEq] at hd
          rw [← hd.1.2]; exact cancel_regs_empty ops v t0 hv w regs hI t ans ht c w2 e2 e hc
      | inProgress p =>
        simp only [hst, Step.bind] at hd
        cases hc : cancel ops w ⟨some ⟨t, v⟩, regs⟩ ans with
        | panic m e => simp [hc] at hd
        | ok x e =>
          obtain ⟨c, w2, e2⟩ := x
          simp only [hc, Step.ok.injEq, Prod.mk.injEq] at hd
          rw [← hd.1.2]; exact cancel_regs_empty ops v t0 hv w regs hI t ans ht c w2 e2 e hc
    simp only [hd, Step.bind] at h
    cases htk : w1.task with
    | none =>
      simp [htk] at h
      rw [← h.1]; exact hr
    | some ct =>
      simp [htk] at h
      rw [← h.1]; exact dropEvs_regs_empty ct e1 hr

/-- **Inv4 (no dangling registration).**  Dropping the operation — in any state, with or without a
queued completion, under any task for the v2 ABI — leaves no registration behind. -/
theorem regInv_drop (ops : Ops S P R C) (dropC : C → List Ev) (v t0 : Nat) (hv : v = 1 ∨ v = 2)
    (g : GSys S P) (hI : RegInv ops v t0 g) (t ans : Nat) (hg : g.gone = false) (ht : v = 1 → t = t0)
    (g' : GSys S P) (evs : List Ev)
    (hs : g.step ops dropC v (.drop t ans) = .ok g' evs) : RegInv ops v t0 g' := by
  obtain ⟨w, regs, gone⟩ := g
  simp only at hg
  subst hg
  simp only [GSys.step] at hs
  cases hd : dropOp ops dropC w ⟨some ⟨t, v⟩, regs⟩ ans with
  | panic m e => simp [hd, Step.bind] at hs
  | ok e' ev =>
    have := dropOp_regs_empty ops dropC v t0 hv w regs hI t ans ht e' ev hd
    simp [hd, Step.bind] at hs
    obtain ⟨rfl, _⟩ := hs
    simp [RegInv, this]


/-- States reachable from a fresh operation by legal labels. -/
inductive GReach (ops : Ops S P R C) (dropC : C → List Ev) (v t0 : Nat) (s0 : S) : GSys S P → Prop
  | init : GReach ops dropC v t0 s0 ⟨WOp.new s0, [], false⟩
  | step {g l g' evs} : GReach ops dropC v t0 s0 g → GLegal v t0 g l → g.step ops dropC v l = .ok g' evs →
      GReach ops dropC v t0 s0 g'

theorem regInv_init (ops : Ops S P R C) (v t0 : Nat) (s0 : S) : RegInv ops v t0 ⟨WOp.new s0, [], false⟩ := by
  simp [RegInv, WOp.new]

theorem reach_regInv (ops : Ops S P R C) (hS : ops.Stable) (dropC : C → List Ev) (v t0 : Nat) (hv : v = 1 ∨ v = 2)
    (s0 : S) {g : GSys S P} (h : GReach ops dropC v t0 s0 g) : RegInv ops v t0 g := by
  induction h with
  | init => exact regInv_init ops v t0 s0
  | step hr hl hs ih =>
    rename_i g l g' evs
    cases l with
    | poll t ans => exact (regInv_poll ops hS dropC v t0 hv g ih t ans hl.1 hl.2 g' evs hs).1
    | deliver code => exact regInv_deliver ops dropC v t0 g ih code hl g' evs hs
    | drop t ans => exact regInv_drop ops dropC v t0 hv g ih t ans hl.1 hl.2 g' evs hs

/-- labels without the single-task restriction (used to state what goes wrong for the v1 ABI) -/
def GLegalFree (g : GSys S P) : GLabel → Prop
  | .poll _ _ => g.gone = false
  | .deliver _ => g.gone = false
  | .drop _ _ => g.gone = false

inductive GReachFree (ops : Ops S P R C) (dropC : C → List Ev) (v : Nat) (s0 : S) : GSys S P → Prop
  | init : GReachFree ops dropC v s0 ⟨WOp.new s0, [], false⟩
  | step {g l g' evs} : GReachFree ops dropC v s0 g → GLegalFree g l → g.step ops dropC v l = .ok g' evs →
      GReachFree ops dropC v s0 g'

end Witverif.Async
