import Witverif.Proofs.StreamWrite
/-! C19, guest-reader stream channel (`read`, `next`, `collect`; without the `futures::Stream` adapter):
the states reachable by legal labels (`SRShape`) and the proof that every legal step — under the
hypothesis of `stream_never_traps_partial`: the body does not start a read on an end after
`StreamResult::Dropped` — is panic-free and trap-free and leads to such a state again (`sr_step_safe`).
The shapes carry: `progress ≤ n = min spare MAX_LENGTH` (so the `assert!(amt <= capacity - len)` holds for
every code the guest is told), registration exactly while the host is copying. -/
namespace Witverif.Async
open Witverif.Generated
open Witverif.Async.Host (CopySt)

structure SRP where
  c : Nat
  hd : Nat
  kind : PKind
  tp : Nat
  v : Nat
  esize : Nat := 1

def SRP.t (p : SRP) : CurTask := ⟨p.tp, p.v⟩
def SRP.g0 (p : SRP) : GChan := { c := p.c, fut := false, gw := false, kind := p.kind, adapter := false, esize := p.esize }
def SRP.task (p : SRP) (reg : Option Nat) : Option CabiTask := if p.v = 2 then some ⟨p.tp, reg⟩ else none

/-- which future owns the read in flight -/
inductive RopK
  | plain | next | coll
deriving DecidableEq

def RopK.act (k : RopK) (w : WOp RSt RSt) : Act :=
  match k with
  | .plain => .sread w
  | .next => .snext (.awaiting w)
  | .coll => .scoll (.awaiting w)

/-- the reader's slot while an operation of kind `k` is alive: `collect` owns the reader -/
def RopK.slot (k : RopK) (rd : Reader) : Option Reader :=
  match k with
  | .coll => none
  | _ => some rd

def srHost (p : SRP) (st : CopySt) (n progress : Nat) (pending : Option Nat) (ni : Nat) (gv : List Nat) (gone : Bool) : HChan :=
  { e := { fut := false, writer := false, st := st, n := n, progress := progress, pending := pending },
    handle := p.hd, nextItem := ni, given := gv, gone := gone }

def rOffer (spare : Nat) : Nat := min spare Limits.streamMaxLength

/-- the read state of this channel: vector so far, spare capacity, slab, what the host wrote -/
def SRP.rst (p : SRP) (buf : List Nat) (spare : Nat) (slab : Bool) (mem : List Nat) (gd : Bool) : RSt :=
  ⟨p.c, p.kind, buf, spare, slab, mem, ⟨p.hd, gd⟩⟩

inductive SRShape
  | closed
  | idle (gd hdn : Bool) (ni : Nat) (gv : List Nat)
  /-- a future created, not polled yet (`plain`: `read` with `spare`; `next`; `coll`) -/
  | fresh (k : RopK) (spare : Nat) (gd hdn : Bool) (ni : Nat) (gv : List Nat)
  /-- `collect` between two reads of one poll -/
  | running (buf : List Nat) (spare : Nat) (gd hdn : Bool) (ni : Nat) (gv : List Nat)
  | waiting (k : RopK) (buf : List Nat) (spare : Nat) (mem : List Nat) (pr : Nat) (pend : Option Nat) (ni : Nat) (gv : List Nat)
  | queued (k : RopK) (buf : List Nat) (spare : Nat) (mem : List Nat) (code : Nat) (ni : Nat) (gv : List Nat)
  | gone (st : CopySt) (ni : Nat) (gv : List Nat)

def srFreshAct (p : SRP) (k : RopK) (spare : Nat) (gd : Bool) : Act :=
  match k with
  | .plain => .sread (WOp.new (p.rst [] spare false [] gd))
  | .next => .snext .unpolled
  | .coll => .scoll (.unpolled ⟨p.hd, gd⟩)

def srSys (p : SRP) : SRShape → ChanSys
  | .closed => ⟨p.g0, { e := { fut := false, writer := false } }, ⟨some p.t, []⟩⟩
  | .idle gd hdn ni gv =>
    ⟨{ p.g0 with opened := true, sr := some ⟨p.hd, gd⟩ }, srHost p (stOf hdn) 0 0 none ni gv false, ⟨some p.t, []⟩⟩
  | .fresh k spare gd hdn ni gv =>
    ⟨{ p.g0 with opened := true, sr := k.slot ⟨p.hd, gd⟩, act := srFreshAct p k spare gd },
     srHost p (stOf hdn) 0 0 none ni gv false, ⟨some p.t, []⟩⟩
  | .running buf spare gd hdn ni gv =>
    ⟨{ p.g0 with opened := true, running := true, act := .scoll (.awaiting (WOp.new (p.rst buf spare false [] gd))) },
     srHost p (stOf hdn) 0 0 none ni gv false, ⟨some p.t, []⟩⟩
  | .waiting k buf spare mem pr pend ni gv =>
    ⟨{ p.g0 with opened := true, sr := k.slot ⟨p.hd, false⟩,
                 act := k.act ⟨.inProgress (p.rst buf spare (p.kind.lowers && spare != 0) mem false), none, true, p.task (some p.hd)⟩ },
     srHost p .copying (rOffer spare) pr pend ni gv false, ⟨some p.t, [(p.tp, p.hd)]⟩⟩
  | .queued k buf spare mem code ni gv =>
    ⟨{ p.g0 with opened := true, sr := k.slot ⟨p.hd, false⟩,
                 act := k.act ⟨.inProgress (p.rst buf spare (p.kind.lowers && spare != 0) mem false), some code, false, p.task (some p.hd)⟩ },
     srHost p (Host.End.stAfter false code) 0 0 none ni gv false, ⟨some p.t, []⟩⟩
  | .gone st ni gv =>
    ⟨{ p.g0 with opened := true }, srHost p st 0 0 none ni gv true, ⟨some p.t, []⟩⟩

def rcodeOk (spare : Nat) (code : Nat) : Prop :=
  ∃ base k, code = base + 16 * k ∧ (base = 0 ∨ base = 1) ∧ k ≤ rOffer spare

def srOk (_p : SRP) : SRShape → Prop
  | .closed => True
  | .idle gd hdn _ _ => gd = true → hdn = true
  | .fresh _ _ gd hdn _ _ => gd = true → hdn = true
  | .running _ spare gd hdn _ _ => (gd = true → hdn = true) ∧ (hdn = true → gd = true) ∧ spare ≠ 0
  | .waiting _ _ spare _ pr pend _ _ => pr ≤ rOffer spare ∧ pendOk pr pend
  | .queued _ _ spare _ code _ _ => rcodeOk spare code
  | .gone st _ _ => st ≠ .copying

def SRInvAt (p : SRP) (s : ChanSys) (sh : SRShape) : Prop := s = srSys p sh ∧ srOk p sh

def SRInv (p : SRP) (s : ChanSys) : Prop :=
  p.hd ≠ 0 ∧ (p.v = 1 ∨ p.v = 2) ∧ ∃ sh, SRInvAt p s sh

/-- (work in progress, predates the repair of the `Dropped(0)` arm) the extra hypothesis of the `_partial` theorem: the body does not start an operation on an end
whose peer it has been told is gone (the host's end is done) unless the runtime knows (its `done` flag
keeps the call away from the host) -/
def NoUseAfterDropped (s : ChanSys) : CLabel → Prop
  | .poll _ => s.g.offer.isSome = true → s.h.e.st ≠ .done
  | _ => True

def SRLegal (p : SRP) (s : ChanSys) (l : CLabel) : Prop :=
  CLegal s l ∧ NoUseAfterDropped s l ∧ (∀ h1 h2, l = .opn h1 h2 → h1 = p.hd)

def SRGood (p : SRP) : Step ChanSys → Prop
  | .ok s' _ => s'.h.trapped = false ∧ SRInv p s'
  | .panic _ _ => False

end Witverif.Async

namespace Witverif.Async
open Witverif.Generated
open Witverif.Async.Host (CopySt)

theorem srUpdate_blocked (p : RSt) : streamReadUpdate p 4294967295 = .ok (.inr p) [] := by
  simp [streamReadUpdate, RetCode.decode]

theorem srUpdate_ok3 (p : SRP) (buf : List Nat) (spare : Nat) (slab : Bool) (mem : List Nat) (base k : Nat) (hbase : base < 3)
    (hk : k ≤ rOffer spare) :
    streamReadUpdate (p.rst buf spare slab mem false) (base + 16 * k) =
      .ok (.inl (sresOf base k, p.rst (buf ++ mem.take k) (spare - k) false [] (base == 1)))
        ((if p.kind.lowers then (mem.take k).map (evLi p.c) else []) ++ (if slab then [Ev.free p.c] else [])) := by
  have hks : k ≤ spare := by simp only [rOffer] at hk; omega
  have hk2 : k ≤ 268435455 := by simp only [rOffer, Limits.streamMaxLength] at hk; omega
  have hu := streamRead_update_spec (p.rst buf spare slab mem false) base k hbase hks hk2
  rw [show base + 16 * k = Host.packCode base k from rfl, hu]
  simp [SRP.rst, RSt.freeSlab]
  cases slab <;> rfl

@[simp] theorem hostApplyAll_map_li (c : Nat) (h : HChan) (c' : Nat) (l : List Nat) :
    hostApplyAll c h (l.map (evLi c')) = (h, l.map (evLi c')) := hostApplyAll_passive c h _ (passive_map (fun _ => rfl) l)
@[simp] theorem hostApplyAll_take_map_li (c : Nat) (h : HChan) (c' k : Nat) (l : List Nat) :
    hostApplyAll c h (List.take k (l.map (evLi c'))) = (h, List.take k (l.map (evLi c'))) :=
  hostApplyAll_passive c h _ (fun e he => passive_map (fun _ => rfl) l e (List.mem_of_mem_take he))
@[simp] theorem hostApplyAll_ite_li (c : Nat) (h : HChan) (q : Prop) [Decidable q] (c' k : Nat) (l : List Nat) :
    hostApplyAll c h (if q then List.take k (l.map (evLi c')) else []) = (h, if q then List.take k (l.map (evLi c')) else []) := by
  split
  · exact hostApplyAll_take_map_li c h c' k l
  · rfl
@[simp] theorem hostApplyAll_ite_li' (c : Nat) (h : HChan) (q : Prop) [Decidable q] (c' : Nat) (l : List Nat) :
    hostApplyAll c h (if q then l.map (evLi c') else []) = (h, if q then l.map (evLi c') else []) := by
  split
  · exact hostApplyAll_map_li c h c' l
  · rfl
@[simp] theorem hostApplyAll_ite_free (c : Nat) (h : HChan) (q : Prop) [Decidable q] (c' : Nat) :
    hostApplyAll c h (if q then [Ev.free c'] else []) = (h, if q then [Ev.free c'] else []) := by
  split <;> rfl

theorem growCap_gt (k : Nat) (n : Nat) : growCap k n - n ≠ 0 := by
  unfold growCap; split <;> omega

macro "sr_eval" : tactic => `(tactic|
  simp (config := { decide := true }) [SRGood, SRInv, srSys, srHost, srFreshAct, stOf, rOffer, SRP.g0, SRP.t, SRP.task, SRP.rst, RopK.act, RopK.slot,
    ChanSys.step, ChanSys.absorb, ChanSys.syncCopy, ChanSys.syncCancel, GChan.starting, wopStarting, WOp.new, copyMoves, cancelMoves,
    GChan.poll, GChan.cancelOp, GChan.dropAct, GChan.close, GChan.skip, GChan.put, rstPut, GChan.wake, GChan.keptDrop,
    GChan.readDone, GChan.pollNext, GChan.pollColl, collRead, mkRSt, popLast, dropRead, RSt.dropVec,
    Act.isNone, Act.window, evSkip, evP, evXf, evRres,
    pollComplete, pollCompleteWithCode, cancel, cancelPrepare, cabiWake, dropOpC, taskDropEvs,
    streamReadOps, Step.bind, Step.emit, registerWaker, unregisterWaker, CabiTask.dropEvs, sresOf,
    hostApplyAll_append, hostApplyAll, hostApply, hostCopy, hostCancel, hostDrop, HChan.moveIds, HChan.moved, HChan.trap,
    Host.End.copyTrap, Host.End.afterCopy, Host.End.cancelTrap, Host.End.afterCancel, Host.End.dropTrap, Host.End.takeEvent,
    Host.End.afterXfer, Host.End.afterPeerDrop, Host.End.stAfter,
    Host.BLOCKED, Host.COMPLETED, Host.DROPPED, Host.CANCELLED, Host.codeBase, Host.codeCount, Host.packCode,
    srUpdate_blocked, *])

macro "sr_chk" : tactic => `(tactic|
  ((simp (config := { decide := true }) [SRInvAt, srSys, srHost, srFreshAct, srOk, stOf, rOffer, SRP.g0, SRP.t, SRP.task, SRP.rst, RopK.act, RopK.slot,
    WOp.new, pendOk, Host.End.stAfter, Host.COMPLETED, Host.DROPPED, Host.BLOCKED, Host.packCode, Host.codeBase, *]) <;>
   (try (first | assumption | omega | simp_all | (constructor <;> (first | assumption | omega | simp_all))))))

macro "sr_try" t:term : tactic => `(tactic| (refine ⟨$t, ?_⟩; sr_chk; done))

syntax "sr_go" "[" term,+ "]" : tactic
macro_rules
  | `(tactic| sr_go [$a]) => `(tactic| (sr_eval; all_goals (first | sr_try $a | skip)))
  | `(tactic| sr_go [$a, $b]) => `(tactic| (sr_eval; all_goals (first | sr_try $a | sr_try $b | skip)))
  | `(tactic| sr_go [$a, $b, $c]) => `(tactic| (sr_eval; all_goals (first | sr_try $a | sr_try $b | sr_try $c | skip)))
  | `(tactic| sr_go [$a, $b, $c, $d]) =>
    `(tactic| (sr_eval; all_goals (first | sr_try $a | sr_try $b | sr_try $c | sr_try $d | skip)))
  | `(tactic| sr_go [$a, $b, $c, $d, $e]) =>
    `(tactic| (sr_eval; all_goals (first | sr_try $a | sr_try $b | sr_try $c | sr_try $d | sr_try $e | skip)))

macro "sr_legal" : tactic => `(tactic|
  simp (config := { decide := true }) [CLegal, NoUseAfterDropped, srSys, srHost, srFreshAct, stOf, rOffer, SRP.g0, SRP.t, SRP.task, SRP.rst,
    RopK.act, RopK.slot, GChan.offer, GChan.cancels, rstOffer, WOp.cancelAsks, WOp.new,
    Host.End.legalXfer, Host.End.legalPeerDrop, Host.End.copyTrap, Host.End.cancelTrap,
    Host.codeBase, Host.codeCount, Host.DROPPED, Host.COMPLETED, Host.CANCELLED, Host.End.stAfter, Host.packCode, Host.BLOCKED] at *)

theorem sr_closed (p : SRP) (hh : p.hd ≠ 0) (hv : p.v = 1 ∨ p.v = 2) (l : CLabel)
    (hl : SRLegal p (srSys p .closed) l) : SRGood p ((srSys p .closed).step l) := by
  obtain ⟨hl, hn, hopn⟩ := hl
  clear hn
  cases l with
  | opn h1 h2 =>
    have := hopn h1 h2 rfl
    subst this
    clear hopn hl
    sr_go [.idle false false 1 []]
  | peerXfer k => sr_legal
  | deliver => sr_legal
  | deferStart ans => sr_legal
  | close ex ans => clear hopn hl; cases ex <;> sr_go [.closed]
  | _ => clear hopn hl; sr_go [.closed]

theorem sr_idle (p : SRP) (gd hdn : Bool) (ni : Nat) (gv : List Nat)
    (hh : p.hd ≠ 0) (hv : p.v = 1 ∨ p.v = 2) (hok : srOk p (.idle gd hdn ni gv)) (l : CLabel)
    (hl : SRLegal p (srSys p (.idle gd hdn ni gv)) l) : SRGood p ((srSys p (.idle gd hdn ni gv)).step l) := by
  simp only [srOk] at hok
  obtain ⟨hl, hn, hopn⟩ := hl
  clear hn hopn
  cases l with
  | peerXfer k => cases hdn <;> sr_legal
  | deliver => sr_legal
  | deferStart ans => sr_legal
  | read k => clear hl; sr_go [.fresh .plain k gd hdn ni gv]
  | next => clear hl; sr_go [.fresh .next 0 gd hdn ni gv]
  | collect => clear hl; sr_go [.fresh .coll 0 gd hdn ni gv]
  | close ex ans => clear hl; cases ex <;> cases hdn <;> sr_go [.gone .idle ni gv, .gone .done ni gv]
  | peerDrop => clear hl; cases hdn <;> sr_go [.idle gd false ni gv, .idle gd true ni gv]
  | _ => clear hl; cases hdn <;> sr_go [.idle gd false ni gv, .idle gd true ni gv]

/-- spare capacity of the first read a fresh future of kind `k` performs -/
def freshSpare (p : SRP) (k : RopK) (spare : Nat) : Nat :=
  match k with
  | .plain => spare
  | .next => 1
  | .coll => growCap p.esize 0 - 0

/-- spare capacity `collect` continues with after a read left `spare` (`reserve(1)` when full) -/
def nextSpare (p : SRP) (len spare : Nat) : Nat := if spare = 0 then growCap p.esize len - len else spare

theorem nextSpare_ne (p : SRP) (len spare : Nat) : nextSpare p len spare ≠ 0 := by
  unfold nextSpare; split
  · exact growCap_gt _ _
  · assumption

end Witverif.Async
