import Witverif.Proofs.RustStr
import Witverif.Text.Source
/-! Helper lemmas for C25 (`Props/C25.lean`): the `Source` model seen piece by piece, and its
relation to the spec-side tracking state. -/
namespace Witverif.Text.SourceSpec
open RustStr

/-! ### `strip` / `lineBlank` (spec side) -/

theorem strip_append (x y : List Char) : ∀ b, strip b (x ++ y) = strip b x ++ strip (lineBlank b x) y := by
  induction x with
  | nil => intro b; simp [strip, lineBlank]
  | cons c cs ih =>
    intro b
    simp only [List.cons_append, strip, lineBlank]
    split
    · simp [ih]
    · split <;> simp [ih]

theorem lineBlank_append (x y : List Char) : ∀ b, lineBlank b (x ++ y) = lineBlank (lineBlank b x) y := by
  induction x with
  | nil => intro b; simp [lineBlank]
  | cons c cs ih =>
    intro b
    simp only [List.cons_append, lineBlank]
    split
    · exact ih _
    · split <;> exact ih _

/-- whitespace other than a line break -/
def Ws (w : List Char) : Prop := ∀ c ∈ w, isWhite c = true ∧ c ≠ '\n'

theorem strip_ws (w : List Char) (hw : Ws w) : strip true w = [] ∧ lineBlank true w = true := by
  induction w with
  | nil => simp [strip, lineBlank]
  | cons c cs ih =>
    have hc := hw c (by simp)
    have := ih (fun d hd => hw d (by simp [hd]))
    simp [strip, lineBlank, hc.1, hc.2, this]

theorem lineBlank_ws (w : List Char) (hw : Ws w) (b : Bool) : lineBlank b w = b := by
  induction w with
  | nil => simp [lineBlank]
  | cons c cs ih =>
    have hc := hw c (by simp)
    have := ih (fun d hd => hw d (by simp [hd]))
    cases b <;> simp [lineBlank, hc.1, hc.2, this]

theorem strip_blank_ws (s w y : List Char) (hb : lineBlank true s = true) (hw : Ws w) :
    strip true (s ++ w ++ y) = strip true (s ++ y) ∧ lineBlank true (s ++ w) = true := by
  have h1 := strip_ws w hw
  simp only [List.append_assoc, strip_append, lineBlank_append, hb, h1.1, h1.2, List.nil_append, and_self]

theorem ws_takeWhile (l : List Char) (hl : '\n' ∉ l) : Ws (l.takeWhile isWhite) := by
  induction l with
  | nil => intro c hc; simp at hc
  | cons a l ih =>
    intro c hc
    rw [List.takeWhile_cons] at hc
    split at hc
    · rename_i ha
      simp only [List.mem_cons] at hc
      rcases hc with rfl | hc
      · exact ⟨ha, fun h => hl (by simp [h])⟩
      · exact ih (fun h => hl (by simp [h])) c hc
    · simp at hc

theorem ws_replicate_space (n : Nat) : Ws (List.replicate n ' ') := by
  intro c hc
  rw [List.mem_replicate] at hc
  rw [hc.2]; decide

/-! ### `crlfToLf` piece by piece -/

theorem crlfToLf_noNl (l : List Char) (h : '\n' ∉ l) : crlfToLf l = l := by
  induction l with
  | nil => rfl
  | cons a l ih =>
    have hl : '\n' ∉ l := fun hm => h (by simp [hm])
    unfold crlfToLf
    rw [if_neg, ih hl]
    rintro ⟨_, h2⟩
    cases l with
    | nil => simp at h2
    | cons b l' => simp at h2; exact h (by simp [h2])

theorem crlfToLf_line (l r : List Char) (h : '\n' ∉ l) :
    crlfToLf (l ++ '\n' :: r) = stripCrEnd l ++ '\n' :: crlfToLf r := by
  induction l with
  | nil =>
    simp only [List.nil_append]
    rw [crlfToLf, if_neg (fun h => absurd h.1 (by decide))]
    rfl
  | cons a l ih =>
    have ha : a ≠ '\n' := fun e => h (by simp [e])
    have hl : '\n' ∉ l := fun hm => h (by simp [hm])
    cases l with
    | nil =>
      simp only [List.cons_append, List.nil_append]
      by_cases har : a = '\r'
      · subst har
        rw [crlfToLf, if_pos (by simp)]
        rw [crlfToLf, if_neg (fun h => absurd h.1 (by decide))]
        rfl
      · rw [crlfToLf, if_neg (by simp [har])]
        rw [crlfToLf, if_neg (fun h => absurd h.1 (by decide))]
        simp [stripCrEnd, har]
    | cons b l' =>
      have hb : b ≠ '\n' := fun e => hl (by simp [e])
      rw [List.cons_append, crlfToLf, if_neg (by simp; intro _; exact fun e => hb e)]
      rw [ih hl, stripCrEnd_cons a (b :: l') (by simp)]
      rfl

/-- a piece with its `\r\n` terminator normalised -/
def normPiece (p : List Char × Bool) : List Char × Bool := (lineOf p, p.2)

theorem crlfToLf_joinNl (ps : List (List Char × Bool)) (hp : Pieces ps) (hn : ∀ p ∈ ps, '\n' ∉ p.1) :
    crlfToLf (joinNl ps) = joinNl (ps.map normPiece) := by
  induction hp with
  | nil => rfl
  | last l t h =>
    have hl := hn (l, t) (by simp)
    cases t
    · simp [joinNl, normPiece, lineOf, crlfToLf_noNl _ hl]
    · simp only [joinNl, if_true, List.append_nil, List.map_cons, List.map_nil, normPiece, lineOf]
      rw [crlfToLf_line _ _ hl]; rfl
  | cons l ps hne hps ih =>
    have hl := hn (l, true) (by simp)
    simp only [joinNl, if_true, List.map_cons, normPiece, lineOf, List.append_assoc, List.singleton_append]
    rw [crlfToLf_line _ _ hl, ih (fun p hp => hn p (by simp [hp]))]

end Witverif.Text.SourceSpec

namespace Witverif.Text.Source
open RustStr SourceSpec

/-- one piece of a fragment: the loop body plus the newline decision -/
def pushPiece (single interp : Bool) (st : Source) (p : List Char × Bool) : Source :=
  if p.2 then newline (pushLine single interp (lineOf p) st) else pushLine single interp (lineOf p) st

theorem pushLines_eq_foldl (single interp : Bool) (ps : List (List Char × Bool)) (hp : Pieces ps) :
    ∀ st, pushLines single (lastTerm ps) interp (ps.map lineOf) st = ps.foldl (pushPiece single interp) st := by
  induction hp with
  | nil => intro st; simp [pushLines]
  | last l t h => intro st; cases t <;> simp [pushLines, lastTerm, pushPiece]
  | cons l ps hne hps ih =>
    intro st
    rw [lastTerm_cons _ _ hne]
    cases ps with
    | nil => exact absurd rfl hne
    | cons q r =>
      simp only [List.map_cons, List.foldl_cons]
      rw [pushLines]
      · simp only [List.map_cons, List.foldl_cons] at ih
        rw [ih]; simp [pushPiece]
      · simp

/-- `push_str_impl` is a fold of `pushPiece` over the `split_inclusive('\n')` pieces. -/
theorem pushStrImpl_eq (st : Source) (src : List Char) (interp : Bool) :
    pushStrImpl st src interp = (splitNl src).foldl (pushPiece ((splitNl src).length == 1) interp) st := by
  unfold pushStrImpl lines
  simp only [List.length_map]
  rw [← lastTerm_splitNl, pushLines_eq_foldl _ _ _ (splitNl_pieces src)]

/-! ### the model state and the spec-side tracking state -/

/-- the buffer is at a line start -/
def LineStart (s : List Char) : Prop := s = [] ∨ s.getLast? = some '\n'

/-- the model state and the spec-side tracking state describe the same history -/
structure Rel (st : Source) (tr : Track) : Prop where
  mid : tr.midLine = st.continuingLine
  cm : tr.inComment = st.inLineComment
  lvl : tr.levelOk = true → tr.level = st.indent
  ls : st.continuingLine = false → LineStart st.s

def mkPiece (single interp : Bool) (p : List Char × Bool) : Piece := ⟨p.1, p.2, interp, single⟩

theorem pushLine_indent (single interp : Bool) (st : Source) (tr : Track) (p : List Char × Bool)
    (hc : tr.inComment = st.inLineComment) (hl : tr.levelOk = true → tr.level = st.indent)
    (hok : (tr.piece (mkPiece single interp p)).levelOk = true) :
    (tr.piece (mkPiece single interp p)).level = (pushLine single interp (lineOf p) st).indent := by
  simp only [Track.piece, Bool.and_eq_true, Bool.and_eq_false_iff, Bool.not_eq_eq_eq_not,
    Bool.not_true, decide_eq_false_iff_not, Int.not_le] at hok
  have hlv := hl hok.1
  simp only [Track.piece, Track.delta, Track.eff, Track.comment, mkPiece, Piece.isComment, Piece.opens,
    Piece.closes, pushLine, trim_lineOf, hc] at hok ⊢
  generalize startsWith (trim p.1) ['/', '/'] = isCm at *
  generalize startsWith (trim p.1) ['}'] = cl at *
  generalize endsWith (trim p.1) ['{'] = op at *
  generalize st.inLineComment = cm0 at *
  rw [hlv] at hok ⊢
  cases interp <;> cases cm0 <;> cases isCm <;> cases cl <;> cases op <;> simp at hok ⊢ <;> omega

theorem rel_piece (single interp : Bool) (st : Source) (tr : Track) (p : List Char × Bool)
    (h : Rel st tr) : Rel (pushPiece single interp st p) (tr.piece (mkPiece single interp p)) := by
  obtain ⟨hm, hc, hl, hs⟩ := h
  unfold pushPiece
  cases hp2 : p.2
  · simp only [Bool.false_eq_true, if_false]
    constructor
    · simp [Track.piece, mkPiece, hp2, pushLine]
    · simp [Track.piece, mkPiece, hp2, pushLine, Track.comment, Piece.isComment, trim_lineOf, hc]
    · exact pushLine_indent single interp st tr p hc hl
    · simp [pushLine]
  · simp only [if_true]
    constructor
    · simp [Track.piece, mkPiece, hp2, newline]
    · simp [Track.piece, mkPiece, hp2, newline]
    · exact pushLine_indent single interp st tr p hc hl
    · intro _; right; simp [newline]

/-! ### the buffer after one line -/

theorem endsWith_two_spaces_append (x : List Char) (n : Nat) :
    endsWith (x ++ List.replicate (n + 2) ' ') [' ', ' '] = true := by
  simp only [endsWith, List.reverse_append, List.reverse_replicate]
  show [' ', ' '].isPrefixOf (' ' :: ' ' :: (List.replicate n ' ' ++ x.reverse)) = true
  simp [List.isPrefixOf]

theorem pop2_append_replicate (x : List Char) (n : Nat) :
    pop2 (x ++ List.replicate (n + 2) ' ') = x ++ List.replicate n ' ' := by
  have : x ++ List.replicate (n + 2) ' ' = (x ++ List.replicate n ' ') ++ [' '] ++ [' '] := by
    rw [List.replicate_succ', List.replicate_succ']; simp
  rw [this, pop2, List.dropLast_concat, List.dropLast_concat]

theorem lineStart_not_endsWith_spaces (s : List Char) (h : LineStart s) : endsWith s [' ', ' '] = false := by
  rcases h with rfl | h
  · rfl
  · unfold endsWith
    rw [← List.head?_reverse] at h
    cases hr : s.reverse with
    | nil => rfl
    | cons a l => rw [hr] at h; simp at h; subst h; simp [List.isPrefixOf]

theorem startsWith_nil_closes : startsWith (trim []) ['}'] = false := by rfl

/-- the indentation written in front of a line that begins at a line start -/
def indentOf (interp : Bool) (line : List Char) (st : Source) : List Char :=
  let cm := st.inLineComment || (interp && startsWith (trim line) ['/', '/'])
  if line.isEmpty then []
  else List.replicate (2 * (st.indent - (if interp && !cm && startsWith (trim line) ['}'] then 1 else 0))) ' '

theorem pushLine_s_lineStart (single interp : Bool) (line : List Char) (st : Source)
    (hc : st.continuingLine = false) (hs : LineStart st.s) :
    (pushLine single interp line st).s =
      st.s ++ indentOf interp line st ++ (if single then line else trimStart line) := by
  simp only [pushLine, hc, indentOf]
  cases hl : line.isEmpty
  · -- a non-empty line
    simp only [Bool.not_false, Bool.and_true, if_true, Bool.false_eq_true, if_false, spaces]
    cases hi : st.indent with
    | zero =>
      simp [lineStart_not_endsWith_spaces _ hs]
    | succ k =>
      have e : 2 * (k + 1) = 2 * k + 2 := by omega
      rw [e, endsWith_two_spaces_append]
      split
      · rename_i h
        simp only [Bool.and_true] at h
        simp only [pop2_append_replicate, h, if_true]
        rw [show k + 1 - 1 = k by omega]
      · rename_i h
        simp only [Bool.and_true] at h
        simp only [h]
        simp [e]
  · have : line = [] := by simpa using hl
    subst this
    simp [lineStart_not_endsWith_spaces _ hs, startsWith_nil_closes]

/-! ### content (monitor 1) -/

theorem lineStart_blank (s : List Char) (h : LineStart s) : lineBlank true s = true := by
  rcases h with rfl | h
  · rfl
  · have := eq_dropLast_concat s '\n' h
    rw [this, lineBlank_append]; simp [lineBlank]

theorem ws_indentOf (interp : Bool) (line : List Char) (st : Source) : Ws (indentOf interp line st) := by
  unfold indentOf
  split
  · intro c hc; simp at hc
  · exact ws_replicate_space _

/-- dropping the leading whitespace of a line that continues a blank line changes nothing -/
theorem strip_trimStart (s line y : List Char) (hb : lineBlank true s = true) (hn : '\n' ∉ line) :
    strip true (s ++ trimStart line ++ y) = strip true (s ++ line ++ y) := by
  have h := strip_blank_ws s (line.takeWhile isWhite) (trimStart line ++ y) hb (ws_takeWhile line hn)
  have e : line.takeWhile isWhite ++ (trimStart line ++ y) = line ++ y := by
    rw [← List.append_assoc, trimStart, List.takeWhile_append_dropWhile]
  calc strip true (s ++ trimStart line ++ y)
      = strip true (s ++ (trimStart line ++ y)) := by rw [List.append_assoc]
    _ = strip true (s ++ line.takeWhile isWhite ++ (trimStart line ++ y)) := h.1.symm
    _ = strip true (s ++ line ++ y) := by rw [List.append_assoc, e, List.append_assoc]

/-- C1: a line pushed at a line start preserves content -/
theorem content_lineStart (single interp : Bool) (line y : List Char) (st : Source)
    (hc : st.continuingLine = false) (hs : LineStart st.s) (hn : '\n' ∉ line) :
    strip true ((pushLine single interp line st).s ++ y) = strip true (st.s ++ line ++ y) := by
  rw [pushLine_s_lineStart single interp line st hc hs]
  have hb := lineStart_blank _ hs
  have h1 := strip_blank_ws st.s (indentOf interp line st) ((if single then line else trimStart line) ++ y) hb
    (ws_indentOf interp line st)
  rw [List.append_assoc (st.s ++ indentOf interp line st), h1.1]
  cases single
  · simp only [Bool.false_eq_true, if_false]
    rw [← List.append_assoc]
    exact strip_trimStart _ _ _ hb hn
  · simp


theorem newline_s (st : Source) : (newline st).s = st.s ++ ['\n'] := rfl
theorem newline_cont (st : Source) : (newline st).continuingLine = false := rfl
theorem newline_lineStart (st : Source) : LineStart (newline st).s := by right; simp [newline]

/-- F: pieces pushed from a line start preserve content up to CR-before-LF -/
theorem content_fold_lineStart (single interp : Bool) (ps : List (List Char × Bool)) (hp : Pieces ps)
    (hn : ∀ p ∈ ps, '\n' ∉ p.1) :
    ∀ st : Source, st.continuingLine = false → LineStart st.s →
      strip true (ps.foldl (pushPiece single interp) st).s = strip true (st.s ++ joinNl (ps.map normPiece)) := by
  induction hp with
  | nil => intro st _ _; simp [joinNl]
  | last l t h =>
    intro st hc hs
    have hl := lineOf_noNl (l, t) (hn (l, t) (by simp))
    cases t
    · have := content_lineStart single interp (lineOf (l, false)) [] st hc hs hl
      simpa [pushPiece, joinNl, normPiece] using this
    · have := content_lineStart single interp (lineOf (l, true)) ['\n'] st hc hs hl
      simpa [pushPiece, joinNl, normPiece, newline_s] using this
  | cons l ps hne hps ih =>
    intro st hc hs
    have hl := lineOf_noNl (l, true) (hn (l, true) (by simp))
    simp only [List.foldl_cons, pushPiece, if_true]
    rw [ih (fun p hp => hn p (by simp [hp])) _ (newline_cont _) (newline_lineStart _), newline_s]
    have := content_lineStart single interp (lineOf (l, true)) ('\n' :: joinNl (ps.map normPiece)) st hc hs hl
    simpa [joinNl, normPiece] using this

/-- does the line pop two spaces off the buffer -/
def popsAt (interp : Bool) (line : List Char) (st : Source) : Bool :=
  interp && !(st.inLineComment || (interp && startsWith (trim line) ['/', '/'])) &&
    startsWith (trim line) ['}'] && endsWith st.s [' ', ' ']

theorem pushLine_s_cont (single interp : Bool) (line : List Char) (st : Source)
    (hc : st.continuingLine = true) :
    (pushLine single interp line st).s =
      (if popsAt interp line st then pop2 st.s else st.s) ++ (if single then line else trimStart line) := by
  simp [pushLine, hc, popsAt]

theorem endsWith_two_spaces (s : List Char) (h : endsWith s [' ', ' '] = true) :
    s = pop2 s ++ [' ', ' '] := by
  unfold endsWith at h
  have hr : ∃ r, s.reverse = ' ' :: ' ' :: r := by
    cases hs : s.reverse with
    | nil => rw [hs] at h; simp at h
    | cons a l =>
      cases l with
      | nil => rw [hs] at h; simp [List.isPrefixOf] at h
      | cons b l' =>
        rw [hs] at h
        simp [List.isPrefixOf] at h
        exact ⟨l', by rw [← h.1, ← h.2]⟩
  obtain ⟨r, hr⟩ := hr
  have : s = r.reverse ++ [' ', ' '] := by
    have := congrArg List.reverse hr
    simpa using this
  have e : r.reverse ++ [' ', ' '] = (r.reverse ++ [' ']) ++ [' '] := by simp
  have hp : pop2 s = r.reverse := by
    rw [this, e, pop2, List.dropLast_concat, List.dropLast_concat]
  rw [hp]; exact this

theorem ws_two_spaces : Ws [' ', ' '] := by
  intro c hc; simp at hc; subst hc; decide

/-- C2: a line continuing a blank line preserves content -/
theorem content_cont_blank (single interp : Bool) (line y : List Char) (st : Source)
    (hc : st.continuingLine = true) (hb : lineBlank true st.s = true) (hn : '\n' ∉ line) :
    strip true ((pushLine single interp line st).s ++ y) = strip true (st.s ++ line ++ y) := by
  rw [pushLine_s_cont single interp line st hc]
  -- the popped spaces are leading whitespace
  have hpop : ∀ z, strip true ((if popsAt interp line st then pop2 st.s else st.s) ++ z) = strip true (st.s ++ z) ∧
      lineBlank true (if popsAt interp line st then pop2 st.s else st.s) = true := by
    intro z
    split
    · rename_i hp
      have he : endsWith st.s [' ', ' '] = true := by
        simp only [popsAt, Bool.and_eq_true] at hp; exact hp.2
      have hs := endsWith_two_spaces _ he
      have hb' : lineBlank true (pop2 st.s) = true := by
        rw [hs, lineBlank_append, lineBlank_ws _ ws_two_spaces] at hb; exact hb
      have := strip_blank_ws (pop2 st.s) [' ', ' '] z hb' ws_two_spaces
      constructor
      · rw [← this.1, ← hs]
      · exact hb'
    · exact ⟨rfl, hb⟩
  cases single
  · simp only [Bool.false_eq_true, if_false]
    rw [strip_trimStart _ _ _ (hpop []).2 hn, List.append_assoc, (hpop _).1, List.append_assoc]
  · simp only [if_true]
    rw [List.append_assoc, (hpop _).1, List.append_assoc]

theorem firstLine_splitNl (t : List Char) :
    firstLine t = match splitNl t with | [] => [] | p :: _ => p.1 := by
  induction t with
  | nil => rfl
  | cons c cs ih =>
    unfold firstLine at ih ⊢
    unfold splitNl
    by_cases hc : c = '\n'
    · simp [hc]
    · simp only [hc, if_false]
      rw [List.takeWhile_cons, if_pos (by simpa using hc), ih]
      cases splitNl cs with
      | nil => rfl
      | cons p r => rfl

theorem trimStartLine_line (l r : List Char) (h : '\n' ∉ l) :
    trimStartLine (l ++ '\n' :: r) = trimStart l ++ '\n' :: r := by
  induction l with
  | nil => simp [trimStartLine, trimStart]
  | cons a l ih =>
    have ha : a ≠ '\n' := fun e => h (by simp [e])
    have hl : '\n' ∉ l := fun hm => h (by simp [hm])
    unfold trimStartLine trimStart at ih ⊢
    simp only [List.cons_append, List.dropWhile_cons]
    by_cases hw : isWhite a = true
    · simp only [hw, Bool.true_and, bne_iff_ne, ne_eq, ha, not_false_eq_true, if_true]
      exact ih hl
    · simp [hw]

theorem trimStart_of_head (l : List Char) (h : l.head?.any isWhite = false) : trimStart l = l := by
  cases l with
  | nil => rfl
  | cons a l => simp at h; simp [trimStart, h]

theorem head_stripCrEnd (l : List Char) (h : l.head?.any isWhite = false) :
    (stripCrEnd l).head?.any isWhite = false := by
  cases l with
  | nil => rfl
  | cons a l =>
    cases l with
    | nil =>
      simp at h
      unfold stripCrEnd
      split
      · rfl
      · simpa using h
    | cons b l' => rw [stripCrEnd_cons _ _ (by simp)]; simpa using h

theorem trimStart_lineOf_of_head (p : List Char × Bool) (h : p.1.head?.any isWhite = false) :
    trimStart (lineOf p) = lineOf p := by
  apply trimStart_of_head
  unfold lineOf; split
  · exact head_stripCrEnd _ h
  · exact h

/-- content preserved up to CR-before-LF is explained by the `cr` loss alone -/
theorem plain_loss (prev out t : List Char) (interp : Bool)
    (h : strip true out = strip true (prev ++ crlfToLf t)) :
    ∃ l : Loss, l.le (applicable prev t interp) = true ∧ contentEq out (lossy l prev t) = true := by
  refine ⟨⟨crlfToLf t != t, false, false⟩, by simp [Loss.le, applicable], ?_⟩
  simp only [contentEq, lossy, Bool.false_eq_true, if_false, beq_iff_eq]
  rw [h]
  by_cases hc : crlfToLf t = t
  · simp [hc]
  · simp [hc]

/-- what follows the first piece in the CR-normalised fragment -/
def restText (p0 : List Char × Bool) (rest : List (List Char × Bool)) : List Char :=
  if p0.2 then '\n' :: joinNl (rest.map normPiece) else []

theorem joinNl_norm_cons (p0 : List Char × Bool) (rest : List (List Char × Bool)) :
    joinNl ((p0 :: rest).map normPiece) = lineOf p0 ++ (if p0.2 then ['\n'] else []) ++ joinNl (rest.map normPiece) := by
  simp [joinNl, normPiece]

/-- after the first piece the rest of the fragment starts at a line start -/
theorem out_after_first (single interp : Bool) (st : Source) (p0 : List Char × Bool)
    (rest : List (List Char × Bool)) (hp : Pieces (p0 :: rest)) (hn : ∀ p ∈ p0 :: rest, '\n' ∉ p.1) :
    strip true ((p0 :: rest).foldl (pushPiece single interp) st).s =
      strip true ((pushLine single interp (lineOf p0) st).s ++ restText p0 rest) ∧
    joinNl ((p0 :: rest).map normPiece) = lineOf p0 ++ restText p0 rest := by
  cases hp with
  | last l t h =>
    cases t <;> simp [pushPiece, restText, joinNl, normPiece, newline_s]
  | cons l ps hne hps =>
    constructor
    · simp only [List.foldl_cons, pushPiece, if_true, restText]
      rw [content_fold_lineStart single interp rest hps (fun p hp => hn p (by simp [hp])) _
        (newline_cont _) (newline_lineStart _), newline_s]
      simp
    · simp [restText, joinNl, normPiece]


/-- Key content theorem: after `push_str_impl` the buffer is, up to whitespace at line starts,
the old buffer followed by the fragment with exactly the applicable known losses applied. -/
theorem content_key (st : Source) (t : List Char) (interp : Bool)
    (hls : st.continuingLine = false → LineStart st.s) :
    ∃ l : Loss, l.le (applicable st.s t interp) = true ∧
      contentEq (pushStrImpl st t interp).s (lossy l st.s t) = true := by
  rw [pushStrImpl_eq]
  have hp := splitNl_pieces t
  have hn := splitNl_noNl t
  have hcr : crlfToLf t = joinNl ((splitNl t).map normPiece) := by
    rw [← crlfToLf_joinNl _ hp hn, joinNl_splitNl]
  have hfl := firstLine_splitNl t
  have hml : multiLine t = decide ((splitNl t).length ≥ 2) := rfl
  generalize splitNl t = ps at *
  cases ps with
  | nil =>
    apply plain_loss
    simp [hcr, joinNl]
  | cons p0 rest =>
    cases hc : st.continuingLine with
    | false =>
      apply plain_loss
      rw [content_fold_lineStart _ interp _ hp hn st hc (hls hc), hcr]
    | true =>
      obtain ⟨hout, hj⟩ := out_after_first ((p0 :: rest).length == 1) interp st p0 rest hp hn
      rw [hj] at hcr
      have hl0 : '\n' ∉ lineOf p0 := lineOf_noNl p0 (hn p0 (by simp))
      by_cases hb : lineBlank true st.s = true
      · apply plain_loss
        rw [hout, content_cont_blank _ interp _ _ st hc hb hl0, hcr, List.append_assoc]
      · -- mid-line: the buffer is exactly the lossy text
        simp only [] at hfl
        refine ⟨⟨crlfToLf t != t, (applicable st.s t interp).trim, popsAt interp (lineOf p0) st⟩, ?_, ?_⟩
        · simp only [Loss.le, applicable, Bool.not_or_self, Bool.true_and, Bool.or_eq_true, Bool.not_eq_true',
            Bool.and_eq_true]
          by_cases hpop : popsAt interp (lineOf p0) st = true
          · right
            simp only [popsAt, Bool.and_eq_true, trim_lineOf] at hpop
            simp only [hfl, hpop.1.1.1, hpop.2, hpop.1.2, hb, and_self]
          · left; simpa using hpop
        · simp only [contentEq, beq_iff_eq]
          rw [hout, pushLine_s_cont _ interp _ st hc]
          have ht1 : (if (crlfToLf t != t) = true then crlfToLf t else t) = crlfToLf t := by
            by_cases h : crlfToLf t = t <;> simp [h]
          simp only [lossy, ht1]
          congr 1
          rw [List.append_assoc]
          congr 1
          -- the text part
          rw [hcr]
          cases rest with
          | nil =>
            have : (applicable st.s t interp).trim = false := by simp [applicable, hml]
            simp [this]
          | cons q r =>
            have hp02 : p0.2 = true := by cases hp with | cons l ps hne hps => rfl
            have hsingle : ((p0 :: q :: r).length == 1) = false := by simp
            simp only [hsingle, Bool.false_eq_true, if_false]
            have hrt : restText p0 (q :: r) = '\n' :: joinNl ((q :: r).map normPiece) := by simp [restText, hp02]
            rw [hrt]
            by_cases htr : (applicable st.s t interp).trim = true
            · simp only [htr, if_true]
              rw [trimStartLine_line _ _ hl0]
            · simp only [htr, Bool.false_eq_true, if_false]
              have hh : p0.1.head?.any isWhite = false := by
                simp only [applicable, hml, hfl, Bool.and_eq_true, not_and, Bool.not_eq_true] at htr
                apply htr
                simp [hb]
              rw [trimStart_lineOf_of_head p0 hh]

theorem mem_lossCandidates (l : Loss) (h : l ≠ Loss.none) : l ∈ lossCandidates := by
  obtain ⟨a, b, c⟩ := l
  cases a <;> cases b <;> cases c <;> first | exact absurd rfl h | simp [lossCandidates]

theorem le_none (l : Loss) (h : l.le Loss.none = true) : l = Loss.none := by
  obtain ⟨a, b, c⟩ := l
  cases a <;> cases b <;> cases c <;> simp [Loss.le, Loss.none] at h ⊢

theorem lossy_none (prev t : List Char) : lossy Loss.none prev t = prev ++ t := by
  simp [lossy, Loss.none]

/-- Monitor (1) on the model: never `other`; `ok` when no known loss is applicable. -/
theorem contentStep_model (st : Source) (t : List Char) (interp : Bool)
    (hls : st.continuingLine = false → LineStart st.s) :
    contentStep st.s (pushStrImpl st t interp).s t interp ≠ .other ∧
    (applicable st.s t interp = Loss.none → contentStep st.s (pushStrImpl st t interp).s t interp = .ok) := by
  obtain ⟨l, hle, hl⟩ := content_key st t interp hls
  unfold contentStep
  by_cases heq : contentEq (pushStrImpl st t interp).s (st.s ++ t) = true
  · simp [heq]
  · simp only [heq, Bool.false_eq_true, if_false]
    have hne : l ≠ Loss.none := by
      intro h; rw [h, lossy_none] at hl; exact heq hl
    constructor
    · cases hf : lossCandidates.find? (fun l => l.le (applicable st.s t interp) &&
          contentEq (pushStrImpl st t interp).s (lossy l st.s t)) with
      | some x => simp
      | none =>
        rw [List.find?_eq_none] at hf
        have := hf l (mem_lossCandidates l hne)
        simp [hle, hl] at this
    · intro happ
      rw [happ] at hle
      exact absurd (le_none l hle) hne

end Witverif.Text.Source
