import Witverif.Proofs.RustStr
import Witverif.Text.Source
/-! Helper lemmas for C25 (`Props/C25.lean`): the `Source` model seen piece by piece, and its
relation to the spec-side tracking state. -/
namespace Witverif.Text.SourceSpec
open RustStr

/-! ### `strip` / `lineBlank` (spec side) -/

theorem strip_append (x y : List Char) : ∀ b, strip b (x ++ y) = strip b x ++ strip (lineBlank b x) y := by
  induction x with
  | nil => intro b; simp [strip, lineBlank]
  | cons c cs ih =>
    intro b
    simp only [List.cons_append, strip, lineBlank]
    split
    · simp [ih]
    · split <;> simp [ih]

theorem lineBlank_append (x y : List Char) : ∀ b, lineBlank b (x ++ y) = lineBlank (lineBlank b x) y := by
  induction x with
  | nil => intro b; simp [lineBlank]
  | cons c cs ih =>
    intro b
    simp only [List.cons_append, lineBlank]
    split
    · exact ih _
    · split <;> exact ih _

/-- whitespace other than a line break -/
def Ws (w : List Char) : Prop := ∀ c ∈ w, isWhite c = true ∧ c ≠ '\n'

theorem strip_ws (w : List Char) (hw : Ws w) : strip true w = [] ∧ lineBlank true w = true := by
  induction w with
  | nil => simp [strip, lineBlank]
  | cons c cs ih =>
    have hc := hw c (by simp)
    have := ih (fun d hd => hw d (by simp [hd]))
    simp [strip, lineBlank, hc.1, hc.2, this]

theorem lineBlank_ws (w : List Char) (hw : Ws w) (b : Bool) : lineBlank b w = b := by
  induction w with
  | nil => simp [lineBlank]
  | cons c cs ih =>
    have hc := hw c (by simp)
    have := ih (fun d hd => hw d (by simp [hd]))
    cases b <;> simp [lineBlank, hc.1, hc.2, this]

theorem strip_blank_ws (s w y : List Char) (hb : lineBlank true s = true) (hw : Ws w) :
    strip true (s ++ w ++ y) = strip true (s ++ y) ∧ lineBlank true (s ++ w) = true := by
  have h1 := strip_ws w hw
  simp only [List.append_assoc, strip_append, lineBlank_append, hb, h1.1, h1.2, List.nil_append, and_self]

theorem ws_takeWhile (l : List Char) (hl : '\n' ∉ l) : Ws (l.takeWhile isWhite) := by
  induction l with
  | nil => intro c hc; simp at hc
  | cons a l ih =>
    intro c hc
    rw [List.takeWhile_cons] at hc
    split at hc
    · rename_i ha
      simp only [List.mem_cons] at hc
      rcases hc with rfl | hc
      · exact ⟨ha, fun h => hl (by simp [h])⟩
      · exact ih (fun h => hl (by simp [h])) c hc
    · simp at hc

theorem ws_replicate_space (n : Nat) : Ws (List.replicate n ' ') := by
  intro c hc
  rw [List.mem_replicate] at hc
  rw [hc.2]; decide

/-! ### `crlfToLf` piece by piece -/

theorem crlfToLf_noNl (l : List Char) (h : '\n' ∉ l) : crlfToLf l = l := by
  induction l with
  | nil => rfl
  | cons a l ih =>
    have hl : '\n' ∉ l := fun hm => h (by simp [hm])
    unfold crlfToLf
    rw [if_neg, ih hl]
    rintro ⟨_, h2⟩
    cases l with
    | nil => simp at h2
    | cons b l' => simp at h2; exact h (by simp [h2])

theorem crlfToLf_line (l r : List Char) (h : '\n' ∉ l) :
    crlfToLf (l ++ '\n' :: r) = stripCrEnd l ++ '\n' :: crlfToLf r := by
  induction l with
  | nil =>
    simp only [List.nil_append]
    rw [crlfToLf, if_neg (fun h => absurd h.1 (by decide))]
    rfl
  | cons a l ih =>
    have ha : a ≠ '\n' := fun e => h (by simp [e])
    have hl : '\n' ∉ l := fun hm => h (by simp [hm])
    cases l with
    | nil =>
      simp only [List.cons_append, List.nil_append]
      by_cases har : a = '\r'
      · subst har
        rw [crlfToLf, if_pos (by simp)]
        rw [crlfToLf, if_neg (fun h => absurd h.1 (by decide))]
        rfl
      · rw [crlfToLf, if_neg (by simp [har])]
        rw [crlfToLf, if_neg (fun h => absurd h.1 (by decide))]
        simp [stripCrEnd, har]
    | cons b l' =>
      have hb : b ≠ '\n' := fun e => hl (by simp [e])
      rw [List.cons_append, crlfToLf, if_neg (by simp; intro _; exact fun e => hb e)]
      rw [ih hl, stripCrEnd_cons a (b :: l') (by simp)]
      rfl

/-- a piece with its `\r\n` terminator normalised -/
def normPiece (p : List Char × Bool) : List Char × Bool := (lineOf p, p.2)

theorem crlfToLf_joinNl (ps : List (List Char × Bool)) (hp : Pieces ps) (hn : ∀ p ∈ ps, '\n' ∉ p.1) :
    crlfToLf (joinNl ps) = joinNl (ps.map normPiece) := by
  induction hp with
  | nil => rfl
  | last l t h =>
    have hl := hn (l, t) (by simp)
    cases t
    · simp [joinNl, normPiece, lineOf, crlfToLf_noNl _ hl]
    · simp only [joinNl, if_true, List.append_nil, List.map_cons, List.map_nil, normPiece, lineOf]
      rw [crlfToLf_line _ _ hl]; rfl
  | cons l ps hne hps ih =>
    have hl := hn (l, true) (by simp)
    simp only [joinNl, if_true, List.map_cons, normPiece, lineOf, List.append_assoc, List.singleton_append]
    rw [crlfToLf_line _ _ hl, ih (fun p hp => hn p (by simp [hp]))]

/-! ### `breakNl`, `lastLine` -/

theorem breakNl_line (x y : List Char) (h : '\n' ∉ x) : breakNl (x ++ '\n' :: y) = (x, y) := by
  induction x with
  | nil => simp [breakNl]
  | cons a x ih =>
    have ha : a ≠ '\n' := fun e => h (by simp [e])
    have hx : '\n' ∉ x := fun hm => h (by simp [hm])
    simp [breakNl, ha, ih hx]

theorem breakNl_noNl (x : List Char) (h : '\n' ∉ x) : breakNl x = (x, []) := by
  induction x with
  | nil => simp [breakNl]
  | cons a x ih =>
    have ha : a ≠ '\n' := fun e => h (by simp [e])
    have hx : '\n' ∉ x := fun hm => h (by simp [hm])
    simp [breakNl, ha, ih hx]

theorem mem_takeWhile_imp (p : Char → Bool) (l : List Char) (a : Char) (h : a ∈ l.takeWhile p) : p a = true := by
  induction l with
  | nil => simp at h
  | cons b l ih =>
    rw [List.takeWhile_cons] at h
    split at h
    · simp only [List.mem_cons] at h
      rcases h with rfl | h
      · assumption
      · exact ih h
    · simp at h

theorem lastLine_noNl (s : List Char) : '\n' ∉ lastLine s := by
  unfold lastLine
  intro h
  rw [List.mem_reverse] at h
  have := mem_takeWhile_imp _ _ _ h
  simp at this

theorem drop_lastLine (s : List Char) : s.drop (s.length - (lastLine s).length) = lastLine s := by
  unfold lastLine
  have h := List.takeWhile_append_dropWhile (p := (· != '\n')) (l := s.reverse)
  have hs : s = (s.reverse.dropWhile (· != '\n')).reverse ++ (s.reverse.takeWhile (· != '\n')).reverse := by
    have := congrArg List.reverse h
    rw [List.reverse_append, List.reverse_reverse] at this
    exact this.symm
  generalize (s.reverse.dropWhile (· != '\n')).reverse = a at hs
  generalize (s.reverse.takeWhile (· != '\n')).reverse = b at hs ⊢
  subst hs
  simp

/-! ### from step-wise to global content preservation -/

/-- the `lineBlank` flag can be read off the stripped text -/
theorem lineBlank_of_strip (a : List Char) : ∀ b, lineBlank b a =
    match (strip b a).getLast? with
    | none => b
    | some c => c == '\n' := by
  induction a with
  | nil => intro b; simp [strip, lineBlank]
  | cons c cs ih =>
    intro b
    simp only [strip, lineBlank]
    split
    · rename_i hc
      rw [ih true]
      cases h : (strip true cs).getLast? with
      | none =>
        have : strip true cs = [] := List.getLast?_eq_none_iff.mp h
        simp [this, hc]
      | some d =>
        obtain ⟨ys, hys⟩ := List.getLast?_eq_some_iff.mp h
        rw [hys, ← List.cons_append, List.getLast?_append]; simp
    · rename_i hc
      split
      · rename_i hb
        have hb' : b = true := by simp at hb; exact hb.1
        rw [ih true, hb']
      · rw [ih false]
        cases h : (strip false cs).getLast? with
        | none =>
          have : strip false cs = [] := List.getLast?_eq_none_iff.mp h
          simp [this, hc]
        | some d =>
          obtain ⟨ys, hys⟩ := List.getLast?_eq_some_iff.mp h
          rw [hys, ← List.cons_append, List.getLast?_append]; simp

theorem contentEq_append (a a' b : List Char) (h : contentEq a a' = true) : contentEq (a ++ b) (a' ++ b) = true := by
  simp only [contentEq, beq_iff_eq] at h ⊢
  rw [strip_append, strip_append, lineBlank_of_strip a, lineBlank_of_strip a', h]

theorem contentEq_trans (a b c : List Char) (h1 : contentEq a b = true) (h2 : contentEq b c = true) :
    contentEq a c = true := by
  simp only [contentEq, beq_iff_eq] at *; rw [h1, h2]

theorem contentStep_ok (prev out t : List Char) (interp : Bool) (h : contentStep prev out t interp = .ok) :
    contentEq out (prev ++ t) = true := by
  unfold contentStep at h
  split at h
  · assumption
  · simp only [] at h
    split at h <;> simp at h

/-! ### `neutralRel` (monitor 3b) -/

def neut (c : Char) : Char := if isWhite c then c else 'x'

theorem neutral_eq_map (t : List Char) : neutral t = t.map neut := rfl

theorem isWhite_x : isWhite 'x' = false := by decide

theorem isWhite_neut (c : Char) : isWhite (neut c) = isWhite c := by
  unfold neut; split
  · rfl
  · rename_i h; simp [isWhite_x, h]

theorem neutralRel_refl (a : List Char) : neutralRel a a = true := by
  induction a with
  | nil => rfl
  | cons x a ih => simp [neutralRel, ih]

theorem neutralRel_neutral (a : List Char) : neutralRel a (neutral a) = true := by
  induction a with
  | nil => rfl
  | cons x a ih =>
    simp only [neutral, List.map_cons, neutralRel, Bool.and_eq_true, Bool.or_eq_true, beq_iff_eq,
      Bool.not_eq_true']
    refine ⟨?_, ih⟩
    by_cases h : isWhite x = true
    · left; simp [h]
    · right; simp [h]

theorem neutralRel_append (a b c d : List Char) (h1 : neutralRel a b = true) (h2 : neutralRel c d = true) :
    neutralRel (a ++ c) (b ++ d) = true := by
  induction a generalizing b with
  | nil => cases b with
    | nil => simpa using h2
    | cons y b => simp [neutralRel] at h1
  | cons x a ih => cases b with
    | nil => simp [neutralRel] at h1
    | cons y b =>
      simp only [neutralRel, Bool.and_eq_true] at h1
      simp only [List.cons_append, neutralRel, Bool.and_eq_true]
      exact ⟨h1.1, ih b h1.2⟩

theorem neutralRel_dropLast (a b : List Char) (h : neutralRel a b = true) :
    neutralRel a.dropLast b.dropLast = true := by
  induction a generalizing b with
  | nil => cases b with
    | nil => rfl
    | cons y b => simp [neutralRel] at h
  | cons x a ih => cases b with
    | nil => simp [neutralRel] at h
    | cons y b =>
      simp only [neutralRel, Bool.and_eq_true] at h
      cases a with
      | nil => cases b with
        | nil => rfl
        | cons z b => simp [neutralRel] at h
      | cons x2 a => cases b with
        | nil => simp [neutralRel] at h
        | cons z b =>
          simp only [List.dropLast_cons_cons, neutralRel, Bool.and_eq_true]
          exact ⟨h.1, ih (z :: b) h.2⟩

theorem neutralRel_pop2 (a b : List Char) (h : neutralRel a b = true) : neutralRel (pop2 a) (pop2 b) = true :=
  neutralRel_dropLast _ _ (neutralRel_dropLast _ _ h)

theorem neutralRel_reverse (a b : List Char) (h : neutralRel a b = true) :
    neutralRel a.reverse b.reverse = true := by
  induction a generalizing b with
  | nil => cases b with
    | nil => rfl
    | cons y b => simp [neutralRel] at h
  | cons x a ih => cases b with
    | nil => simp [neutralRel] at h
    | cons y b =>
      simp only [neutralRel, Bool.and_eq_true] at h
      simp only [List.reverse_cons]
      exact neutralRel_append _ _ _ _ (ih b h.2) (by simp [neutralRel, h.1])

theorem neutralRel_space (x y : Char) (h : (x == y || (!isWhite x && y == 'x')) = true) :
    (x == ' ') = (y == ' ') := by
  simp only [Bool.or_eq_true, beq_iff_eq, Bool.and_eq_true, Bool.not_eq_true'] at h
  rcases h with h | ⟨h1, h2⟩
  · rw [h]
  · subst h2
    have : x ≠ ' ' := fun e => by rw [e] at h1; simp [isWhite_space] at h1
    simp [this]

theorem neutralRel_endsWith (a b : List Char) (h : neutralRel a b = true) :
    endsWith a [' ', ' '] = endsWith b [' ', ' '] := by
  have hr := neutralRel_reverse a b h
  unfold endsWith
  generalize a.reverse = ra at hr
  generalize b.reverse = rb at hr
  cases ra with
  | nil => cases rb with
    | nil => rfl
    | cons y rb => simp [neutralRel] at hr
  | cons x ra => cases rb with
    | nil => simp [neutralRel] at hr
    | cons y rb =>
      simp only [neutralRel, Bool.and_eq_true] at hr
      have e1 := neutralRel_space x y hr.1
      cases ra with
      | nil => cases rb with
        | nil => simp [List.isPrefixOf]
        | cons z rb => simp [neutralRel] at hr
      | cons x2 ra => cases rb with
        | nil => simp [neutralRel] at hr
        | cons y2 rb =>
          simp only [neutralRel, Bool.and_eq_true] at hr
          have e2 := neutralRel_space x2 y2 hr.2.1
          simp only [List.reverse_cons, List.reverse_nil, List.nil_append, List.cons_append, List.isPrefixOf,
            Bool.and_true]
          rw [Bool.beq_comm (a := ' '), Bool.beq_comm (a := ' '), e1, e2, Bool.beq_comm (a := y), Bool.beq_comm (a := y2)]

end Witverif.Text.SourceSpec

namespace Witverif.Text.Source
open RustStr SourceSpec

/-- one piece of a fragment: the loop body plus the newline decision -/
def pushPiece (single interp : Bool) (st : Source) (p : List Char × Bool) : Source :=
  if p.2 then newline (pushLine single interp (lineOf p) st) else pushLine single interp (lineOf p) st

theorem pushLines_eq_foldl (single interp : Bool) (ps : List (List Char × Bool)) (hp : Pieces ps) :
    ∀ st, pushLines single (lastTerm ps) interp (ps.map lineOf) st = ps.foldl (pushPiece single interp) st := by
  induction hp with
  | nil => intro st; simp [pushLines]
  | last l t h => intro st; cases t <;> simp [pushLines, lastTerm, pushPiece]
  | cons l ps hne hps ih =>
    intro st
    rw [lastTerm_cons _ _ hne]
    cases ps with
    | nil => exact absurd rfl hne
    | cons q r =>
      simp only [List.map_cons, List.foldl_cons]
      rw [pushLines]
      · simp only [List.map_cons, List.foldl_cons] at ih
        rw [ih]; simp [pushPiece]
      · simp

/-- `push_str_impl` is a fold of `pushPiece` over the `split_inclusive('\n')` pieces. -/
theorem pushStrImpl_eq (st : Source) (src : List Char) (interp : Bool) :
    pushStrImpl st src interp = (splitNl src).foldl (pushPiece ((splitNl src).length == 1) interp) st := by
  unfold pushStrImpl lines
  simp only [List.length_map]
  rw [← lastTerm_splitNl, pushLines_eq_foldl _ _ _ (splitNl_pieces src)]

/-! ### the model state and the spec-side tracking state -/

/-- the buffer is at a line start -/
def LineStart (s : List Char) : Prop := s = [] ∨ s.getLast? = some '\n'

/-- the model state and the spec-side tracking state describe the same history -/
structure Rel (st : Source) (tr : Track) : Prop where
  mid : tr.midLine = st.continuingLine
  cm : tr.inComment = st.inLineComment
  lvl : tr.levelOk = true → tr.level = st.indent
  ls : st.continuingLine = false → LineStart st.s

def mkPiece (single interp : Bool) (p : List Char × Bool) : Piece := ⟨p.1, p.2, interp, single⟩

theorem pushLine_indent (single interp : Bool) (st : Source) (tr : Track) (p : List Char × Bool)
    (hc : tr.inComment = st.inLineComment) (hl : tr.levelOk = true → tr.level = st.indent)
    (hok : (tr.piece (mkPiece single interp p)).levelOk = true) :
    (tr.piece (mkPiece single interp p)).level = (pushLine single interp (lineOf p) st).indent := by
  simp only [Track.piece, Bool.and_eq_true, Bool.and_eq_false_iff, Bool.not_eq_eq_eq_not,
    Bool.not_true, decide_eq_false_iff_not, Int.not_le] at hok
  have hlv := hl hok.1
  simp only [Track.piece, Track.delta, Track.eff, Track.comment, mkPiece, Piece.isComment, Piece.opens,
    Piece.closes, pushLine, trim_lineOf, hc] at hok ⊢
  generalize startsWith (trim p.1) ['/', '/'] = isCm at *
  generalize startsWith (trim p.1) ['}'] = cl at *
  generalize endsWith (trim p.1) ['{'] = op at *
  generalize st.inLineComment = cm0 at *
  rw [hlv] at hok ⊢
  cases interp <;> cases cm0 <;> cases isCm <;> cases cl <;> cases op <;> simp at hok ⊢ <;> omega

theorem rel_piece (single interp : Bool) (st : Source) (tr : Track) (p : List Char × Bool)
    (h : Rel st tr) : Rel (pushPiece single interp st p) (tr.piece (mkPiece single interp p)) := by
  obtain ⟨hm, hc, hl, hs⟩ := h
  unfold pushPiece
  cases hp2 : p.2
  · simp only [Bool.false_eq_true, if_false]
    constructor
    · simp [Track.piece, mkPiece, hp2, pushLine]
    · simp [Track.piece, mkPiece, hp2, pushLine, Track.comment, Piece.isComment, trim_lineOf, hc]
    · exact pushLine_indent single interp st tr p hc hl
    · simp [pushLine]
  · simp only [if_true]
    constructor
    · simp [Track.piece, mkPiece, hp2, newline]
    · simp [Track.piece, mkPiece, hp2, newline]
    · exact pushLine_indent single interp st tr p hc hl
    · intro _; right; simp [newline]

/-! ### the buffer after one line -/

theorem endsWith_two_spaces_append (x : List Char) (n : Nat) :
    endsWith (x ++ List.replicate (n + 2) ' ') [' ', ' '] = true := by
  simp only [endsWith, List.reverse_append, List.reverse_replicate]
  show [' ', ' '].isPrefixOf (' ' :: ' ' :: (List.replicate n ' ' ++ x.reverse)) = true
  simp [List.isPrefixOf]

theorem pop2_append_replicate (x : List Char) (n : Nat) :
    pop2 (x ++ List.replicate (n + 2) ' ') = x ++ List.replicate n ' ' := by
  have : x ++ List.replicate (n + 2) ' ' = (x ++ List.replicate n ' ') ++ [' '] ++ [' '] := by
    rw [List.replicate_succ', List.replicate_succ']; simp
  rw [this, pop2, List.dropLast_concat, List.dropLast_concat]

theorem lineStart_not_endsWith_spaces (s : List Char) (h : LineStart s) : endsWith s [' ', ' '] = false := by
  rcases h with rfl | h
  · rfl
  · unfold endsWith
    rw [← List.head?_reverse] at h
    cases hr : s.reverse with
    | nil => rfl
    | cons a l => rw [hr] at h; simp at h; subst h; simp [List.isPrefixOf]

theorem startsWith_nil_closes : startsWith (trim []) ['}'] = false := by rfl

/-- the indentation written in front of a line that begins at a line start -/
def indentOf (interp : Bool) (line : List Char) (st : Source) : List Char :=
  let cm := st.inLineComment || (interp && startsWith (trim line) ['/', '/'])
  if line.isEmpty then []
  else List.replicate (2 * (st.indent - (if interp && !cm && startsWith (trim line) ['}'] then 1 else 0))) ' '

theorem pushLine_s_lineStart (single interp : Bool) (line : List Char) (st : Source)
    (hc : st.continuingLine = false) (hs : LineStart st.s) :
    (pushLine single interp line st).s =
      st.s ++ indentOf interp line st ++ (if single then line else trimStart line) := by
  simp only [pushLine, hc, indentOf]
  cases hl : line.isEmpty
  · -- a non-empty line
    simp only [Bool.not_false, Bool.and_true, if_true, Bool.false_eq_true, if_false, spaces]
    cases hi : st.indent with
    | zero =>
      simp [lineStart_not_endsWith_spaces _ hs]
    | succ k =>
      have e : 2 * (k + 1) = 2 * k + 2 := by omega
      rw [e, endsWith_two_spaces_append]
      split
      · rename_i h
        simp only [Bool.and_true] at h
        simp only [pop2_append_replicate, h, if_true]
        rw [show k + 1 - 1 = k by omega]
      · rename_i h
        simp only [Bool.and_true] at h
        simp only [h]
        simp [e]
  · have : line = [] := by simpa using hl
    subst this
    simp [lineStart_not_endsWith_spaces _ hs, startsWith_nil_closes]

/-! ### content (monitor 1) -/

theorem lineStart_blank (s : List Char) (h : LineStart s) : lineBlank true s = true := by
  rcases h with rfl | h
  · rfl
  · have := eq_dropLast_concat s '\n' h
    rw [this, lineBlank_append]; simp [lineBlank]

theorem ws_indentOf (interp : Bool) (line : List Char) (st : Source) : Ws (indentOf interp line st) := by
  unfold indentOf
  split
  · intro c hc; simp at hc
  · exact ws_replicate_space _

/-- dropping the leading whitespace of a line that continues a blank line changes nothing -/
theorem strip_trimStart (s line y : List Char) (hb : lineBlank true s = true) (hn : '\n' ∉ line) :
    strip true (s ++ trimStart line ++ y) = strip true (s ++ line ++ y) := by
  have h := strip_blank_ws s (line.takeWhile isWhite) (trimStart line ++ y) hb (ws_takeWhile line hn)
  have e : line.takeWhile isWhite ++ (trimStart line ++ y) = line ++ y := by
    rw [← List.append_assoc, trimStart, List.takeWhile_append_dropWhile]
  calc strip true (s ++ trimStart line ++ y)
      = strip true (s ++ (trimStart line ++ y)) := by rw [List.append_assoc]
    _ = strip true (s ++ line.takeWhile isWhite ++ (trimStart line ++ y)) := h.1.symm
    _ = strip true (s ++ line ++ y) := by rw [List.append_assoc, e, List.append_assoc]

/-- C1: a line pushed at a line start preserves content -/
theorem content_lineStart (single interp : Bool) (line y : List Char) (st : Source)
    (hc : st.continuingLine = false) (hs : LineStart st.s) (hn : '\n' ∉ line) :
    strip true ((pushLine single interp line st).s ++ y) = strip true (st.s ++ line ++ y) := by
  rw [pushLine_s_lineStart single interp line st hc hs]
  have hb := lineStart_blank _ hs
  have h1 := strip_blank_ws st.s (indentOf interp line st) ((if single then line else trimStart line) ++ y) hb
    (ws_indentOf interp line st)
  rw [List.append_assoc (st.s ++ indentOf interp line st), h1.1]
  cases single
  · simp only [Bool.false_eq_true, if_false]
    rw [← List.append_assoc]
    exact strip_trimStart _ _ _ hb hn
  · simp


theorem newline_s (st : Source) : (newline st).s = st.s ++ ['\n'] := rfl
theorem newline_cont (st : Source) : (newline st).continuingLine = false := rfl
theorem newline_lineStart (st : Source) : LineStart (newline st).s := by right; simp [newline]

/-- F: pieces pushed from a line start preserve content up to CR-before-LF -/
theorem content_fold_lineStart (single interp : Bool) (ps : List (List Char × Bool)) (hp : Pieces ps)
    (hn : ∀ p ∈ ps, '\n' ∉ p.1) :
    ∀ st : Source, st.continuingLine = false → LineStart st.s →
      strip true (ps.foldl (pushPiece single interp) st).s = strip true (st.s ++ joinNl (ps.map normPiece)) := by
  induction hp with
  | nil => intro st _ _; simp [joinNl]
  | last l t h =>
    intro st hc hs
    have hl := lineOf_noNl (l, t) (hn (l, t) (by simp))
    cases t
    · have := content_lineStart single interp (lineOf (l, false)) [] st hc hs hl
      simpa [pushPiece, joinNl, normPiece] using this
    · have := content_lineStart single interp (lineOf (l, true)) ['\n'] st hc hs hl
      simpa [pushPiece, joinNl, normPiece, newline_s] using this
  | cons l ps hne hps ih =>
    intro st hc hs
    have hl := lineOf_noNl (l, true) (hn (l, true) (by simp))
    simp only [List.foldl_cons, pushPiece, if_true]
    rw [ih (fun p hp => hn p (by simp [hp])) _ (newline_cont _) (newline_lineStart _), newline_s]
    have := content_lineStart single interp (lineOf (l, true)) ('\n' :: joinNl (ps.map normPiece)) st hc hs hl
    simpa [joinNl, normPiece] using this

/-- does the line pop two spaces off the buffer -/
def popsAt (interp : Bool) (line : List Char) (st : Source) : Bool :=
  interp && !(st.inLineComment || (interp && startsWith (trim line) ['/', '/'])) &&
    startsWith (trim line) ['}'] && endsWith st.s [' ', ' ']

theorem pushLine_s_cont (single interp : Bool) (line : List Char) (st : Source)
    (hc : st.continuingLine = true) :
    (pushLine single interp line st).s =
      (if popsAt interp line st then pop2 st.s else st.s) ++ (if single then line else trimStart line) := by
  simp [pushLine, hc, popsAt]

theorem endsWith_two_spaces (s : List Char) (h : endsWith s [' ', ' '] = true) :
    s = pop2 s ++ [' ', ' '] := by
  unfold endsWith at h
  have hr : ∃ r, s.reverse = ' ' :: ' ' :: r := by
    cases hs : s.reverse with
    | nil => rw [hs] at h; simp at h
    | cons a l =>
      cases l with
      | nil => rw [hs] at h; simp [List.isPrefixOf] at h
      | cons b l' =>
        rw [hs] at h
        simp [List.isPrefixOf] at h
        exact ⟨l', by rw [← h.1, ← h.2]⟩
  obtain ⟨r, hr⟩ := hr
  have : s = r.reverse ++ [' ', ' '] := by
    have := congrArg List.reverse hr
    simpa using this
  have e : r.reverse ++ [' ', ' '] = (r.reverse ++ [' ']) ++ [' '] := by simp
  have hp : pop2 s = r.reverse := by
    rw [this, e, pop2, List.dropLast_concat, List.dropLast_concat]
  rw [hp]; exact this

theorem ws_two_spaces : Ws [' ', ' '] := by
  intro c hc; simp at hc; subst hc; decide

/-- C2: a line continuing a blank line preserves content -/
theorem content_cont_blank (single interp : Bool) (line y : List Char) (st : Source)
    (hc : st.continuingLine = true) (hb : lineBlank true st.s = true) (hn : '\n' ∉ line) :
    strip true ((pushLine single interp line st).s ++ y) = strip true (st.s ++ line ++ y) := by
  rw [pushLine_s_cont single interp line st hc]
  -- the popped spaces are leading whitespace
  have hpop : ∀ z, strip true ((if popsAt interp line st then pop2 st.s else st.s) ++ z) = strip true (st.s ++ z) ∧
      lineBlank true (if popsAt interp line st then pop2 st.s else st.s) = true := by
    intro z
    split
    · rename_i hp
      have he : endsWith st.s [' ', ' '] = true := by
        simp only [popsAt, Bool.and_eq_true] at hp; exact hp.2
      have hs := endsWith_two_spaces _ he
      have hb' : lineBlank true (pop2 st.s) = true := by
        rw [hs, lineBlank_append, lineBlank_ws _ ws_two_spaces] at hb; exact hb
      have := strip_blank_ws (pop2 st.s) [' ', ' '] z hb' ws_two_spaces
      constructor
      · rw [← this.1, ← hs]
      · exact hb'
    · exact ⟨rfl, hb⟩
  cases single
  · simp only [Bool.false_eq_true, if_false]
    rw [strip_trimStart _ _ _ (hpop []).2 hn, List.append_assoc, (hpop _).1, List.append_assoc]
  · simp only [if_true]
    rw [List.append_assoc, (hpop _).1, List.append_assoc]

theorem firstLine_splitNl (t : List Char) :
    firstLine t = match splitNl t with | [] => [] | p :: _ => p.1 := by
  induction t with
  | nil => rfl
  | cons c cs ih =>
    unfold firstLine at ih ⊢
    unfold splitNl
    by_cases hc : c = '\n'
    · simp [hc]
    · simp only [hc, if_false]
      rw [List.takeWhile_cons, if_pos (by simpa using hc), ih]
      cases splitNl cs with
      | nil => rfl
      | cons p r => rfl

theorem trimStartLine_line (l r : List Char) (h : '\n' ∉ l) :
    trimStartLine (l ++ '\n' :: r) = trimStart l ++ '\n' :: r := by
  induction l with
  | nil => simp [trimStartLine, trimStart]
  | cons a l ih =>
    have ha : a ≠ '\n' := fun e => h (by simp [e])
    have hl : '\n' ∉ l := fun hm => h (by simp [hm])
    unfold trimStartLine trimStart at ih ⊢
    simp only [List.cons_append, List.dropWhile_cons]
    by_cases hw : isWhite a = true
    · simp only [hw, Bool.true_and, bne_iff_ne, ne_eq, ha, not_false_eq_true, if_true]
      exact ih hl
    · simp [hw]

theorem trimStart_of_head (l : List Char) (h : l.head?.any isWhite = false) : trimStart l = l := by
  cases l with
  | nil => rfl
  | cons a l => simp at h; simp [trimStart, h]

theorem head_stripCrEnd (l : List Char) (h : l.head?.any isWhite = false) :
    (stripCrEnd l).head?.any isWhite = false := by
  cases l with
  | nil => rfl
  | cons a l =>
    cases l with
    | nil =>
      simp at h
      unfold stripCrEnd
      split
      · rfl
      · simpa using h
    | cons b l' => rw [stripCrEnd_cons _ _ (by simp)]; simpa using h

theorem trimStart_lineOf_of_head (p : List Char × Bool) (h : p.1.head?.any isWhite = false) :
    trimStart (lineOf p) = lineOf p := by
  apply trimStart_of_head
  unfold lineOf; split
  · exact head_stripCrEnd _ h
  · exact h

/-- content preserved up to CR-before-LF is explained by the `cr` loss alone -/
theorem plain_loss (prev out t : List Char) (interp : Bool)
    (h : strip true out = strip true (prev ++ crlfToLf t)) :
    ∃ l : Loss, l.le (applicable prev t interp) = true ∧ contentEq out (lossy l prev t) = true := by
  refine ⟨⟨crlfToLf t != t, false, false⟩, by simp [Loss.le, applicable], ?_⟩
  simp only [contentEq, lossy, Bool.false_eq_true, if_false, beq_iff_eq]
  rw [h]
  by_cases hc : crlfToLf t = t
  · simp [hc]
  · simp [hc]

/-- what follows the first piece in the CR-normalised fragment -/
def restText (p0 : List Char × Bool) (rest : List (List Char × Bool)) : List Char :=
  if p0.2 then '\n' :: joinNl (rest.map normPiece) else []

theorem joinNl_norm_cons (p0 : List Char × Bool) (rest : List (List Char × Bool)) :
    joinNl ((p0 :: rest).map normPiece) = lineOf p0 ++ (if p0.2 then ['\n'] else []) ++ joinNl (rest.map normPiece) := by
  simp [joinNl, normPiece]

/-- after the first piece the rest of the fragment starts at a line start -/
theorem out_after_first (single interp : Bool) (st : Source) (p0 : List Char × Bool)
    (rest : List (List Char × Bool)) (hp : Pieces (p0 :: rest)) (hn : ∀ p ∈ p0 :: rest, '\n' ∉ p.1) :
    strip true ((p0 :: rest).foldl (pushPiece single interp) st).s =
      strip true ((pushLine single interp (lineOf p0) st).s ++ restText p0 rest) ∧
    joinNl ((p0 :: rest).map normPiece) = lineOf p0 ++ restText p0 rest := by
  cases hp with
  | last l t h =>
    cases t <;> simp [pushPiece, restText, joinNl, normPiece, newline_s]
  | cons l ps hne hps =>
    constructor
    · simp only [List.foldl_cons, pushPiece, if_true, restText]
      rw [content_fold_lineStart single interp rest hps (fun p hp => hn p (by simp [hp])) _
        (newline_cont _) (newline_lineStart _), newline_s]
      simp
    · simp [restText, joinNl, normPiece]


/-- Key content theorem: after `push_str_impl` the buffer is, up to whitespace at line starts,
the old buffer followed by the fragment with exactly the applicable known losses applied. -/
theorem content_key (st : Source) (t : List Char) (interp : Bool)
    (hls : st.continuingLine = false → LineStart st.s) :
    ∃ l : Loss, l.le (applicable st.s t interp) = true ∧
      contentEq (pushStrImpl st t interp).s (lossy l st.s t) = true := by
  rw [pushStrImpl_eq]
  have hp := splitNl_pieces t
  have hn := splitNl_noNl t
  have hcr : crlfToLf t = joinNl ((splitNl t).map normPiece) := by
    rw [← crlfToLf_joinNl _ hp hn, joinNl_splitNl]
  have hfl := firstLine_splitNl t
  have hml : multiLine t = decide ((splitNl t).length ≥ 2) := rfl
  generalize splitNl t = ps at *
  cases ps with
  | nil =>
    apply plain_loss
    simp [hcr, joinNl]
  | cons p0 rest =>
    cases hc : st.continuingLine with
    | false =>
      apply plain_loss
      rw [content_fold_lineStart _ interp _ hp hn st hc (hls hc), hcr]
    | true =>
      obtain ⟨hout, hj⟩ := out_after_first ((p0 :: rest).length == 1) interp st p0 rest hp hn
      rw [hj] at hcr
      have hl0 : '\n' ∉ lineOf p0 := lineOf_noNl p0 (hn p0 (by simp))
      by_cases hb : lineBlank true st.s = true
      · apply plain_loss
        rw [hout, content_cont_blank _ interp _ _ st hc hb hl0, hcr, List.append_assoc]
      · -- mid-line: the buffer is exactly the lossy text
        simp only [] at hfl
        refine ⟨⟨crlfToLf t != t, (applicable st.s t interp).trim, popsAt interp (lineOf p0) st⟩, ?_, ?_⟩
        · simp only [Loss.le, applicable, Bool.not_or_self, Bool.true_and, Bool.or_eq_true, Bool.not_eq_true',
            Bool.and_eq_true]
          by_cases hpop : popsAt interp (lineOf p0) st = true
          · right
            simp only [popsAt, Bool.and_eq_true, trim_lineOf] at hpop
            simp only [hfl, hpop.1.1.1, hpop.2, hpop.1.2, hb, and_self]
          · left; simpa using hpop
        · simp only [contentEq, beq_iff_eq]
          rw [hout, pushLine_s_cont _ interp _ st hc]
          have ht1 : (if (crlfToLf t != t) = true then crlfToLf t else t) = crlfToLf t := by
            by_cases h : crlfToLf t = t <;> simp [h]
          simp only [lossy, ht1]
          congr 1
          rw [List.append_assoc]
          congr 1
          -- the text part
          rw [hcr]
          cases rest with
          | nil =>
            have : (applicable st.s t interp).trim = false := by simp [applicable, hml]
            simp [this]
          | cons q r =>
            have hp02 : p0.2 = true := by cases hp with | cons l ps hne hps => rfl
            have hsingle : ((p0 :: q :: r).length == 1) = false := by simp
            simp only [hsingle, Bool.false_eq_true, if_false]
            have hrt : restText p0 (q :: r) = '\n' :: joinNl ((q :: r).map normPiece) := by simp [restText, hp02]
            rw [hrt]
            by_cases htr : (applicable st.s t interp).trim = true
            · simp only [htr, if_true]
              rw [trimStartLine_line _ _ hl0]
            · simp only [htr, Bool.false_eq_true, if_false]
              have hh : p0.1.head?.any isWhite = false := by
                simp only [applicable, hml, hfl, Bool.and_eq_true, not_and, Bool.not_eq_true] at htr
                apply htr
                simp [hb]
              rw [trimStart_lineOf_of_head p0 hh]

theorem mem_lossCandidates (l : Loss) (h : l ≠ Loss.none) : l ∈ lossCandidates := by
  obtain ⟨a, b, c⟩ := l
  cases a <;> cases b <;> cases c <;> first | exact absurd rfl h | simp [lossCandidates]

theorem le_none (l : Loss) (h : l.le Loss.none = true) : l = Loss.none := by
  obtain ⟨a, b, c⟩ := l
  cases a <;> cases b <;> cases c <;> simp [Loss.le, Loss.none] at h ⊢

theorem lossy_none (prev t : List Char) : lossy Loss.none prev t = prev ++ t := by
  simp [lossy, Loss.none]

/-- Monitor (1) on the model: never `other`; `ok` when no known loss is applicable. -/
theorem contentStep_model (st : Source) (t : List Char) (interp : Bool)
    (hls : st.continuingLine = false → LineStart st.s) :
    contentStep st.s (pushStrImpl st t interp).s t interp ≠ .other ∧
    (applicable st.s t interp = Loss.none → contentStep st.s (pushStrImpl st t interp).s t interp = .ok) := by
  obtain ⟨l, hle, hl⟩ := content_key st t interp hls
  unfold contentStep
  by_cases heq : contentEq (pushStrImpl st t interp).s (st.s ++ t) = true
  · simp [heq]
  · simp only [heq, Bool.false_eq_true, if_false]
    have hne : l ≠ Loss.none := by
      intro h; rw [h, lossy_none] at hl; exact heq hl
    constructor
    · cases hf : lossCandidates.find? (fun l => l.le (applicable st.s t interp) &&
          contentEq (pushStrImpl st t interp).s (lossy l st.s t)) with
      | some x => simp
      | none =>
        rw [List.find?_eq_none] at hf
        have := hf l (mem_lossCandidates l hne)
        simp [hle, hl] at this
    · intro happ
      rw [happ] at hle
      exact absurd (le_none l hle) hne

/-! ### line indentation (monitor 2b) -/

theorem stripCrEnd_eq_nil (l : List Char) (h : stripCrEnd l = []) : l = [] ∨ l = ['\r'] := by
  cases l with
  | nil => left; rfl
  | cons a l =>
    cases l with
    | nil =>
      unfold stripCrEnd at h
      split at h
      · rename_i h2; simp at h2; right; rw [h2]
      · simp at h
    | cons b l' => rw [stripCrEnd_cons _ _ (by simp)] at h; simp at h

theorem lineOf_ne_nil_of_content (single interp : Bool) (p : List Char × Bool)
    (h : (mkPiece single interp p).hasContent = true) : lineOf p ≠ [] := by
  simp only [Piece.hasContent, mkPiece, List.any_eq_true, Bool.not_eq_true'] at h
  obtain ⟨c, hc, hw⟩ := h
  intro hl
  unfold lineOf at hl
  split at hl
  · rcases stripCrEnd_eq_nil _ hl with h | h
    · rw [h] at hc; simp at hc
    · rw [h] at hc; simp at hc; subst hc; simp [isWhite_cr] at hw
  · rw [hl] at hc; simp at hc

theorem shown_prefix (single interp : Bool) (p : List Char × Bool) :
    trimEnd (mkPiece single interp p).shown <+: (if single then lineOf p else trimStart (lineOf p)) := by
  cases single
  · exact trimEnd_trimStart_lineOf_prefix p
  · exact trimEnd_lineOf_prefix p

theorem lineOf_nil (t : Bool) : lineOf ([], t) = [] := by cases t <;> rfl

/-- (2b) for one piece pushed at a line start -/
theorem lineBegin_model (single interp : Bool) (st : Source) (tr : Track) (p : List Char × Bool)
    (h : Rel st tr) (hc : st.continuingLine = false) :
    lineBeginOk tr (mkPiece single interp p)
      (indentOf interp (lineOf p) st ++ (if single then lineOf p else trimStart (lineOf p))) = true := by
  unfold lineBeginOk
  have hm : tr.midLine = false := by rw [h.mid, hc]
  cases hok : tr.levelOk
  · simp [hm]
  · simp only [hm, Bool.not_true, Bool.or_self, Bool.false_eq_true, if_false]
    have hlv := h.lvl hok
    split
    · rename_i he
      have : p.1 = [] := by simpa [mkPiece] using he
      have hp : p = ([], p.2) := by rw [← this]
      rw [hp, lineOf_nil]
      simp [indentOf, trimStart]
    · split
      · rfl
      · rename_i hne hcon
        have hcon' : (mkPiece single interp p).hasContent = true := by simpa using hcon
        have hl := lineOf_ne_nil_of_content single interp p hcon'
        have hle : (lineOf p).isEmpty = false := by simpa using hl
        rw [List.isPrefixOf_iff_prefix]
        simp only [indentOf, hle, Bool.false_eq_true, if_false]
        have hk : (2 * (tr.level - if (tr.eff (mkPiece single interp p) && (mkPiece single interp p).closes) = true then 1 else 0).toNat)
            = 2 * (st.indent - if (interp && !(st.inLineComment || interp && startsWith (trim (lineOf p)) ['/', '/']) &&
                startsWith (trim (lineOf p)) ['}']) = true then 1 else 0) := by
          simp only [Track.eff, Track.comment, mkPiece, Piece.isComment, Piece.closes, trim_lineOf, h.cm, hlv]
          split <;> omega
        rw [hk]
        exact (List.prefix_append_right_inj _).mpr (shown_prefix single interp p)

theorem indentOf_noNl (interp : Bool) (line : List Char) (st : Source) : '\n' ∉ indentOf interp line st := by
  intro h
  have := ws_indentOf interp line st _ h
  exact this.2 rfl

theorem shownM_noNl (single : Bool) (line : List Char) (h : '\n' ∉ line) :
    '\n' ∉ (if single then line else trimStart line) := by
  split
  · exact h
  · exact fun hm => h ((List.dropWhile_sublist _).subset hm)

/-- G: pieces pushed from a line start are indented by their nesting level -/
theorem lineIndent_fold (single interp : Bool) (ps : List (List Char × Bool)) (hp : Pieces ps)
    (hn : ∀ p ∈ ps, '\n' ∉ p.1) :
    ∀ (st : Source) (tr : Track), Rel st tr → st.continuingLine = false →
      ∃ d, (ps.foldl (pushPiece single interp) st).s = st.s ++ d ∧
        lineIndentGo tr (ps.map (mkPiece single interp)) d = true := by
  induction hp with
  | nil => intro st tr _ _; exact ⟨[], by simp, rfl⟩
  | last l t h =>
    intro st tr hr hc
    have hl := lineOf_noNl (l, t) (hn (l, t) (by simp))
    have hA := pushLine_s_lineStart single interp (lineOf (l, t)) st hc (hr.ls hc)
    have hB := lineBegin_model single interp st tr (l, t) hr hc
    have hno : '\n' ∉ indentOf interp (lineOf (l, t)) st ++ (if single then lineOf (l, t) else trimStart (lineOf (l, t))) := by
      simp only [List.mem_append, not_or]
      exact ⟨indentOf_noNl _ _ _, shownM_noNl _ _ hl⟩
    cases t
    · refine ⟨indentOf interp (lineOf (l, false)) st ++ (if single then lineOf (l, false) else trimStart (lineOf (l, false))), ?_, ?_⟩
      · simp only [List.foldl_cons, List.foldl_nil, pushPiece, Bool.false_eq_true, if_false]
        rw [hA, List.append_assoc]
      · simp only [List.map_cons, List.map_nil, lineIndentGo, Bool.and_true]
        rw [breakNl_noNl _ hno]; exact hB
    · refine ⟨(indentOf interp (lineOf (l, true)) st ++ (if single then lineOf (l, true) else trimStart (lineOf (l, true)))) ++ ['\n'], ?_, ?_⟩
      · simp only [List.foldl_cons, List.foldl_nil, pushPiece, if_true, newline_s]
        rw [hA]; simp
      · simp only [List.map_cons, List.map_nil, lineIndentGo, Bool.and_true]
        rw [breakNl_line _ _ hno]; exact hB
  | cons l ps hne hps ih =>
    intro st tr hr hc
    have hl := lineOf_noNl (l, true) (hn (l, true) (by simp))
    have hA := pushLine_s_lineStart single interp (lineOf (l, true)) st hc (hr.ls hc)
    have hB := lineBegin_model single interp st tr (l, true) hr hc
    have hno : '\n' ∉ indentOf interp (lineOf (l, true)) st ++ (if single then lineOf (l, true) else trimStart (lineOf (l, true))) := by
      simp only [List.mem_append, not_or]
      exact ⟨indentOf_noNl _ _ _, shownM_noNl _ _ hl⟩
    have hr1 := rel_piece single interp st tr (l, true) hr
    have hst1 : pushPiece single interp st (l, true) = newline (pushLine single interp (lineOf (l, true)) st) := by
      simp [pushPiece]
    obtain ⟨d, hd, hgo⟩ := ih (fun p hp => hn p (by simp [hp])) _ _ hr1 (by rw [hst1]; rfl)
    refine ⟨(indentOf interp (lineOf (l, true)) st ++ (if single then lineOf (l, true) else trimStart (lineOf (l, true)))) ++ '\n' :: d, ?_, ?_⟩
    · simp only [List.foldl_cons]
      rw [hd, hst1, newline_s, hA]; simp
    · simp only [List.map_cons, lineIndentGo]
      rw [breakNl_line _ _ hno]
      simp only [hB, Bool.true_and]
      exact hgo

theorem lastLine_lineStart (s : List Char) (h : LineStart s) : lastLine s = [] := by
  rcases h with rfl | h
  · rfl
  · have := eq_dropLast_concat s '\n' h
    rw [this]; simp [lastLine]

theorem lastLine_append_spaces (x : List Char) : lastLine (x ++ [' ', ' ']) = lastLine x ++ [' ', ' '] := by
  simp [lastLine]

/-- the part of the (possibly popped) buffer after its last line break -/
theorem drop_head_base (interp : Bool) (line : List Char) (st : Source) :
    ∃ L, '\n' ∉ L ∧ ∀ Z, ((if popsAt interp line st then pop2 st.s else st.s) ++ Z).drop
        (st.s.length - (lastLine st.s).length) = L ++ Z := by
  split
  · rename_i hp
    have he : endsWith st.s [' ', ' '] = true := by
      simp only [popsAt, Bool.and_eq_true] at hp; exact hp.2
    have hs := endsWith_two_spaces _ he
    refine ⟨lastLine (pop2 st.s), lastLine_noNl _, fun Z => ?_⟩
    have hlen : st.s.length - (lastLine st.s).length = (pop2 st.s).length - (lastLine (pop2 st.s)).length := by
      conv => lhs; rw [hs, lastLine_append_spaces]
      simp only [List.length_append, List.length_cons, List.length_nil]
      omega
    rw [hlen, List.drop_append_of_le_length (by omega), drop_lastLine]
  · exact ⟨lastLine st.s, lastLine_noNl _, fun Z => by
      rw [List.drop_append_of_le_length (by omega), drop_lastLine]⟩

theorem piecesOf_eq (interp : Bool) (t : List Char) :
    piecesOf interp t = (splitNl t).map (mkPiece ((splitNl t).length == 1) interp) := rfl

/-- Monitor (2b) on the model. -/
theorem lineIndent_model (st : Source) (tr : Track) (h : Rel st tr) (interp : Bool) (t : List Char) :
    lineIndentOk tr (piecesOf interp t) st.s (pushStrImpl st t interp).s = true := by
  rw [pushStrImpl_eq, piecesOf_eq]
  unfold lineIndentOk
  have hp := splitNl_pieces t
  have hn := splitNl_noNl t
  generalize ((splitNl t).length == 1) = single
  generalize splitNl t = ps at *
  cases hc : st.continuingLine with
  | false =>
    obtain ⟨d, hd, hgo⟩ := lineIndent_fold single interp ps hp hn st tr h hc
    rw [hd, lastLine_lineStart _ (h.ls hc)]
    simpa using hgo
  | true =>
    cases hp with
    | nil => rfl
    | last l t' _ =>
      simp [lineIndentGo, lineBeginOk, h.mid, hc]
    | cons l ps hne hps =>
      have hst1 : pushPiece single interp st (l, true) = newline (pushLine single interp (lineOf (l, true)) st) := by
        simp [pushPiece]
      have hr1 := rel_piece single interp st tr (l, true) h
      obtain ⟨d, hd, hgo⟩ := lineIndent_fold single interp ps hps (fun p hp => hn p (by simp [hp])) _ _ hr1
        (by rw [hst1]; rfl)
      simp only [List.foldl_cons, List.map_cons, lineIndentGo]
      rw [hd, hst1, newline_s, pushLine_s_cont single interp _ st hc]
      obtain ⟨L, hL, hdrop⟩ := drop_head_base interp (lineOf (l, true)) st
      have hl := lineOf_noNl (l, true) (hn (l, true) (by simp))
      simp only [List.append_assoc, hdrop]
      have hno : '\n' ∉ L ++ (if single then lineOf (l, true) else trimStart (lineOf (l, true))) := by
        simp only [List.mem_append, not_or]
        exact ⟨hL, shownM_noNl _ _ hl⟩
      have e : L ++ ((if single = true then lineOf (l, true) else trimStart (lineOf (l, true))) ++ (['\n'] ++ d))
          = (L ++ (if single then lineOf (l, true) else trimStart (lineOf (l, true)))) ++ '\n' :: d := by simp
      rw [e, breakNl_line _ _ hno]
      simp only [lineBeginOk, h.mid, hc, Bool.true_or, if_true, Bool.true_and]
      exact hgo

/-! ### whole text requests -/

theorem rel_fold (single interp : Bool) (ps : List (List Char × Bool)) :
    ∀ (st : Source) (tr : Track), Rel st tr →
      Rel (ps.foldl (pushPiece single interp) st) ((ps.map (mkPiece single interp)).foldl Track.piece tr) := by
  induction ps with
  | nil => intro st tr h; exact h
  | cons p ps ih => intro st tr h; exact ih _ _ (rel_piece single interp st tr p h)

/-- the tracking state follows the model through a text request -/
theorem rel_text (st : Source) (tr : Track) (h : Rel st tr) (interp : Bool) (t : List Char) :
    Rel (pushStrImpl st t interp) (tr.pieces (piecesOf interp t)) := by
  rw [pushStrImpl_eq, piecesOf_eq]
  exact rel_fold _ _ _ _ _ h

/-! ### literal text (monitor 3a) -/

theorem pushPiece_literal_indent (single : Bool) (st : Source) (p : List Char × Bool) :
    (pushPiece single false st p).indent = st.indent := by
  unfold pushPiece; split <;> simp [pushLine, newline]

theorem literal_indent (st : Source) (t : List Char) : (pushStrImpl st t false).indent = st.indent := by
  rw [pushStrImpl_eq]
  generalize ((splitNl t).length == 1) = single
  generalize splitNl t = ps
  induction ps generalizing st with
  | nil => rfl
  | cons p ps ih => rw [List.foldl_cons, ih, pushPiece_literal_indent]

theorem pushPiece_literal_comment (single : Bool) (st : Source) (p : List Char × Bool) :
    (pushPiece single false st p).inLineComment = (if p.2 then false else st.inLineComment) := by
  unfold pushPiece; split <;> simp [pushLine, newline]

/-- literal text leaves the comment state as it is, except that a line break ends a comment -/
theorem literal_comment (st : Source) (t : List Char) :
    (pushStrImpl st t false).inLineComment = (if t.contains '\n' then false else st.inLineComment) := by
  rw [pushStrImpl_eq]
  have hj := joinNl_splitNl t
  have hn := splitNl_noNl t
  generalize ((splitNl t).length == 1) = single
  generalize splitNl t = ps at *
  subst hj
  induction ps generalizing st with
  | nil => simp [joinNl]
  | cons p ps ih =>
    rw [List.foldl_cons, ih _ (fun q hq => hn q (by simp [hq])), pushPiece_literal_comment]
    obtain ⟨l, b⟩ := p
    have hl : '\n' ∉ l := hn (l, b) (by simp)
    cases b
    · simp [joinNl, hl]
    · simp [joinNl]

/-! ### balanced fragments (monitor 4) -/

/-- level tracking relative to a base level, for a fragment counted from zero -/
theorem pushPiece_indent_off (single interp : Bool) (st : Source) (tr : Track) (p : List Char × Bool) (base : Nat)
    (hc : tr.inComment = st.inLineComment) (hl : (st.indent : Int) = base + tr.level) (h0 : 0 ≤ tr.level)
    (hok : (tr.piece (mkPiece single interp p)).levelOk = true) :
    ((pushPiece single interp st p).indent : Int) = base + (tr.piece (mkPiece single interp p)).level ∧
    0 ≤ (tr.piece (mkPiece single interp p)).level ∧
    (tr.piece (mkPiece single interp p)).inComment = (pushPiece single interp st p).inLineComment := by
  have hind : (pushPiece single interp st p).indent = (pushLine single interp (lineOf p) st).indent := by
    unfold pushPiece; split <;> simp [newline]
  have hcm : (tr.piece (mkPiece single interp p)).inComment = (pushPiece single interp st p).inLineComment := by
    unfold pushPiece
    cases hp2 : p.2 <;>
      simp [Track.piece, mkPiece, hp2, pushLine, newline, Track.comment, Piece.isComment, trim_lineOf, hc]
  refine ⟨?_, ?_, hcm⟩
  all_goals
    (try rw [hind])
    simp only [Track.piece, Bool.and_eq_true, Bool.and_eq_false_iff, Bool.not_eq_eq_eq_not,
      Bool.not_true, decide_eq_false_iff_not, Int.not_le] at hok
  all_goals
    simp only [Track.piece, Track.delta, Track.eff, Track.comment, mkPiece, Piece.isComment, Piece.opens,
      Piece.closes, pushLine, trim_lineOf, hc] at hok ⊢
    generalize startsWith (trim p.1) ['/', '/'] = isCm at *
    generalize startsWith (trim p.1) ['}'] = cl at *
    generalize endsWith (trim p.1) ['{'] = op at *
    generalize st.inLineComment = cm0 at *
    cases interp <;> cases cm0 <;> cases isCm <;> cases cl <;> cases op <;> simp at hok ⊢ <;> omega


theorem balanced_fold (single : Bool) (base : Nat) (ps : List (List Char × Bool)) :
    ∀ (st : Source) (tr : Track), tr.inComment = st.inLineComment → (st.indent : Int) = base + tr.level →
      0 ≤ tr.level → balancedGo tr (ps.map (mkPiece single true)) = true →
      (ps.foldl (pushPiece single true) st).indent = base := by
  induction ps with
  | nil =>
    intro st tr _ hl _ hb
    simp only [List.map_nil, balancedGo, beq_iff_eq] at hb
    simp only [List.foldl_nil]
    omega
  | cons p ps ih =>
    intro st tr hc hl h0 hb
    simp only [List.map_cons, balancedGo, Bool.and_eq_true] at hb
    obtain ⟨h1, h2, h3⟩ := pushPiece_indent_off single true st tr p base hc hl h0 hb.1
    exact ih _ _ h3 h1 h2 hb.2

/-- Monitor (4) on the model: a brace-balanced fragment restores the indentation. -/
theorem balanced_model (st : Source) (t : List Char) (hc : st.inLineComment = false)
    (hb : Balanced t = true) : (pushStrImpl st t true).indent = st.indent := by
  rw [pushStrImpl_eq]
  unfold Balanced at hb
  rw [piecesOf_eq] at hb
  exact balanced_fold _ st.indent _ st Track.init (by simp [Track.init, hc]) (by simp [Track.init])
    (by simp [Track.init]) hb

/-! ### reachable buffers -/

/-- Buffers built from `Source::default()` by the operations of the model, where every buffer
passed to `append_src` is itself built that way. -/
inductive Reachable : Source → Prop
  | empty : Reachable Source.empty
  | step {st st' : Source} (op : Op) : Reachable st → (∀ o, op = .appendSrc o → Reachable o) →
      st.step op = some st' → Reachable st'

theorem not_lineStart_append (x y : List Char) (hy : y ≠ []) (hn : '\n' ∉ y) : ¬ LineStart (x ++ y) := by
  intro h
  rcases h with h | h
  · simp at h; exact hy h.2
  · rw [List.getLast?_append] at h
    cases hl : y.getLast? with
    | none => exact hy (List.getLast?_eq_none_iff.mp hl)
    | some c =>
      rw [hl] at h
      simp at h
      exact hn (List.mem_of_getLast? (h ▸ hl))

theorem not_lineStart_append' (x y : List Char) (hx : ¬ LineStart x) (hn : '\n' ∉ y) : ¬ LineStart (x ++ y) := by
  cases y with
  | nil => simpa using hx
  | cons a y => exact not_lineStart_append x (a :: y) (by simp) hn

/-- inside a line comment the buffer is not at a line start -/
def CommentMid (st : Source) : Prop := st.inLineComment = true → ¬ LineStart st.s


theorem trimStart_ne_nil_of_trim (line : List Char) (h : trim line ≠ []) : trimStart line ≠ [] := by
  intro h2; apply h; simp [trim, h2, trimEnd]

theorem startsWith_ne_nil (s p : List Char) (hp : p ≠ []) (h : startsWith s p = true) : s ≠ [] := by
  intro hs; subst hs
  cases p with
  | nil => exact hp rfl
  | cons a p => simp [startsWith, List.isPrefixOf] at h

theorem commentMid_pushLine (single interp : Bool) (line : List Char) (st : Source) (hn : '\n' ∉ line)
    (h : CommentMid st) : CommentMid (pushLine single interp line st) := by
  intro hcm
  simp only [pushLine] at hcm ⊢
  -- no pop inside a comment
  have hnp : (interp && !(st.inLineComment || interp && startsWith (trim line) ['/', '/']) &&
      startsWith (trim line) ['}'] && endsWith (if (!st.continuingLine && !line.isEmpty) = true then st.s ++ spaces st.indent else st.s) [' ', ' ']) = false := by
    rw [hcm]; simp
  simp only [hnp, Bool.false_eq_true, if_false]
  have hshown : '\n' ∉ (if single then line else trimStart line) := shownM_noNl single line hn
  rw [Bool.or_eq_true] at hcm
  rcases hcm with hold | hnew
  · apply not_lineStart_append' _ _ _ hshown
    split
    · apply not_lineStart_append' _ _ (h hold)
      intro hm; simp [spaces] at hm
    · exact h hold
  · simp only [Bool.and_eq_true] at hnew
    have htr : trim line ≠ [] := startsWith_ne_nil _ _ (by simp) hnew.2
    apply not_lineStart_append _ _ _ hshown
    split
    · intro hl; subst hl; exact htr rfl
    · exact trimStart_ne_nil_of_trim line htr

theorem commentMid_pushPiece (single interp : Bool) (p : List Char × Bool) (st : Source) (hn : '\n' ∉ p.1)
    (h : CommentMid st) : CommentMid (pushPiece single interp st p) := by
  unfold pushPiece
  split
  · intro hc; simp [newline] at hc
  · exact commentMid_pushLine single interp _ st (lineOf_noNl p hn) h

theorem commentMid_pushStrImpl (st : Source) (t : List Char) (interp : Bool) (h : CommentMid st) :
    CommentMid (pushStrImpl st t interp) := by
  rw [pushStrImpl_eq]
  have hn := splitNl_noNl t
  generalize ((splitNl t).length == 1) = single
  generalize splitNl t = ps at *
  induction ps generalizing st with
  | nil => exact h
  | cons p ps ih =>
    rw [List.foldl_cons]
    exact ih _ (commentMid_pushPiece single interp p st (hn p (by simp)) h) (fun q hq => hn q (by simp [hq]))

theorem reachable_commentMid (st : Source) (h : Reachable st) : CommentMid st := by
  induction h with
  | empty => intro hc; simp [Source.empty] at hc
  | step op _ ho hs ih iho =>
    cases op with
    | pushStr t => simp [step] at hs; subst hs; exact commentMid_pushStrImpl _ t true ih
    | pushLit t => simp [step] at hs; subst hs; exact commentMid_pushStrImpl _ t false ih
    | indent n => simp [step] at hs; subst hs; exact ih
    | deindent n =>
      simp only [step, deindent] at hs
      split at hs
      · simp at hs; subst hs; exact ih
      · simp at hs
    | setIndent n => simp [step, setIndent] at hs; subst hs; exact ih
    | appendSrc o =>
      simp [step] at hs; subst hs
      intro hc
      have ho' := iho o rfl hc
      simp only [appendSrc] at hc ⊢
      intro hl
      apply ho'
      rcases hl with hl | hl
      · left; simp at hl; exact hl.2
      · by_cases hoe : o.s = []
        · left; exact hoe
        · right
          rw [List.getLast?_append] at hl
          cases hol : o.s.getLast? with
          | none => exact absurd (List.getLast?_eq_none_iff.mp hol) hoe
          | some c => rw [hol] at hl; simpa using hl

/-! ### the model's histories as the spec side observes them -/

/-- the request an operation is, as the spec side sees it -/
def reqOf : Op → Req
  | .pushStr t => .text true t
  | .pushLit t => .text false t
  | .indent n => .indent n
  | .deindent n => .deindent n
  | .setIndent n => .setIndent n
  | .appendSrc o => .append o.s o.indent

/-- what is observed after an operation: buffer, probed level, value returned by `set_indent` -/
def obsAfter (st : Source) (op : Op) (st' : Source) : Obs :=
  { indent := st'.indent, s := st'.s, old := match op with | .setIndent _ => some st.indent | _ => none }

/-- the observed history of the model -/
def observe (st : Source) : List Op → List (Req × Option Obs)
  | [] => []
  | op :: ops => match st.step op with
    | none => [(reqOf op, none)]
    | some st' => (reqOf op, some (obsAfter st op st')) :: observe st' ops

/-- every buffer passed to `append_src` is itself reachable -/
def WFOps (ops : List Op) : Prop := ∀ o, Op.appendSrc o ∈ ops → Reachable o

/-- the observation before a step agrees with the state -/
def ObsOf (prev : Obs) (st : Source) : Prop := prev.s = st.s ∧ prev.indent = st.indent

theorem good_of_known (v : Verdict) (h : v.goodModuloKnown = true) (hc : v.content = .ok) : v.good = true := by
  simp only [Verdict.goodModuloKnown, Verdict.good, Bool.and_eq_true] at h ⊢
  simp [hc, h.1.1.1.1.2, h.1.1.1.2, h.1.1.2, h.1.2, h.2]

/-- does the step keep content exactly (the `_partial` hypothesis for one step) -/
def SafeStep (st : Source) : Op → Prop
  | .pushStr t => applicable st.s t true = Loss.none
  | .pushLit t => applicable st.s t false = Loss.none
  | _ => True

theorem pieces_sync (ps : List Piece) (tr : Track) : (ps.foldl Track.piece tr).sync = tr.sync := by
  induction ps generalizing tr with
  | nil => rfl
  | cons p ps ih => rw [List.foldl_cons, ih]; rfl

theorem step_text (st : Source) (tr : Track) (prev : Obs) (hprev : ObsOf prev st)
    (hrel : tr.sync = true → Rel st tr) (interp : Bool) (t : List Char) (old : Option Nat) :
    let st' := pushStrImpl st t interp
    let v := stepVerdict tr prev (.text interp t) { indent := st'.indent, s := st'.s, old := old }
    v.goodModuloKnown = true ∧
    ((trackReq tr (.text interp t)).sync = true → Rel st' (trackReq tr (.text interp t))) ∧
    (applicable st.s t interp = Loss.none → v.content = .ok) := by
  intro st' v
  have hsync' : (trackReq tr (.text interp t)).sync = tr.sync := pieces_sync _ _
  cases hsy : tr.sync with
  | false =>
    refine ⟨?_, ?_, ?_⟩
    · simp [v, stepVerdict, hsy, Verdict.goodModuloKnown]
    · rw [hsync', hsy]; simp
    · intro _; simp [v, stepVerdict, hsy]
  | true =>
    have hr := hrel hsy
    have hr' : Rel st' (tr.pieces (piecesOf interp t)) := rel_text st tr hr interp t
    have hcs := contentStep_model st t interp hr.ls
    obtain ⟨hps, hpi⟩ := hprev
    have h2 := lineIndent_model st tr hr interp t
    have h3 : (interp || st'.indent == st.indent) = true := by
      cases interp
      · simp [st', literal_indent st t]
      · rfl
    have h4 : (!(interp && !tr.inComment && Balanced t) || st'.indent == st.indent) = true := by
      cases hb : (interp && !tr.inComment && Balanced t)
      · rfl
      · simp only [Bool.and_eq_true, Bool.not_eq_true'] at hb
        have hi : interp = true := hb.1.1
        subst hi
        simp [st', balanced_model st t (by rw [← hr.cm]; exact hb.1.2) hb.2]
    have hc : v.content = contentStep st.s st'.s t interp := by
      simp [v, stepVerdict, hsy, hps]
    refine ⟨?_, fun _ => hr', ?_⟩
    · have hne : (v.content != .other) = true := by rw [hc]; simpa using hcs.1
      simp only [Verdict.goodModuloKnown, hne, Bool.true_and]
      simp [v, stepVerdict, hsy, trackReq, hps, hpi]
      refine ⟨⟨⟨?_, h2⟩, by simpa using h3⟩, by simpa using h4⟩
      cases hok : (tr.pieces (piecesOf interp t)).levelOk
      · exact Or.inl rfl
      · exact Or.inr (decide_eq_true (hr'.lvl hok).symm)
    · intro happ; rw [hc]; exact hcs.2 happ

theorem step_good (st : Source) (tr : Track) (prev : Obs) (hprev : ObsOf prev st)
    (hrel : tr.sync = true → Rel st tr) (op : Op) (hop : ∀ o, op = .appendSrc o → Reachable o)
    (st' : Source) (hs : st.step op = some st') :
    (stepVerdict tr prev (reqOf op) (obsAfter st op st')).goodModuloKnown = true ∧
    ((trackReq tr (reqOf op)).sync = true → Rel st' (trackReq tr (reqOf op))) ∧
    (SafeStep st op → (stepVerdict tr prev (reqOf op) (obsAfter st op st')).content = .ok) := by
  cases op with
  | pushStr t =>
    simp only [step, Option.some.injEq] at hs; subst hs
    exact step_text st tr prev hprev hrel true t none
  | pushLit t =>
    simp only [step, Option.some.injEq] at hs; subst hs
    exact step_text st tr prev hprev hrel false t none
  | indent n =>
    simp only [step, Option.some.injEq] at hs; subst hs
    obtain ⟨hps, hpi⟩ := hprev
    cases hsy : tr.sync with
    | false => simp [stepVerdict, hsy, Verdict.goodModuloKnown, reqOf, trackReq]
    | true =>
      have hr := hrel hsy
      refine ⟨?_, fun _ => ⟨hr.mid, hr.cm, fun hok => ?_, hr.ls⟩, fun _ => ?_⟩
      · simp only [stepVerdict, hsy, reqOf, trackReq, obsAfter, addIndent, hps, Verdict.goodModuloKnown]
        cases hok : tr.levelOk
        · simp
        · simp [hr.lvl hok]
      · simp only [trackReq, reqOf, addIndent] at hok ⊢
        rw [hr.lvl hok]; simp
      · simp [stepVerdict, hsy, reqOf, obsAfter, addIndent, hps]
  | deindent n =>
    simp only [step, deindent] at hs
    split at hs
    · rename_i hle
      simp only [Option.some.injEq] at hs; subst hs
      obtain ⟨hps, hpi⟩ := hprev
      cases hsy : tr.sync with
      | false => simp [stepVerdict, hsy, Verdict.goodModuloKnown, reqOf, trackReq]
      | true =>
        have hr := hrel hsy
        refine ⟨?_, fun _ => ⟨hr.mid, hr.cm, fun hok => ?_, hr.ls⟩, fun _ => ?_⟩
        · simp only [stepVerdict, hsy, reqOf, trackReq, obsAfter, hps, Verdict.goodModuloKnown]
          cases hok : tr.levelOk
          · simp
          · simp [hr.lvl hok]; omega
        · simp only [trackReq, reqOf] at hok ⊢
          rw [hr.lvl hok]; omega
        · simp [stepVerdict, hsy, reqOf, obsAfter, hps]
    · simp at hs
  | setIndent n =>
    simp only [step, setIndent, Option.some.injEq] at hs; subst hs
    obtain ⟨hps, hpi⟩ := hprev
    cases hsy : tr.sync with
    | false => simp [stepVerdict, hsy, Verdict.goodModuloKnown, reqOf, trackReq]
    | true =>
      have hr := hrel hsy
      refine ⟨?_, fun _ => ⟨hr.mid, hr.cm, fun _ => rfl, hr.ls⟩, fun _ => ?_⟩
      · simp [stepVerdict, hsy, reqOf, trackReq, obsAfter, hps, hpi, Verdict.goodModuloKnown]
      · simp [stepVerdict, hsy, reqOf, obsAfter, hps]
  | appendSrc o =>
    simp only [step, Option.some.injEq] at hs; subst hs
    obtain ⟨hps, hpi⟩ := hprev
    cases hsy : tr.sync with
    | false =>
      refine ⟨by simp [stepVerdict, hsy, Verdict.goodModuloKnown], ?_, by simp [stepVerdict, hsy]⟩
      simp only [reqOf, trackReq]
      split <;> simp [hsy]
    | true =>
      have hr := hrel hsy
      cases hdom : appendInDomain tr o.s with
      | false =>
        simp [stepVerdict, hsy, reqOf, trackReq, hdom, Verdict.goodModuloKnown]
      | true =>
        simp only [appendInDomain, Bool.and_eq_true, Bool.not_eq_true', Bool.or_eq_true,
          List.isEmpty_iff, beq_iff_eq] at hdom
        have hls : LineStart o.s := hdom.2
        have hcm : o.inLineComment = false := by
          cases h : o.inLineComment
          · rfl
          · exact absurd hls (reachable_commentMid o (hop o rfl) h)
        have hcont : st.continuingLine = false := by rw [← hr.mid]; exact hdom.1
        have hdom' : appendInDomain tr o.s = true := by
          simp only [appendInDomain, Bool.and_eq_true, Bool.not_eq_true', Bool.or_eq_true,
            List.isEmpty_iff, beq_iff_eq]; exact hdom
        refine ⟨?_, fun _ => ⟨?_, ?_, fun hok => ?_, fun _ => ?_⟩, fun _ => ?_⟩
        · simp only [stepVerdict, hsy, reqOf, trackReq, hdom', obsAfter, appendSrc, hps, Verdict.goodModuloKnown]
          cases hok : tr.levelOk
          · simp
          · simp [hr.lvl hok]
        · simp [trackReq, reqOf, hdom', appendSrc, hr.mid]
        · simp [trackReq, reqOf, hdom', appendSrc, hcm]
        · simp only [trackReq, reqOf, hdom', if_true, appendSrc] at hok ⊢
          rw [hr.lvl hok]; simp
        · simp only [appendSrc]
          rcases hls with he | hl
          · rw [he]; simpa using hr.ls hcont
          · right; rw [List.getLast?_append, hl]; rfl
        · simp [stepVerdict, hsy, reqOf, trackReq, hdom', obsAfter, appendSrc, hps]


theorem step_none (st : Source) (op : Op) (hs : st.step op = none) :
    ∃ n, op = .deindent n ∧ st.indent < n := by
  cases op with
  | deindent n =>
    simp only [step, deindent] at hs
    split at hs
    · simp at hs
    · exact ⟨n, rfl, by omega⟩
  | _ => simp [step] at hs

/-- every text step of the history keeps content exactly (no known loss is applicable) -/
def SafeFrom (st : Source) : List Op → Prop
  | [] => True
  | op :: ops => SafeStep st op ∧ match st.step op with
    | some st' => SafeFrom st' ops
    | none => True

/-- The C25 monitors hold of every observed history of the model (content: up to the known losses;
exactly when no known loss is applicable). -/
theorem monitor_model (ops : List Op) :
    ∀ (st : Source) (tr : Track) (prev : Obs), ObsOf prev st → (tr.sync = true → Rel st tr) → WFOps ops →
      (∀ v ∈ monitor tr prev (observe st ops), v.goodModuloKnown = true) ∧
      (SafeFrom st ops → ∀ v ∈ monitor tr prev (observe st ops), v.good = true) := by
  induction ops with
  | nil => intro st tr prev _ _ _; simp [observe, monitor]
  | cons op ops ih =>
    intro st tr prev hprev hrel hwf
    have hwf' : WFOps ops := fun o ho => hwf o (by simp [ho])
    have hop : ∀ o, op = .appendSrc o → Reachable o := fun o ho => hwf o (by simp [ho])
    cases hs : st.step op with
    | none =>
      obtain ⟨n, rfl, hlt⟩ := step_none st op hs
      have hv : (!tr.sync || !tr.levelOk || mustPanic tr (.deindent n)) = true := by
        cases hsy : tr.sync
        · rfl
        · cases hok : tr.levelOk
          · rfl
          · have := (hrel hsy).lvl hok
            simp [mustPanic, this]; omega
      simp only [observe, hs, reqOf, monitor, List.mem_singleton]
      constructor
      · intro v hv'; subst hv'; simp [Verdict.goodModuloKnown, hv]
      · intro _ v hv'; subst hv'; simp [Verdict.good, hv]
    | some st' =>
      obtain ⟨hg, hr', hc⟩ := step_good st tr prev hprev hrel op hop st' hs
      have hprev' : ObsOf (obsAfter st op st') st' := ⟨rfl, rfl⟩
      obtain ⟨ih1, ih2⟩ := ih st' (trackReq tr (reqOf op)) (obsAfter st op st') hprev' hr' hwf'
      simp only [observe, hs, monitor, List.mem_cons]
      constructor
      · rintro v (rfl | hv)
        · exact hg
        · exact ih1 v hv
      · intro hsafe
        simp only [SafeFrom, hs] at hsafe
        rintro v (rfl | hv)
        · exact good_of_known _ hg (hc hsafe.1)
        · exact ih2 hsafe.2 v hv

/-! ### global content preservation -/

/-- the text an operation appends -/
def textOf : Op → List Char
  | .pushStr t => t
  | .pushLit t => t
  | .appendSrc o => o.s
  | _ => []

/-- the spec-side tracking state after a history -/
def trackOps (tr : Track) (ops : List Op) : Track := ops.foldl (fun tr op => trackReq tr (reqOf op)) tr

theorem sync_mono (tr : Track) (r : Req) (h : (trackReq tr r).sync = true) : tr.sync = true := by
  cases r with
  | text interp t => simpa [trackReq, Track.pieces, pieces_sync] using h
  | indent n => simpa [trackReq] using h
  | deindent n => simpa [trackReq] using h
  | setIndent n => simpa [trackReq] using h
  | append sub k =>
    simp only [trackReq] at h
    split at h
    · simpa using h
    · simp at h

theorem trackOps_sync (ops : List Op) : ∀ tr, (trackOps tr ops).sync = true → tr.sync = true := by
  induction ops with
  | nil => intro tr h; exact h
  | cons op ops ih => intro tr h; exact sync_mono _ _ (ih _ h)

theorem contentEq_refl (a : List Char) : contentEq a a = true := by simp [contentEq]

theorem step_content (st : Source) (op : Op) (st' : Source) (hs : st.step op = some st')
    (hls : st.continuingLine = false → LineStart st.s) (hsafe : SafeStep st op) :
    contentEq st'.s (st.s ++ textOf op) = true := by
  cases op with
  | pushStr t =>
    simp only [step, Option.some.injEq] at hs; subst hs
    exact contentStep_ok _ _ _ _ ((contentStep_model st t true hls).2 hsafe)
  | pushLit t =>
    simp only [step, Option.some.injEq] at hs; subst hs
    exact contentStep_ok _ _ _ _ ((contentStep_model st t false hls).2 hsafe)
  | indent n => simp only [step, Option.some.injEq] at hs; subst hs; simp [textOf, addIndent, contentEq]
  | deindent n =>
    simp only [step, deindent] at hs
    split at hs
    · simp only [Option.some.injEq] at hs; subst hs; simp [textOf, contentEq]
    · simp at hs
  | setIndent n => simp only [step, setIndent, Option.some.injEq] at hs; subst hs; simp [textOf, contentEq]
  | appendSrc o => simp only [step, Option.some.injEq] at hs; subst hs; simp [textOf, appendSrc, contentEq]

/-- Global form of (1): when no known loss is applicable at any step (and `append_src` is used on
line boundaries) the buffer is the concatenation of the appended texts up to line-start whitespace. -/
theorem content_global (ops : List Op) :
    ∀ (st : Source) (tr : Track) (acc : List Char), (tr.sync = true → Rel st tr) → contentEq st.s acc = true →
      WFOps ops → SafeFrom st ops → (trackOps tr ops).sync = true →
      ∀ st', run st ops = some st' → contentEq st'.s (acc ++ ops.flatMap textOf) = true := by
  induction ops with
  | nil =>
    intro st tr acc _ hacc _ _ _ st' hr
    simp only [run, Option.some.injEq] at hr; subst hr; simpa using hacc
  | cons op ops ih =>
    intro st tr acc hrel hacc hwf hsafe hsync st' hr
    have hsy : tr.sync = true := trackOps_sync (op :: ops) tr hsync
    have hrl := hrel hsy
    cases hs : st.step op with
    | none => simp [run, hs] at hr
    | some st1 =>
      simp only [run, hs] at hr
      simp only [SafeFrom, hs] at hsafe
      have hop : ∀ o, op = .appendSrc o → Reachable o := fun o ho => hwf o (by simp [ho])
      obtain ⟨_, hr', _⟩ := step_good st tr { indent := st.indent, s := st.s } ⟨rfl, rfl⟩ hrel op hop st1 hs
      have hc := step_content st op st1 hs hrl.ls hsafe.1
      have hacc' : contentEq st1.s (acc ++ textOf op) = true :=
        contentEq_trans _ _ _ hc (contentEq_append _ _ _ hacc)
      have := ih st1 (trackReq tr (reqOf op)) (acc ++ textOf op) hr' hacc' (fun o ho => hwf o (by simp [ho]))
        hsafe.2 hsync st' hr
      simpa [List.flatMap_cons, List.append_assoc] using this

/-! ### literal text influences nothing but itself (monitor 3b) -/

/-- two buffers that went through the same history up to neutralised literal text -/
structure NRel (a b : Source) : Prop where
  ind : a.indent = b.indent
  cm : a.inLineComment = b.inLineComment
  cont : a.continuingLine = b.continuingLine
  s : neutralRel a.s b.s = true

theorem nrel_refl (a : Source) : NRel a a := ⟨rfl, rfl, rfl, neutralRel_refl _⟩

theorem pushLine_nrel (single interp : Bool) (l1 l2 : List Char) (st1 st2 : Source) (h : NRel st1 st2)
    (hl : interp = true → l1 = l2) (he : l1.isEmpty = l2.isEmpty)
    (hs : neutralRel (if single then l1 else trimStart l1) (if single then l2 else trimStart l2) = true) :
    NRel (pushLine single interp l1 st1) (pushLine single interp l2 st2) := by
  obtain ⟨hi, hc, hco, hss⟩ := h
  have hs1 : neutralRel (if (!st1.continuingLine && !l1.isEmpty) = true then st1.s ++ spaces st1.indent else st1.s)
      (if (!st2.continuingLine && !l2.isEmpty) = true then st2.s ++ spaces st2.indent else st2.s) = true := by
    rw [hco, he, hi]
    split
    · exact neutralRel_append _ _ _ _ hss (neutralRel_refl _)
    · exact hss
  cases interp with
  | false =>
    refine ⟨?_, ?_, ?_, ?_⟩
    · simp [pushLine, hi]
    · simp [pushLine, hc]
    · simp [pushLine]
    · simp only [pushLine, Bool.false_and, Bool.false_eq_true, if_false]
      exact neutralRel_append _ _ _ _ hs1 hs
  | true =>
    have hl' := hl rfl
    subst hl'
    refine ⟨?_, ?_, ?_, ?_⟩
    · simp [pushLine, hi, hc]
    · simp [pushLine, hc]
    · simp [pushLine]
    · simp only [pushLine]
      apply neutralRel_append _ _ _ _ _ hs
      rw [hc, neutralRel_endsWith _ _ hs1]
      generalize (if (!st1.continuingLine && !l1.isEmpty) = true then st1.s ++ spaces st1.indent else st1.s) = x1 at hs1 ⊢
      generalize (if (!st2.continuingLine && !l1.isEmpty) = true then st2.s ++ spaces st2.indent else st2.s) = x2 at hs1 ⊢
      split
      · exact neutralRel_pop2 _ _ hs1
      · exact hs1

theorem newline_nrel (st1 st2 : Source) (h : NRel st1 st2) : NRel (newline st1) (newline st2) :=
  ⟨h.ind, rfl, rfl, neutralRel_append _ _ _ _ h.s (neutralRel_refl _)⟩


theorem neut_nl (c : Char) : (neut c = '\n') ↔ c = '\n' := by
  unfold neut; split
  · exact Iff.rfl
  · rename_i h
    constructor
    · intro e; exact absurd e (by decide)
    · intro e; subst e; exact absurd isWhite_nl h

theorem neut_cr (c : Char) : (neut c = '\r') ↔ c = '\r' := by
  unfold neut; split
  · exact Iff.rfl
  · rename_i h
    constructor
    · intro e; exact absurd e (by decide)
    · intro e; subst e; exact absurd isWhite_cr h

theorem splitNl_neutral (t : List Char) :
    splitNl (neutral t) = (splitNl t).map (fun p => (neutral p.1, p.2)) := by
  induction t with
  | nil => rfl
  | cons c cs ih =>
    simp only [neutral_eq_map, List.map_cons] at ih ⊢
    unfold splitNl
    by_cases hc : c = '\n'
    · subst hc
      have : neut '\n' = '\n' := (neut_nl _).mpr rfl
      simp [this, ih]
    · have : neut c ≠ '\n' := fun e => hc ((neut_nl c).mp e)
      simp only [hc, this, if_false]
      rw [ih]
      cases splitNl cs with
      | nil => rfl
      | cons p r => rfl

theorem stripCrEnd_neutral (l : List Char) : stripCrEnd (neutral l) = neutral (stripCrEnd l) := by
  unfold stripCrEnd
  simp only [neutral_eq_map, List.getLast?_map]
  have : (Option.map neut l.getLast? = some '\r') ↔ (l.getLast? = some '\r') := by
    cases l.getLast? with
    | none => simp
    | some c => simp [neut_cr]
  by_cases h : l.getLast? = some '\r'
  · rw [if_pos (this.mpr h), if_pos h, List.map_dropLast]
  · rw [if_neg (fun e => h (this.mp e)), if_neg h]

theorem lineOf_neutral (p : List Char × Bool) : lineOf (neutral p.1, p.2) = neutral (lineOf p) := by
  unfold lineOf; split
  · exact stripCrEnd_neutral _
  · rfl

theorem trimStart_neutral (l : List Char) : trimStart (neutral l) = neutral (trimStart l) := by
  unfold trimStart
  rw [neutral_eq_map, List.dropWhile_map]
  congr 1
  congr 1
  funext c; exact isWhite_neut c

theorem pushPiece_nrel_lit (single : Bool) (p : List Char × Bool) (st1 st2 : Source) (h : NRel st1 st2) :
    NRel (pushPiece single false st1 p) (pushPiece single false st2 (neutral p.1, p.2)) := by
  have hl : NRel (pushLine single false (lineOf p) st1) (pushLine single false (lineOf (neutral p.1, p.2)) st2) := by
    rw [lineOf_neutral]
    apply pushLine_nrel single false _ _ _ _ h (by simp)
    · simp [neutral_eq_map]
    · cases single
      · simp only [Bool.false_eq_true, if_false]; rw [trimStart_neutral]; exact neutralRel_neutral _
      · exact neutralRel_neutral _
  unfold pushPiece
  simp only
  split
  · exact newline_nrel _ _ hl
  · exact hl

theorem pushPiece_nrel_same (single interp : Bool) (p : List Char × Bool) (st1 st2 : Source) (h : NRel st1 st2) :
    NRel (pushPiece single interp st1 p) (pushPiece single interp st2 p) := by
  have hl := pushLine_nrel single interp (lineOf p) (lineOf p) st1 st2 h (fun _ => rfl) rfl (neutralRel_refl _)
  unfold pushPiece
  split
  · exact newline_nrel _ _ hl
  · exact hl

theorem pushStrImpl_nrel_same (st1 st2 : Source) (h : NRel st1 st2) (t : List Char) (interp : Bool) :
    NRel (pushStrImpl st1 t interp) (pushStrImpl st2 t interp) := by
  rw [pushStrImpl_eq, pushStrImpl_eq]
  generalize ((splitNl t).length == 1) = single
  generalize splitNl t = ps
  induction ps generalizing st1 st2 with
  | nil => exact h
  | cons p ps ih => exact ih _ _ (pushPiece_nrel_same single interp p st1 st2 h)

theorem pushStrImpl_nrel_lit (st1 st2 : Source) (h : NRel st1 st2) (t : List Char) :
    NRel (pushStrImpl st1 t false) (pushStrImpl st2 (neutral t) false) := by
  rw [pushStrImpl_eq, pushStrImpl_eq, splitNl_neutral, List.length_map]
  generalize ((splitNl t).length == 1) = single
  generalize splitNl t = ps
  induction ps generalizing st1 st2 with
  | nil => exact h
  | cons p ps ih => exact ih _ _ (pushPiece_nrel_lit single p st1 st2 h)

/-- two operations that are the same up to neutralised literal text -/
inductive OpRel : Op → Op → Prop
  | same (op : Op) : OpRel op op
  | lit (t : List Char) : OpRel (.pushLit t) (.pushLit (neutral t))
  | append (o1 o2 : Source) : NRel o1 o2 → OpRel (.appendSrc o1) (.appendSrc o2)

theorem step_nrel (st1 st2 : Source) (h : NRel st1 st2) (op1 op2 : Op) (ho : OpRel op1 op2) :
    match st1.step op1, st2.step op2 with
    | some a, some b => NRel a b
    | none, none => True
    | _, _ => False := by
  cases ho with
  | lit t => exact pushStrImpl_nrel_lit st1 st2 h t
  | append o1 o2 hr =>
    exact ⟨by simp [appendSrc, h.ind, hr.ind], hr.cm, h.cont, neutralRel_append _ _ _ _ h.s hr.s⟩
  | same =>
    cases op1 with
    | pushStr t => exact pushStrImpl_nrel_same st1 st2 h t true
    | pushLit t => exact pushStrImpl_nrel_same st1 st2 h t false
    | indent n => exact ⟨by simp [addIndent, h.ind], h.cm, h.cont, h.s⟩
    | deindent n =>
      simp only [step, deindent, h.ind]
      by_cases hn : n ≤ st2.indent
      · simp only [hn, if_true]
        exact ⟨rfl, h.cm, h.cont, h.s⟩
      · simp only [hn, if_false]
    | setIndent n => exact ⟨rfl, h.cm, h.cont, h.s⟩
    | appendSrc o =>
      exact ⟨by simp [appendSrc, h.ind], rfl, h.cont, neutralRel_append _ _ _ _ h.s (neutralRel_refl _)⟩


/-- element-wise relation of two lists of equal length -/
def AllPairs {α β : Type} (R : α → β → Prop) : List α → List β → Prop
  | [], [] => True
  | a :: as, b :: bs => R a b ∧ AllPairs R as bs
  | _, _ => False

/-- what monitor (3b) compares: two results of the same step of the two runs -/
def PairOk : Option Source → Option Source → Prop
  | some a, some b => literalPairOk { indent := a.indent, s := a.s } { indent := b.indent, s := b.s } = true
  | none, none => True
  | _, _ => False

/-- Monitor (3b) on the model: two histories that differ only in that literal fragments are
neutralised give, operation by operation, equal indentation levels and buffers related by
`neutralRel` (and panic at the same operation). -/
theorem literal_run (ops1 ops2 : List Op) :
    AllPairs OpRel ops1 ops2 → ∀ st1 st2, NRel st1 st2 → AllPairs PairOk (trace st1 ops1) (trace st2 ops2) := by
  induction ops1 generalizing ops2 with
  | nil =>
    cases ops2 with
    | nil => intro _ _ _ _; trivial
    | cons _ _ => intro h; exact absurd h id
  | cons op1 r1 ih =>
    cases ops2 with
    | nil => intro h; exact absurd h id
    | cons op2 r2 =>
      intro ho st1 st2 h
      obtain ⟨hop, hrest⟩ := ho
      have hstep := step_nrel st1 st2 h op1 op2 hop
      simp only [trace]
      cases h1 : st1.step op1 with
      | none =>
        cases h2 : st2.step op2 with
        | none => exact ⟨trivial, trivial⟩
        | some b => rw [h1, h2] at hstep; exact absurd hstep id
      | some a =>
        cases h2 : st2.step op2 with
        | none => rw [h1, h2] at hstep; exact absurd hstep id
        | some b =>
          rw [h1, h2] at hstep
          refine ⟨?_, ih r2 hrest a b hstep⟩
          simp [PairOk, literalPairOk, hstep.ind, hstep.s]


/-! ### the tracking state along a run -/

theorem rel_run (ops : List Op) :
    ∀ (st : Source) (tr : Track), (tr.sync = true → Rel st tr) → WFOps ops →
      ∀ st', run st ops = some st' → ((trackOps tr ops).sync = true → Rel st' (trackOps tr ops)) := by
  induction ops with
  | nil => intro st tr h _ st' hr; simp only [run, Option.some.injEq] at hr; subst hr; exact h
  | cons op ops ih =>
    intro st tr hrel hwf st' hr
    cases hs : st.step op with
    | none => simp [run, hs] at hr
    | some st1 =>
      simp only [run, hs] at hr
      have hop : ∀ o, op = .appendSrc o → Reachable o := fun o ho => hwf o (by simp [ho])
      obtain ⟨_, hr', _⟩ := step_good st tr { indent := st.indent, s := st.s } ⟨rfl, rfl⟩ hrel op hop st1 hs
      exact ih st1 _ hr' (fun o ho => hwf o (by simp [ho])) st' hr

theorem rel_empty : Rel Source.empty Track.init :=
  ⟨rfl, rfl, fun _ => rfl, fun _ => Or.inl rfl⟩

/-! ### the whole-buffer-line reading -/

theorem foldl_lineDelta_shift (ps : List (List Char × Bool)) (a : Int) :
    ps.foldl (fun a p => a + lineDelta p.1) a = a + ps.foldl (fun a p => a + lineDelta p.1) 0 := by
  induction ps generalizing a with
  | nil => simp
  | cons p ps ih => rw [List.foldl_cons, ih, List.foldl_cons, ih (0 + lineDelta p.1)]; omega

theorem bufferLevel_append (a b : List Char) (h : LineStart a) :
    bufferLevel (a ++ b) = bufferLevel a + bufferLevel b := by
  unfold bufferLevel
  rw [splitNl_append_lineStart a b h, List.foldl_append, foldl_lineDelta_shift]

theorem bufferLevel_line (l : List Char) (h : '\n' ∉ l) : bufferLevel (l ++ ['\n']) = lineDelta l := by
  unfold bufferLevel
  rw [splitNl_line l [] h]; simp [splitNl]

/-- the buffer line written for a piece pushed at a line start counts like the piece -/
theorem lineDelta_piece (single : Bool) (st : Source) (tr : Track) (p : List Char × Bool)
    (hc : tr.inComment = false) :
    lineDelta (indentOf true (lineOf p) st ++ (if single then lineOf p else trimStart (lineOf p)))
      = tr.delta (mkPiece single true p) := by
  have hw : ∀ c ∈ indentOf true (lineOf p) st, isWhite c = true := fun c hc => (ws_indentOf true (lineOf p) st c hc).1
  have ht : trim (indentOf true (lineOf p) st ++ (if single then lineOf p else trimStart (lineOf p))) = trim p.1 := by
    rw [trim_white_append _ _ hw]
    cases single
    · simp only [Bool.false_eq_true, if_false]; rw [trim_trimStart, trim_lineOf]
    · simp only [if_true]; rw [trim_lineOf]
  simp only [lineDelta, ht, Track.delta, Track.eff, Track.comment, mkPiece, Piece.isComment, Piece.opens, Piece.closes, hc,
    Bool.false_or, Bool.true_and]
  cases startsWith (trim p.1) ['/', '/'] <;> simp

theorem bufferLevel_fold (single : Bool) (ps : List (List Char × Bool))
    (hall : ∀ p ∈ ps, p.2 = true) (hn : ∀ p ∈ ps, '\n' ∉ p.1) :
    ∀ (st : Source) (tr : Track), Rel st tr → st.continuingLine = false → tr.inComment = false →
      bufferLevel (ps.foldl (pushPiece single true) st).s - ((ps.map (mkPiece single true)).foldl Track.piece tr).level
        = bufferLevel st.s - tr.level := by
  induction ps with
  | nil => intro st tr _ _ _; rfl
  | cons p ps ih =>
    intro st tr hr hc hcm
    obtain ⟨l, b⟩ := p
    have hb : b = true := hall (l, b) (by simp)
    subst hb
    have hl := lineOf_noNl (l, true) (hn (l, true) (by simp))
    have hst1 : pushPiece single true st (l, true) = newline (pushLine single true (lineOf (l, true)) st) := by
      simp [pushPiece]
    have hr1 := rel_piece single true st tr (l, true) hr
    simp only [List.foldl_cons, List.map_cons]
    rw [ih (fun q hq => hall q (by simp [hq])) (fun q hq => hn q (by simp [hq])) _ _ hr1 (by rw [hst1]; rfl)
      (by simp [Track.piece, mkPiece])]
    rw [hst1, newline_s, pushLine_s_lineStart single true _ st hc (hr.ls hc)]
    have hno : '\n' ∉ indentOf true (lineOf (l, true)) st ++ (if single then lineOf (l, true) else trimStart (lineOf (l, true))) := by
      simp only [List.mem_append, not_or]
      exact ⟨indentOf_noNl _ _ _, shownM_noNl _ _ hl⟩
    rw [List.append_assoc, List.append_assoc, bufferLevel_append _ _ (hr.ls hc), ← List.append_assoc,
      bufferLevel_line _ hno, lineDelta_piece single st tr (l, true) hcm]
    simp only [Track.piece]
    omega

theorem piece_cm (tr : Track) (p : Piece) (h : (tr.piece p).midLine = false) : (tr.piece p).inComment = false := by
  simp only [Track.piece, Bool.not_eq_eq_eq_not, Bool.not_false] at h ⊢
  simp [h]

theorem pieces_cm (ps : List Piece) (tr : Track) (h0 : tr.midLine = false → tr.inComment = false)
    (h : (ps.foldl Track.piece tr).midLine = false) : (ps.foldl Track.piece tr).inComment = false := by
  induction ps generalizing tr with
  | nil => exact h0 h
  | cons p ps ih => exact ih (tr.piece p) (piece_cm tr p) h

theorem pieces_levelOk_mono (ps : List Piece) (tr : Track) (h : (ps.foldl Track.piece tr).levelOk = true) :
    tr.levelOk = true := by
  induction ps generalizing tr with
  | nil => exact h
  | cons p ps ih =>
    have := ih (tr.piece p) h
    simp only [Track.piece, Bool.and_eq_true] at this
    exact this.1

theorem pieces_midLine (single interp : Bool) (ps : List (List Char × Bool)) (hne : ps ≠ []) (tr : Track) :
    ((ps.map (mkPiece single interp)).foldl Track.piece tr).midLine = !lastTerm ps := by
  induction ps generalizing tr with
  | nil => exact absurd rfl hne
  | cons p ps ih =>
    cases ps with
    | nil => simp [Track.piece, mkPiece, lastTerm]
    | cons q r =>
      rw [List.map_cons, List.foldl_cons, ih (by simp), lastTerm_cons p (q :: r) (by simp)]

theorem pieces_all_term (ps : List (List Char × Bool)) (hp : Pieces ps) (h : lastTerm ps = true) :
    ∀ p ∈ ps, p.2 = true := by
  induction hp with
  | nil => intro p hp; simp at hp
  | last l t _ => intro p hp; simp at hp; subst hp; simpa [lastTerm] using h
  | cons l ps hne _ ih =>
    intro p hp
    rw [lastTerm_cons _ _ hne] at h
    simp only [List.mem_cons] at hp
    rcases hp with rfl | hp
    · rfl
    · exact ih h p hp

/-! ### content after an `append_src` that left the line state stale -/

/-- with `continuing_line` unset, a line is pushed as onto the buffer with the indentation already written -/
def withIndent (st : Source) (line : List Char) : Source :=
  { st with s := if line.isEmpty then st.s else st.s ++ spaces st.indent, continuingLine := true }

theorem pushLine_stale (single interp : Bool) (line : List Char) (st : Source) (hc : st.continuingLine = false) :
    pushLine single interp line st = pushLine single interp line (withIndent st line) := by
  cases hl : line.isEmpty <;> simp [pushLine, withIndent, hc, hl]

theorem pushStrImpl_stale (st : Source) (t : List Char) (interp : Bool) (hc : st.continuingLine = false)
    (p0 : List Char × Bool) (rest : List (List Char × Bool)) (hs : splitNl t = p0 :: rest) :
    pushStrImpl st t interp = pushStrImpl (withIndent st (lineOf p0)) t interp := by
  rw [pushStrImpl_eq, pushStrImpl_eq, hs]
  simp only [List.foldl_cons]
  congr 1
  unfold pushPiece
  rw [pushLine_stale _ interp (lineOf p0) st hc]

theorem firstLine_noNl (l : List Char) (h : '\n' ∉ l) : firstLine l = l := by
  induction l with
  | nil => rfl
  | cons a l ih =>
    have ha : a ≠ '\n' := fun e => h (by simp [e])
    have hl : '\n' ∉ l := fun hm => h (by simp [hm])
    unfold firstLine at ih ⊢
    simp [ha, ih hl]

theorem firstLine_line (l r : List Char) (h : '\n' ∉ l) : firstLine (l ++ '\n' :: r) = l := by
  induction l with
  | nil => simp [firstLine]
  | cons a l ih =>
    have ha : a ≠ '\n' := fun e => h (by simp [e])
    have hl : '\n' ∉ l := fun hm => h (by simp [hm])
    unfold firstLine at ih ⊢
    simp [ha, ih hl]

theorem firstLine_crlf (t : List Char) (p0 : List Char × Bool) (rest : List (List Char × Bool))
    (hs : splitNl t = p0 :: rest) : firstLine (crlfToLf t) = lineOf p0 := by
  have hp := splitNl_pieces t
  have hn := splitNl_noNl t
  have hcr : crlfToLf t = joinNl ((splitNl t).map normPiece) := by
    rw [← crlfToLf_joinNl _ hp hn, joinNl_splitNl]
  rw [hs] at hcr hp hn
  have hl := lineOf_noNl p0 (hn p0 (by simp))
  rw [hcr, (out_after_first true true Source.empty p0 rest hp hn).2]
  unfold restText
  split
  · exact firstLine_line _ _ hl
  · simpa using firstLine_noNl _ hl


/-- Monitor (1) in its stale-aware form holds of the model from every state whose line bookkeeping
is either intact or stale exactly as the spec side tracks it. -/
theorem contentStepAt_model (st : Source) (stale : Bool) (t : List Char) (interp : Bool)
    (hls : st.continuingLine = false → stale = false → LineStart st.s) :
    contentStepAt (stale && !st.continuingLine) st.indent st.s (pushStrImpl st t interp).s t interp ≠ .other := by
  unfold contentStepAt
  cases hplain : contentStep st.s (pushStrImpl st t interp).s t interp with
  | ok => simp
  | known l => simp
  | stale l => simp
  | other =>
    simp only
    cases hc : st.continuingLine with
    | true =>
      exact absurd hplain (contentStep_model st t interp (by simp [hc])).1
    | false =>
      cases hst : stale with
      | false => exact absurd hplain (contentStep_model st t interp (fun h => hls h hst)).1
      | true =>
        cases hs : splitNl t with
        | nil =>
          have : t = [] := by rw [← joinNl_splitNl t, hs]; rfl
          subst this
          exact absurd hplain (by simp [pushStrImpl_eq, splitNl, contentStep, contentEq])
        | cons p0 rest =>
          have hkey := (contentStep_model (withIndent st (lineOf p0)) t interp (by simp [withIndent])).1
          rw [← pushStrImpl_stale st t interp hc p0 rest hs] at hkey
          rw [firstLine_crlf t p0 rest hs]
          cases he : (lineOf p0).isEmpty with
          | true =>
            simp only [withIndent, he, if_true] at hkey
            exact absurd hplain hkey
          | false =>
            simp only [withIndent, he, Bool.false_eq_true, if_false] at hkey
            simp only [Bool.and_self, Bool.not_false, if_true, ne_eq]
            have hsp : st.s ++ SourceSpec.spaces (2 * st.indent) = st.s ++ Source.spaces st.indent := rfl
            rw [hsp]
            cases hb : contentStep (st.s ++ Source.spaces st.indent) (pushStrImpl st t interp).s t interp with
            | other => exact absurd hb hkey
            | ok => simp
            | known l => simp
            | stale l => simp

/-! ### the complete monitor (`monitorAll`) on the model -/

theorem fold_cont (single interp : Bool) (ps : List (List Char × Bool)) :
    ∀ (st : Source) (tr : Track), tr.midLine = st.continuingLine →
      ((ps.map (mkPiece single interp)).foldl Track.piece tr).midLine = (ps.foldl (pushPiece single interp) st).continuingLine := by
  induction ps with
  | nil => intro st tr h; exact h
  | cons p ps ih =>
    intro st tr _
    apply ih
    unfold pushPiece
    cases hp : p.2 <;> simp [Track.piece, mkPiece, hp, pushLine, newline]

theorem fold_lineStart (single interp : Bool) (ps : List (List Char × Bool)) (hne : ps ≠ []) :
    ∀ st : Source, (ps.foldl (pushPiece single interp) st).continuingLine = false →
      LineStart (ps.foldl (pushPiece single interp) st).s := by
  induction ps with
  | nil => exact absurd rfl hne
  | cons p ps ih =>
    intro st h
    cases ps with
    | nil =>
      simp only [List.foldl_cons, List.foldl_nil, pushPiece] at h ⊢
      split
      · exact newline_lineStart _
      · rename_i hp; simp [hp, pushLine] at h
    | cons q r => exact ih (by simp) _ h

/-- what is always maintained between the model state and the spec-side bookkeeping -/
structure AInv (st : Source) (tr : Track) (ax : Aux) : Prop where
  mid : tr.midLine = st.continuingLine
  ls : st.continuingLine = false → ax.stale = false → LineStart st.s
  cm : tr.midLine = false → tr.inComment = false
  fresh : tr.sync = true → ax.stale = false
  buf : tr.sync = true → ax.lineView = true → ax.split = false → tr.levelOk = true → tr.midLine = false →
    tr.level = ax.explicit + bufferLevel st.s

theorem ainv_empty : AInv Source.empty Track.init {} :=
  ⟨rfl, fun _ _ => Or.inl rfl, fun _ => rfl, fun _ => rfl, fun _ _ _ _ _ => rfl⟩

theorem splitNl_eq_nil (t : List Char) : splitNl t = [] ↔ t = [] := by
  cases t with
  | nil => simp [splitNl]
  | cons c cs => simp [splitNl_ne_nil]

theorem ainv_text (st : Source) (tr : Track) (ax : Aux) (h : AInv st tr ax) (hrel : tr.sync = true → Rel st tr)
    (interp : Bool) (t : List Char) :
    AInv (pushStrImpl st t interp) (trackReq tr (.text interp t)) (auxReq tr ax (.text interp t)) := by
  have hsync : (trackReq tr (.text interp t)).sync = tr.sync := pieces_sync _ _
  by_cases ht : t = []
  · subst ht
    have e1 : pushStrImpl st [] interp = st := by simp [pushStrImpl_eq, splitNl]
    have e2 : trackReq tr (.text interp []) = tr := by simp [trackReq, piecesOf, splitNl, Track.pieces]
    rw [e1, e2]
    refine ⟨h.mid, ?_, h.cm, ?_, ?_⟩
    · simpa [auxReq] using h.ls
    · simpa [auxReq] using h.fresh
    · intro hs hv hsp hok hm
      simp only [auxReq, List.isEmpty_nil, Bool.not_true, Bool.and_false, Bool.or_false, Bool.and_eq_true] at hv hsp ⊢
      exact h.buf hs hv.1 hsp hok hm
  · have hne : splitNl t ≠ [] := fun e => ht ((splitNl_eq_nil t).mp e)
    have hte : t.isEmpty = false := by simpa using ht
    have hmid : (trackReq tr (.text interp t)).midLine = (pushStrImpl st t interp).continuingLine := by
      rw [pushStrImpl_eq]; simp only [trackReq, Track.pieces, piecesOf_eq]
      exact fold_cont _ _ _ st tr h.mid
    refine ⟨hmid, ?_, ?_, ?_, ?_⟩
    · intro hc _
      rw [pushStrImpl_eq] at hc ⊢
      exact fold_lineStart _ _ _ hne st hc
    · intro hm
      simp only [trackReq, Track.pieces] at hm ⊢
      exact pieces_cm _ tr h.cm hm
    · intro _; simp [auxReq, hte]
    · intro hs hv hsp hok hm
      rw [hsync] at hs
      have hr := hrel hs
      simp only [auxReq, hte, Bool.not_false, Bool.and_true, Bool.and_eq_true, Bool.or_eq_false_iff] at hv hsp
      have hi : interp = true := hv.2
      subst hi
      have hm0 : tr.midLine = false := hsp.2
      have hok0 : tr.levelOk = true := pieces_levelOk_mono _ tr hok
      have hb0 := h.buf hs hv.1 hsp.1 hok0 hm0
      -- all pieces are terminated
      have hlt : lastTerm (splitNl t) = true := by
        simp only [trackReq, Track.pieces, piecesOf_eq] at hm
        rw [pieces_midLine _ _ _ hne] at hm
        simpa using hm
      have hall := pieces_all_term _ (splitNl_pieces t) hlt
      have hf := bufferLevel_fold ((splitNl t).length == 1) (splitNl t) hall (splitNl_noNl t) st tr hr
        (by rw [← h.mid]; exact hm0) (h.cm hm0)
      simp only [auxReq, trackReq, Track.pieces, piecesOf_eq]
      rw [pushStrImpl_eq]
      omega

theorem ainv_step (st : Source) (tr : Track) (ax : Aux) (h : AInv st tr ax) (hrel : tr.sync = true → Rel st tr)
    (op : Op) (st' : Source) (hs : st.step op = some st') :
    AInv st' (trackReq tr (reqOf op)) (auxReq tr ax (reqOf op)) := by
  cases op with
  | pushStr t => simp only [step, Option.some.injEq] at hs; subst hs; exact ainv_text st tr ax h hrel true t
  | pushLit t => simp only [step, Option.some.injEq] at hs; subst hs; exact ainv_text st tr ax h hrel false t
  | indent n =>
    simp only [step, Option.some.injEq] at hs; subst hs
    refine ⟨h.mid, h.ls, h.cm, h.fresh, ?_⟩
    intro a b c d e
    have := h.buf a b c d e
    simp only [reqOf, trackReq, auxReq, addIndent] at *
    omega
  | deindent n =>
    simp only [step, deindent] at hs
    split at hs
    · simp only [Option.some.injEq] at hs; subst hs
      refine ⟨h.mid, h.ls, h.cm, h.fresh, ?_⟩
      intro a b c d e
      have := h.buf a b c d e
      simp only [reqOf, trackReq, auxReq] at *
      omega
    · simp at hs
  | setIndent n =>
    simp only [step, setIndent, Option.some.injEq] at hs; subst hs
    exact ⟨h.mid, h.ls, h.cm, h.fresh, fun _ hv => by simp [reqOf, auxReq] at hv⟩
  | appendSrc o =>
    simp only [step, Option.some.injEq] at hs; subst hs
    refine ⟨?_, ?_, ?_, ?_, fun _ hv => by simp [reqOf, auxReq] at hv⟩
    · simp only [reqOf, trackReq, appendSrc]; split <;> exact h.mid
    · intro hc hst
      simp only [appendSrc] at hc ⊢
      simp only [reqOf, auxReq] at hst
      by_cases hl : o.s.getLast? = some '\n'
      · right; rw [List.getLast?_append, hl]; rfl
      · have hl' : (o.s.getLast? == some '\n') = false := by simpa using hl
        simp only [hl', Bool.false_eq_true, if_false] at hst
        by_cases he : o.s = []
        · simp only [he, List.isEmpty_nil, if_true] at hst
          simpa [he] using h.ls hc hst
        · have : o.s.isEmpty = false := by simpa using he
          simp [this] at hst
    · simp only [reqOf, trackReq]
      split
      · intro _; rfl
      · exact h.cm
    · simp only [reqOf, trackReq, auxReq]
      split
      · rename_i hdom
        intro hsy
        simp only [appendInDomain, Bool.and_eq_true, Bool.not_eq_true', Bool.or_eq_true, List.isEmpty_iff, beq_iff_eq] at hdom
        rcases hdom.2 with he | hl
        · simp [he, h.fresh hsy]
        · simp [hl]
      · intro hsy; simp at hsy

/-- the whole-buffer-line monitor never answers `other` on the model -/
theorem bufferLine_model (st : Source) (tr : Track) (ax : Aux) (h : AInv st tr ax) (hrel : tr.sync = true → Rel st tr)
    (old : Option Nat) :
    bufferLineStep tr ax { indent := st.indent, s := st.s, old := old } ≠ .other := by
  unfold bufferLineStep
  split
  · simp
  · rename_i hc
    simp only [Bool.or_eq_true, Bool.not_eq_true', Bool.and_eq_false_iff, not_or, Bool.not_eq_false] at hc
    obtain ⟨⟨⟨hv, hsy⟩, hok⟩, hm⟩ := hc
    have hlv := (hrel hsy).lvl hok
    split
    · simp
    · rename_i hne
      cases hsp : ax.split with
      | false => exact absurd (by rw [← hlv]; exact h.buf hsy hv hsp hok (by simpa using hm)) hne
      | true => simp [hlv]

/-- what stays judged after an off-boundary `append_src` holds of the model -/
theorem offSync_model (st : Source) (tr : Track) (ax : Aux) (prev : Obs) (hprev : ObsOf prev st)
    (h : AInv st tr ax) (op : Op) (st' : Source) (hs : st.step op = some st') :
    (offSyncVerdict tr ax prev (reqOf op) (obsAfter st op st')).goodModuloKnown = true := by
  obtain ⟨hps, hpi⟩ := hprev
  have htext : ∀ (interp : Bool) (t : List Char),
      (offSyncVerdict tr ax prev (.text interp t)
        { indent := (pushStrImpl st t interp).indent, s := (pushStrImpl st t interp).s, old := none }).goodModuloKnown = true := by
    intro interp t
    have hc := contentStepAt_model st ax.stale t interp h.ls
    have hl : (interp || (pushStrImpl st t interp).indent == st.indent) = true := by
      cases interp
      · simp [literal_indent st t]
      · rfl
    simp only [offSyncVerdict, Verdict.goodModuloKnown, hps, hpi, h.mid, Bool.and_true, Bool.and_eq_true, bne_iff_ne, ne_eq]
    exact ⟨hc, hl⟩
  cases op with
  | pushStr t => simp only [step, Option.some.injEq] at hs; subst hs; exact htext true t
  | pushLit t => simp only [step, Option.some.injEq] at hs; subst hs; exact htext false t
  | indent n =>
    simp only [step, Option.some.injEq] at hs; subst hs
    simp [offSyncVerdict, reqOf, obsAfter, addIndent, hps, Verdict.goodModuloKnown]
  | deindent n =>
    simp only [step, deindent] at hs
    split at hs
    · rename_i hle
      simp only [Option.some.injEq] at hs; subst hs
      simp [offSyncVerdict, reqOf, obsAfter, hps, hpi, Verdict.goodModuloKnown]; omega
    · simp at hs
  | setIndent n =>
    simp only [step, setIndent, Option.some.injEq] at hs; subst hs
    simp [offSyncVerdict, reqOf, obsAfter, hps, hpi, Verdict.goodModuloKnown]
  | appendSrc o =>
    simp only [step, Option.some.injEq] at hs; subst hs
    simp [offSyncVerdict, reqOf, obsAfter, appendSrc, hps, Verdict.goodModuloKnown]

/-- initial observation -/
def obs0 : Obs := { indent := 0, s := [] }

/-- The complete C25 monitor holds of every observed history of the model: base verdicts are good
up to the known content losses (and, after an off-boundary `append_src`, the content / literal /
API parts still are), and the whole-buffer-line reading never fails in an unexplained way. -/
theorem monitorAll_model (ops : List Op) :
    ∀ (st : Source) (tr : Track) (ax : Aux) (prev : Obs), ObsOf prev st → AInv st tr ax →
      (tr.sync = true → Rel st tr) → WFOps ops →
      ∀ v ∈ monitorAll tr ax prev (observe st ops), v.goodModuloKnown = true := by
  induction ops with
  | nil => intro st tr ax prev _ _ _ _; simp [observe, monitorAll]
  | cons op ops ih =>
    intro st tr ax prev hprev hinv hrel hwf
    have hwf' : WFOps ops := fun o ho => hwf o (by simp [ho])
    have hop : ∀ o, op = .appendSrc o → Reachable o := fun o ho => hwf o (by simp [ho])
    cases hs : st.step op with
    | none =>
      obtain ⟨n, rfl, hlt⟩ := step_none st op hs
      simp only [observe, hs, reqOf, monitorAll, List.mem_singleton]
      intro v hv; subst hv
      simp [VerdictAll.goodModuloKnown, Verdict.goodModuloKnown, hprev.2, hlt]
    | some st' =>
      obtain ⟨hg, hr', _⟩ := step_good st tr prev hprev hrel op hop st' hs
      have hinv' := ainv_step st tr ax hinv hrel op st' hs
      have hprev' : ObsOf (obsAfter st op st') st' := ⟨rfl, rfl⟩
      have hrest := ih st' (trackReq tr (reqOf op)) (auxReq tr ax (reqOf op)) (obsAfter st op st') hprev' hinv' hr' hwf'
      simp only [observe, hs, monitorAll, List.mem_cons]
      rintro v (rfl | hv)
      · simp only [VerdictAll.goodModuloKnown, Bool.and_eq_true, bne_iff_ne, ne_eq]
        constructor
        · unfold stepVerdictAll
          split
          · exact hg
          · exact offSync_model st tr ax prev hprev hinv op st' hs
        · exact bufferLine_model st' _ _ hinv' hr' _
      · exact hrest v hv

/-- … and with exact content when no known loss is applicable at any step and `append_src` stays on
line boundaries. -/
theorem monitorAll_model_partial (ops : List Op) :
    ∀ (st : Source) (tr : Track) (ax : Aux) (prev : Obs), ObsOf prev st → (tr.sync = true → Rel st tr) → WFOps ops →
      SafeFrom st ops → (trackOps tr ops).sync = true →
      ∀ v ∈ monitorAll tr ax prev (observe st ops), v.base.good = true := by
  induction ops with
  | nil => intro st tr ax prev _ _ _ _ _; simp [observe, monitorAll]
  | cons op ops ih =>
    intro st tr ax prev hprev hrel hwf hsafe hsync
    have hwf' : WFOps ops := fun o ho => hwf o (by simp [ho])
    have hop : ∀ o, op = .appendSrc o → Reachable o := fun o ho => hwf o (by simp [ho])
    have hsy' : (trackReq tr (reqOf op)).sync = true := trackOps_sync ops _ hsync
    have hsy : tr.sync = true := sync_mono _ _ hsy'
    cases hs : st.step op with
    | none =>
      obtain ⟨n, rfl, hlt⟩ := step_none st op hs
      simp only [observe, hs, reqOf, monitorAll, List.mem_singleton]
      intro v hv; subst hv
      simp [Verdict.good, hprev.2, hlt]
    | some st' =>
      obtain ⟨hg, hr', hc⟩ := step_good st tr prev hprev hrel op hop st' hs
      simp only [SafeFrom, hs] at hsafe
      have hprev' : ObsOf (obsAfter st op st') st' := ⟨rfl, rfl⟩
      have hrest := ih st' (trackReq tr (reqOf op)) (auxReq tr ax (reqOf op)) (obsAfter st op st') hprev' hr' hwf'
        hsafe.2 hsync
      simp only [observe, hs, monitorAll, List.mem_cons]
      rintro v (rfl | hv)
      · simp only [stepVerdictAll, hsy, hsy', Bool.and_self, if_true]
        exact good_of_known _ hg (hc hsafe.1)
      · exact hrest v hv

/-- the spec-side bookkeeping after a history -/
def auxOps (tr : Track) (ax : Aux) : List Op → Aux
  | [] => ax
  | op :: ops => auxOps (trackReq tr (reqOf op)) (auxReq tr ax (reqOf op)) ops

theorem trackOps_cons (tr : Track) (op : Op) (ops : List Op) :
    trackOps tr (op :: ops) = trackOps (trackReq tr (reqOf op)) ops := rfl

theorem ainv_run (ops : List Op) :
    ∀ (st : Source) (tr : Track) (ax : Aux), AInv st tr ax → (tr.sync = true → Rel st tr) → WFOps ops →
      ∀ st', run st ops = some st' → AInv st' (trackOps tr ops) (auxOps tr ax ops) := by
  induction ops with
  | nil => intro st tr ax h _ _ st' hr; simp only [run, Option.some.injEq] at hr; subst hr; exact h
  | cons op ops ih =>
    intro st tr ax h hrel hwf st' hr
    cases hs : st.step op with
    | none => simp [run, hs] at hr
    | some st1 =>
      simp only [run, hs] at hr
      have hop : ∀ o, op = .appendSrc o → Reachable o := fun o ho => hwf o (by simp [ho])
      obtain ⟨_, hr', _⟩ := step_good st tr { indent := st.indent, s := st.s } ⟨rfl, rfl⟩ hrel op hop st1 hs
      exact ih st1 _ _ (ainv_step st tr ax h hrel op st1 hs) hr' (fun o ho => hwf o (by simp [ho])) st' hr

end Witverif.Text.Source
