import Witverif.Proofs.AbiLower5
/-! C01: `lower_sound` — mutual induction over values. -/
namespace Witverif.Abi
open Spec

theorem lowerFlat_state (p : Nat) (v : Val) (t : Ty) (st : St) (hm : memFree t = true) (ht : hasTy t v = true) :
    (Spec.lowerFlat p t v st).2 = st := (lowerFlat_wf p v t st hm ht).1

set_option maxHeartbeats 400000 in
mutual
theorem lower_sound (p : Nat) (hp4 : p = 4 ∨ p = 8) (c : Cfg) : ∀ (v : Val) (t : Ty),
    memFree t = true → hasTy t v = true → LowerSound p c t v
  | .bool b, t, _, ht => by
      cases t <;> simp [hasTy] at ht
      exact leaf_sound p c _ _ .i32FromBool ⟨.i32, if b then 1 else 0⟩ (by intros; simp [lower, pure, Except.pure])
        (by simp [scalarSem]) (by intro st; simp [Spec.lowerFlat, ci32])
  | .int n, t, _, ht => by
      cases t <;> simp [hasTy] at ht
      · exact leaf_sound p c _ _ .i32FromS8 ⟨.i32, wrap 32 n⟩ (by intros; simp [lower, pure, Except.pure])
          (by simp [scalarSem]) (by intro st; simp [Spec.lowerFlat, ci32])
      · exact leaf_sound p c _ _ .i32FromU8 ⟨.i32, wrap 32 n⟩ (by intros; simp [lower, pure, Except.pure])
          (by simp [scalarSem]) (by intro st; simp [Spec.lowerFlat, ci32])
      · exact leaf_sound p c _ _ .i32FromS16 ⟨.i32, wrap 32 n⟩ (by intros; simp [lower, pure, Except.pure])
          (by simp [scalarSem]) (by intro st; simp [Spec.lowerFlat, ci32])
      · exact leaf_sound p c _ _ .i32FromU16 ⟨.i32, wrap 32 n⟩ (by intros; simp [lower, pure, Except.pure])
          (by simp [scalarSem]) (by intro st; simp [Spec.lowerFlat, ci32])
      · exact leaf_sound p c _ _ .i32FromS32 ⟨.i32, wrap 32 n⟩ (by intros; simp [lower, pure, Except.pure])
          (by simp [scalarSem]) (by intro st; simp [Spec.lowerFlat, ci32])
      · exact leaf_sound p c _ _ .i32FromU32 ⟨.i32, wrap 32 n⟩ (by intros; simp [lower, pure, Except.pure])
          (by simp [scalarSem]) (by intro st; simp [Spec.lowerFlat, ci32])
      · exact leaf_sound p c _ _ .i64FromS64 ⟨.i64, wrap 64 n⟩ (by intros; simp [lower, pure, Except.pure])
          (by simp [scalarSem]) (by intro st; simp [Spec.lowerFlat])
      · exact leaf_sound p c _ _ .i64FromU64 ⟨.i64, wrap 64 n⟩ (by intros; simp [lower, pure, Except.pure])
          (by simp [scalarSem]) (by intro st; simp [Spec.lowerFlat])
  | .f32 b, t, _, ht => by
      cases t <;> simp [hasTy] at ht
      exact leaf_sound p c _ _ .coreF32FromF32 ⟨.f32, b⟩ (by intros; simp [lower, pure, Except.pure])
        (by simp [scalarSem]) (by intro st; simp [Spec.lowerFlat])
  | .f64 b, t, _, ht => by
      cases t <;> simp [hasTy] at ht
      exact leaf_sound p c _ _ .coreF64FromF64 ⟨.f64, b⟩ (by intros; simp [lower, pure, Except.pure])
        (by simp [scalarSem]) (by intro st; simp [Spec.lowerFlat])
  | .char ch, t, _, ht => by
      cases t <;> simp [hasTy] at ht
      exact leaf_sound p c _ _ .i32FromChar ⟨.i32, ch⟩ (by intros; simp [lower, pure, Except.pure])
        (by simp [scalarSem]) (by intro st; simp [Spec.lowerFlat, ci32])
  | .str bs, t, hm, ht => by
      cases t <;> simp [hasTy] at ht
      simp [memFree] at hm
  | .handle h, t, _, ht => by
      cases t <;> simp [hasTy] at ht
      · exact handle_sound p c _ h .errLower (by intros; simp [lower, pure, Except.pure])
          (by intros; simp [opSem, pureSem]) (by intro st; simp [Spec.lowerFlat])
      · exact handle_sound p c _ h (.handleLower true) (by intros; simp [lower, pure, Except.pure])
          (by intros; simp [opSem, pureSem]) (by intro st; simp [Spec.lowerFlat])
      · exact handle_sound p c _ h (.handleLower false) (by intros; simp [lower, pure, Except.pure])
          (by intros; simp [opSem, pureSem]) (by intro st; simp [Spec.lowerFlat])
      · exact handle_sound p c _ h .futureLower (by intros; simp [lower, pure, Except.pure])
          (by intros; simp [opSem, pureSem]) (by intro st; simp [Spec.lowerFlat])
      · exact handle_sound p c _ h .streamLower (by intros; simp [lower, pure, Except.pure])
          (by intros; simp [opSem, pureSem]) (by intro st; simp [Spec.lowerFlat])
  | .enum i, t, hm, ht => by
      cases t <;> simp [hasTy] at ht
      rename_i n
      intro lvl x env m st ss es _ _ hx hlow
      simp [lower, pure, Except.pure] at hlow
      obtain ⟨rfl, rfl⟩ := hlow
      simp [pure1, eval, hx, opSem, pureSem, Spec.lowerFlat, ci32]
  | .flags bs, t, hm, ht => by
      cases t <;> simp [hasTy] at ht
      rename_i n
      intro lvl x env m st ss es _ _ hx hlow
      simp [lower, pure, Except.pure] at hlow
      obtain ⟨rfl, rfl⟩ := hlow
      have hrs : ((List.range (flagsRepr n).count).map fun w => MV.c ⟨.i32, flagsWord bs w⟩).length
          = (flagsRepr n).count := by simp
      rw [← hrs]
      simp only [Spec.lowerFlat, ci32, List.map_map]
      apply evalList_projN
      intro k hk
      simp only [eval, evalList_cons, evalList_nil, hx, Option.bind_some, Option.map_some]
      simp [opSem, pureSem]
      simp at hk
      simp [hk, Function.comp_def]
  | .list vs, t, hm, ht => by
      cases t <;> simp [hasTy] at ht <;> simp [memFree] at hm
      rename_i e n
      intro lvl x env m st ss es hp hlvl hx hlow
      simp only [lower, bind_ok] at hlow
      obtain ⟨rs, hrs, hpure⟩ := hlow
      simp [pure, Except.pure] at hpure
      obtain ⟨rfl, rfl⟩ := hpure
      simp only [Spec.lowerFlat]
      have hn : n = vs.length := ht.1.symm
      subst hn
      exact lowerAll_sound p hp4 c vs e hm ht.2 lvl (projN (.flistLower e vs.length) [x] [] vs.length) env m st rs
        hp hlvl (by simp [projN])
        (by intro j hj; simp [projN, hj]; exact eval_flistLower env m x e vs j hx hj) hrs
  | .record vs, t, hm, ht => by
      cases t <;> simp [hasTy] at ht <;> simp [memFree] at hm
      · rename_i fs
        intro lvl x env m st ss es hp hlvl hx hlow
        simp only [lower] at hlow
        have hlen := hasTys_length fs vs ht
        rw [hlen] at hlow
        simp only [Spec.lowerFlat]
        exact lowerFields_sound p hp4 c vs fs hm ht lvl _ x 0 env m st ss es hp hlvl
          (by intro j hj; simpa using eval_recordLower env m x vs j hx hj) hlow
      · rename_i fs
        intro lvl x env m st ss es hp hlvl hx hlow
        simp only [lower] at hlow
        have hlen := hasTys_length fs vs ht
        rw [hlen] at hlow
        simp only [Spec.lowerFlat]
        exact lowerFields_sound p hp4 c vs fs hm ht lvl _ x 0 env m st ss es hp hlvl
          (by intro j hj; simpa using eval_tupleLower env m x vs j hx hj) hlow
  | .variant i pv, t, hm, ht => by
      have ihpv : ∀ t' v', pv = some v' → memFree t' = true → hasTy t' v' = true → LowerSound p c t' v' := by
        intro t' v' hpv hm' ht'
        subst hpv
        exact lower_sound p hp4 c v' t' hm' ht'
      cases t <;> (try (simp [hasTy] at ht; done))
      · -- variant
        rename_i cs
        simp [memFree] at hm
        simp only [hasTy] at ht
        cases hci : cs[i]? with
        | none => simp [hci] at ht
        | some ci =>
          simp only [hci] at ht
          have hmc := memFreeCases_get cs i ci hm.2 hci
          intro lvl x env m st ss es hp hlvl hx hlow
          simp only [lower, bind_ok] at hlow
          obtain ⟨results, hres, arms, harms, hpure⟩ := hlow
          have hr := flatU_ok hres
          simp [pure, Except.pure] at hpure
          have hs := lowerArms_shape c cs lvl results 0 arms harms hm.2
          have ⟨arm, harm, hla⟩ := lowerArms_get c lvl results cs 0 arms harms i ci hci
          simp at hla
          have hdrop : results.drop 1 = flattenCases cs := by rw [hr]; simp [flatten]
          have hasnd := armOpt_sound p hp4 c ci pv hmc ht
            (by
              intro t' v' hc hv
              subst hc
              simp [memFreeOpt] at hmc
              subst hv
              simp [hasTyOpt] at ht
              exact ihpv t' v' rfl hmc ht)
            lvl results i env m st arm hp hlvl
            (by rw [hdrop]; exact flattenCases_get_bounds cs i ci hci) hla
          have hes : es = (finishLower (.variantLower cs.length results) x arms results.length).2 := by
            rw [hpure]
          rw [hes]
          have hwant : (Spec.lowerFlat p (.variant cs) (.variant i pv) st).1
              = ci32 i :: coercePayload (Spec.lowerOpt p ci pv st).1 ((results.drop 1).map (CoreTy.erase p)) := by
            simp only [Spec.lowerFlat, hci]
            rw [hdrop, flattenCases_erase p hp4 cs]
          rw [hwant]
          apply variant_lower_sound p c _ (by intros; simp [opSem]) results arms hs i pv arm harm lvl x env m hlvl hx
          · have := lowerFlat_length p hp4 (.variant i pv) (.variant cs) st
              (by simp [memFree, hm]) (by simp [hasTy, hci, ht])
            rw [hwant] at this
            rw [this, hr]
          · exact hasnd
      · -- option
        rename_i t'
        simp [memFree] at hm
        intro lvl x env m st ss es hp hlvl hx hlow
        simp only [lower, bind_ok] at hlow
        obtain ⟨results, hres, a0, ha0, lw, hlw, temp, htemp, a1, ha1, hpure⟩ := hlow
        have hr := flatU_ok hres
        simp [pure, Except.pure] at hpure
        have hla0 : lowerArm c lvl none results 0 = .ok a0 := by simpa [lowerArm] using ha0
        have hla1 : lowerArm c lvl (some t') results 1 = .ok a1 := by
          simp only [lowerArm, bind_ok]
          exact ⟨lw, hlw, temp, htemp, ha1⟩
        have hs : ∀ b ∈ [a0, a1], b.1 = [] := by
          intro b hb
          simp at hb
          rcases hb with rfl | rfl
          · exact lowerArm_shape c none lvl results 0 _ hla0 (by simp [memFreeOpt])
          · exact lowerArm_shape c (some t') lvl results 1 _ hla1 (by simp [memFreeOpt, hm])
        have hdrop : results.drop 1 = flatten t' := by rw [hr]; simp [flatten, joinFlat]
        have hes : es = (finishLower (.optionLower results) x [a0, a1] results.length).2 := by rw [hpure]
        rw [hes]
        have hlen := lowerFlat_length p hp4 (.variant i pv) (.option t') st (by simp [memFree, hm]) ht
        cases pv with
        | none =>
          cases i with
          | succ i => simp [hasTy] at ht
          | zero =>
            have hwant : (Spec.lowerFlat p (.option t') (.variant 0 none) st).1
                = ci32 0 :: coercePayload (Spec.lowerOpt p none none st).1 ((results.drop 1).map (CoreTy.erase p)) := by
              simp only [Spec.lowerFlat, Spec.lowerOpt]
              rw [hdrop, flatten_erase p hp4 t']
            rw [hwant] at hlen ⊢
            apply variant_lower_sound p c _ (by intros; simp [opSem]) results [a0, a1] hs 0 none a0 (by simp) lvl x env m hlvl hx
            · rw [hlen, hr]
            · exact arm_none_sound p c lvl results 0 env m st a0 hp hlvl (by intro k h; simp [flattenOpt] at h) hla0
        | some v' =>
          cases i with
          | zero => simp [hasTy] at ht
          | succ i =>
            cases i with
            | succ i => simp [hasTy] at ht
            | zero =>
              simp [hasTy] at ht
              have hwant : (Spec.lowerFlat p (.option t') (.variant 1 (some v')) st).1
                  = ci32 1 :: coercePayload (Spec.lowerOpt p (some t') (some v') st).1 ((results.drop 1).map (CoreTy.erase p)) := by
                simp only [Spec.lowerFlat, Spec.lowerOpt]
                rw [hdrop, flatten_erase p hp4 t']
              rw [hwant] at hlen ⊢
              apply variant_lower_sound p c _ (by intros; simp [opSem]) results [a0, a1] hs 1 (some v') a1 (by simp) lvl x env m hlvl hx
              · rw [hlen, hr]
              · exact arm_some_sound p hp4 c t' v' hm ht (ihpv t' v' rfl hm ht) lvl results 1 env m st a1 hp hlvl
                  (by rw [hdrop]; intro k h; exact ⟨by simpa [flattenOpt] using h, by simp only [flattenOpt]; exact le_refl _⟩) hla1
      · -- result
        rename_i a b
        simp [memFree] at hm
        intro lvl x env m st ss es hp hlvl hx hlow
        simp only [lower, bind_ok] at hlow
        obtain ⟨results, hres, a0, hla0, a1, hla1, hpure⟩ := hlow
        have hr := flatU_ok hres
        simp [pure, Except.pure] at hpure
        have hs : ∀ bb ∈ [a0, a1], bb.1 = [] := by
          intro bb hb
          simp at hb
          rcases hb with rfl | rfl
          · exact lowerArm_shape c a lvl results 0 _ hla0 hm.1
          · exact lowerArm_shape c b lvl results 1 _ hla1 hm.2
        have hdrop : results.drop 1 = joinFlat (flattenOpt a) (flattenOpt b) := by rw [hr]; simp [flatten]
        have hes : es = (finishLower (.resultLower results) x [a0, a1] results.length).2 := by rw [hpure]
        rw [hes]
        have hlen := lowerFlat_length p hp4 (.variant i pv) (.result a b) st (by simp [memFree, hm]) ht
        have herase : (joinFlat (flattenOpt a) (flattenOpt b)).map (CoreTy.erase p)
            = Spec.joinFlat (Spec.flattenOpt p a) (Spec.flattenOpt p b) := by
          rw [joinFlat_erase p hp4, flattenOpt_erase p hp4, flattenOpt_erase p hp4]
        cases i with
        | zero =>
          simp [hasTy] at ht
          have hwant : (Spec.lowerFlat p (.result a b) (.variant 0 pv) st).1
              = ci32 0 :: coercePayload (Spec.lowerOpt p a pv st).1 ((results.drop 1).map (CoreTy.erase p)) := by
            simp only [Spec.lowerFlat, if_pos]
            rw [hdrop, herase]
          rw [hwant] at hlen ⊢
          apply variant_lower_sound p c _ (by intros; simp [opSem]) results [a0, a1] hs 0 pv a0 (by simp) lvl x env m hlvl hx
          · rw [hlen, hr]
          · exact armOpt_sound p hp4 c a pv hm.1 ht
              (by
                intro t' v' hc hv
                subst hc; subst hv
                simp [memFreeOpt] at hm; simp [hasTyOpt] at ht
                exact ihpv t' v' rfl hm.1 ht)
              lvl results 0 env m st a0 hp hlvl (by rw [hdrop]; exact joinFlat_le_left _ _) hla0
        | succ i =>
          cases i with
          | succ i => simp [hasTy] at ht
          | zero =>
            simp [hasTy] at ht
            have hwant : (Spec.lowerFlat p (.result a b) (.variant 1 pv) st).1
                = ci32 1 :: coercePayload (Spec.lowerOpt p b pv st).1 ((results.drop 1).map (CoreTy.erase p)) := by
              simp only [Spec.lowerFlat]
              rw [hdrop, herase]
              simp
            rw [hwant] at hlen ⊢
            apply variant_lower_sound p c _ (by intros; simp [opSem]) results [a0, a1] hs 1 pv a1 (by simp) lvl x env m hlvl hx
            · rw [hlen, hr]
            · exact armOpt_sound p hp4 c b pv hm.2 ht
                (by
                  intro t' v' hc hv
                  subst hc; subst hv
                  simp [memFreeOpt] at hm; simp [hasTyOpt] at ht
                  exact ihpv t' v' rfl hm.2 ht)
                lvl results 1 env m st a1 hp hlvl (by rw [hdrop]; exact joinFlat_le_right _ _) hla1
theorem lowerFields_sound (p : Nat) (hp4 : p = 4 ∨ p = 8) (c : Cfg) : ∀ (vs : List Val) (fs : List Ty),
    memFreeAll fs = true → hasTys fs vs = true →
    ∀ (lvl : Nat) (o : Op) (x : Expr) (i : Nat) (env : Env) (m : Mem) (st : St) (ss : List Stmt) (es : List Expr),
      env.p = p → env.frames.length = lvl + 1 →
      (∀ (j : Nat) (h : j < vs.length), eval env m (.op o [x] [] (i + j)) = some (.v vs[j])) →
      lowerFields c lvl fs o x i = .ok (ss, es) →
      evalList env m es = some ((Spec.lowerFields p fs vs st).1.map MV.c)
  | [], fs, _, ht, lvl, o, x, i, env, m, st, ss, es, _, _, _, h => by
      cases fs <;> simp [hasTys] at ht
      simp [lowerFields, pure, Except.pure] at h
      obtain ⟨rfl, rfl⟩ := h
      simp [Spec.lowerFields]
  | v :: vs, fs, hm, ht, lvl, o, x, i, env, m, st, ss, es, hp, hlvl, hacc, h => by
      cases fs with
      | nil => simp [hasTys] at ht
      | cons t ts =>
        simp [hasTys] at ht
        simp [memFreeAll] at hm
        simp only [lowerFields, bind_ok] at h
        obtain ⟨⟨s1, r1⟩, h1, ⟨s2, r2⟩, h2, hpure⟩ := h
        simp [pure, Except.pure] at hpure
        obtain ⟨rfl, rfl⟩ := hpure
        have e1 := lower_sound p hp4 c v t hm.1 ht.1 lvl _ env m st s1 r1 hp hlvl
          (by have h0 := hacc 0 (Nat.zero_lt_succ _); simpa [List.getElem_cons_zero] using h0) h1
        have e2 := lowerFields_sound p hp4 c vs ts hm.2 ht.2 lvl o x (i + 1) env m st s2 r2 hp hlvl
          (by intro j hj; have := hacc (j + 1) (by simpa using hj); simpa [Nat.add_assoc, Nat.add_comm 1 j] using this) h2
        simp only [Spec.lowerFields]
        rw [lowerFlat_state p v t st hm.1 ht.1]
        simpa using evalList_append env m r1 r2 _ _ e1 e2
theorem lowerAll_sound (p : Nat) (hp4 : p = 4 ∨ p = 8) (c : Cfg) : ∀ (vs : List Val) (e : Ty),
    memFree e = true → hasTyAll e vs = true →
    ∀ (lvl : Nat) (xs : List Expr) (env : Env) (m : Mem) (st : St) (rs : List (List Stmt × List Expr)),
      env.p = p → env.frames.length = lvl + 1 → xs.length = vs.length →
      (∀ (j : Nat) (h : j < vs.length), eval env m (xs[j]!) = some (.v vs[j])) →
      xs.mapM (lower c lvl e) = .ok rs →
      evalList env m (rs.flatMap (·.2)) = some ((Spec.lowerAll p e vs st).1.map MV.c)
  | [], e, _, _, lvl, xs, env, m, st, rs, _, _, hlen, _, h => by
      cases xs <;> simp at hlen
      simp [pure, Except.pure] at h
      subst h
      simp [Spec.lowerAll]
  | v :: vs, e, hm, ht, lvl, xs, env, m, st, rs, hp, hlvl, hlen, hacc, h => by
      cases xs with
      | nil => simp at hlen
      | cons x xs =>
        simp [hasTyAll] at ht
        simp only [List.mapM_cons, bind_ok] at h
        obtain ⟨⟨s1, r1⟩, h1, rest, hrest, hpure⟩ := h
        simp [pure, Except.pure] at hpure
        subst hpure
        have e1 := lower_sound p hp4 c v e hm ht.1 lvl x env m st s1 r1 hp hlvl
          (by have h0 := hacc 0 (Nat.zero_lt_succ _); simpa [List.getElem_cons_zero] using h0) h1
        have e2 := lowerAll_sound p hp4 c vs e hm ht.2 lvl xs env m st rest hp hlvl (by simpa using hlen)
          (by intro j hj; have := hacc (j + 1) (by simpa using hj); simpa using this) hrest
        simp only [Spec.lowerAll, List.flatMap_cons]
        rw [lowerFlat_state p v e st hm ht.1]
        simpa using evalList_append env m r1 _ _ _ e1 e2
end

end Witverif.Abi
