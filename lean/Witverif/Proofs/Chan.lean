import Witverif.Async.ChanScript
import Witverif.Proofs.AbiBuffer
import Witverif.Proofs.WaitableReg
/-! Helper definitions and lemmas for C19 / C20 (`Props/C19.lean`, `Props/C20.lean`): legality of
labels of the channel LTS (`ChanSys`, Chan.lean), reachability, stability of the four stream/future
operation kinds (so that the generic C18 theorems apply to them), folding `advance` over a sequence of
host counts, one `await` point of `write_all`. -/
namespace Witverif.Async
open Witverif.Generated
open Witverif.Async.Host (End CopySt)

/-! ## The four operation kinds satisfy the `WaitableOp` obligation -/

theorem bind_inl_ne_inr {α β γ : Type} (x : Step α) (f : α → β) (p' : γ) (evs : List Ev) :
    (x.bind fun b => Step.ok (Sum.inl (f b) : β ⊕ γ) []) ≠ .ok (.inr p') evs := by
  cases x <;> simp [Step.bind]

theorem streamWriteOps_stable : streamWriteOps.Stable := by
  intro p c p' evs h
  simp only [streamWriteOps, streamWriteUpdate] at h ⊢
  split at h
  all_goals (first
    | (simp at h; done)
    | (simp only [Step.ok.injEq, Sum.inr.injEq] at h; obtain ⟨rfl, _⟩ := h; rfl)
    | exact absurd h (bind_inl_ne_inr _ _ _ _))

theorem streamReadOps_stable : streamReadOps.Stable := by
  intro p c p' evs h
  simp only [streamReadOps, streamReadUpdate] at h ⊢
  split at h <;> simp_all
  all_goals (first | (split at h <;> simp_all) | skip)

theorem futureWriteOps_stable : futureWriteOps.Stable := by
  intro p c p' evs h
  simp only [futureWriteOps, futureWriteUpdate] at h ⊢
  repeat' split at h
  all_goals simp_all

theorem futureReadOps_stable : futureReadOps.Stable := by
  intro p c p' evs h
  simp only [futureReadOps, futureReadUpdate] at h ⊢
  repeat' split at h
  all_goals simp_all

/-! ## Folding `advance` over the counts a host reports for successive writes of one buffer -/

/-- ids in `dealloc_lists` / `lift` events of channel `c` -/
def dliId (c : Nat) : Ev → Option Nat
  | .ch .dli [c', id] => if c' = c then some id else none
  | _ => none

def liId (c : Nat) : Ev → Option Nat
  | .ch .li [c', id] => if c' = c then some id else none
  | _ => none

@[simp] theorem dliId_dli (c v : Nat) : dliId c (.ch .dli [c, v]) = some v := by simp [dliId]
@[simp] theorem liId_li (c v : Nat) : liId c (.ch .li [c, v]) = some v := by simp [liId]
@[simp] theorem dliId_li (c : Nat) (ns : List Nat) : dliId c (.ch .li ns) = none := rfl
@[simp] theorem liId_dli (c : Nat) (ns : List Nat) : liId c (.ch .dli ns) = none := rfl
@[simp] theorem dliId_free (c x : Nat) : dliId c (.free x) = none := rfl
@[simp] theorem liId_free (c x : Nat) : liId c (.free x) = none := rfl

def dliIds (c : Nat) (evs : List Ev) : List Nat := evs.filterMap (dliId c)
def liIds (c : Nat) (evs : List Ev) : List Nat := evs.filterMap (liId c)

theorem dliIds_append (c : Nat) (a b : List Ev) : dliIds c (a ++ b) = dliIds c a ++ dliIds c b := by
  simp [dliIds, List.filterMap_append]

theorem liIds_append (c : Nat) (a b : List Ev) : liIds c (a ++ b) = liIds c a ++ liIds c b := by
  simp [liIds, List.filterMap_append]

theorem dliIds_map_dli (c : Nat) (l : List Nat) : dliIds c (l.map (evDli c)) = l := by
  induction l with
  | nil => rfl
  | cons x xs ih => simp only [dliIds] at ih ⊢; simp [evDli, dliId, ih]

theorem liIds_map_dli (c : Nat) (l : List Nat) : liIds c (l.map (evDli c)) = [] := by
  induction l with
  | nil => rfl
  | cons x xs ih => simp only [liIds] at ih ⊢; simp [evDli, liId]

theorem liIds_map_li (c : Nat) (l : List Nat) : liIds c (l.map (evLi c)) = l := by
  induction l with
  | nil => rfl
  | cons x xs ih => simp only [liIds] at ih ⊢; simp [evLi, liId, ih]

theorem dliIds_map_li (c : Nat) (l : List Nat) : dliIds c (l.map (evLi c)) = [] := by
  induction l with
  | nil => rfl
  | cons x xs ih => simp only [dliIds] at ih ⊢; simp [evLi, dliId]

theorem takeVec_liIds (b : AbiBuffer) (hl : b.kind.lowers = true) : liIds b.c b.takeVec.2.2 = b.window := by
  by_cases hs : b.slab <;> simp [AbiBuffer.takeVec, hl, liIds_append, liIds_map_li, hs] <;> simp [liIds, liId]

theorem takeVec_dliIds (b : AbiBuffer) : dliIds b.c b.takeVec.2.2 = [] := by
  by_cases hs : b.slab <;> by_cases hl : b.kind.lowers <;>
    simp [AbiBuffer.takeVec, hl, dliIds_append, dliIds_map_li, hs] <;> simp [dliIds, dliId]

/-- successive `advance`s by the counts `ks` (all within what remains), then `take_vec` -/
def advanceAll (b : AbiBuffer) : List Nat → Step AbiBuffer
  | [] => .ok b []
  | k :: ks => (b.advance k).bind fun b' => advanceAll b' ks

/-- **Every lowered value of a buffer is released exactly once**: whatever counts the host reports for
the successive writes of one buffer (each within what remains), the values whose lists are
deallocated (in order) followed by the values lifted back by the final `take_vec` are exactly the
buffer's values from the cursor on — no value twice, none missing; and the slab goes once. -/
theorem advanceAll_ledger (b : AbiBuffer) (hl : b.kind = .lists) (hc : b.cursor ≤ b.items.length) (ks : List Nat) :
    ks.sum ≤ b.remaining →
    ∃ b' evs, advanceAll b ks = .ok b' evs ∧
      dliIds b.c evs ++ liIds b.c b'.takeVec.2.2 = b.window ∧
      liIds b.c evs = [] ∧ dliIds b.c b'.takeVec.2.2 = [] ∧
      b'.takeVec.1 = b.window.drop ks.sum ∧ b'.slab = b.slab ∧ b'.c = b.c := by
  induction ks generalizing b with
  | nil =>
    intro _
    refine ⟨b, [], rfl, ?_, rfl, takeVec_dliIds b, by simp [AbiBuffer.takeVec], rfl, rfl⟩
    rw [takeVec_liIds b (by simp [hl, PKind.lowers])]; rfl
  | cons k ks ih =>
    intro hsum
    simp only [List.sum_cons] at hsum
    have hk : k ≤ b.remaining := by omega
    have hadv := AbiBuffer.advance_spec b k hk hc
    have hc' : b.cursor + k ≤ b.items.length := by unfold AbiBuffer.remaining at hk; omega
    obtain ⟨b', evs, hrun, h1, h2, h3, h4, h5, h6⟩ := ih { b with cursor := b.cursor + k } hl hc'
      (by simp only [AbiBuffer.remaining] at hsum ⊢; omega)
    simp only at h1 h2 h3 h4 h5 h6
    refine ⟨b', (if b.kind = .lists then (b.window.take k).map (evDli b.c) else []) ++ evs, ?_, ?_, ?_, ?_, ?_, h5, h6⟩
    · simp only [advanceAll, hadv, Step.bind, hrun]
    · simp only [hl, if_true, dliIds_append, dliIds_map_dli]
      rw [List.append_assoc, h6] at *
      rw [h1]
      simp only [AbiBuffer.window]
      rw [show List.drop (b.cursor + k) b.items = List.drop k (List.drop b.cursor b.items) by
        rw [List.drop_drop]]
      exact List.take_append_drop k _
    · simp only [hl, if_true, liIds_append, liIds_map_dli, h2, List.append_nil]
    · rw [← h6]; exact takeVec_dliIds b'
    · simp only [AbiBuffer.window] at h4 ⊢
      rw [h4, List.sum_cons, List.drop_drop, List.drop_drop]
      congr 1; omega

/-- ids in value-destructor events of channel `c` -/
def vdId (c : Nat) : Ev → Option Nat
  | .ch .vd [c', id] => if c' = c then some id else none
  | _ => none

def vdIds (c : Nat) (evs : List Ev) : List Nat := evs.filterMap (vdId c)

theorem vdIds_append (c : Nat) (a b : List Ev) : vdIds c (a ++ b) = vdIds c a ++ vdIds c b := by
  simp [vdIds, List.filterMap_append]

theorem vdIds_map_vd (c : Nat) (l : List Nat) : vdIds c (l.map (evVd c)) = l := by
  induction l with
  | nil => rfl
  | cons x xs ih => simp only [vdIds] at ih ⊢; simp [evVd, vdId, ih]

theorem vdIds_map_dli (c : Nat) (l : List Nat) : vdIds c (l.map (evDli c)) = [] := by
  induction l with
  | nil => rfl
  | cons x xs ih => simp only [vdIds] at ih ⊢; simp [evDli, vdId]

theorem vdIds_map_li (c : Nat) (l : List Nat) : vdIds c (l.map (evLi c)) = [] := by
  induction l with
  | nil => rfl
  | cons x xs ih => simp only [vdIds] at ih ⊢; simp [evLi, vdId]

theorem liIds_map_vd (c : Nat) (l : List Nat) : liIds c (l.map (evVd c)) = [] := by
  induction l with
  | nil => rfl
  | cons x xs ih => simp only [liIds] at ih ⊢; simp [evVd, liId]

theorem dliIds_map_vd (c : Nat) (l : List Nat) : dliIds c (l.map (evVd c)) = [] := by
  induction l with
  | nil => rfl
  | cons x xs ih => simp only [dliIds] at ih ⊢; simp [evVd, dliId]

theorem takeVec_vdIds (b : AbiBuffer) : vdIds b.c b.takeVec.2.2 = [] := by
  by_cases hs : b.slab <;> by_cases hl : b.kind.lowers <;>
    simp [AbiBuffer.takeVec, hl, vdIds_append, vdIds_map_li, hs] <;> simp [vdIds, vdId]

theorem advanceAll_kind (ks : List Nat) : ∀ (b b' : AbiBuffer) (evs : List Ev), advanceAll b ks = .ok b' evs →
    b'.kind = b.kind ∧ vdIds b.c evs = [] := by
  induction ks with
  | nil => intro b b' evs h; simp only [advanceAll] at h; cases h; exact ⟨rfl, rfl⟩
  | cons k ks ih =>
    intro b b' evs h
    simp only [advanceAll, AbiBuffer.advance] at h
    split at h
    · simp [Step.bind] at h
    · split at h
      · simp only [Step.bind] at h
        cases hr : advanceAll { b with cursor := b.cursor + k } ks with
        | panic m e => rw [hr] at h; simp at h
        | ok b2 e2 =>
          rw [hr] at h; simp only [List.nil_append] at h; cases h
          have := ih _ _ _ hr
          exact this
      · simp only [Step.bind] at h
        cases hr : advanceAll { b with cursor := b.cursor + k } ks with
        | panic m e => rw [hr] at h; simp at h
        | ok b2 e2 =>
          rw [hr] at h; cases h
          have := ih _ _ _ hr
          exact ⟨this.1, by rw [vdIds_append, vdIds_map_dli]; exact this.2⟩

/-- ledger of a buffer that is DROPPED after the host took `ks` (see `Props/C19.lean`
`untransferred_returned_or_dropped_once`) -/
theorem advanceAll_drop_ledger (b : AbiBuffer) (hl : b.kind = .lists) (hc : b.cursor ≤ b.items.length) (ks : List Nat)
    (hk : ks.sum ≤ b.remaining) :
    ∃ b' evs, advanceAll b ks = .ok b' evs ∧
      dliIds b.c evs ++ liIds b.c b'.dropEvs = b.window ∧
      liIds b.c b'.dropEvs = b.window.drop ks.sum ∧
      vdIds b.c b'.dropEvs = b.window.drop ks.sum ∧
      dliIds b.c b'.dropEvs = [] ∧ liIds b.c evs = [] ∧ vdIds b.c evs = [] := by
  obtain ⟨b', evs, hrun, h1, h2, h3, h4, _, h6⟩ := advanceAll_ledger b hl hc ks hk
  obtain ⟨hkind, hvd⟩ := advanceAll_kind ks b b' evs hrun
  have hlow : b'.kind.lowers = true := by rw [hkind, hl]; rfl
  have hdrop : b'.dropEvs = b'.takeVec.2.2 ++ b'.window.map (evVd b.c) := by
    simp [AbiBuffer.dropEvs, AbiBuffer.takeVec, valDrops, hlow, h6]
  have hw : b'.window = b.window.drop ks.sum := by rw [← h4]; rfl
  have hli : liIds b.c b'.takeVec.2.2 = b'.window := by rw [← h6]; exact takeVec_liIds b' hlow
  refine ⟨b', evs, hrun, ?_, ?_, ?_, ?_, h2, hvd⟩
  · rw [hdrop, liIds_append, liIds_map_vd, List.append_nil]; exact h1
  · rw [hdrop, liIds_append, liIds_map_vd, List.append_nil, hli, hw]
  · rw [hdrop, vdIds_append, vdIds_map_vd, ← h6, takeVec_vdIds, List.nil_append, hw]
  · rw [hdrop, dliIds_append, dliIds_map_vd, List.append_nil]; exact h3

/-! ## Event prefixes of steps -/

theorem Step.bind_evs_prefix {α β : Type} (x : Step α) (f : α → Step β) : ∃ rest, (x.bind f).evs = x.evs ++ rest := by
  cases x with
  | panic m e => exact ⟨[], by simp [Step.bind, Step.evs]⟩
  | ok a e =>
    cases hf : f a with
    | ok b e' => exact ⟨e', by simp [Step.bind, Step.evs, hf]⟩
    | panic m e' => exact ⟨e', by simp [Step.bind, Step.evs, hf]⟩

theorem Step.emit_bind_evs {β : Type} (l : List Ev) (f : Unit → Step β) : ((Step.emit l).bind f).evs = l ++ (f ()).evs := by
  cases hf : f () <;> simp [Step.emit, Step.bind, Step.evs, hf]

theorem Step.prefix_bind {α β : Type} {x : Step α} {f : α → Step β} {l : List Ev}
    (h : ∃ r, x.evs = l ++ r) : ∃ r, (x.bind f).evs = l ++ r := by
  obtain ⟨r, hr⟩ := h
  obtain ⟨r', hr'⟩ := Step.bind_evs_prefix x f
  exact ⟨r ++ r', by rw [hr', hr, List.append_assoc]⟩

theorem Step.emit_prefix_bind {β : Type} {l1 l2 : List Ev} {f : Unit → Step β}
    (h : ∃ r, (f ()).evs = l2 ++ r) : ∃ r, ((Step.emit l1).bind f).evs = (l1 ++ l2) ++ r := by
  obtain ⟨r, hr⟩ := h
  exact ⟨r, by rw [Step.emit_bind_evs, hr, List.append_assoc]⟩

/-- the first poll of a fresh operation begins with the events of its `start` -/
theorem pollComplete_new_prefix {S P R C : Type} (ops : Ops S P R C) (s : S) (e : Env) (ans : Nat) :
    ∃ rest, (pollComplete ops (WOp.new s) e ans).evs = (ops.start s ans).1 ++ rest := by
  simp only [pollComplete, WOp.new]
  obtain ⟨rest, h⟩ := Step.bind_evs_prefix (Step.emit (ops.start s ans).1)
    (fun _ => pollCompleteWithCode ops { state := .inProgress (ops.start s ans).2.2, code := none, waker := false, task := none }
      e true (some (ops.start s ans).2.1))
  exact ⟨rest, by simpa [Step.emit, Step.evs] using h⟩

/-! ## `write_all`: one `await` point -/

/-- a fresh write on buffer `st` that the host answers at once with COMPLETED|k (`1 ≤ k ≤ remaining`):
the operation completes in the same poll with `Complete(k)` and the buffer advanced by exactly `k` -/
theorem pollComplete_write_immediate (st : WSt) (e : Env) (k : Nat) (hd : st.wr.done = false)
    (hk : k ≤ st.buf.remaining) (hk2 : k ≤ 268435455) (hc : st.buf.cursor ≤ st.buf.items.length) :
    pollComplete streamWriteOps (WOp.new st) e (Host.packCode Host.COMPLETED k) =
      .ok (.ready (sresOf 0 k, { buf := { st.buf with cursor := st.buf.cursor + k }, wr := st.wr }),
           ⟨.done, none, false, none⟩, e)
        ([.ch .swrite [st.wr.handle, min st.buf.remaining Limits.streamMaxLength, Host.packCode Host.COMPLETED k, st.buf.cursor]] ++
         (if st.buf.kind = .lists then (st.buf.window.take k).map (evDli st.buf.c) else [])) := by
  have hu := streamWrite_update_spec st 0 k (by omega) hk hk2 hc
  simp only [Host.COMPLETED] at hu ⊢
  simp [pollComplete, pollCompleteWithCode, WOp.new, streamWriteOps, hd, Step.bind, Step.emit, hu]
  cases hw : st.wr with
  | mk h dn => rw [hw] at hd; simp at hd; simp [hd]

/-- **`write_all` terminates when the host makes progress**: one `await` point of `write_all` /
`write_one` whose write the host answers with COMPLETED|k, `1 ≤ k ≤ remaining`.  Either everything has
been taken and the function ends (no longer `running`, nothing handed back), or it continues with a
`write_buf` of the SAME buffer whose `remaining` is smaller by exactly `k` — a strictly decreasing
measure, so at most `remaining` such steps happen in a row; the untransferred tail is never dropped. -/
theorem write_all_progress (g : GChan) (e : Env) (one first : Bool) (st : WSt) (k : Nat) (hd : st.wr.done = false)
    (hk1 : 1 ≤ k) (hk : k ≤ st.buf.remaining) (hk2 : k ≤ 268435455) (hc : st.buf.cursor ≤ st.buf.items.length) :
    ∃ g' evs, g.pollAll e one first (WOp.new st) (Host.packCode Host.COMPLETED k) = .ok (g', e) evs ∧
      (if st.buf.remaining = k then g'.running = false ∧ g'.act = .idle
       else g'.running = true ∧
         g'.act = .sall one (.awaiting false (WOp.new { buf := { st.buf with cursor := st.buf.cursor + k }, wr := st.wr })) ∧
         ({ st.buf with cursor := st.buf.cursor + k } : AbiBuffer).remaining + k = st.buf.remaining) := by
  have hp := pollComplete_write_immediate st e k hd hk hk2 hc
  have hk0 : k ≠ 0 := by omega
  by_cases hr : st.buf.remaining = k
  · have hrem : ({ st.buf with cursor := st.buf.cursor + k } : AbiBuffer).remaining = 0 := by
      simp only [AbiBuffer.remaining] at hr ⊢; omega
    simp only [GChan.pollAll, hp, Step.bind, taskDropEvs, Step.emit, GChan.allAfter, sresOf, hk0, false_and, if_false]
    simp only [Bool.and_eq_true, Bool.not_eq_true', beq_iff_eq]
    have : (if first = false ∧ SRes.complete k = SRes.cancelled then SRes.complete 0 else SRes.complete k) = SRes.complete k := by
      simp
    simp only [this, hrem, beq_self_eq_true, if_true, GChan.allFinish, hr]
    simp [bne, AbiBuffer.intoVec, AbiBuffer.takeVec, AbiBuffer.dropEvs, Step.bind, hrem]
  · have hrem : ({ st.buf with cursor := st.buf.cursor + k } : AbiBuffer).remaining ≠ 0 := by
      simp only [AbiBuffer.remaining] at hr hk ⊢; omega
    have hrem2 : ({ st.buf with cursor := st.buf.cursor + k } : AbiBuffer).remaining + k = st.buf.remaining := by
      simp only [AbiBuffer.remaining] at hk ⊢; omega
    simp only [GChan.pollAll, hp, Step.bind, taskDropEvs, Step.emit, GChan.allAfter, sresOf, hk0, false_and, if_false]
    have : (if (!first && SRes.complete k == SRes.cancelled) = true then SRes.complete 0 else SRes.complete k) = SRes.complete k := by
      simp
    simp [this, hrem, hr, hrem2]

/-- `write_all` / `write_one` driven to its end by a host that answers every write at once with
COMPLETED|`f st` (`f` = the host's choice, a function of the state of the write): the number of polls of
writes it takes; `none` = the fuel ran out (or a panic) -/
def allRun (e : Env) (one : Bool) (f : WSt → Nat) : Nat → GChan → Bool → WSt → Option (GChan × Nat)
  | 0, _, _, _ => none
  | fuel + 1, g, first, st =>
    match g.pollAll e one first (WOp.new st) (Host.packCode Host.COMPLETED (f st)) with
    | .panic _ _ => none
    | .ok (g', _) _ =>
      if g'.running then
        match g'.act with
        | .sall _ (.awaiting _ w) =>
          match w.state with
          | .start st' => (allRun e one f fuel g' false st').map fun r => (r.1, r.2 + 1)
          | _ => none
        | _ => none
      else some (g', 1)

/-- **`write_all` terminates when the host makes progress**: whatever counts the host picks (`f`), as long
as each is legal and progresses (`1 ≤ f st ≤ remaining`), `write_all` / `write_one` ends after at most
`remaining` writes, with the future gone (`act = idle`, not `running`).  Induction on the fuel with the
measure `remaining` (each step: `write_all_progress`). -/
theorem allRun_terminates (e : Env) (one : Bool) (f : WSt → Nat)
    (hf : ∀ st : WSt, 1 ≤ st.buf.remaining → 1 ≤ f st ∧ f st ≤ st.buf.remaining ∧ f st ≤ 268435455) :
    ∀ (fuel : Nat) (g : GChan) (first : Bool) (st : WSt), st.wr.done = false → st.buf.cursor ≤ st.buf.items.length →
      1 ≤ st.buf.remaining → st.buf.remaining ≤ fuel →
      ∃ g' n, allRun e one f fuel g first st = some (g', n) ∧ g'.running = false ∧ g'.act = .idle ∧ n ≤ st.buf.remaining := by
  intro fuel
  induction fuel with
  | zero => intro g first st _ _ h1 h2; omega
  | succ fuel ih =>
    intro g first st hd hc h1 h2
    obtain ⟨hk1, hk, hk2⟩ := hf st h1
    obtain ⟨g', evs, hp, hres⟩ := write_all_progress g e one first st (f st) hd hk1 hk hk2 hc
    by_cases hr : st.buf.remaining = f st
    · simp only [hr, if_true] at hres
      refine ⟨g', 1, ?_, hres.1, hres.2, by omega⟩
      simp [allRun, hp, hres.1]
    · simp only [hr, if_false] at hres
      obtain ⟨hrun, hact, hrem⟩ := hres
      generalize hb' : ({ st.buf with cursor := st.buf.cursor + f st } : AbiBuffer) = b' at hact hrem
      have hc' : b'.cursor ≤ b'.items.length := by
        subst hb'; simp only [AbiBuffer.remaining] at hk ⊢; omega
      obtain ⟨g'', n, hrun', hr1, hr2, hn⟩ := ih g' false ⟨b', st.wr⟩ hd hc' (by simp only []; omega) (by simp only []; omega)
      simp only [] at hn
      refine ⟨g'', n + 1, ?_, hr1, hr2, by omega⟩
      simp only [allRun, hp]
      simp [hrun, hact, WOp.new, hrun']

/-- **The untransferred tail is returned, not dropped**: when `write_all` ends — everything was taken,
or the peer dropped — the vector it hands back is exactly the window of the buffer at that point (the
values the host never took, in order), each lifted back exactly once if it had been lowered. -/
theorem write_all_returns_untransferred (g : GChan) (status : SRes) (st : WSt)
    (h : st.buf.remaining = 0 ∨ status = .dropped) :
    g.allFinish false status st =
      .ok { g with act := .idle, running := false, sw := g.sw.map fun _ => st.wr }
        (st.buf.takeVec.2.2 ++ [evP g.c .ready, .ch .wares (g.c :: st.buf.window)] ++ valDrops g.c g.kind st.buf.window) := by
  have hne : (st.buf.remaining != 0 && status != SRes.dropped) = false := by
    rcases h with h | h <;> simp [h]
  simp [GChan.allFinish, hne, AbiBuffer.intoVec_spec, valDrops]

/-! ## Legality of labels and reachability -/

/-- the size the next poll offers to the host if it starts a copy (`none` = it does not call the
built-in: no operation, not in its start state, or the end already knows it is done) -/
def wstOffer (s : WSt) : Option Nat := if s.wr.done then none else some (min s.buf.remaining Limits.streamMaxLength)
def rstOffer (s : RSt) : Option Nat := if s.rd.done then none else some (min s.spare Limits.streamMaxLength)

def GChan.offer (g : GChan) : Option Nat :=
  match g.act with
  | .swrite w => match w.state with | .start s => wstOffer s | _ => none
  | .sall _ (.unpolled items) => match g.sw with
    | some wr => if wr.done then none else some (min items.length Limits.streamMaxLength)
    | none => none
  | .sall _ (.awaiting _ w) => match w.state with | .start s => wstOffer s | _ => none
  | .sread w => match w.state with | .start s => rstOffer s | _ => none
  | .snext .unpolled => match g.sr with | some rd => if rd.done then none else some 1 | none => none
  | .snext (.awaiting w) => match w.state with | .start s => rstOffer s | _ => none
  | .scoll (.unpolled rd) => if rd.done then none else some (growCap g.esize 0)
  | .scoll (.awaiting w) => match w.state with | .start s => rstOffer s | _ => none
  | .adnext => match g.ad with
    | some (.idle rd) => if rd.done then none else some 1
    | some (.reading w) => match w.state with | .start s => rstOffer s | _ => none
    | _ => none
  | .fwrite w => match w.state with | .start _ => some 1 | _ => none
  | .fread w => match w.state with | .start _ => some 1 | _ => none
  | .idle => none

/-- does dropping / cancelling the channel's operation call the cancel built-in? -/
def GChan.cancels (g : GChan) : Bool :=
  match g.act with
  | .swrite w => w.cancelAsks
  | .sall _ (.awaiting _ w) => w.cancelAsks
  | .sread w => w.cancelAsks
  | .snext (.awaiting w) => w.cancelAsks
  | .scoll (.awaiting w) => w.cancelAsks
  | .fwrite w => w.cancelAsks
  | .fread w => w.cancelAsks
  | _ => false

/-- Labels a task body and a conforming host (Appendix B, `Host.End`) may produce in state `s`.
Body instructions only between steps (`running`/`defer` clear); answers are the rules'. -/
def CLegal (s : ChanSys) : CLabel → Prop
  | .opn h1 h2 => s.g.running = false ∧ s.g.defer = none ∧ h1 ≠ 0 ∧ h2 ≠ 0 ∧ h1 ≠ h2
  | .write _ | .resume | .intoVec | .writeAll _ | .writeOne | .read _ | .next | .collect | .fut =>
    s.g.running = false ∧ s.g.defer = none
  | .poll ans => s.g.defer = none ∧
    (∀ n, s.g.offer = some n → s.h.e.copyTrap = none → s.h.e.legalImmediate n ans = true)
  | .cancel ans | .dropOp ans | .close _ ans => s.g.running = false ∧ s.g.defer = none ∧
    (s.g.cancels = true → s.h.e.cancelTrap = none → s.h.e.legalCancelRet ans = true)
  | .deferStart ans => s.g.defer ≠ none ∧ (s.h.e.copyTrap = none → s.h.e.legalImmediate 1 ans = true)
  | .peerXfer k => s.g.running = false ∧ s.g.defer = none ∧ s.h.e.legalXfer k = true
  | .peerDrop => s.g.running = false ∧ s.g.defer = none ∧ (s.h.e.st = .copying → s.h.e.legalPeerDrop = true)
  | .deliver => s.g.running = false ∧ s.g.defer = none ∧ s.h.e.pending ≠ none ∧
    (∃ t, s.env.cur = some t ∧ s.env.regs.contains (t.ptr, s.h.handle) = true)

def ChanSys.init (c : Nat) (fut gw : Bool) (kind : PKind) (t : CurTask) : ChanSys :=
  ⟨{ c := c, fut := fut, gw := gw, kind := kind, adapter := false }, { e := { fut := fut, writer := gw } }, ⟨some t, []⟩⟩

/-- states reachable from a fresh channel by legal labels, with the trace so far -/
inductive CReach (s0 : ChanSys) : ChanSys → List Ev → Prop
  | init : CReach s0 s0 []
  | step {s l s' evs tr} : CReach s0 s tr → CLegal s l → s.step l = .ok s' evs → CReach s0 s' (tr ++ evs)

/-- run a list of labels (for concrete witnesses) -/
def runLabels (s : ChanSys) : List CLabel → Option (ChanSys × List Ev)
  | [] => some (s, [])
  | l :: ls => match s.step l with
    | .ok s' e => (runLabels s' ls).map fun (s'', e') => (s'', e ++ e')
    | .panic _ _ => none

end Witverif.Async
