import Witverif.Text.TypesEq
/-! Helper lemmas for C28, part 2: the union-find (`find` with path compression, `union`). -/
namespace Witverif.Text.TypesEq

theorem kvGet_insert (l : List (Nat × Nat)) (k v x : Nat) :
    kvGet (kvInsert l k v) x = if x = k then some v else kvGet l x := by
  induction l with
  | nil =>
    simp only [kvInsert, kvGet]
    by_cases h : k = x
    · simp [h]
    · have : ¬ x = k := fun e => h e.symm
      simp [h, this]
  | cons p rest ih =>
    obtain ⟨k', v'⟩ := p
    simp only [kvInsert]
    by_cases h : k' = k
    · subst h
      simp only [if_true, kvGet]
      by_cases hx : k' = x
      · simp [hx]
      · have : ¬ x = k' := fun e => hx e.symm
        simp [hx, this]
    · simp only [h, if_false, kvGet, ih]
      by_cases hx : k' = x
      · subst hx; simp [h]
      · simp [hx]

theorem UF.get_insert (u : UF) (k v x : Nat) :
    (u.insert k v).get x = if x = k then v else u.get x := by
  simp only [UF.get, UF.insert, kvGet_insert]
  by_cases h : x = k <;> simp [h]

theorem UF.get_empty (x : Nat) : ({} : UF).get x = x := by
  simp [UF.get, kvGet]

/-- Parents never exceed children (the smaller id is always made the root). -/
def UF.ParLe (u : UF) : Prop := ∀ x, u.get x ≤ x

theorem UF.parLe_empty : ({} : UF).ParLe := by
  intro x; simp [UF.get_empty]

/-- The root of `x`: follow parents while they decrease. -/
def UF.root (u : UF) (x : Nat) : Nat :=
  if _h : u.get x < x then UF.root u (u.get x) else x
termination_by x

theorem UF.root_step (u : UF) {x : Nat} (h : u.get x < x) : u.root x = u.root (u.get x) := by
  rw [UF.root]; simp [h]

theorem UF.root_stop (u : UF) {x : Nat} (h : ¬ u.get x < x) : u.root x = x := by
  rw [UF.root]; simp [h]

theorem UF.root_le (u : UF) : ∀ x, u.root x ≤ x := by
  intro x
  induction x using Nat.strongRecOn with
  | _ x ih =>
    by_cases h : u.get x < x
    · rw [u.root_step h]; have := ih _ h; omega
    · rw [u.root_stop h]; omega

theorem UF.get_root (u : UF) (hp : u.ParLe) : ∀ x, u.get (u.root x) = u.root x := by
  intro x
  induction x using Nat.strongRecOn with
  | _ x ih =>
    by_cases h : u.get x < x
    · rw [u.root_step h]; exact ih _ h
    · rw [u.root_stop h]; have := hp x; omega

theorem UF.root_root (u : UF) (hp : u.ParLe) (x : Nat) : u.root (u.root x) = u.root x := by
  apply u.root_stop
  rw [u.get_root hp]; omega

theorem UF.root_empty (x : Nat) : ({} : UF).root x = x := by
  apply UF.root_stop; simp [UF.get_empty]

/-- Path compression does not change any root. -/
theorem UF.root_insert_compress (u : UF) (hp : u.ParLe) (x r : Nat) (hr : r = u.root x)
    (hlt : r < x) : ∀ y, (u.insert x r).root y = u.root y := by
  intro y
  induction y using Nat.strongRecOn with
  | _ y ih =>
    by_cases hy : y = x
    · subst hy
      have hg : (u.insert y r).get y = r := by simp [UF.get_insert]
      rw [UF.root_step _ (by rw [hg]; exact hlt), hg, ih r hlt]
      rw [hr, u.root_root hp]
    · have hg : (u.insert x r).get y = u.get y := by simp [UF.get_insert, hy]
      by_cases h : u.get y < y
      · rw [UF.root_step _ (by rw [hg]; exact h), hg, ih _ h, ← u.root_step h]
      · rw [UF.root_stop _ (by rw [hg]; exact h), u.root_stop h]

theorem UF.parLe_insert (u : UF) (hp : u.ParLe) (x r : Nat) (h : r ≤ x) : (u.insert x r).ParLe := by
  intro y
  rw [UF.get_insert]
  by_cases hy : y = x
  · simp [hy]; exact h
  · simp [hy]; exact hp y

/-- Linking root `hi` below root `lo`. -/
theorem UF.root_insert_link (u : UF) (hi lo : Nat) (hhi : u.get hi = hi)
    (hlo : u.get lo = lo) (hlt : lo < hi) :
    ∀ y, (u.insert hi lo).root y = if u.root y = hi then lo else u.root y := by
  intro y
  induction y using Nat.strongRecOn with
  | _ y ih =>
    by_cases hy : y = hi
    · subst hy
      have hg : (u.insert y lo).get y = lo := by simp [UF.get_insert]
      have hne : lo ≠ y := by omega
      have hg2 : (u.insert y lo).get lo = lo := by simp [UF.get_insert, hne, hlo]
      rw [UF.root_step _ (by rw [hg]; exact hlt), hg, UF.root_stop _ (by rw [hg2]; omega)]
      rw [u.root_stop (by rw [hhi]; omega)]
      simp
    · have hg : (u.insert hi lo).get y = u.get y := by simp [UF.get_insert, hy]
      by_cases h : u.get y < y
      · rw [UF.root_step _ (by rw [hg]; exact h), hg, ih _ h, ← u.root_step h]
      · rw [UF.root_stop _ (by rw [hg]; exact h), u.root_stop h]
        simp [hy]

/-- `find` returns the root, leaves every root unchanged and keeps parents ≤ children. -/
theorem find_spec : ∀ (fuel : Nat) (u : UF) (x : Nat), u.ParLe → x < fuel →
    ∃ u', find fuel u x = some (u.root x, u') ∧ u'.ParLe ∧ ∀ y, u'.root y = u.root y := by
  intro fuel
  induction fuel with
  | zero => intro u x _ h; omega
  | succ f ih =>
    intro u x hp hx
    unfold find
    by_cases h : u.get x = x
    · simp only [h, ne_eq, not_true_eq_false, if_false]
      exact ⟨u, by rw [u.root_stop (by omega)], hp, fun _ => rfl⟩
    · have hlt : u.get x < x := by have := hp x; omega
      obtain ⟨u1, h1, hp1, hr1⟩ := ih u (u.get x) hp (by omega)
      simp only [ne_eq, h, not_false_eq_true, if_true, h1]
      refine ⟨u1.insert x (u.root (u.get x)), by rw [u.root_step hlt], ?_, ?_⟩
      · apply UF.parLe_insert _ hp1
        have := u.root_le (u.get x); omega
      · intro y
        rw [UF.root_insert_compress u1 hp1 x (u.root (u.get x)) ?_ ?_ y, hr1]
        · rw [hr1, u.root_step hlt]
        · have := u.root_le (u.get x); omega

theorem findT_spec (u : UF) (x : Nat) (hp : u.ParLe) :
    ∃ u', findT u x = some (u.root x, u') ∧ u'.ParLe ∧ ∀ y, u'.root y = u.root y :=
  find_spec (x + 1) u x hp (by omega)

/-- `union` merges exactly the two classes; the smaller root survives. -/
theorem union_spec (u : UF) (a b : Nat) (hp : u.ParLe) :
    ∃ u', union u a b = some u' ∧ u'.ParLe ∧
      ∀ y, u'.root y = if u.root y = max (u.root a) (u.root b) then min (u.root a) (u.root b)
                       else u.root y := by
  obtain ⟨u1, h1, hp1, hr1⟩ := findT_spec u a hp
  obtain ⟨u2, h2, hp2, hr2⟩ := findT_spec u1 b hp1
  unfold union
  simp only [h1, h2, hr1]
  have hra : u2.get (u.root a) = u.root a := by
    have := u2.get_root hp2 a; rw [hr2, hr1] at this; exact this
  have hrb : u2.get (u.root b) = u.root b := by
    have := u2.get_root hp2 b; rw [hr2, hr1] at this; exact this
  by_cases he : u.root a = u.root b
  · simp only [he, ne_eq, not_true_eq_false, if_false]
    refine ⟨u2, rfl, hp2, ?_⟩
    intro y; rw [hr2, hr1]; simp
  · simp only [ne_eq, he, not_false_eq_true, if_true]
    by_cases hlt : u.root a < u.root b
    · simp only [hlt, if_true]
      refine ⟨_, rfl, UF.parLe_insert _ hp2 _ _ (by omega), ?_⟩
      intro y
      rw [UF.root_insert_link u2 _ _ hrb hra hlt y, hr2, hr1]
      rw [Nat.max_eq_right (by omega), Nat.min_eq_left (by omega)]
    · simp only [hlt, if_false]
      have hlt' : u.root b < u.root a := by omega
      refine ⟨_, rfl, UF.parLe_insert _ hp2 _ _ (by omega), ?_⟩
      intro y
      rw [UF.root_insert_link u2 _ _ hra hrb hlt' y, hr2, hr1]
      rw [Nat.max_eq_left (by omega), Nat.min_eq_right (by omega)]

end Witverif.Text.TypesEq
