import Witverif.Text.AsyncFilter
/-! Helper lemmas for C17 (`AsyncFilterSet`). -/
namespace Witverif.Text.AsyncFilter
open Witverif.Text.AsyncFilterSpec

/-! ### strip_prefix -/

theorem stripPrefix_append (p s : List Char) : stripPrefix p (p ++ s) = some s := by
  induction p with
  | nil => simp [stripPrefix]
  | cons a p ih => simp [stripPrefix, ih]

theorem stripPrefix_some {p s r : List Char} (h : stripPrefix p s = some r) : s = p ++ r := by
  induction p generalizing s with
  | nil => simp [stripPrefix] at h; simp [h]
  | cons a p ih =>
    cases s with
    | nil => simp [stripPrefix] at h
    | cons c cs =>
      simp only [stripPrefix] at h
      split at h
      · rename_i hac; subst hac; simp [ih h]
      · simp at h

/-! ### the `is_async` loop is "first matching directive" -/

/-- One iteration of the loop either returns (the directive matches) or continues. -/
theorem scan_cons (f : Func) (d : Async) (ds : List Async) (i : Nat) :
    Set.scan f.qualName f.isImport (d :: ds) i =
      if «matches» d f then some (i, d.enabled) else Set.scan f.qualName f.isImport ds (i + 1) := by
  obtain ⟨en, fl⟩ := d
  cases fl with
  | all => simp [Set.scan, «matches»]
  | function n =>
    by_cases h : n = f.qualName <;> simp [Set.scan, «matches», h]
  | «import» n =>
    cases himp : f.isImport <;> by_cases h : n = f.qualName <;> simp [Set.scan, «matches», h, himp]
  | «export» n =>
    cases himp : f.isImport <;> by_cases h : n = f.qualName <;> simp [Set.scan, «matches», h, himp]

theorem scan_enabled (f : Func) (ds : List Async) (i : Nat) :
    (Set.scan f.qualName f.isImport ds i).map (·.2) =
      (ds.find? (fun d => «matches» d f)).map (·.enabled) := by
  induction ds generalizing i with
  | nil => simp [Set.scan]
  | cons d ds ih =>
    rw [scan_cons, List.find?_cons]
    by_cases h : «matches» d f = true
    · simp [h]
    · simp [h, ih]

theorem scan_index (f : Func) (ds : List Async) (i : Nat) :
    (Set.scan f.qualName f.isImport ds i).map (·.1) =
      (ds.findIdx? (fun d => «matches» d f)).map (· + i) := by
  induction ds generalizing i with
  | nil => simp [Set.scan]
  | cons d ds ih =>
    rw [scan_cons, List.findIdx?_cons]
    by_cases h : «matches» d f = true
    · simp [h]
    · simp [h, ih, Option.map_map, Function.comp_def]; 
      cases List.findIdx? (fun d => «matches» d f) ds <;> simp; omega

theorem isAsync_nameToTest (s : Set) (f : Func) :
    s.isAsync f =
      match Set.scan f.qualName f.isImport s.opts 0 with
      | some (i, b) => ({ s with used := Set.useIdx s.used i }, b)
      | none => (s, f.kind.declaredAsync) := by
  unfold Set.isAsync Func.qualName
  cases f.iface <;> rfl

/-! ### `is_async`: answer and effect on the used set -/

theorem isAsync_answer (s : Set) (f : Func) : (s.isAsync f).2 = expected s.opts f := by
  rw [isAsync_nameToTest]
  have h := scan_enabled f s.opts 0
  unfold expected
  cases hs : Set.scan f.qualName f.isImport s.opts 0 with
  | none =>
    rw [hs] at h
    cases hf : s.opts.find? (fun d => «matches» d f) with
    | none => simp
    | some d => rw [hf] at h; simp at h
  | some p =>
    obtain ⟨i, b⟩ := p
    rw [hs] at h
    cases hf : s.opts.find? (fun d => «matches» d f) with
    | none => rw [hf] at h; simp at h
    | some d => rw [hf] at h; simp at h; simp [h]

theorem mem_useIdx (used : List Nat) (i j : Nat) : j ∈ Set.useIdx used i ↔ j = i ∨ j ∈ used := by
  unfold Set.useIdx
  by_cases h : i ∈ used
  · simp [h]; intro hj; subst hj; exact h
  · simp [h]

theorem isAsync_state (s : Set) (f : Func) :
    (s.isAsync f).1.opts = s.opts ∧
    ∀ j, j ∈ (s.isAsync f).1.used ↔ j ∈ s.used ∨ decider s.opts f = some j := by
  rw [isAsync_nameToTest]
  have h := scan_index f s.opts 0
  unfold decider
  cases hs : Set.scan f.qualName f.isImport s.opts 0 with
  | none =>
    rw [hs] at h
    cases hf : s.opts.findIdx? (fun d => «matches» d f) with
    | none => simp
    | some k => rw [hf] at h; simp at h
  | some p =>
    obtain ⟨i, b⟩ := p
    rw [hs] at h
    cases hf : s.opts.findIdx? (fun d => «matches» d f) with
    | none => rw [hf] at h; simp at h
    | some k =>
      rw [hf] at h; simp at h; subst h
      refine ⟨rfl, ?_⟩
      intro j; simp [mem_useIdx]; constructor
      · rintro (h | h); exact Or.inr h.symm; exact Or.inl h
      · rintro (h | h); exact Or.inr h; exact Or.inl h.symm

/-! ### the `ensure_all_used` loop is "first unused non-`all` directive" -/

theorem ensureLoop_eq (used : List Nat) (ds : List Async) (i : Nat) :
    Set.ensureLoop used ds i =
      ((ds.zipIdx i).find? (fun p => p.1.filter != .all && !used.contains p.2)).map
        (fun p => sUnused ++ p.1.display) := by
  induction ds generalizing i with
  | nil => simp [Set.ensureLoop]
  | cons d ds ih =>
    simp only [Set.ensureLoop, List.zipIdx_cons, List.find?_cons]
    by_cases hu : i ∈ used
    · simp [hu, ih]
    · by_cases ha : d.filter = .all
      · simp [hu, ha, ih]
      · have hb : (d.filter != Filter.all) = true := by simpa using ha
        simp [hu, ha, hb]

theorem firstUnused_congr (ds : List Async) (u v : Nat → Bool) (h : ∀ i, u i = v i) :
    firstUnused ds u = firstUnused ds v := by
  have : u = v := funext h
  rw [this]

theorem ensureAllUsed_eq (s : Set) :
    s.ensureOut = expectedEnsure s.opts s.used.contains := by
  unfold Set.ensureOut Set.ensureAllUsed expectedEnsure firstUnused
  rw [ensureLoop_eq]
  cases (s.opts.zipIdx 0).find? (fun p => p.1.filter != .all && !s.used.contains p.2) <;> simp

/-! ### parse / Display -/

theorem display_parseFilter (s : List Char) : (parseFilter s).display = s := by
  unfold parseFilter
  split
  · rename_i h; simp [Filter.display, h]
  · cases h2 : stripPrefix sImport s with
    | some r => simp [Filter.display, stripPrefix_some h2]
    | none =>
      cases h3 : stripPrefix sExport s with
      | some r => simp [Filter.display, stripPrefix_some h3]
      | none => simp [Filter.display]

theorem display_parse (s : List Char) : (parse s).display = s := by
  unfold parse Async.display
  cases h1 : stripPrefix ['-'] s with
  | none => simp [display_parseFilter]
  | some t => simp [display_parseFilter, stripPrefix_some h1]

theorem parseFilter_display_of_wf (en : Bool) (fl : Filter) (h : WF ⟨en, fl⟩ = true) :
    parseFilter fl.display = fl := by
  cases fl with
  | all => simp [parseFilter, Filter.display]
  | «import» n =>
    have : sImport ++ n ≠ sAll := by simp [sImport, sAll]
    simp [parseFilter, Filter.display, this, stripPrefix_append]
  | «export» n =>
    have h1 : sExport ++ n ≠ sAll := by simp [sExport, sAll]
    have h2 : stripPrefix sImport (sExport ++ n) = none := by simp [sImport, sExport, stripPrefix]
    simp [parseFilter, Filter.display, h1, h2, stripPrefix_append]
  | function n =>
    simp [WF] at h
    obtain ⟨⟨⟨h1, h2⟩, h3⟩, _⟩ := h
    simp [parseFilter, Filter.display, h1, h2, h3]

theorem stripPrefix_dash_display (fl : Filter) (h : WF ⟨true, fl⟩ = true) :
    stripPrefix ['-'] fl.display = none := by
  cases fl with
  | all => simp [Filter.display, sAll, stripPrefix]
  | «import» n => simp [Filter.display, sImport, stripPrefix]
  | «export» n => simp [Filter.display, sExport, stripPrefix]
  | function n => simp [WF] at h; simpa [Filter.display] using h.2

theorem parse_display_of_wf (d : Async) (h : WF d = true) : parse d.display = d := by
  obtain ⟨en, fl⟩ := d
  cases en with
  | true =>
    simp [parse, Async.display, stripPrefix_dash_display fl h, parseFilter_display_of_wf true fl h]
  | false =>
    have : stripPrefix ['-'] ('-' :: fl.display) = some fl.display := by simp [stripPrefix]
    simp [parse, Async.display, this, parseFilter_display_of_wf false fl h]

theorem parse_wf (s : List Char) : WF (parse s) = true := by
  have hf : ∀ t en, (en = true → stripPrefix ['-'] t = none) → WF ⟨en, parseFilter t⟩ = true := by
    intro t en hen
    unfold parseFilter
    split
    · simp [WF]
    · rename_i hall
      cases h2 : stripPrefix sImport t with
      | some r => simp [WF]
      | none =>
        cases h3 : stripPrefix sExport t with
        | some r => simp [WF]
        | none =>
          simp [WF, hall, h2, h3]
          cases en with
          | false => simp
          | true => simp [hen rfl]
  unfold parse
  cases h1 : stripPrefix ['-'] s with
  | none => exact hf s true (fun _ => h1)
  | some t => exact hf t false (by simp)

end Witverif.Text.AsyncFilter
