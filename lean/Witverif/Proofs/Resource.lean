import Witverif.Abi.Resource
/-! Invariant of the resource-glue model (C07) and its preservation by every event. -/
namespace Witverif.Abi.Resource

/-! ### association lists -/

theorem Map.get_del {α : Type} (m : Map α) (k x : Nat) :
    (m.del k).get x = if k = x then none else m.get x := by
  induction m with
  | nil => simp [Map.del, Map.get]
  | cons a m ih =>
      obtain ⟨k', v⟩ := a
      simp only [Map.del]
      by_cases h1 : k' = k
      · subst h1
        simp only [↓reduceIte, ih, Map.get]
        by_cases h2 : k' = x <;> simp [h2]
      · simp only [h1, ↓reduceIte, Map.get, ih]
        by_cases h2 : k' = x
        · subst h2; simp [Ne.symm h1]
        · simp [h2]

theorem Map.get_put {α : Type} (m : Map α) (k x : Nat) (v : α) :
    (m.put k v).get x = if k = x then some v else m.get x := by
  simp only [Map.put, Map.get, Map.get_del]
  by_cases h : k = x <;> simp [h]

theorem NSet.has_put (s : NSet) (k x : Nat) : NSet.has (Map.put s k ()) x = (decide (k = x) || s.has x) := by
  simp only [NSet.has, Map.get_put]
  by_cases h : k = x <;> simp [h]

theorem NSet.has_del (s : NSet) (k x : Nat) : NSet.has (Map.del s k) x = (!decide (k = x) && s.has x) := by
  simp only [NSet.has, Map.get_del]
  by_cases h : k = x <;> simp [h]

theorem Map.get_nil {α : Type} (x : Nat) : Map.get ([] : Map α) x = none := rfl

theorem Map.isEmpty_get {α : Type} (m : Map α) (h : m.isEmpty = true) (x : Nat) : m.get x = none := by
  cases m with
  | nil => rfl
  | cons a m => simp at h

/-- the first entry of a non-empty map is visible -/
theorem Map.exists_get_of_not_isEmpty {α : Type} (m : Map α) (h : m.isEmpty = false) : ∃ k v, m.get k = some v := by
  cases m with
  | nil => simp at h
  | cons a m => exact ⟨a.1, a.2, by simp [Map.get]⟩

theorem Map.get_some_mem {α : Type} (m : Map α) (k : Nat) (v : α) (h : m.get k = some v) : (k, v) ∈ m := by
  induction m with
  | nil => simp [Map.get] at h
  | cons a m ih =>
      obtain ⟨k', v'⟩ := a
      simp only [Map.get] at h
      by_cases hk : k' = k
      · simp only [hk, ↓reduceIte, Option.some.injEq] at h
        subst hk; subst h; simp
      · simp only [hk, ↓reduceIte] at h
        exact List.mem_cons_of_mem _ (ih h)

/-- every entry is visible through `get` (no shadowed entries) -/
def Map.Wf {α : Type} (m : Map α) : Prop := ∀ k v, (k, v) ∈ m → m.get k = some v

theorem Map.mem_del {α : Type} (m : Map α) (k x : Nat) (v : α) (h : (x, v) ∈ m.del k) : (x, v) ∈ m ∧ k ≠ x := by
  induction m with
  | nil => simp [Map.del] at h
  | cons a m ih =>
      obtain ⟨k', v'⟩ := a
      simp only [Map.del] at h
      by_cases hk : k' = k
      · simp only [hk, ↓reduceIte] at h
        exact ⟨List.mem_cons_of_mem _ (ih h).1, (ih h).2⟩
      · simp only [hk, ↓reduceIte, List.mem_cons, Prod.mk.injEq] at h
        rcases h with ⟨rfl, rfl⟩ | h
        · exact ⟨by simp, fun e => hk e.symm⟩
        · exact ⟨List.mem_cons_of_mem _ (ih h).1, (ih h).2⟩

theorem Map.Wf_nil {α : Type} : Map.Wf ([] : Map α) := by intro k v h; simp at h

theorem Map.Wf_del {α : Type} (m : Map α) (k : Nat) (h : m.Wf) : (m.del k).Wf := by
  intro x v hx
  have ⟨h1, h2⟩ := Map.mem_del m k x v hx
  rw [Map.get_del]; simp [h2, h x v h1]

theorem Map.Wf_put {α : Type} (m : Map α) (k : Nat) (v : α) (h : m.Wf) : (m.put k v).Wf := by
  intro x w hx
  simp only [Map.put, List.mem_cons, Prod.mk.injEq] at hx
  rcases hx with ⟨rfl, rfl⟩ | hx
  · simp [Map.get_put]
  · have ⟨h1, h2⟩ := Map.mem_del m k x w hx
    rw [Map.get_put]; simp [h2, h x w h1]

end Witverif.Abi.Resource

namespace Witverif.Abi.Resource

/-- the invariant of the combined system (host table, wrapper values, heap of representations) -/
structure Inv (s : Sys) : Prop where
  twf : s.table.Wf
  cwf : s.cells.Wf
  /-- every live wrapper value holds an index that the host's table maps to an entry of its kind -/
  cell_entry : ∀ h c, s.cells.get h = some c → (s.table.get h).isSome = true
  cell_own : ∀ h c r, s.cells.get h = some c → s.table.get h = some (.own r) → c.temp = none ∧ c.exported = r.isExp
  cell_borrow : ∀ h c r k, s.cells.get h = some c → s.table.get h = some (.borrow r k) → c.temp = some k ∧ r.isExp = false
  /-- every table entry is held by a live wrapper value (nothing leaks when the values are gone) -/
  entry_cell : ∀ h e, s.table.get h = some e → (s.cells.get h).isSome = true
  /-- the representation behind every own handle of the exported resource is alive -/
  exp_live : ∀ h rep, s.table.get h = some (.own (.exp rep)) → s.heap.has rep = true
  /-- … and so is every resource whose handle the host holds; the guest has no handle to those -/
  owned_live : ∀ rep, s.hostOwned.has rep = true → s.heap.has rep = true ∧ ∀ h, s.table.get h ≠ some (.own (.exp rep))
  /-- at most one own handle per exported resource -/
  uniq : ∀ h1 h2 rep, s.table.get h1 = some (.own (.exp rep)) → s.table.get h2 = some (.own (.exp rep)) → h1 = h2
  /-- every live representation is owned by exactly somebody: a guest handle or the host -/
  no_orphan : ∀ rep, s.heap.has rep = true → (∃ h, s.table.get h = some (.own (.exp rep))) ∨ s.hostOwned.has rep = true
  scope_open : ∀ h r k, s.table.get h = some (.borrow r k) → s.scopes.has k = true
  /-- a payload in a slot knows it, and the slot's representation is alive -/
  slot_loc : ∀ rep pid, s.slot.get rep = some pid → s.loc.get pid = some (.inSlot rep) ∧ s.heap.has rep = true
  loc_slot : ∀ pid rep, s.loc.get pid = some (.inSlot rep) → s.slot.get rep = some pid
  /-- the drop log lists exactly the dead payloads, each once -/
  log_dead : ∀ pid, pid ∈ s.dropLog ↔ s.loc.get pid = some .dead
  log_nodup : s.dropLog.Nodup

theorem inv_init : Inv {} := by
  constructor <;> intros <;> simp_all [Map.Wf_nil, Map.get, NSet.has]
  all_goals first | exact Map.Wf_nil | skip

end Witverif.Abi.Resource

namespace Witverif.Abi.Resource

theorem get_of_hasBorrowOf_false (t : Map Entry) (k : Nat) (h : hasBorrowOf t k = false) (x : Nat) (r : Res) :
    t.get x ≠ some (.borrow r k) := by
  intro e
  have hm := Map.get_some_mem t x _ e
  have : hasBorrowOf t k = true := by
    simp only [hasBorrowOf, List.any_eq_true]
    exact ⟨(x, .borrow r k), hm, by simp⟩
  simp [h] at this

theorem hasBorrowOf_of_get (t : Map Entry) (k x : Nat) (r : Res) (e : t.get x = some (.borrow r k)) :
    hasBorrowOf t k = true := by
  cases hb : hasBorrowOf t k with
  | true => rfl
  | false => exact absurd e (get_of_hasBorrowOf_false t k hb x r)

theorem get_of_hasTempOf_false (c : Map Cell) (k : Nat) (h : hasTempOf c k = false) (x : Nat) (cell : Cell) :
    c.get x = some cell → cell.temp ≠ some k := by
  intro e ht
  have hm := Map.get_some_mem c x _ e
  have : hasTempOf c k = true := by
    simp only [hasTempOf, List.any_eq_true]
    exact ⟨(x, cell), hm, by simp [ht]⟩
  simp [h] at this

/-- with the invariant, a borrow entry of call `k` implies a glue temporary of call `k` -/
theorem hasTempOf_of_hasBorrowOf (s : Sys) (hi : Inv s) (k : Nat) (hb : hasBorrowOf s.table k = true) :
    hasTempOf s.cells k = true := by
  simp only [hasBorrowOf, List.any_eq_true] at hb
  obtain ⟨⟨x, e⟩, hm, hp⟩ := hb
  have hg := hi.twf x e hm
  cases e with
  | own r => simp at hp
  | borrow r k' =>
      simp only [beq_iff_eq] at hp
      subst hp
      have hc := hi.entry_cell x _ hg
      obtain ⟨cell, hcell⟩ := Option.isSome_iff_exists.mp hc
      have := (hi.cell_borrow x cell r k' hcell hg).1
      cases ht : hasTempOf s.cells k' with
      | true => rfl
      | false => exact absurd this (get_of_hasTempOf_false s.cells k' ht x cell hcell)

macro "inv_close" : tactic =>
  `(tactic| (simp only [Map.get_put, Map.get_del, NSet.has_put, NSet.has_del, Map.get_nil, List.mem_cons, List.nodup_cons] <;> grind [Res.isExp]))

theorem step_inv_ownPlus (s s' : Sys) (h : _) (r : _) (hi : Inv s) (hs : s.step (.ownPlus h r) = .ok s') : Inv s' := by
  obtain ⟨twf, cwf, ce, co, cb, ec, el, ol, un, no, so, sl, ls, ld, ln⟩ := hi
  simp only [Sys.step] at hs
  split at hs
  · cases hs
  rename_i hfree
  simp only [Bool.or_eq_true, not_or, Bool.not_eq_true, Option.isSome_eq_false_iff, Option.isNone_iff_eq_none] at hfree
  obtain ⟨ht, hc⟩ := hfree
  cases r with
  | imp o =>
      simp only [Outcome.ok.injEq] at hs
      subst hs
      refine ⟨Map.Wf_put _ _ _ twf, Map.Wf_put _ _ _ cwf, ?_, ?_, ?_, ?_, ?_, ?_, ?_, ?_, ?_, ?_, ?_, ?_, ?_⟩ <;> inv_close
  | exp rep =>
      simp only at hs
      split at hs
      · cases hs
      rename_i hown
      simp only [Outcome.ok.injEq] at hs
      subst hs
      refine ⟨Map.Wf_put _ _ _ twf, Map.Wf_put _ _ _ cwf, ?_, ?_, ?_, ?_, ?_, ?_, ?_, ?_, ?_, ?_, ?_, ?_, ?_⟩ <;> inv_close

theorem step_inv_borPlus (s s' : Sys) (h : _) (r : _) (k : _) (hi : Inv s) (hs : s.step (.borPlus h r k) = .ok s') : Inv s' := by
  obtain ⟨twf, cwf, ce, co, cb, ec, el, ol, un, no, so, sl, ls, ld, ln⟩ := hi
  simp only [Sys.step] at hs
  split at hs
  · cases hs
  rename_i hfree
  simp only [Bool.or_eq_true, not_or, Bool.not_eq_true, Option.isSome_eq_false_iff, Option.isNone_iff_eq_none] at hfree
  obtain ⟨ht, hc⟩ := hfree
  split at hs
  · cases hs
  split at hs
  · cases hs
  rename_i hexp hscope
  simp only [Outcome.ok.injEq] at hs
  subst hs
  refine ⟨Map.Wf_put _ _ _ twf, Map.Wf_put _ _ _ cwf, ?_, ?_, ?_, ?_, ?_, ?_, ?_, ?_, ?_, ?_, ?_, ?_, ?_⟩ <;> inv_close

theorem step_inv_callBegin (s s' : Sys) (k : _) (hi : Inv s) (hs : s.step (.callBegin k) = .ok s') : Inv s' := by
  obtain ⟨twf, cwf, ce, co, cb, ec, el, ol, un, no, so, sl, ls, ld, ln⟩ := hi
  simp only [Sys.step] at hs
  split at hs
  · cases hs
  simp only [Outcome.ok.injEq] at hs
  subst hs
  refine ⟨twf, cwf, ?_, ?_, ?_, ?_, ?_, ?_, ?_, ?_, ?_, ?_, ?_, ?_, ?_⟩ <;> inv_close

theorem step_inv_callEnd (s s' : Sys) (k : _) (hi : Inv s) (hs : s.step (.callEnd k) = .ok s') : Inv s' := by
  obtain ⟨twf, cwf, ce, co, cb, ec, el, ol, un, no, so, sl, ls, ld, ln⟩ := hi
  simp only [Sys.step] at hs
  split at hs
  · cases hs
  split at hs
  · cases hs
  split at hs
  · cases hs
  rename_i _ _ hb
  simp only [Outcome.ok.injEq] at hs
  subst hs
  have hnb := fun x r => get_of_hasBorrowOf_false s.table k (by simpa using hb) x r
  refine ⟨twf, cwf, ?_, ?_, ?_, ?_, ?_, ?_, ?_, ?_, ?_, ?_, ?_, ?_, ?_⟩ <;> inv_close

theorem step_inv_ownMinus (s s' : Sys) (h : _) (hi : Inv s) (hs : s.step (.ownMinus h) = .ok s') : Inv s' := by
  obtain ⟨twf, cwf, ce, co, cb, ec, el, ol, un, no, so, sl, ls, ld, ln⟩ := hi
  simp only [Sys.step] at hs
  split at hs
  · rename_i hcell
    split at hs
    · rename_i rep htab
      simp only [Outcome.ok.injEq] at hs
      subst hs
      refine ⟨Map.Wf_del _ _ twf, Map.Wf_del _ _ cwf, ?_, ?_, ?_, ?_, ?_, ?_, ?_, ?_, ?_, ?_, ?_, ?_, ?_⟩ <;> inv_close
    · rename_i o htab
      simp only [Outcome.ok.injEq] at hs
      subst hs
      refine ⟨Map.Wf_del _ _ twf, Map.Wf_del _ _ cwf, ?_, ?_, ?_, ?_, ?_, ?_, ?_, ?_, ?_, ?_, ?_, ?_, ?_⟩ <;> inv_close
    · cases hs
  · cases hs

theorem step_inv_lend (s s' : Sys) (h : _) (hi : Inv s) (hs : s.step (.lend h) = .ok s') : Inv s' := by
  obtain ⟨twf, cwf, ce, co, cb, ec, el, ol, un, no, so, sl, ls, ld, ln⟩ := hi
  simp only [Sys.step] at hs
  split at hs
  · split at hs
    · simp only [Outcome.ok.injEq] at hs
      subst hs
      exact ⟨twf, cwf, ce, co, cb, ec, el, ol, un, no, so, sl, ls, ld, ln⟩
    · cases hs
  · cases hs

theorem step_inv_mk (s s' : Sys) (pid : _) (hi : Inv s) (hs : s.step (.mk pid) = .ok s') : Inv s' := by
  obtain ⟨twf, cwf, ce, co, cb, ec, el, ol, un, no, so, sl, ls, ld, ln⟩ := hi
  simp only [Sys.step] at hs
  split at hs
  · cases hs
  rename_i hfree
  simp only [Bool.not_eq_true, Option.isSome_eq_false_iff, Option.isNone_iff_eq_none] at hfree
  simp only [Outcome.ok.injEq] at hs
  subst hs
  refine ⟨twf, cwf, ?_, ?_, ?_, ?_, ?_, ?_, ?_, ?_, ?_, ?_, ?_, ?_, ?_⟩ <;> inv_close

theorem step_inv_new (s s' : Sys) (h : _) (rep : _) (pid : _) (hi : Inv s) (hs : s.step (.new h rep pid) = .ok s') : Inv s' := by
  obtain ⟨twf, cwf, ce, co, cb, ec, el, ol, un, no, so, sl, ls, ld, ln⟩ := hi
  simp only [Sys.step] at hs
  split at hs
  · cases hs
  rename_i hfree
  simp only [Bool.or_eq_true, not_or, Bool.not_eq_true, Option.isSome_eq_false_iff, Option.isNone_iff_eq_none] at hfree
  obtain ⟨ht, hc⟩ := hfree
  split at hs
  · cases hs
  rename_i hheap
  split at hs
  · cases hs
  rename_i hheld
  simp only [ne_eq, Decidable.not_not] at hheld
  simp only [Outcome.ok.injEq] at hs
  subst hs
  refine ⟨Map.Wf_put _ _ _ twf, Map.Wf_put _ _ _ cwf, ?_, ?_, ?_, ?_, ?_, ?_, ?_, ?_, ?_, ?_, ?_, ?_, ?_⟩ <;> inv_close

theorem step_inv_take (s s' : Sys) (h : _) (pid : _) (hi : Inv s) (hs : s.step (.take h pid) = .ok s') : Inv s' := by
  obtain ⟨twf, cwf, ce, co, cb, ec, el, ol, un, no, so, sl, ls, ld, ln⟩ := hi
  simp only [Sys.step] at hs
  split at hs
  · rename_i rep hcell htab
    split at hs
    · rename_i hslot
      simp only [Outcome.ok.injEq] at hs
      subst hs
      refine ⟨twf, cwf, ?_, ?_, ?_, ?_, ?_, ?_, ?_, ?_, ?_, ?_, ?_, ?_, ?_⟩ <;> inv_close
    · cases hs
  · cases hs

theorem step_inv_udrop (s s' : Sys) (pid : _) (hi : Inv s) (hs : s.step (.udrop pid) = .ok s') : Inv s' := by
  obtain ⟨twf, cwf, ce, co, cb, ec, el, ol, un, no, so, sl, ls, ld, ln⟩ := hi
  simp only [Sys.step] at hs
  split at hs
  · rename_i hheld
    simp only [Outcome.ok.injEq] at hs
    subst hs
    refine ⟨twf, cwf, ?_, ?_, ?_, ?_, ?_, ?_, ?_, ?_, ?_, ?_, ?_, ?_, ?_⟩ <;> inv_close
  · cases hs

theorem step_inv_rep (s s' : Sys) (h : _) (rep : _) (hi : Inv s) (hs : s.step (.rep h rep) = .ok s') : Inv s' := by
  obtain ⟨twf, cwf, ce, co, cb, ec, el, ol, un, no, so, sl, ls, ld, ln⟩ := hi
  simp only [Sys.step] at hs
  split at hs
  · split at hs
    · split at hs
      · cases hs
      · split at hs
        · simp only [Outcome.ok.injEq] at hs
          subst hs
          exact ⟨twf, cwf, ce, co, cb, ec, el, ol, un, no, so, sl, ls, ld, ln⟩
        · cases hs
    · cases hs
  · cases hs

theorem step_inv_drop (s s' : Sys) (h : _) (dropped : _) (hi : Inv s) (hs : s.step (.drop h dropped) = .ok s') : Inv s' := by
  obtain ⟨twf, cwf, ce, co, cb, ec, el, ol, un, no, so, sl, ls, ld, ln⟩ := hi
  simp only [Sys.step] at hs
  split at hs
  · rename_i c hcell
    split at hs
    · rename_i rep htab
      split at hs
      · cases hs
      rename_i hheap
      split at hs
      · cases hs
      rename_i hslot
      simp only [ne_eq, Decidable.not_not] at hslot
      simp only [Bool.not_eq_true, Bool.not_eq_false] at hheap
      cases dropped with
      | some pid =>
        simp only [Outcome.ok.injEq] at hs
        subst hs
        refine ⟨Map.Wf_del _ _ twf, Map.Wf_del _ _ cwf, ?_, ?_, ?_, ?_, ?_, ?_, ?_, ?_, ?_, ?_, ?_, ?_, ?_⟩ <;> inv_close
      | none =>
        simp only [Outcome.ok.injEq] at hs
        subst hs
        refine ⟨Map.Wf_del _ _ twf, Map.Wf_del _ _ cwf, ?_, ?_, ?_, ?_, ?_, ?_, ?_, ?_, ?_, ?_, ?_, ?_, ?_⟩ <;> inv_close
    · rename_i e htab hne
      simp only [Outcome.ok.injEq] at hs
      subst hs
      refine ⟨Map.Wf_del _ _ twf, Map.Wf_del _ _ cwf, ?_, ?_, ?_, ?_, ?_, ?_, ?_, ?_, ?_, ?_, ?_, ?_, ?_⟩ <;> inv_close
    · cases hs
  · cases hs

theorem step_inv_hostDrop (s s' : Sys) (rep : _) (dropped : _) (hi : Inv s) (hs : s.step (.hostDrop rep dropped) = .ok s') : Inv s' := by
  obtain ⟨twf, cwf, ce, co, cb, ec, el, ol, un, no, so, sl, ls, ld, ln⟩ := hi
  simp only [Sys.step] at hs
  split at hs
  · cases hs
  rename_i ho
  split at hs
  · cases hs
  rename_i hheap
  split at hs
  · cases hs
  rename_i hslot
  simp only [ne_eq, Decidable.not_not] at hslot
  simp only [Bool.not_eq_true, Bool.not_eq_false] at hheap ho
  cases dropped with
  | some pid =>
    simp only [Outcome.ok.injEq] at hs
    subst hs
    refine ⟨twf, cwf, ?_, ?_, ?_, ?_, ?_, ?_, ?_, ?_, ?_, ?_, ?_, ?_, ?_⟩ <;> inv_close
  | none =>
    simp only [Outcome.ok.injEq] at hs
    subst hs
    refine ⟨twf, cwf, ?_, ?_, ?_, ?_, ?_, ?_, ?_, ?_, ?_, ?_, ?_, ?_, ?_⟩ <;> inv_close

theorem step_inv_use (s s' : Sys) (rep : _) (hi : Inv s) (hs : s.step (.use rep) = .ok s') : Inv s' := by
  obtain ⟨twf, cwf, ce, co, cb, ec, el, ol, un, no, so, sl, ls, ld, ln⟩ := hi
  simp only [Sys.step] at hs
  split at hs
  · cases hs
  split at hs
  · simp only [Outcome.ok.injEq] at hs
    subst hs
    exact ⟨twf, cwf, ce, co, cb, ec, el, ol, un, no, so, sl, ls, ld, ln⟩
  · cases hs

theorem step_inv_done (s s' : Sys) (hi : Inv s) (hs : s.step (.done) = .ok s') : Inv s' := by
  obtain ⟨twf, cwf, ce, co, cb, ec, el, ol, un, no, so, sl, ls, ld, ln⟩ := hi
  simp only [Sys.step] at hs
  repeat (split at hs; · cases hs)
  simp only [Outcome.ok.injEq] at hs
  subst hs
  exact ⟨twf, cwf, ce, co, cb, ec, el, ol, un, no, so, sl, ls, ld, ln⟩

/-- **Preservation.** Every event the model can perform keeps the invariant. -/
theorem step_inv (s s' : Sys) (ev : Ev) (hi : Inv s) (hs : s.step ev = .ok s') : Inv s' := by
  cases ev with
  | ownPlus h r => exact step_inv_ownPlus s s' h r hi hs
  | borPlus h r k => exact step_inv_borPlus s s' h r k hi hs
  | callBegin k => exact step_inv_callBegin s s' k hi hs
  | callEnd k => exact step_inv_callEnd s s' k hi hs
  | ownMinus h => exact step_inv_ownMinus s s' h hi hs
  | lend h => exact step_inv_lend s s' h hi hs
  | mk pid => exact step_inv_mk s s' pid hi hs
  | new h rep pid => exact step_inv_new s s' h rep pid hi hs
  | take h pid => exact step_inv_take s s' h pid hi hs
  | udrop pid => exact step_inv_udrop s s' pid hi hs
  | rep h rep => exact step_inv_rep s s' h rep hi hs
  | drop h dropped => exact step_inv_drop s s' h dropped hi hs
  | hostDrop rep dropped => exact step_inv_hostDrop s s' rep dropped hi hs
  | use rep => exact step_inv_use s s' rep hi hs
  | done => exact step_inv_done s s' hi hs

end Witverif.Abi.Resource

namespace Witverif.Abi.Resource

theorem step_no_trap_ownPlus (s : Sys) (h : _) (r : _) (hi : Inv s) (w : String) : s.step (.ownPlus h r) ≠ .trap w := by
  intro hs
  obtain ⟨twf, cwf, ce, co, cb, ec, el, ol, un, no, so, sl, ls, ld, ln⟩ := hi
  simp only [Sys.step] at hs
  split at hs
  · cases hs
  cases r <;> simp only at hs
  · cases hs
  · split at hs <;> cases hs

theorem step_no_trap_borPlus (s : Sys) (h : _) (r : _) (k : _) (hi : Inv s) (w : String) : s.step (.borPlus h r k) ≠ .trap w := by
  intro hs
  obtain ⟨twf, cwf, ce, co, cb, ec, el, ol, un, no, so, sl, ls, ld, ln⟩ := hi
  simp only [Sys.step] at hs
  repeat (split at hs; · cases hs)
  cases hs

theorem step_no_trap_callBegin (s : Sys) (k : _) (hi : Inv s) (w : String) : s.step (.callBegin k) ≠ .trap w := by
  intro hs
  obtain ⟨twf, cwf, ce, co, cb, ec, el, ol, un, no, so, sl, ls, ld, ln⟩ := hi
  simp only [Sys.step] at hs
  split at hs <;> cases hs

theorem step_no_trap_callEnd (s : Sys) (k : _) (hi : Inv s) (w : String) : s.step (.callEnd k) ≠ .trap w := by
  intro hs
  obtain ⟨twf, cwf, ce, co, cb, ec, el, ol, un, no, so, sl, ls, ld, ln⟩ := hi
  simp only [Sys.step] at hs
  split at hs
  · cases hs
  split at hs
  · cases hs
  rename_i _ hnt
  split at hs
  · rename_i hb
    have := hasTempOf_of_hasBorrowOf s ⟨twf, cwf, ce, co, cb, ec, el, ol, un, no, so, sl, ls, ld, ln⟩ k hb
    simp [this] at hnt
  · cases hs

theorem step_no_trap_ownMinus (s : Sys) (h : _) (hi : Inv s) (w : String) : s.step (.ownMinus h) ≠ .trap w := by
  intro hs
  obtain ⟨twf, cwf, ce, co, cb, ec, el, ol, un, no, so, sl, ls, ld, ln⟩ := hi
  simp only [Sys.step] at hs
  split at hs
  · rename_i ex hcell
    split at hs
    · cases hs
    · cases hs
    · rename_i hne1 hne2
      have h1 := ce h _ hcell
      obtain ⟨e, he⟩ := Option.isSome_iff_exists.mp h1
      cases e with
      | own r =>
          cases r with
          | imp o => exact hne2 o he
          | exp rep => exact hne1 rep he
      | borrow r k =>
          have := (cb h _ r k hcell he).1
          simp at this
  · cases hs

theorem step_no_trap_lend (s : Sys) (h : _) (hi : Inv s) (w : String) : s.step (.lend h) ≠ .trap w := by
  intro hs
  obtain ⟨twf, cwf, ce, co, cb, ec, el, ol, un, no, so, sl, ls, ld, ln⟩ := hi
  simp only [Sys.step] at hs
  split at hs
  · rename_i c hcell
    split at hs
    · cases hs
    · rename_i hn
      simp [ce h c hcell] at hn
  · cases hs

theorem step_no_trap_mk (s : Sys) (pid : _) (hi : Inv s) (w : String) : s.step (.mk pid) ≠ .trap w := by
  intro hs
  obtain ⟨twf, cwf, ce, co, cb, ec, el, ol, un, no, so, sl, ls, ld, ln⟩ := hi
  simp only [Sys.step] at hs
  split at hs <;> cases hs

theorem step_no_trap_new (s : Sys) (h : _) (rep : _) (pid : _) (hi : Inv s) (w : String) : s.step (.new h rep pid) ≠ .trap w := by
  intro hs
  obtain ⟨twf, cwf, ce, co, cb, ec, el, ol, un, no, so, sl, ls, ld, ln⟩ := hi
  simp only [Sys.step] at hs
  repeat (split at hs; · cases hs)
  cases hs

theorem step_no_trap_take (s : Sys) (h : _) (pid : _) (hi : Inv s) (w : String) : s.step (.take h pid) ≠ .trap w := by
  intro hs
  obtain ⟨twf, cwf, ce, co, cb, ec, el, ol, un, no, so, sl, ls, ld, ln⟩ := hi
  simp only [Sys.step] at hs
  split at hs
  · split at hs <;> cases hs
  · cases hs

theorem step_no_trap_udrop (s : Sys) (pid : _) (hi : Inv s) (w : String) : s.step (.udrop pid) ≠ .trap w := by
  intro hs
  obtain ⟨twf, cwf, ce, co, cb, ec, el, ol, un, no, so, sl, ls, ld, ln⟩ := hi
  simp only [Sys.step] at hs
  split at hs <;> cases hs

theorem step_no_trap_rep (s : Sys) (h : _) (rep : _) (hi : Inv s) (w : String) : s.step (.rep h rep) ≠ .trap w := by
  intro hs
  obtain ⟨twf, cwf, ce, co, cb, ec, el, ol, un, no, so, sl, ls, ld, ln⟩ := hi
  simp only [Sys.step] at hs
  split at hs
  · rename_i hcell
    split at hs
    · rename_i r htab
      split at hs
      · cases hs
      · rename_i hr
        split at hs
        · cases hs
        · rename_i hh
          have : r = rep := by simpa using hr
          subst this
          simp [el h r htab] at hh
    · rename_i hne
      have h1 := ce h _ hcell
      obtain ⟨e, he⟩ := Option.isSome_iff_exists.mp h1
      cases e with
      | own r =>
          cases r with
          | imp o =>
              have := (co h _ _ hcell he).2
              simp [Res.isExp] at this
          | exp rep' => exact hne rep' he
      | borrow r k =>
          have := (cb h _ r k hcell he).1
          simp at this
  · cases hs

theorem step_no_trap_drop (s : Sys) (h : _) (dropped : _) (hi : Inv s) (w : String) : s.step (.drop h dropped) ≠ .trap w := by
  intro hs
  obtain ⟨twf, cwf, ce, co, cb, ec, el, ol, un, no, so, sl, ls, ld, ln⟩ := hi
  simp only [Sys.step] at hs
  split at hs
  · rename_i c hcell
    split at hs
    · rename_i rep htab
      split at hs
      · rename_i hh
        simp [el h rep htab] at hh
      · split at hs
        · cases hs
        · cases dropped <;> cases hs
    · cases hs
    · rename_i hn
      have h1 := ce h c hcell
      simp [hn] at h1
  · cases hs

theorem step_no_trap_hostDrop (s : Sys) (rep : _) (dropped : _) (hi : Inv s) (w : String) : s.step (.hostDrop rep dropped) ≠ .trap w := by
  intro hs
  obtain ⟨twf, cwf, ce, co, cb, ec, el, ol, un, no, so, sl, ls, ld, ln⟩ := hi
  simp only [Sys.step] at hs
  split at hs
  · cases hs
  rename_i ho
  split at hs
  · rename_i hh
    have := (ol rep (by simpa using ho)).1
    simp [this] at hh
  · split at hs
    · cases hs
    · cases dropped <;> cases hs

theorem step_no_trap_use (s : Sys) (rep : _) (hi : Inv s) (w : String) : s.step (.use rep) ≠ .trap w := by
  intro hs
  obtain ⟨twf, cwf, ce, co, cb, ec, el, ol, un, no, so, sl, ls, ld, ln⟩ := hi
  simp only [Sys.step] at hs
  split at hs
  · cases hs
  rename_i ho
  split at hs
  · cases hs
  · rename_i hh
    have := (ol rep (by simpa using ho)).1
    simp [this] at hh

theorem step_no_trap_done (s : Sys) (hi : Inv s) (w : String) : s.step (.done) ≠ .trap w := by
  intro hs
  obtain ⟨twf, cwf, ce, co, cb, ec, el, ol, un, no, so, sl, ls, ld, ln⟩ := hi
  simp only [Sys.step] at hs
  split at hs
  · cases hs
  rename_i hc
  split at hs
  · cases hs
  rename_i hho
  split at hs
  · cases hs
  split at hs
  · rename_i ht
    obtain ⟨k, v, hk⟩ := Map.exists_get_of_not_isEmpty s.table (by simpa using ht)
    have := ec k v hk
    rw [Map.isEmpty_get s.cells (by simpa using hc) k] at this
    simp at this
  rename_i ht
  split at hs
  · rename_i hh
    obtain ⟨k, v, hk⟩ := Map.exists_get_of_not_isEmpty s.heap (by simpa using hh)
    have hhas : s.heap.has k = true := by simp [NSet.has, hk]
    rcases no k hhas with ⟨x, hx⟩ | ho
    · rw [Map.isEmpty_get s.table (by simpa using ht) x] at hx
      cases hx
    · simp [NSet.has, Map.isEmpty_get s.hostOwned (by simpa using hho) k] at ho
  · split at hs <;> cases hs

/-- **Safety.** In a state satisfying the invariant no event can trap: whatever the glue and safe
user code do next, the host's table and the heap accept it. -/
theorem step_no_trap (s : Sys) (ev : Ev) (hi : Inv s) (w : String) : s.step ev ≠ .trap w := by
  cases ev with
  | ownPlus h r => exact step_no_trap_ownPlus s h r hi w
  | borPlus h r k => exact step_no_trap_borPlus s h r k hi w
  | callBegin k => exact step_no_trap_callBegin s k hi w
  | callEnd k => exact step_no_trap_callEnd s k hi w
  | ownMinus h => exact step_no_trap_ownMinus s h hi w
  | lend h => exact step_no_trap_lend s h hi w
  | mk pid => exact step_no_trap_mk s pid hi w
  | new h rep pid => exact step_no_trap_new s h rep pid hi w
  | take h pid => exact step_no_trap_take s h pid hi w
  | udrop pid => exact step_no_trap_udrop s pid hi w
  | rep h rep => exact step_no_trap_rep s h rep hi w
  | drop h dropped => exact step_no_trap_drop s h dropped hi w
  | hostDrop rep dropped => exact step_no_trap_hostDrop s rep dropped hi w
  | use rep => exact step_no_trap_use s rep hi w
  | done => exact step_no_trap_done s hi w

end Witverif.Abi.Resource
