import Witverif.Abi.RustProfile
/-! Lemmas about the Rust profile (C05): the canonical-list rule selects exactly types whose Rust
representation is fixed by the language and equal to the canonical layout, and whose every bit
pattern is a value (so reinterpreting a buffer needs no validation and cannot trap). -/
namespace Witverif.Abi.RustProfile
open Witverif.Abi Witverif.Abi.Spec

/-- the rule on a list of field types -/
def canonAll (fs : List Ty) : Bool := allBitsValidList fs && !hasHandleAny fs && !hasTupleAny fs

theorem canon_record_iff (fs : List Ty) : rustCanon (.record fs) = canonAll fs := by
  simp [rustCanon, canonAll, allBitsValid, hasHandle, hasTuple]

theorem canonAll_cons (t : Ty) (ts : List Ty) : canonAll (t :: ts) = (rustCanon t && canonAll ts) := by
  simp only [canonAll, rustCanon, allBitsValidList, hasHandleAny, hasTupleAny]
  cases allBitsValid t <;> cases allBitsValidList ts <;> cases hasHandle t <;> cases hasHandleAny ts <;>
    cases hasTuple t <;> cases hasTupleAny ts <;> rfl

theorem canon_flist (e : Ty) (n : Nat) : rustCanon (.flist e n) = rustCanon e := by
  simp [rustCanon, allBitsValid, hasHandle, hasTuple]

theorem canon_tuple (ts : List Ty) : rustCanon (.tuple ts) = false := by
  simp [rustCanon, hasTuple]

mutual
/-- **Layout.** For every type the rule accepts, the Rust representation is specified by the language
(`reprC` is defined) and is the canonical ABI's size and alignment — for every pointer width. -/
theorem reprC_canonical (p : Nat) : ∀ t : Ty, rustCanon t = true →
    reprC p t = some (elemSize p t, alignment p t)
  | .u8, _ | .s8, _ | .u16, _ | .s16, _ | .u32, _ | .s32, _ | .f32, _ | .u64, _ | .s64, _ | .f64, _ => by
      simp [reprC, elemSize, alignment]
  | .bool, h | .char, h | .string, h | .errctx, h | .list _, h | .map _ _, h | .flags _, h | .enum _, h
  | .variant _, h | .option _, h | .result _ _, h | .future _, h | .stream _, h => by
      simp [rustCanon, allBitsValid] at h
  | .own, h | .borrow, h => by simp [rustCanon, hasHandle] at h
  | .tuple ts, h => by simp [canon_tuple] at h
  | .flist e n, h => by
      rw [canon_flist] at h
      simp [reprC, reprC_canonical p e h, elemSize, alignment]
  | .record fs, h => by
      rw [canon_record_iff] at h
      simp [reprC, reprCFields_canonical p fs 0 h, elemSize, alignment]
theorem reprCFields_canonical (p : Nat) : ∀ (fs : List Ty) (cur : Nat), canonAll fs = true →
    reprCFields p fs cur = some (recordEnd p cur fs, maxAlign p fs)
  | [], cur, _ => by simp [reprCFields, recordEnd, maxAlign]
  | t :: ts, cur, h => by
      rw [canonAll_cons, Bool.and_eq_true] at h
      simp [reprCFields, reprC_canonical p t h.1, reprCFields_canonical p ts _ h.2, recordEnd, maxAlign]
end

mutual
/-- **No validation needed.** A type all of whose bit patterns are valid never traps when loaded,
from any memory, at any address, for any pointer width. -/
theorem load_total (p : Nat) (m : Mem) : ∀ (t : Ty) (a : Nat), allBitsValid t = true →
    (Spec.load p m t a).isSome = true
  | .u8, _, _ | .s8, _, _ | .u16, _, _ | .s16, _, _ | .u32, _, _ | .s32, _, _ | .f32, _, _
  | .u64, _, _ | .s64, _, _ | .f64, _, _ | .own, _, _ | .borrow, _, _ => by simp [Spec.load]
  | .bool, _, h | .char, _, h | .string, _, h | .errctx, _, h | .list _, _, h | .map _ _, _, h
  | .flags _, _, h | .enum _, _, h | .variant _, _, h | .option _, _, h | .result _ _, _, h
  | .future _, _, h | .stream _, _, h => by simp [allBitsValid] at h
  | .flist e n, a, h => by
      simp only [allBitsValid] at h
      simp only [Spec.load, Option.isSome_map]
      exact loadMany_total p m e h n a
  | .record fs, a, h => by
      simp only [allBitsValid] at h
      simp only [Spec.load, Option.isSome_map]
      exact loadFields_total p m fs a 0 h
  | .tuple fs, a, h => by
      simp only [allBitsValid] at h
      simp only [Spec.load, Option.isSome_map]
      exact loadFields_total p m fs a 0 h
theorem loadMany_total (p : Nat) (m : Mem) (e : Ty) (h : allBitsValid e = true) : ∀ (n a : Nat),
    (Spec.loadMany (Spec.load p m e) (elemSize p e) a n).isSome = true
  | 0, _ => by simp [Spec.loadMany]
  | n + 1, a => by
      have h1 := load_total p m e a h
      have h2 := loadMany_total p m e h n (a + elemSize p e)
      obtain ⟨v, hv⟩ := Option.isSome_iff_exists.mp h1
      obtain ⟨vs, hvs⟩ := Option.isSome_iff_exists.mp h2
      simp [Spec.loadMany, hv, hvs]
theorem loadFields_total (p : Nat) (m : Mem) : ∀ (fs : List Ty) (a cur : Nat), allBitsValidList fs = true →
    (Spec.loadFields p m fs a cur).isSome = true
  | [], _, _, _ => by simp [Spec.loadFields]
  | t :: ts, a, cur, h => by
      simp only [allBitsValidList, Bool.and_eq_true] at h
      have h1 := load_total p m t (a + alignTo cur (alignment p t)) h.1
      have h2 := loadFields_total p m ts a (alignTo cur (alignment p t) + elemSize p t) h.2
      obtain ⟨v, hv⟩ := Option.isSome_iff_exists.mp h1
      obtain ⟨vs, hvs⟩ := Option.isSome_iff_exists.mp h2
      simp [Spec.loadFields, hv, hvs]
end

theorem castI32_small (bits w : Nat) (hb : bits ≤ 32) : castI32 bits w = w % 2 ^ bits := by
  simp only [castI32, hb, ↓reduceIte]
  exact Nat.mod_mod_of_dvd w (Nat.pow_dvd_pow 2 hb)



theorem castU32_testBit (bits w k : Nat) :
    (castU32 bits w).testBit k = (decide (k < bits) && (decide (k < 32) && w.testBit k)) := by
  simp only [castU32, Nat.testBit_mod_two_pow]

/-- bit `i` of the OR of the zero-extended, shifted words is bit `i % 32` of word `i / 32` -/
theorem rustFlagsBits_testBit (bits : Nat) : ∀ (ws : List Nat) (i0 i : Nat), i < bits →
    (rustFlagsBits false bits ws i0).testBit i =
      (decide (i0 ≤ i / 32) && (ws.getD (i / 32 - i0) 0).testBit (i % 32))
  | [], i0, i, _ => by simp [rustFlagsBits]
  | w :: ws, i0, i, hi => by
      have ih := rustFlagsBits_testBit bits ws (i0 + 1) i hi
      simp only [rustFlagsBits, Bool.false_eq_true, ↓reduceIte, Nat.testBit_or, Nat.testBit_mod_two_pow,
        Nat.testBit_mul_two_pow, castU32_testBit, ih, hi, decide_true, Bool.true_and]
      by_cases h1 : i0 ≤ i / 32
      · by_cases h2 : i / 32 = i0
        · have e1 : 32 * i0 ≤ i := by omega
          have e2 : i - 32 * i0 = i % 32 := by omega
          have e3 : i - 32 * i0 < bits := by omega
          have e4 : i % 32 < 32 := Nat.mod_lt _ (by omega)
          have e5 : ¬ (i0 + 1 ≤ i / 32) := by omega
          have e7 : i % 32 < bits := by omega
          have e8 : ¬ (i0 + 1 ≤ i0) := by omega
          simp [e1, e2, e4, e5, h1, h2, e7, e8]
        · have e1 : 32 * i0 ≤ i := by omega
          have e2 : ¬ (i - 32 * i0 < 32) := by omega
          have e5 : i0 + 1 ≤ i / 32 := by omega
          have e6 : i / 32 - i0 = (i / 32 - (i0 + 1)) + 1 := by omega
          simp [e1, e2, e5, h1, e6]
      · have e1 : ¬ (32 * i0 ≤ i) := by omega
        have e5 : ¬ (i0 + 1 ≤ i / 32) := by omega
        simp [e1, e5, h1]

theorem flagsReprBits_ge (n : Nat) (hn : n ≤ 128) : n ≤ flagsReprBits n := by
  simp only [flagsReprBits]; split <;> (try split) <;> (try split) <;> (try split) <;> omega

end Witverif.Abi.RustProfile
