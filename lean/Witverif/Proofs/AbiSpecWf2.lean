import Witverif.Proofs.AbiSpecWf
/-! `Spec.lowerFlat` on memory-free types is state-free and well-formed (mutual induction on values). -/
namespace Witverif.Abi
open Spec

theorem memFreeCases_get : ∀ (cs : List (Option Ty)) (i : Nat) (c : Option Ty),
    memFreeCases cs = true → cs[i]? = some c → memFreeOpt c = true := by
  intro cs
  induction cs with
  | nil => intro i c _ h; simp at h
  | cons d ds ih =>
    intro i c hm h
    simp [memFreeCases] at hm
    cases i with
    | zero => simp at h; subst h; exact hm.1
    | succ i => exact ih i c hm.2 (by simpa using h)

theorem wf_single (ty : FT) (bits : Nat) (h : bits < 2 ^ ty.width) : WfFlat [⟨ty, bits⟩] [ty] :=
  ⟨rfl, by intro x hx; simp at hx; subst hx; exact h⟩

theorem rep_succ (f : List FT) (n : Nat) : Spec.rep f (n + 1) = f ++ Spec.rep f n := rfl

mutual
theorem lowerFlat_wf (p : Nat) : ∀ (v : Val) (t : Ty) (st : St), memFree t = true → hasTy t v = true →
    (Spec.lowerFlat p t v st).2 = st ∧ WfFlat (Spec.lowerFlat p t v st).1 (Spec.flatten p t)
  | .bool b, t, st, _, ht => by
      cases t <;> simp [hasTy] at ht
      refine ⟨by simp [Spec.lowerFlat], ?_⟩
      simp only [Spec.lowerFlat, Spec.flatten, ci32]
      apply wf_single; cases b <;> decide
  | .int n, t, st, _, ht => by
      cases t <;> simp [hasTy] at ht <;>
        (refine ⟨by simp [Spec.lowerFlat], ?_⟩; simp only [Spec.lowerFlat, Spec.flatten, ci32]; apply wf_single; exact wrap_lt _ _)
  | .f32 b, t, st, _, ht => by
      cases t <;> simp [hasTy] at ht
      exact ⟨by simp [Spec.lowerFlat], by simp only [Spec.lowerFlat, Spec.flatten]; exact wf_single _ _ ht⟩
  | .f64 b, t, st, _, ht => by
      cases t <;> simp [hasTy] at ht
      exact ⟨by simp [Spec.lowerFlat], by simp only [Spec.lowerFlat, Spec.flatten]; exact wf_single _ _ ht⟩
  | .char c, t, st, _, ht => by
      cases t <;> simp [hasTy] at ht
      exact ⟨by simp [Spec.lowerFlat], by simp only [Spec.lowerFlat, Spec.flatten, ci32]; exact wf_single _ _ (isChar_lt ht)⟩
  | .str bs, t, st, hm, ht => by
      cases t <;> simp [hasTy] at ht
      simp [memFree] at hm
  | .handle h, t, st, _, ht => by
      cases t <;> simp [hasTy] at ht <;>
        exact ⟨by simp [Spec.lowerFlat], by simp only [Spec.lowerFlat, Spec.flatten, ci32]; exact wf_single _ _ ht⟩
  | .enum i, t, st, hm, ht => by
      cases t <;> simp [hasTy] at ht
      rename_i n
      simp [memFree] at hm
      exact ⟨by simp [Spec.lowerFlat], by
        simp only [Spec.lowerFlat, Spec.flatten, ci32]; apply wf_single; simp [FT.width]; omega⟩
  | .flags bs, t, st, _, ht => by
      cases t <;> simp [hasTy] at ht
      rename_i n
      refine ⟨by simp [Spec.lowerFlat], ?_⟩
      simp only [Spec.lowerFlat, Spec.flatten]
      refine ⟨by simp [ci32, Function.comp_def, List.map_const'], ?_⟩
      intro x hx
      simp at hx
      obtain ⟨w, _, rfl⟩ := hx
      simpa [ci32, FT.width] using flagsWord_lt bs w
  | .list vs, t, st, hm, ht => by
      cases t <;> simp [hasTy] at ht <;> simp [memFree] at hm
      rename_i e n
      have ⟨h1, h2⟩ := lowerAll_wf p vs e st hm ht.2
      simp only [Spec.lowerFlat, Spec.flatten]
      rw [← ht.1]
      exact ⟨h1, h2⟩
  | .record vs, t, st, hm, ht => by
      cases t <;> simp [hasTy] at ht <;> simp [memFree] at hm
      · exact lowerFields_wf p vs _ st hm ht
      · exact lowerFields_wf p vs _ st hm ht
  | .variant i pv, t, st, hm, ht => by
      cases t <;> (try (simp [hasTy] at ht; done))
      · -- variant
        rename_i cs
        simp [memFree] at hm
        simp only [hasTy] at ht
        cases hci : cs[i]? with
        | none => simp [hci] at ht
        | some c =>
          simp only [hci] at ht
          have hmc : memFreeOpt c = true := memFreeCases_get cs i c hm.2 hci
          have ⟨h1, h2⟩ := lowerOpt_wf p pv c st hmc ht
          have hi : i < cs.length := by
            rcases List.getElem?_eq_some_iff.mp hci with ⟨h, _⟩; exact h
          simp only [Spec.lowerFlat, hci, Spec.flatten]
          refine ⟨h1, ?_⟩
          have hp := coercePayload_wf _ _ _ h2 (specFlattenCases_widthLe p cs i c hci)
          refine ⟨by simp [ci32, hp.1], ?_⟩
          intro x hx
          simp only [List.mem_cons] at hx
          rcases hx with rfl | hx
          · simp [ci32, FT.width]; omega
          · exact hp.2 x hx
      · -- option
        rename_i t'
        simp [memFree] at hm
        cases pv with
        | none =>
          cases i with
          | zero =>
            simp only [Spec.lowerFlat, Spec.flatten]
            refine ⟨trivial, ?_⟩
            have hp := coercePayload_wf [] [] (Spec.flatten p t') WfFlat.nil (by intro k h; simp at h)
            refine ⟨by simp [ci32, hp.1], ?_⟩
            intro x hx
            simp only [List.mem_cons] at hx
            rcases hx with rfl | hx
            · simp [ci32, FT.width]
            · exact hp.2 x hx
          | succ i => simp [hasTy] at ht
        | some v =>
          cases i with
          | zero => simp [hasTy] at ht
          | succ i =>
            cases i with
            | succ i => simp [hasTy] at ht
            | zero =>
              simp [hasTy] at ht
              have ⟨h1, h2⟩ := lowerFlat_wf p v t' st hm ht
              simp only [Spec.lowerFlat, Spec.flatten]
              refine ⟨h1, ?_⟩
              have hp := coercePayload_wf _ _ _ h2 (WidthLe.refl _)
              refine ⟨by simp [ci32, hp.1], ?_⟩
              intro x hx
              simp only [List.mem_cons] at hx
              rcases hx with rfl | hx
              · simp [ci32, FT.width]
              · exact hp.2 x hx
      · -- result
        rename_i a b
        simp [memFree] at hm
        cases i with
        | zero =>
          simp [hasTy] at ht
          have ⟨h1, h2⟩ := lowerOpt_wf p pv a st hm.1 ht
          simp only [Spec.lowerFlat, Spec.flatten, if_pos]
          refine ⟨h1, ?_⟩
          have hp := coercePayload_wf _ _ _ h2 (specJoinFlat_widthLe_left _ (Spec.flattenOpt p b))
          refine ⟨by simp [ci32, hp.1], ?_⟩
          intro x hx
          simp only [List.mem_cons] at hx
          rcases hx with rfl | hx
          · simp [ci32, FT.width]
          · exact hp.2 x hx
        | succ i =>
          cases i with
          | succ i => simp [hasTy] at ht
          | zero =>
            simp [hasTy] at ht
            have ⟨h1, h2⟩ := lowerOpt_wf p pv b st hm.2 ht
            simp only [Spec.lowerFlat, Spec.flatten]
            refine ⟨h1, ?_⟩
            have hp := coercePayload_wf _ _ _ h2 (specJoinFlat_widthLe_right (Spec.flattenOpt p a) _)
            refine ⟨by simp [ci32, hp.1], ?_⟩
            intro x hx
            simp only [List.mem_cons] at hx
            rcases hx with rfl | hx
            · simp [ci32, FT.width]
            · exact hp.2 x hx
theorem lowerAll_wf (p : Nat) : ∀ (vs : List Val) (t : Ty) (st : St), memFree t = true → hasTyAll t vs = true →
    (Spec.lowerAll p t vs st).2 = st ∧ WfFlat (Spec.lowerAll p t vs st).1 (Spec.rep (Spec.flatten p t) vs.length)
  | [], t, st, _, _ => by simp [Spec.lowerAll, Spec.rep, WfFlat.nil]
  | v :: vs, t, st, hm, ht => by
      simp [hasTyAll] at ht
      have ⟨h1, h2⟩ := lowerFlat_wf p v t st hm ht.1
      have ⟨h3, h4⟩ := lowerAll_wf p vs t st hm ht.2
      simp only [Spec.lowerAll, List.length_cons, rep_succ]
      rw [h1] at *
      exact ⟨by simp [h1, h3], by simpa [h1] using h2.append h4⟩
theorem lowerFields_wf (p : Nat) : ∀ (vs : List Val) (ts : List Ty) (st : St), memFreeAll ts = true →
    hasTys ts vs = true →
    (Spec.lowerFields p ts vs st).2 = st ∧ WfFlat (Spec.lowerFields p ts vs st).1 (Spec.flattenList p ts)
  | [], ts, st, _, ht => by
      cases ts <;> simp [hasTys] at ht
      simp [Spec.lowerFields, Spec.flattenList, WfFlat.nil]
  | v :: vs, ts, st, hm, ht => by
      cases ts with
      | nil => simp [hasTys] at ht
      | cons t ts =>
        simp [hasTys] at ht
        simp [memFreeAll] at hm
        have ⟨h1, h2⟩ := lowerFlat_wf p v t st hm.1 ht.1
        have ⟨h3, h4⟩ := lowerFields_wf p vs ts st hm.2 ht.2
        simp only [Spec.lowerFields, Spec.flattenList]
        exact ⟨by simp [h1, h3], by simpa [h1] using h2.append h4⟩
theorem lowerOpt_wf (p : Nat) : ∀ (pv : Option Val) (o : Option Ty) (st : St), memFreeOpt o = true →
    hasTyOpt o pv = true →
    (Spec.lowerOpt p o pv st).2 = st ∧ WfFlat (Spec.lowerOpt p o pv st).1 (Spec.flattenOpt p o)
  | none, o, st, _, ht => by
      cases o <;> simp [hasTyOpt] at ht
      simp [Spec.lowerOpt, Spec.flattenOpt, WfFlat.nil]
  | some v, o, st, hm, ht => by
      cases o with
      | none => simp [hasTyOpt] at ht
      | some t =>
        simp [hasTyOpt] at ht
        simp [memFreeOpt] at hm
        simpa [Spec.lowerOpt, Spec.flattenOpt] using lowerFlat_wf p v t st hm ht
end

end Witverif.Abi
