import Witverif.Abi.CSig
/-! Lemmas about the C signature layer model (C10). -/
namespace Witverif.Abi.CSig
open Witverif.Abi Witverif.Abi.CSigSpec

theorem paramsFrom_length (flat : Bool) : ∀ (k : Nat) (ps : List Shape), (paramsFrom flat k ps).length = ps.length
  | _, [] => rfl
  | k, _ :: ps => by simp [paramsFrom, paramsFrom_length flat (k + 1) ps]

theorem paramsFrom_get (flat : Bool) : ∀ (ps : List Shape) (k j : Nat) (h : j < ps.length),
    (paramsFrom flat k ps)[j]? = some (paramOf flat (k + j) ps[j])
  | [], _, _, h => by simp at h
  | s :: ps, k, 0, _ => by simp [paramsFrom]
  | s :: ps, k, j + 1, h => by
      have := paramsFrom_get flat ps (k + 1) j (by simpa using h)
      simp only [paramsFrom, List.getElem?_cons_succ, this, List.getElem_cons_succ]
      congr 2
      omega

theorem paramOf_kind (flat : Bool) (j : Nat) (s : Shape) :
    paramOf flat j s = .byValue j ∨ paramOf flat j s = .byPointer j ∨ paramOf flat j s = .maybe j := by
  unfold paramOf
  split
  · cases flat <;> simp
  · split <;> simp

theorem paramOf_maybe (flat : Bool) (j : Nat) (s : Shape) (h : paramOf flat j s = .maybe j) :
    ∃ s', s = .option s' := by
  unfold paramOf at h
  split at h
  · exact ⟨_, rfl⟩
  · split at h <;> simp at h

theorem carries_one (flat : Bool) (k : Nat) (s : Shape) (v : Val) (h : paramOk s v = true) :
    ∃ a, passOne (paramOf flat k s) v = some a ∧ recvOne (paramOf flat k s) a = some v := by
  rcases paramOf_kind flat k s with hk | hk | hk
  · exact ⟨.val v, by simp [hk, passOne, recvOne]⟩
  · exact ⟨.ptr v, by simp [hk, passOne, recvOne]⟩
  · -- `maybe` only arises for a direct option
    obtain ⟨s', rfl⟩ := paramOf_maybe flat k s hk
    · rw [hk]
      cases v with
      | variant i pv =>
        match i, pv, h with
        | 0, none, _ => exact ⟨.null, by simp [passOne, recvOne]⟩
        | 1, some x, _ => exact ⟨.ptr x, by simp [passOne, recvOne]⟩
        | 0, some _, h => simp [paramOk] at h
        | 1, none, h => simp [paramOk] at h
        | n + 2, _, h => simp [paramOk] at h
      | _ => simp [paramOk] at h

theorem carries_params (flat : Bool) : ∀ (ps : List Shape) (k : Nat) (vs : List Val),
    paramsOk ps vs = true →
    ∃ as, passAll (paramsFrom flat k ps) vs = some as ∧ recvAll (paramsFrom flat k ps) as = some vs
  | [], _, [], _ => ⟨[], by simp [paramsFrom, passAll, recvAll]⟩
  | [], _, _ :: _, h => by simp [paramsOk] at h
  | _ :: _, _, [], h => by simp [paramsOk] at h
  | s :: ps, k, v :: vs, h => by
      simp only [paramsOk, Bool.and_eq_true] at h
      obtain ⟨a, ha1, ha2⟩ := carries_one flat k s v h.1
      obtain ⟨as, hs1, hs2⟩ := carries_params flat ps (k + 1) vs h.2
      exact ⟨a :: as, by simp [paramsFrom, passAll, ha1, hs1], by simp [paramsFrom, recvAll, ha2, hs2]⟩

theorem carries_single (flat : Bool) : ∀ (s : Shape) (v : Val), resultOk s v = true →
    ∃ b, passResult (returnSingle flat s) (some v) = some b ∧ recvResult (returnSingle flat s) b = some (some v)
  | .alias s, v, h => by
      simp only [returnSingle]
      exact carries_single flat s v (by simpa [resultOk] using h)
  | .string, v, _ | .tuple, v, _ | .record, v, _ | .list, v, _ | .map, v, _ | .variant, v, _ =>
      ⟨⟨none, [(.whole, some v)]⟩, by simp [returnSingle, passResult, recvResult, outOf]⟩
  | .scalar, v, _ | .flags, v, _ | .enum, v, _ | .handle, v, _ | .future, v, _ | .stream, v, _ =>
      ⟨⟨some v, []⟩, by simp [returnSingle, passResult, recvResult]⟩
  | .option s, v, h => by
      cases flat
      · exact ⟨⟨none, [(.whole, some v)]⟩, by simp [returnSingle, passResult, recvResult, outOf]⟩
      · cases v with
        | variant i pv =>
          match i, pv, h with
          | 0, none, _ => exact ⟨⟨some (.bool false), [(.some, none)]⟩, by simp [returnSingle, passResult, recvResult]⟩
          | 1, some x, _ =>
            exact ⟨⟨some (.bool true), [(.some, some x)]⟩, by simp [returnSingle, passResult, recvResult, outOf]⟩
          | 0, some _, h => simp [resultOk] at h
          | 1, none, h => simp [resultOk] at h
          | n + 2, _, h => simp [resultOk] at h
        | _ => simp [resultOk] at h
  | .result ok err, v, h => by
      cases flat
      · exact ⟨⟨none, [(.whole, some v)]⟩, by simp [returnSingle, passResult, recvResult, outOf]⟩
      · cases v with
        | variant i pv =>
          match i, h with
          | 0, h =>
            refine ⟨_, by simp only [returnSingle, passResult, if_true]; rfl, ?_⟩
            cases ok <;> cases err <;> cases pv <;> simp_all [resultOk, recvResult, outOf, returnSingle]
          | 1, h =>
            refine ⟨_, by simp only [returnSingle, passResult]; rfl, ?_⟩
            cases ok <;> cases err <;> cases pv <;> simp_all [resultOk, recvResult, outOf, returnSingle]
          | n + 2, h => simp [resultOk] at h
        | _ => simp [resultOk] at h

theorem carries_result (flat : Bool) (r : Option Shape) (res : Option Val) (h : resultOptOk r res = true) :
    ∃ b, passResult (classifyRet flat r) res = some b ∧ recvResult (classifyRet flat r) b = some res := by
  match r, res, h with
  | none, none, _ => exact ⟨⟨none, []⟩, by simp [classifyRet, passResult, recvResult]⟩
  | some s, some v, h => exact carries_single flat s v (by simpa [resultOptOk] using h)
  | none, some _, h => simp [resultOptOk] at h
  | some _, none, h => simp [resultOptOk] at h

theorem returnSingle_nodup (flat : Bool) : ∀ s : Shape, (returnSingle flat s).retptrs.Nodup
  | .alias s => by simpa [returnSingle] using returnSingle_nodup flat s
  | .string | .tuple | .record | .list | .map | .variant | .scalar | .flags | .enum | .handle | .future | .stream => by
      simp [returnSingle]
  | .option _ => by cases flat <;> simp [returnSingle]
  | .result ok err => by cases flat <;> cases ok <;> cases err <;> simp [returnSingle]

theorem retptrs_nodup (flat : Bool) : ∀ r : Option Shape, (classifyRet flat r).retptrs.Nodup
  | none => by simp [classifyRet]
  | some s => returnSingle_nodup flat s

theorem returnSingle_noflat : ∀ s : Shape,
    (returnSingle false s).retptrs = [] ∨ (returnSingle false s).retptrs = [.whole]
  | .alias s => by simpa [returnSingle] using returnSingle_noflat s
  | .string | .tuple | .record | .list | .map | .variant | .scalar | .flags | .enum | .handle | .future | .stream
  | .option _ | .result _ _ => by simp [returnSingle]

theorem noflat_whole : ∀ r : Option Shape,
    (classifyRet false r).retptrs = [] ∨ (classifyRet false r).retptrs = [.whole]
  | none => by simp [classifyRet]
  | some s => returnSingle_noflat s

end Witverif.Abi.CSig
