import Witverif.Proofs.AbiStore3
import Witverif.Proofs.AbiDealloc3
/-! C01: `store_sound` — lowering to memory of memory-free types writes what `Spec.store` writes. -/
namespace Witverif.Abi
open Spec

theorem stable_proj (env : Env) (x : Expr) (o : Op) (vs : List Val) (v0 : Val) (i : Nat) (hi : i < vs.length)
    (hsem : ∀ pp m bev, opSem pp m bev o [.v v0] = some (vs.map MV.v))
    (hx : ValStable env x v0) : ValStable env (.op o [x] [] i) vs[i] := by
  intro fs ls m
  simp [eval, hx fs ls m, hsem, hi]

theorem offs_at (p : Nat) (hp : p = 4 ∨ p = 8) (a b : Nat) : (Off.mk a b).at p = if p = 8 then b else a := by
  rcases hp with rfl | rfl <;> simp [Off.at]

theorem hasTyAll_mem (e : Ty) : ∀ (vs : List Val), hasTyAll e vs = true → ∀ w, w ∈ vs → hasTy e w = true := by
  intro vs
  induction vs with
  | nil => intro _ w hw; simp at hw
  | cons v vs ih =>
    intro h w hw
    simp [hasTyAll] at h
    simp at hw
    rcases hw with rfl | hw
    · exact h.1
    · exact ih h.2 w hw

theorem storeArms_get (c : Cfg) (lvl : Nat) (tag : IntRepr) (a : Expr) (off poff : Off) :
    ∀ (cs : List (Option Ty)) (i0 : Nat) (arms : List Block), storeArms c lvl cs tag a off poff i0 = .ok arms →
    ∀ (i : Nat) (ci : Option Ty), cs[i]? = some ci →
      ∃ body, storeArm c lvl ci a poff = .ok body ∧
        arms[i]? = some (storeInt tag off (.i32 (i0 + i)) a :: body, []) := by
  intro cs
  induction cs with
  | nil => intro i0 arms _ i ci h; simp at h
  | cons o cs ih =>
    intro i0 arms h i ci hi
    simp only [storeArms, bind_ok] at h
    obtain ⟨body, hbody, rest, hrest, hp⟩ := h
    simp [pure, Except.pure] at hp
    subst hp
    cases i with
    | zero => simp at hi; subst hi; exact ⟨body, hbody, by simp [armOfStore]⟩
    | succ i =>
      have ⟨b, hb, ha⟩ := ih (i0 + 1) rest hrest i ci (by simpa using hi)
      exact ⟨b, hb, by simpa [Nat.add_assoc, Nat.add_comm 1 i] using ha⟩

/-- the statements of one arm (discriminant store, then the payload) write what the spec writes -/
theorem arm_store_sound (p : Nat) (hp : p = 4 ∨ p = 8) (c : Cfg) (o : Option Ty) (pv : Option Val)
    (hm : memFreeOpt o = true) (ht : hasTyOpt o pv = true)
    (ih : ∀ t v, o = some t → pv = some v → StoreSound p c t v)
    (lvl : Nat) (x a : Expr) (tag : IntRepr) (off poff : Off) (i : Nat) (body : List Stmt)
    (hbody : storeArm c lvl o a poff = .ok body) :
    ∃ (x' : Expr) (v' : Val),
      (∀ env, env.frames.length = lvl + 1 → ValStable env x (.variant i pv) →
        ValStable (env.extend [{ payload := pv.map MV.v }]) x' v') ∧
      Writes p (lvl + 1) x' a v' (storeInt tag off (.i32 i) a :: body)
        (fun addr st => Spec.storeOpt p o pv (addr + poff.at p)
          { st with mem := st.mem.storeLE (addr + off.at p) i tag.size }) := by
  cases o with
  | none =>
    cases pv with
    | some v => simp [hasTyOpt] at ht
    | none =>
      simp [storeArm, pure, Except.pure] at hbody
      subst hbody
      refine ⟨x, .variant i none, fun env _ hx => hx.extend _, ?_⟩
      exact writes_congr (writes_disc p (lvl + 1) x a _ tag off i) (by intros; simp [Spec.storeOpt])
  | some t =>
    cases pv with
    | none => simp [hasTyOpt] at ht
    | some v =>
      simp [hasTyOpt] at ht
      simp [memFreeOpt] at hm
      simp only [storeArm] at hbody
      refine ⟨.pl (lvl + 1), v, fun env hl _ => stable_pl env lvl hl v, ?_⟩
      have w1 := writes_disc p (lvl + 1) (.pl (lvl + 1)) a v tag off i
      have w2 := ih t v rfl rfl (lvl + 1) (.pl (lvl + 1)) a poff body hbody
      have := writes_append w1 w2 (by intro addr st st' hq; exact store_congr p v t _ _ _ hm ht hq)
      exact writes_congr this (by intros; simp [Spec.storeOpt])

set_option maxHeartbeats 800000 in
mutual
theorem store_sound (p : Nat) (hp : p = 4 ∨ p = 8) (c : Cfg) : ∀ (v : Val) (t : Ty),
    memFree t = true → hasTy t v = true → StoreSound p c t v
  | .bool b, t, _, ht => by
      cases t <;> simp [hasTy] at ht
      exact store_leaf p c _ _ .i32_8 (sc .i32FromBool) ⟨.i32, if b then 1 else 0⟩ (if b then 1 else 0) 1
        (by intros; simp [store, pure, Except.pure]) (fun x => eval_sc_of _ x _ _ (by simp [scalarSem]))
        rfl rfl (by intros; simp [Spec.store])
  | .int n, t, _, ht => by
      cases t <;> simp [hasTy] at ht
      · exact store_leaf p c _ _ .i32_8 (sc .i32FromS8) ⟨.i32, wrap 32 n⟩ (wrap 8 n) 1
          (by intros; simp [store, pure, Except.pure]) (fun x => eval_sc_of _ x _ _ (by simp [scalarSem]))
          rfl (wrap_mod_8 n) (by intros; simp [Spec.store])
      · exact store_leaf p c _ _ .i32_8 (sc .i32FromU8) ⟨.i32, wrap 32 n⟩ (wrap 8 n) 1
          (by intros; simp [store, pure, Except.pure]) (fun x => eval_sc_of _ x _ _ (by simp [scalarSem]))
          rfl (wrap_mod_8 n) (by intros; simp [Spec.store])
      · exact store_leaf p c _ _ .i32_16 (sc .i32FromS16) ⟨.i32, wrap 32 n⟩ (wrap 16 n) 2
          (by intros; simp [store, pure, Except.pure]) (fun x => eval_sc_of _ x _ _ (by simp [scalarSem]))
          rfl (wrap_mod_16 n) (by intros; simp [Spec.store])
      · exact store_leaf p c _ _ .i32_16 (sc .i32FromU16) ⟨.i32, wrap 32 n⟩ (wrap 16 n) 2
          (by intros; simp [store, pure, Except.pure]) (fun x => eval_sc_of _ x _ _ (by simp [scalarSem]))
          rfl (wrap_mod_16 n) (by intros; simp [Spec.store])
      · exact store_leaf p c _ _ .i32 (sc .i32FromS32) ⟨.i32, wrap 32 n⟩ (wrap 32 n) 4
          (by intros; simp [store, pure, Except.pure]) (fun x => eval_sc_of _ x _ _ (by simp [scalarSem]))
          rfl rfl (by intros; simp [Spec.store])
      · exact store_leaf p c _ _ .i32 (sc .i32FromU32) ⟨.i32, wrap 32 n⟩ (wrap 32 n) 4
          (by intros; simp [store, pure, Except.pure]) (fun x => eval_sc_of _ x _ _ (by simp [scalarSem]))
          rfl rfl (by intros; simp [Spec.store])
      · exact store_leaf p c _ _ .i64 (sc .i64FromS64) ⟨.i64, wrap 64 n⟩ (wrap 64 n) 8
          (by intros; simp [store, pure, Except.pure]) (fun x => eval_sc_of _ x _ _ (by simp [scalarSem]))
          rfl rfl (by intros; simp [Spec.store])
      · exact store_leaf p c _ _ .i64 (sc .i64FromU64) ⟨.i64, wrap 64 n⟩ (wrap 64 n) 8
          (by intros; simp [store, pure, Except.pure]) (fun x => eval_sc_of _ x _ _ (by simp [scalarSem]))
          rfl rfl (by intros; simp [Spec.store])
  | .f32 b, t, _, ht => by
      cases t <;> simp [hasTy] at ht
      exact store_leaf p c _ _ .f32 (sc .coreF32FromF32) ⟨.f32, b⟩ b 4
        (by intros; simp [store, pure, Except.pure]) (fun x => eval_sc_of _ x _ _ (by simp [scalarSem]))
        rfl rfl (by intros; simp [Spec.store])
  | .f64 b, t, _, ht => by
      cases t <;> simp [hasTy] at ht
      exact store_leaf p c _ _ .f64 (sc .coreF64FromF64) ⟨.f64, b⟩ b 8
        (by intros; simp [store, pure, Except.pure]) (fun x => eval_sc_of _ x _ _ (by simp [scalarSem]))
        rfl rfl (by intros; simp [Spec.store])
  | .char ch, t, _, ht => by
      cases t <;> simp [hasTy] at ht
      exact store_leaf p c _ _ .i32 (sc .i32FromChar) ⟨.i32, ch⟩ ch 4
        (by intros; simp [store, pure, Except.pure]) (fun x => eval_sc_of _ x _ _ (by simp [scalarSem]))
        rfl rfl (by intros; simp [Spec.store])
  | .str bs, t, hm, ht => by
      cases t <;> simp [hasTy] at ht
      simp [memFree] at hm
  | .handle h, t, _, ht => by
      cases t <;> simp [hasTy] at ht
      · exact store_leaf p c _ _ .i32 (fun x => pure1 .errLower [x]) ⟨.i32, h⟩ h 4
          (by intros; simp [store, pure, Except.pure]) (fun x => eval_pure1_of _ x _ _ (by intros; simp [opSem, pureSem]))
          rfl rfl (by intros; simp [Spec.store])
      · exact store_leaf p c _ _ .i32 (fun x => pure1 (.handleLower true) [x]) ⟨.i32, h⟩ h 4
          (by intros; simp [store, pure, Except.pure]) (fun x => eval_pure1_of _ x _ _ (by intros; simp [opSem, pureSem]))
          rfl rfl (by intros; simp [Spec.store])
      · exact store_leaf p c _ _ .i32 (fun x => pure1 (.handleLower false) [x]) ⟨.i32, h⟩ h 4
          (by intros; simp [store, pure, Except.pure]) (fun x => eval_pure1_of _ x _ _ (by intros; simp [opSem, pureSem]))
          rfl rfl (by intros; simp [Spec.store])
      · exact store_leaf p c _ _ .i32 (fun x => pure1 .futureLower [x]) ⟨.i32, h⟩ h 4
          (by intros; simp [store, pure, Except.pure]) (fun x => eval_pure1_of _ x _ _ (by intros; simp [opSem, pureSem]))
          rfl rfl (by intros; simp [Spec.store])
      · exact store_leaf p c _ _ .i32 (fun x => pure1 .streamLower [x]) ⟨.i32, h⟩ h 4
          (by intros; simp [store, pure, Except.pure]) (fun x => eval_pure1_of _ x _ _ (by intros; simp [opSem, pureSem]))
          rfl rfl (by intros; simp [Spec.store])
  | .enum i, t, hm, ht => by
      cases t <;> simp [hasTy] at ht
      rename_i n
      intro lvl x a off ss h
      simp [store, pure, Except.pure] at h
      subst h
      unfold storeInt
      exact writes_congr
        (writes_one p lvl x a (.enum i) _ off (pure1 (.enumLower n) [x]) ⟨.i32, i⟩ i (discriminant n).size
          (eval_pure1_of _ x _ _ (by intros; simp [opSem, pureSem])) (storeWidth_int p _) rfl)
        (by intro addr st; simp [Spec.store])
  | .flags bs, t, hm, ht => by
      cases t <;> simp [hasTy] at ht
      rename_i n
      intro lvl x a off ss h
      have hword : ∀ i, i < (flagsRepr n).count → ∀ env m, eval env m x = some (.v (.flags bs)) →
          eval env m (.op (.flagsLower n) [x] [] i) = some (.c ⟨.i32, flagsWord bs i⟩) := by
        intro i hi env m hx
        simp [eval, hx, opSem, pureSem, hi]
      simp only [store] at h
      split at h
      · rename_i hr
        simp [pure, Except.pure, storeInt, hd, projN, hr, FlagsRepr.count] at h
        subst h
        exact writes_congr
          (writes_one p lvl x a (.flags bs) .i32_8 off _ ⟨.i32, flagsWord bs 0⟩ (flagsWord bs 0) 1
            (hword 0 (by simp [hr, FlagsRepr.count])) rfl rfl)
          (by intro addr st; simp [Spec.store, hr])
      · rename_i hr
        simp [pure, Except.pure, storeInt, hd, projN, hr, FlagsRepr.count] at h
        subst h
        exact writes_congr
          (writes_one p lvl x a (.flags bs) .i32_16 off _ ⟨.i32, flagsWord bs 0⟩ (flagsWord bs 0) 2
            (hword 0 (by simp [hr, FlagsRepr.count])) rfl rfl)
          (by intro addr st; simp [Spec.store, hr])
      · rename_i k hr
        have h' := pure_ok.mp h
        subst h'
        have hw := writes_words p lvl x a (.flags bs) off (flagsWord bs)
          (fun i => (projN (.flagsLower n) [x] [] (flagsRepr n).count).getD i (.inp 999)) k
          (by
            intro i hi env m hx
            have hi' : i < (flagsRepr n).count := by simpa [hr, FlagsRepr.count] using hi
            simpa [projN, hi'] using hword i hi' env m hx)
        exact writes_congr hw (by intro addr st; simp [Spec.store, hr, Nat.add_assoc])
  | .list vs, t, hm, ht => by
      cases t <;> simp [hasTy] at ht <;> simp [memFree] at hm
      rename_i e n
      intro lvl x a off ss h
      simp only [store, bind_ok] at h
      obtain ⟨body, hbody, hp'⟩ := h
      simp [pure, Except.pure] at hp'
      subst hp'
      have hn : n = vs.length := ht.1.symm
      subst hn
      have hel : ∀ w, w ∈ vs → Writes p (lvl + 1) (.elem (lvl + 1)) (.base (lvl + 1)) w body
          (fun b st => Spec.store p e w (b + off.at p) st) := by
        intro w hw
        exact store_sound p hp c w e hm (hasTyAll_mem e vs ht.2 w hw) (lvl + 1) _ _ off body hbody
      intro env s addr hpe hl hx ha
      subst hpe
      have ⟨m', hit, hq⟩ := flist_iter env.p lvl e off body env addr rfl hl vs hm vs 0 s (by simp) ht.2 hel
      refine ⟨(keyOf (.flistLowerMem e vs.length) [x, a], []) :: env.lets, m', ?_, ?_⟩
      · simp only [execStmts, exec, evalList_cons, evalList_nil, hx.here s.st.mem, ha.here s.st.mem,
          Option.bind_some, Option.map_some, execOp, ne_eq, not_true_eq_false, if_false, foldRange]
        simp only [Nat.zero_add] at hit
        rw [hit]
        simp [Env.bind, Env.withLets]
      · simpa [Spec.store] using hq
  | .record vs, t, hm, ht => by
      cases t <;> simp [hasTy] at ht <;> simp [memFree] at hm
      · rename_i fs
        intro lvl x a off ss h
        simp only [store] at h
        have hlen := hasTys_length fs vs ht
        rw [hlen] at h
        have := storeFields_sound p hp c vs fs hm ht lvl x a off 0 0 0
          (projN (.recordLower vs.length) [x] [] vs.length) (by simp [projN]) ss
          (by simpa [fieldOffs] using h)
          (fun env hx j hj => by
            simpa [projN, hj] using stable_proj env x (.recordLower vs.length) vs (.record vs) j hj
              (by intros; simp [opSem, pureSem]) hx)
        exact writes_congr this (by intro addr st; simp [Spec.store, curOf])
      · rename_i fs
        intro lvl x a off ss h
        simp only [store] at h
        have hlen := hasTys_length fs vs ht
        rw [hlen] at h
        have := storeFields_sound p hp c vs fs hm ht lvl x a off 0 0 0
          (projN (.tupleLower vs.length) [x] [] vs.length) (by simp [projN]) ss
          (by simpa [fieldOffs] using h)
          (fun env hx j hj => by
            simpa [projN, hj] using stable_proj env x (.tupleLower vs.length) vs (.record vs) j hj
              (by intros; simp [opSem, pureSem]) hx)
        exact writes_congr this (by intro addr st; simp [Spec.store, curOf])
  | .variant i pv, t, hm, ht => by
      have ihpv : ∀ t' v', pv = some v' → memFree t' = true → hasTy t' v' = true → StoreSound p c t' v' := by
        intro t' v' hpv hm' ht'
        subst hpv
        exact store_sound p hp c v' t' hm' ht'
      cases t <;> (try (simp [hasTy] at ht; done))
      · -- variant
        rename_i cs
        simp [memFree] at hm
        simp only [hasTy] at ht
        cases hci : cs[i]? with
        | none => simp [hci] at ht
        | some ci =>
          simp only [hci] at ht
          have hmc := memFreeCases_get cs i ci hm.2 hci
          intro lvl x a off ss h
          simp only [store, bind_ok] at h
          obtain ⟨arms, harms, hp'⟩ := h
          simp [pure, Except.pure] at hp'
          subst hp'
          have ⟨body, hbody, harm⟩ := storeArms_get c lvl (discriminant cs.length) a off
            (off + payloadOff (discriminant cs.length) cs) cs 0 arms harms i ci hci
          simp only [Nat.zero_add] at harm
          obtain ⟨x', v', hw1, hw2⟩ := arm_store_sound p hp c ci pv hmc ht
            (fun t' v' hc hv => by
              subst hc; subst hv
              simp [memFreeOpt] at hmc; simp [hasTyOpt] at ht
              exact ihpv t' v' rfl hmc ht)
            lvl x a (discriminant cs.length) off (off + payloadOff (discriminant cs.length) cs) i body hbody
          have := writes_variant p lvl x a (.variantLower cs.length []) (by intros; simp [execOp]) i pv arms _ harm
            x' v' _ hw1 hw2
          exact writes_congr this (by
            intro addr st
            simp [Spec.store, hci, Off.at_add, payloadOff_at p hp, Nat.add_assoc])
      · -- option
        rename_i t'
        simp [memFree] at hm
        intro lvl x a off ss h
        simp only [store, bind_ok] at h
        obtain ⟨body, hbody, hp'⟩ := h
        simp [pure, Except.pure] at hp'
        subst hp'
        cases pv with
        | none =>
          rcases i with _ | i
          · obtain ⟨x', v', hw1, hw2⟩ := arm_store_sound p hp c none none rfl rfl (fun _ _ hc _ => by simp at hc)
              lvl x a .u8 off (off + payloadOff .u8 [none, some t']) 0 [] rfl
            have := writes_variant p lvl x a (.optionLower []) (by intros; simp [execOp]) 0 none
              [armOfStore .u8 off a 0 [], armOfStore .u8 off a 1 body] _ (by simp [armOfStore]) x' v' _ hw1 hw2
            exact writes_congr this (by intro addr st; simp [Spec.store, Spec.storeOpt, IntRepr.size])
          · simp [hasTy] at ht
        | some v' =>
          rcases i with _ | _ | i
          · simp [hasTy] at ht
          · simp [hasTy] at ht
            obtain ⟨x', v'', hw1, hw2⟩ := arm_store_sound p hp c (some t') (some v') (by simpa [memFreeOpt] using hm) (by simpa [hasTyOpt] using ht)
              (fun t'' v3 hc hv => by
                simp at hc hv; subst hc; subst hv
                exact ihpv t' v' rfl hm ht)
              lvl x a .u8 off (off + payloadOff .u8 [none, some t']) 1 body (by simpa [storeArm] using hbody)
            have := writes_variant p lvl x a (.optionLower []) (by intros; simp [execOp]) 1 (some v')
              [armOfStore .u8 off a 0 [], armOfStore .u8 off a 1 body] _ (by simp [armOfStore]) x' v'' _ hw1 hw2
            exact writes_congr this (by
              intro addr st
              simp [Spec.store, Spec.storeOpt, IntRepr.size, Off.at_add, payloadOff_at p hp, Nat.add_assoc])
          · simp [hasTy] at ht
      · -- result
        rename_i ok err
        simp [memFree] at hm
        intro lvl x a off ss h
        simp only [store, bind_ok] at h
        obtain ⟨b0, hb0, b1, hb1, hp'⟩ := h
        simp [pure, Except.pure] at hp'
        subst hp'
        rcases i with _ | _ | i
        · simp [hasTy] at ht
          obtain ⟨x', v', hw1, hw2⟩ := arm_store_sound p hp c ok pv hm.1 ht
            (fun t'' v'' hc hv => by
              subst hc; subst hv
              simp [memFreeOpt] at hm; simp [hasTyOpt] at ht
              exact ihpv t'' v'' rfl hm.1 ht)
            lvl x a .u8 off (off + payloadOff .u8 [ok, err]) 0 b0 hb0
          have := writes_variant p lvl x a (.resultLower []) (by intros; simp [execOp]) 0 pv
            [armOfStore .u8 off a 0 b0, armOfStore .u8 off a 1 b1] _ (by simp [armOfStore]) x' v' _ hw1 hw2
          exact writes_congr this (by
            intro addr st
            simp [Spec.store, IntRepr.size, Off.at_add, payloadOff_at p hp, Nat.add_assoc])
        · simp [hasTy] at ht
          obtain ⟨x', v', hw1, hw2⟩ := arm_store_sound p hp c err pv hm.2 ht
            (fun t'' v'' hc hv => by
              subst hc; subst hv
              simp [memFreeOpt] at hm; simp [hasTyOpt] at ht
              exact ihpv t'' v'' rfl hm.2 ht)
            lvl x a .u8 off (off + payloadOff .u8 [ok, err]) 1 b1 hb1
          have := writes_variant p lvl x a (.resultLower []) (by intros; simp [execOp]) 1 pv
            [armOfStore .u8 off a 0 b0, armOfStore .u8 off a 1 b1] _ (by simp [armOfStore]) x' v' _ hw1 hw2
          exact writes_congr this (by
            intro addr st
            simp [Spec.store, IntRepr.size, Off.at_add, payloadOff_at p hp, Nat.add_assoc])
        · simp [hasTy] at ht
theorem storeFields_sound (p : Nat) (hp : p = 4 ∨ p = 8) (c : Cfg) : ∀ (vs : List Val) (ts : List Ty),
    memFreeAll ts = true → hasTys ts vs = true →
    ∀ (lvl : Nat) (x a : Expr) (off : Off) (i c4 c8 : Nat) (xs : List Expr), xs.length = vs.length →
      ∀ (ss : List Stmt),
      storeFields c lvl ts (List.zipWith Off.mk (fieldOffsets 4 c4 ts) (fieldOffsets 8 c8 ts)) xs a off = .ok ss →
      ∀ {v0 : Val} (_ : ∀ env, ValStable env x v0 → ∀ j (hj : j < vs.length), ValStable env (xs[j]!) vs[j]),
      Writes p lvl x a v0 ss (fun addr st => Spec.storeFields p ts vs (addr + off.at p) (curOf p c4 c8) st)
  | [], ts, _, ht, lvl, x, a, off, i, c4, c8, xs, _, ss, h, v0, _ => by
      cases ts <;> simp [hasTys] at ht
      simp [storeFields, pure, Except.pure] at h
      subst h
      exact writes_nil p lvl x a v0 _ (by intros; simp [Spec.storeFields])
  | v :: vs, ts, hm, ht, lvl, x, a, off, i, c4, c8, xs, hxl, ss, h, v0, hst => by
      cases ts with
      | nil => simp [hasTys] at ht
      | cons t ts =>
        cases xs with
        | nil => simp at hxl
        | cons x0 xs =>
          simp [hasTys] at ht
          simp [memFreeAll] at hm
          simp only [fieldOffsets, List.zipWith_cons_cons, storeFields, bind_ok] at h
          obtain ⟨s1, h1, s2, h2, hp'⟩ := h
          simp [pure, Except.pure] at hp'
          subst hp'
          have w1 : Writes p lvl x a v0 s1 (fun addr st => Spec.store p t v (addr + (off + Off.mk (alignTo c4 (alignment 4 t)) (alignTo c8 (alignment 8 t))).at p) st) :=
            writes_of_operand (fun env hx => by have h0 := hst env hx 0 (Nat.zero_lt_succ _); simpa [List.getElem_cons_zero] using h0)
              (store_sound p hp c v t hm.1 ht.1 lvl x0 a _ s1 h1)
          have w2 := storeFields_sound p hp c vs ts hm.2 ht.2 lvl x a off (i + 1) _ _ xs (by simpa using hxl) s2 h2
            (v0 := v0) (fun env hx j hj => by have h1 := hst env hx (j + 1) (Nat.succ_lt_succ hj); simpa [List.getElem_cons_succ] using h1)
          refine writes_congr (writes_append w1 w2 ?_) ?_
          · intro addr st st' hq
            exact storeFields_congr p vs ts _ _ _ _ hm.2 ht.2 hq
          · intro addr st
            rcases hp with rfl | rfl <;>
              simp [Spec.storeFields, curOf, Off.at_add, Off.at, Nat.add_assoc]
end

end Witverif.Abi
