import Witverif.Proofs.TypesEqBasic
import Witverif.Proofs.TypesEqUF
/-! Helper lemmas for C28, part 3: `is_structurally_equal` (model `eqF`) decides `StructEq`. -/
namespace Witverif.Text.TypesEq
open Witverif.Text.TypesEqSpec

/-! ### list lemmas -/

theorem map_eq_map_iff_zip {α β : Type} (f : α → β) :
    ∀ (l1 l2 : List α), l1.map f = l2.map f ↔
      l1.length = l2.length ∧ ∀ p ∈ l1.zip l2, f p.1 = f p.2 := by
  intro l1
  induction l1 with
  | nil => intro l2; cases l2 <;> simp
  | cons x xs ih =>
    intro l2
    cases l2 with
    | nil => simp
    | cons y ys =>
      simp only [List.map_cons, List.cons.injEq, ih, List.length_cons, List.zip_cons_cons,
        List.mem_cons, Nat.add_right_cancel_iff]
      constructor
      · rintro ⟨h1, h2, h3⟩
        refine ⟨h2, ?_⟩
        intro p hp
        rcases hp with rfl | hp
        · exact h1
        · exact h3 p hp
      · rintro ⟨h1, h2⟩
        exact ⟨h2 _ (Or.inl rfl), h1, fun p hp => h2 p (Or.inr hp)⟩

theorem map2_eq_iff_zip {α β γ : Type} (f : α → β) (g : α → γ) (l1 l2 : List α) :
    (l1.map f = l2.map f ∧ l1.map g = l2.map g) ↔
      l1.length = l2.length ∧ ∀ p ∈ l1.zip l2, f p.1 = f p.2 ∧ g p.1 = g p.2 := by
  rw [map_eq_map_iff_zip, map_eq_map_iff_zip]
  constructor
  · rintro ⟨⟨h1, h2⟩, _, h3⟩
    exact ⟨h1, fun p hp => ⟨h2 p hp, h3 p hp⟩⟩
  · rintro ⟨h1, h2⟩
    exact ⟨⟨h1, fun p hp => (h2 p hp).1⟩, h1, fun p hp => (h2 p hp).2⟩

theorem eq_iff_zip {α : Type} (l1 l2 : List α) :
    l1 = l2 ↔ l1.length = l2.length ∧ ∀ p ∈ l1.zip l2, p.1 = p.2 := by
  have := map_eq_map_iff_zip (fun x : α => x) l1 l2
  simpa using this

/-! ### stateful combinators -/

theorem allM_spec {α : Type} (f : UF → α → R) (P : α → Prop) [DecidablePred P] (I : UF → Prop) :
    ∀ (xs : List α),
      (∀ x ∈ xs, ∀ u, I u → ∃ u', f u x = some (decide (P x), u') ∧ I u') →
      ∀ u, I u → ∃ u', allM f u xs = some (decide (∀ x ∈ xs, P x), u') ∧ I u' := by
  intro xs
  induction xs with
  | nil => intro _ u hu; exact ⟨u, by simp [allM], hu⟩
  | cons x xs ih =>
    intro hf u hu
    obtain ⟨u1, h1, hu1⟩ := hf x (by simp) u hu
    simp only [allM, h1]
    by_cases hp : P x
    · simp only [hp, decide_true]
      obtain ⟨u2, h2, hu2⟩ := ih (fun y hy => hf y (by simp [hy])) u1 hu1
      refine ⟨u2, ?_, hu2⟩
      rw [h2]; simp [hp]
    · simp only [hp, decide_false]
      exact ⟨u1, by simp [hp], hu1⟩

theorem andM_spec (r : R) (k : UF → R) (P Q : Prop) [Decidable P] [Decidable Q] (I : UF → Prop)
    (hr : ∃ u1, r = some (decide P, u1) ∧ I u1)
    (hk : ∀ u1, I u1 → ∃ u2, k u1 = some (decide Q, u2) ∧ I u2) :
    ∃ u', andM r k = some (decide (P ∧ Q), u') ∧ I u' := by
  obtain ⟨u1, h1, hu1⟩ := hr
  subst h1
  by_cases hp : P
  · obtain ⟨u2, h2, hu2⟩ := hk u1 hu1
    refine ⟨u2, ?_, hu2⟩
    simp [andM, hp, h2]
  · exact ⟨u1, by simp [andM, hp], hu1⟩

/-! ### specification of each call -/

def osize : Option Ty → Nat
  | some t => t.size
  | none => 0

/-- Termination measure: every Rust call strictly decreases it. -/
def Call.measure : Call → Nat
  | .se a b => 4 * ((a + 1) + (b + 1))
  | .tt a b => 4 * (a.size + b.size) + 2
  | .it a b => 4 * ((a + 1) + b.size) + 1
  | .ot a b => 4 * (osize a + osize b) + 3

/-- all ids mentioned by the call are entries of the table -/
def Call.valid (n : Nat) : Call → Prop
  | .se a b => a < n ∧ b < n
  | .tt a b => a.size ≤ n ∧ b.size ≤ n
  | .it a b => a < n ∧ b.size ≤ n
  | .ot a b => osize a ≤ n ∧ osize b ≤ n

/-- `optional_types_equal` as a relation. -/
def OptEq (T : Table) : Option Ty → Option Ty → Prop
  | some a, some b => StructEq T a b
  | none, none => True
  | _, _ => False

instance (T : Table) : (a b : Option Ty) → Decidable (OptEq T a b)
  | some a, some b => inferInstanceAs (Decidable (StructEq T a b))
  | none, none => isTrue trivial
  | some _, none => isFalse id
  | none, some _ => isFalse id

def Call.spec (T : Table) : Call → Prop
  | .se a b => StructEq T (.id a) (.id b)
  | .tt a b => StructEq T a b
  | .it a b => StructEq T (.id a) b
  | .ot a b => OptEq T a b

instance (T : Table) : (c : Call) → Decidable (c.spec T)
  | .se a b => inferInstanceAs (Decidable (StructEq T (.id a) (.id b)))
  | .tt a b => inferInstanceAs (Decidable (StructEq T a b))
  | .it a b => inferInstanceAs (Decidable (StructEq T (.id a) b))
  | .ot a b => inferInstanceAs (Decidable (OptEq T a b))

/-- the state stays equivalent to `u0`: same roots, parents ≤ children -/
def Inv (u0 u : UF) : Prop := u.ParLe ∧ ∀ y, u.root y = u0.root y

theorem Inv.refl {u0 : UF} (h : u0.ParLe) : Inv u0 u0 := ⟨h, fun _ => rfl⟩

theorem Inv.trans {u0 u1 u2 : UF} (h1 : Inv u0 u1) (h2 : Inv u1 u2) : Inv u0 u2 :=
  ⟨h2.1, fun y => by rw [h2.2, h1.2]⟩

/-- Every pair the union-find currently identifies is structurally equal. -/
def Sound (T : Table) (u : UF) : Prop :=
  ∀ x y, x < T.length → y < T.length → u.root x = u.root y → StructEq T (.id x) (.id y)

/-! ### shapes of definitions -/

theorem shapeTy_shapes (T : Table) (t : Ty) : shapeTy (shapes T) t = shape T t := rfl

/-- the shape of an optional payload is never confused with a present one -/
theorem shape_ne_absent {T : Table} (hwf : WF T) : ∀ (t : Ty) (k : Shapes),
    shape T t ≠ .node .absent k := by
  intro t
  cases t with
  | prim p => intro k; simp [shape, shapeTy]
  | id i =>
    induction i using Nat.strongRecOn with
    | _ i ih =>
      intro k
      cases hd : T[i]? with
      | none =>
        have : (shapes T)[i]? = none := by
          rw [List.getElem?_eq_none_iff, shapes_length]
          exact List.getElem?_eq_none_iff.mp hd
        simp [shape, shapeTy, List.getD_eq_getElem?_getD, this]
      | some d =>
        rw [shape_id hwf hd]
        cases d with
        | alias t =>
          simp only [shapeDef, shapeTy_shapes]
          cases t with
          | prim p => simp [shape, shapeTy]
          | id j =>
            have hj : j < i := hwf.ref_lt hd (by simp [Def.refs])
            exact ih j hj k
        | _ => simp [shapeDef]

theorem shapeOpt_eq_iff {T : Table} (hwf : WF T) (a b : Option Ty) :
    shapeOpt (shapes T) a = shapeOpt (shapes T) b ↔ OptEq T a b := by
  cases a with
  | none =>
    cases b with
    | none => simp [OptEq]
    | some y =>
      simp only [shapeOpt, shapeTy_shapes, OptEq, iff_false]
      exact fun h => shape_ne_absent hwf y _ h.symm
  | some x =>
    cases b with
    | none =>
      simp only [shapeOpt, shapeTy_shapes, OptEq, iff_false]
      exact fun h => shape_ne_absent hwf x _ h
    | some y => simp [shapeOpt, shapeTy_shapes, OptEq, StructEq]

/-- the top label of a type whose definition is not an alias -/
def Def.isAlias : Def → Bool
  | .alias _ => true
  | _ => false

theorem shape_nonalias_ne_prim {T : Table} (hwf : WF T) {i : Nat} {d : Def} (hd : T[i]? = some d)
    (hna : d.isAlias = false) (p : Prim) : shape T (.id i) ≠ shape T (.prim p) := by
  rw [shape_id hwf hd]
  cases d <;> simp_all [shapeDef, shape, shapeTy, Def.isAlias]

theorem structEq_alias {T : Table} (hwf : WF T) {i : Nat} {t : Ty} (hd : T[i]? = some (.alias t))
    (x : Ty) : StructEq T (.id i) x ↔ StructEq T t x := by
  simp [StructEq, shape_id hwf hd, shapeDef, shapeTy_shapes]

theorem StructEq.symm {T : Table} {a b : Ty} (h : StructEq T a b) : StructEq T b a := Eq.symm h
theorem StructEq.trans {T : Table} {a b c : Ty} (h : StructEq T a b) (h' : StructEq T b c) :
    StructEq T a c := Eq.trans h h'
theorem StructEq.refl (T : Table) (a : Ty) : StructEq T a a := rfl
theorem structEq_comm {T : Table} {a b : Ty} : StructEq T a b ↔ StructEq T b a :=
  ⟨StructEq.symm, StructEq.symm⟩

/-! ### the match on the two definitions, and the four mutually recursive functions -/

theorem R_congr {P Q : Prop} [Decidable P] [Decidable Q] (h : P ↔ Q) {I : UF → Prop} {r : R} :
    (∃ u', r = some (decide P, u') ∧ I u') → ∃ u', r = some (decide Q, u') ∧ I u' := by
  rw [decide_eq_decide.mpr h]; exact id

theorem R_false {Q : Prop} [Decidable Q] (h : ¬ Q) {I : UF → Prop} {u : UF} (hu : I u) :
    ∃ u', (some (false, u) : R) = some (decide Q, u') ∧ I u' :=
  ⟨u, by simp [h], hu⟩

theorem structural_alias_right (rec : UF → Call → R) (a b : Nat) (u : UF) (da : Def) (tb : Ty)
    (h : da.isAlias = false) : structural rec a b u da (.alias tb) = rec u (.it a tb) := by
  cases da <;> simp_all [structural, Def.isAlias]

theorem structural_spec (T : Table) (hwf : WF T) (I : UF → Prop) (rec : UF → Call → R) (a b : Nat) (da db : Def) (ha : T[a]? = some da) (hb : T[b]? = some db)
    (hrec : ∀ c, c.valid T.length → c.measure < 4 * ((a + 1) + (b + 1)) →
       ∀ u, I u → ∃ u', rec u c = some (decide (c.spec T), u') ∧ I u') :
    ∀ u, I u → ∃ u', structural rec a b u da db
        = some (decide (StructEq T (.id a) (.id b)), u') ∧ I u' := by
  intro u hu
  have han : a < T.length := (List.getElem?_eq_some_iff.mp ha).1
  have hbn : b < T.length := (List.getElem?_eq_some_iff.mp hb).1
  have hra : ∀ t ∈ da.refs, t.size ≤ a := fun t ht => hwf.ref_size_le ha ht
  have hrb : ∀ t ∈ db.refs, t.size ≤ b := fun t ht => hwf.ref_size_le hb ht
  -- the recursive call on two component types
  have htt : ∀ (x y : Ty), x.size ≤ a → y.size ≤ b → ∀ u, I u →
      ∃ u', rec u (.tt x y) = some (decide (StructEq T x y), u') ∧ I u' := by
    intro x y hx hy u hu
    exact hrec (.tt x y) ⟨by omega, by omega⟩ (by simp only [Call.measure]; omega) u hu
  have hot : ∀ (x y : Option Ty), osize x ≤ a → osize y ≤ b → ∀ u, I u →
      ∃ u', rec u (.ot x y) = some (decide (OptEq T x y), u') ∧ I u' := by
    intro x y hx hy u hu
    exact hrec (.ot x y) ⟨by omega, by omega⟩ (by simp only [Call.measure]; omega) u hu
  by_cases hda0 : da.isAlias = true
  · cases da <;> simp [Def.isAlias] at hda0
    rename_i ta
    have hs : ta.size ≤ a := hra ta (by simp [Def.refs])
    have hiff : StructEq T (.id b) ta ↔ StructEq T (.id a) (.id b) := by
      rw [structEq_alias hwf ha]; exact structEq_comm
    simp only [structural]
    apply R_congr hiff
    exact hrec (.it b ta) ⟨hbn, by omega⟩ (by simp only [Call.measure]; omega) u hu
  have hda : da.isAlias = false := by simpa using hda0
  clear hda0
  by_cases hdb0 : db.isAlias = true
  · cases db <;> simp [Def.isAlias] at hdb0
    rename_i tb
    have hs : tb.size ≤ b := hrb tb (by simp [Def.refs])
    have hiff : StructEq T (.id a) tb ↔ StructEq T (.id a) (.id b) := by
      rw [structEq_comm (a := .id a) (b := .id b), structEq_alias hwf hb]; exact structEq_comm
    rw [structural_alias_right rec a b u da tb hda]
    apply R_congr hiff
    exact hrec (.it a tb) ⟨han, by omega⟩ (by simp only [Call.measure]; omega) u hu
  have hdb : db.isAlias = false := by simpa using hdb0
  clear hdb0
  have hse : StructEq T (.id a) (.id b) ↔ shapeDef (shapes T) a da = shapeDef (shapes T) b db := by
    simp only [StructEq, shape_id hwf ha, shape_id hwf hb]
  apply R_congr hse.symm
  cases da <;> (try (simp [Def.isAlias] at hda)) <;> cases db <;> (try (simp [Def.isAlias] at hdb)) <;>
    first
    | (simp only [structural]; exact R_false (by simp [shapeDef]) hu)
    | skip
  case record.record fa fb =>
    have hiff : (fa.length = fb.length ∧ ∀ p ∈ fa.zip fb, p.1.1 = p.2.1 ∧ StructEq T p.1.2 p.2.2) ↔
        shapeDef (shapes T) a (.record fa) = shapeDef (shapes T) b (.record fb) := by
      simp only [shapeDef, Shape.node.injEq, Label.record.injEq, Shapes.ofList_inj, shapeTy_shapes]
      rw [map2_eq_iff_zip (fun f : Name × Ty => f.1) (fun f => shape T f.2)]
      rfl
    apply R_congr hiff
    simp only [structural]
    by_cases hl : fa.length = fb.length
    · simp only [hl, if_true]
      apply R_congr (show (∀ p ∈ fa.zip fb, p.1.1 = p.2.1 ∧ StructEq T p.1.2 p.2.2) ↔ _ from by simp)
      apply allM_spec _ (fun p : (Name × Ty) × (Name × Ty) => p.1.1 = p.2.1 ∧ StructEq T p.1.2 p.2.2) I _ _ u hu
      intro p hp u hu
      obtain ⟨x, y⟩ := p
      have hm := List.of_mem_zip hp
      have hx : x.2.size ≤ a := hra _ (by simp only [Def.refs, List.mem_map]; exact ⟨x, hm.1, rfl⟩)
      have hy : y.2.size ≤ b := hrb _ (by simp only [Def.refs, List.mem_map]; exact ⟨y, hm.2, rfl⟩)
      by_cases hn : x.1 = y.1
      · simp only [hn, if_true]
        apply R_congr (show StructEq T x.2 y.2 ↔ _ from by simp)
        exact htt x.2 y.2 hx hy u hu
      · simp only [hn, if_false]
        exact R_false (by simp) hu
    · simp only [hl, if_false]
      exact R_false (by simp) hu
  case variant.variant ca cb =>
    have hiff : (ca.length = cb.length ∧ ∀ p ∈ ca.zip cb, p.1.1 = p.2.1 ∧ OptEq T p.1.2 p.2.2) ↔
        shapeDef (shapes T) a (.variant ca) = shapeDef (shapes T) b (.variant cb) := by
      simp only [shapeDef, Shape.node.injEq, Label.variant.injEq, Shapes.ofList_inj]
      rw [map2_eq_iff_zip (fun f : Name × Option Ty => f.1) (fun f => shapeOpt (shapes T) f.2)]
      simp only [shapeOpt_eq_iff hwf]
    have hoa : ∀ c ∈ ca, osize c.2 ≤ a := by
      intro c hc
      cases h : c.2 with
      | none => simp [osize]
      | some x =>
        simp only [osize]
        apply hra
        simp only [Def.refs, List.mem_flatMap]
        exact ⟨c, hc, by simp [h, optTys]⟩
    have hob : ∀ c ∈ cb, osize c.2 ≤ b := by
      intro c hc
      cases h : c.2 with
      | none => simp [osize]
      | some x =>
        simp only [osize]
        apply hrb
        simp only [Def.refs, List.mem_flatMap]
        exact ⟨c, hc, by simp [h, optTys]⟩
    apply R_congr hiff
    simp only [structural]
    by_cases hl : ca.length = cb.length
    · simp only [hl, if_true]
      apply R_congr (show (∀ p ∈ ca.zip cb, p.1.1 = p.2.1 ∧ OptEq T p.1.2 p.2.2) ↔ _ from by simp)
      apply allM_spec _ (fun p : (Name × Option Ty) × (Name × Option Ty) => p.1.1 = p.2.1 ∧ OptEq T p.1.2 p.2.2) I _ _ u hu
      intro p hp u hu
      obtain ⟨x, y⟩ := p
      have hm := List.of_mem_zip hp
      by_cases hn : x.1 = y.1
      · simp only [hn, if_true]
        apply R_congr (show OptEq T x.2 y.2 ↔ _ from by simp)
        exact hot x.2 y.2 (hoa x hm.1) (hob y hm.2) u hu
      · simp only [hn, if_false]
        exact R_false (by simp) hu
    · simp only [hl, if_false]
      exact R_false (by simp) hu
  case enum.enum ea eb =>
    simp only [structural, shapeDef, Shape.node.injEq, Label.enum.injEq, and_true]
    refine ⟨u, ?_, hu⟩
    have : (decide (ea.length = eb.length) && (ea.zip eb).all (fun p => decide (p.1 = p.2))) = decide (ea = eb) := by
      rw [Bool.eq_iff_iff]; simp [eq_iff_zip ea eb]
    rw [this]
  case flags.flags ea eb =>
    simp only [structural, shapeDef, Shape.node.injEq, Label.flags.injEq, and_true]
    refine ⟨u, ?_, hu⟩
    have : (decide (ea.length = eb.length) && (ea.zip eb).all (fun p => decide (p.1 = p.2))) = decide (ea = eb) := by
      rw [Bool.eq_iff_iff]; simp [eq_iff_zip ea eb]
    rw [this]
  case tuple.tuple ta tb =>
    have hiff : (ta.length = tb.length ∧ ∀ p ∈ ta.zip tb, StructEq T p.1 p.2) ↔
        shapeDef (shapes T) a (.tuple ta) = shapeDef (shapes T) b (.tuple tb) := by
      simp only [shapeDef, Shape.node.injEq, true_and, Shapes.ofList_inj]
      rw [map_eq_map_iff_zip]
      rfl
    apply R_congr hiff
    simp only [structural]
    by_cases hl : ta.length = tb.length
    · simp only [hl, if_true]
      apply R_congr (show (∀ p ∈ ta.zip tb, StructEq T p.1 p.2) ↔ _ from by simp)
      apply allM_spec _ (fun p : Ty × Ty => StructEq T p.1 p.2) I _ _ u hu
      intro p hp u hu
      obtain ⟨x, y⟩ := p
      have hm := List.of_mem_zip hp
      exact htt x y (hra _ (by simpa [Def.refs] using hm.1)) (hrb _ (by simpa [Def.refs] using hm.2)) u hu
    · simp only [hl, if_false]
      exact R_false (by simp) hu
  case list.list la lb =>
    simp only [structural]
    apply R_congr (show StructEq T la lb ↔ _ from by simp [shapeDef, Shapes.ofList, StructEq, shapeTy_shapes])
    exact htt la lb (hra _ (by simp [Def.refs])) (hrb _ (by simp [Def.refs])) u hu
  case option.option la lb =>
    simp only [structural]
    apply R_congr (show StructEq T la lb ↔ _ from by simp [shapeDef, Shapes.ofList, StructEq, shapeTy_shapes])
    exact htt la lb (hra _ (by simp [Def.refs])) (hrb _ (by simp [Def.refs])) u hu
  case fixedList.fixedList la sa lb sb =>
    simp only [structural]
    by_cases hs : sa = sb
    · simp only [hs, if_true]
      apply R_congr (show StructEq T la lb ↔ _ from by simp [shapeDef, Shapes.ofList, StructEq, shapeTy_shapes])
      exact htt la lb (hra _ (by simp [Def.refs])) (hrb _ (by simp [Def.refs])) u hu
    · simp only [hs, if_false]
      exact R_false (by simp [shapeDef, hs]) hu
  case result.result oka erra okb errb =>
    simp only [structural]
    apply R_congr (show (OptEq T oka okb ∧ OptEq T erra errb) ↔ _ from by
      simp [shapeDef, Shapes.ofList, shapeOpt_eq_iff hwf])
    have h1 : osize oka ≤ a := by cases oka <;> simp [osize]; exact hra _ (by simp [Def.refs, optTys])
    have h2 : osize okb ≤ b := by cases okb <;> simp [osize]; exact hrb _ (by simp [Def.refs, optTys])
    have h3 : osize erra ≤ a := by cases erra <;> simp [osize]; exact hra _ (by simp [Def.refs, optTys])
    have h4 : osize errb ≤ b := by cases errb <;> simp [osize]; exact hrb _ (by simp [Def.refs, optTys])
    exact andM_spec _ _ _ _ I (hot oka okb h1 h2 u hu) (fun u1 hu1 => hot erra errb h3 h4 u1 hu1)
  case map.map ak av bk bv =>
    simp only [structural]
    apply R_congr (show (StructEq T ak bk ∧ StructEq T av bv) ↔ _ from by
      simp [shapeDef, Shapes.ofList, StructEq, shapeTy_shapes])
    exact andM_spec _ _ _ _ I (htt ak bk (hra _ (by simp [Def.refs])) (hrb _ (by simp [Def.refs])) u hu)
      (fun u1 hu1 => htt av bv (hra _ (by simp [Def.refs])) (hrb _ (by simp [Def.refs])) u1 hu1)
  case future.future pa pb =>
    simp only [structural]
    apply R_congr (show OptEq T pa pb ↔ _ from by simp [shapeDef, Shapes.ofList, shapeOpt_eq_iff hwf])
    have h1 : osize pa ≤ a := by cases pa <;> simp [osize]; exact hra _ (by simp [Def.refs, optTys])
    have h2 : osize pb ≤ b := by cases pb <;> simp [osize]; exact hrb _ (by simp [Def.refs, optTys])
    exact hot pa pb h1 h2 u hu
  case stream.stream pa pb =>
    simp only [structural]
    apply R_congr (show OptEq T pa pb ↔ _ from by simp [shapeDef, Shapes.ofList, shapeOpt_eq_iff hwf])
    have h1 : osize pa ≤ a := by cases pa <;> simp [osize]; exact hra _ (by simp [Def.refs, optTys])
    have h2 : osize pb ≤ b := by cases pb <;> simp [osize]; exact hrb _ (by simp [Def.refs, optTys])
    exact hot pa pb h1 h2 u hu
  case own.own ra rb =>
    simp only [structural]
    apply R_congr (show StructEq T (.id ra) (.id rb) ↔ _ from by simp [shapeDef, Shapes.ofList, StructEq, shapeTy_shapes])
    have h1 : (Ty.id ra).size ≤ a := hra _ (by simp [Def.refs])
    have h2 : (Ty.id rb).size ≤ b := hrb _ (by simp [Def.refs])
    simp only [Ty.size] at h1 h2
    exact hrec (.se ra rb) ⟨by omega, by omega⟩ (by simp only [Call.measure]; omega) u hu
  case borrow.borrow ra rb =>
    simp only [structural]
    apply R_congr (show StructEq T (.id ra) (.id rb) ↔ _ from by simp [shapeDef, Shapes.ofList, StructEq, shapeTy_shapes])
    have h1 : (Ty.id ra).size ≤ a := hra _ (by simp [Def.refs])
    have h2 : (Ty.id rb).size ≤ b := hrb _ (by simp [Def.refs])
    simp only [Ty.size] at h1 h2
    exact hrec (.se ra rb) ⟨by omega, by omega⟩ (by simp only [Call.measure]; omega) u hu
  case resource.resource =>
    simp only [structural, shapeDef]
    exact ⟨u, by simp, hu⟩

theorem eqF_correct (T : Table) (hwf : WF T) (u0 : UF) (hs : Sound T u0) :
    ∀ (fuel : Nat) (c : Call), c.valid T.length → c.measure < fuel →
      ∀ u, Inv u0 u → ∃ u', eqF T fuel u c = some (decide (c.spec T), u') ∧ Inv u0 u' := by
  intro fuel
  induction fuel with
  | zero => intro c _ h; omega
  | succ f ih =>
    intro c hv hm u hu
    cases c with
    | se a b =>
      obtain ⟨han, hbn⟩ := hv
      have ha : T[a]? = some T[a] := by simp [han]
      have hb : T[b]? = some T[b] := by simp [hbn]
      obtain ⟨u1, h1, hp1, hr1⟩ := findT_spec u a hu.1
      obtain ⟨u2, h2, hp2, hr2⟩ := findT_spec u1 b hp1
      have hu2 : Inv u0 u2 := ⟨hp2, fun y => by rw [hr2, hr1, hu.2]⟩
      simp only [eqF, ha, hb, h1, h2]
      by_cases he : u.root a = u1.root b
      · simp only [he, if_true]
        have : StructEq T (.id a) (.id b) :=
          hs a b han hbn (by rw [← hu.2, ← hu.2 b, ← hr1 b]; exact he)
        exact ⟨u2, by simp [Call.spec, this], hu2⟩
      · simp only [he, if_false]
        simp only [Call.measure] at hm
        exact structural_spec T hwf (Inv u0) (eqF T f) a b T[a] T[b] ha hb
          (fun c hv hm' u hu => ih c hv (by omega) u hu) u2 hu2
    | tt a b =>
      obtain ⟨hsa, hsb⟩ := hv
      simp only [Call.measure] at hm
      cases a with
      | id i =>
        simp only [eqF]
        have hi : (Ty.id i).size = i + 1 := rfl
        rw [hi] at hsa hm
        exact ih (.it i b) ⟨by omega, hsb⟩ (by simp only [Call.measure]; omega) u hu
      | prim p =>
        cases b with
        | id j =>
          simp only [eqF]
          simp only [Ty.size] at hsb hm
          apply R_congr (show StructEq T (.id j) (.prim p) ↔ _ from structEq_comm)
          exact ih (.it j (.prim p)) ⟨by omega, by simp [Ty.size]⟩
            (by simp only [Call.measure, Ty.size]; omega) u hu
        | prim q =>
          simp only [eqF]
          exact ⟨u, by simp [Call.spec, StructEq, shape, shapeTy], hu⟩
    | it a b =>
      obtain ⟨han, hsb⟩ := hv
      simp only [Call.measure] at hm
      obtain ⟨d, ha⟩ : ∃ d, T[a]? = some d := ⟨T[a], by simp [han]⟩
      simp only [eqF, ha]
      by_cases hal0 : d.isAlias = true
      · cases d <;> simp [Def.isAlias] at hal0
        rename_i ta
        have hs' : ta.size ≤ a := hwf.ref_size_le ha (by simp [Def.refs])
        simp only []
        apply R_congr (show StructEq T ta b ↔ _ from (structEq_alias hwf ha b).symm)
        exact ih (.tt ta b) ⟨by omega, hsb⟩ (by simp only [Call.measure]; omega) u hu
      · have hal : d.isAlias = false := by simpa using hal0
        clear hal0
        cases b with
        | id j =>
          have hj : (Ty.id j).size = j + 1 := rfl
          rw [hj] at hsb hm
          cases d <;> simp [Def.isAlias] at hal <;> simp only [] <;>
            exact ih (.se a j) ⟨han, by omega⟩ (by simp only [Call.measure]; omega) u hu
        | prim p =>
          have hne := shape_nonalias_ne_prim hwf ha hal p
          cases d <;> simp [Def.isAlias] at hal <;> simp only [] <;>
            exact R_false hne hu
    | ot a b =>
      obtain ⟨hsa, hsb⟩ := hv
      simp only [Call.measure] at hm
      cases a <;> cases b <;> simp only [eqF]
      · exact ⟨u, by rw [decide_eq_true (show Call.spec T (.ot none none) from trivial)], hu⟩
      · exact R_false (fun h => h) hu
      · exact R_false (fun h => h) hu
      · rename_i x y
        simp only [osize] at hsa hsb hm
        exact ih (.tt x y) ⟨hsa, hsb⟩ (by simp only [Call.measure]; omega) u hu


end Witverif.Text.TypesEq
