import Witverif.Proofs.AbiStoreA
/-! C01: ledger keys of the allocating lowerings are never shadowed by the stores that follow them;
the pointer/length stores after an allocating lowering. -/
namespace Witverif.Abi
open Spec

theorem lit_LengthStore : "LengthStore".toList = ['L','e','n','g','t','h','S','t','o','r','e'] := by decide
theorem lit_StringLower : "StringLower ".toList = ['S','t','r','i','n','g','L','o','w','e','r',' '] := by decide
theorem lit_ListLower : "ListLower ".toList = ['L','i','s','t','L','o','w','e','r',' '] := by decide
theorem lit_ListCanonLower : "ListCanonLower ".toList = ['L','i','s','t','C','a','n','o','n','L','o','w','e','r',' '] := by decide
theorem lit_MapLower : "MapLower ".toList = ['M','a','p','L','o','w','e','r',' '] := by decide

theorem opstr_store_len (off : Off) : (Op.store .len off).str = "LengthStore" ++ " " ++ off.str := rfl
theorem opstr_stringLower (r : Bool) : (Op.stringLower r).str = "StringLower " ++ reallocStr r := rfl
theorem opstr_listLower (e : Ty) (r : Bool) : (Op.listLower e r).str = "ListLower " ++ e.str ++ " " ++ reallocStr r := rfl
theorem opstr_listCanonLower (e : Ty) (r : Bool) :
    (Op.listCanonLower e r).str = "ListCanonLower " ++ e.str ++ " " ++ reallocStr r := rfl
theorem opstr_mapLower (k v : Ty) (r : Bool) :
    (Op.mapLower k v r).str = "MapLower " ++ k.str ++ " " ++ v.str ++ " " ++ reallocStr r := rfl

theorem key_store_len_take2 (off : Off) (xs : List Expr) :
    (keyOf (.store .len off) xs).toList.take 2 = ['L', 'e'] := by
  unfold keyOf
  rw [opstr_store_len]
  simp only [String.toList_append]
  rw [lit_LengthStore]
  simp

theorem key_stringLower_take2 (r : Bool) (xs : List Expr) :
    (keyOf (.stringLower r) xs).toList.take 2 = ['S', 't'] := by
  unfold keyOf
  rw [opstr_stringLower]
  simp only [String.toList_append]
  rw [lit_StringLower]
  simp

theorem key_listLower_take2 (e : Ty) (r : Bool) (xs : List Expr) :
    (keyOf (.listLower e r) xs).toList.take 2 = ['L', 'i'] := by
  unfold keyOf
  rw [opstr_listLower]
  simp only [String.toList_append]
  rw [lit_ListLower]
  simp

theorem key_listCanonLower_take2 (e : Ty) (r : Bool) (xs : List Expr) :
    (keyOf (.listCanonLower e r) xs).toList.take 2 = ['L', 'i'] := by
  unfold keyOf
  rw [opstr_listCanonLower]
  simp only [String.toList_append]
  rw [lit_ListCanonLower]
  simp

theorem key_mapLower_take2 (k v : Ty) (r : Bool) (xs : List Expr) :
    (keyOf (.mapLower k v r) xs).toList.take 2 = ['M', 'a'] := by
  unfold keyOf
  rw [opstr_mapLower]
  simp only [String.toList_append]
  rw [lit_MapLower]
  simp

/-- an operation whose ledger key cannot be shadowed by a `LengthStore` -/
def NotLenStore (o : Op) : Prop := ∀ xs, (keyOf o xs).toList.take 2 ≠ ['L', 'e']

theorem notLen_stringLower (r : Bool) : NotLenStore (.stringLower r) := by
  intro xs; rw [key_stringLower_take2]; decide
theorem notLen_listLower (e : Ty) (r : Bool) : NotLenStore (.listLower e r) := by
  intro xs; rw [key_listLower_take2]; decide
theorem notLen_listCanonLower (e : Ty) (r : Bool) : NotLenStore (.listCanonLower e r) := by
  intro xs; rw [key_listCanonLower_take2]; decide
theorem notLen_mapLower (k v : Ty) (r : Bool) : NotLenStore (.mapLower k v r) := by
  intro xs; rw [key_mapLower_take2]; decide

theorem key_len_ne (o : Op) (h : NotLenStore o) (off : Off) (ys xs : List Expr) :
    (keyOf (.store .len off) ys == keyOf o xs) = false := by
  apply beq_eq_false_iff_ne.mpr
  intro e
  have := key_store_len_take2 off ys
  rw [e] at this
  exact h xs this

/-- the two stores that follow an allocating lowering write the length and the pointer -/
theorem exec_ptr_len (p : Nat) (hp4 : p = 4 ∨ p = 8) (o : Op) (ho : NotLenStore o) (x a : Expr) (off : Off)
    (env : Env) (s1 : MSt) (addr ptr n : Nat) (rest : List (String × List MV))
    (hlets : env.lets = (keyOf o [x], [.c (pcv p ptr), .c (pcv p n)]) :: rest) (hpe : env.p = p)
    (ha : AddrStableM env a addr) :
    ∃ ls, execStmts env s1 [stS .len (off + Off.ptrs 1) (.res 1 o [x]) a, stS .ptr off (.res 0 o [x]) a]
      = some (env.withLets ls,
          s1.setMem ((s1.st.mem.storeLE (addr + off.at p + p) n p).storeLE (addr + off.at p) ptr p)) := by
  subst hpe
  have hr1 : ∀ m, eval env m (.res 1 o [x]) = some (.c (pcv env.p n)) := by
    intro m; simp [eval, hlets]
  have ha1 := ha.here s1.st.mem
  have hw : ∀ k, (k = StoreKind.len ∨ k = StoreKind.ptr) → storeWidth env.p k = env.p := by
    intro k hk; rcases hk with rfl | rfl <;> rfl
  have e1 : exec env s1 (stS .len (off + Off.ptrs 1) (.res 1 o [x]) a) =
      some (env.bind (.store .len (off + Off.ptrs 1)) [.res 1 o [x], a] [],
        s1.setMem (s1.st.mem.storeLE (addr + off.at env.p + env.p) n env.p)) := by
    simp [exec, stS, hr1, ha1, execOp, pcv, storeWidth, Off.at_add, Off.ptrs_at env.p hp4, Nat.add_assoc]
  have hr0 : ∀ m, eval (env.bind (.store .len (off + Off.ptrs 1)) [.res 1 o [x], a] []) m (.res 0 o [x])
      = some (.c (pcv env.p ptr)) := by
    intro m
    simp [eval, Env.bind, hlets, key_len_ne o ho]
  have ha2 : eval (env.bind (.store .len (off + Off.ptrs 1)) [.res 1 o [x], a] [])
      (s1.setMem (s1.st.mem.storeLE (addr + off.at env.p + env.p) n env.p)).st.mem a = some (.c ⟨ptrFT env.p, addr⟩) := by
    have := ha [] ((keyOf (.store .len (off + Off.ptrs 1)) [.res 1 o [x], a], []) :: env.lets)
      (s1.setMem (s1.st.mem.storeLE (addr + off.at env.p + env.p) n env.p)).st.mem
    simpa [extend_nil, Env.bind, Env.withLets] using this
  have e2 : exec (env.bind (.store .len (off + Off.ptrs 1)) [.res 1 o [x], a] [])
      (s1.setMem (s1.st.mem.storeLE (addr + off.at env.p + env.p) n env.p)) (stS .ptr off (.res 0 o [x]) a) =
      some ((env.bind (.store .len (off + Off.ptrs 1)) [.res 1 o [x], a] []).bind (.store .ptr off) [.res 0 o [x], a] [],
        s1.setMem ((s1.st.mem.storeLE (addr + off.at env.p + env.p) n env.p).storeLE (addr + off.at env.p) ptr env.p)) := by
    have hp' : (env.bind (.store .len (off + Off.ptrs 1)) [.res 1 o [x], a] []).p = env.p := rfl
    simp only [exec, stS, evalList_cons, evalList_nil, hr0, ha2, Option.bind_some, Option.map_some, execOp, hp']
    simp [pcv, storeWidth, setMem_setMem, MSt.setMem]
  refine ⟨(keyOf (.store .ptr off) [.res 0 o [x], a], []) ::
    (keyOf (.store .len (off + Off.ptrs 1)) [.res 1 o [x], a], []) :: env.lets, ?_⟩
  simp only [execStmts, e1, e2, Option.bind_some]
  rfl

end Witverif.Abi
