import Witverif.Proofs.AbiStoreA3
/-! C01: `store_soundA` — lowering to memory of ALL types. -/
namespace Witverif.Abi
open Spec

/-- the statements of one arm (discriminant store, then the payload) do what the spec does -/
theorem arm_store_soundA (p : Nat) (hp : p = 4 ∨ p = 8) (c : Cfg) (o : Option Ty) (pv : Option Val)
    (ht : hasTyOpt o pv = true)
    (ih : ∀ t v, o = some t → pv = some v → StoreSoundA p c t v)
    (lvl : Nat) (x a : Expr) (tag : IntRepr) (off poff : Off) (i : Nat) (body : List Stmt)
    (hbody : storeArm c lvl o a poff = .ok body) :
    ∃ (x' : Expr) (v' : Val),
      (∀ env, env.frames.length = lvl + 1 → ValStable env x (.variant i pv) →
        ValStable (env.extend [{ payload := pv.map MV.v }]) x' v') ∧
      WritesA p (lvl + 1) x' a v' (storeInt tag off (.i32 i) a :: body)
        (fun addr st => Spec.storeOpt p o pv (addr + poff.at p)
          { st with mem := st.mem.storeLE (addr + off.at p) i tag.size }) := by
  cases o with
  | none =>
    cases pv with
    | some v => simp [hasTyOpt] at ht
    | none =>
      simp [storeArm, pure, Except.pure] at hbody
      subst hbody
      refine ⟨x, .variant i none, fun env _ hx => hx.extend _, ?_⟩
      exact writesA_congr (writesA_of_writes (writes_disc p (lvl + 1) x a _ tag off i)) (by intros; simp [Spec.storeOpt])
  | some t =>
    cases pv with
    | none => simp [hasTyOpt] at ht
    | some v =>
      simp [hasTyOpt] at ht
      simp only [storeArm] at hbody
      refine ⟨.pl (lvl + 1), v, fun env hl _ => stable_pl env lvl hl v, ?_⟩
      have w1 := writesA_of_writes (writes_disc p (lvl + 1) (.pl (lvl + 1)) a v tag off i)
      have w2 := ih t v rfl rfl (lvl + 1) (.pl (lvl + 1)) a poff body hbody
      have := writesA_append w1 w2 (by intro addr st st' hq; exact store_congrA p v t _ _ _ ht hq)
      exact writesA_congr this (by intros; simp [Spec.storeOpt])

theorem memFree_of_leaf (t : Ty) (v : Val) (ht : hasTy t v = true)
    (hv : match v with
      | .bool _ | .int _ | .f32 _ | .f64 _ | .char _ | .handle _ | .flags _ => True
      | _ => False) : memFree t = true := by
  cases v <;> simp at hv <;> cases t <;> simp [hasTy] at ht <;> simp [memFree]

set_option maxHeartbeats 1600000 in
mutual
theorem store_soundA (p : Nat) (hp : p = 4 ∨ p = 8) (c : Cfg) : ∀ (v : Val) (t : Ty),
    hasTy t v = true → StoreSoundA p c t v
  | .bool b, t, ht => fun lvl x a off ss h =>
      writesA_of_writes (store_sound p hp c _ t (memFree_of_leaf t _ ht trivial) ht lvl x a off ss h)
  | .int n, t, ht => fun lvl x a off ss h =>
      writesA_of_writes (store_sound p hp c _ t (memFree_of_leaf t _ ht trivial) ht lvl x a off ss h)
  | .f32 b, t, ht => fun lvl x a off ss h =>
      writesA_of_writes (store_sound p hp c _ t (memFree_of_leaf t _ ht trivial) ht lvl x a off ss h)
  | .f64 b, t, ht => fun lvl x a off ss h =>
      writesA_of_writes (store_sound p hp c _ t (memFree_of_leaf t _ ht trivial) ht lvl x a off ss h)
  | .char ch, t, ht => fun lvl x a off ss h =>
      writesA_of_writes (store_sound p hp c _ t (memFree_of_leaf t _ ht trivial) ht lvl x a off ss h)
  | .handle hd, t, ht => fun lvl x a off ss h =>
      writesA_of_writes (store_sound p hp c _ t (memFree_of_leaf t _ ht trivial) ht lvl x a off ss h)
  | .enum i, t, ht => by
      cases t <;> simp [hasTy] at ht
      rename_i n
      intro lvl x a off ss h
      simp [store, pure, Except.pure] at h
      subst h
      unfold storeInt
      exact writesA_of_writes (writes_congr
        (writes_one p lvl x a (.enum i) _ off (pure1 (.enumLower n) [x]) ⟨.i32, i⟩ i (discriminant n).size
          (eval_pure1_of _ x _ _ (by intros; simp [opSem, pureSem])) (storeWidth_int p _) rfl)
        (by intro addr st; simp [Spec.store]))
  | .flags bs, t, ht => fun lvl x a off ss h =>
      writesA_of_writes (store_sound p hp c _ t (memFree_of_leaf t _ ht trivial) ht lvl x a off ss h)
  | .str bs, t, ht => by
      cases t <;> simp [hasTy] at ht
      intro lvl x a off ss h
      simp [store, pure, Except.pure] at h
      subst h
      intro env s addr hpe hl hx ha
      subst hpe
      have hexec : exec env s (.eff (.stringLower c.realloc) [x] []) =
          some (env.bind (.stringLower c.realloc) [x]
              [.c (pcv env.p (s.alloc bs.length 1).1), .c (pcv env.p bs.length)],
            (if c.realloc then ((s.alloc bs.length 1).2.setMem (storeBytes (s.alloc bs.length 1).2.st.mem (s.alloc bs.length 1).1 bs))
              else { ((s.alloc bs.length 1).2.setMem (storeBytes (s.alloc bs.length 1).2.st.mem (s.alloc bs.length 1).1 bs)) with
                borrowed := ((s.alloc bs.length 1).1, bs.length, 1) :: (s.alloc bs.length 1).2.borrowed })) := by
        simp only [exec, evalList_cons, evalList_nil, hx.here s.st.mem, Option.bind_some, Option.map_some, execOp]
        cases c.realloc <;> simp [MSt.setMem]
      have := alloc_then_ptr_len env.p hp (.stringLower c.realloc) (notLen_stringLower _) x a off [] env s _ addr _ _ rfl ha hexec
        { mem := storeBytes s.st.mem (s.st.heap.alloc bs.length 1).1 bs, heap := (s.st.heap.alloc bs.length 1).2 }
        (by cases c.realloc <;> exact ⟨MemEq.refl _, rfl⟩)
        (by cases c.realloc <;> exact ⟨rfl, rfl, rfl⟩)
      obtain ⟨ls, s', he, hq, hg⟩ := this
      exact ⟨ls, s', he, by simpa [Spec.store, MSt.alloc, Nat.add_assoc] using hq, hg⟩
  | .list vs, t, ht => by
      cases t <;> (try (simp [hasTy] at ht; done))
      · -- list
        rename_i e
        simp only [hasTy] at ht
        intro lvl x a off ss h
        simp only [store] at h
        split at h
        · -- canonical
          simp [pure, Except.pure] at h
          subst h
          intro env s addr hpe hl hx ha
          subst hpe
          have hexec : exec env s (.eff (.listCanonLower e c.realloc) [x] []) =
              some (env.bind (.listCanonLower e c.realloc) [x]
                  [.c (pcv env.p (s.alloc (vs.length * elemSize env.p e) (alignment env.p e)).1), .c (pcv env.p vs.length)],
                (if c.realloc then
                  { (s.alloc (vs.length * elemSize env.p e) (alignment env.p e)).2 with
                    st := storeElems env.p e vs (s.alloc (vs.length * elemSize env.p e) (alignment env.p e)).1
                      (s.alloc (vs.length * elemSize env.p e) (alignment env.p e)).2.st }
                 else
                  { (s.alloc (vs.length * elemSize env.p e) (alignment env.p e)).2 with
                    st := storeElems env.p e vs (s.alloc (vs.length * elemSize env.p e) (alignment env.p e)).1
                      (s.alloc (vs.length * elemSize env.p e) (alignment env.p e)).2.st,
                    borrowed := ((s.alloc (vs.length * elemSize env.p e) (alignment env.p e)).1,
                      vs.length * elemSize env.p e, alignment env.p e) ::
                      (s.alloc (vs.length * elemSize env.p e) (alignment env.p e)).2.borrowed })) := by
            simp only [exec, evalList_cons, evalList_nil, hx.here s.st.mem, Option.bind_some, Option.map_some, execOp]
          have := alloc_then_ptr_len env.p hp (.listCanonLower e c.realloc) (notLen_listCanonLower _ _) x a off [] env s _ addr _ _
            rfl ha hexec
            (storeElems env.p e vs (s.st.heap.alloc (vs.length * elemSize env.p e) (alignment env.p e)).1
              { s.st with heap := (s.st.heap.alloc (vs.length * elemSize env.p e) (alignment env.p e)).2 })
            (by cases c.realloc <;> exact StEq.refl _)
            (by cases c.realloc <;> exact ⟨rfl, rfl, rfl⟩)
          obtain ⟨ls, s', he, hq, hg⟩ := this
          exact ⟨ls, s', he, by simpa [Spec.store, MSt.alloc, Nat.add_assoc] using hq, hg⟩
        · -- element-wise
          simp only [bind_ok] at h
          obtain ⟨body, hbody, hp'⟩ := h
          simp [pure, Except.pure] at hp'
          subst hp'
          have hel : ∀ w, w ∈ vs → WritesA p (lvl + 1) (.elem (lvl + 1)) (.base (lvl + 1)) w body
              (fun b st => Spec.store p e w (b + Off.zero.at p) st) := by
            intro w hw
            exact store_soundA p hp c w e (hasTyAll_mem e vs ht w hw) (lvl + 1) _ _ Off.zero body hbody
          intro env s addr hpe hl hx ha
          subst hpe
          let sb : MSt := if c.realloc then (s.alloc (vs.length * elemSize env.p e) (alignment env.p e)).2
            else { (s.alloc (vs.length * elemSize env.p e) (alignment env.p e)).2 with
              borrowed := ((s.alloc (vs.length * elemSize env.p e) (alignment env.p e)).1,
                vs.length * elemSize env.p e, alignment env.p e) ::
                (s.alloc (vs.length * elemSize env.p e) (alignment env.p e)).2.borrowed }
          have hsb : sb.st = { s.st with heap := (s.st.heap.alloc (vs.length * elemSize env.p e) (alignment env.p e)).2 } := by
            simp only [sb]; cases c.realloc <;> simp [MSt.alloc]
          have hsbl : SameLedgers s sb := by
            simp only [sb]; cases c.realloc <;> exact ⟨rfl, rfl, rfl⟩
          have ⟨s2, hit, hq2, hg2⟩ := elems_iterA env.p lvl e Off.zero body env
            (s.alloc (vs.length * elemSize env.p e) (alignment env.p e)).1 rfl hl vs vs 0 sb (by simp) ht hel
          simp only [Nat.zero_add, Nat.zero_mul, Nat.add_zero, Off.zero_at] at hit hq2
          have hexec : exec env s (.eff (.listLower e c.realloc) [x] [(body, [])]) =
              some (env.bind (.listLower e c.realloc) [x]
                  [.c (pcv env.p (s.alloc (vs.length * elemSize env.p e) (alignment env.p e)).1), .c (pcv env.p vs.length)], s2) := by
            simp only [exec, evalList_cons, evalList_nil, hx.here s.st.mem, Option.bind_some, Option.map_some, execOp, foldRange]
            have : (if c.realloc = true then (s.alloc (vs.length * elemSize env.p e) (alignment env.p e)).2
                else { (s.alloc (vs.length * elemSize env.p e) (alignment env.p e)).2 with
                  borrowed := ((s.alloc (vs.length * elemSize env.p e) (alignment env.p e)).1,
                    vs.length * elemSize env.p e, alignment env.p e) ::
                    (s.alloc (vs.length * elemSize env.p e) (alignment env.p e)).2.borrowed }) = sb := rfl
            rw [this, hit]
            simp
          have := alloc_then_ptr_len env.p hp (.listLower e c.realloc) (notLen_listLower _ _) x a off [(body, [])] env s s2 addr _ _
            rfl ha hexec _ (by rw [hsb] at hq2; exact hq2) (hsbl.trans hg2)
          obtain ⟨ls, s', he, hq, hg⟩ := this
          exact ⟨ls, s', he, by simpa [Spec.store, MSt.alloc, Nat.add_assoc] using hq, hg⟩
      · -- flist
        rename_i e n
        simp [hasTy] at ht
        intro lvl x a off ss h
        simp only [store, bind_ok] at h
        obtain ⟨body, hbody, hp'⟩ := h
        simp [pure, Except.pure] at hp'
        subst hp'
        have hn : n = vs.length := ht.1.symm
        subst hn
        have hel : ∀ w, w ∈ vs → WritesA p (lvl + 1) (.elem (lvl + 1)) (.base (lvl + 1)) w body
            (fun b st => Spec.store p e w (b + off.at p) st) := by
          intro w hw
          exact store_soundA p hp c w e (hasTyAll_mem e vs ht.2 w hw) (lvl + 1) _ _ off body hbody
        intro env s addr hpe hl hx ha
        subst hpe
        have ⟨s2, hit, hq, hg⟩ := elems_iterA env.p lvl e off body env addr rfl hl vs vs 0 s (by simp) ht.2 hel
        refine ⟨(keyOf (.flistLowerMem e vs.length) [x, a], []) :: env.lets, s2, ?_, ?_, hg⟩
        · simp only [execStmts, exec, evalList_cons, evalList_nil, hx.here s.st.mem, ha.here s.st.mem,
            Option.bind_some, Option.map_some, execOp, ne_eq, not_true_eq_false, if_false, foldRange]
          simp only [Nat.zero_add] at hit
          rw [hit]
          simp [Env.bind, Env.withLets]
        · simpa [Spec.store] using hq
      · -- map
        rename_i k v
        simp only [hasTy] at ht
        intro lvl x a off ss h
        simp only [store, bind_ok] at h
        obtain ⟨b1, hb1, b2, hb2, hp'⟩ := h
        simp [pure, Except.pure] at hp'
        subst hp'
        intro env s addr hpe hl hx ha
        subst hpe
        have hvo : ((fieldOffs [k, v]).getD 1 Off.zero).at env.p = alignTo (elemSize env.p k) (alignment env.p v) := by
          rcases hp with hp | hp <;> rw [hp] <;> simp [fieldOffs, fieldOffsets, Off.at, alignTo_zero]
        generalize hsz : vs.length * elemSize env.p (.tuple [k, v]) = sz
        generalize hal : alignment env.p (.tuple [k, v]) = al
        have hsb : ∀ sb : MSt, sb = (if c.realloc = true then (s.alloc sz al).2
            else { (s.alloc sz al).2 with borrowed := ((s.alloc sz al).1, sz, al) :: (s.alloc sz al).2.borrowed }) →
            sb.st = { s.st with heap := (s.st.heap.alloc sz al).2 } ∧ SameLedgers s sb := by
          intro sb h; subst h
          cases c.realloc <;> exact ⟨by simp [MSt.alloc], rfl, rfl, rfl⟩
        obtain ⟨sb, hsbdef⟩ : ∃ sb : MSt, sb = (if c.realloc = true then (s.alloc sz al).2
            else { (s.alloc sz al).2 with borrowed := ((s.alloc sz al).1, sz, al) :: (s.alloc sz al).2.borrowed }) := ⟨_, rfl⟩
        have ⟨hsb1, hsbl⟩ := hsb sb hsbdef
        have ⟨s2, hit, hq2, hg2⟩ := entries_iterA env.p lvl k v _ b1 b2 env (s.alloc sz al).1 rfl hl vs hvo vs 0 sb (by simp) ht
          (fun xk yv hm => by
            have h1 : sizeOf xk < sizeOf vs := by
              have := List.sizeOf_lt_of_mem hm
              simp at this; omega
            exact store_soundA _ hp c xk k (hasTyEntries_mem k v vs ht xk yv hm).1 (lvl + 1) _ _ Off.zero b1 hb1)
          (fun xk yv hm => by
            have h1 : sizeOf yv < sizeOf vs := by
              have := List.sizeOf_lt_of_mem hm
              simp at this; omega
            exact store_soundA _ hp c yv v (hasTyEntries_mem k v vs ht xk yv hm).2 (lvl + 1) _ _ _ b2 hb2)
        simp only [Nat.zero_add, Nat.zero_mul, Nat.add_zero] at hit hq2
        have hexec : exec env s (.eff (.mapLower k v c.realloc) [x] [(b1 ++ b2, [])]) =
            some (env.bind (.mapLower k v c.realloc) [x]
                [.c (pcv env.p (s.alloc sz al).1), .c (pcv env.p vs.length)], s2) := by
          simp only [exec, evalList_cons, evalList_nil, hx.here s.st.mem, Option.bind_some, Option.map_some, execOp, foldRange,
            hsz, hal]
          rw [← hsbdef, hit]
          simp
        have := alloc_then_ptr_len env.p hp (.mapLower k v c.realloc) (notLen_mapLower _ _ _) x a off [(b1 ++ b2, [])] env s s2 addr _ _
          rfl ha hexec _ (by rw [hsb1] at hq2; exact hq2) (hsbl.trans hg2)
        obtain ⟨ls, s', he, hq, hg⟩ := this
        exact ⟨ls, s', he, by simpa [Spec.store, MSt.alloc, Nat.add_assoc, hsz, hal] using hq, hg⟩
  | .record vs, t, ht => by
      cases t <;> simp [hasTy] at ht
      · rename_i fs
        intro lvl x a off ss h
        simp only [store] at h
        have hlen := hasTys_length fs vs ht
        rw [hlen] at h
        have := storeFields_soundA p hp c vs fs ht lvl x a off 0 0 0
          (projN (.recordLower vs.length) [x] [] vs.length) (by simp [projN]) ss
          (by simpa [fieldOffs] using h)
          (fun env hx j hj => by
            simpa [projN, hj] using stable_proj env x (.recordLower vs.length) vs (.record vs) j hj
              (by intros; simp [opSem, pureSem]) hx)
        exact writesA_congr this (by intro addr st; simp [Spec.store, curOf])
      · rename_i fs
        intro lvl x a off ss h
        simp only [store] at h
        have hlen := hasTys_length fs vs ht
        rw [hlen] at h
        have := storeFields_soundA p hp c vs fs ht lvl x a off 0 0 0
          (projN (.tupleLower vs.length) [x] [] vs.length) (by simp [projN]) ss
          (by simpa [fieldOffs] using h)
          (fun env hx j hj => by
            simpa [projN, hj] using stable_proj env x (.tupleLower vs.length) vs (.record vs) j hj
              (by intros; simp [opSem, pureSem]) hx)
        exact writesA_congr this (by intro addr st; simp [Spec.store, curOf])
  | .variant i pv, t, ht => by
      have ihpv : ∀ t' v', pv = some v' → hasTy t' v' = true → StoreSoundA p c t' v' := by
        intro t' v' hpv ht'
        subst hpv
        exact store_soundA p hp c v' t' ht'
      cases t <;> (try (simp [hasTy] at ht; done))
      · -- variant
        rename_i cs
        simp only [hasTy] at ht
        cases hci : cs[i]? with
        | none => simp [hci] at ht
        | some ci =>
          simp only [hci] at ht
          intro lvl x a off ss h
          simp only [store, bind_ok] at h
          obtain ⟨arms, harms, hp'⟩ := h
          simp [pure, Except.pure] at hp'
          subst hp'
          have ⟨body, hbody, harm⟩ := storeArms_get c lvl (discriminant cs.length) a off
            (off + payloadOff (discriminant cs.length) cs) cs 0 arms harms i ci hci
          simp only [Nat.zero_add] at harm
          obtain ⟨x', v', hw1, hw2⟩ := arm_store_soundA p hp c ci pv ht
            (fun t' v' hc hv => by
              subst hc; subst hv
              simp [hasTyOpt] at ht
              exact ihpv t' v' rfl ht)
            lvl x a (discriminant cs.length) off (off + payloadOff (discriminant cs.length) cs) i body hbody
          have := writesA_variant p lvl x a (.variantLower cs.length []) (by intros; simp [execOp]) i pv arms _ harm
            x' v' _ hw1 hw2
          exact writesA_congr this (by
            intro addr st
            simp [Spec.store, hci, Off.at_add, payloadOff_at p hp, Nat.add_assoc])
      · -- option
        rename_i t'
        intro lvl x a off ss h
        simp only [store, bind_ok] at h
        obtain ⟨body, hbody, hp'⟩ := h
        simp [pure, Except.pure] at hp'
        subst hp'
        cases pv with
        | none =>
          rcases i with _ | i
          · obtain ⟨x', v', hw1, hw2⟩ := arm_store_soundA p hp c none none rfl (fun _ _ hc _ => by simp at hc)
              lvl x a .u8 off (off + payloadOff .u8 [none, some t']) 0 [] rfl
            have := writesA_variant p lvl x a (.optionLower []) (by intros; simp [execOp]) 0 none
              [armOfStore .u8 off a 0 [], armOfStore .u8 off a 1 body] _ (by simp [armOfStore]) x' v' _ hw1 hw2
            exact writesA_congr this (by intro addr st; simp [Spec.store, Spec.storeOpt, IntRepr.size])
          · simp [hasTy] at ht
        | some v' =>
          rcases i with _ | _ | i
          · simp [hasTy] at ht
          · simp [hasTy] at ht
            obtain ⟨x', v'', hw1, hw2⟩ := arm_store_soundA p hp c (some t') (some v') (by simpa [hasTyOpt] using ht)
              (fun t'' v3 hc hv => by
                simp at hc hv; subst hc; subst hv
                exact ihpv t' v' rfl ht)
              lvl x a .u8 off (off + payloadOff .u8 [none, some t']) 1 body (by simpa [storeArm] using hbody)
            have := writesA_variant p lvl x a (.optionLower []) (by intros; simp [execOp]) 1 (some v')
              [armOfStore .u8 off a 0 [], armOfStore .u8 off a 1 body] _ (by simp [armOfStore]) x' v'' _ hw1 hw2
            exact writesA_congr this (by
              intro addr st
              simp [Spec.store, Spec.storeOpt, IntRepr.size, Off.at_add, payloadOff_at p hp, Nat.add_assoc])
          · simp [hasTy] at ht
      · -- result
        rename_i ok err
        intro lvl x a off ss h
        simp only [store, bind_ok] at h
        obtain ⟨b0, hb0, b1, hb1, hp'⟩ := h
        simp [pure, Except.pure] at hp'
        subst hp'
        rcases i with _ | _ | i
        · simp [hasTy] at ht
          obtain ⟨x', v', hw1, hw2⟩ := arm_store_soundA p hp c ok pv ht
            (fun t'' v'' hc hv => by
              subst hc; subst hv
              simp [hasTyOpt] at ht
              exact ihpv t'' v'' rfl ht)
            lvl x a .u8 off (off + payloadOff .u8 [ok, err]) 0 b0 hb0
          have := writesA_variant p lvl x a (.resultLower []) (by intros; simp [execOp]) 0 pv
            [armOfStore .u8 off a 0 b0, armOfStore .u8 off a 1 b1] _ (by simp [armOfStore]) x' v' _ hw1 hw2
          exact writesA_congr this (by
            intro addr st
            simp [Spec.store, IntRepr.size, Off.at_add, payloadOff_at p hp, Nat.add_assoc])
        · simp [hasTy] at ht
          obtain ⟨x', v', hw1, hw2⟩ := arm_store_soundA p hp c err pv ht
            (fun t'' v'' hc hv => by
              subst hc; subst hv
              simp [hasTyOpt] at ht
              exact ihpv t'' v'' rfl ht)
            lvl x a .u8 off (off + payloadOff .u8 [ok, err]) 1 b1 hb1
          have := writesA_variant p lvl x a (.resultLower []) (by intros; simp [execOp]) 1 pv
            [armOfStore .u8 off a 0 b0, armOfStore .u8 off a 1 b1] _ (by simp [armOfStore]) x' v' _ hw1 hw2
          exact writesA_congr this (by
            intro addr st
            simp [Spec.store, IntRepr.size, Off.at_add, payloadOff_at p hp, Nat.add_assoc])
        · simp [hasTy] at ht
theorem storeFields_soundA (p : Nat) (hp : p = 4 ∨ p = 8) (c : Cfg) : ∀ (vs : List Val) (ts : List Ty),
    hasTys ts vs = true →
    ∀ (lvl : Nat) (x a : Expr) (off : Off) (i c4 c8 : Nat) (xs : List Expr), xs.length = vs.length →
      ∀ (ss : List Stmt),
      storeFields c lvl ts (List.zipWith Off.mk (fieldOffsets 4 c4 ts) (fieldOffsets 8 c8 ts)) xs a off = .ok ss →
      ∀ {v0 : Val} (_ : ∀ env, ValStable env x v0 → ∀ j (hj : j < vs.length), ValStable env (xs[j]!) vs[j]),
      WritesA p lvl x a v0 ss (fun addr st => Spec.storeFields p ts vs (addr + off.at p) (curOf p c4 c8) st)
  | [], ts, ht, lvl, x, a, off, i, c4, c8, xs, _, ss, h, v0, _ => by
      cases ts <;> simp [hasTys] at ht
      simp [storeFields, pure, Except.pure] at h
      subst h
      exact writesA_of_writes (writes_nil p lvl x a v0 _ (by intros; simp [Spec.storeFields]))
  | v :: vs, ts, ht, lvl, x, a, off, i, c4, c8, xs, hxl, ss, h, v0, hst => by
      cases ts with
      | nil => simp [hasTys] at ht
      | cons t ts =>
        cases xs with
        | nil => simp at hxl
        | cons x0 xs =>
          simp [hasTys] at ht
          simp only [fieldOffsets, List.zipWith_cons_cons, storeFields, bind_ok] at h
          obtain ⟨s1, h1, s2, h2, hp'⟩ := h
          simp [pure, Except.pure] at hp'
          subst hp'
          have w1 : WritesA p lvl x a v0 s1 (fun addr st => Spec.store p t v (addr + (off + Off.mk (alignTo c4 (alignment 4 t)) (alignTo c8 (alignment 8 t))).at p) st) :=
            writesA_of_operand (fun env hx => by have h0 := hst env hx 0 (Nat.zero_lt_succ _); simpa [List.getElem_cons_zero] using h0)
              (store_soundA p hp c v t ht.1 lvl x0 a _ s1 h1)
          have w2 := storeFields_soundA p hp c vs ts ht.2 lvl x a off (i + 1) _ _ xs (by simpa using hxl) s2 h2
            (v0 := v0) (fun env hx j hj => by have h1 := hst env hx (j + 1) (Nat.succ_lt_succ hj); simpa [List.getElem_cons_succ] using h1)
          refine writesA_congr (writesA_append w1 w2 ?_) ?_
          · intro addr st st' hq
            exact storeFields_congrA p vs ts _ _ _ _ ht.2 hq
          · intro addr st
            rcases hp with rfl | rfl <;>
              simp [Spec.storeFields, curOf, Off.at_add, Off.at, Nat.add_assoc]
end

end Witverif.Abi
