import Witverif.Proofs.AbiTotal
/-! C16 (core), continued: flat `lift`, `deallocate` and `deallocate_indirect` do not panic. -/
namespace Witverif.Abi

theorem armInputs_total (params1 : List CoreTy) (inputs : List Expr) (temp : List CoreTy)
    (h : ∀ (i : Nat) (hi : i < temp.length), ∃ h' : i < params1.length, le (temp[i]) (params1[i]) = true) :
    ∃ ins, armInputs params1 inputs temp = .ok ins := by
  have ⟨cs, hcs⟩ := castsFor_ok_down params1 temp h
  refine ⟨applyCasts (cs.take temp.length) (inputs.take temp.length), ?_⟩
  simp only [armInputs, hcs, bind, Except.bind, pure, Except.pure]

mutual
/-- Component-model validity of fixed-length lists: `list<T, N>` needs `N > 0` (wasmparser: "Fixed-length
lists must have more than zero elements"); wit-parser itself accepts `list<T, 0>`.  Zero-length lists are
the one place where a type with few flat slots consults `flat_types` of a (possibly huge) element. -/
def flistsNonEmpty : Ty → Bool
  | .flist e n => decide (0 < n) && flistsNonEmpty e
  | .list e => flistsNonEmpty e
  | .map k v => flistsNonEmpty k && flistsNonEmpty v
  | .record fs => flistsNonEmptyAll fs
  | .tuple ts => flistsNonEmptyAll ts
  | .variant cs => flistsNonEmptyCases cs
  | .option t => flistsNonEmpty t
  | .result a b => flistsNonEmptyOpt a && flistsNonEmptyOpt b
  | .future p => flistsNonEmptyOpt p
  | .stream p => flistsNonEmptyOpt p
  | _ => true
def flistsNonEmptyAll : List Ty → Bool
  | [] => true
  | t :: ts => flistsNonEmpty t && flistsNonEmptyAll ts
def flistsNonEmptyOpt : Option Ty → Bool
  | none => true
  | some t => flistsNonEmpty t
def flistsNonEmptyCases : List (Option Ty) → Bool
  | [] => true
  | c :: cs => flistsNonEmptyOpt c && flistsNonEmptyCases cs
end

theorem flistsNonEmptyCases_mem : ∀ (cs : List (Option Ty)) (c : Option Ty), c ∈ cs →
    flistsNonEmptyCases cs = true → flistsNonEmptyOpt c = true := by
  intro cs
  induction cs with
  | nil => intro c h; simp at h
  | cons d ds ih =>
    intro c h hv
    simp [flistsNonEmptyCases] at hv
    rcases List.mem_cons.mp h with rfl | hm
    · exact hv.1
    · exact ih c hm hv.2

mutual
/-- flat `lift` never panics on a valid type with at most 16 flat slots, whatever the operands -/
theorem lift_total (c : Cfg) : ∀ (t : Ty) (lvl : Nat) (xs : List Expr), (flatten t).length ≤ 16 →
    flistsNonEmpty t = true → ∃ r, lift c lvl t xs = .ok r
  | .bool, _, _, _, _ | .s8, _, _, _, _ | .u8, _, _, _, _ | .s16, _, _, _, _ | .u16, _, _, _, _
  | .s32, _, _, _, _ | .u32, _, _, _, _ | .s64, _, _, _, _ | .u64, _, _, _, _ | .f32, _, _, _, _
  | .f64, _, _, _, _ | .char, _, _, _, _ | .errctx, _, _, _, _ | .own, _, _, _, _ | .borrow, _, _, _, _
  | .future _, _, _, _, _ | .stream _, _, _, _, _ | .string, _, _, _, _ | .enum _, _, _, _, _
  | .flags _, _, _, _, _ => by simp [lift, pure, Except.pure]
  | .list e, lvl, xs, _, _ => by
      simp only [lift]
      split
      · simp [pure, Except.pure]
      · have ⟨b, hb⟩ := load_total c e (lvl + 1) (.base (lvl + 1)) Off.zero
        simp [hb, bind, Except.bind, pure, Except.pure]
  | .map k v, lvl, xs, _, _ => by
      have ⟨b1, h1⟩ := load_total c k (lvl + 1) (.base (lvl + 1)) Off.zero
      have ⟨b2, h2⟩ := load_total c v (lvl + 1) (.base (lvl + 1)) ((fieldOffs [k, v]).getD 1 Off.zero)
      simp only [List.getD_eq_getElem?_getD] at h2
      simp [lift, h1, h2, bind, Except.bind, pure, Except.pure]
  | .record fs, lvl, xs, h, hv => by
      have ⟨r, hr⟩ := liftFields_total c fs lvl xs (by simpa [flatten] using h) (by simpa [flistsNonEmpty] using hv)
      simp [lift, flatU_total h, hr, bind, Except.bind, pure, Except.pure]
  | .tuple ts, lvl, xs, h, hv => by
      have ⟨r, hr⟩ := liftFields_total c ts lvl xs (by simpa [flatten] using h) (by simpa [flistsNonEmpty] using hv)
      simp [lift, flatU_total h, hr, bind, Except.bind, pure, Except.pure]
  | .variant cs, lvl, xs, h, hv => by
      have hl : (flattenCases cs).length ≤ 15 := by simp [flatten] at h; omega
      have ⟨arms, ha⟩ := liftArms_total c cs lvl ((flatten (.variant cs)).drop 1) (xs.drop 1) cs
        (fun _ hc => hc) hl (by simp [flatten]) (by simpa [flistsNonEmpty] using hv)
      simp only [lift, flatU_total h, ha, bind, Except.bind, pure, Except.pure]
      exact ⟨_, rfl⟩
  | .option t, lvl, xs, h, hv => by
      have hdrop : (flatten (.option t)).drop 1 = flatten t := by simp [flatten, joinFlat]
      have ht : (flatten t).length ≤ 16 := by simp [flatten, joinFlat] at h; omega
      have ⟨ins, hi⟩ := armInputs_total ((flatten (.option t)).drop 1) (xs.drop 1) (flatten t)
        (by rw [hdrop]; intro k hk; exact ⟨hk, le_refl _⟩)
      have ⟨r, hr⟩ := lift_total c t (lvl + 1) ins ht (by simpa [flistsNonEmpty] using hv)
      simp only [lift, flatU_total h, flatU_total ht, hi, hr, bind, Except.bind, pure, Except.pure]
      exact ⟨_, rfl⟩
  | .result a b, lvl, xs, h, hv => by
      have hdrop : (flatten (.result a b)).drop 1 = joinFlat (flattenOpt a) (flattenOpt b) := by simp [flatten]
      have hl : (joinFlat (flattenOpt a) (flattenOpt b)).length ≤ 15 := by simp [flatten] at h; omega
      simp [flistsNonEmpty] at hv
      have ⟨a0, h0⟩ := liftArm_total c a lvl ((flatten (.result a b)).drop 1) (xs.drop 1)
        (by have := joinFlat_length_left (flattenOpt a) (flattenOpt b); omega)
        (by rw [hdrop]; exact joinFlat_le_left _ _) hv.1
      have ⟨a1, h1⟩ := liftArm_total c b lvl ((flatten (.result a b)).drop 1) (xs.drop 1)
        (by have := joinFlat_length_right (flattenOpt a) (flattenOpt b); omega)
        (by rw [hdrop]; exact joinFlat_le_right _ _) hv.2
      simp only [lift, flatU_total h, h0, h1, bind, Except.bind, pure, Except.pure]
      exact ⟨_, rfl⟩
  | .flist e n, lvl, xs, h, hv => by
      simp [flistsNonEmpty] at hv
      have he : (flatten e).length ≤ 16 := by
        have := flattenRep_le (flatten e) n hv.1
        simp [flatten] at h; omega
      have ⟨rs, hrs⟩ := mapM_total (lift c lvl e)
        (chunks xs (List.replicate n (flatten e).length))
        (fun y _ => lift_total c e lvl y he hv.2)
      simp [lift, flatU_total he, hrs, bind, Except.bind, pure, Except.pure]
theorem liftFields_total (c : Cfg) : ∀ (fs : List Ty) (lvl : Nat) (xs : List Expr),
    (flattenList fs).length ≤ 16 → flistsNonEmptyAll fs = true → ∃ r, liftFields c lvl fs xs = .ok r
  | [], _, _, _, _ => by simp [liftFields, pure, Except.pure]
  | t :: ts, lvl, xs, h, hv => by
      simp [flattenList] at h
      simp [flistsNonEmptyAll] at hv
      have ht : (flatten t).length ≤ 16 := by omega
      have ⟨r1, h1⟩ := lift_total c t lvl (xs.take (flatten t).length) ht hv.1
      have ⟨r2, h2⟩ := liftFields_total c ts lvl (xs.drop (flatten t).length) (by omega) hv.2
      simp [liftFields, flatU_total ht, h1, h2, bind, Except.bind, pure, Except.pure]
theorem liftArms_total (c : Cfg) : ∀ (cs : List (Option Ty)) (lvl : Nat) (params1 : List CoreTy)
    (inputs : List Expr) (all : List (Option Ty)), (∀ d ∈ cs, d ∈ all) → (flattenCases all).length ≤ 15 →
    params1 = flattenCases all → flistsNonEmptyCases all = true →
    ∃ arms, liftArms c lvl cs params1 inputs = .ok arms
  | [], _, _, _, _, _, _, _, _ => by simp [liftArms, pure, Except.pure]
  | o :: cs, lvl, params1, inputs, all, hsub, hl, hp, hv => by
      have hmem : o ∈ all := hsub o (by simp)
      have ⟨arm, ha⟩ := liftArm_total c o lvl params1 inputs
        (by have := flattenCases_length_mem all o hmem; omega)
        (by rw [hp]; exact flattenCases_bounds all o hmem) (flistsNonEmptyCases_mem all o hmem hv)
      have ⟨rest, hr⟩ := liftArms_total c cs lvl params1 inputs all (fun d hd => hsub d (by simp [hd])) hl hp hv
      simp [liftArms, ha, hr, bind, Except.bind, pure, Except.pure]
theorem liftArm_total (c : Cfg) : ∀ (o : Option Ty) (lvl : Nat) (params1 : List CoreTy) (inputs : List Expr),
    (flattenOpt o).length ≤ 15 →
    (∀ (k : Nat) (hk : k < (flattenOpt o).length),
        ∃ h' : k < params1.length, le ((flattenOpt o)[k]) (params1[k]) = true) →
    flistsNonEmptyOpt o = true →
    ∃ b, liftArm c lvl o params1 inputs = .ok b
  | none, _, _, _, _, _, _ => by simp [liftArm, pure, Except.pure]
  | some t, lvl, params1, inputs, hl, hb, hv => by
      simp only [flattenOpt] at hl hb
      have ht : (flatten t).length ≤ 16 := by omega
      have ⟨ins, hi⟩ := armInputs_total params1 inputs (flatten t) hb
      have ⟨r, hr⟩ := lift_total c t (lvl + 1) ins ht (by simpa [flistsNonEmptyOpt] using hv)
      simp [liftArm, flatU_total ht, hi, hr, bind, Except.bind, pure, Except.pure]
end

/-- the validity hypothesis is needed: an empty fixed-length list of a 17-slot element has no flat slots,
yet lifting it consults `flat_types(element).unwrap()` -/
theorem lift_panics_on_empty_flist :
    lift ⟨fun _ => false, true⟩ 0 (.flist (.tuple (List.replicate 17 .u32)) 0) [] = .error .unwrap := rfl

end Witverif.Abi
