import Witverif.Async.Task
/-!
Helper lemmas for `Props/C22.lean` and `Props/C23.lean`: the invariant `Inv` of the executor LTS
(`Async/Task.lean`) and its preservation by every non-panicking step, for every label — i.e. for every
behaviour of the polled futures and every host answer.

Proof method: `step_split` unfolds `step` for one label, pushes `Step.bind` through conditionals
(`bind_*`/`pre_*`), splits every `match`/`if`, discards the panicking branches and leaves, per
surviving branch, the equation that defines the successor state; `simp_all`/`omega` close the rest.
-/
namespace Witverif.Async.Task
open Witverif.Async Witverif.Generated Witverif.Async.Wakeup

/-- prepend events to a step result -/
def pre {β} (e : List Ev) : Step β → Step β
  | .ok b e' => .ok b (e ++ e')
  | .panic m e' => .panic m (e ++ e')

theorem bind_ok {α β} (a : α) (e : List Ev) (f : α → Step β) : (Step.ok a e).bind f = pre e (f a) := by
  simp only [Step.bind, pre]; split <;> simp_all
theorem bind_panic {α β} (m : String) (e : List Ev) (f : α → Step β) : (Step.panic m e).bind f = .panic m e := rfl
theorem bind_ite {α β} (c : Prop) [Decidable c] (x y : Step α) (f : α → Step β) :
    (if c then x else y).bind f = if c then x.bind f else y.bind f := by split <;> rfl
theorem pre_ok {β} (e e' : List Ev) (b : β) : pre e (Step.ok b e') = .ok b (e ++ e') := rfl
theorem pre_panic {β} (e e' : List Ev) (m : String) : pre e (Step.panic m e' : Step β) = .panic m (e ++ e') := rfl
theorem pre_ite {β} (c : Prop) [Decidable c] (e : List Ev) (x y : Step β) :
    pre e (if c then x else y) = if c then pre e x else pre e y := by split <;> rfl

macro "step_simp" h:ident : tactic => `(tactic|
  simp only [bind_ok, bind_panic, bind_ite, pre_ok, pre_panic, pre_ite] at $h:ident)

/-- case analysis of `h : step s l = .ok s' evs` for a fixed label constructor -/
macro "step_split" h:ident : tactic => `(tactic| (
  simp only [step, wakeByRef, Wakeup.cancelRead, startRead, consume, Step.emit, answer, enter, dropShared, addWaitable,
    bind_ok, bind_panic, bind_ite, pre_ok, pre_panic, pre_ite] at $h:ident
  repeat' (split at $h:ident <;> try step_simp $h)
  all_goals simp at $h:ident))

/-- a callback is running and has not decided to exit -/
def running : Pc → Bool
  | .deliver _ _ _ | .inCb _ | .cancelWake | .setPolling | .pollTasks | .afterPoll _ | .sleep => true
  | _ => false

/-- the `TaskState` destructor has started -/
def dropped : Pc → Bool
  | .dropTasks | .dropFields | .gone => true
  | _ => false

/-- program points at which no wake-up read may be pending -/
def noReadPc : Pc → Bool
  | .deliver _ _ .setPolling | .inCb .setPolling
  | .setPolling | .pollTasks | .afterPoll _ | .sleep | .dropTasks | .dropFields | .gone => true
  | _ => false

def b2n (b : Bool) : Nat := if b then 1 else 0

structure Inv (s : St) : Prop where
  ctxStart : s.driver = .start → (s.ctx = true ↔ s.pc = .idle)
  ctxBlock : s.driver = .block → s.ctx = false ∧ s.pc ≠ .fresh
  evRun : running s.pc = true → s.ev0 ≠ Limits.eventCancel
  pollW : (s.pc = .pollTasks ∨ ∃ r, s.pc = .afterPoll r) → s.wk.sleep ≤ 1 ∧ (s.wk.sleep = 1 → s.woken = true)
  sleepLe : s.wk.sleep ≤ 2
  noRead : noReadPc s.pc = true → s.wk.reading = false
  readItw : s.wk.reading = true → s.wk.itw = true ∧ s.wk.stream.isSome = true ∧ s.set.isSome = true
  drops : s.drops = b2n (dropped s.pc)
  refs : (s.sharedGone = true → s.clones = 0 ∧ s.pc = .gone) ∧ (s.pc = .gone → s.sharedGone = false → 1 ≤ s.clones)
  setNZ : s.set ≠ some 0
  waitSet : s.waitables ≠ [] → s.set.isSome = true
  polledA : ((∃ r, s.pc = .afterPoll r) ∨ s.pc = .sleep) → s.polled = true
  lastIdle : s.pc ≠ .gone → s.last ≠ some .exit
  lastGone : s.pc = .gone → s.last = some .exit
  sl2 : s.wk.sleep = 2 →
    s.pc = .sleep ∨ (s.pc = .idle ∧ (s.wk.itw = true → s.wk.reading = true)) ∨
    (s.pc = .dropCancelWake ∧ s.ev0 = Limits.eventCancel)
  cntW : s.writes + b2n (decide (s.wk.sleep = 2)) ≤ s.sleeps
  cntR : s.wk.itw = true → s.reads + b2n (decide (s.pc = .sleep)) = s.sleeps
  sleepNE : s.pc = .sleep → s.tasksEmpty = false
  lastWait : ∀ x, s.last = some (.wait x) → s.set.isSome = true
  lastYield : (s.pc = .fresh → s.last = none) ∧ (s.pc = .idle → s.last = some .yield → s.wk.sleep = Limits.sleepStateWoken)

theorem inv_init (d : Driver) (itw : Bool) : Inv (St.init d itw) := by
  cases d <;> constructor <;> simp [St.init, running, dropped, noReadPc, b2n]

macro "inv_auto" h:ident hi:ident : tactic => `(tactic| (
  step_split $h
  all_goals (obtain ⟨hs, _⟩ := $h; subst hs)
  all_goals (obtain ⟨h1, h2, h3, h4, h5, h6, h7, h8, h9, h10, h11, h12, h13, h14, h15, h16, h17, h18, h19, h20⟩ := $hi)
  all_goals try (cases ‹Next›)
  all_goals (constructor <;> simp_all [running, dropped, noReadPc, b2n, userPc, Next.pc])
  all_goals try (first | omega | (split at * <;> omega))
  all_goals try (cases hr : (‹St›).wk.reading <;> simp_all)
  all_goals try (intros; grind)))

section
variable {s s' : St} {evs : List Ev}
set_option maxHeartbeats 2000000
theorem inv_start (hi : Inv s) (h : step s .start = .ok s' evs) : Inv s' := by inv_auto h hi
theorem inv_call {e w c} (hi : Inv s) (h : step s (.call e w c) = .ok s' evs) : Inv s' := by inv_auto h hi
theorem inv_tau (hi : Inv s) (h : step s .tau = .ok s' evs) : Inv s' := by inv_auto h hi
theorem inv_tok {e} (hi : Inv s) (h : step s (.tok e) = .ok s' evs) : Inv s' := by inv_auto h hi
theorem inv_reg {w n} (hi : Inv s) (h : step s (.reg w n) = .ok s' evs) : Inv s' := by inv_auto h hi
theorem inv_unreg {w} (hi : Inv s) (h : step s (.unreg w) = .ok s' evs) : Inv s' := by inv_auto h hi
theorem inv_cloneRef (hi : Inv s) (h : step s .cloneRef = .ok s' evs) : Inv s' := by inv_auto h hi
theorem inv_dropRef (hi : Inv s) (h : step s .dropRef = .ok s' evs) : Inv s' := by
  inv_auto h hi
  all_goals (by_cases hg : s.pc = Pc.gone <;> simp_all <;> omega)
theorem inv_wake {a} (hi : Inv s) (h : step s (.wake a) = .ok s' evs) : Inv s' := by inv_auto h hi
theorem inv_cbDone (hi : Inv s) (h : step s .cbDone = .ok s' evs) : Inv s' := by inv_auto h hi
theorem inv_cancelRead {a} (hi : Inv s) (h : step s (.cancelRead a) = .ok s' evs) : Inv s' := by inv_auto h hi
theorem inv_pollDone {r e} (hi : Inv s) (h : step s (.pollDone r e) = .ok s' evs) : Inv s' := by inv_auto h hi
theorem inv_decide {e w c} (hi : Inv s) (h : step s (.decide e w c) = .ok s' evs) : Inv s' := by inv_auto h hi
theorem inv_sleepRead {r w n a} (hi : Inv s) (h : step s (.sleepRead r w n a) = .ok s' evs) : Inv s' := by inv_auto h hi
theorem inv_dropTasksDone (hi : Inv s) (h : step s .dropTasksDone = .ok s' evs) : Inv s' := by inv_auto h hi
end

/-- every non-panicking step preserves the invariant — for every label, i.e. every behaviour of the
polled futures, every wake, every host answer -/
theorem inv_step {s s' : St} {l : Label} {evs : List Ev} (hi : Inv s) (h : step s l = .ok s' evs) : Inv s' := by
  cases l with
  | start => exact inv_start hi h
  | call e w c => exact inv_call hi h
  | tau => exact inv_tau hi h
  | tok e => exact inv_tok hi h
  | reg w n => exact inv_reg hi h
  | unreg w => exact inv_unreg hi h
  | cloneRef => exact inv_cloneRef hi h
  | dropRef => exact inv_dropRef hi h
  | wake a => exact inv_wake hi h
  | cbDone => exact inv_cbDone hi h
  | cancelRead a => exact inv_cancelRead hi h
  | pollDone r e => exact inv_pollDone hi h
  | decide e w c => exact inv_decide hi h
  | sleepRead r w n a => exact inv_sleepRead hi h
  | dropTasksDone => exact inv_dropTasksDone hi h

/-- run a label sequence; `none` if a step panics -/
def run (s : St) : List Label → Option St
  | [] => some s
  | l :: ls => match step s l with
    | .ok s' _ => run s' ls
    | .panic _ _ => none

theorem run_reach {d : Driver} {itw : Bool} {s s' : St} (ls : List Label) (h : Reach d itw s) (hr : run s ls = some s') :
    Reach d itw s' := by
  induction ls generalizing s with
  | nil => simp [run] at hr; subst hr; exact h
  | cons l ls ih =>
    simp only [run] at hr
    split at hr
    · exact ih (.step h ‹_›) hr
    · simp at hr

/-- the step answers the host with WAIT / YIELD: from inside a callback back to `idle` -/
def Answers (s s' : St) (code : CbCode) : Prop := running s.pc = true ∧ s'.pc = .idle ∧ s'.last = some code

/-- the step decides EXIT: the destructor of the `TaskState` is entered -/
def Exits (s s' : St) : Prop := s.pc ≠ .dropCancelWake ∧ s'.pc = .dropCancelWake

theorem reach_inv {d : Driver} {itw : Bool} {s : St} (h : Reach d itw s) : Inv s := by
  induction h with
  | init => exact inv_init d itw
  | step _ hs ih => exact inv_step ih hs

/-! ### the waitable set stays in sync with the executor's map -/

theorem mem_ins (l : List Nat) (x y : Nat) : x ∈ ins l y ↔ x ∈ l ∨ x = y := by
  unfold ins; split
  · rename_i h; simp at h; constructor
    · exact Or.inl
    · rintro (h' | rfl); exact h'; exact h
  · simp

/-- `x` is the reader handle of the wake-up stream and its read is pending -/
def pendingReader (s : St) (x : Nat) : Prop := s.wk.reading = true ∧ ∃ w, s.wk.stream = some (x, w)

/-- `members` (what the executor has joined to its waitable set and not taken out again — the host's
view of the set, as far as this executor changed it) = keys of the waitables map + the pending wake-up read -/
structure InvM (s : St) : Prop where
  sync : ∀ x, x ∈ s.members ↔ (x ∈ s.waitables ∨ pendingReader s x)
  fresh : ∀ r w, s.wk.stream = some (r, w) → r ∉ s.waitables

/-- what user code and the host never do: register / unregister the runtime's internal stream handle
through the C ABI, or (host) return a stream handle that is already registered as a waitable -/
def Legal (s : St) : Label → Prop
  | .reg w _ => ∀ r wr, s.wk.stream = some (r, wr) → w ≠ r
  | .unreg w => ∀ r wr, s.wk.stream = some (r, wr) → w ≠ r
  | .sleepRead r _ _ _ => s.wk.stream = none → r ∉ s.waitables
  | _ => True

set_option maxHeartbeats 2000000 in
theorem invM_step {s s' : St} {l : Label} {evs : List Ev} (hi : InvM s) (hri : s.wk.reading = true → s.wk.itw = true)
    (hl : Legal s l) (h : step s l = .ok s' evs) : InvM s' := by
  obtain ⟨h1, h2⟩ := hi
  cases l <;> step_split h
  all_goals (obtain ⟨hs, _⟩ := h; subst hs)
  all_goals (constructor <;> simp_all [pendingReader, mem_ins, Legal])
  all_goals try (intros; grind)

/-- reachable by legal labels -/
inductive ReachL (driver : Driver) (itw : Bool) : St → Prop
  | init : ReachL driver itw (St.init driver itw)
  | step {s s' : St} {l : Label} {evs : List Ev} : ReachL driver itw s → Legal s l → step s l = .ok s' evs → ReachL driver itw s'

theorem ReachL.reach {d : Driver} {itw : Bool} {s : St} (h : ReachL d itw s) : Reach d itw s := by
  induction h with
  | init => exact .init
  | step _ _ hs ih => exact .step ih hs

theorem reachL_invM {d : Driver} {itw : Bool} {s : St} (h : ReachL d itw s) : InvM s := by
  induction h with
  | init => constructor <;> simp [St.init, pendingReader]
  | step hr hl hs ih => exact invM_step ih (fun hrd => ((reach_inv hr.reach).readItw hrd).1) hl hs

/-! ### legal steps never panic

`Enabled s l`: label `l` is applicable in state `s` — the right program point — and respects the contracts
of the two parties the executor talks to:
* host: event codes ≤ EVENT_CANCEL; an event delivered to `deliver_waitable_event` names a member of the
  task's set (`tau` at `deliver`); `waitable-set.new` never returns 0; `stream.read` on the idle wake-up
  stream with no writer waiting answers BLOCKED; a `stream.write` that meets the pending read answers
  COMPLETED|1<<4;
* user code / `Tasks::poll_next`: runs only where user code can run and only through live references;
  drops only references it holds; `poll_next` reports `Ready` iff `is_empty()` (`decide` is taken at
  `afterPoll tasksEmpty`: `Props.C22.tasks_ready_iff_empty`); without the inter-task-wakeup feature a
  task does not go to sleep with nothing registered and nobody wakes a sleeping task (both documented
  panics of the runtime);
Nothing else is excluded: the two situations in which the code used to panic on a legal schedule were
repaired in /repo (`Drop for TaskState` marks the task woken first, so a wake of a task in state SLEEPING
always meets a pending read — invariant `sl2`; `block_on` answers a YIELD without a waitable set by polling
again — and a WAIT always has a set, invariant `lastWait`). -/
def Enabled (s : St) : Label → Prop
  | .start => s.pc = .fresh ∧ s.driver = .start
  | .call e _ _ => s.pc = .idle ∧ e ≤ Limits.eventCancel
  | .tau => (∃ w c n, s.pc = .deliver w c n ∧ w ∈ s.members) ∨ s.pc = .setPolling ∨ s.pc = .dropFields
  | .tok _ => userPc s.pc = true
  | .reg _ n => userPc s.pc = true ∧ s.sharedGone = false ∧ n ≠ 0
  | .unreg _ => userPc s.pc = true ∧ s.sharedGone = false
  | .cloneRef => userPc s.pc = true ∧ s.sharedGone = false
  | .dropRef => userPc s.pc = true ∧ s.sharedGone = false ∧ 0 < s.clones
  | .wake ans => userPc s.pc = true ∧ s.sharedGone = false ∧
      (s.wk.sleep = Limits.sleepStateSleeping → s.wk.itw = true ∧ ans = wroteOne)
  | .cbDone => ∃ n, s.pc = .inCb n
  | .cancelRead _ => s.pc = .cancelWake ∨ s.pc = .dropCancelWake
  | .pollDone _ _ => s.pc = .pollTasks
  | .decide _ _ _ => s.pc = .afterPoll s.tasksEmpty
  | .sleepRead _ _ n ans => s.pc = .sleep ∧ (s.wk.itw = false → s.waitables ≠ []) ∧
      (s.wk.itw = true → ans = Limits.blocked ∧ n ≠ 0)
  | .dropTasksDone => s.pc = .dropTasks

set_option maxHeartbeats 4000000 in
theorem never_panic {s : St} {l : Label} {m : String} {e : List Ev} (hi : Inv s) (hm : InvM s) (he : Enabled s l)
    (h : step s l = .panic m e) : False := by
  obtain ⟨h1, h2, h3, h4, h5, h6, h7, h8, h9, h10, h11, h12, h13, h14, h15, h16, h17, h18, h19, h20⟩ := hi
  obtain ⟨m1, m2⟩ := hm
  have hsl : userPc s.pc = true → s.wk.sleep = 2 → s.wk.itw = true → s.wk.reading = true := by
    intro hu h2' hitw
    rcases h15 h2' with hp | ⟨_, hrd⟩ | ⟨hp, _⟩
    · simp [hp, userPc] at hu
    · exact hrd hitw
    · simp [hp, userPc] at hu
  cases l <;> step_split h
  all_goals try (cases ‹Next›)
  all_goals simp_all [Enabled, userPc, running, dropped, noReadPc, pendingReader, wroteOne]
  all_goals try omega

end Witverif.Async.Task
