import Witverif.Proofs.AbiStore
/-! C01: building blocks of `store_sound`. -/
namespace Witverif.Abi
open Spec

def StoreSound (p : Nat) (c : Cfg) (t : Ty) (v : Val) : Prop :=
  ∀ (lvl : Nat) (x a : Expr) (off : Off) (ss : List Stmt), store c lvl t x a off = .ok ss →
    Writes p lvl x a v ss (fun addr st => Spec.store p t v (addr + off.at p) st)

theorem writes_of_operand {p lvl : Nat} {x x' a : Expr} {v v' : Val} {ss : List Stmt} {f : Nat → St → St}
    (hx : ∀ env, ValStable env x v → ValStable env x' v') (h : Writes p lvl x' a v' ss f) :
    Writes p lvl x a v ss f := by
  intro env s addr hp hl hxv ha
  exact h env s addr hp hl (hx env hxv) ha

theorem eval_sc_of (s : ScalarOp) (x : Expr) (v : Val) (cv : CVal) (hs : scalarSem s (.v v) = some (.c cv)) :
    ∀ env m, eval env m x = some (.v v) → eval env m (sc s x) = some (.c cv) := by
  intro env m hx; rw [eval_sc, hx]; simpa using hs

theorem eval_pure1_of (o : Op) (x : Expr) (v : Val) (cv : CVal)
    (hs : ∀ pp m bev, opSem pp m bev o [.v v] = some [.c cv]) :
    ∀ env m, eval env m x = some (.v v) → eval env m (pure1 o [x]) = some (.c cv) := by
  intro env m hx; simp [pure1, eval, hx, hs]

/-- leaf: scalar stored with one instruction -/
theorem store_leaf (p : Nat) (c : Cfg) (t : Ty) (v : Val) (k : StoreKind) (e : Expr → Expr) (cv : CVal) (sv w : Nat)
    (hl : ∀ lvl x a off, store c lvl t x a off = .ok [stS k off (e x) a])
    (he : ∀ x env m, eval env m x = some (.v v) → eval env m (e x) = some (.c cv))
    (hw : storeWidth p k = w) (hb : cv.bits % 256 ^ w = sv % 256 ^ w)
    (hspec : ∀ a st, Spec.store p t v a st = { st with mem := st.mem.storeLE a sv w }) : StoreSound p c t v := by
  intro lvl x a off ss h
  rw [hl] at h
  simp at h
  subst h
  exact writes_congr (writes_one p lvl x a v k off (e x) cv sv w (he x) hw hb) (by intro addr st; rw [hspec])

end Witverif.Abi

namespace Witverif.Abi
open Spec

/-- a variant-shaped store statement from the statements of its active arm -/
theorem writes_variant (p lvl : Nat) (x a : Expr) (o : Op)
    (hop : ∀ pp cr ir brun s i pv, execOp pp cr ir brun s o [.v (.variant i pv)] = brun i { payload := pv.map MV.v } s)
    (i : Nat) (pv : Option Val) (arms : List (List Stmt × List Expr)) (stmts : List Stmt)
    (harm : arms[i]? = some (stmts, []))
    (x' : Expr) (v' : Val) (spec : Nat → St → St)
    (hx' : ∀ env, env.frames.length = lvl + 1 → ValStable env x (.variant i pv) →
      ValStable (env.extend [{ payload := pv.map MV.v }]) x' v')
    (hw : Writes p (lvl + 1) x' a v' stmts spec) :
    Writes p lvl x a (.variant i pv) [.eff o [x] arms] spec := by
  intro env s addr hp hl hx ha
  have ⟨ls, m', he, hq⟩ := hw (env.extend [{ payload := pv.map MV.v }]) s addr hp (by simp [Env.extend, hl])
    (hx' env hl hx) (ha.extend _)
  refine ⟨(keyOf o [x], []) :: env.lets, m', ?_, hq⟩
  simp only [execStmts, exec, evalList_cons, evalList_nil, hx.here s.st.mem, Option.bind_some, Option.map_some, hop]
  rw [execBlockAt_get env s arms i _ _ harm, enter_length_eq, he]
  simp [Env.bind, Env.withLets]

theorem stable_pl (env : Env) (lvl : Nat) (hl : env.frames.length = lvl + 1) (pv : Val) :
    ValStable (env.extend [{ payload := some (MV.v pv) }]) (.pl (lvl + 1)) pv := by
  intro fs ls m
  simp [eval, frameAt, Env.extend, Env.withLets, List.getD, hl]

theorem eval_i32_const (i : Nat) : ∀ (x : Expr) (env : Env) (m : Mem), eval env m (.i32 i) = some (.c ⟨.i32, i⟩) := by
  intro x env m; simp [eval]

theorem storeWidth_int (p : Nat) (r : IntRepr) :
    storeWidth p (match r with | .u64 => StoreKind.i64 | .u32 => .i32 | .u16 => .i32_16 | .u8 => .i32_8) = r.size := by
  cases r <;> rfl

/-- the discriminant store of an arm -/
theorem writes_disc (p lvl : Nat) (x a : Expr) (v : Val) (tag : IntRepr) (off : Off) (i : Nat) :
    Writes p lvl x a v [storeInt tag off (.i32 i) a]
      (fun addr st => { st with mem := st.mem.storeLE (addr + off.at p) i tag.size }) := by
  unfold storeInt
  exact writes_one p lvl x a v _ off (.i32 i) ⟨.i32, i⟩ i tag.size
    (fun env m _ => by simp [eval]) (storeWidth_int p tag) rfl

end Witverif.Abi
