import Witverif.Proofs.Source
import Witverif.Text.CheckMode
/-! Helper lemmas for C33 (`Props/C33.lean`). -/
namespace Witverif.Text.CheckSpec
open RustStr SourceSpec Witverif.Text.CheckMode

/-- lines joined with an explicit line break after each -/
def joinT (ls : List (List Char)) : List Char := ls.flatMap (· ++ ['\n'])

theorem joinNl_ne_nil (qs : List (List Char × Bool)) (hp : Pieces qs) (hne : qs ≠ []) : joinNl qs ≠ [] := by
  cases hp with
  | nil => exact absurd rfl hne
  | last l t h => cases t <;> simp [joinNl]; exact h rfl
  | cons l ps _ _ => simp [joinNl]

theorem ensureNl_joinNl (qs : List (List Char × Bool)) (hp : Pieces qs) (hn : ∀ p ∈ qs, '\n' ∉ p.1) :
    (if (joinNl qs).isEmpty || (joinNl qs).getLast? == some '\n' then joinNl qs else joinNl qs ++ ['\n'])
      = joinT (qs.map (·.1)) := by
  induction hp with
  | nil => rfl
  | last l t h =>
    cases t
    · have hl : l ≠ [] := h rfl
      have hnl : '\n' ∉ l := hn (l, false) (by simp)
      have : ¬ (l.getLast? = some '\n') := fun e => hnl (List.mem_of_getLast? e)
      simp [joinNl, joinT, hl, this]
    · simp [joinNl, joinT]
  | cons l ps hne hps ih =>
    have ihh := ih (fun p hp => hn p (by simp [hp]))
    have hv := joinNl_ne_nil ps hps hne
    simp only [joinNl, if_true, List.map_cons, joinT, List.flatMap_cons] at ihh ⊢
    have e : (l ++ ['\n'] ++ joinNl ps).getLast? = (joinNl ps).getLast? := by
      rw [List.getLast?_append]
      cases h : (joinNl ps).getLast? with
      | none => exact absurd (List.getLast?_eq_none_iff.mp h) hv
      | some c => rfl
    have e1 : (l ++ ['\n'] ++ joinNl ps).isEmpty = false := by simp
    have e2 : (joinNl ps).isEmpty = false := by simpa using hv
    rw [e, e1]
    rw [e2] at ihh
    simp only [Bool.false_or] at ihh ⊢
    split
    · rename_i h; rw [if_pos h] at ihh; rw [← ihh]
    · rename_i h; rw [if_neg h] at ihh; rw [← ihh]; simp

theorem pieces_map_norm (ps : List (List Char × Bool)) (hp : Pieces ps) : Pieces (ps.map normPiece) := by
  induction hp with
  | nil => exact .nil
  | last l t h =>
    refine .last _ _ ?_
    intro ht; simp only at ht; subst ht; simpa [lineOf] using h rfl
  | cons l ps hne _ ih => exact .cons _ _ (by simpa using hne) ih

/-- `normEol` is the lines of the text, each followed by a line break -/
theorem normEol_eq (s : List Char) : normEol s = joinT (lines s) := by
  have hp := splitNl_pieces s
  have hn := splitNl_noNl s
  have hcr : crlfToLf s = joinNl ((splitNl s).map normPiece) := by
    rw [← crlfToLf_joinNl _ hp hn, joinNl_splitNl]
  unfold normEol
  simp only [hcr]
  rw [ensureNl_joinNl _ (pieces_map_norm _ hp)]
  · simp [lines, normPiece, List.map_map, Function.comp_def]
  · intro p hpm
    simp only [List.mem_map] at hpm
    obtain ⟨q, hq, rfl⟩ := hpm
    exact lineOf_noNl q (hn q hq)

theorem lines_noNl (s : List Char) : ∀ l ∈ lines s, '\n' ∉ l := by
  intro l hl
  simp only [lines, List.mem_map] at hl
  obtain ⟨q, hq, rfl⟩ := hl
  exact lineOf_noNl q (splitNl_noNl s q hq)

theorem joinT_inj (a b : List (List Char)) (ha : ∀ l ∈ a, '\n' ∉ l) (hb : ∀ l ∈ b, '\n' ∉ l)
    (h : joinT a = joinT b) : a = b := by
  induction a generalizing b with
  | nil =>
    cases b with
    | nil => rfl
    | cons m b => simp [joinT] at h
  | cons l a ih =>
    cases b with
    | nil => simp [joinT] at h
    | cons m b =>
      simp only [joinT, List.flatMap_cons, List.append_assoc, List.singleton_append] at h
      have h1 := breakNl_line l (List.flatMap (· ++ ['\n']) a) (ha l (by simp))
      have h2 := breakNl_line m (List.flatMap (· ++ ['\n']) b) (hb m (by simp))
      rw [h, h2] at h1
      simp only [Prod.mk.injEq] at h1
      rw [← h1.1, ih b (fun x hx => ha x (by simp [hx])) (fun x hx => hb x (by simp [hx])) h1.2.symm]

/-- `str::lines` agree exactly when the texts are equal up to CRLF/LF and the final line break -/
theorem lines_eq_iff (p c : List Char) : lines p = lines c ↔ normEol p = normEol c := by
  rw [normEol_eq, normEol_eq]
  constructor
  · intro h; rw [h]
  · exact joinT_inj _ _ (lines_noNl p) (lines_noNl c)

theorem plainText_iff (p : List Char) : plainText p = !p.any badControl := by
  induction p with
  | nil => rfl
  | cons a p ih =>
    simp only [plainText, List.all_cons, List.any_cons, Bool.not_or] at ih ⊢
    rw [ih]
    congr 1
    simp only [badControl]
    cases isControl a <;> cases (a == '\n') <;> cases (a == '\r') <;> cases (a == '\t') <;> rfl


/-- the code's classification of a differing file is the spec's -/
theorem classify_spec (n : Name) (prev c : Bytes) (hne : prev ≠ c) :
    classify n prev c = if eolOnly prev c then .lineEndings n else .notUpToDate n := by
  cases prev with
  | binary r => cases c <;> rfl
  | utf8 p =>
    cases c with
    | binary r => rfl
    | utf8 t =>
      have hpt : p ≠ t := fun e => hne (by rw [e])
      simp only [classify, eolOnly, plainText_iff]
      have hl : (lines p == lines t) = (normEol p == normEol t) := by
        rw [Bool.eq_iff_iff]; simp only [beq_iff_eq]; exact lines_eq_iff p t
      rw [hl]
      simp [hpt]

theorem firstStale_none (fs : FS) (files : List (Name × Bytes)) :
    firstStale fs files = none ↔ upToDate fs files = true := by
  induction files with
  | nil => simp [firstStale, upToDate]
  | cons f rest ih =>
    simp only [firstStale, upToDate, List.all_cons, Bool.and_eq_true] at ih ⊢
    split
    · rename_i h; simp [h, ih]
    · rename_i h; simp [h]

/-- the check loop reports exactly what the specification demands -/
theorem checkLoop_expected (fs : FS) (files : List (Name × Bytes)) :
    (checkLoop fs files).1 = expected fs files := by
  induction files with
  | nil => rfl
  | cons f rest ih =>
    obtain ⟨n, c⟩ := f
    simp only [checkLoop, expected, firstStale] at ih ⊢
    cases hr : fs.read n with
    | none => simp [hr]
    | some prev =>
      by_cases he : prev = c
      · subst he; simp [ih]
      · have : (some prev == some c) = false := by simp [he]
        simp only [this, Bool.false_eq_true, if_false, ne_eq, he, not_false_eq_true, if_true, hr]
        exact classify_spec n prev c he

theorem checkLoop_reads_only (fs : FS) (files : List (Name × Bytes)) :
    ∀ e ∈ (checkLoop fs files).2, ∃ n, e = .read n := by
  induction files with
  | nil => simp [checkLoop]
  | cons f rest ih =>
    obtain ⟨n, c⟩ := f
    simp only [checkLoop]
    split
    · simp
    · split
      · simp
      · intro e he
        simp only [List.mem_cons] at he
        rcases he with rfl | he
        · exact ⟨n, rfl⟩
        · exact ih e he

end Witverif.Text.CheckSpec
