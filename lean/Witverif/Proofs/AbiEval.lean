import Witverif.Abi.Sem
import Witverif.Abi.Gen
/-! Unfolding lemmas for the reference machine on the constructors the generator emits. -/
namespace Witverif.Abi
open Spec

theorem bind_ok {α β : Type} {m : G α} {f : α → G β} {r : β} :
    (m >>= f) = .ok r ↔ ∃ a, m = .ok a ∧ f a = .ok r := by
  cases m with
  | error e => simp [bind, Except.bind]
  | ok a => simp [bind, Except.bind]

theorem pure_ok {α : Type} {a r : α} : (pure a : G α) = .ok r ↔ a = r := by
  simp [pure, Except.pure]

theorem flatU_ok {t : Ty} {f : List CoreTy} (h : flatU t = .ok f) : f = flatten t := by
  unfold flatU flatTypes at h
  by_cases hl : (flatten t).length ≤ 16
  · simp [hl, pure, Except.pure] at h; exact h.symm
  · simp [hl, throw, throwThe, MonadExceptOf.throw] at h

@[simp] theorem evalList_nil (env : Env) (m : Mem) : evalList env m [] = some [] := by simp [evalList]

@[simp] theorem evalList_cons (env : Env) (m : Mem) (e : Expr) (es : List Expr) :
    evalList env m (e :: es) = (eval env m e).bind fun x => (evalList env m es).map fun xs => x :: xs := by
  simp [evalList]

theorem evalList_append (env : Env) (m : Mem) (as bs : List Expr) (xs ys : List MV)
    (ha : evalList env m as = some xs) (hb : evalList env m bs = some ys) :
    evalList env m (as ++ bs) = some (xs ++ ys) := by
  induction as generalizing xs with
  | nil => simp at ha; subst ha; simpa using hb
  | cons a as ih =>
    simp only [evalList_cons] at ha
    cases hea : eval env m a with
    | none => simp [hea] at ha
    | some x =>
      cases hes : evalList env m as with
      | none => simp [hea, hes] at ha
      | some xs' =>
        simp [hea, hes] at ha
        subst ha
        simp [hea, ih xs' hes]

/-- scalar instruction applied to an evaluated operand -/
theorem eval_sc (env : Env) (m : Mem) (s : ScalarOp) (x : Expr) :
    eval env m (sc s x) = (eval env m x).bind (scalarSem s) := by
  cases h : eval env m x <;> simp [sc, eval, h, opSem, pureSem]
  cases scalarSem s _ <;> simp

/-- single-result block-free instruction that falls through to `pureSem` -/
theorem eval_pure1 (env : Env) (m : Mem) (o : Op) (xs : List Expr) (vs : List MV)
    (hfall : ∀ bev, opSem env.p m bev o vs = pureSem env.p m o vs)
    (hx : evalList env m xs = some vs) :
    eval env m (pure1 o xs) = (pureSem env.p m o vs).bind (·[0]?) := by
  simp [pure1, eval, hx, hfall]

/-- k-th projection of a multi-result block-free instruction -/
theorem eval_proj (env : Env) (m : Mem) (o : Op) (xs : List Expr) (vs : List MV) (k : Nat)
    (hfall : ∀ bev, opSem env.p m bev o vs = pureSem env.p m o vs)
    (hx : evalList env m xs = some vs) :
    eval env m (.op o xs [] k) = (pureSem env.p m o vs).bind (·[k]?) := by
  simp [eval, hx, hfall]

theorem evalList_projN (env : Env) (m : Mem) (o : Op) (args : List Expr) (blocks : List (List Expr))
    (rs : List MV) (h : ∀ k, k < rs.length → eval env m (.op o args blocks k) = some rs[k]!) :
    evalList env m (projN o args blocks rs.length) = some rs := by
  unfold projN
  suffices ∀ (n : Nat) (off : Nat), off + n = rs.length →
      evalList env m (((List.range' off n)).map fun k => Expr.op o args blocks k) = some (rs.drop off) by
    have := this rs.length 0 (by simp)
    simpa [List.range_eq_range'] using this
  intro n
  induction n with
  | zero => intro off h0; simp at h0; subst h0; simp
  | succ n ih =>
    intro off hoff
    have hlt : off < rs.length := by omega
    simp only [List.range'_succ, List.map_cons, evalList_cons]
    rw [h off hlt, ih (off + 1) (by omega)]
    simp
    rw [List.drop_eq_getElem_cons hlt]
    simp [hlt]

theorem execStmts_append (env : Env) (s : MSt) : ∀ (a b : List Stmt),
    execStmts env s (a ++ b) = (execStmts env s a).bind fun (env', s') => execStmts env' s' b := by
  intro a
  induction a generalizing env s with
  | nil => intro b; simp [execStmts]
  | cons st a ih =>
    intro b
    simp only [List.cons_append, execStmts]
    cases exec env s st with
    | none => simp
    | some r => obtain ⟨e', s'⟩ := r; simp [ih]


end Witverif.Abi
