import Witverif.Proofs.AbiStoreSpec
import Witverif.Proofs.AbiDealloc2
import Witverif.Proofs.AbiLower3
/-! C01, lowering to memory of memory-free types: executing the generator's statements writes the
bytes `Spec.store` specifies (up to read-equivalence of memories) and allocates nothing. -/
namespace Witverif.Abi
open Spec

/-- `x` denotes the interface value `v` in every extension of the environment and for every memory -/
def ValStable (env : Env) (x : Expr) (v : Val) : Prop :=
  ∀ fs ls m, eval ((env.extend fs).withLets ls) m x = some (.v v)

/-- `a` denotes the address `addr` in every extension of the environment and for every memory -/
def AddrStableM (env : Env) (a : Expr) (addr : Nat) : Prop :=
  ∀ fs ls m, eval ((env.extend fs).withLets ls) m a = some (.c ⟨ptrFT env.p, addr⟩)

theorem ValStable.here {env : Env} {x : Expr} {v : Val} (h : ValStable env x v) (m : Mem) :
    eval env m x = some (.v v) := by
  simpa [extend_nil, withLets_self] using h [] env.lets m

theorem AddrStableM.here {env : Env} {a : Expr} {addr : Nat} (h : AddrStableM env a addr) (m : Mem) :
    eval env m a = some (.c ⟨ptrFT env.p, addr⟩) := by
  simpa [extend_nil, withLets_self] using h [] env.lets m

theorem ValStable.withLets {env : Env} {x : Expr} {v : Val} (h : ValStable env x v) (ls : List (String × List MV)) :
    ValStable (env.withLets ls) x v := fun fs ls' m => h fs ls' m
theorem AddrStableM.withLets {env : Env} {a : Expr} {addr : Nat} (h : AddrStableM env a addr)
    (ls : List (String × List MV)) : AddrStableM (env.withLets ls) a addr := fun fs ls' m => h fs ls' m

theorem ValStable.extend {env : Env} {x : Expr} {v : Val} (h : ValStable env x v) (gs : List Frame) :
    ValStable (env.extend gs) x v := by
  intro fs ls m
  have := h (gs ++ fs) ls m
  simpa [Env.extend, List.append_assoc] using this
theorem AddrStableM.extend {env : Env} {a : Expr} {addr : Nat} (h : AddrStableM env a addr) (gs : List Frame) :
    AddrStableM (env.extend gs) a addr := by
  intro fs ls m
  have := h (gs ++ fs) ls m
  simpa [Env.extend, List.append_assoc] using this

/-- bytes `k < n` of a value depend only on the value modulo `256^n` -/
theorem byte_of_mod (v n k : Nat) (hk : k < n) : (v % 256 ^ n) / 256 ^ k % 256 = v / 256 ^ k % 256 := by
  have hdvd : 256 ^ (k + 1) ∣ 256 ^ n := Nat.pow_dvd_pow 256 (by omega)
  have h1 : v % 256 ^ n % 256 ^ (k + 1) = v % 256 ^ (k + 1) := Nat.mod_mod_of_dvd v hdvd
  rw [← Nat.mod_mul_right_div_self (v % 256 ^ n) (256 ^ k) 256, ← Nat.mod_mul_right_div_self v (256 ^ k) 256]
  rw [← Nat.pow_succ, h1]

theorem storeLE_low_bytes (m : Mem) (a v1 v2 n : Nat) (h : v1 % 256 ^ n = v2 % 256 ^ n) :
    MemEq (m.storeLE a v1 n) (m.storeLE a v2 n) := by
  intro x
  simp only [Mem.read_storeLE]
  split
  · rename_i hx
    rw [← byte_of_mod v1 n (x - a) (by omega), ← byte_of_mod v2 n (x - a) (by omega), h]
  · rfl

/-- statements that write (read-equivalently) what `spec` writes, allocate nothing, from any state -/
def Writes (p lvl : Nat) (x a : Expr) (v : Val) (ss : List Stmt) (spec : Nat → St → St) : Prop :=
  ∀ (env : Env) (s : MSt) (addr : Nat), env.p = p → env.frames.length = lvl + 1 →
    ValStable env x v → AddrStableM env a addr →
    ∃ ls m', execStmts env s ss = some (env.withLets ls, s.setMem m') ∧ StEq ⟨m', s.st.heap⟩ (spec addr s.st)

theorem setMem_st (s : MSt) (m : Mem) : (s.setMem m).st = ⟨m, s.st.heap⟩ := rfl
theorem setMem_setMem (s : MSt) (a b : Mem) : (s.setMem a).setMem b = s.setMem b := rfl

theorem writes_nil (p lvl : Nat) (x a : Expr) (v : Val) (spec : Nat → St → St) (h : ∀ addr s, spec addr s = s) :
    Writes p lvl x a v [] spec := by
  intro env s addr _ _ _ _
  exact ⟨env.lets, s.st.mem, by simp [execStmts, withLets_self, MSt.setMem], by rw [h]; exact StEq.refl _⟩

end Witverif.Abi

namespace Witverif.Abi
open Spec

/-- one store of a value computed by a pure single-operand instruction -/
theorem writes_one (p lvl : Nat) (x a : Expr) (v : Val) (k : StoreKind) (off : Off) (e : Expr) (cv : CVal)
    (sv w : Nat)
    (he : ∀ env m, eval env m x = some (.v v) → eval env m e = some (.c cv))
    (hw : storeWidth p k = w) (hb : cv.bits % 256 ^ w = sv % 256 ^ w) :
    Writes p lvl x a v [stS k off e a]
      (fun addr st => { st with mem := st.mem.storeLE (addr + off.at p) sv w }) := by
  intro env s addr hp _ hx ha
  subst hp
  refine ⟨(keyOf (.store k off) [e, a], []) :: env.lets,
    s.st.mem.storeLE (addr + off.at env.p) cv.bits (storeWidth env.p k), ?_, ?_⟩
  · simp [execStmts, exec, stS, he env s.st.mem (hx.here _), ha.here s.st.mem, execOp, Env.bind, Env.withLets]
  · rw [hw]
    exact ⟨storeLE_low_bytes _ _ _ _ _ hb, rfl⟩

theorem writes_append {p lvl : Nat} {x a : Expr} {v : Val} {s1 s2 : List Stmt} {f1 f2 : Nat → St → St}
    (h1 : Writes p lvl x a v s1 f1) (h2 : Writes p lvl x a v s2 f2)
    (hcongr : ∀ addr st st', StEq st st' → StEq (f2 addr st) (f2 addr st')) :
    Writes p lvl x a v (s1 ++ s2) (fun addr st => f2 addr (f1 addr st)) := by
  intro env s addr hp hl hx ha
  have ⟨l1, m1, e1, q1⟩ := h1 env s addr hp hl hx ha
  have ⟨l2, m2, e2, q2⟩ := h2 (env.withLets l1) (s.setMem m1) addr hp hl (hx.withLets l1) (ha.withLets l1)
  refine ⟨l2, m2, ?_, ?_⟩
  · rw [execStmts_append, e1]
    simp only [Option.bind_some, e2, withLets_withLets, setMem_setMem]
  · simp only [setMem_st] at q2
    exact q2.trans (hcongr addr _ _ q1)

theorem writes_congr {p lvl : Nat} {x a : Expr} {v : Val} {ss : List Stmt} {f g : Nat → St → St}
    (h : Writes p lvl x a v ss f) (hfg : ∀ addr st, f addr st = g addr st) : Writes p lvl x a v ss g := by
  intro env s addr hp hl hx ha
  have ⟨l, m, e, q⟩ := h env s addr hp hl hx ha
  exact ⟨l, m, e, by rw [← hfg]; exact q⟩

theorem wrap_mod_8 (n : Int) : wrap 32 n % 256 ^ 1 = wrap 8 n % 256 ^ 1 := by
  simp only [wrap]; omega
theorem wrap_mod_16 (n : Int) : wrap 32 n % 256 ^ 2 = wrap 16 n % 256 ^ 2 := by
  simp only [wrap]; omega

end Witverif.Abi
