import Witverif.Proofs.AbiStoreA2
/-! C01: allocating lowerings (string, canonical list, element-wise list, map) to memory. -/
namespace Witverif.Abi
open Spec

theorem bind_eq_withLets (env : Env) (o : Op) (args : List Expr) (rs : List MV) :
    env.bind o args rs = env.withLets ((keyOf o args, rs) :: env.lets) := rfl

/-- common tail: after an allocating lowering produced `(ptr, n)` in state `s1`, the two stores give the
spec's final memory -/
theorem alloc_then_ptr_len (p : Nat) (hp4 : p = 4 ∨ p = 8) (o : Op) (ho : NotLenStore o) (x a : Expr) (off : Off)
    (blocks : List (List Stmt × List Expr)) (env : Env) (s s1 : MSt) (addr ptr n : Nat) (hpe : env.p = p)
    (ha : AddrStableM env a addr)
    (hexec : exec env s (.eff o [x] blocks) = some (env.bind o [x] [.c (pcv p ptr), .c (pcv p n)], s1))
    (spec1 : St) (hq : StEq s1.st spec1) (hg : SameLedgers s s1) :
    ∃ ls s', execStmts env s [.eff o [x] blocks, stS .len (off + Off.ptrs 1) (.res 1 o [x]) a,
        stS .ptr off (.res 0 o [x]) a] = some (env.withLets ls, s') ∧
      StEq s'.st { spec1 with mem := (spec1.mem.storeLE (addr + off.at p) ptr p).storeLE (addr + off.at p + p) n p } ∧
      SameLedgers s s' := by
  have ⟨ls, he⟩ := exec_ptr_len p hp4 o ho x a off (env.bind o [x] [.c (pcv p ptr), .c (pcv p n)]) s1 addr ptr n env.lets
    rfl hpe (by rw [bind_eq_withLets]; exact ha.withLets _)
  refine ⟨ls, s1.setMem ((s1.st.mem.storeLE (addr + off.at p + p) n p).storeLE (addr + off.at p) ptr p), ?_, ?_,
    hg.trans (SameLedgers.setMem s1 _)⟩
  · simp only [execStmts, hexec, Option.bind_some] at he ⊢
    simpa [bind_eq_withLets, withLets_withLets] using he
  · refine ⟨?_, by simpa [setMem_st] using hq.2⟩
    simp only [setMem_st]
    have h1 := (hq.1.storeLE (addr + off.at p + p) n p).storeLE (addr + off.at p) ptr p
    exact h1.trans (Mem.storeLE_comm spec1.mem _ _ _ _ _ _ (Or.inr (Nat.le_refl _)))

theorem stable_key (env : Env) (lvl : Nat) (hl : env.frames.length = lvl + 1) (f : Frame) (v : Val)
    (hf : f.key = some (MV.v v)) : ValStable (env.extend [f]) (.key (lvl + 1)) v := by
  intro fs ls m
  simp [eval, frameAt, Env.extend, Env.withLets, List.getD, hl, hf]

theorem stable_val (env : Env) (lvl : Nat) (hl : env.frames.length = lvl + 1) (f : Frame) (v : Val)
    (hf : f.val = some (MV.v v)) : ValStable (env.extend [f]) (.val (lvl + 1)) v := by
  intro fs ls m
  simp [eval, frameAt, Env.extend, Env.withLets, List.getD, hl, hf]

/-- map entries stored one after the other by the per-entry block (key statements, then value statements) -/
theorem entries_iterA (p lvl : Nat) (k v : Ty) (voff : Off) (b1 b2 : List Stmt) (env : Env) (addr : Nat)
    (hp : env.p = p) (hl : env.frames.length = lvl + 1) (all : List Val)
    (hvo : voff.at p = alignTo (elemSize p k) (alignment p v)) :
    ∀ (vs : List Val) (j : Nat) (s : MSt), all.drop j = vs → hasTyEntries k v vs = true →
      (∀ x y, Val.record [x, y] ∈ vs → WritesA p (lvl + 1) (.key (lvl + 1)) (.base (lvl + 1)) x b1
          (fun b st => Spec.store p k x (b + Off.zero.at p) st)) →
      (∀ x y, Val.record [x, y] ∈ vs → WritesA p (lvl + 1) (.val (lvl + 1)) (.base (lvl + 1)) y b2
          (fun b st => Spec.store p v y (b + voff.at p) st)) →
      ∃ s', (List.range vs.length).foldlM (fun s i =>
          (entryFrame (addr + (j + i) * elemSize p (.tuple [k, v])) all[j + i]?).bind fun f =>
            (execBlockAt env s [(b1 ++ b2, [])] 0 f).map (fun (r : List MV × MSt) => r.2)) s = some s' ∧
        StEq s'.st (Spec.storeEntries p k v vs (addr + j * elemSize p (.tuple [k, v])) s.st) ∧ SameLedgers s s' := by
  intro vs
  induction vs with
  | nil =>
    intro j s _ _ _ _
    exact ⟨s, by simp [pure], by simpa [Spec.storeEntries] using StEq.refl _, SameLedgers.refl _⟩
  | cons e vs ih =>
    intro j s hdrop ht hk hv
    obtain ⟨x, y, rfl⟩ : ∃ x y, e = .record [x, y] := by
      cases e <;> (try (simp [hasTyEntries] at ht; done))
      rename_i fs
      rcases fs with _ | ⟨x, _ | ⟨y, _ | ⟨z, r⟩⟩⟩ <;> (try (simp [hasTyEntries] at ht; done))
      exact ⟨x, y, rfl⟩
    simp [hasTyEntries] at ht
    have hj : all[j]? = some (.record [x, y]) := by
      have := congrArg List.head? hdrop
      simpa [List.head?_drop] using this
    have hdrop' : all.drop (j + 1) = vs := by
      have := congrArg List.tail hdrop
      simpa [List.tail_drop] using this
    let fr : Frame := { key := some (.v x), val := some (.v y), base := some (addr + j * elemSize p (.tuple [k, v])) }
    have ⟨l1, t1, e1, q1, g1⟩ := hk x y (by simp) (env.extend [fr]) s (addr + j * elemSize p (.tuple [k, v]))
      hp (by simp [Env.extend, hl]) (stable_key env lvl hl fr x rfl) (stable_baseM env lvl hl fr _ rfl)
    have ⟨l2, t2, e2, q2, g2⟩ := hv x y (by simp) ((env.extend [fr]).withLets l1) t1 (addr + j * elemSize p (.tuple [k, v]))
      hp (by simp [Env.extend, Env.withLets, hl]) ((stable_val env lvl hl fr y rfl).withLets l1)
      ((stable_baseM env lvl hl fr _ rfl).withLets l1)
    have ⟨t3, e3, q3, g3⟩ := ih (j + 1) t2 hdrop' ht.2
      (fun x' y' hm => hk x' y' (by simp [hm])) (fun x' y' hm => hv x' y' (by simp [hm]))
    refine ⟨t3, ?_, ?_, (g1.trans g2).trans g3⟩
    · rw [List.length_cons, List.range_succ_eq_map, List.foldlM_cons]
      have hhead : ((entryFrame (addr + (j + 0) * elemSize p (.tuple [k, v])) all[j + 0]?).bind fun f =>
            (execBlockAt env s [(b1 ++ b2, [])] 0 f).map (fun (r : List MV × MSt) => r.2)) = some t2 := by
        simp only [Nat.add_zero, hj, entryFrame, Option.bind_some]
        simp [execBlockAt, enter_length_eq, execStmts_append, e1, fr, e2]
      rw [hhead]
      simp only [Option.bind_eq_bind, Option.bind_some, List.foldlM_map]
      have hfun : (fun (s' : MSt) (i : Nat) =>
            (entryFrame (addr + (j + i.succ) * elemSize p (.tuple [k, v])) all[j + i.succ]?).bind fun f =>
              (execBlockAt env s' [(b1 ++ b2, [])] 0 f).map (fun (r : List MV × MSt) => r.2))
          = (fun (s' : MSt) (i : Nat) =>
            (entryFrame (addr + (j + 1 + i) * elemSize p (.tuple [k, v])) all[j + 1 + i]?).bind fun f =>
              (execBlockAt env s' [(b1 ++ b2, [])] 0 f).map (fun (r : List MV × MSt) => r.2)) := by
        funext s' i
        rw [show j + i.succ = j + 1 + i by omega]
      rw [hfun, e3]
    · simp only [Spec.storeEntries]
      simp only [Off.zero_at, Nat.add_zero] at q1
      rw [hvo] at q2
      have hc1 := store_congrA p y v (addr + j * elemSize p (.tuple [k, v]) + alignTo (elemSize p k) (alignment p v)) _ _ ht.1.2 q1
      have hc2 := storeEntries_congrA p vs k v (addr + (j + 1) * elemSize p (.tuple [k, v])) _ _ ht.2 (q2.trans hc1)
      have haddr : addr + j * elemSize p (.tuple [k, v]) + elemSize p (.tuple [k, v])
          = addr + (j + 1) * elemSize p (.tuple [k, v]) := by
        rw [Nat.add_mul]; omega
      rw [haddr]
      exact q3.trans hc2

theorem hasTyEntries_mem (k v : Ty) : ∀ (vs : List Val), hasTyEntries k v vs = true →
    ∀ x y, Val.record [x, y] ∈ vs → hasTy k x = true ∧ hasTy v y = true := by
  intro vs
  induction vs with
  | nil => intro _ x y h; simp at h
  | cons e vs ih =>
    intro ht x y hm
    obtain ⟨x0, y0, rfl⟩ : ∃ x y, e = .record [x, y] := by
      cases e <;> (try (simp [hasTyEntries] at ht; done))
      rename_i fs
      rcases fs with _ | ⟨x, _ | ⟨y, _ | ⟨z, r⟩⟩⟩ <;> (try (simp [hasTyEntries] at ht; done))
      exact ⟨x, y, rfl⟩
    simp [hasTyEntries] at ht
    simp at hm
    rcases hm with ⟨rfl, rfl⟩ | hm
    · exact ht.1
    · exact ih ht.2 x y hm

end Witverif.Abi
