import Witverif.Proofs.AbiTotal3
import Witverif.Proofs.AbiCall
/-! C16 (core) / C02 "leaves no value unconsumed": `Generator::call` and `post_return` do not panic
(in particular the closing "stack is empty" assertions hold) for the variant/direction/async
combinations the backends use. -/
namespace Witverif.Abi

theorem lowerParams_total (c : Cfg) : ∀ (ts : List Ty) (nth : Nat), (flattenList ts).length ≤ 16 →
    ∃ r, lowerParams c ts nth = .ok r
  | [], _, _ => ⟨_, rfl⟩
  | t :: ts, nth, h => by
      simp [flattenList] at h
      have ⟨r1, h1⟩ := lower_total c t 0 (.arg nth) (by omega)
      have ⟨r2, h2⟩ := lowerParams_total c ts (nth + 1) (by omega)
      obtain ⟨s1, e1⟩ := r1
      obtain ⟨s2, e2⟩ := r2
      simp [lowerParams, h1, h2, bind, Except.bind, pure, Except.pure]

theorem storeParams_total (c : Cfg) : ∀ (ts : List Ty) (fos : List Off) (nth : Nat) (ptr : Expr),
    ∃ r, storeParams c ts fos nth ptr = .ok r
  | [], _, _, _ => by simp [storeParams, pure, Except.pure]
  | t :: ts, fos, nth, ptr => by
      cases fos with
      | nil => simp [storeParams, pure, Except.pure]
      | cons fo fos =>
        have ⟨r1, h1⟩ := store_total c t 0 (.arg nth) ptr fo
        have ⟨r2, h2⟩ := storeParams_total c ts fos (nth + 1) ptr
        simp [storeParams, h1, h2, bind, Except.bind, pure, Except.pure]

theorem liftParams_total (c : Cfg) : ∀ (ts : List Ty) (off : Nat), (flattenList ts).length ≤ 16 →
    flistsNonEmptyAll ts = true → ∃ rs, liftParams c 16 ts off = .ok rs ∧ rs.length = ts.length
  | [], _, _, _ => ⟨[], rfl, rfl⟩
  | t :: ts, off, h, hv => by
      simp [flattenList] at h
      simp [flistsNonEmptyAll] at hv
      have ht : (flatten t).length ≤ 16 := by omega
      have ⟨r1, h1⟩ := lift_total c t 0 ((List.range (flatten t).length).map fun i => .arg (off + i)) ht hv.1
      have ⟨r2, h2, hl⟩ := liftParams_total c ts (off + (flatten t).length) (by omega) hv.2
      refine ⟨r1 :: r2, ?_, by simp [hl]⟩
      simp [liftParams, flatTypes, ht, h1, h2, bind, Except.bind, pure, Except.pure]

theorem fieldOffs_singleton (t : Ty) : ∃ fo, fieldOffs [t] = [fo] := by
  simp [fieldOffs, fieldOffsets]

theorem resN_length (o : Op) (args : List Expr) (n : Nat) : (resN o args n).length = n := by
  simp [resN]

/-- validity of a function's types -/
def Func.valid (f : Func) : Bool := flistsNonEmptyAll f.params && flistsNonEmptyOpt f.result

/-- **Import glue never panics**: `Generator::call(GuestImport, LowerArgsLiftResults)` succeeds for every
function with valid types — flat or indirect parameters, flat result or return pointer — and its closing
assertions (operand count = core signature, exactly the declared results left on the stack) hold. -/
theorem call_import_total (canon : Ty → Bool) (f : Func) (hv : f.valid = true) :
    ∃ ss, call canon .guestImport true false f = .ok ss := by
  simp [Func.valid] at hv
  by_cases hind : (flattenList f.params).length > 16
  · -- indirect parameters
    have ⟨sp, hsp⟩ := storeParams_total ⟨canon, false⟩ f.params (fieldOffs f.params) 0
      (Expr.rp 0 (recordSizeOff f.params) (recordAlignOff f.params))
    by_cases hret : (flattenOpt f.result).length > 1
    · cases hres : f.result with
      | none => simp [hres, flattenOpt] at hret
      | some t =>
        have ⟨fo, hfo⟩ := fieldOffs_singleton t
        have ⟨r, hr⟩ := load_total ⟨canon, false⟩ t 0
          (Expr.rp 1 (recordSizeOff [t]) (recordAlignOff [t])) (Off.zero + fo)
        rw [hres] at hret
        simp [call, wasmSignature, maxFlatParams, maxFlatResults, hind, hret, hres, Variant.isExport, hsp, optTys,
          hfo, loadFields, hr, resN_length, bind, Except.bind, pure, Except.pure]
    · cases hres : f.result with
      | none =>
        simp [call, wasmSignature, maxFlatParams, maxFlatResults, hind, hres, flattenOpt, Variant.isExport, hsp,
          resN_length, resN, bind, Except.bind, pure, Except.pure]
      | some t =>
        rw [hres] at hret hv
        simp only [flattenOpt, flistsNonEmptyOpt] at hret hv
        have ht : (flatten t).length ≤ 16 := by omega
        have hl := fun xs => lift_total ⟨canon, false⟩ t 0 xs ht hv.2
        simp [call, wasmSignature, maxFlatParams, maxFlatResults, hind, hret, hres, flattenOpt, Variant.isExport, hsp,
          resN_length, bind, Except.bind, pure, Except.pure]
        obtain ⟨r, hr⟩ := hl (resN (Op.callWasm [CoreTy.ptr] (flatten t))
          [Expr.rp 0 (recordSizeOff f.params) (recordAlignOff f.params)] (flatten t).length)
        simp [hr]
  · -- flat parameters
    have ⟨⟨s0, st0⟩, hlp⟩ := lowerParams_total ⟨canon, false⟩ f.params 0 (by omega)
    have hlen := lowerParams_length _ _ _ _ _ hlp
    by_cases hret : (flattenOpt f.result).length > 1
    · cases hres : f.result with
      | none => simp [hres, flattenOpt] at hret
      | some t =>
        have ⟨fo, hfo⟩ := fieldOffs_singleton t
        have ⟨r, hr⟩ := load_total ⟨canon, false⟩ t 0
          (Expr.rp 0 (recordSizeOff [t]) (recordAlignOff [t])) (Off.zero + fo)
        rw [hres] at hret
        simp [call, wasmSignature, maxFlatParams, maxFlatResults, hind, hret, hres, Variant.isExport, hlp, hlen, optTys,
          hfo, loadFields, hr, resN_length, bind, Except.bind, pure, Except.pure]
    · cases hres : f.result with
      | none =>
        simp [call, wasmSignature, maxFlatParams, maxFlatResults, hind, hres, flattenOpt, Variant.isExport, hlp, hlen,
          resN, bind, Except.bind, pure, Except.pure]
      | some t =>
        rw [hres] at hret hv
        simp only [flattenOpt, flistsNonEmptyOpt] at hret hv
        have ht : (flatten t).length ≤ 16 := by omega
        obtain ⟨r, hr⟩ := lift_total ⟨canon, false⟩ t 0 (resN (Op.callWasm (flattenList f.params) (flatten t))
          st0 (flatten t).length) ht hv.2
        simp [call, wasmSignature, maxFlatParams, maxFlatResults, hind, hret, hres, flattenOpt, Variant.isExport, hlp,
          hlen, resN_length, hr, bind, Except.bind, pure, Except.pure]

end Witverif.Abi

namespace Witverif.Abi

theorem loadFields_ok_length (c : Cfg) : ∀ (ts : List Ty) (lvl : Nat) (fos : List Off) (a : Expr) (off : Off)
    (rs : List Expr), ts.length = fos.length → loadFields c lvl ts fos a off = .ok rs → rs.length = ts.length
  | [], _, _, _, _, rs, _, h => by simp [loadFields, pure, Except.pure] at h; simp [← h]
  | t :: ts, lvl, fos, a, off, rs, hl, h => by
      cases fos with
      | nil => simp at hl
      | cons fo fos =>
        simp only [loadFields, bind_ok] at h
        obtain ⟨r1, _, r2, h2, hp⟩ := h
        simp [pure, Except.pure] at hp
        subst hp
        simp [loadFields_ok_length c ts lvl fos a off r2 (by simpa using hl) h2]

theorem fieldOffs_length (ts : List Ty) : (fieldOffs ts).length = ts.length := by
  have h : ∀ (p cur : Nat) (ts : List Ty), (fieldOffsets p cur ts).length = ts.length := by
    intro p cur ts
    induction ts generalizing cur with
    | nil => rfl
    | cons t ts ih => simp [fieldOffsets, ih]
  simp [fieldOffs, h]

/-- arguments of an export wrapper: lifted from the flat core parameters or read from the parameter record -/
theorem exportArgs_total (c : Cfg) (f : Func) (hv : flistsNonEmptyAll f.params = true) :
    ∃ args, (if 16 < (flattenList f.params).length then
        loadFields c 0 f.params (fieldOffs f.params) (.arg 0) Off.zero
      else liftParams c 16 f.params 0) = .ok args := by
  by_cases hind : (flattenList f.params).length > 16
  · rw [if_pos hind]
    exact loadFields_total c f.params 0 _ _ _
  · rw [if_neg hind]
    have ⟨rs, h, _⟩ := liftParams_total c f.params 0 (by omega) hv
    exact ⟨rs, h⟩

/-- **Sync export glue never panics**: `Generator::call(GuestExport, LiftArgsLowerResults, async = false)`
succeeds for every function with valid types, and leaves exactly the declared core results. -/
theorem call_export_total (canon : Ty → Bool) (f : Func) (hv : f.valid = true) :
    ∃ ss, call canon .guestExport false false f = .ok ss := by
  simp [Func.valid] at hv
  have ⟨args, hargs⟩ := exportArgs_total ⟨canon, true⟩ f hv.1
  cases hres : f.result with
  | none =>
    simp [call, wasmSignature, maxFlatParams, maxFlatResults, hres, flattenOpt, Variant.isExport, hargs,
      bind, Except.bind, pure, Except.pure]
  | some t =>
    rw [hres] at hv
    simp only [flistsNonEmptyOpt] at hv
    by_cases hret : (flatten t).length > 1
    · have ⟨fo, hfo⟩ := fieldOffs_singleton t
      have ⟨ss, hss⟩ := store_total ⟨canon, true⟩ t 0
        (Expr.res 0 (Op.callInterface f.params.length 1 false) args)
        (Expr.rp 0 (recordSizeOff [t]) (recordAlignOff [t])) (Off.zero + fo)
      simp [call, wasmSignature, maxFlatParams, maxFlatResults, hres, flattenOpt, Variant.isExport, hargs, hret,
        optTys, hfo, storeFields, resN, hss, hd, bind, Except.bind, pure, Except.pure]
    · have ht : (flatten t).length ≤ 16 := by omega
      have ⟨⟨s2, st⟩, hlow⟩ := lower_total ⟨canon, true⟩ t 0
        (Expr.res 0 (Op.callInterface f.params.length 1 false) args) ht
      have hlen := (lower_shape _ _ _ _ _ _ hlow).2
      simp [call, wasmSignature, maxFlatParams, maxFlatResults, hres, flattenOpt, Variant.isExport, hargs, hret,
        resN, hd, hlow, hlen, bind, Except.bind, pure, Except.pure]

end Witverif.Abi

namespace Witverif.Abi

/-- **Async export glue never panics**: `call(GuestExportAsync | GuestExport, LiftArgsLowerResults,
async = true)` (the callback ABI of Rust/MoonBit/C, and C#'s use of `GuestExport` with `async_ = true`)
succeeds for every function with valid types and passes exactly the `task.return` operands: the flat
result if it has at most 16 slots, one pointer to the return area otherwise, nothing for no result. -/
theorem call_export_async_total (canon : Ty → Bool) (v : Variant) (hvar : v = .guestExportAsync ∨ v = .guestExport)
    (f : Func) (hv : f.valid = true) :
    ∃ ss, call canon v false true f = .ok ss := by
  simp [Func.valid] at hv
  have ⟨args, hargs⟩ := exportArgs_total ⟨canon, false⟩ f hv.1
  cases hres : f.result with
  | none =>
    rcases hvar with rfl | rfl <;>
    simp [call, wasmSignature, maxFlatParams, maxFlatResults, hres, flattenOpt, Variant.isExport, hargs,
      bind, Except.bind, pure, Except.pure]
  | some t =>
    rw [hres] at hv
    simp only [flistsNonEmptyOpt] at hv
    by_cases hbig : (flatten t).length ≤ 16
    · have ⟨⟨s2, st⟩, hlow⟩ := lower_total ⟨canon, false⟩ t 0
        (Expr.res 0 (Op.callInterface f.params.length 1 true) args) hbig
      have hlen := (lower_shape _ _ _ _ _ _ hlow).2
      by_cases hgt : (flatten t).length > 1 <;> rcases hvar with rfl | rfl <;>
      simp [call, wasmSignature, maxFlatParams, maxFlatResults, hres, flattenOpt, Variant.isExport, hargs, flatTypes,
        hbig, hgt, resN, hd, hlow, hlen, bind, Except.bind, pure, Except.pure]
    · have ⟨fo, hfo⟩ := fieldOffs_singleton t
      have ⟨ss, hss⟩ := store_total ⟨canon, false⟩ t 0
        (Expr.res 0 (Op.callInterface f.params.length 1 true) args)
        (Expr.rp 0 (recordSizeOff [t]) (recordAlignOff [t])) (Off.zero + fo)
      have hgt : (flatten t).length > 1 := by omega
      rcases hvar with rfl | rfl <;>
      simp [call, wasmSignature, maxFlatParams, maxFlatResults, hres, flattenOpt, Variant.isExport, hargs, flatTypes,
        hbig, hgt, optTys, hfo, storeFields, resN, hss, hd, bind, Except.bind, pure, Except.pure]

/-- `post_return` exists exactly for exports that return through a return area (the callers only emit it
when `guest_export_needs_post_return`, which implies a list/string in the result and hence > 1 flat slot);
there it never panics. -/
theorem postReturn_total (f : Func) (h : (flattenOpt f.result).length > 1) : ∃ ss, postReturn f = .ok ss := by
  cases hres : f.result with
  | none => simp [hres, flattenOpt] at h
  | some t =>
    rw [hres] at h
    simp only [flattenOpt] at h
    have ⟨fo, hfo⟩ := fieldOffs_singleton t
    have ⟨ss, hss⟩ := deallocIndirect_total false t 0 (hd [.arg 0]) fo
    simp [postReturn, wasmSignature, maxFlatResults, hres, flattenOpt, h, deallocInTypes, optTys, hfo, hss,
      bind, Except.bind, pure, Except.pure]

/-- and it is an assertion failure otherwise (`assert!(sig.retptr)`) -/
theorem postReturn_asserts (f : Func) (h : ¬ (flattenOpt f.result).length > 1) : postReturn f = .error .assert := by
  cases hres : f.result with
  | none => simp [postReturn, wasmSignature, maxFlatResults, hres, flattenOpt, bind, Except.bind, throw, throwThe,
      MonadExceptOf.throw]
  | some t =>
    rw [hres] at h
    simp only [flattenOpt] at h
    simp [postReturn, wasmSignature, maxFlatResults, hres, flattenOpt, h, bind, Except.bind, throw, throwThe,
      MonadExceptOf.throw]

end Witverif.Abi

namespace Witverif.Abi

mutual
/-- a type that owns heap memory (`needs_deallocate` in lists-only mode) has more than one flat slot, so an
export returning it returns through a return area — which is what `post_return` asserts -/
theorem needsDealloc_flat : ∀ (t : Ty), needsDealloc false t = true → flistsNonEmpty t = true →
    1 < (flatten t).length
  | .bool, h, _ | .s8, h, _ | .u8, h, _ | .s16, h, _ | .u16, h, _ | .s32, h, _ | .u32, h, _ | .s64, h, _
  | .u64, h, _ | .f32, h, _ | .f64, h, _ | .char, h, _ | .errctx, h, _ | .own, h, _ | .borrow, h, _
  | .future _, h, _ | .stream _, h, _ | .enum _, h, _ | .flags _, h, _ => by simp [needsDealloc] at h
  | .string, _, _ | .list _, _, _ | .map _ _, _, _ => by simp [flatten]
  | .record fs, h, hv => by
      simpa [flatten] using needsDeallocAny_flat fs (by simpa [needsDealloc] using h) (by simpa [flistsNonEmpty] using hv)
  | .tuple ts, h, hv => by
      simpa [flatten] using needsDeallocAny_flat ts (by simpa [needsDealloc] using h) (by simpa [flistsNonEmpty] using hv)
  | .variant cs, h, hv => by
      have := needsDeallocAnyOpt_flat cs (by simpa [needsDealloc] using h) (by simpa [flistsNonEmpty] using hv)
      simp [flatten]; omega
  | .option t, h, hv => by
      have := needsDealloc_flat t (by simpa [needsDealloc] using h) (by simpa [flistsNonEmpty] using hv)
      simp [flatten, joinFlat]; omega
  | .result a b, h, hv => by
      simp [needsDealloc] at h
      simp [flistsNonEmpty] at hv
      have hl := joinFlat_length_left (flattenOpt a) (flattenOpt b)
      have hr := joinFlat_length_right (flattenOpt a) (flattenOpt b)
      rcases h with h | h
      · have := needsDeallocOpt_flat a h hv.1
        simp [flatten]; omega
      · have := needsDeallocOpt_flat b h hv.2
        simp [flatten]; omega
  | .flist e n, h, hv => by
      simp [flistsNonEmpty] at hv
      have := needsDealloc_flat e (by simpa [needsDealloc] using h) hv.2
      have := flattenRep_le (flatten e) n hv.1
      simp [flatten]; omega
theorem needsDeallocAny_flat : ∀ (ts : List Ty), needsDeallocAny false ts = true → flistsNonEmptyAll ts = true →
    1 < (flattenList ts).length
  | [], h, _ => by simp [needsDeallocAny] at h
  | t :: ts, h, hv => by
      simp [needsDeallocAny] at h
      simp [flistsNonEmptyAll] at hv
      rcases h with h | h
      · have := needsDealloc_flat t h hv.1
        simp [flattenList]; omega
      · have := needsDeallocAny_flat ts h hv.2
        simp [flattenList]; omega
theorem needsDeallocOpt_flat : ∀ (o : Option Ty), needsDeallocOpt false o = true → flistsNonEmptyOpt o = true →
    1 < (flattenOpt o).length
  | none, h, _ => by simp [needsDeallocOpt] at h
  | some t, h, hv => by
      simpa [flattenOpt] using needsDealloc_flat t (by simpa [needsDeallocOpt] using h) (by simpa [flistsNonEmptyOpt] using hv)
theorem needsDeallocAnyOpt_flat : ∀ (cs : List (Option Ty)), needsDeallocAnyOpt false cs = true →
    flistsNonEmptyCases cs = true → 1 < (flattenCases cs).length
  | [], h, _ => by simp [needsDeallocAnyOpt] at h
  | c :: cs, h, hv => by
      simp [needsDeallocAnyOpt] at h
      simp [flistsNonEmptyCases] at hv
      have hl := joinFlat_length_left (flattenOpt c) (flattenCases cs)
      have hr := joinFlat_length_right (flattenOpt c) (flattenCases cs)
      rcases h with h | h
      · have := needsDeallocOpt_flat c h hv.1
        simp [flattenCases]; omega
      · have := needsDeallocAnyOpt_flat cs h hv.2
        simp [flattenCases]; omega
end

/-- wherever a backend decides to emit `cabi_post_*` (`guest_export_needs_post_return`), generating it does
not panic -/
theorem postReturn_total_of_needed (f : Func) (hv : f.valid = true) (h : needsPostReturn f = true) :
    ∃ ss, postReturn f = .ok ss := by
  simp [Func.valid] at hv
  exact postReturn_total f (needsDeallocOpt_flat f.result h hv.2)

end Witverif.Abi

namespace Witverif.Abi

/-- a method's first parameter is its `self` handle (one flat slot); this is what makes
`CoreTy.ptr :: pf.drop 1` as long as `pf` in `wasm_signature` -/
def Func.methodOk (f : Func) : Bool :=
  !f.isMethod || (match f.params with | .borrow :: _ | .own :: _ => true | _ => false)

theorem methodOk_length (f : Func) (h : f.methodOk = true) (hm : f.isMethod = true) :
    (CoreTy.ptr :: (flattenList f.params).drop 1).length = (flattenList f.params).length := by
  simp [Func.methodOk, hm] at h
  match hp : f.params, h with
  | .borrow :: ts, _ => simp [flattenList, flatten]
  | .own :: ts, _ => simp [flattenList, flatten]

/-- **Host side of an export** (`call(GuestExport, LowerArgsLiftResults)`: the caller of an exported core
function — used by the C02 host model, by no guest backend): never panics either. -/
theorem call_export_hostside_total (canon : Ty → Bool) (f : Func) (hv : f.valid = true) (hm : f.methodOk = true) :
    ∃ ss, call canon .guestExport true false f = .ok ss := by
  simp [Func.valid] at hv
  by_cases hind : (flattenList f.params).length > 16
  · have ⟨sp, hsp⟩ := storeParams_total ⟨canon, true⟩ f.params (fieldOffs f.params) 0
      (Expr.res 0 (Op.malloc (recordSizeOff f.params) (recordAlignOff f.params)) [])
    by_cases hret : (flattenOpt f.result).length > 1
    · cases hres : f.result with
      | none => simp [hres, flattenOpt] at hret
      | some t =>
        have ⟨fo, hfo⟩ := fieldOffs_singleton t
        have hl := fun a => load_total ⟨canon, true⟩ t 0 a (Off.zero + fo)
        rw [hres] at hret
        simp [call, wasmSignature, maxFlatParams, maxFlatResults, hind, hret, hres, Variant.isExport, hsp, optTys,
          hfo, loadFields, resN_length, resN, hd, bind, Except.bind, pure, Except.pure]
        obtain ⟨r, hr⟩ := hl (Expr.res 0 (Op.callWasm [CoreTy.ptr] [CoreTy.ptr])
          [Expr.res 0 (Op.malloc (recordSizeOff f.params) (recordAlignOff f.params)) []])
        simp [hr]
    · cases hres : f.result with
      | none =>
        simp [call, wasmSignature, maxFlatParams, maxFlatResults, hind, hres, flattenOpt, Variant.isExport, hsp,
          resN, bind, Except.bind, pure, Except.pure]
      | some t =>
        rw [hres] at hret hv
        simp only [flattenOpt, flistsNonEmptyOpt] at hret hv
        have ht : (flatten t).length ≤ 16 := by omega
        obtain ⟨r, hr⟩ := lift_total ⟨canon, true⟩ t 0 (resN (Op.callWasm [CoreTy.ptr] (flatten t))
          [Expr.res 0 (Op.malloc (recordSizeOff f.params) (recordAlignOff f.params)) []] (flatten t).length) ht hv.2
        simp [call, wasmSignature, maxFlatParams, maxFlatResults, hind, hret, hres, flattenOpt, Variant.isExport, hsp,
          resN_length, hr, bind, Except.bind, pure, Except.pure]
  · have ⟨⟨s0, st0⟩, hlp⟩ := lowerParams_total ⟨canon, true⟩ f.params 0 (by omega)
    have hlen := lowerParams_length _ _ _ _ _ hlp
    have hplen : (if f.isMethod = true then CoreTy.ptr :: (flattenList f.params).drop 1 else flattenList f.params).length
        = (flattenList f.params).length := by
      by_cases hmm : f.isMethod = true
      · rw [if_pos hmm]; exact methodOk_length f hm hmm
      · rw [if_neg hmm]
    by_cases hret : (flattenOpt f.result).length > 1
    · cases hres : f.result with
      | none => simp [hres, flattenOpt] at hret
      | some t =>
        have ⟨fo, hfo⟩ := fieldOffs_singleton t
        have hl := fun a => load_total ⟨canon, true⟩ t 0 a (Off.zero + fo)
        rw [hres] at hret
        simp only [List.drop_one] at hplen
        simp [call, wasmSignature, maxFlatParams, maxFlatResults, hind, hret, hres, Variant.isExport, hlp, hlen, hplen,
          optTys, hfo, loadFields, resN_length, resN, hd, bind, Except.bind, pure, Except.pure]
        obtain ⟨r, hr⟩ := hl (Expr.res 0 (Op.callWasm
          (if f.isMethod = true then CoreTy.ptr :: (flattenList f.params).tail else flattenList f.params) [CoreTy.ptr]) st0)
        simp [hr]
    · cases hres : f.result with
      | none =>
        simp only [List.drop_one] at hplen
        simp [call, wasmSignature, maxFlatParams, maxFlatResults, hind, hres, flattenOpt, Variant.isExport, hlp, hlen,
          hplen, resN, bind, Except.bind, pure, Except.pure]
      | some t =>
        rw [hres] at hret hv
        simp only [flattenOpt, flistsNonEmptyOpt] at hret hv
        have ht : (flatten t).length ≤ 16 := by omega
        have hl := fun xs => lift_total ⟨canon, true⟩ t 0 xs ht hv.2
        simp only [List.drop_one] at hplen
        simp [call, wasmSignature, maxFlatParams, maxFlatResults, hind, hret, hres, flattenOpt, Variant.isExport, hlp,
          hlen, hplen, resN_length, bind, Except.bind, pure, Except.pure]
        obtain ⟨r, hr⟩ := hl (resN (Op.callWasm
          (if f.isMethod = true then CoreTy.ptr :: (flattenList f.params).tail else flattenList f.params) (flatten t))
          st0 (flatten t).length)
        simp [hr]

end Witverif.Abi

namespace Witverif.Abi

/-- **Host side of an import** (`call(GuestImport, LiftArgsLowerResults)`: the callee of an imported core
function — used by the C02 host model, by no guest backend): never panics either. -/
theorem call_import_hostside_total (canon : Ty → Bool) (f : Func) (hv : f.valid = true) :
    ∃ ss, call canon .guestImport false false f = .ok ss := by
  simp [Func.valid] at hv
  have ⟨args, hargs⟩ := exportArgs_total ⟨canon, true⟩ f hv.1
  cases hres : f.result with
  | none =>
    simp [call, wasmSignature, maxFlatParams, maxFlatResults, hres, flattenOpt, Variant.isExport, hargs,
      bind, Except.bind, pure, Except.pure]
  | some t =>
    rw [hres] at hv
    simp only [flistsNonEmptyOpt] at hv
    by_cases hret : (flatten t).length > 1
    · have ⟨fo, hfo⟩ := fieldOffs_singleton t
      have hst := fun a => store_total ⟨canon, true⟩ t 0
        (Expr.res 0 (Op.callInterface f.params.length 1 false) args) a (Off.zero + fo)
      by_cases hind : 16 < (flattenList f.params).length
      · obtain ⟨ss, hss⟩ := hst (Expr.arg 1)
        rw [if_pos hind] at hargs
        simp [call, wasmSignature, maxFlatParams, maxFlatResults, hres, flattenOpt, Variant.isExport, hargs, hret, hind,
          optTys, hfo, storeFields, resN, hss, hd, bind, Except.bind, pure, Except.pure]
      · obtain ⟨ss, hss⟩ := hst (Expr.arg (flattenList f.params).length)
        rw [if_neg hind] at hargs
        simp [call, wasmSignature, maxFlatParams, maxFlatResults, hres, flattenOpt, Variant.isExport, hargs, hret, hind,
          optTys, hfo, storeFields, resN, hss, hd, bind, Except.bind, pure, Except.pure]
    · have ht : (flatten t).length ≤ 16 := by omega
      have ⟨⟨s2, st⟩, hlow⟩ := lower_total ⟨canon, true⟩ t 0
        (Expr.res 0 (Op.callInterface f.params.length 1 false) args) ht
      have hlen := (lower_shape _ _ _ _ _ _ hlow).2
      simp [call, wasmSignature, maxFlatParams, maxFlatResults, hres, flattenOpt, Variant.isExport, hargs, hret,
        resN, hd, hlow, hlen, bind, Except.bind, pure, Except.pure]

end Witverif.Abi
