import Witverif.Proofs.AbiEval
import Witverif.Proofs.AbiSpecWf2
import Witverif.Proofs.AbiCast
/-! C01, flat lowering of memory-free types: the generator's tree evaluates to `Spec.lowerFlat`. -/
namespace Witverif.Abi
open Spec

theorem castsFor_length : ∀ (as bs : List CoreTy) (cs : List Bitcast),
    castsFor as bs = .ok cs → cs.length = min as.length bs.length := by
  intro as
  induction as with
  | nil => intro bs cs h; cases bs <;> simp [castsFor] at h <;> simp [← h]
  | cons a as ih =>
    intro bs cs h
    cases bs with
    | nil => simp [castsFor] at h; simp [← h]
    | cons b bs =>
      simp only [castsFor] at h
      split at h <;> simp at h
      rename_i c cs' _ hcs'
      subst h
      simp [ih bs cs' hcs']

theorem applyCasts_length (casts : List Bitcast) (xs : List Expr) (h : casts.length = xs.length) :
    (applyCasts casts xs).length = xs.length := by
  unfold applyCasts
  split <;> simp [h]

theorem mapM_ok_length {α β : Type} (f : α → G β) : ∀ (xs : List α) (ys : List β),
    xs.mapM f = .ok ys → ys.length = xs.length := by
  intro xs
  induction xs with
  | nil => intro ys h; simp [pure, Except.pure] at h; simp [← h]
  | cons x xs ih =>
    intro ys h
    simp only [List.mapM_cons, bind_ok] at h
    obtain ⟨y, _, ys', hys', hp⟩ := h
    simp [pure, Except.pure] at hp
    subst hp
    simp [ih ys' hys']

end Witverif.Abi

namespace Witverif.Abi
open Spec

theorem mapM_all {α β : Type} (f : α → G β) (P : α → β → Prop) (hf : ∀ x y, f x = .ok y → P x y) :
    ∀ (xs : List α) (ys : List β), xs.mapM f = .ok ys → ∀ y ∈ ys, ∃ x ∈ xs, P x y := by
  intro xs
  induction xs with
  | nil => intro ys h; simp [pure, Except.pure] at h; subst h; simp
  | cons x xs ih =>
    intro ys h
    simp only [List.mapM_cons, bind_ok] at h
    obtain ⟨y, hy, ys', hys', hp⟩ := h
    simp [pure, Except.pure] at hp
    subst hp
    intro z hz
    simp at hz
    rcases hz with rfl | hz
    · exact ⟨x, by simp, hf x z hy⟩
    · have ⟨x', hx', hP⟩ := ih ys' hys' z hz
      exact ⟨x', by simp [hx'], hP⟩

theorem flatMap_length_const {α β : Type} (f : α → List β) (k : Nat) :
    ∀ (xs : List α), (∀ x ∈ xs, (f x).length = k) → (xs.flatMap f).length = xs.length * k := by
  intro xs
  induction xs with
  | nil => simp
  | cons x xs ih =>
    intro h
    simp only [List.flatMap_cons, List.length_append, List.length_cons]
    rw [h x (by simp), ih (fun y hy => h y (by simp [hy])), Nat.succ_mul, Nat.add_comm]

theorem finishLower_shape (o : Op) (x : Expr) (arms : List Block) (n : Nat)
    (hs : ∀ b ∈ arms, b.1 = []) : finishLower o x arms n = ([], projN o [x] (arms.map (·.2)) n) := by
  unfold finishLower
  have : arms.any (fun b => !b.1.isEmpty) = false := by
    simp only [List.any_eq_false]
    intro b hb
    simp [hs b hb]
  simp [this]

theorem finishLower_length (o : Op) (x : Expr) (arms : List Block) (n : Nat) :
    (finishLower o x arms n).2.length = n := by
  unfold finishLower; split <;> simp [resN, projN]

theorem flattenRep_length (f : List CoreTy) (n : Nat) : (flattenRep f n).length = n * f.length := by
  induction n with
  | zero => simp [flattenRep]
  | succ n ih => simp [flattenRep, ih, Nat.succ_mul, Nat.add_comm]

theorem armOfLower_shape (results : List CoreTy) (i : Nat) (st : List Stmt) (rs : List Expr) (temp : List CoreTy)
    (b : Block) (h : armOfLower results i (some ((st, rs), temp)) = .ok b) : b.1 = st := by
  simp only [armOfLower, bind_ok] at h
  obtain ⟨_, _, hp⟩ := h
  simp [pure, Except.pure] at hp
  simp [← hp]

mutual
/-- shape of the lowering: memory-free types emit no statements; always `flatten t` many operands -/
theorem lower_shape (c : Cfg) : ∀ (t : Ty) (lvl : Nat) (x : Expr) (ss : List Stmt) (es : List Expr),
    lower c lvl t x = .ok (ss, es) → (memFree t = true → ss = []) ∧ es.length = (flatten t).length
  | .bool, _, _, _, _, h | .s8, _, _, _, _, h | .u8, _, _, _, _, h | .s16, _, _, _, _, h
  | .u16, _, _, _, _, h | .s32, _, _, _, _, h | .u32, _, _, _, _, h | .s64, _, _, _, _, h
  | .u64, _, _, _, _, h | .char, _, _, _, _, h | .f32, _, _, _, _, h | .f64, _, _, _, _, h
  | .errctx, _, _, _, _, h | .own, _, _, _, _, h | .borrow, _, _, _, _, h
  | .future _, _, _, _, _, h | .stream _, _, _, _, _, h | .enum _, _, _, _, _, h => by
      simp [lower, pure, Except.pure] at h
      obtain ⟨rfl, rfl⟩ := h
      simp [flatten]
  | .string, _, _, _, _, h => by
      simp [lower, pure, Except.pure] at h
      obtain ⟨rfl, rfl⟩ := h
      simp [flatten, memFree, listRes]
  | .list e, lvl, x, ss, es, h => by
      simp only [lower] at h
      split at h
      · simp [pure, Except.pure] at h; obtain ⟨rfl, rfl⟩ := h; simp [flatten, memFree, listRes]
      · simp only [bind_ok] at h
        obtain ⟨_, _, hp⟩ := h
        simp [pure, Except.pure] at hp; obtain ⟨rfl, rfl⟩ := hp; simp [flatten, memFree, listRes]
  | .map k v, lvl, x, ss, es, h => by
      simp only [lower, bind_ok] at h
      obtain ⟨_, _, _, _, hp⟩ := h
      simp [pure, Except.pure] at hp; obtain ⟨rfl, rfl⟩ := hp; simp [flatten, memFree, listRes]
  | .flags n, _, _, _, _, h => by
      simp [lower, pure, Except.pure] at h
      obtain ⟨rfl, rfl⟩ := h
      simp [flatten, projN]
  | .record fs, lvl, x, ss, es, h => by
      simp only [lower] at h
      have := lowerFields_shape c fs lvl _ x 0 ss es h
      simpa [flatten, memFree] using this
  | .tuple ts, lvl, x, ss, es, h => by
      simp only [lower] at h
      have := lowerFields_shape c ts lvl _ x 0 ss es h
      simpa [flatten, memFree] using this
  | .variant cs, lvl, x, ss, es, h => by
      simp only [lower, bind_ok] at h
      obtain ⟨results, hres, arms, harms, hp⟩ := h
      have hr := flatU_ok hres
      simp [pure, Except.pure] at hp
      refine ⟨?_, ?_⟩
      · intro hm
        simp [memFree] at hm
        have hs := lowerArms_shape c cs lvl results 0 arms harms hm.2
        rw [finishLower_shape _ _ _ _ hs] at hp
        simp at hp; exact hp.1
      · have := finishLower_length (.variantLower cs.length results) x arms results.length
        rw [hp] at this
        simpa [hr] using this
  | .option t, lvl, x, ss, es, h => by
      simp only [lower, bind_ok] at h
      obtain ⟨results, hres, a0, ha0, lw, hlw, temp, htemp, a1, ha1', hp⟩ := h
      have hr := flatU_ok hres
      simp [pure, Except.pure] at hp
      refine ⟨?_, ?_⟩
      · intro hm
        simp [memFree] at hm
        have h0 : a0.1 = [] := by simp [armOfLower, pure, Except.pure] at ha0; simp [← ha0]
        have h1 : a1.1 = [] := by
          obtain ⟨st, rs⟩ := lw
          rw [armOfLower_shape _ _ _ _ _ _ ha1']
          exact (lower_shape c t _ _ _ _ hlw).1 hm
        rw [finishLower_shape _ _ _ _ (by intro b hb; simp at hb; rcases hb with rfl | rfl <;> assumption)] at hp
        simp at hp; exact hp.1
      · have := finishLower_length (.optionLower results) x [a0, a1] results.length
        rw [hp] at this
        simpa [hr] using this
  | .result a b, lvl, x, ss, es, h => by
      simp only [lower, bind_ok] at h
      obtain ⟨results, hres, a0, ha0, a1, ha1, hp⟩ := h
      have hr := flatU_ok hres
      simp [pure, Except.pure] at hp
      refine ⟨?_, ?_⟩
      · intro hm
        simp [memFree] at hm
        have h0 := lowerArm_shape c a lvl results 0 a0 ha0 hm.1
        have h1 := lowerArm_shape c b lvl results 1 a1 ha1 hm.2
        rw [finishLower_shape _ _ _ _ (by intro b hb; simp at hb; rcases hb with rfl | rfl <;> assumption)] at hp
        simp at hp; exact hp.1
      · have := finishLower_length (.resultLower results) x [a0, a1] results.length
        rw [hp] at this
        simpa [hr] using this
  | .flist e n, lvl, x, ss, es, h => by
      simp only [lower, bind_ok] at h
      obtain ⟨rs, hrs, hp⟩ := h
      simp [pure, Except.pure] at hp
      obtain ⟨rfl, rfl⟩ := hp
      have hall : ∀ r ∈ rs, (memFree e = true → r.1 = []) ∧ r.2.length = (flatten e).length := by
        intro r hr
        have ⟨_, _, hP⟩ := mapM_all (lower c lvl e)
          (fun _ r => (memFree e = true → r.1 = []) ∧ r.2.length = (flatten e).length)
          (fun y r hy => lower_shape c e lvl y r.1 r.2 hy) _ rs hrs r hr
        exact hP
      have hlen := mapM_ok_length _ _ _ hrs
      refine ⟨?_, ?_⟩
      · intro hm
        simp [memFree] at hm
        simp only [List.flatMap_eq_nil_iff]
        intro r hr; exact (hall r hr).1 hm
      · simp only [flatten, flattenRep_length]
        rw [flatMap_length_const _ _ _ (fun r hr => (hall r hr).2), hlen]
        simp [projN]
theorem lowerFields_shape (c : Cfg) : ∀ (fs : List Ty) (lvl : Nat) (o : Op) (x : Expr) (i : Nat)
    (ss : List Stmt) (es : List Expr),
    lowerFields c lvl fs o x i = .ok (ss, es) →
      (memFreeAll fs = true → ss = []) ∧ es.length = (flattenList fs).length
  | [], _, _, _, _, _, _, h => by
      simp [lowerFields, pure, Except.pure] at h
      obtain ⟨rfl, rfl⟩ := h
      simp [flattenList]
  | t :: ts, lvl, o, x, i, ss, es, h => by
      simp only [lowerFields, bind_ok] at h
      obtain ⟨⟨s1, r1⟩, h1, ⟨s2, r2⟩, h2, hp⟩ := h
      simp [pure, Except.pure] at hp
      obtain ⟨rfl, rfl⟩ := hp
      have ⟨a1, b1⟩ := lower_shape c t lvl _ s1 r1 h1
      have ⟨a2, b2⟩ := lowerFields_shape c ts lvl o x (i + 1) s2 r2 h2
      refine ⟨?_, by simp [flattenList, b1, b2]⟩
      intro hm
      simp [memFreeAll] at hm
      simp [a1 hm.1, a2 hm.2]
theorem lowerArms_shape (c : Cfg) : ∀ (cs : List (Option Ty)) (lvl : Nat) (results : List CoreTy) (i : Nat)
    (arms : List Block), lowerArms c lvl cs results i = .ok arms → memFreeCases cs = true →
      ∀ b ∈ arms, b.1 = []
  | [], _, _, _, arms, h, _ => by
      simp [lowerArms, pure, Except.pure] at h; subst h; simp
  | o :: cs, lvl, results, i, arms, h, hm => by
      simp only [lowerArms, bind_ok] at h
      obtain ⟨arm, harm, rest, hrest, hp⟩ := h
      simp [pure, Except.pure] at hp
      subst hp
      simp [memFreeCases] at hm
      intro b hb
      simp at hb
      rcases hb with rfl | hb
      · exact lowerArm_shape c o lvl results i _ harm hm.1
      · exact lowerArms_shape c cs lvl results (i + 1) rest hrest hm.2 b hb
theorem lowerArm_shape (c : Cfg) : ∀ (o : Option Ty) (lvl : Nat) (results : List CoreTy) (i : Nat) (b : Block),
    lowerArm c lvl o results i = .ok b → memFreeOpt o = true → b.1 = []
  | none, _, _, _, b, h, _ => by
      simp [lowerArm, armOfLower, pure, Except.pure] at h; simp [← h]
  | some t, lvl, results, i, b, h, hm => by
      simp only [lowerArm, bind_ok] at h
      obtain ⟨⟨st, rs⟩, hlw, temp, _, harm⟩ := h
      rw [armOfLower_shape _ _ _ _ _ _ harm]
      simp [memFreeOpt] at hm
      exact (lower_shape c t _ _ _ _ hlw).1 hm
end

end Witverif.Abi
