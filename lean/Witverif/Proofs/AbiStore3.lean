import Witverif.Proofs.AbiStore2
/-! C01: iteration lemmas for stores (flags words, fixed-length lists). -/
namespace Witverif.Abi
open Spec

/-- closed form of memory after `k` 32-bit words `W 0 … W (k-1)` were stored at `a, a+4, …` -/
def wordsMem (m : Mem) (a : Nat) (W : Nat → Nat) (k : Nat) (x : Nat) : Nat :=
  if a ≤ x ∧ x < a + 4 * k then (W ((x - a) / 4) / 256 ^ ((x - a) % 4)) % 256 else m.read x

theorem words_asc (m : Mem) (a : Nat) (W : Nat → Nat) : ∀ k x,
    ((List.range k).foldl (fun m w => m.storeLE (a + 4 * w) (W w) 4) m).read x = wordsMem m a W k x := by
  intro k
  induction k with
  | zero => intro x; simp [wordsMem]; intro h1 h2; omega
  | succ k ih =>
    intro x
    rw [List.range_succ, List.foldl_append]
    simp only [List.foldl_cons, List.foldl_nil, Mem.read_storeLE, ih, wordsMem]
    by_cases h1 : a + 4 * k ≤ x ∧ x < a + 4 * k + 4
    · have h2 : a ≤ x ∧ x < a + 4 * (k + 1) := by omega
      have hd : (x - a) / 4 = k := by omega
      have hm : (x - a) % 4 = x - (a + 4 * k) := by omega
      simp [h1, h2, hd, hm]
    · by_cases h3 : a ≤ x ∧ x < a + 4 * k
      · have h2 : a ≤ x ∧ x < a + 4 * (k + 1) := by omega
        simp [h1, h2, h3]
      · have h2 : ¬ (a ≤ x ∧ x < a + 4 * (k + 1)) := by omega
        simp [h1, h2, h3]

/-- storing the top word first and then the lower `k` words gives the same closed form -/
theorem wordsMem_step (m : Mem) (a : Nat) (W : Nat → Nat) (k x : Nat) :
    wordsMem (m.storeLE (a + 4 * k) (W k) 4) a W k x = wordsMem m a W (k + 1) x := by
  simp only [wordsMem, Mem.read_storeLE]
  by_cases h3 : a ≤ x ∧ x < a + 4 * k
  · have h2 : a ≤ x ∧ x < a + 4 * (k + 1) := by omega
    simp [h2, h3]
  · by_cases h1 : a + 4 * k ≤ x ∧ x < a + 4 * k + 4
    · have h2 : a ≤ x ∧ x < a + 4 * (k + 1) := by omega
      have hd : (x - a) / 4 = k := by omega
      have hm : (x - a) % 4 = x - (a + 4 * k) := by omega
      simp [h1, h2, h3, hd, hm]
    · have h2 : ¬ (a ≤ x ∧ x < a + 4 * (k + 1)) := by omega
      simp [h1, h2, h3]

theorem Off.bytes_at (p n : Nat) : (Off.bytes n).at p = n := by
  simp only [Off.at, Off.bytes]; split <;> rfl

/-- the flags words stored top-down by the generated code equal the spec's bottom-up fold -/
theorem writes_words (p lvl : Nat) (x a : Expr) (v : Val) (off : Off) (W : Nat → Nat) (es : Nat → Expr) :
    ∀ k, (∀ i, i < k → ∀ env m, eval env m x = some (.v v) → eval env m (es i) = some (.c ⟨.i32, W i⟩)) →
      Writes p lvl x a v ((List.range k).reverse.map fun i => stS .i32 (off + Off.bytes (i * 4)) (es i) a)
      (fun addr st => { st with mem := (List.range k).foldl (fun m w => m.storeLE (addr + off.at p + 4 * w) (W w) 4) st.mem }) := by
  intro k he
  -- prove the closed form for the executed statements, then compare with the ascending fold
  suffices h : ∀ k, (∀ i, i < k → ∀ env m, eval env m x = some (.v v) → eval env m (es i) = some (.c ⟨.i32, W i⟩)) →
      ∀ (env : Env) (s : MSt) (addr : Nat), env.p = p → env.frames.length = lvl + 1 →
      ValStable env x v → AddrStableM env a addr →
      ∃ ls m', execStmts env s ((List.range k).reverse.map fun i => stS .i32 (off + Off.bytes (i * 4)) (es i) a)
          = some (env.withLets ls, s.setMem m') ∧ ∀ y, m'.read y = wordsMem s.st.mem (addr + off.at p) W k y by
    intro env s addr hp hl hx ha
    have ⟨ls, m', hexec, hread⟩ := h k he env s addr hp hl hx ha
    exact ⟨ls, m', hexec, ⟨fun y => by rw [hread, words_asc], rfl⟩⟩
  intro k
  induction k with
  | zero =>
    intro _ env s addr _ _ _ _
    exact ⟨env.lets, s.st.mem, by simp [execStmts, withLets_self, MSt.setMem],
      by intro y; simp [wordsMem]; intro h1 h2; omega⟩
  | succ k ih =>
    intro he' env s addr hp hl hx ha
    rw [List.range_succ, List.reverse_append, List.reverse_singleton, List.singleton_append, List.map_cons]
    have ⟨l1, m1, e1, q1⟩ := writes_one p lvl x a v .i32 (off + Off.bytes (k * 4)) (es k) ⟨.i32, W k⟩ (W k) 4
      (he' k (by omega)) rfl rfl env s addr hp hl hx ha
    have ⟨l2, m2, e2, q2⟩ := ih (fun i hi => he' i (by omega)) (env.withLets l1) (s.setMem m1) addr hp hl
      (hx.withLets l1) (ha.withLets l1)
    refine ⟨l2, m2, ?_, ?_⟩
    · have : execStmts env s (stS .i32 (off + Off.bytes (k * 4)) (es k) a ::
          ((List.range k).reverse.map fun i => stS .i32 (off + Off.bytes (i * 4)) (es i) a))
          = (execStmts env s [stS .i32 (off + Off.bytes (k * 4)) (es k) a]).bind fun (e', s') =>
              execStmts e' s' ((List.range k).reverse.map fun i => stS .i32 (off + Off.bytes (i * 4)) (es i) a) := by
        rw [← execStmts_append]; rfl
      rw [this, e1]
      simp only [Option.bind_some, e2, withLets_withLets, setMem_setMem]
    · intro y
      rw [q2 y, ← wordsMem_step]
      simp only [wordsMem, setMem_st]
      have hq := q1.1 y
      simp only [Off.at_add, Off.bytes_at] at hq
      have haddr : addr + (off.at p + k * 4) = addr + off.at p + 4 * k := by omega
      rw [haddr] at hq
      split
      · rfl
      · exact hq

end Witverif.Abi

namespace Witverif.Abi
open Spec

theorem stable_elem (env : Env) (lvl : Nat) (hl : env.frames.length = lvl + 1) (f : Frame) (v : Val)
    (hf : f.elem = some (MV.v v)) : ValStable (env.extend [f]) (.elem (lvl + 1)) v := by
  intro fs ls m
  simp [eval, frameAt, Env.extend, Env.withLets, List.getD, hl, hf]

theorem stable_baseM (env : Env) (lvl : Nat) (hl : env.frames.length = lvl + 1) (f : Frame) (b : Nat)
    (hb : f.base = some b) : AddrStableM (env.extend [f]) (.base (lvl + 1)) b := by
  intro fs ls m
  simp [eval, frameAt, Env.extend, Env.withLets, List.getD, hl, hb]

/-- elements of a fixed-length list stored one after the other by the per-element block -/
theorem flist_iter (p lvl : Nat) (e : Ty) (off : Off) (body : List Stmt) (env : Env) (addr : Nat)
    (hp : env.p = p) (hl : env.frames.length = lvl + 1) (all : List Val)
    (hm : memFree e = true) :
    ∀ (vs : List Val) (j : Nat) (s : MSt), all.drop j = vs → hasTyAll e vs = true →
      (∀ v, v ∈ vs → Writes p (lvl + 1) (.elem (lvl + 1)) (.base (lvl + 1)) v body
          (fun b st => Spec.store p e v (b + off.at p) st)) →
      ∃ m', (List.range vs.length).foldlM (fun s i =>
          (execBlockAt env s [(body, [])] 0
            { elem := (all[j + i]?).map MV.v, base := some (addr + (j + i) * elemSize p e) }).map (·.2)) s
            = some (s.setMem m') ∧
        StEq ⟨m', s.st.heap⟩ (Spec.storeElems p e vs (addr + j * elemSize p e + off.at p) s.st) := by
  intro vs
  induction vs with
  | nil =>
    intro j s _ _ _
    exact ⟨s.st.mem, by simp [pure, MSt.setMem], by simpa [Spec.storeElems] using StEq.refl _⟩
  | cons v vs ih =>
    intro j s hdrop ht hw
    simp [hasTyAll] at ht
    have hj : all[j]? = some v := by
      have := congrArg List.head? hdrop
      simpa [List.head?_drop] using this
    have hdrop' : all.drop (j + 1) = vs := by
      have := congrArg List.tail hdrop
      simpa [List.tail_drop] using this
    have ⟨ls, m1, e1, q1⟩ := hw v (by simp)
      (env.extend [{ elem := some (MV.v v), base := some (addr + j * elemSize p e) }]) s (addr + j * elemSize p e)
      hp (by simp [Env.extend, hl]) (stable_elem env lvl hl _ v rfl) (stable_baseM env lvl hl _ _ rfl)
    have ⟨m2, e2, q2⟩ := ih (j + 1) (s.setMem m1) hdrop' ht.2 (fun w hw' => hw w (by simp [hw']))
    refine ⟨m2, ?_, ?_⟩
    · rw [List.length_cons, List.range_succ_eq_map, List.foldlM_cons]
      have hhead : Option.map (fun x => x.2) (execBlockAt env s [(body, [])] 0
            { elem := Option.map MV.v all[j + 0]?, base := some (addr + (j + 0) * elemSize p e) })
          = some (s.setMem m1) := by
        simp [hj, execBlockAt, enter_length_eq, e1]
      rw [hhead]
      simp only [Option.bind_eq_bind, Option.bind_some, List.foldlM_map]
      have hfun : (fun (x : MSt) (y : Nat) => Option.map (fun x => x.2)
            (execBlockAt env x [(body, [])] 0
              { elem := Option.map MV.v all[j + y.succ]?, base := some (addr + (j + y.succ) * elemSize p e) }))
          = (fun (s : MSt) (i : Nat) => Option.map (fun x => x.2)
            (execBlockAt env s [(body, [])] 0
              { elem := Option.map MV.v all[j + 1 + i]?, base := some (addr + (j + 1 + i) * elemSize p e) })) := by
        funext s' i
        rw [show j + i.succ = j + 1 + i by omega]
      rw [hfun, e2, setMem_setMem]
    · simp only [setMem_st] at q2
      simp only [Spec.storeElems]
      have hc := storeElems_congr p vs e (addr + (j + 1) * elemSize p e + off.at p) _ _ hm ht.2 q1
      have haddr : addr + j * elemSize p e + off.at p + elemSize p e = addr + (j + 1) * elemSize p e + off.at p := by
        rw [Nat.add_mul]; omega
      rw [haddr]
      exact q2.trans hc

end Witverif.Abi
