import Witverif.Text.MacroDeps
/-! Helper lemmas about the `MacroDeps` model (used by C32). -/
namespace Witverif.Text.MacroDeps

theorem mem_children {fs : FS} {d : RPath} {n : Name} {k : Kind} :
    (n, k) ∈ children fs d ↔ ∃ e ∈ fs, e.parent = d ∧ e.name = n ∧ e.kind = k := by
  simp only [children, List.mem_map, List.mem_filter, beq_iff_eq, Prod.mk.injEq]
  constructor
  · rintro ⟨e, ⟨he, hp⟩, hn, hk⟩; exact ⟨e, he, hp, hn, hk⟩
  · rintro ⟨e, he, hp, hn, hk⟩; exact ⟨e, ⟨he, hp⟩, hn, hk⟩

theorem mem_insertSorted (x y : Name × Kind) (l : List (Name × Kind)) :
    y ∈ insertSorted x l ↔ y = x ∨ y ∈ l := by
  induction l with
  | nil => simp [insertSorted]
  | cons z zs ih =>
    simp only [insertSorted]
    split
    · simp
    · simp only [List.mem_cons, ih]
      constructor
      · rintro (h | h | h)
        · exact Or.inr (Or.inl h)
        · exact Or.inl h
        · exact Or.inr (Or.inr h)
      · rintro (h | h | h)
        · exact Or.inr (Or.inl h)
        · exact Or.inl h
        · exact Or.inr (Or.inr h)

theorem mem_sortEntries (y : Name × Kind) (l : List (Name × Kind)) :
    y ∈ sortEntries l ↔ y ∈ l := by
  induction l with
  | nil => simp [sortEntries]
  | cons x xs ih => simp [sortEntries, mem_insertSorted, ih]

theorem mem_dedup (x : RPath) (l : List RPath) : x ∈ dedup l ↔ x ∈ l := by
  induction l with
  | nil => simp [dedup]
  | cons y ys ih =>
    simp only [dedup, List.mem_cons, List.mem_filter, ih, bne_iff_ne, ne_eq]
    constructor
    · rintro (h | ⟨h, _⟩)
      · exact Or.inl h
      · exact Or.inr h
    · rintro (h | h)
      · exact Or.inl h
      · by_cases hxy : x = y
        · exact Or.inl hxy
        · exact Or.inr ⟨h, hxy⟩

theorem nodup_dedup (l : List RPath) : (dedup l).Nodup := by
  induction l with
  | nil => simp [dedup]
  | cons y ys ih =>
    simp only [dedup, List.nodup_cons, List.mem_filter, bne_self_eq_false, Bool.false_eq_true,
      and_false, not_false_eq_true, true_and]
    exact ih.sublist List.filter_sublist

/-- A file read by `parse_deps_dir` whose path is not reported: a wasm-encoded package sitting
directly in a `deps` directory under a name with extension `wit`/`wat`/`wasm`. -/
def EncodedDepRead (fs : FS) (p : RPath) : Prop :=
  ∃ n d, p = n :: depsName :: d ∧ isDepFileName n = true ∧
    (n, Kind.file .wasmPkg) ∈ children fs (depsName :: d)

/-- invariant of the `parse_deps_dir` loop -/
theorem depsLoop_spec (fs : FS) (dd : RPath) (es : List (Name × Kind)) :
    ∀ t, (depsLoop fs dd es).tracked = some t →
      (∀ p ∈ t, p ∈ (depsLoop fs dd es).reads) ∧
      (∀ p ∈ (depsLoop fs dd es).reads, p ∈ t ∨
        ∃ n, p = n :: dd ∧ isDepFileName n = true ∧ (n, Kind.file .wasmPkg) ∈ es) := by
  induction es with
  | nil => intro t h; simp [depsLoop] at h ⊢; subst h; simp
  | cons e rest ih =>
    obtain ⟨n, k⟩ := e
    intro t h
    cases k with
    | dir =>
      simp only [depsLoop] at h ⊢
      split at h
      · rename_i hg
        simp only [hg, if_true] at ⊢
        simp only [Option.map_eq_some_iff] at h
        obtain ⟨t', ht', rfl⟩ := h
        obtain ⟨h1, h2⟩ := ih t' ht'
        constructor
        · intro p hp
          rcases List.mem_append.mp hp with hp | hp
          · exact List.mem_append.mpr (Or.inl hp)
          · exact List.mem_append.mpr (Or.inr (h1 p hp))
        · intro p hp
          rcases List.mem_append.mp hp with hp | hp
          · exact Or.inl (List.mem_append.mpr (Or.inl hp))
          · rcases h2 p hp with h | ⟨m, hm, he, hmem⟩
            · exact Or.inl (List.mem_append.mpr (Or.inr h))
            · exact Or.inr ⟨m, hm, he, List.mem_cons_of_mem _ hmem⟩
      · simp at h
    | file c =>
      simp only [depsLoop] at h ⊢
      split at h
      · rename_i hd
        simp only [hd, if_true] at ⊢
        cases c with
        | wit =>
          simp only [Option.map_eq_some_iff] at h
          obtain ⟨t', ht', rfl⟩ := h
          obtain ⟨h1, h2⟩ := ih t' ht'
          constructor
          · intro p hp
            rcases List.mem_cons.mp hp with hp | hp
            · exact List.mem_cons.mpr (Or.inl hp)
            · exact List.mem_cons.mpr (Or.inr (h1 p hp))
          · intro p hp
            rcases List.mem_cons.mp hp with hp | hp
            · exact Or.inl (List.mem_cons.mpr (Or.inl hp))
            · rcases h2 p hp with h | ⟨m, hm, he, hmem⟩
              · exact Or.inl (List.mem_cons.mpr (Or.inr h))
              · exact Or.inr ⟨m, hm, he, List.mem_cons_of_mem _ hmem⟩
        | wasmPkg =>
          obtain ⟨h1, h2⟩ := ih t h
          constructor
          · intro p hp
            exact List.mem_cons.mpr (Or.inr (h1 p hp))
          · intro p hp
            rcases List.mem_cons.mp hp with hp | hp
            · exact Or.inr ⟨n, hp, hd, List.mem_cons_self⟩
            · rcases h2 p hp with h | ⟨m, hm, he, hmem⟩
              · exact Or.inl h
              · exact Or.inr ⟨m, hm, he, List.mem_cons_of_mem _ hmem⟩
        | bad => simp at h
      · rename_i hd
        simp only [hd] at ⊢
        obtain ⟨h1, h2⟩ := ih t h
        refine ⟨h1, ?_⟩
        intro p hp
        rcases h2 p hp with h | ⟨m, hm, he, hmem⟩
        · exact Or.inl h
        · exact Or.inr ⟨m, hm, he, List.mem_cons_of_mem _ hmem⟩

/-- what one traversal result must satisfy -/
def Good (fs : FS) (r : R) : Prop :=
  ∀ t, r.tracked = some t →
    (∀ p ∈ t, p ∈ r.reads) ∧ (∀ p ∈ r.reads, p ∈ t ∨ EncodedDepRead fs p)

theorem pushDir_good (fs : FS) (d : RPath) : Good fs (pushDir fs d) := by
  intro t h
  by_cases hg : groupOk fs d = true
  · cases hl : lookup fs (depsName :: d) with
    | none =>
      simp only [pushDir, hg, hl, Bool.not_true, Bool.false_eq_true, if_false,
        Option.some.injEq] at h ⊢
      subst h
      exact ⟨fun p hp => (mem_dedup p _).mp hp, fun p hp => Or.inl ((mem_dedup p _).mpr hp)⟩
    | some k =>
      cases k with
      | file c => simp [pushDir, hg, hl] at h
      | dir =>
        simp only [pushDir, hg, hl, Bool.not_true, Bool.false_eq_true, if_false,
          Option.map_eq_some_iff] at h ⊢
        obtain ⟨t', ht', rfl⟩ := h
        obtain ⟨h1, h2⟩ := depsLoop_spec fs _ _ t' ht'
        constructor
        · intro p hp
          rcases List.mem_append.mp ((mem_dedup p _).mp hp) with hp | hp
          · exact List.mem_append.mpr (Or.inl hp)
          · exact List.mem_append.mpr (Or.inr (h1 p hp))
        · intro p hp
          rcases List.mem_append.mp hp with hp | hp
          · exact Or.inl ((mem_dedup p _).mpr (List.mem_append.mpr (Or.inl hp)))
          · rcases h2 p hp with h | ⟨m, hm, he, hmem⟩
            · exact Or.inl ((mem_dedup p _).mpr (List.mem_append.mpr (Or.inr h)))
            · exact Or.inr ⟨m, d, hm, he, (mem_sortEntries _ _).mp hmem⟩
  · simp [pushDir, hg] at h

theorem pushPath_good (fs : FS) (p : RPath) : Good fs (pushPath fs p) := by
  unfold pushPath
  split
  · exact pushDir_good fs p
  · intro t h; simp at h
  · intro t h
    simp only [Option.some.injEq] at h
    subst h
    exact ⟨fun q hq => hq, fun q hq => Or.inl hq⟩
  · intro t h; simp at h

theorem parsePaths_good (fs : FS) (root : RPath) (ps : List PathArg) :
    Good fs (parsePaths fs root ps) := by
  induction ps with
  | nil => intro t h; simp [parsePaths] at h ⊢; subst h; simp
  | cons p ps ih =>
    intro t h
    cases hc : canonicalize fs root p with
    | none => simp [parsePaths, hc] at h
    | some c =>
      cases ht1 : (pushPath fs c).tracked with
      | none => simp [parsePaths, hc, ht1] at h
      | some t1 =>
        simp only [parsePaths, hc, ht1, Option.map_eq_some_iff] at h ⊢
        obtain ⟨t2, ht2, rfl⟩ := h
        obtain ⟨a1, a2⟩ := pushPath_good fs c t1 ht1
        obtain ⟨b1, b2⟩ := ih t2 ht2
        constructor
        · intro q hq
          rcases List.mem_append.mp hq with hq | hq
          · exact List.mem_append.mpr (Or.inl (a1 q hq))
          · exact List.mem_append.mpr (Or.inr (b1 q hq))
        · intro q hq
          rcases List.mem_append.mp hq with hq | hq
          · rcases a2 q hq with h | h
            · exact Or.inl (List.mem_append.mpr (Or.inl h))
            · exact Or.inr h
          · rcases b2 q hq with h | h
            · exact Or.inl (List.mem_append.mpr (Or.inr h))
            · exact Or.inr h

theorem failIf_good (fs : FS) (r : R) (ok : Bool) (h : Good fs r) : Good fs (failIf r ok) := by
  unfold failIf
  split
  · exact h
  · intro t ht; simp at ht

theorem parseSource_good (fs : FS) (root : RPath) (s : Option Source) :
    Good fs (parseSource fs root s) := by
  unfold parseSource
  split
  · exact failIf_good _ _ _ (parsePaths_good _ _ _)
  · split
    · exact failIf_good _ _ _ (parsePaths_good _ _ _)
    · apply failIf_good
      intro t h; simp at h; subst h; simp
  · exact parsePaths_good _ _ _
  · exact parsePaths_good _ _ _

theorem run_good (fs : FS) (root : RPath) (inv : Invocation) (ok : Bool) :
    Good fs (run fs root inv ok) := by
  unfold run
  split
  · intro t h; simp at h
  · exact failIf_good _ _ _ (parseSource_good _ _ _)

end Witverif.Text.MacroDeps

namespace Witverif.Text.MacroDepsSpec
open Witverif.Text.MacroDeps

theorem rawSafe_tail {c : Char} {p : List Char} (h : rawSafe (c :: p) = true) : rawSafe p = true := by
  unfold rawSafe at h
  split at h
  · rename_i heq; simp at heq
  · simp at h
  · rename_i heq
    simp only [List.cons.injEq] at heq
    rw [heq.2]; exact h

theorem rawBody_append (p rest : List Char) (h : rawSafe p = true) :
    rawBody (p ++ '"' :: '#' :: rest) = some (p, rest) := by
  induction p with
  | nil => simp [rawBody]
  | cons c p' ih =>
    have ih' := ih (rawSafe_tail h)
    simp only [List.cons_append]
    unfold rawBody
    split
    · rename_i heq; simp at heq
    · rename_i r heq
      simp only [List.cons.injEq] at heq
      obtain ⟨rfl, heq⟩ := heq
      cases p' with
      | nil => simp at heq
      | cons c2 p'' =>
        simp only [List.cons_append, List.cons.injEq] at heq
        obtain ⟨rfl, _⟩ := heq
        simp [rawSafe] at h
    · rename_i c' rest' hne heq
      simp only [List.cons.injEq] at heq
      obtain ⟨rfl, rfl⟩ := heq
      simp [ih']

theorem stripPrefix_append (p s : List Char) : stripPrefix p (p ++ s) = some s := by
  simp [stripPrefix]

theorem includePre_eq : includePre = anchorOpen := rfl

theorem anchorOpen_ne_nil : anchorOpen ≠ [] := by decide

theorem includePost_eq : includePost = '"' :: '#' :: anchorClose := by decide

end Witverif.Text.MacroDepsSpec
