import Witverif.Proofs.Names
/-! Per-backend lemmas for C13: every declaration a generator model emits is the one the spec
assigns to the same item (names *and* core signatures), and the per-item soundness/completeness
records consumed by the generic traversal lemmas of `Proofs/Names.lean`. -/
namespace Witverif.Abi.Names
open Witverif.Abi

theorem imp_eq {a b : Imp} (h1 : a.module = b.module) (h2 : a.name = b.name) (h3 : a.params = b.params)
    (h4 : a.results = b.results) : a = b := by
  cases a; cases b; simp_all

theorem exp_eq {a b : Exp} (h2 : a.name = b.name) (h3 : a.params = b.params)
    (h4 : a.results = b.results) : a = b := by
  cases a; cases b; simp_all

/-- one declaration of a payload-site block against `Spec.fsIntrinsic` -/
syntax "fs_case " term ", " term ", " ident ", " ident : tactic
macro_rules
  | `(tactic| fs_case $op, $a, $s, $e) => `(tactic| (
      refine ⟨$op, $a, ?_⟩
      simp only [Spec.fsIntrinsic, FsOp.mayAsync, Bool.false_and, Bool.true_and, Bool.not_true, Bool.not_false,
        Bool.false_eq_true, if_false, if_true, Option.some.injEq]
      apply imp_eq <;> simp [rootOr_eq_moduleOf, Spec.fsSig, FsOp.str, FsIdx.str, kindStr, rwParams] <;>
        cases $s:ident <;> cases $e:ident <;> simp <;> str_eq))

/-- the configuration only selects the async ABI for functions whose type is async -/
def asyncOk (_ : Key) (f : Fn) : Prop := f.sel = true → f.witAsync = true

theorem legacy_tail (k : Key) (f : Fn) : legacyCoreExportName k f = Spec.exportTail k f := by
  unfold legacyCoreExportName Spec.exportTail
  cases k.worldKey <;> simp <;> str_eq

/-! ### membership helpers for `Spec.exportsOfFn` / `importsOfFn` -/

theorem mem_exportsOfFn_sync_normal {k f x} (h : Spec.funcExport .sync k f .normal = some x) :
    x ∈ Spec.exportsOfFn k f := by
  unfold Spec.exportsOfFn; simp [h]

theorem mem_exportsOfFn_sync_post {k f x} (h : Spec.funcExport .sync k f .postReturn = some x) :
    x ∈ Spec.exportsOfFn k f := by
  unfold Spec.exportsOfFn; simp [h]

theorem mem_exportsOfFn_acb_normal {k} {f : Fn} {x} (ha : f.witAsync = true)
    (h : Spec.funcExport .asyncCallback k f .normal = some x) : x ∈ Spec.exportsOfFn k f := by
  unfold Spec.exportsOfFn; simp [h, ha]

theorem mem_exportsOfFn_acb_cb {k} {f : Fn} {x} (ha : f.witAsync = true)
    (h : Spec.funcExport .asyncCallback k f .callback = some x) : x ∈ Spec.exportsOfFn k f := by
  unfold Spec.exportsOfFn; simp [h, ha]

theorem mem_importsOfFn_sync {k f} : Spec.funcImport .sync k f ∈ Spec.importsOfFn k f := by
  unfold Spec.importsOfFn; simp

theorem mem_importsOfFn_async {k} {f : Fn} (ha : f.witAsync = true) :
    Spec.funcImport .asyncCallback k f ∈ Spec.importsOfFn k f := by
  unfold Spec.importsOfFn; simp [ha]

theorem mem_importsOfFn_fs {k f d} (h : d ∈ Spec.fsAll k f false) : d ∈ Spec.importsOfFn k f := by
  unfold Spec.importsOfFn; simp [h]

theorem mem_importsOfExportedFn_fs {k f d} (h : d ∈ Spec.fsAll k f true) :
    d ∈ Spec.importsOfExportedFn k f := by
  unfold Spec.importsOfExportedFn; simp [h]

theorem mem_importsOfExportedFn_taskReturn {k f} : Spec.taskReturn k f ∈ Spec.importsOfExportedFn k f := by
  unfold Spec.importsOfExportedFn; simp

/-! ### resource intrinsics and destructors, in the shape the generators build them -/

theorem worldKey_of_ne_root {k : Key} (h : k ≠ .root) : ∃ m, k.worldKey = some m := by
  cases k with
  | root => exact absurd rfl h
  | name s => exact ⟨s, rfl⟩
  | id i => exact ⟨i.str, rfl⟩

theorem rootOr_of_worldKey {k : Key} {m : String} (h : k.worldKey = some m) : rootOr k = m := by
  simp [rootOr, h]

theorem spec_importedDrop (k : Key) (r : String) :
    Spec.resourceIntrinsic .sync k r .importedDrop = some ⟨rootOr k, "[resource-drop]" ++ r, [.i32], []⟩ := by
  unfold Spec.resourceIntrinsic rootOr
  cases k.worldKey <;> simp [LLAbi.importPrefix] <;> (try constructor) <;> str_eq

theorem spec_exportedDrop {k : Key} {m : String} (h : k.worldKey = some m) (r : String) :
    Spec.resourceIntrinsic .sync k r .exportedDrop = some ⟨"[export]" ++ m, "[resource-drop]" ++ r, [.i32], []⟩ := by
  unfold Spec.resourceIntrinsic; simp [h, LLAbi.importPrefix]

theorem spec_exportedNew {k : Key} {m : String} (h : k.worldKey = some m) (r : String) :
    Spec.resourceIntrinsic .sync k r .exportedNew = some ⟨"[export]" ++ m, "[resource-new]" ++ r, [.i32], [.i32]⟩ := by
  unfold Spec.resourceIntrinsic; simp [h, LLAbi.importPrefix]

theorem spec_exportedRep {k : Key} {m : String} (h : k.worldKey = some m) (r : String) :
    Spec.resourceIntrinsic .sync k r .exportedRep = some ⟨"[export]" ++ m, "[resource-rep]" ++ r, [.i32], [.i32]⟩ := by
  unfold Spec.resourceIntrinsic; simp [h, LLAbi.importPrefix]

theorem spec_dtor {k : Key} {m : String} (h : k.worldKey = some m) (r : String) :
    Spec.dtor .sync k r = some ⟨m ++ "#[dtor]" ++ r, [.i32], []⟩ := by
  unfold Spec.dtor; simp [h, LLAbi.exportPrefix]

/-- the three `[export]` intrinsics, any order, against the spec's list -/
theorem exported_intrinsics_mem {k : Key} {m : String} (h : k.worldKey = some m) (r : String) (d : Imp)
    (hd : d = ⟨"[export]" ++ m, "[resource-drop]" ++ r, [.i32], []⟩ ∨
          d = ⟨"[export]" ++ m, "[resource-new]" ++ r, [.i32], [.i32]⟩ ∨
          d = ⟨"[export]" ++ m, "[resource-rep]" ++ r, [.i32], [.i32]⟩) :
    d ∈ (Spec.resourceIntrinsic .sync k r .exportedDrop).toList ++
        (Spec.resourceIntrinsic .sync k r .exportedNew).toList ++
        (Spec.resourceIntrinsic .sync k r .exportedRep).toList := by
  rw [spec_exportedDrop h, spec_exportedNew h, spec_exportedRep h]
  rcases hd with rfl | rfl | rfl <;> simp

theorem dtor_mem {k : Key} {m : String} (h : k.worldKey = some m) (r : String) :
    (⟨m ++ "#[dtor]" ++ r, [.i32], []⟩ : Exp) ∈
      (Spec.dtor .sync k r).toList ++ (Spec.dtor .asyncCallback k r).toList ++ (Spec.dtor .asyncStackful k r).toList := by
  rw [spec_dtor h]; simp

/-! ### C -/
namespace C

theorem fsDecls_spec (k : Key) (fname : String) (exported : Bool) (s : Bool) (i : Nat) :
    ∀ d ∈ fsDecls ((if exported then "[export]" else "") ++ rootOr k) (kindStr s) s i fname,
      ∃ op a, Spec.fsIntrinsic k fname s (.idx i) op exported a = some d := by
  intro d hd
  simp only [fsDecls, List.mem_cons, List.not_mem_nil, or_false] at hd
  rcases hd with rfl | rfl | rfl | rfl | rfl | rfl | rfl
  · fs_case .new, false, s, exported
  · fs_case .read, true, s, exported
  · fs_case .write, true, s, exported
  · fs_case .cancelRead, false, s, exported
  · fs_case .cancelWrite, false, s, exported
  · fs_case .dropReadable, false, s, exported
  · fs_case .dropWritable, false, s, exported

theorem fs_sound (k : Key) (f : Fn) (exported : Bool) :
    ∀ d ∈ fs (if exported then "[export]" else "") k f, d ∈ Spec.fsAll k f exported := by
  intro d hd
  simp only [fs, List.mem_flatMap] at hd
  obtain ⟨⟨s, i⟩, hs, hd⟩ := hd
  obtain ⟨op, a, h⟩ := fsDecls_spec k f.name exported s.stream i d hd
  exact Spec.mem_fsAll hs h

theorem funcImport_eq (k : Key) (f : Fn) : funcImport k f = Spec.funcImport (Spec.abiOf f) k f := by
  unfold funcImport Spec.funcImport Spec.abiOf
  cases f.sel <;> simp [LLAbi.importPrefix, LLAbi.importVariant, rootOr_eq_moduleOf]

theorem mainExport_eq (k : Key) (f : Fn) :
    Spec.funcExport (Spec.abiOf f) k f .normal = some (mainExport k f) := by
  unfold mainExport Spec.funcExport Spec.abiOf exportPrefix exportVariant
  rw [legacy_tail]
  cases f.sel <;> simp [LLAbi.exportPrefix, LLAbi.exportVariant]

theorem callbackExport_eq (k : Key) (f : Fn) (h : f.sel = true) :
    Spec.funcExport .asyncCallback k f .callback = some (callbackExport k f) := by
  unfold callbackExport Spec.funcExport exportPrefix
  rw [legacy_tail]
  simp [h, LLAbi.exportPrefix, i3]

theorem postReturnExport_eq (k : Key) (f : Fn) (h : f.sel = false) :
    Spec.funcExport .sync k f .postReturn = some (postReturnExport k f) := by
  unfold postReturnExport Spec.funcExport exportVariant
  rw [legacy_tail]
  simp [h, LLAbi.exportPrefix, LLAbi.exportVariant]

theorem taskReturn_eq (k : Key) (f : Fn) : taskReturn k f = Spec.taskReturn k f := by
  unfold taskReturn Spec.taskReturn
  have h := taskReturn_params f
  apply imp_eq <;> simp [rootOr_eq_moduleOf, h.1, h.2] <;> rfl

theorem exportFn_sound (k : Key) (f : Fn) (hok : asyncOk k f) :
    ∀ x ∈ exportFn k f, x ∈ Spec.exportsOfFn k f := by
  intro x hx
  unfold exportFn at hx
  have hm := mainExport_eq k f
  cases hs : f.sel with
  | false =>
    simp only [hs, Bool.false_eq_true, if_false, List.mem_cons] at hx
    unfold Spec.abiOf at hm; simp only [hs, Bool.false_eq_true, if_false] at hm
    rcases hx with rfl | hx
    · exact mem_exportsOfFn_sync_normal hm
    · split at hx
      · simp only [List.mem_cons, List.not_mem_nil, or_false] at hx
        subst hx
        exact mem_exportsOfFn_sync_post (postReturnExport_eq k f hs)
      · simp at hx
  | true =>
    have ha := hok hs
    simp only [hs, if_true, List.mem_cons, List.not_mem_nil, or_false] at hx
    unfold Spec.abiOf at hm; simp only [hs, if_true] at hm
    rcases hx with rfl | rfl
    · exact mem_exportsOfFn_acb_normal ha hm
    · exact mem_exportsOfFn_acb_cb ha (callbackExport_eq k f hs)

theorem importFn_sound (k : Key) (f : Fn) (hok : asyncOk k f) :
    ∀ d ∈ importFn k f, d.imp ∈ Spec.importsOfFn k f := by
  intro d hd
  simp only [importFn, List.mem_cons, List.mem_map] at hd
  rcases hd with rfl | ⟨i, hi, rfl⟩
  · simp only [must, funcImport_eq]
    unfold Spec.abiOf
    cases hs : f.sel with
    | false => simpa using mem_importsOfFn_sync
    | true => simpa using mem_importsOfFn_async (hok hs)
  · exact mem_importsOfFn_fs (by simpa [opt] using fs_sound k f false i (by simpa using hi))

theorem exportFnImports_sound (k : Key) (f : Fn) :
    ∀ d ∈ exportFnImports k f, d.imp ∈ Spec.importsOfExportedFn k f := by
  intro d hd
  simp only [exportFnImports, List.mem_append, List.mem_map] at hd
  rcases hd with hd | ⟨i, hi, rfl⟩
  · split at hd
    · simp only [List.mem_cons, List.not_mem_nil, or_false] at hd
      subst hd
      simpa [must, taskReturn_eq] using mem_importsOfExportedFn_taskReturn
    · simp at hd
  · exact mem_importsOfExportedFn_fs (by simpa [opt] using fs_sound k f true i (by simpa using hi))

theorem sound : emit.SoundOn asyncOk (fun _ _ => True) where
  importFn := importFn_sound
  exportFnImports := fun k f _ => exportFnImports_sound k f
  exportFn := exportFn_sound
  importRes := by
    intro k r d hd
    simp only [emit, importRes, List.mem_cons, List.not_mem_nil, or_false] at hd
    subst hd
    simp [must, resourceDropImport, spec_importedDrop]
  exportResImports := by
    intro k r hk d hd
    obtain ⟨m, hm⟩ := worldKey_of_ne_root hk
    simp only [emit, exportResImports, hm, List.mem_cons, List.not_mem_nil, or_false] at hd
    apply exported_intrinsics_mem hm
    rcases hd with rfl | rfl | rfl <;> simp [must]
  exportRes := by
    intro k r hk _ x hx
    obtain ⟨m, hm⟩ := worldKey_of_ne_root hk
    simp only [emit, exportRes, hm, List.mem_cons, List.not_mem_nil, or_false] at hx
    subst hx
    exact dtor_mem hm r
  worldImports := by
    intro _ _ d hd
    simp only [emit, List.mem_map] at hd
    obtain ⟨i, hi, rfl⟩ := hd
    simp only [opt]
    revert i; decide
  worldExports := by
    intro _ _ x hx
    simp only [emit, List.mem_cons, List.not_mem_nil, or_false] at hx
    simp [hx]

theorem complete (k : Key) (f : Fn) : ∀ x ∈ Spec.requiredOfFn k f, x ∈ exportFn k f := by
  intro x hx
  unfold Spec.requiredOfFn at hx
  unfold exportFn
  have hm := mainExport_eq k f
  cases hs : f.sel with
  | false =>
    simp only [hs, Bool.false_eq_true, if_false, List.append_nil] at hx
    rw [hm] at hx; simp at hx; subst hx; simp
  | true =>
    simp only [hs, if_true] at hx
    rw [hm, callbackExport_eq k f hs] at hx
    simp at hx
    rcases hx with rfl | rfl <;> simp

end C
/-! ### Go (same string building as C, five intrinsics per payload site) -/
namespace Go

theorem funcImport_eq (k : Key) (f : Fn) : funcImport k f = Spec.funcImport (Spec.abiOf f) k f :=
  C.funcImport_eq k f

theorem fs_sub_C (inImport : Bool) (k : Key) (f : Fn) :
    ∀ d ∈ fs inImport k f, d ∈ C.fs (if !inImport then "[export]" else "") k f := by
  intro d hd
  simp only [fs, List.mem_flatMap] at hd
  obtain ⟨⟨s, i⟩, hs, hd⟩ := hd
  simp only [C.fs, List.mem_flatMap]
  refine ⟨(s, i), hs, ?_⟩
  cases inImport <;>
    simp only [fsDecls, C.fsDecls, List.mem_cons, List.not_mem_nil, or_false, Bool.not_false, Bool.not_true,
      if_true, if_false, Bool.false_eq_true] at hd ⊢ <;>
    rcases hd with rfl | rfl | rfl | rfl | rfl <;> simp

theorem fs_sound (k : Key) (f : Fn) (exported : Bool) :
    ∀ d ∈ fs (!exported) k f, d ∈ Spec.fsAll k f exported := by
  intro d hd
  have := fs_sub_C (!exported) k f d hd
  simp only [Bool.not_not] at this
  exact C.fs_sound k f exported d this

theorem mainExport_eq (k : Key) (f : Fn) :
    Spec.funcExport (Spec.abiOf f) k f .normal = some (mainExport k f) := C.mainExport_eq k f

theorem callbackExport_eq (k : Key) (f : Fn) (h : f.sel = true) :
    Spec.funcExport .asyncCallback k f .callback = some (callbackExport k f) := C.callbackExport_eq k f h

theorem postReturnExport_eq (k : Key) (f : Fn) (h : f.sel = false) :
    Spec.funcExport .sync k f .postReturn = some (postReturnExport k f) := by
  have := C.postReturnExport_eq k f h
  simpa [C.postReturnExport, postReturnExport, C.exportVariant, h] using this

theorem taskReturn_eq (k : Key) (f : Fn) : taskReturn k f = Spec.taskReturn k f := C.taskReturn_eq k f

theorem exportFn_sound (k : Key) (f : Fn) (hok : asyncOk k f) :
    ∀ x ∈ exportFn k f, x ∈ Spec.exportsOfFn k f := by
  intro x hx
  unfold exportFn at hx
  have hm := mainExport_eq k f
  cases hs : f.sel with
  | false =>
    simp only [hs, Bool.false_eq_true, if_false, List.mem_cons] at hx
    unfold Spec.abiOf at hm; simp only [hs, Bool.false_eq_true, if_false] at hm
    rcases hx with rfl | hx
    · exact mem_exportsOfFn_sync_normal hm
    · split at hx
      · simp only [List.mem_cons, List.not_mem_nil, or_false] at hx
        subst hx
        exact mem_exportsOfFn_sync_post (postReturnExport_eq k f hs)
      · simp at hx
  | true =>
    have ha := hok hs
    simp only [hs, if_true, List.mem_cons, List.not_mem_nil, or_false] at hx
    unfold Spec.abiOf at hm; simp only [hs, if_true] at hm
    rcases hx with rfl | rfl
    · exact mem_exportsOfFn_acb_normal ha hm
    · exact mem_exportsOfFn_acb_cb ha (callbackExport_eq k f hs)

theorem importFn_sound (k : Key) (f : Fn) (hok : asyncOk k f) :
    ∀ d ∈ importFn k f, d.imp ∈ Spec.importsOfFn k f := by
  intro d hd
  simp only [importFn, List.mem_cons, List.mem_map] at hd
  rcases hd with rfl | ⟨i, hi, rfl⟩
  · simp only [must, funcImport_eq]
    unfold Spec.abiOf
    cases hs : f.sel with
    | false => simpa using mem_importsOfFn_sync
    | true => simpa using mem_importsOfFn_async (hok hs)
  · exact mem_importsOfFn_fs (by simpa [opt] using fs_sound k f false i (by simpa using hi))

theorem exportFnImports_sound (k : Key) (f : Fn) :
    ∀ d ∈ exportFnImports k f, d.imp ∈ Spec.importsOfExportedFn k f := by
  intro d hd
  simp only [exportFnImports, List.mem_append, List.mem_map] at hd
  rcases hd with hd | ⟨i, hi, rfl⟩
  · split at hd
    · simp only [List.mem_cons, List.not_mem_nil, or_false] at hd
      subst hd
      simpa [must, taskReturn_eq] using mem_importsOfExportedFn_taskReturn
    · simp at hd
  · exact mem_importsOfExportedFn_fs (by simpa [opt] using fs_sound k f true i (by simpa using hi))

theorem sound : emit.SoundOn asyncOk (fun _ _ => True) where
  importFn := importFn_sound
  exportFnImports := fun k f _ => exportFnImports_sound k f
  exportFn := exportFn_sound
  importRes := by
    intro k r d hd
    simp only [emit, importRes, List.mem_cons, List.not_mem_nil, or_false] at hd
    subst hd
    simp [must, spec_importedDrop]
  exportResImports := by
    intro k r hk d hd
    obtain ⟨m, hm⟩ := worldKey_of_ne_root hk
    simp only [emit, exportResImports, rootOr_of_worldKey hm, List.mem_cons, List.not_mem_nil, or_false] at hd
    apply exported_intrinsics_mem hm
    rcases hd with rfl | rfl | rfl <;> simp [must]
  exportRes := by
    intro k r hk _ x hx
    obtain ⟨m, hm⟩ := worldKey_of_ne_root hk
    simp only [emit, exportRes, rootOr_of_worldKey hm, List.mem_cons, List.not_mem_nil, or_false] at hx
    subst hx
    exact dtor_mem hm r
  worldImports := by intro _ _ d hd; simp [emit] at hd
  worldExports := by intro _ _ x hx; simp [emit] at hx

theorem complete (k : Key) (f : Fn) : ∀ x ∈ Spec.requiredOfFn k f, x ∈ exportFn k f := by
  intro x hx
  unfold Spec.requiredOfFn at hx
  unfold exportFn
  have hm := mainExport_eq k f
  cases hs : f.sel with
  | false =>
    simp only [hs, Bool.false_eq_true, if_false, List.append_nil] at hx
    rw [hm] at hx; simp at hx; subst hx; simp
  | true =>
    simp only [hs, if_true] at hx
    rw [hm, callbackExport_eq k f hs] at hx
    simp at hx
    rcases hx with rfl | rfl <;> simp

end Go
/-! ### Rust (same names as C, built with slightly different concatenations) -/
namespace Rust

theorem norm_ptr : norm [CoreTy.ptr] = [CoreTy.i32] := rfl

theorem funcImport_eq_C (k : Key) (f : Fn) : funcImport k f = C.funcImport k f := by
  unfold funcImport C.funcImport importModule
  cases f.sel <;> simp

theorem funcImport_eq (k : Key) (f : Fn) : funcImport k f = Spec.funcImport (Spec.abiOf f) k f := by
  rw [funcImport_eq_C]; exact C.funcImport_eq k f

theorem fs_sub_C (pfx : String) (k : Key) (f : Fn) : ∀ d ∈ fs pfx k f, d ∈ C.fs pfx k f := by
  intro d hd
  simp only [fs, List.mem_flatMap] at hd
  obtain ⟨⟨s, i⟩, hs, hd⟩ := hd
  simp only [C.fs, List.mem_flatMap]
  refine ⟨(s, i), hs, ?_⟩
  simp only [fsDecls, C.fsDecls, List.mem_cons, List.not_mem_nil, or_false] at hd ⊢
  rcases hd with rfl | rfl | rfl | rfl | rfl | rfl | rfl <;> simp

theorem fs_sound (k : Key) (f : Fn) (exported : Bool) :
    ∀ d ∈ fs (if exported then "[export]" else "") k f, d ∈ Spec.fsAll k f exported :=
  fun d hd => C.fs_sound k f exported d (fs_sub_C _ k f d hd)

theorem mainExport_eq_C (k : Key) (f : Fn) : mainExport k f = C.mainExport k f := by
  unfold mainExport C.mainExport exportName C.exportPrefix C.exportVariant
  cases f.sel <;> simp

theorem mainExport_eq (k : Key) (f : Fn) :
    Spec.funcExport (Spec.abiOf f) k f .normal = some (mainExport k f) := by
  rw [mainExport_eq_C]; exact C.mainExport_eq k f

theorem callbackExport_eq (k : Key) (f : Fn) (h : f.sel = true) :
    Spec.funcExport .asyncCallback k f .callback = some (callbackExport k f) := by
  have : callbackExport k f = C.callbackExport k f := by
    unfold callbackExport C.callbackExport exportName C.exportPrefix; simp [h]; str_eq
  rw [this]; exact C.callbackExport_eq k f h

theorem postReturnExport_eq (k : Key) (f : Fn) (h : f.sel = false) :
    Spec.funcExport .sync k f .postReturn = some (postReturnExport k f) := by
  have : postReturnExport k f = C.postReturnExport k f := by
    unfold postReturnExport C.postReturnExport exportName C.exportVariant; simp [h]
  rw [this]; exact C.postReturnExport_eq k f h

theorem exportModule_eq (k : Key) : exportModule k = "[export]" ++ rootOr k := by
  unfold exportModule rootOr; cases k.worldKey <;> simp

theorem taskReturn_eq (k : Key) (f : Fn) : taskReturn k f = Spec.taskReturn k f := by
  have : taskReturn k f = C.taskReturn k f := by
    unfold taskReturn C.taskReturn; rw [exportModule_eq]
  rw [this]; exact C.taskReturn_eq k f

theorem exportFn_sound (k : Key) (f : Fn) (hok : asyncOk k f) :
    ∀ x ∈ exportFn k f, x ∈ Spec.exportsOfFn k f := by
  intro x hx
  unfold exportFn at hx
  have hm := mainExport_eq k f
  cases hs : f.sel with
  | false =>
    simp only [hs, Bool.false_eq_true, if_false, List.mem_cons] at hx
    unfold Spec.abiOf at hm; simp only [hs, Bool.false_eq_true, if_false] at hm
    rcases hx with rfl | hx
    · exact mem_exportsOfFn_sync_normal hm
    · split at hx
      · simp only [List.mem_cons, List.not_mem_nil, or_false] at hx
        subst hx
        exact mem_exportsOfFn_sync_post (postReturnExport_eq k f hs)
      · simp at hx
  | true =>
    have ha := hok hs
    simp only [hs, if_true, List.mem_cons, List.not_mem_nil, or_false] at hx
    unfold Spec.abiOf at hm; simp only [hs, if_true] at hm
    rcases hx with rfl | rfl
    · exact mem_exportsOfFn_acb_normal ha hm
    · exact mem_exportsOfFn_acb_cb ha (callbackExport_eq k f hs)

theorem importFn_sound (k : Key) (f : Fn) (hok : asyncOk k f) :
    ∀ d ∈ importFn k f, d.imp ∈ Spec.importsOfFn k f := by
  intro d hd
  simp only [importFn, List.mem_cons, List.mem_map] at hd
  rcases hd with rfl | ⟨i, hi, rfl⟩
  · simp only [must, funcImport_eq]
    unfold Spec.abiOf
    cases hs : f.sel with
    | false => simpa using mem_importsOfFn_sync
    | true => simpa using mem_importsOfFn_async (hok hs)
  · exact mem_importsOfFn_fs (by simpa [opt] using fs_sound k f false i (by simpa using hi))

theorem exportFnImports_sound (k : Key) (f : Fn) :
    ∀ d ∈ exportFnImports k f, d.imp ∈ Spec.importsOfExportedFn k f := by
  intro d hd
  simp only [exportFnImports, List.mem_append, List.mem_map] at hd
  rcases hd with hd | ⟨i, hi, rfl⟩
  · split at hd
    · simp only [List.mem_cons, List.not_mem_nil, or_false] at hd
      subst hd
      simpa [must, taskReturn_eq] using mem_importsOfExportedFn_taskReturn
    · simp at hd
  · exact mem_importsOfExportedFn_fs (by simpa [opt] using fs_sound k f true i (by simpa using hi))

theorem sound : emit.SoundOn asyncOk (fun _ _ => True) where
  importFn := importFn_sound
  exportFnImports := fun k f _ => exportFnImports_sound k f
  exportFn := exportFn_sound
  importRes := by
    intro k r d hd
    simp only [emit, importRes, importModule, List.mem_cons, List.not_mem_nil, or_false] at hd
    subst hd
    simp [must, spec_importedDrop]
  exportResImports := by
    intro k r hk d hd
    obtain ⟨m, hm⟩ := worldKey_of_ne_root hk
    simp only [emit, exportResImports, hm, norm_ptr, List.mem_cons, List.not_mem_nil, or_false] at hd
    apply exported_intrinsics_mem hm
    rcases hd with rfl | rfl | rfl <;> simp [must]
  exportRes := by
    intro k r hk _ x hx
    obtain ⟨m, hm⟩ := worldKey_of_ne_root hk
    simp only [emit, exportRes, hm, norm_ptr, List.mem_cons, List.not_mem_nil, or_false] at hx
    subst hx
    exact dtor_mem hm r
  worldImports := by intro _ _ d hd; simp [emit] at hd
  worldExports := by intro _ _ x hx; simp [emit] at hx

theorem complete (k : Key) (f : Fn) : ∀ x ∈ Spec.requiredOfFn k f, x ∈ exportFn k f := by
  intro x hx
  unfold Spec.requiredOfFn at hx
  unfold exportFn
  have hm := mainExport_eq k f
  cases hs : f.sel with
  | false =>
    simp only [hs, Bool.false_eq_true, if_false, List.append_nil] at hx
    rw [hm] at hx; simp at hx; subst hx; simp
  | true =>
    simp only [hs, if_true] at hx
    rw [hm, callbackExport_eq k f hs] at hx
    simp at hx
    rcases hx with rfl | rfl <;> simp

end Rust
/-! ### D (sync only) -/
namespace D

theorem funcImport_eq (k : Key) (f : Fn) : funcImport k f = Spec.funcImport .sync k f := by
  unfold funcImport Spec.funcImport
  simp [LLAbi.importPrefix, LLAbi.importVariant, rootOr_eq_moduleOf]

theorem mainExport_eq (k : Key) (f : Fn) :
    Spec.funcExport .sync k f .normal = some (mainExport k f) := by
  unfold mainExport Spec.funcExport
  rw [legacy_tail]
  simp [LLAbi.exportPrefix, LLAbi.exportVariant]

theorem postReturnExport_eq (k : Key) (f : Fn) :
    Spec.funcExport .sync k f .postReturn = some (postReturnExport k f) := by
  unfold postReturnExport Spec.funcExport
  rw [legacy_tail]
  simp [LLAbi.exportPrefix, LLAbi.exportVariant]

theorem exportFn_sound (k : Key) (f : Fn) : ∀ x ∈ exportFn k f, x ∈ Spec.exportsOfFn k f := by
  intro x hx
  simp only [exportFn, List.mem_cons] at hx
  rcases hx with rfl | hx
  · exact mem_exportsOfFn_sync_normal (mainExport_eq k f)
  · split at hx
    · simp only [List.mem_cons, List.not_mem_nil, or_false] at hx
      subst hx
      exact mem_exportsOfFn_sync_post (postReturnExport_eq k f)
    · simp at hx

theorem sound : emit.SoundOn (fun _ _ => True) (fun _ _ => True) where
  importFn := by
    intro k f _ d hd
    simp only [emit, importFn, List.mem_cons, List.not_mem_nil, or_false] at hd
    subst hd
    simpa [must, funcImport_eq] using mem_importsOfFn_sync
  exportFnImports := by intro k f _ d hd; simp [emit] at hd
  exportFn := fun k f _ => exportFn_sound k f
  importRes := by
    intro k r d hd
    simp only [emit, importRes, List.mem_cons, List.not_mem_nil, or_false] at hd
    subst hd
    simp [must, spec_importedDrop]
  exportResImports := by
    intro k r hk d hd
    obtain ⟨m, hm⟩ := worldKey_of_ne_root hk
    simp only [emit, exportResImports, rootOr_of_worldKey hm, List.mem_cons, List.not_mem_nil, or_false] at hd
    apply exported_intrinsics_mem hm
    rcases hd with rfl | rfl | rfl <;> simp [must]
  exportRes := by
    intro k r hk _ x hx
    obtain ⟨m, hm⟩ := worldKey_of_ne_root hk
    simp only [emit, exportRes, rootOr_of_worldKey hm, List.mem_cons, List.not_mem_nil, or_false] at hx
    subst hx
    exact dtor_mem hm r
  worldImports := by intro _ _ d hd; simp [emit] at hd
  worldExports := by
    intro _ _ x hx
    simp only [emit, List.mem_cons, List.not_mem_nil, or_false] at hx
    simp [hx]

/-- D has no async support: completeness holds for the functions bound synchronously -/
theorem complete (k : Key) (f : Fn) (hs : f.sel = false) : ∀ x ∈ Spec.requiredOfFn k f, x ∈ exportFn k f := by
  intro x hx
  unfold Spec.requiredOfFn Spec.abiOf at hx
  simp only [hs, Bool.false_eq_true, if_false, List.append_nil] at hx
  rw [mainExport_eq k f] at hx
  simp at hx; subst hx; simp [exportFn]

end D

/-! ### C++ (sync only) -/
namespace Cpp

theorem funcImport_eq (k : Key) (f : Fn) : funcImport k f = Spec.funcImport .sync k f := by
  unfold funcImport Spec.funcImport importModule
  simp [LLAbi.importPrefix, LLAbi.importVariant, rootOr_eq_moduleOf]

theorem mainExport_eq (k : Key) (f : Fn) :
    Spec.funcExport .sync k f .normal = some (mainExport k f) := by
  unfold mainExport Spec.funcExport Spec.exportTail
  cases k.worldKey <;> simp [LLAbi.exportPrefix, LLAbi.exportVariant]

theorem postReturnExport_eq (k : Key) (f : Fn) :
    Spec.funcExport .sync k f .postReturn = some (postReturnExport k f) := by
  unfold postReturnExport Spec.funcExport Spec.exportTail
  cases k with
  | root => simp [Key.worldKey, LLAbi.exportPrefix, LLAbi.exportVariant]
  | name s => simp [Key.worldKey, LLAbi.exportPrefix, LLAbi.exportVariant]
  | id i => simp [Key.worldKey, LLAbi.exportPrefix, LLAbi.exportVariant]

theorem exportFn_sound (k : Key) (f : Fn) : ∀ x ∈ exportFn k f, x ∈ Spec.exportsOfFn k f := by
  intro x hx
  simp only [exportFn, List.mem_cons] at hx
  rcases hx with rfl | hx
  · exact mem_exportsOfFn_sync_normal (mainExport_eq k f)
  · split at hx
    · simp only [List.mem_cons, List.not_mem_nil, or_false] at hx
      subst hx
      exact mem_exportsOfFn_sync_post (postReturnExport_eq k f)
    · simp at hx

theorem norm_ptr : norm [CoreTy.ptr] = [CoreTy.i32] := rfl

theorem sound : emit.SoundOn (fun _ _ => True) (fun _ _ => True) where
  importFn := by
    intro k f _ d hd
    simp only [emit, importFn, List.mem_cons, List.not_mem_nil, or_false] at hd
    subst hd
    simpa [must, funcImport_eq] using mem_importsOfFn_sync
  exportFnImports := by intro k f _ d hd; simp [emit] at hd
  exportFn := fun k f _ => exportFn_sound k f
  importRes := by
    intro k r d hd
    cases k with
    | root => simp [emit, importRes] at hd
    | name s =>
      simp only [emit, importRes, importModule, List.mem_cons, List.not_mem_nil, or_false] at hd
      subst hd; simp [must, spec_importedDrop]
    | id i =>
      simp only [emit, importRes, importModule, List.mem_cons, List.not_mem_nil, or_false] at hd
      subst hd; simp [must, spec_importedDrop]
  exportResImports := by
    intro k r hk d hd
    obtain ⟨m, hm⟩ := worldKey_of_ne_root hk
    simp only [emit, exportResImports, importModule, rootOr_of_worldKey hm, norm_ptr, List.mem_cons,
      List.not_mem_nil, or_false] at hd
    apply exported_intrinsics_mem hm
    rcases hd with rfl | rfl | rfl <;> simp [must]
  exportRes := by
    intro k r hk _ x hx
    obtain ⟨m, hm⟩ := worldKey_of_ne_root hk
    simp only [emit, exportRes, hm, norm_ptr, List.mem_cons, List.not_mem_nil, or_false] at hx
    subst hx
    have : (⟨m ++ "#" ++ "[dtor]" ++ r, [.i32], []⟩ : Exp) = ⟨m ++ "#[dtor]" ++ r, [.i32], []⟩ := by
      apply exp_eq <;> simp; str_eq
    rw [this]; exact dtor_mem hm r
  worldImports := by intro _ _ d hd; simp [emit] at hd
  worldExports := by
    intro _ _ x hx
    simp only [emit, List.mem_cons, List.not_mem_nil, or_false] at hx
    simp [hx]

theorem complete (k : Key) (f : Fn) (hs : f.sel = false) : ∀ x ∈ Spec.requiredOfFn k f, x ∈ exportFn k f := by
  intro x hx
  unfold Spec.requiredOfFn Spec.abiOf at hx
  simp only [hs, Bool.false_eq_true, if_false, List.append_nil] at hx
  rw [mainExport_eq k f] at hx
  simp at hx; subst hx; simp [exportFn]

end Cpp
/-! ### MoonBit (names come from wit-parser's own functions) -/
namespace MoonBit

/-- the type ids handed to the model are consistent with the payload sites: the first position
holding the same id is a site of the same kind (same `TypeId` ⇒ same type) -/
def tidsOk (f : Fn) : Prop :=
  ∀ (i t : Nat) (s : Site), f.tids[i]? = some t → f.sites[i]? = some s →
    ∃ s', f.sites[f.tids.idxOf t]? = some s' ∧ s'.stream = s.stream

def okFn (k : Key) (f : Fn) : Prop := asyncOk k f ∧ tidsOk f

theorem fs_sound (k : Key) (f : Fn) (exported : Bool) (ht : tidsOk f) :
    ∀ d ∈ fs exported k f, d ∈ Spec.fsAll k f exported := by
  intro d hd
  simp only [fs, List.mem_flatMap] at hd
  obtain ⟨⟨s, i⟩, hs, hd⟩ := hd
  have hsi : f.sites[i]? = some s := List.mk_mem_zipIdx_iff_getElem?.mp hs
  -- every one of the seven entries is `Spec.fsIntrinsic … (siteIdx f i s) op exported a`
  have key : ∀ op a, d ∈ (Spec.fsIntrinsic k f.name s.stream (siteIdx f i s) op exported a).toList →
      d ∈ Spec.fsAll k f exported := by
    intro op a hmem
    have hsome : Spec.fsIntrinsic k f.name s.stream (siteIdx f i s) op exported a = some d := by
      cases h : Spec.fsIntrinsic k f.name s.stream (siteIdx f i s) op exported a with
      | none => simp [h] at hmem
      | some d' => simp [h] at hmem; subst hmem; rfl
    unfold siteIdx at hsome
    split at hsome
    · exact Spec.mem_fsAll_unit hsome
    · split at hsome
      · rename_i t htid
        obtain ⟨s', hs', hkind⟩ := ht i t s htid hsi
        rw [← hkind] at hsome
        exact Spec.mem_fsAll (List.mk_mem_zipIdx_iff_getElem?.mpr hs') hsome
      · exact Spec.mem_fsAll hs hsome
  simp only [List.mem_append] at hd
  rcases hd with ((((((h | h) | h) | h) | h) | h) | h)
  · exact key _ _ h
  · exact key _ _ h
  · exact key _ _ h
  · exact key _ _ h
  · exact key _ _ h
  · exact key _ _ h
  · exact key _ _ h

theorem exportFn_sound (k : Key) (f : Fn) (hok : asyncOk k f) :
    ∀ x ∈ exportFn k f, x ∈ Spec.exportsOfFn k f := by
  intro x hx
  unfold exportFn abiOf at hx
  cases hs : f.sel with
  | false =>
    simp only [hs, Bool.false_eq_true, if_false, List.mem_append] at hx
    rcases hx with hx | hx
    · cases h : Spec.funcExport .sync k f .normal with
      | none => simp [h] at hx
      | some y => simp [h] at hx; subst hx; exact mem_exportsOfFn_sync_normal h
    · split at hx
      · cases h : Spec.funcExport .sync k f .postReturn with
        | none => simp [h] at hx
        | some y => simp [h] at hx; subst hx; exact mem_exportsOfFn_sync_post h
      · simp at hx
  | true =>
    have ha := hok hs
    simp only [hs, if_true, List.mem_append] at hx
    rcases hx with hx | hx
    · cases h : Spec.funcExport .asyncCallback k f .normal with
      | none => simp [h] at hx
      | some y => simp [h] at hx; subst hx; exact mem_exportsOfFn_acb_normal ha h
    · cases h : Spec.funcExport .asyncCallback k f .callback with
      | none => simp [h] at hx
      | some y => simp [h] at hx; subst hx; exact mem_exportsOfFn_acb_cb ha h

theorem sound : emit.SoundOn okFn (fun _ _ => True) where
  importFn := by
    intro k f hok d hd
    simp only [emit, importFn, List.mem_cons, List.mem_map] at hd
    rcases hd with rfl | ⟨i, hi, rfl⟩
    · simp only [must, abiOf]
      cases hs : f.sel with
      | false => simpa using mem_importsOfFn_sync
      | true => simpa using mem_importsOfFn_async (hok.1 hs)
    · exact mem_importsOfFn_fs (by simpa [opt] using fs_sound k f false hok.2 i hi)
  exportFnImports := by
    intro k f hok d hd
    simp only [emit, exportFnImports, List.mem_append, List.mem_map] at hd
    rcases hd with hd | ⟨i, hi, rfl⟩
    · split at hd
      · simp only [List.mem_cons, List.not_mem_nil, or_false] at hd
        subst hd
        simpa [must] using mem_importsOfExportedFn_taskReturn
      · simp at hd
    · exact mem_importsOfExportedFn_fs (by simpa [opt] using fs_sound k f true hok.2 i hi)
  exportFn := fun k f hok => exportFn_sound k f hok.1
  importRes := by
    intro k r d hd
    simp only [emit, importRes, List.mem_map] at hd
    obtain ⟨i, hi, rfl⟩ := hd
    simpa [must] using hi
  exportResImports := by
    intro k r _ d hd
    simp only [emit, exportResImports, List.mem_map] at hd
    obtain ⟨i, hi, rfl⟩ := hd
    simpa [must] using hi
  exportRes := by
    intro k r _ _ x hx
    simp only [emit, exportRes] at hx
    exact List.mem_append_left _ (List.mem_append_left _ hx)
  worldImports := by
    intro _ _ d hd
    simp only [emit, List.mem_map, List.mem_append] at hd
    obtain ⟨i, hi, rfl⟩ := hd
    simp only [opt, Spec.rootBuiltins, List.mem_append]
    rcases hi with hi | hi
    · left; revert i; decide
    · right; exact hi
  worldExports := by
    intro _ _ x hx
    simp only [emit, List.mem_cons, List.not_mem_nil, or_false] at hx
    simp [hx]

theorem complete (k : Key) (f : Fn) : ∀ x ∈ Spec.requiredOfFn k f, x ∈ exportFn k f := by
  intro x hx
  unfold Spec.requiredOfFn Spec.abiOf at hx
  unfold exportFn abiOf
  cases hs : f.sel with
  | false =>
    simp only [hs, Bool.false_eq_true, if_false, List.append_nil] at hx
    exact List.mem_append_left _ hx
  | true => simpa [hs] using hx

end MoonBit
/-! ### C# -/
namespace CSharp

theorem funcImport_eq (k : Key) (f : Fn) : funcImport k f = Spec.funcImport (Spec.abiOf f) k f := by
  rw [← C.funcImport_eq]
  unfold funcImport C.funcImport
  cases f.sel <;> simp

theorem mainExport_eq (k : Key) (f : Fn) :
    Spec.funcExport (Spec.abiOf f) k f .normal = some (mainExport k f) := by
  have : mainExport k f = C.mainExport k f := by
    unfold mainExport C.mainExport exportName C.exportPrefix C.exportVariant
    cases f.sel <;> simp
  rw [this]; exact C.mainExport_eq k f

theorem callbackExport_eq (k : Key) (f : Fn) (h : f.sel = true) :
    Spec.funcExport .asyncCallback k f .callback = some (callbackExport k f) := by
  have : callbackExport k f = C.callbackExport k f := by
    unfold callbackExport C.callbackExport exportName C.exportPrefix; simp [h]; str_eq
  rw [this]; exact C.callbackExport_eq k f h

theorem postReturnExport_eq (k : Key) (f : Fn) (h : f.sel = false) :
    Spec.funcExport .sync k f .postReturn = some (postReturnExport k f) := by
  have : postReturnExport k f = C.postReturnExport k f := by
    unfold postReturnExport C.postReturnExport exportName C.exportVariant; simp [h]
  rw [this]; exact C.postReturnExport_eq k f h

theorem taskReturn_eq (k : Key) (f : Fn) : taskReturn k f = Spec.taskReturn k f := C.taskReturn_eq k f

theorem exportFn_sound (k : Key) (f : Fn) (hok : asyncOk k f) :
    ∀ x ∈ exportFn k f, x ∈ Spec.exportsOfFn k f := by
  intro x hx
  unfold exportFn at hx
  have hm := mainExport_eq k f
  cases hs : f.sel with
  | false =>
    simp only [hs, Bool.false_eq_true, if_false, List.nil_append, List.mem_cons, Bool.not_false,
      Bool.true_and] at hx
    unfold Spec.abiOf at hm; simp only [hs, Bool.false_eq_true, if_false] at hm
    rcases hx with rfl | hx
    · exact mem_exportsOfFn_sync_normal hm
    · split at hx
      · simp only [List.mem_cons, List.not_mem_nil, or_false] at hx
        subst hx
        exact mem_exportsOfFn_sync_post (postReturnExport_eq k f hs)
      · simp at hx
  | true =>
    have ha := hok hs
    simp only [hs, if_true, Bool.not_true, Bool.false_and, Bool.false_eq_true, if_false, List.append_nil,
      List.mem_cons, List.not_mem_nil, or_false] at hx
    unfold Spec.abiOf at hm; simp only [hs, if_true] at hm
    rcases hx with rfl | rfl
    · exact mem_exportsOfFn_acb_normal ha hm
    · exact mem_exportsOfFn_acb_cb ha (callbackExport_eq k f hs)

/-- side condition on the world: its own resource types are not given exported-resource glue -/
def okWorld (w : World) : Prop := hasWorldExportFunc w = false ∨ worldResources w = []

theorem sound : emit.SoundOn asyncOk (fun _ _ => True) okWorld where
  importFn := by
    intro k f hok d hd
    simp only [emit, importFn, List.mem_cons, List.not_mem_nil, or_false] at hd
    subst hd
    simp only [must, funcImport_eq]
    unfold Spec.abiOf
    cases hs : f.sel with
    | false => simpa using mem_importsOfFn_sync
    | true => simpa using mem_importsOfFn_async (hok hs)
  exportFnImports := by
    intro k f _ d hd
    simp only [emit, exportFnImports] at hd
    split at hd
    · simp only [List.mem_cons, List.not_mem_nil, or_false] at hd
      subst hd
      simpa [must, taskReturn_eq] using mem_importsOfExportedFn_taskReturn
    · simp at hd
  exportFn := exportFn_sound
  importRes := by
    intro k r d hd
    simp only [emit, importRes, List.mem_cons, List.not_mem_nil, or_false] at hd
    subst hd
    simp [must, spec_importedDrop]
  exportResImports := by
    intro k r hk d hd
    obtain ⟨m, hm⟩ := worldKey_of_ne_root hk
    simp only [emit, exportResImports, rootOr_of_worldKey hm, List.mem_cons, List.not_mem_nil, or_false] at hd
    apply exported_intrinsics_mem hm
    rcases hd with rfl | rfl | rfl <;> simp [must]
  exportRes := by
    intro k r hk _ x hx
    obtain ⟨m, hm⟩ := worldKey_of_ne_root hk
    simp only [emit, exportRes, hm, List.mem_cons, List.not_mem_nil, or_false] at hx
    subst hx
    have : (⟨m ++ "#" ++ "[dtor]" ++ r, [.i32], []⟩ : Exp) = ⟨m ++ "#[dtor]" ++ r, [.i32], []⟩ := by
      apply exp_eq <;> simp; str_eq
    rw [this]; exact dtor_mem hm r
  worldImports := by
    intro w hw d hd
    simp only [emit, worldImports] at hd
    rcases hw with h | h <;> simp [h] at hd
  worldExports := by
    intro w hw x hx
    simp only [emit, worldExports] at hx
    rcases hw with h | h <;> simp [h] at hx

theorem complete (k : Key) (f : Fn) : ∀ x ∈ Spec.requiredOfFn k f, x ∈ exportFn k f := by
  intro x hx
  unfold Spec.requiredOfFn at hx
  unfold exportFn
  have hm := mainExport_eq k f
  cases hs : f.sel with
  | false =>
    simp only [hs, Bool.false_eq_true, if_false, List.append_nil] at hx
    rw [hm] at hx; simp at hx; subst hx; simp
  | true =>
    simp only [hs, if_true] at hx
    rw [hm, callbackExport_eq k f hs] at hx
    simp at hx
    rcases hx with rfl | rfl <;> simp

/-! `add_futures_or_streams`: the index is the number of entries generated so far in this call -/

/-- entries that get generated, in order (first occurrence of each payload key not yet seen) -/
def generated : List FutureInfo → List Nat → List FutureInfo
  | [], _ => []
  | fi :: rest, seen =>
    if seen.contains fi.key then generated rest seen else fi :: generated rest (fi.key :: seen)

theorem fsLoop_eq (module : String) (stream : Bool) (infos : List FutureInfo) (seen : List Nat) (index : Nat) :
    fsLoop module stream infos seen index =
      ((generated infos seen).zipIdx index).flatMap
        (fun p => fsDecls module (kindStr stream) stream p.2 p.1.name) := by
  induction infos generalizing seen index with
  | nil => simp [fsLoop, generated]
  | cons fi rest ih =>
    unfold fsLoop generated
    by_cases h : seen.contains fi.key = true
    · simp only [h, if_true]; exact ih seen index
    · simp only [h, Bool.false_eq_true, if_false, List.zipIdx_cons, List.flatMap_cons]
      rw [ih]

/-- the first seven declarations of an entry are the spec's names for index `index` of a function
called `name`; the eighth (`drop-writeable`) is not a name of the component model at all -/
theorem fsDecls_take7_spec (k : Key) (name : String) (exported : Bool) (s : Bool) (i : Nat) :
    ∀ d ∈ (fsDecls ((if exported then "[export]" else "") ++ rootOr k) (kindStr s) s i name).take 7,
      ∃ op a, Spec.fsIntrinsic k name s (.idx i) op exported a = some d := by
  intro d hd
  simp only [fsDecls, List.take, List.mem_cons, List.not_mem_nil, or_false] at hd
  rcases hd with rfl | rfl | rfl | rfl | rfl | rfl | rfl
  · fs_case .read, true, s, exported
  · fs_case .write, true, s, exported
  · fs_case .dropReadable, false, s, exported
  · fs_case .dropWritable, false, s, exported
  · fs_case .new, false, s, exported
  · fs_case .cancelRead, false, s, exported
  · fs_case .cancelWrite, false, s, exported

end CSharp
/-! ### payload-site names in the spec's own terms (`Spec.siteOk`) -/

theorem siteOk_of_mem {f : Fn} {s : Site} {i : Nat} (h : (s, i) ∈ f.sites.zipIdx) :
    Spec.siteOk f s.stream (.idx i) = true := by
  have : f.sites[i]? = some s := List.mk_mem_zipIdx_iff_getElem?.mp h
  simp [Spec.siteOk, this]

theorem C.fs_names (k : Key) (f : Fn) (exported : Bool) :
    ∀ d ∈ C.fs (if exported then "[export]" else "") k f,
      ∃ stream ix op a, Spec.siteOk f stream ix = true ∧
        Spec.fsIntrinsic k f.name stream ix op exported a = some d := by
  intro d hd
  simp only [C.fs, List.mem_flatMap] at hd
  obtain ⟨⟨s, i⟩, hs, hd⟩ := hd
  obtain ⟨op, a, h⟩ := C.fsDecls_spec k f.name exported s.stream i d hd
  exact ⟨s.stream, .idx i, op, a, siteOk_of_mem hs, h⟩

theorem Rust.fs_names (k : Key) (f : Fn) (exported : Bool) :
    ∀ d ∈ Rust.fs (if exported then "[export]" else "") k f,
      ∃ stream ix op a, Spec.siteOk f stream ix = true ∧
        Spec.fsIntrinsic k f.name stream ix op exported a = some d :=
  fun d hd => C.fs_names k f exported d (Rust.fs_sub_C _ k f d hd)

theorem Go.fs_names (k : Key) (f : Fn) (exported : Bool) :
    ∀ d ∈ Go.fs (!exported) k f,
      ∃ stream ix op a, Spec.siteOk f stream ix = true ∧
        Spec.fsIntrinsic k f.name stream ix op exported a = some d := by
  intro d hd
  have := Go.fs_sub_C (!exported) k f d hd
  simp only [Bool.not_not] at this
  exact C.fs_names k f exported d this


end Witverif.Abi.Names
