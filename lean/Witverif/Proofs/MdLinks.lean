import Witverif.Text.MdLinks
/-! Helper lemmas for C29 (`Props/C29.lean`): the link pass, anchor nesting, the pushed text
stream of the generator, and infix preservation by the `Source` buffer.  Core Lean only. -/
namespace Witverif.Text.Md
open RustStr MdSpec

/-! ## the link pass -/

/-- `in_link` after having processed a prefix -/
def stateAfter : Bool → List Ev → Bool
  | b, [] => b
  | _, .startLink .. :: es => stateAfter true es
  | _, .endLink :: es => stateAfter false es
  | b, _ :: es => stateAfter b es

theorem rewriteGo_append (h : List (Str × Str)) (x y : List Ev) :
    ∀ b, rewriteGo h b (x ++ y) = rewriteGo h b x ++ rewriteGo h (stateAfter b x) y := by
  induction x with
  | nil => intro b; simp [rewriteGo, stateAfter]
  | cons e es ih =>
    intro b
    cases e with
    | code c =>
      cases b with
      | true => simp [rewriteGo, stateAfter, ih]
      | false => cases hl : lookup h c <;> simp [rewriteGo, stateAfter, ih, hl]
    | _ => simp [rewriteGo, stateAfter, ih]

theorem rewriteGo_inLink (h : List (Str × Str)) (mid : List Ev) (hm : ∀ e ∈ mid, e ≠ .endLink) :
    rewriteGo h true mid = mid := by
  induction mid with
  | nil => simp [rewriteGo]
  | cons e es ih =>
    have ih' := ih (fun e he => hm e (List.mem_cons_of_mem _ he))
    cases e <;> simp_all [rewriteGo]

theorem stateAfter_inLink (mid : List Ev) (hm : ∀ e ∈ mid, e ≠ .endLink) :
    stateAfter true mid = true := by
  induction mid with
  | nil => simp [stateAfter]
  | cons e es ih =>
    have ih' := ih (fun e he => hm e (List.mem_cons_of_mem _ he))
    cases e <;> simp_all [stateAfter]

/-- depth of the `in_link` flag -/
def dOf (b : Bool) : Nat := if b then 1 else 0

theorem noNested_rewriteGo (h : List (Str × Str)) (evs : List Ev) :
    ∀ b, noNested (dOf b) evs = true → noNested (dOf b) (rewriteGo h b evs) = true := by
  induction evs with
  | nil => intro b _; simp [rewriteGo, noNested]
  | cons e es ih =>
    intro b hn
    cases e with
    | startLink a b' c d =>
      simp only [noNested, Bool.and_eq_true, beq_iff_eq] at hn
      have hb : b = false := by cases b <;> simp_all [dOf]
      subst hb
      have := ih true (by simpa [dOf] using hn.2)
      simpa [rewriteGo, noNested, dOf] using this
    | endLink =>
      have h0 : noNested (dOf false) es = true := by cases b <;> simpa [noNested, dOf] using hn
      have := ih false h0
      cases b <;> simpa [rewriteGo, noNested, dOf] using this
    | code c =>
      have h0 : noNested (dOf b) es = true := by simpa [noNested] using hn
      have := ih b h0
      cases b with
      | true => simpa [rewriteGo, noNested] using this
      | false =>
        cases hl : lookup h c <;> simpa [rewriteGo, hl, mkLink, noNested, dOf] using this
    | text t => simpa [rewriteGo, noNested] using ih b (by simpa [noNested] using hn)
    | html t => simpa [rewriteGo, noNested] using ih b (by simpa [noNested] using hn)
    | inlineHtml t => simpa [rewriteGo, noNested] using ih b (by simpa [noNested] using hn)
    | start t => simpa [rewriteGo, noNested] using ih b (by simpa [noNested] using hn)
    | stop t => simpa [rewriteGo, noNested] using ih b (by simpa [noNested] using hn)
    | other t => simpa [rewriteGo, noNested] using ih b (by simpa [noNested] using hn)

/-- events that are not link delimiters -/
def notLink : Ev → Bool
  | .startLink .. => false
  | .endLink => false
  | .code _ | .text _ | .html _ | .inlineHtml _ | .start _ | .stop _ | .other _ => true

theorem rewriteGo_filter (h : List (Str × Str)) (evs : List Ev) :
    ∀ b, (rewriteGo h b evs).filter notLink = evs.filter notLink := by
  induction evs with
  | nil => intro b; simp [rewriteGo]
  | cons e es ih =>
    intro b
    cases e with
    | code c =>
      cases b with
      | true => simp [rewriteGo, List.filter_cons, notLink, ih]
      | false => cases hl : lookup h c <;> simp [rewriteGo, hl, mkLink, List.filter_cons, notLink, ih]
    | _ => simp [rewriteGo, List.filter_cons, notLink, ih]

/-! ## anchor tags -/

theorem tokNoNested_append (a b : List Tok) :
    ∀ d, tokNoNested d (a ++ b) = (tokNoNested d a && tokNoNested (htmlSafe.depthAfter d a) b) := by
  induction a with
  | nil => intro d; simp [tokNoNested, htmlSafe.depthAfter]
  | cons t ts ih =>
    intro d
    cases t <;> simp [tokNoNested, htmlSafe.depthAfter, ih, Bool.and_assoc]

theorem htmlSafe_rewriteGo (h : List (Str × Str)) (evs : List Ev) :
    ∀ d b, htmlSafe d b evs = true → tokNoNested d (anchorsOf (rewriteGo h b evs)) = true := by
  induction evs with
  | nil => intro d b _; simp [rewriteGo, anchorsOf, tokNoNested]
  | cons e es ih =>
    intro d b hs
    cases e with
    | startLink a b' c d' =>
      simp only [htmlSafe, Bool.and_eq_true, beq_iff_eq] at hs
      obtain ⟨h0, h1⟩ := hs
      subst h0
      simpa [rewriteGo, anchorsOf, tokNoNested] using ih _ _ h1
    | endLink =>
      simp only [htmlSafe] at hs
      simp [rewriteGo, anchorsOf, tokNoNested, ih _ _ hs]
    | code c =>
      simp only [htmlSafe, Bool.and_eq_true, Bool.or_eq_true, beq_iff_eq] at hs
      cases b with
      | true => simp [rewriteGo, anchorsOf, ih _ _ hs.2]
      | false =>
        have hd : d = 0 := by simpa using hs.1
        subst hd
        cases hl : lookup h c
        · simp [rewriteGo, hl, anchorsOf, ih _ _ hs.2]
        · simp [rewriteGo, hl, mkLink, anchorsOf, tokNoNested, ih _ _ hs.2]
    | html t =>
      simp only [htmlSafe, Bool.and_eq_true] at hs
      simp [rewriteGo, anchorsOf, tokNoNested_append, hs.1, ih _ _ hs.2]
    | inlineHtml t =>
      simp only [htmlSafe, Bool.and_eq_true] at hs
      simp [rewriteGo, anchorsOf, tokNoNested_append, hs.1, ih _ _ hs.2]
    | text t => simpa [rewriteGo, anchorsOf] using ih d b (by simpa [htmlSafe] using hs)
    | start t => simpa [rewriteGo, anchorsOf] using ih d b (by simpa [htmlSafe] using hs)
    | stop t => simpa [rewriteGo, anchorsOf] using ih d b (by simpa [htmlSafe] using hs)
    | other t => simpa [rewriteGo, anchorsOf] using ih d b (by simpa [htmlSafe] using hs)

/-! ## the pushed text stream and the `hrefs` table of an operation list -/

/-- everything handed to `push_str` / `push_str_literal`, concatenated (before `Source` formatting) -/
def pushed : List Op → Str
  | [] => []
  | .str t :: r => t ++ pushed r
  | .lit t :: r => t ++ pushed r
  | .indent :: r | .deindent :: r | .href _ _ :: r | .panic _ :: r => pushed r

/-- the `hrefs.insert` calls, in order -/
def hrefsOf : List Op → List (Str × Str)
  | [] => []
  | .href k v :: r => (k, v) :: hrefsOf r
  | .str _ :: r | .lit _ :: r | .indent :: r | .deindent :: r | .panic _ :: r => hrefsOf r

@[simp] theorem pushed_append (a b : List Op) : pushed (a ++ b) = pushed a ++ pushed b := by
  induction a with
  | nil => rfl
  | cons o r ih => cases o <;> simp [pushed, ih]

@[simp] theorem hrefsOf_append (a b : List Op) : hrefsOf (a ++ b) = hrefsOf a ++ hrefsOf b := by
  induction a with
  | nil => rfl
  | cons o r ih => cases o <;> simp [hrefsOf, ih]

theorem infix_app_left {x b : Str} (a : Str) (h : x <:+: b) : x <:+: a ++ b := by
  obtain ⟨p, q, rfl⟩ := h; exact ⟨a ++ p, q, by simp⟩
theorem infix_app_right {x a : Str} (b : Str) (h : x <:+: a) : x <:+: a ++ b := by
  obtain ⟨p, q, rfl⟩ := h; exact ⟨p, q ++ b, by simp⟩

/-- every inserted href is `#x` for an `x` whose anchor `<a id="x"></a>` is in the pushed text -/
def Paired (ops : List Op) : Prop :=
  ∀ k v, (k, v) ∈ hrefsOf ops → ∃ x, v = '#' :: x ∧ anchor x <:+: pushed ops

theorem paired_append {a b : List Op} (ha : Paired a) (hb : Paired b) : Paired (a ++ b) := by
  intro k v hm
  simp only [hrefsOf_append, List.mem_append] at hm
  rcases hm with hm | hm
  · obtain ⟨x, hx, hi⟩ := ha k v hm
    exact ⟨x, hx, by simpa using infix_app_right _ hi⟩
  · obtain ⟨x, hx, hi⟩ := hb k v hm
    exact ⟨x, hx, by simpa using infix_app_left _ hi⟩

theorem paired_of_noHref {a : List Op} (h : hrefsOf a = []) : Paired a := by
  intro k v hm; simp [h] at hm

theorem paired_flatMap {α} (l : List α) (f : α → List Op) (h : ∀ x ∈ l, Paired (f x)) :
    Paired (l.flatMap f) := by
  induction l with
  | nil => exact paired_of_noHref rfl
  | cons x xs ih =>
    simp only [List.flatMap_cons]
    exact paired_append (h x (List.mem_cons_self ..)) (ih fun y hy => h y (List.mem_cons_of_mem _ hy))

mutual
theorem hrefsOf_printTy : ∀ t : Ty, hrefsOf (printTy t) = []
  | .prim _ => by simp [printTy, hrefsOf]
  | .ref _ => by simp [printTy, hrefsOf]
  | .alias t => by simp [printTy, hrefsOf_printTy t]
  | .tuple ts => by simp [printTy, hrefsOf, hrefsOf_printTys true ts]
  | .option t => by simp [printTy, hrefsOf, hrefsOf_printTy t]
  | .result2 a b => by simp [printTy, hrefsOf, hrefsOf_printTy a, hrefsOf_printTy b]
  | .resultErr t => by simp [printTy, hrefsOf, hrefsOf_printTy t]
  | .resultOk t => by simp [printTy, hrefsOf, hrefsOf_printTy t]
  | .result0 => by simp [printTy, hrefsOf]
  | .list t => by simp [printTy, hrefsOf, hrefsOf_printTy t]
  | .flist _ t => by simp [printTy, hrefsOf, hrefsOf_printTy t]
  | .map a b => by simp [printTy, hrefsOf, hrefsOf_printTy a, hrefsOf_printTy b]
  | .future1 t => by simp [printTy, hrefsOf, hrefsOf_printTy t]
  | .future0 => by simp [printTy, hrefsOf]
  | .stream1 t => by simp [printTy, hrefsOf, hrefsOf_printTy t]
  | .stream0 => by simp [printTy, hrefsOf]
  | .own t => by simp [printTy, hrefsOf, hrefsOf_printTy t]
  | .borrow t => by simp [printTy, hrefsOf, hrefsOf_printTy t]
  | .unknown => by simp [printTy, hrefsOf]
  | .bad => by simp [printTy, hrefsOf]
theorem hrefsOf_printTys : ∀ (b : Bool) (ts : Tys), hrefsOf (printTys b ts) = []
  | _, .nil => by simp [printTys, hrefsOf]
  | b, .cons t ts => by
    cases b <;> simp [printTys, hrefsOf, hrefsOf_printTy t, hrefsOf_printTys false ts]
end

theorem hrefsOf_docsOps (d : Option Str) : hrefsOf (docsOps d) = [] := by
  unfold docsOps
  induction lines (d.getD ['\n']) with
  | nil => rfl
  | cons l ls ih => simp [List.flatMap_cons, hrefsOf, ih]

theorem hrefsOf_memberDocs (d : Option Str) : hrefsOf (memberDocs d) = [] := by
  unfold memberDocs; split <;> simp [hrefsOf, hrefsOf_docsOps]

theorem hrefsOf_optTy (c : Bool) (t : Option Ty) : hrefsOf (optTy c t) = [] := by
  cases t <;> cases c <;> simp [optTy, hrefsOf, hrefsOf_printTy]

theorem hrefsOf_resultTy (a b : Option Ty) : hrefsOf (resultTy a b) = [] := by
  cases a <;> cases b <;> simp [resultTy, hrefsOf, hrefsOf_printTy]

theorem anchor_infix (pre x post : Str) : anchor x <:+: pre ++ anchor x ++ post := ⟨pre, post, rfl⟩

theorem paired_typeHeader (p : Bool) (kind name : Str) : Paired (typeHeader p kind name) := by
  intro k v hm
  cases p
  · simp [typeHeader, hrefsOf] at hm
    obtain ⟨rfl, rfl⟩ := hm
    exact ⟨_, rfl, s "----\n\n" ++ s "### Types\n\n" ++ s "#### ", ['`'] ++ kind ++ [' '] ++ k ++ s "`\n",
      by simp [typeHeader, pushed, List.append_assoc]⟩
  · simp [typeHeader, hrefsOf] at hm
    obtain ⟨rfl, rfl⟩ := hm
    exact ⟨_, rfl, s "#### ", ['`'] ++ kind ++ [' '] ++ k ++ s "`\n",
      by simp [typeHeader, pushed, List.append_assoc]⟩

theorem paired_memberHead (t m : Str) (c : Bool) : Paired (memberHead t m c) := by
  intro k v hm
  simp [memberHead, hrefsOf] at hm
  obtain ⟨rfl, rfl⟩ := hm
  exact ⟨snake t ++ ['.'] ++ snake m, by simp, s "- ", ['`'] ++ m ++ ['`'] ++ (if c then s ": " else []),
    by simp [memberHead, pushed, List.append_assoc]⟩

theorem paired_recordField (t : Str) (m : Member) : Paired (recordField t m) := by
  unfold recordField
  exact paired_append (paired_append (paired_append (paired_memberHead _ _ _)
    (paired_of_noHref (hrefsOf_optTy _ _))) (paired_of_noHref (hrefsOf_memberDocs _))) (paired_of_noHref rfl)
theorem paired_flagMember (t : Str) (m : Member) : Paired (flagMember t m) := by
  unfold flagMember
  exact paired_append (paired_append (paired_memberHead _ _ _)
    (paired_of_noHref (hrefsOf_memberDocs _))) (paired_of_noHref rfl)
theorem paired_variantCase (t : Str) (m : Member) : Paired (variantCase t m) := by
  unfold variantCase
  exact paired_append (paired_append (paired_append (paired_memberHead _ _ _)
    (paired_of_noHref (hrefsOf_optTy _ _))) (paired_of_noHref (hrefsOf_memberDocs _))) (paired_of_noHref rfl)
theorem paired_enumCase (t : Str) (m : Member) : Paired (enumCase t m) := by
  unfold enumCase
  exact paired_append (paired_append (paired_memberHead _ _ _)
    (paired_of_noHref (hrefsOf_memberDocs _))) (paired_of_noHref rfl)

theorem paired_tupleFields (t : Str) (ts : List Ty) : ∀ i, Paired (tupleFields t i ts) := by
  induction ts with
  | nil => intro i; exact paired_of_noHref rfl
  | cons x xs ih =>
    intro i
    unfold tupleFields
    refine paired_append (paired_append (paired_append ?_ (paired_of_noHref (hrefsOf_printTy _)))
      (paired_of_noHref rfl)) (ih _)
    intro k v hm
    simp [hrefsOf] at hm
    obtain ⟨rfl, rfl⟩ := hm
    exact ⟨snake t ++ ['.'] ++ natStr i, by simp, s "- ", ['`'] ++ natStr i ++ s "`: ",
      by simp [pushed, List.append_assoc]⟩

theorem paired_aliasOps (p : Bool) (n : Str) (t : Ty) (d : Option Str) : Paired (aliasOps p n t d) := by
  unfold aliasOps
  exact paired_append (paired_append (paired_append (paired_append (paired_typeHeader _ _ _)
    (paired_of_noHref (hrefsOf_printTy _))) (paired_of_noHref rfl)) (paired_of_noHref (hrefsOf_docsOps _)))
    (paired_of_noHref rfl)

theorem paired_defineType (p : Bool) (t : TypeDef) : Paired (defineType p t).1 := by
  unfold defineType
  cases t.kind with
  | record fs =>
    exact paired_append (paired_append (paired_append (paired_append (paired_append (paired_typeHeader _ _ _)
      (paired_of_noHref rfl)) (paired_of_noHref (hrefsOf_docsOps _))) (paired_of_noHref rfl))
      (paired_flatMap _ _ fun m _ => paired_recordField _ m)) (paired_of_noHref rfl)
  | resource =>
    exact paired_append (paired_append (paired_typeHeader _ _ _) (paired_of_noHref rfl))
      (paired_of_noHref (hrefsOf_docsOps _))
  | flags fs =>
    exact paired_append (paired_append (paired_append (paired_append (paired_append (paired_typeHeader _ _ _)
      (paired_of_noHref rfl)) (paired_of_noHref (hrefsOf_docsOps _))) (paired_of_noHref rfl))
      (paired_flatMap _ _ fun m _ => paired_flagMember _ m)) (paired_of_noHref rfl)
  | tuple ts =>
    exact paired_append (paired_append (paired_append (paired_append (paired_append (paired_typeHeader _ _ _)
      (paired_of_noHref rfl)) (paired_of_noHref (hrefsOf_docsOps _))) (paired_of_noHref rfl))
      (paired_tupleFields _ _ _)) (paired_of_noHref rfl)
  | variant cs =>
    exact paired_append (paired_append (paired_append (paired_append (paired_append (paired_typeHeader _ _ _)
      (paired_of_noHref rfl)) (paired_of_noHref (hrefsOf_docsOps _))) (paired_of_noHref rfl))
      (paired_flatMap _ _ fun m _ => paired_variantCase _ m)) (paired_of_noHref rfl)
  | enum cs =>
    exact paired_append (paired_append (paired_append (paired_append (paired_append (paired_typeHeader _ _ _)
      (paired_of_noHref rfl)) (paired_of_noHref (hrefsOf_docsOps _))) (paired_of_noHref rfl))
      (paired_flatMap _ _ fun m _ => paired_enumCase _ m)) (paired_of_noHref rfl)
  | option ty =>
    exact paired_append (paired_append (paired_append (paired_append (paired_typeHeader _ _ _)
      (paired_of_noHref rfl)) (paired_of_noHref (hrefsOf_printTy _))) (paired_of_noHref rfl))
      (paired_of_noHref (hrefsOf_docsOps _))
  | result a b =>
    exact paired_append (paired_append (paired_append (paired_typeHeader _ _ _)
      (paired_of_noHref (hrefsOf_resultTy _ _))) (paired_of_noHref rfl)) (paired_of_noHref (hrefsOf_docsOps _))
  | self ty => exact paired_aliasOps _ _ _ _
  | alias ty => exact paired_aliasOps _ _ _ _
  | handle => exact paired_of_noHref rfl
  | unknown => exact paired_of_noHref rfl

theorem paired_defineTypes (ts : List TypeDef) : ∀ p, Paired (defineTypes p ts) := by
  induction ts with
  | nil => intro p; exact paired_of_noHref rfl
  | cons t ts ih => intro p; unfold defineTypes; exact paired_append (paired_defineType _ _) (ih _)

theorem hrefsOf_flatMap_nil {α} (l : List α) (f : α → List Op) (h : ∀ x ∈ l, hrefsOf (f x) = []) :
    hrefsOf (l.flatMap f) = [] := by
  induction l with
  | nil => rfl
  | cons x xs ih =>
    simp [List.flatMap_cons, h x (List.mem_cons_self ..), ih fun y hy => h y (List.mem_cons_of_mem _ hy)]

theorem paired_funcOps (f : Func) : Paired (funcOps f) := by
  unfold funcOps
  refine paired_append (paired_append (paired_append (paired_append ?_ (paired_of_noHref (hrefsOf_docsOps _)))
    (paired_of_noHref ?_)) (paired_of_noHref ?_)) (paired_of_noHref rfl)
  · intro k v hm
    simp [hrefsOf] at hm
    obtain ⟨rfl, rfl⟩ := hm
    exact ⟨_, rfl, s "#### ", ['`'] ++ f.name ++ s ": func`" ++ s "\n\n", by simp [pushed, List.append_assoc]⟩
  · split
    · simp only [hrefsOf_append]
      rw [hrefsOf_flatMap_nil]
      · rfl
      · intro p _; simp [hrefsOf, hrefsOf_printTy]
    · rfl
  · split <;> simp [hrefsOf, hrefsOf_printTy]

theorem paired_funcsOps (fs : List Func) : Paired (funcsOps fs) := by
  unfold funcsOps
  split
  · exact paired_of_noHref rfl
  · exact paired_append (paired_of_noHref rfl) (paired_flatMap _ _ fun f _ => paired_funcOps f)

theorem hrefsOf_toc (t : Str) (items : List Item) : hrefsOf (toc t items) = [] := by
  unfold toc
  split
  · rfl
  · simp only [hrefsOf_append]
    rw [hrefsOf_flatMap_nil]
    · rfl
    · intro it _; cases it <;> simp [tocLine, hrefsOf]

theorem paired_preprocess (w : World) : Paired (preprocess w) := by
  unfold preprocess
  refine paired_append (paired_append (paired_append (paired_append (paired_append ?_
    (paired_of_noHref (hrefsOf_docsOps _))) (paired_of_noHref rfl)) (paired_of_noHref (hrefsOf_toc _ _)))
    (paired_of_noHref (hrefsOf_toc _ _))) (paired_of_noHref rfl)
  intro k v hm
  simp [hrefsOf] at hm
  obtain ⟨rfl, rfl⟩ := hm
  exact ⟨_, rfl, s "# ", s "World " ++ w.name ++ s "\n\n", by simp [pushed, anchor, s, List.append_assoc]⟩

theorem paired_ifaceHead (what key : Str) : Paired (ifaceHead what key) := by
  intro k v hm
  simp [ifaceHead, hrefsOf] at hm
  obtain ⟨rfl, rfl⟩ := hm
  exact ⟨_, rfl, s "## ", what ++ s " interface " ++ k ++ s "\n\n",
    by simp [ifaceHead, pushed, anchor, s, List.append_assoc]⟩

theorem paired_importInterface (k : Str) (i : Iface) : Paired (importInterface k i) := by
  unfold importInterface
  exact paired_append (paired_append (paired_append (paired_append (paired_ifaceHead _ _)
    (paired_of_noHref (hrefsOf_docsOps _))) (paired_of_noHref rfl)) (paired_defineTypes _ _)) (paired_funcsOps _)

theorem paired_exportInterface (k : Str) (i : Iface) : Paired (exportInterface k i) := by
  unfold exportInterface
  exact paired_append (paired_append (paired_append (paired_append (paired_ifaceHead _ _)
    (paired_of_noHref (hrefsOf_docsOps _))) (paired_of_noHref rfl)) (paired_defineTypes _ _)) (paired_funcsOps _)

theorem hrefsOf_worldHead (a b : Str) : hrefsOf (worldHead a b) = [] := rfl

theorem paired_ite {c : Prop} [Decidable c] {a b : List Op} (ha : Paired a) (hb : Paired b) :
    Paired (if c then a else b) := by split <;> assumption

theorem paired_genOps (w : World) : Paired (genOps w) := by
  unfold genOps
  refine paired_append (paired_append (paired_append (paired_append (paired_append (paired_append
    (paired_preprocess w) (paired_flatMap _ _ fun p _ => paired_importInterface _ _)) ?_) ?_) ?_) ?_)
    (paired_flatMap _ _ fun p _ => paired_exportInterface _ _)
  · exact paired_ite (paired_of_noHref rfl)
      (paired_append (paired_of_noHref (hrefsOf_worldHead _ _)) (paired_defineTypes _ _))
  · exact paired_ite (paired_of_noHref rfl)
      (paired_append (paired_of_noHref (hrefsOf_worldHead _ _)) (paired_flatMap _ _ fun f _ => paired_funcOps f))
  · exact paired_ite (paired_of_noHref rfl) (paired_of_noHref rfl)
  · exact paired_ite (paired_of_noHref rfl)
      (paired_append (paired_of_noHref (hrefsOf_worldHead _ _)) (paired_flatMap _ _ fun f _ => paired_funcOps f))

/-! ## running: the final `hrefs` table is the list of inserts -/

theorem run_hrefs (ops : List Op) : ∀ st st', run st ops = .ok st' →
    st'.hrefs = (hrefsOf ops).reverse ++ st.hrefs := by
  induction ops with
  | nil => intro st st' h; simp [run] at h; simp [hrefsOf, h]
  | cons op ops ih =>
    intro st st' h
    cases op with
    | str t => simp only [run, step] at h; simpa [hrefsOf] using ih _ _ h
    | lit t => simp only [run, step] at h; simpa [hrefsOf] using ih _ _ h
    | indent => simp only [run, step] at h; simpa [hrefsOf] using ih _ _ h
    | deindent =>
      cases hd : st.src.deindent 1 with
      | none => simp [run, step, hd] at h
      | some x => simp only [run, step, hd] at h; simpa [hrefsOf] using ih _ _ h
    | href k v => simp only [run, step] at h; simpa [hrefsOf] using ih _ _ h
    | panic m => simp [run, step] at h

theorem lookup_mem (h : List (Str × Str)) (k v : Str) (hl : lookup h k = some v) : (k, v) ∈ h := by
  induction h with
  | nil => simp [lookup] at hl
  | cons p r ih =>
    obtain ⟨k', v'⟩ := p
    simp only [lookup] at hl
    split at hl
    · simp_all
    · exact List.mem_cons_of_mem _ (ih hl)

/-! ## `Source`: text once in the buffer stays in the buffer -/

theorem infix_cons_of_head_ne {Y r : Str} {c : Char} (hne : Y ≠ []) (hh : Y.head? ≠ some c)
    (h : Y <:+: c :: r) : Y <:+: r := by
  rcases List.infix_cons_iff.mp h with hp | hi
  · cases Y with
    | nil => exact absurd rfl hne
    | cons y ys =>
      obtain ⟨t, ht⟩ := hp
      simp only [List.cons_append, List.cons.injEq] at ht
      exact absurd (by simp [ht.1]) hh
  · exact hi

theorem pop2_of_reverse (sx r : Str) (a b : Char) (h : sx.reverse = a :: b :: r) :
    Source.pop2 sx = r.reverse := by
  have : sx = r.reverse ++ [b] ++ [a] := by
    have := congrArg List.reverse h
    simpa using this
  subst this
  simp [Source.pop2, List.dropLast_concat]

/-- A non-empty text that does not end in a space survives the removal of two trailing spaces. -/
theorem infix_pop2 (X sx : Str) (hne : X ≠ []) (hl : X.getLast? ≠ some ' ')
    (h : X <:+: sx) (he : endsWith sx [' ', ' '] = true) : X <:+: Source.pop2 sx := by
  unfold endsWith at he
  cases hr : sx.reverse with
  | nil => simp [hr, List.isPrefixOf] at he
  | cons a r1 =>
    cases r1 with
    | nil => simp [hr, List.isPrefixOf] at he
    | cons b r =>
      simp [hr, List.isPrefixOf] at he
      obtain ⟨rfl, rfl⟩ := he
      rw [pop2_of_reverse sx r ' ' ' ' hr]
      have hx : X.reverse <:+: ' ' :: ' ' :: r := by
        rw [← hr]; exact List.reverse_infix.mpr h
      have hne' : X.reverse ≠ [] := by simpa using hne
      have hh : X.reverse.head? ≠ some ' ' := by simpa [List.head?_reverse] using hl
      have := infix_cons_of_head_ne hne' hh (infix_cons_of_head_ne hne' hh hx)
      simpa using List.reverse_infix.mpr this

/-- `X` survives: it is empty, or it does not end in a space -/
def Survives (X : Str) : Prop := X = [] ∨ X.getLast? ≠ some ' '

theorem infix_pushLine (X : Str) (hX : Survives X) (single interp : Bool) (line : Str) (st : Source)
    (h : X <:+: st.s) : X <:+: (Source.pushLine single interp line st).s := by
  rcases hX with rfl | hl
  · exact List.nil_infix
  by_cases hne : X = []
  · subst hne; exact List.nil_infix
  unfold Source.pushLine
  simp only
  apply infix_app_right
  generalize hs1 : (if (!st.continuingLine && !List.isEmpty line) = true then st.s ++ Source.spaces st.indent
    else st.s) = s1
  have h1 : X <:+: s1 := by
    subst hs1
    split
    · exact infix_app_right _ h
    · exact h
  split
  · rename_i hc
    simp only [Bool.and_eq_true] at hc
    exact infix_pop2 X _ hne hl h1 hc.2
  · exact h1

theorem infix_newline (X : Str) (st : Source) (h : X <:+: st.s) : X <:+: (Source.newline st).s := by
  simpa [Source.newline] using infix_app_right ['\n'] h

theorem infix_pushLines (X : Str) (hX : Survives X) (single endsNl interp : Bool) (ls : List Str) :
    ∀ st : Source, X <:+: st.s → X <:+: (Source.pushLines single endsNl interp ls st).s := by
  induction ls with
  | nil => intro st h; simpa [Source.pushLines] using h
  | cons l ls ih =>
    intro st h
    cases ls with
    | nil =>
      simp only [Source.pushLines]
      split
      · exact infix_newline _ _ (infix_pushLine X hX _ _ _ _ h)
      · exact infix_pushLine X hX _ _ _ _ h
    | cons l2 ls2 =>
      simp only [Source.pushLines]
      exact ih _ (infix_newline _ _ (infix_pushLine X hX _ _ _ _ h))

theorem infix_pushStrImpl (X : Str) (hX : Survives X) (st : Source) (t : Str) (interp : Bool)
    (h : X <:+: st.s) : X <:+: (Source.pushStrImpl st t interp).s := by
  unfold Source.pushStrImpl
  exact infix_pushLines X hX _ _ _ _ _ h

theorem infix_step (X : Str) (hX : Survives X) (st st' : St) (op : Op) (hs : step st op = .ok st')
    (h : X <:+: st.src.s) : X <:+: st'.src.s := by
  cases op with
  | str t => simp only [step, Res.ok.injEq] at hs; subst hs; exact infix_pushStrImpl X hX _ _ _ h
  | lit t => simp only [step, Res.ok.injEq] at hs; subst hs; exact infix_pushStrImpl X hX _ _ _ h
  | indent => simp only [step, Res.ok.injEq] at hs; subst hs; simpa [Source.addIndent] using h
  | deindent =>
    cases hd : st.src.deindent 1 with
    | none => simp [step, hd] at hs
    | some x =>
      simp only [step, hd, Res.ok.injEq] at hs; subst hs
      unfold Source.deindent at hd
      split at hd
      · simp only [Option.some.injEq] at hd; subst hd; simpa using h
      · simp at hd
  | href k v => simp only [step, Res.ok.injEq] at hs; subst hs; simpa using h
  | panic m => simp [step] at hs

theorem infix_run (X : Str) (hX : Survives X) (ops : List Op) : ∀ st st', run st ops = .ok st' →
    X <:+: st.src.s → X <:+: st'.src.s := by
  induction ops with
  | nil => intro st st' h hx; simp only [run, Res.ok.injEq] at h; subst h; exact hx
  | cons op ops ih =>
    intro st st' h hx
    simp only [run] at h
    cases hs : step st op with
    | panic m => simp [hs] at h
    | ok st1 => simp only [hs] at h; exact ih _ _ h (infix_step X hX _ _ _ hs hx)

/-! ### a literal line lands in the buffer -/

theorem splitNl_single (x : Str) (hn : '\n' ∉ x) (hne : x ≠ []) : splitNl x = [(x, false)] := by
  induction x with
  | nil => exact absurd rfl hne
  | cons c cs ih =>
    have hc : c ≠ '\n' := fun h => hn (by simp [h])
    have hcs : '\n' ∉ cs := fun h => hn (List.mem_cons_of_mem _ h)
    unfold splitNl
    simp only [hc, if_false]
    cases cs with
    | nil => simp [splitNl]
    | cons d ds => rw [ih hcs (by simp)]

theorem infix_pushLit (x : Str) (hn : '\n' ∉ x) (st : Source) : x <:+: (Source.pushStrLiteral st x).s := by
  by_cases hne : x = []
  · subst hne; exact List.nil_infix
  unfold Source.pushStrLiteral Source.pushStrImpl lines
  rw [splitNl_single x hn hne]
  simp only [List.map_cons, List.map_nil, lineOf, List.length_singleton, beq_self_eq_true, Source.pushLines]
  have hp : x <:+: (Source.pushLine true false x st).s := by
    unfold Source.pushLine
    simp only [Bool.false_and, Bool.false_eq_true, if_false, if_true]
    exact infix_app_left _ (List.infix_refl _)
  split
  · exact infix_newline _ _ hp
  · exact hp

theorem run_lit_infix (x : Str) (hn : '\n' ∉ x) (hX : Survives x) (ops : List Op) :
    ∀ st st', run st ops = .ok st' → Op.lit x ∈ ops → x <:+: st'.src.s := by
  induction ops with
  | nil => intro st st' _ hm; simp at hm
  | cons op ops ih =>
    intro st st' h hm
    simp only [run] at h
    cases hs : step st op with
    | panic m => simp [hs] at h
    | ok st1 =>
      simp only [hs] at h
      rcases List.mem_cons.mp hm with rfl | hm'
      · simp only [step, Res.ok.injEq] at hs; subst hs
        exact infix_run x hX _ _ _ h (infix_pushLit x hn _)
      · exact ih _ _ h hm'

/-! ### lines of a doc comment: no line break inside, no whitespace at the ends -/

theorem splitNl_noNl' (t : Str) : ∀ p ∈ splitNl t, '\n' ∉ p.1 := by
  induction t with
  | nil => simp [splitNl]
  | cons c cs ih =>
    intro p hp
    unfold splitNl at hp
    split at hp
    · rcases List.mem_cons.mp hp with rfl | h
      · simp
      · exact ih p h
    · rename_i hc
      cases hsp : splitNl cs with
      | nil => simp [hsp] at hp; subst hp; simpa using fun h => hc h.symm
      | cons q r =>
        obtain ⟨l, t⟩ := q
        simp only [hsp, List.mem_cons] at hp
        rcases hp with rfl | h
        · have := ih (l, t) (by simp [hsp])
          simp only [List.mem_cons, not_or]
          exact ⟨fun h => hc h.symm, this⟩
        · exact ih p (by simp [hsp, h])

theorem mem_dropLast {c : Char} {l : Str} (h : c ∈ l.dropLast) : c ∈ l :=
  (List.dropLast_sublist l).subset h

theorem lines_noNl (d : Str) : ∀ l ∈ lines d, '\n' ∉ l := by
  intro l hl
  simp only [lines, List.mem_map] at hl
  obtain ⟨p, hp, rfl⟩ := hl
  have := splitNl_noNl' d p hp
  unfold lineOf stripCrEnd
  split
  · split
    · exact fun h => this (mem_dropLast h)
    · exact this
  · exact this

theorem mem_trim {c : Char} {l : Str} (h : c ∈ trim l) : c ∈ l := by
  unfold trim trimEnd trimStart at h
  have h1 : c ∈ (List.dropWhile isWhite l).reverse.dropWhile isWhite := by simpa using h
  have h2 := (List.dropWhile_sublist _).subset h1
  exact (List.dropWhile_sublist _).subset (by simpa using h2)

theorem head_dropWhile_not (p : Char → Bool) (l : Str) (c : Char)
    (h : (l.dropWhile p).head? = some c) : p c = false := by
  induction l with
  | nil => simp at h
  | cons x xs ih =>
    simp only [List.dropWhile_cons] at h
    split at h
    · exact ih h
    · simp only [List.head?_cons, Option.some.injEq] at h; subst h; simpa using ‹¬ p x = true›

theorem trim_survives (l : Str) : Survives (trim l) := by
  right
  intro h
  unfold trim trimEnd at h
  rw [List.getLast?_reverse] at h
  have := head_dropWhile_not _ _ _ h
  exact absurd this (by decide)

/-! ## doc comments reach the operation list -/

def Panics (ops : List Op) : Prop := ∃ m, Op.panic m ∈ ops

/-- every line of every listed doc comment is pushed, trimmed, as a literal -/
def DocLits (docs : List Str) (ops : List Op) : Prop :=
  ∀ d ∈ docs, ∀ l ∈ lines d, Op.lit (trim l) ∈ ops

theorem run_ok_noPanic (ops : List Op) : ∀ st st', run st ops = .ok st' → ¬ Panics ops := by
  induction ops with
  | nil => intro _ _ _ ⟨m, hm⟩; simp at hm
  | cons op ops ih =>
    intro st st' h ⟨m, hm⟩
    simp only [run] at h
    cases hs : step st op with
    | panic m' => simp [hs] at h
    | ok st1 =>
      simp only [hs] at h
      rcases List.mem_cons.mp hm with rfl | hm'
      · simp [step] at hs
      · exact ih _ _ h ⟨m, hm'⟩

theorem panics_mono {a b : List Op} (h : a ⊆ b) : Panics a → Panics b := fun ⟨m, hm⟩ => ⟨m, h hm⟩
theorem docLits_mono {ds : List Str} {a b : List Op} (h : a ⊆ b) : DocLits ds a → DocLits ds b :=
  fun hd d hdm l hl => h (hd d hdm l hl)
theorem docLits_nil (ops : List Op) : DocLits [] ops := fun _ h => by simp at h
theorem docLits_append {a b : List Str} {ops : List Op} (ha : DocLits a ops) (hb : DocLits b ops) :
    DocLits (a ++ b) ops := by
  intro d hd
  rcases List.mem_append.mp hd with h | h
  · exact ha d h
  · exact hb d h

theorem docLits_docsOps (d : Option Str) : DocLits d.toList (docsOps d) := by
  intro x hx l hl
  cases d with
  | none => simp at hx
  | some y =>
    simp only [Option.toList_some, List.mem_singleton] at hx
    subst hx
    simp only [docsOps, Option.getD_some, List.mem_flatMap]
    exact ⟨l, hl, by simp⟩

theorem docLits_memberDocs (d : Option Str) : DocLits d.toList (Md.memberDocs d) := by
  cases d with
  | none => exact docLits_nil _
  | some y =>
    refine docLits_mono ?_ (docLits_docsOps (some y))
    intro op hop
    simp [Md.memberDocs, hop]

/-- member docs inside the operations of all members -/
theorem docLits_members (f : Member → List Op) (hf : ∀ m, Md.memberDocs m.docs ⊆ f m) (ms : List Member) :
    DocLits (MdSpec.memberDocs ms) (ms.flatMap f) := by
  intro d hd l hl
  simp only [MdSpec.memberDocs, List.mem_filterMap] at hd
  obtain ⟨m, hm, hmd⟩ := hd
  have := docLits_memberDocs m.docs d (by simp [hmd]) l hl
  exact List.mem_flatMap.mpr ⟨m, hm, hf m this⟩

theorem sub_recordField (t : Str) (m : Member) : Md.memberDocs m.docs ⊆ recordField t m := by
  intro op h; simp [recordField, h]
theorem sub_flagMember (t : Str) (m : Member) : Md.memberDocs m.docs ⊆ flagMember t m := by
  intro op h; simp [flagMember, h]
theorem sub_variantCase (t : Str) (m : Member) : Md.memberDocs m.docs ⊆ variantCase t m := by
  intro op h; simp [variantCase, h]
theorem sub_enumCase (t : Str) (m : Member) : Md.memberDocs m.docs ⊆ enumCase t m := by
  intro op h; simp [enumCase, h]

theorem docLits_defineType (p : Bool) (t : TypeDef) :
    Panics (defineType p t).1 ∨ DocLits (typeDocs t) (defineType p t).1 := by
  unfold defineType typeDocs
  cases hk : t.kind with
  | record fs =>
    right
    refine docLits_append (docLits_mono ?_ (docLits_docsOps t.docs)) (docLits_mono ?_ (docLits_members _ (sub_recordField t.name) fs))
    · intro op h; simp [h]
    · intro op h; simp [h]
  | flags fs =>
    right
    refine docLits_append (docLits_mono ?_ (docLits_docsOps t.docs)) (docLits_mono ?_ (docLits_members _ (sub_flagMember t.name) fs))
    · intro op h; simp [h]
    · intro op h; simp [h]
  | variant fs =>
    right
    refine docLits_append (docLits_mono ?_ (docLits_docsOps t.docs)) (docLits_mono ?_ (docLits_members _ (sub_variantCase t.name) fs))
    · intro op h; simp [h]
    · intro op h; simp [h]
  | enum fs =>
    right
    refine docLits_append (docLits_mono ?_ (docLits_docsOps t.docs)) (docLits_mono ?_ (docLits_members _ (sub_enumCase t.name) fs))
    · intro op h; simp [h]
    · intro op h; simp [h]
  | resource =>
    right; simp only [List.append_nil]
    exact docLits_mono (by intro op h; simp [h]) (docLits_docsOps t.docs)
  | tuple ts =>
    right; simp only [List.append_nil]
    exact docLits_mono (by intro op h; simp [h]) (docLits_docsOps t.docs)
  | option ty =>
    right; simp only [List.append_nil]
    exact docLits_mono (by intro op h; simp [h]) (docLits_docsOps t.docs)
  | result a b =>
    right; simp only [List.append_nil]
    exact docLits_mono (by intro op h; simp [h]) (docLits_docsOps t.docs)
  | self ty =>
    right; simp only [List.append_nil]
    exact docLits_mono (by intro op h; simp [aliasOps, h]) (docLits_docsOps t.docs)
  | alias ty =>
    right; simp only [List.append_nil]
    exact docLits_mono (by intro op h; simp [aliasOps, h]) (docLits_docsOps t.docs)
  | handle => left; exact ⟨_, List.mem_singleton.mpr rfl⟩
  | unknown => left; exact ⟨_, List.mem_singleton.mpr rfl⟩

theorem docLits_defineTypes (ts : List TypeDef) :
    ∀ p, Panics (defineTypes p ts) ∨ DocLits (ts.flatMap typeDocs) (defineTypes p ts) := by
  induction ts with
  | nil => intro p; right; exact docLits_nil _
  | cons t ts ih =>
    intro p
    unfold defineTypes
    rcases docLits_defineType p t with h1 | h1
    · left; exact panics_mono (by intro op h; simp [h]) h1
    rcases ih (defineType p t).2 with h2 | h2
    · left; exact panics_mono (by intro op h; simp [h]) h2
    right
    simp only [List.flatMap_cons]
    exact docLits_append (docLits_mono (by intro op h; simp [h]) h1) (docLits_mono (by intro op h; simp [h]) h2)

theorem docLits_funcOps (f : Func) : DocLits f.docs.toList (funcOps f) :=
  docLits_mono (by intro op h; simp [funcOps, h]) (docLits_docsOps f.docs)

theorem docLits_funcs (fs : List Func) : DocLits (fs.filterMap (·.docs)) (fs.flatMap funcOps) := by
  intro d hd l hl
  simp only [List.mem_filterMap] at hd
  obtain ⟨f, hf, hfd⟩ := hd
  exact List.mem_flatMap.mpr ⟨f, hf, docLits_funcOps f d (by simp [hfd]) l hl⟩

theorem docLits_funcsOps (fs : List Func) : DocLits (fs.filterMap (·.docs)) (funcsOps fs) := by
  unfold funcsOps
  split
  · rename_i h; simp only [List.isEmpty_iff] at h; subst h; exact docLits_nil _
  · exact docLits_mono (by intro op h; simp [h]) (docLits_funcs fs)

theorem mem_itemIfaces {items : List Item} {k : Str} {i : Iface} (h : Item.iface k i ∈ items) :
    (k, i) ∈ itemIfaces items := by
  induction items with
  | nil => simp at h
  | cons it r ih =>
    rcases List.mem_cons.mp h with rfl | h'
    · simp [itemIfaces]
    · cases it <;> simp [itemIfaces, ih h']

theorem mem_itemFuncs {items : List Item} {k : Str} {f : Func} (h : Item.func k f ∈ items) :
    f ∈ itemFuncs items := by
  induction items with
  | nil => simp at h
  | cons it r ih =>
    rcases List.mem_cons.mp h with rfl | h'
    · simp [itemFuncs]
    · cases it <;> simp [itemFuncs, ih h']

theorem mem_itemTypes {items : List Item} {k : Str} {t : TypeDef} (h : Item.type k t ∈ items) :
    t ∈ itemTypes items := by
  induction items with
  | nil => simp at h
  | cons it r ih =>
    rcases List.mem_cons.mp h with rfl | h'
    · simp [itemTypes]
    · cases it <;> simp [itemTypes, ih h']

theorem sub_ite_nonempty {α} {l : List α} {a : α} (ha : a ∈ l) (X : List Op) :
    X ⊆ (if l.isEmpty then [] else X) := by
  have : l.isEmpty = false := by cases l <;> simp_all
  simp [this]

theorem docLits_importInterface (k : Str) (i : Iface) :
    Panics (importInterface k i) ∨ DocLits (ifaceDocs i) (importInterface k i) := by
  unfold importInterface ifaceDocs
  rcases docLits_defineTypes i.types false with h | h
  · left; exact panics_mono (by intro op h; simp [h]) h
  right
  exact docLits_append (docLits_append (docLits_mono (by intro op h; simp [h]) (docLits_docsOps i.docs))
    (docLits_mono (by intro op h; simp [h]) h)) (docLits_mono (by intro op h; simp [h]) (docLits_funcsOps i.funcs))

theorem docLits_exportInterface (k : Str) (i : Iface) :
    Panics (exportInterface k i) ∨ DocLits (ifaceDocs i) (exportInterface k i) := by
  unfold exportInterface ifaceDocs
  rcases docLits_defineTypes i.types false with h | h
  · left; exact panics_mono (by intro op h; simp [h]) h
  right
  exact docLits_append (docLits_append (docLits_mono (by intro op h; simp [h]) (docLits_docsOps i.docs))
    (docLits_mono (by intro op h; simp [h]) h)) (docLits_mono (by intro op h; simp [h]) (docLits_funcsOps i.funcs))

/-- the seven segments of `genOps` -/
theorem genOps_segments (w : World) : genOps w =
    preprocess w ++
    ((itemIfaces w.imports).flatMap (fun p => importInterface p.1 p.2) ++
    ((if (itemTypes w.imports).isEmpty then [] else
      worldHead (s "## Exported types from world `") w.name ++ defineTypes false (itemTypes w.imports)) ++
    ((if (itemFuncs w.imports).isEmpty then [] else
      worldHead (s "## Imported functions to world `") w.name ++ (itemFuncs w.imports).flatMap funcOps) ++
    ((if (itemTypes w.exports).isEmpty then [] else [Op.panic (s "internal error: entered unreachable code")]) ++
    ((if (itemFuncs w.exports).isEmpty then [] else
      worldHead (s "## Exported functions from world `") w.name ++ (itemFuncs w.exports).flatMap funcOps) ++
    (itemIfaces w.exports).flatMap (fun p => exportInterface p.1 p.2)))))) := by
  simp [genOps, List.append_assoc]

theorem docLits_genOps (w : World) : Panics (genOps w) ∨ DocLits (printedDocs w) (genOps w) := by
  by_cases hp : Panics (genOps w)
  · exact Or.inl hp
  right
  have resolve : ∀ {ds : List Str} {ops : List Op}, ops ⊆ genOps w → (Panics ops ∨ DocLits ds ops) →
      DocLits ds (genOps w) := by
    intro ds ops hsub h
    rcases h with h | h
    · exact absurd (panics_mono hsub h) hp
    · exact docLits_mono hsub h
  intro d hd
  simp only [printedDocs, List.mem_append, List.mem_flatMap] at hd
  rcases hd with (hd | ⟨it, hit, hd⟩) | ⟨it, hit, hd⟩
  · refine resolve (ops := docsOps w.docs) ?_ (Or.inr (docLits_docsOps _)) d hd
    intro op h; rw [genOps_segments]; simp [preprocess, h]
  · cases it with
    | iface k i =>
      refine resolve (ops := importInterface k i) ?_ (docLits_importInterface k i) d hd
      intro op h; rw [genOps_segments]
      have : op ∈ (itemIfaces w.imports).flatMap (fun p => importInterface p.1 p.2) :=
        List.mem_flatMap.mpr ⟨(k, i), mem_itemIfaces hit, h⟩
      exact List.mem_append_right _ (List.mem_append_left _ this)
    | func k f =>
      refine resolve (ops := funcOps f) ?_ (Or.inr (docLits_funcOps f)) d hd
      intro op h; rw [genOps_segments]
      have h1 : op ∈ (itemFuncs w.imports).flatMap funcOps := List.mem_flatMap.mpr ⟨f, mem_itemFuncs hit, h⟩
      have := sub_ite_nonempty (mem_itemFuncs hit)
        (worldHead (s "## Imported functions to world `") w.name ++ (itemFuncs w.imports).flatMap funcOps)
        (List.mem_append_right _ h1)
      exact List.mem_append_right _ (List.mem_append_right _ (List.mem_append_right _ (List.mem_append_left _ this)))
    | type k t =>
      have h0 := docLits_defineTypes (itemTypes w.imports) false
      have hsub : defineTypes false (itemTypes w.imports) ⊆ genOps w := by
        intro op h; rw [genOps_segments]
        have := sub_ite_nonempty (mem_itemTypes hit)
          (worldHead (s "## Exported types from world `") w.name ++ defineTypes false (itemTypes w.imports))
          (List.mem_append_right _ h)
        exact List.mem_append_right _ (List.mem_append_right _ (List.mem_append_left _ this))
      have := resolve hsub h0
      exact this d (List.mem_flatMap.mpr ⟨t, mem_itemTypes hit, hd⟩)
  · cases it with
    | iface k i =>
      refine resolve (ops := exportInterface k i) ?_ (docLits_exportInterface k i) d hd
      intro op h; rw [genOps_segments]
      have : op ∈ (itemIfaces w.exports).flatMap (fun p => exportInterface p.1 p.2) :=
        List.mem_flatMap.mpr ⟨(k, i), mem_itemIfaces hit, h⟩
      exact List.mem_append_right _ (List.mem_append_right _ (List.mem_append_right _ (List.mem_append_right _ (List.mem_append_right _ (List.mem_append_right _ (this))))))
    | func k f =>
      refine resolve (ops := funcOps f) ?_ (Or.inr (docLits_funcOps f)) d hd
      intro op h; rw [genOps_segments]
      have h1 : op ∈ (itemFuncs w.exports).flatMap funcOps := List.mem_flatMap.mpr ⟨f, mem_itemFuncs hit, h⟩
      have := sub_ite_nonempty (mem_itemFuncs hit)
        (worldHead (s "## Exported functions from world `") w.name ++ (itemFuncs w.exports).flatMap funcOps)
        (List.mem_append_right _ h1)
      exact List.mem_append_right _ (List.mem_append_right _ (List.mem_append_right _ (List.mem_append_right _ (List.mem_append_right _ (List.mem_append_left _ this)))))
    | type k t => simp [exportItemDocs] at hd

/-- Without a panic the world has no exported type item, so every doc comment of the world is one
the generator prints. -/
theorem allDocs_sub_printedDocs (w : World) (hp : ¬ Panics (genOps w)) :
    ∀ d ∈ allDocs w, d ∈ printedDocs w := by
  intro d hd
  simp only [allDocs, printedDocs, List.mem_append, List.mem_flatMap] at hd ⊢
  rcases hd with (hd | hd) | ⟨it, hit, hd⟩
  · exact Or.inl (Or.inl hd)
  · exact Or.inl (Or.inr hd)
  · right
    refine ⟨it, hit, ?_⟩
    cases it with
    | iface k i => exact hd
    | func k f => exact hd
    | type k t =>
      exfalso
      apply hp
      refine ⟨s "internal error: entered unreachable code", ?_⟩
      rw [genOps_segments]
      have := sub_ite_nonempty (mem_itemTypes hit) [Op.panic (s "internal error: entered unreachable code")]
        (List.mem_singleton.mpr rfl)
      exact List.mem_append_right _ (List.mem_append_right _ (List.mem_append_right _ (List.mem_append_right _
        (List.mem_append_left _ this))))

/-! ## ids and fragments of the rendered anchors -/

theorem ids_append (a b : List Tok) : ids (a ++ b) = ids a ++ ids b := by
  induction a with
  | nil => rfl
  | cons t ts ih =>
    cases t with
    | closeA => simpa [ids] using ih
    | openA h i => cases i <;> simp [ids, ih]

theorem fragments_append (a b : List Tok) : fragments (a ++ b) = fragments a ++ fragments b := by
  induction a with
  | nil => rfl
  | cons t ts ih =>
    cases t with
    | closeA => simpa [fragments] using ih
    | openA h i =>
      cases h with
      | none => simpa [fragments] using ih
      | some v =>
        cases v with
        | nil => simpa [fragments] using ih
        | cons c cs =>
          by_cases hc : c = '#'
          · subst hc; simp [fragments, ih]
          · simp [fragments, hc, ih]

theorem ids_rewriteGo (hrefs : List (Str × Str)) (evs : List Ev) :
    ∀ b, ids (anchorsOf (rewriteGo hrefs b evs)) = ids (anchorsOf evs) := by
  induction evs with
  | nil => intro b; rfl
  | cons e es ih =>
    intro b
    cases e with
    | code c =>
      cases b with
      | true => simpa [rewriteGo, anchorsOf] using ih true
      | false => cases hl : lookup hrefs c <;> simp [rewriteGo, hl, mkLink, anchorsOf, ids, ih]
    | startLink a b' c d => simp [rewriteGo, anchorsOf, ids, ih]
    | endLink => simp [rewriteGo, anchorsOf, ids, ih]
    | html t => simp [rewriteGo, anchorsOf, ids_append, ih]
    | inlineHtml t => simp [rewriteGo, anchorsOf, ids_append, ih]
    | text t => simp [rewriteGo, anchorsOf, ih]
    | start t => simp [rewriteGo, anchorsOf, ih]
    | stop t => simp [rewriteGo, anchorsOf, ih]
    | other t => simp [rewriteGo, anchorsOf, ih]

theorem fragments_rewriteGo (hrefs : List (Str × Str)) (evs : List Ev) :
    ∀ b x, x ∈ fragments (anchorsOf (rewriteGo hrefs b evs)) →
      x ∈ fragments (anchorsOf evs) ∨ ∃ c, lookup hrefs c = some ('#' :: x) := by
  induction evs with
  | nil => intro b x h; simp [rewriteGo, anchorsOf, fragments] at h
  | cons e es ih =>
    intro b x h
    cases e with
    | code c =>
      cases b with
      | true => exact ih true x (by simpa [rewriteGo, anchorsOf] using h)
      | false =>
        cases hl : lookup hrefs c with
        | none => exact ih false x (by simpa [rewriteGo, hl, anchorsOf] using h)
        | some dst =>
          simp only [rewriteGo, hl, mkLink, anchorsOf, Bool.false_eq_true, if_false] at h
          cases dst with
          | nil => exact ih false x (by simpa [fragments] using h)
          | cons d ds =>
            by_cases hd : d = '#'
            · subst hd
              simp only [fragments, List.mem_cons] at h
              rcases h with rfl | h
              · exact Or.inr ⟨c, hl⟩
              · exact ih false x h
            · exact ih false x (by simpa [fragments, hd] using h)
    | startLink a b' c d =>
      simp only [rewriteGo, anchorsOf] at h ⊢
      cases b' with
      | nil => rcases ih true x (by simpa [fragments] using h) with h' | h'
               · exact Or.inl (by simpa [fragments] using h')
               · exact Or.inr h'
      | cons q qs =>
        by_cases hq : q = '#'
        · subst hq
          simp only [fragments, List.mem_cons] at h ⊢
          rcases h with rfl | h
          · exact Or.inl (Or.inl rfl)
          · rcases ih true x h with h' | h'
            · exact Or.inl (Or.inr h')
            · exact Or.inr h'
        · rcases ih true x (by simpa [fragments, hq] using h) with h' | h'
          · exact Or.inl (by simpa [fragments, hq] using h')
          · exact Or.inr h'
    | endLink =>
      rcases ih false x (by simpa [rewriteGo, anchorsOf, fragments] using h) with h' | h'
      · exact Or.inl (by simpa [anchorsOf, fragments] using h')
      · exact Or.inr h'
    | html t =>
      simp only [rewriteGo, anchorsOf, fragments_append, List.mem_append] at h ⊢
      rcases h with h | h
      · exact Or.inl (Or.inl h)
      · rcases ih b x h with h' | h'
        · exact Or.inl (Or.inr h')
        · exact Or.inr h'
    | inlineHtml t =>
      simp only [rewriteGo, anchorsOf, fragments_append, List.mem_append] at h ⊢
      rcases h with h | h
      · exact Or.inl (Or.inl h)
      · rcases ih b x h with h' | h'
        · exact Or.inl (Or.inr h')
        · exact Or.inr h'
    | text t => simpa [rewriteGo, anchorsOf] using ih b x (by simpa [rewriteGo, anchorsOf] using h)
    | start t => simpa [rewriteGo, anchorsOf] using ih b x (by simpa [rewriteGo, anchorsOf] using h)
    | stop t => simpa [rewriteGo, anchorsOf] using ih b x (by simpa [rewriteGo, anchorsOf] using h)
    | other t => simpa [rewriteGo, anchorsOf] using ih b x (by simpa [rewriteGo, anchorsOf] using h)

end Witverif.Text.Md
