import Witverif.Proofs.AbiCall2
import Witverif.Proofs.AbiStoreA4
/-! C02, import glue with parameters passed through a record in memory (more than 16 flat
parameters, ANY parameter types): the record is written exactly as `Spec.storeFields` specifies
(same allocations in the same order, read-equivalent memory), one core call with the record pointer. -/
namespace Witverif.Abi
open Spec

theorem valStable_arg (env : Env) (n : Nat) (v : Val) (h : env.args[n]? = some (.v v)) :
    ValStable env (.arg n) v := by
  intro fs ls m
  simp [eval, Env.extend, Env.withLets, h]

theorem addrStableM_rp (env : Env) (n addr : Nat) (sz al : Off) (h : env.rps[n]? = some addr) :
    AddrStableM env (.rp n sz al) addr := by
  intro fs ls m
  simp [eval, Env.extend, Env.withLets, h]

/-- every parameter stored into the record at `ptr`, one after the other -/
theorem storeParams_soundA (p : Nat) (hp : p = 4 ∨ p = 8) (c : Cfg) : ∀ (vs : List Val) (ts : List Ty),
    hasTys ts vs = true →
    ∀ (nth c4 c8 : Nat) (ptr : Expr) (ss : List Stmt),
      storeParams c ts (List.zipWith Off.mk (fieldOffsets 4 c4 ts) (fieldOffsets 8 c8 ts)) nth ptr = .ok ss →
      ∀ (env : Env) (s : MSt) (addr : Nat), env.p = p → env.frames.length = 1 →
        (∀ (j : Nat) (h : j < vs.length), env.args[nth + j]? = some (.v vs[j])) → AddrStableM env ptr addr →
        ∃ ls s', execStmts env s ss = some (env.withLets ls, s') ∧
          StEq s'.st (Spec.storeFields p ts vs addr (curOf p c4 c8) s.st) ∧ SameLedgers s s'
  | [], ts, ht, nth, c4, c8, ptr, ss, h, env, s, addr, _, _, _, _ => by
      cases ts <;> simp [hasTys] at ht
      simp [storeParams, pure, Except.pure] at h
      subst h
      exact ⟨env.lets, s, by simp [execStmts, withLets_self], by simpa [Spec.storeFields] using StEq.refl _, SameLedgers.refl _⟩
  | v :: vs, ts, ht, nth, c4, c8, ptr, ss, h, env, s, addr, hpe, hl, hargs, ha => by
      cases ts with
      | nil => simp [hasTys] at ht
      | cons t ts =>
        simp [hasTys] at ht
        simp only [fieldOffsets, List.zipWith_cons_cons, storeParams, bind_ok] at h
        obtain ⟨s1, h1, s2, h2, hp'⟩ := h
        simp [pure, Except.pure] at hp'
        subst hp'
        have hx : ValStable env (.arg nth) v := valStable_arg env nth v (by have := hargs 0 (by simp); simpa using this)
        have ⟨l1, t1, e1, q1, g1⟩ := store_soundA p hp c v t ht.1 0 (.arg nth) ptr _ s1 h1 env s addr hpe hl hx ha
        have ⟨l2, t2, e2, q2, g2⟩ := storeParams_soundA p hp c vs ts ht.2 (nth + 1) _ _ ptr s2 h2 (env.withLets l1) t1 addr
          hpe hl (by
            intro j hj
            have := hargs (j + 1) (by simp; omega)
            simpa [Env.withLets, Nat.add_assoc, Nat.add_comm 1 j] using this) (ha.withLets l1)
        refine ⟨l2, t2, ?_, ?_, g1.trans g2⟩
        · rw [execStmts_append, e1]
          simp only [Option.bind_some, e2, withLets_withLets]
        · simp only [Spec.storeFields]
          have e1' : addr + (Off.mk (alignTo c4 (alignment 4 t)) (alignTo c8 (alignment 8 t))).at p
              = addr + alignTo (curOf p c4 c8) (alignment p t) := by
            rcases hp with rfl | rfl <;> simp [curOf, Off.at]
          have e2' : curOf p (alignTo c4 (alignment 4 t) + elemSize 4 t) (alignTo c8 (alignment 8 t) + elemSize 8 t)
              = alignTo (curOf p c4 c8) (alignment p t) + elemSize p t := by
            rcases hp with rfl | rfl <;> simp [curOf]
          simp only [] at q1
          rw [e1'] at q1
          rw [e2'] at q2
          exact q2.trans (storeFields_congrA p vs ts _ _ _ _ ht.2 q1)

/-- shape of the import glue: indirect parameters, no result -/
theorem call_import_indirect_shape (canon : Ty → Bool) (f : Func) (hres : f.result = none)
    (hind : (flattenList f.params).length > 16)
    (ss : List Stmt) (h : call canon .guestImport true false f = .ok ss) :
    let ptr := Expr.rp 0 (recordSizeOff f.params) (recordAlignOff f.params)
    ∃ (s0 : List Stmt),
      storeParams ⟨canon, false⟩ f.params (fieldOffs f.params) 0 ptr = .ok s0 ∧
      ss = s0 ++ [Stmt.eff (Op.callWasm [.ptr] []) [ptr] []] ++ [Stmt.eff (.ret 0) [] []] := by
  intro ptr
  have hsig : wasmSignature .guestImport f = ⟨[.ptr], [], true, false⟩ := by
    simp [wasmSignature, maxFlatParams, maxFlatResults, hind, hres, flattenOpt]
  cases hsp : storeParams ⟨canon, false⟩ f.params (fieldOffs f.params) 0 ptr with
  | error e => simp [call, hsig, hsp, ptr, Variant.isExport, bind, Except.bind] at h
  | ok s0 =>
    refine ⟨s0, rfl, ?_⟩
    simp [call, hsig, hsp, hres, ptr, Variant.isExport, bind, Except.bind, pure, Except.pure, resN] at h
    simp [← h, ptr]

/-- **Import glue, parameters through memory.**  For an imported function without result whose
parameters (of ANY types) flatten to more than 16 core values: the glue writes the parameter record
into the area it was given — exactly the allocations and (read-equivalently) the bytes of the
canonical ABI's store of the argument tuple at the canonical field offsets — then performs exactly
one core call whose only operand is the pointer to that record, and returns; nothing is freed. -/
theorem call_import_indirect_correct (p : Nat) (hp4 : p = 4 ∨ p = 8) (canon : Ty → Bool) (f : Func)
    (hres : f.result = none) (vals : List Val) (recAddr : Nat) (s0 : MSt)
    (ht : hasTys f.params vals = true) (hind : (flattenList f.params).length > 16)
    (ss : List Stmt) (h : call canon .guestImport true false f = .ok ss) :
    let env : Env := { p, args := vals.map MV.v, rps := [recAddr] }
    ∃ env' s', execStmts env s0 ss = some (env', s') ∧
      s'.calls = ("Return", []) :: ("CallWasm", [MV.c ⟨ptrFT p, recAddr⟩]) :: s0.calls ∧
      s'.freed = s0.freed ∧ s'.dropped = s0.dropped ∧
      StEq s'.st (Spec.storeFields p f.params vals recAddr 0 s0.st) := by
  intro env
  have ⟨st0, hsp, hss⟩ := call_import_indirect_shape canon f hres hind ss h
  subst hss
  have hptr : AddrStableM env (Expr.rp 0 (recordSizeOff f.params) (recordAlignOff f.params)) recAddr :=
    addrStableM_rp env 0 recAddr _ _ (by simp [env])
  have ⟨ls, s1, e1, q1, g1⟩ := storeParams_soundA p hp4 ⟨canon, false⟩ vals f.params ht 0 0 0 _ st0
    (by simpa [fieldOffs] using hsp) env s0 recAddr rfl rfl (by intro j hj; simp [env, hj]) hptr
  have hcall : exec (env.withLets ls) s1 (Stmt.eff (Op.callWasm [.ptr] [])
        [Expr.rp 0 (recordSizeOff f.params) (recordAlignOff f.params)] []) =
      some ((env.withLets ls).bind (Op.callWasm [.ptr] []) [Expr.rp 0 (recordSizeOff f.params) (recordAlignOff f.params)] [],
        { s1 with calls := ("CallWasm", [MV.c ⟨ptrFT p, recAddr⟩]) :: s1.calls }) := by
    simp [exec, eval, execOp, env, Env.withLets]
  have hexec : execStmts env s0 (st0 ++ [Stmt.eff (Op.callWasm [.ptr] [])
        [Expr.rp 0 (recordSizeOff f.params) (recordAlignOff f.params)] []] ++ [Stmt.eff (.ret 0) [] []]) =
      some (((env.withLets ls).bind (Op.callWasm [.ptr] []) [Expr.rp 0 (recordSizeOff f.params) (recordAlignOff f.params)] []).bind
          (.ret 0) [] [],
        { s1 with calls := ("Return", []) :: ("CallWasm", [MV.c ⟨ptrFT p, recAddr⟩]) :: s1.calls }) := by
    rw [execStmts_append, execStmts_append, e1]
    simp only [Option.bind_some, execStmts, hcall]
    simp [exec, execOp]
  refine ⟨_, _, hexec, ?_, ?_, ?_, ?_⟩
  · simp [g1.2.2]
  · simp [g1.1]
  · simp [g1.2.1]
  · simpa [curOf] using q1

end Witverif.Abi
