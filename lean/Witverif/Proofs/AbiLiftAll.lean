import Witverif.Proofs.AbiLift3
import Witverif.Proofs.AbiLoad
import Witverif.Proofs.AbiClean3
/-! C01, flat lifting of ALL types (strings, lists, maps included): the generator's tree evaluates to
`Spec.liftFlat` (including agreement on traps), from operands that denote the core values in every
extension of the environment. -/
namespace Witverif.Abi
open Spec

def LiftSoundA (p : Nat) (c : Cfg) (t : Ty) : Prop :=
  ∀ (lvl : Nat) (xs : List Expr) (env : Env) (m : Mem) (cs : List CVal) (e : Expr),
    env.p = p → env.frames.length = lvl + 1 → WfFlat cs (Spec.flatten p t) → FlatStable env m xs cs →
    lift c lvl t xs = .ok e →
    ∀ ls, eval (env.withLets ls) m e = (Spec.liftFlat p m t cs).map MV.v

theorem FlatStable.hereL {env : Env} {m : Mem} {xs : List Expr} {cs : List CVal} (h : FlatStable env m xs cs)
    (ls : List (String × List MV)) : evalList (env.withLets ls) m xs = some (cs.map MV.c) := by
  simpa [extend_nil] using h [] ls

theorem FlatStable.headL {env : Env} {m : Mem} {xs : List Expr} {c : CVal} {cs : List CVal}
    (h : FlatStable env m xs (c :: cs)) (ls : List (String × List MV)) :
    eval (env.withLets ls) m (hd xs) = some (.c c) :=
  (h.withLets ls).head

theorem liftA_leaf (p : Nat) (c : Cfg) (t : Ty) (s : ScalarOp) (ft : FT)
    (hl : ∀ lvl xs, lift c lvl t xs = .ok (sc s (hd xs)))
    (hflat : Spec.flatten p t = [ft])
    (hsem : ∀ (m : Mem) (v : CVal), scalarSem s (.c v) = (Spec.liftFlat p m t [v]).map MV.v) :
    LiftSoundA p c t := by
  intro lvl xs env m cs e _ _ hwf hst hlift ls
  rw [hl] at hlift
  simp at hlift
  subst hlift
  rw [hflat] at hwf
  obtain ⟨v, rfl, _, _⟩ := single_of_wf hwf
  rw [eval_sc, hst.headL ls]
  simp [hsem m v]

theorem liftA_handle (p : Nat) (c : Cfg) (t : Ty) (o : Op)
    (hl : ∀ lvl xs, lift c lvl t xs = .ok (pure1 o xs))
    (hflat : Spec.flatten p t = [.i32])
    (hsem : ∀ pp m bev (v : CVal), opSem pp m bev o [.c v] = some [.v (.handle (v.bits % 2 ^ 32))])
    (hspec : ∀ (m : Mem) (v : CVal), Spec.liftFlat p m t [v] = some (.handle v.bits)) :
    LiftSoundA p c t := by
  intro lvl xs env m cs e _ _ hwf hst hlift ls
  rw [hl] at hlift
  simp at hlift
  subst hlift
  rw [hflat] at hwf
  obtain ⟨v, rfl, hty, hb⟩ := single_of_wf hwf
  have hx := hst.hereL ls
  simp only [pure1, eval, hx, List.map_cons, List.map_nil, Option.bind_some, hsem, hspec]
  rw [hty] at hb
  simp [FT.width] at hb
  simp [Nat.mod_eq_of_lt hb]

/-- the inputs of an arm (slots cast back from the joined types) denote the coerced values -/
theorem flatStable_armInputs (p : Nat) (hp : p = 4 ∨ p = 8) (t : Ty) (params1 : List CoreTy) (inputs : List Expr)
    (casts : List Bitcast) (hcasts : castsFor params1 (flatten t) = .ok casts)
    (hb : ∀ (k : Nat) (h : k < (flatten t).length), ∃ h' : k < params1.length, le ((flatten t)[k]) (params1[k]) = true)
    (env : Env) (m : Mem) (rest : List CVal) (hpe : env.p = p)
    (hwf : WfFlat rest (params1.map (CoreTy.erase p))) (hst : FlatStable env m inputs rest) :
    WfFlat (coerceBack rest (Spec.flatten p t)) (Spec.flatten p t) ∧
    FlatStable env m (applyCasts (casts.take (flatten t).length) (inputs.take (flatten t).length))
      (coerceBack rest (Spec.flatten p t)) := by
  have hle : (flatten t).length ≤ params1.length := by
    by_cases h0 : (flatten t).length = 0
    · omega
    · have ⟨h', _⟩ := hb ((flatten t).length - 1) (by omega); omega
  have hcl := castsFor_length _ _ _ hcasts
  have ⟨hz, hwfc⟩ := casts_coerceBack p hp (flatten t) params1 casts rest hcasts hb hwf
  rw [flatten_erase p hp t] at hz hwfc
  refine ⟨hwfc, ?_⟩
  intro fs ls
  have hvl : rest.length = params1.length := by simpa using hwf.length
  have hil : inputs.length = rest.length := hst.length
  have h1 := (hst.take (flatten t).length) fs ls
  have := evalList_applyCasts ((env.extend fs).withLets ls) m (casts.take (flatten t).length)
    (inputs.take (flatten t).length) (rest.take (flatten t).length)
    (by simp [hcl]; omega) h1 (by simp; omega)
    (by
      have hpp : ((env.extend fs).withLets ls).p = p := hpe
      rw [hpp]; exact (castsFor_typed p hp _ _ casts rest hcasts hwf.1).take _)
  have hpp : ((env.extend fs).withLets ls).p = p := hpe
  rw [this, hpp, hz]

def ArmLiftSoundA (p : Nat) (c : Cfg) (o : Option Ty) : Prop :=
  ∀ (lvl : Nat) (params1 : List CoreTy) (inputs : List Expr) (env : Env) (m : Mem) (vs : List CVal) (arm : List Expr),
    env.p = p → env.frames.length = lvl + 1 → WfFlat vs (params1.map (CoreTy.erase p)) →
    (∀ (k : Nat) (h : k < (flattenOpt o).length), ∃ h' : k < params1.length, le ((flattenOpt o)[k]) (params1[k]) = true) →
    FlatStable env m inputs vs → liftArm c lvl o params1 inputs = .ok arm →
    ∀ ls (f : Frame), evalList ((env.extend [f]).withLets ls) m arm = (Spec.liftOpt p m o vs).map optVals

theorem armLiftA_none (p : Nat) (c : Cfg) : ArmLiftSoundA p c none := by
  intro lvl params1 inputs env m vs arm _ _ _ _ _ h ls f
  simp [liftArm, pure, Except.pure] at h
  subst h
  simp [Spec.liftOpt, optVals]

theorem armLiftA_some (p : Nat) (hp : p = 4 ∨ p = 8) (c : Cfg) (t : Ty) (ih : LiftSoundA p c t) :
    ArmLiftSoundA p c (some t) := by
  intro lvl params1 inputs env m vs arm hpe hl hwf hb hst h ls f
  simp only [liftArm, bind_ok] at h
  obtain ⟨temp, htemp, ins, hins, r, hr, hp'⟩ := h
  have ht := flatU_ok htemp
  subst ht
  simp only [armInputs, bind_ok] at hins
  obtain ⟨casts, hcasts, hins⟩ := hins
  simp [pure, Except.pure] at hins hp'
  subst hins; subst hp'
  have hb' : ∀ (k : Nat) (h : k < (flatten t).length), ∃ h' : k < params1.length, le ((flatten t)[k]) (params1[k]) = true := by
    simpa [flattenOpt] using hb
  have ⟨hwfc, hstc⟩ := flatStable_armInputs p hp t params1 inputs casts hcasts hb' env m vs hpe hwf hst
  have := ih (lvl + 1) _ (env.extend [f]) m _ r hpe (by simp [Env.extend, hl]) hwfc (hstc.extend [f]) hr ls
  simp only [evalList_cons, evalList_nil, this, Spec.liftOpt]
  cases Spec.liftFlat p m t (coerceBack vs (Spec.flatten p t)) <;> simp [optVals]

/-- fixed-length lists: `n` chunks lifted one after the other -/
theorem liftManyA_sound (p : Nat) (hp : p = 4 ∨ p = 8) (c : Cfg) (e : Ty) (ih : LiftSoundA p c e) (lvl : Nat)
    (env : Env) (m : Mem) (hpe : env.p = p) (hl : env.frames.length = lvl + 1) :
    ∀ (n : Nat) (xs : List Expr) (cs : List CVal) (elems : List Expr),
      WfFlat cs (Spec.rep (Spec.flatten p e) n) → FlatStable env m xs cs →
      (chunks xs (List.replicate n (flatten e).length)).mapM (lift c lvl e) = .ok elems →
      ∀ ls, evalList (env.withLets ls) m elems
        = (liftMany (Spec.liftFlat p m e) (Spec.flatten p e).length n cs).map (·.map MV.v) := by
  intro n
  induction n with
  | zero =>
    intro xs cs elems _ _ h ls
    simp [chunks, pure, Except.pure] at h
    subst h
    simp [liftMany]
  | succ n ihn =>
    intro xs cs elems hwf hst h ls
    simp only [List.replicate_succ, chunks, List.mapM_cons, bind_ok] at h
    obtain ⟨r, hr, rest, hrest, hp'⟩ := h
    simp [pure, Except.pure] at hp'
    subst hp'
    have hk : (flatten e).length = (Spec.flatten p e).length := by
      rw [← flatten_erase p hp e]; simp
    have hwf' : WfFlat cs (Spec.flatten p e ++ Spec.rep (Spec.flatten p e) n) := by simpa [Spec.rep] using hwf
    have ⟨hw1, hw2⟩ := WfFlat.split hwf'
    rw [hk] at hr hrest
    have e1 := ih lvl _ env m _ r hpe hl hw1 (hst.take _) hr ls
    have e2 := ihn _ _ rest hw2 (hst.drop _) (by rw [hk]; exact hrest) ls
    simp only [evalList_cons, e1, e2, liftMany]
    cases Spec.liftFlat p m e (List.take (Spec.flatten p e).length cs) <;> simp
    cases liftMany (Spec.liftFlat p m e) (Spec.flatten p e).length n (List.drop (Spec.flatten p e).length cs) <;> simp

set_option maxHeartbeats 800000 in
mutual
theorem lift_soundA (p : Nat) (hp : p = 4 ∨ p = 8) (c : Cfg) : ∀ (t : Ty), LiftSoundA p c t
  | .bool => liftA_leaf p c _ .boolFromI32 .i32 (by intros; simp [lift, pure, Except.pure]) (by simp [Spec.flatten])
      (by intro m v; simp [scalarSem, Spec.liftFlat])
  | .s8 => liftA_leaf p c _ .s8FromI32 .i32 (by intros; simp [lift, pure, Except.pure]) (by simp [Spec.flatten])
      (by intro m v; simp [scalarSem, Spec.liftFlat])
  | .u8 => liftA_leaf p c _ .u8FromI32 .i32 (by intros; simp [lift, pure, Except.pure]) (by simp [Spec.flatten])
      (by intro m v; simp [scalarSem, Spec.liftFlat])
  | .s16 => liftA_leaf p c _ .s16FromI32 .i32 (by intros; simp [lift, pure, Except.pure]) (by simp [Spec.flatten])
      (by intro m v; simp [scalarSem, Spec.liftFlat])
  | .u16 => liftA_leaf p c _ .u16FromI32 .i32 (by intros; simp [lift, pure, Except.pure]) (by simp [Spec.flatten])
      (by intro m v; simp [scalarSem, Spec.liftFlat])
  | .s32 => liftA_leaf p c _ .s32FromI32 .i32 (by intros; simp [lift, pure, Except.pure]) (by simp [Spec.flatten])
      (by intro m v; simp [scalarSem, Spec.liftFlat])
  | .u32 => liftA_leaf p c _ .u32FromI32 .i32 (by intros; simp [lift, pure, Except.pure]) (by simp [Spec.flatten])
      (by intro m v; simp [scalarSem, Spec.liftFlat])
  | .s64 => liftA_leaf p c _ .s64FromI64 .i64 (by intros; simp [lift, pure, Except.pure]) (by simp [Spec.flatten])
      (by intro m v; simp [scalarSem, Spec.liftFlat])
  | .u64 => liftA_leaf p c _ .u64FromI64 .i64 (by intros; simp [lift, pure, Except.pure]) (by simp [Spec.flatten])
      (by intro m v; simp [scalarSem, Spec.liftFlat])
  | .f32 => liftA_leaf p c _ .f32FromCoreF32 .f32 (by intros; simp [lift, pure, Except.pure]) (by simp [Spec.flatten])
      (by intro m v; simp [scalarSem, Spec.liftFlat])
  | .f64 => liftA_leaf p c _ .f64FromCoreF64 .f64 (by intros; simp [lift, pure, Except.pure]) (by simp [Spec.flatten])
      (by intro m v; simp [scalarSem, Spec.liftFlat])
  | .char => liftA_leaf p c _ .charFromI32 .i32 (by intros; simp [lift, pure, Except.pure]) (by simp [Spec.flatten])
      (by intro m v; simp [scalarSem, Spec.liftFlat])
  | .errctx => liftA_handle p c _ .errLift (by intros; simp [lift, pure, Except.pure]) (by simp [Spec.flatten])
      (by intros; simp [opSem, pureSem]) (by intros; simp [Spec.liftFlat])
  | .own => liftA_handle p c _ (.handleLift true) (by intros; simp [lift, pure, Except.pure]) (by simp [Spec.flatten])
      (by intros; simp [opSem, pureSem]) (by intros; simp [Spec.liftFlat])
  | .borrow => liftA_handle p c _ (.handleLift false) (by intros; simp [lift, pure, Except.pure]) (by simp [Spec.flatten])
      (by intros; simp [opSem, pureSem]) (by intros; simp [Spec.liftFlat])
  | .future _ => liftA_handle p c _ .futureLift (by intros; simp [lift, pure, Except.pure]) (by simp [Spec.flatten])
      (by intros; simp [opSem, pureSem]) (by intros; simp [Spec.liftFlat])
  | .stream _ => liftA_handle p c _ .streamLift (by intros; simp [lift, pure, Except.pure]) (by simp [Spec.flatten])
      (by intros; simp [opSem, pureSem]) (by intros; simp [Spec.liftFlat])
  | .string => by
      intro lvl xs env m cs e _ _ hwf hst hlift ls
      simp [lift, pure, Except.pure] at hlift
      subst hlift
      obtain ⟨a, n, rfl, _, _⟩ := two_of_wf (by simpa [Spec.flatten] using hwf)
      have hx := hst.hereL ls
      simp [pure1, eval, hx, opSem, pureSem, Spec.liftFlat]
  | .list e => by
      intro lvl xs env m cs ex hpe hl hwf hst hlift ls
      subst hpe
      obtain ⟨a, n, rfl, _, _⟩ := two_of_wf (by simpa [Spec.flatten] using hwf)
      have hx := hst.hereL ls
      simp only [lift] at hlift
      split at hlift
      · simp [pure, Except.pure] at hlift
        subst hlift
        simp only [pure1, eval, hx, List.map_cons, List.map_nil, Option.bind_some, opSem, pureSem, Spec.liftFlat, withLets_p]
        by_cases hal : (a.bits % alignment env.p e != 0) = true
        · simp [hal]
        · simp only [hal, Bool.false_eq_true, if_false]
          cases loadMany _ _ _ _ <;> simp
      · simp only [bind_ok] at hlift
        obtain ⟨r, hr, hp'⟩ := hlift
        simp [pure, Except.pure] at hp'
        subst hp'
        simp only [eval, hx, List.map_cons, List.map_nil, Option.bind_some, opSem, Spec.liftFlat, withLets_p]
        by_cases hal : (a.bits % alignment env.p e != 0) = true
        · simp [hal]
        · simp only [hal, Bool.false_eq_true, if_false]
          have := forRange_load (Spec.load env.p m e) (elemSize env.p e) n.bits
            (fun i => (evalBlockAt (env.withLets ls) m [[r]] 0
              { base := some (a.bits + i * elemSize env.p e) }).bind fun rs => rs[0]?) a.bits
            (by
              intro i _
              have hb := load_sound env.p hp c e (lvl + 1) (.base (lvl + 1)) Off.zero
                (env.extend [{ base := some (a.bits + i * elemSize env.p e) }]) m _ r rfl
                (by simp [Env.extend, hl]) (stable_base env m lvl hl _ _ rfl) hr ls
              have ht : List.take (lvl + 1) env.frames = env.frames := List.take_of_length_le (by omega)
              simp only [evalBlockAt, evalList_cons, evalList_nil, withLets_frames, hl, Env.enter, ht]
              simp only [Env.extend, Env.withLets, Off.zero_at, Nat.add_zero] at hb
              simp only [Env.withLets, hb]
              cases Spec.load env.p m e _ <;> simp)
          rw [this]
          cases loadMany _ _ _ _ <;> simp
  | .map k v => by
      intro lvl xs env m cs ex hpe hl hwf hst hlift ls
      subst hpe
      obtain ⟨a, n, rfl, _, _⟩ := two_of_wf (by simpa [Spec.flatten] using hwf)
      have hx := hst.hereL ls
      simp only [lift, bind_ok] at hlift
      obtain ⟨rk, hrk, rv, hrv, hp'⟩ := hlift
      simp [pure, Except.pure] at hp'
      subst hp'
      simp only [eval, hx, List.map_cons, List.map_nil, Option.bind_some, opSem, Spec.liftFlat, withLets_p]
      by_cases hal : (a.bits % alignment env.p (.tuple [k, v]) != 0) = true
      · simp [hal]
      · simp only [hal, Bool.false_eq_true, if_false]
        have hvo : ((fieldOffs [k, v]).getD 1 Off.zero).at env.p = alignTo (elemSize env.p k) (alignment env.p v) := by
          rcases hp with hp | hp <;> rw [hp] <;> simp [fieldOffs, fieldOffsets, Off.at, alignTo_zero]
        have := forRange_loadEntries (Spec.load env.p m k) (Spec.load env.p m v)
            (alignTo (elemSize env.p k) (alignment env.p v)) (elemSize env.p (.tuple [k, v])) n.bits
            (fun i => (evalBlockAt (env.withLets ls) m [[rk, rv]] 0
              { base := some (a.bits + i * elemSize env.p (.tuple [k, v])) }).bind entryOf) a.bits
            (by
              intro i _
              have hbk := load_sound env.p hp c k (lvl + 1) (.base (lvl + 1)) Off.zero
                (env.extend [{ base := some (a.bits + i * elemSize env.p (.tuple [k, v])) }]) m _ rk rfl
                (by simp [Env.extend, hl]) (stable_base env m lvl hl _ _ rfl) hrk ls
              have hbv := load_sound env.p hp c v (lvl + 1) (.base (lvl + 1)) _
                (env.extend [{ base := some (a.bits + i * elemSize env.p (.tuple [k, v])) }]) m _ rv rfl
                (by simp [Env.extend, hl]) (stable_base env m lvl hl _ _ rfl) hrv ls
              have ht : List.take (lvl + 1) env.frames = env.frames := List.take_of_length_le (by omega)
              simp only [evalBlockAt, evalList_cons, evalList_nil, withLets_frames, hl, Env.enter, ht]
              simp only [Env.extend, Env.withLets, Off.zero_at, Nat.add_zero, hvo] at hbk hbv
              simp only [Env.withLets, hbk, hbv]
              cases Spec.load env.p m k _ <;> simp [entryOf]
              cases Spec.load env.p m v _ <;> simp [entryOf])
        rw [this]
        cases loadManyEntries _ _ _ _ _ _ <;> simp [listOf_map_v]
  | .enum n => by
      intro lvl xs env m cs e _ _ hwf hst hlift ls
      simp [lift, pure, Except.pure] at hlift
      subst hlift
      simp only [Spec.flatten] at hwf
      obtain ⟨v, rfl, _, _⟩ := single_of_wf hwf
      have hx := hst.hereL ls
      simp only [pure1, eval, hx, List.map_cons, List.map_nil, Option.bind_some, opSem, pureSem, Spec.liftFlat]
      split <;> simp
  | .flags n => by
      intro lvl xs env m cs e _ _ hwf hst hlift ls
      simp [lift, pure, Except.pure] at hlift
      subst hlift
      have hx := hst.hereL ls
      simp [pure1, eval, hx, opSem, pureSem, cvals_map_c, Spec.liftFlat]
  | .record fs => by
      intro lvl xs env m cs e hpe hl hwf hst hlift ls
      simp only [lift, bind_ok] at hlift
      obtain ⟨_, _, fields, hfields, hp'⟩ := hlift
      simp [pure, Except.pure] at hp'
      subst hp'
      have hf := liftFields_soundA p hp c fs lvl xs env m cs fields hpe hl (by simpa [Spec.flatten] using hwf) hst hfields ls
      simp only [pure1, eval, hf, Spec.liftFlat]
      cases hl' : Spec.liftFields p m fs cs with
      | none => simp
      | some vs =>
        have hlen := liftFields_length p m fs cs vs hl'
        simp [opSem, pureSem, vals_map_v, hlen]
  | .tuple ts => by
      intro lvl xs env m cs e hpe hl hwf hst hlift ls
      simp only [lift, bind_ok] at hlift
      obtain ⟨_, _, fields, hfields, hp'⟩ := hlift
      simp [pure, Except.pure] at hp'
      subst hp'
      have hf := liftFields_soundA p hp c ts lvl xs env m cs fields hpe hl (by simpa [Spec.flatten] using hwf) hst hfields ls
      simp only [pure1, eval, hf, Spec.liftFlat]
      cases hl' : Spec.liftFields p m ts cs with
      | none => simp
      | some vs =>
        have hlen := liftFields_length p m ts cs vs hl'
        simp [opSem, pureSem, vals_map_v, hlen]
  | .flist e n => by
      intro lvl xs env m cs el hpe hl hwf hst hlift ls
      simp only [lift, bind_ok] at hlift
      obtain ⟨k, hk, elems, helems, hp'⟩ := hlift
      have hk' := flatU_ok hk
      subst hk'
      simp [pure, Except.pure] at hp'
      subst hp'
      have hm' := liftManyA_sound p hp c e (lift_soundA p hp c e) lvl env m hpe hl n xs cs elems
        (by simpa [Spec.flatten] using hwf) hst helems ls
      simp only [pure1, eval, hm', Spec.liftFlat]
      cases hl' : liftMany (Spec.liftFlat p m e) (Spec.flatten p e).length n cs with
      | none => simp
      | some vs =>
        have hlen := liftMany_length _ _ n cs vs hl'
        simp [opSem, pureSem, vals_map_v, hlen]
  | .variant cs' => by
      intro lvl xs env m cs e hpe hl hwf hst hlift ls
      simp only [lift, bind_ok] at hlift
      obtain ⟨params, hparams, arms, harms, hp'⟩ := hlift
      have hpr := flatU_ok hparams
      simp [pure, Except.pure] at hp'
      subst hp'
      simp only [Spec.flatten] at hwf
      cases cs with
      | nil => have := hwf.1; simp at this
      | cons d vs =>
        have ⟨_, _, hwfv⟩ := WfFlat.cons_inv hwf
        have hdrop : params.drop 1 = flattenCases cs' := by rw [hpr]; simp [flatten]
        have ⟨hal, hag⟩ := liftArms_get c lvl (params.drop 1) (xs.drop 1) cs' arms harms
        have hx := hst.headL ls
        have hdv : FlatStable env m (xs.drop 1) vs := by simpa using hst.drop 1
        rw [variant_lift_eval (env.withLets ls) m (.variantLift cs'.length) cs'.length (by intros; simp [opSem])
          (hd xs) d arms hal hx (Spec.liftCase p m cs' d.bits vs)]
        · simp only [Spec.liftFlat]
          split <;> simp
          cases Spec.liftCase p m cs' d.bits vs <;> simp
        · intro arm0 harm0
          have hlt : d.bits < cs'.length := by
            have := (List.getElem?_eq_some_iff.mp harm0).1; omega
          have hci : cs'[d.bits]? = some (cs'[d.bits]'hlt) := by simp [hlt]
          have ⟨arm, harm, hla⟩ := hag d.bits _ hci
          have harm' : arm0 = arm := by rw [harm0] at harm; exact Option.some.inj harm
          subst harm'
          rw [liftCase_get p m cs' d.bits _ vs hci]
          have := liftArms_soundA p hp c cs' d.bits (cs'[d.bits]'hlt) hci
            lvl (params.drop 1) (xs.drop 1) env m vs arm0 hpe hl
            (by rw [hdrop, flattenCases_erase p hp cs']; exact hwfv)
            (by rw [hdrop]; exact flattenCases_get_bounds cs' d.bits _ hci) hdv hla ls {}
          have ht : List.take (lvl + 1) env.frames = env.frames := List.take_of_length_le (by omega)
          simpa [withLets_frames, hl, Env.enter, Env.extend, Env.withLets, ht] using this
  | .option t => by
      intro lvl xs env m cs e hpe hl hwf hst hlift ls
      simp only [lift, bind_ok] at hlift
      obtain ⟨params, hparams, temp, htemp, ins, hins, r, hr, hp'⟩ := hlift
      have hpr := flatU_ok hparams
      simp [pure, Except.pure] at hp'
      subst hp'
      simp only [Spec.flatten] at hwf
      cases cs with
      | nil => have := hwf.1; simp at this
      | cons d vs =>
        have ⟨_, _, hwfv⟩ := WfFlat.cons_inv hwf
        have hdrop : params.drop 1 = flatten t := by rw [hpr]; simp [flatten, joinFlat]
        have hx := hst.headL ls
        have hdv : FlatStable env m (xs.drop 1) vs := by simpa using hst.drop 1
        have hla : liftArm c lvl (some t) (params.drop 1) (xs.drop 1) = .ok [r] := by
          simp only [liftArm, bind_ok]
          exact ⟨temp, htemp, ins, hins, r, hr, rfl⟩
        have hsome := armLiftA_some p hp c t (lift_soundA p hp c t) lvl (params.drop 1) (xs.drop 1) env m vs [r] hpe hl
          (by rw [hdrop, flatten_erase p hp t]; exact hwfv)
          (by rw [hdrop]; intro k h; exact ⟨by simpa [flattenOpt] using h, by simp only [flattenOpt]; exact le_refl _⟩) hdv hla ls {}
        have ht : List.take (lvl + 1) env.frames = env.frames := List.take_of_length_le (by omega)
        rw [variant_lift_eval (env.withLets ls) m .optionLift 2 (by intros; simp [opSem])
          (hd xs) d [[], [r]] rfl hx
          (match d.bits with | 0 => some none | 1 => Spec.liftOpt p m (some t) vs | _ => none)]
        · simp only [Spec.liftFlat]
          rcases hd0 : d.bits with _ | _ | k <;> simp [Spec.liftOpt]
          cases Spec.liftFlat p m t (coerceBack vs (Spec.flatten p t)) <;> simp
        · intro arm0 harm0
          rcases hd0 : d.bits with _ | _ | k
          · rw [hd0] at harm0; simp at harm0; subst harm0; simp [optVals]
          · rw [hd0] at harm0; simp at harm0; subst harm0
            simpa [withLets_frames, hl, Env.enter, Env.extend, Env.withLets, ht] using hsome
          · rw [hd0] at harm0; simp at harm0
  | .result a b => by
      intro lvl xs env m cs e hpe hl hwf hst hlift ls
      simp only [lift, bind_ok] at hlift
      obtain ⟨params, hparams, a0, ha0, a1, ha1, hp'⟩ := hlift
      have hpr := flatU_ok hparams
      simp [pure, Except.pure] at hp'
      subst hp'
      simp only [Spec.flatten] at hwf
      cases cs with
      | nil => have := hwf.1; simp at this
      | cons d vs =>
        have ⟨_, _, hwfv⟩ := WfFlat.cons_inv hwf
        have hdrop : params.drop 1 = joinFlat (flattenOpt a) (flattenOpt b) := by rw [hpr]; simp [flatten]
        have herase : (joinFlat (flattenOpt a) (flattenOpt b)).map (CoreTy.erase p)
            = Spec.joinFlat (Spec.flattenOpt p a) (Spec.flattenOpt p b) := by
          rw [joinFlat_erase p hp, flattenOpt_erase p hp, flattenOpt_erase p hp]
        have hx := hst.headL ls
        have hdv : FlatStable env m (xs.drop 1) vs := by simpa using hst.drop 1
        have s0 := liftArm_soundA p hp c a lvl (params.drop 1) (xs.drop 1) env m vs a0 hpe hl
          (by rw [hdrop, herase]; exact hwfv) (by rw [hdrop]; exact joinFlat_le_left _ _) hdv ha0 ls {}
        have s1 := liftArm_soundA p hp c b lvl (params.drop 1) (xs.drop 1) env m vs a1 hpe hl
          (by rw [hdrop, herase]; exact hwfv) (by rw [hdrop]; exact joinFlat_le_right _ _) hdv ha1 ls {}
        have ht : List.take (lvl + 1) env.frames = env.frames := List.take_of_length_le (by omega)
        rw [variant_lift_eval (env.withLets ls) m .resultLift 2 (by intros; simp [opSem])
          (hd xs) d [a0, a1] rfl hx
          (match d.bits with | 0 => Spec.liftOpt p m a vs | 1 => Spec.liftOpt p m b vs | _ => none)]
        · simp only [Spec.liftFlat]
          rcases hd0 : d.bits with _ | _ | k <;> simp
          · cases Spec.liftOpt p m a vs <;> simp
          · cases Spec.liftOpt p m b vs <;> simp
        · intro arm0 harm0
          rcases hd0 : d.bits with _ | _ | k
          · rw [hd0] at harm0; simp at harm0; subst harm0
            simpa [withLets_frames, hl, Env.enter, Env.extend, Env.withLets, ht] using s0
          · rw [hd0] at harm0; simp at harm0; subst harm0
            simpa [withLets_frames, hl, Env.enter, Env.extend, Env.withLets, ht] using s1
          · rw [hd0] at harm0; simp at harm0
theorem liftFields_soundA (p : Nat) (hp : p = 4 ∨ p = 8) (c : Cfg) : ∀ (ts : List Ty),
    ∀ (lvl : Nat) (xs : List Expr) (env : Env) (m : Mem) (cs : List CVal) (fields : List Expr),
      env.p = p → env.frames.length = lvl + 1 → WfFlat cs (Spec.flattenList p ts) → FlatStable env m xs cs →
      liftFields c lvl ts xs = .ok fields →
      ∀ ls, evalList (env.withLets ls) m fields = (Spec.liftFields p m ts cs).map (·.map MV.v)
  | [], lvl, xs, env, m, cs, fields, _, _, _, _, h, ls => by
      simp [liftFields, pure, Except.pure] at h
      subst h
      simp [Spec.liftFields]
  | t :: ts, lvl, xs, env, m, cs, fields, hpe, hl, hwf, hst, h, ls => by
      simp only [liftFields, bind_ok] at h
      obtain ⟨n, hn, r, hr, rs, hrs, hp'⟩ := h
      have hn' := flatU_ok hn
      subst hn'
      simp [pure, Except.pure] at hp'
      subst hp'
      have hk := flatten_len p hp t
      have hwf' : WfFlat cs (Spec.flatten p t ++ Spec.flattenList p ts) := by simpa [Spec.flattenList] using hwf
      have ⟨hw1, hw2⟩ := WfFlat.split hwf'
      rw [hk] at hr hrs
      have e1 := lift_soundA p hp c t lvl _ env m _ r hpe hl hw1 (hst.take _) hr ls
      have e2 := liftFields_soundA p hp c ts lvl _ env m _ rs hpe hl hw2 (hst.drop _) hrs ls
      simp only [evalList_cons, e1, e2, Spec.liftFields]
      cases Spec.liftFlat p m t (List.take (Spec.flatten p t).length cs) <;> simp
      cases Spec.liftFields p m ts (List.drop (Spec.flatten p t).length cs) <;> simp
theorem liftArms_soundA (p : Nat) (hp : p = 4 ∨ p = 8) (c : Cfg) : ∀ (cs : List (Option Ty)),
    ∀ (i : Nat) (o : Option Ty), cs[i]? = some o → ArmLiftSoundA p c o
  | [], i, o, h => by simp at h
  | d :: ds, 0, o, h => by
      simp at h; subst h
      exact liftArm_soundA p hp c d
  | d :: ds, i + 1, o, h =>
      liftArms_soundA p hp c ds i o (by simpa using h)
theorem liftArm_soundA (p : Nat) (hp : p = 4 ∨ p = 8) (c : Cfg) : ∀ (o : Option Ty), ArmLiftSoundA p c o
  | none => armLiftA_none p c
  | some t => armLiftA_some p hp c t (lift_soundA p hp c t)
end

end Witverif.Abi
