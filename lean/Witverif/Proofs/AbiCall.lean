import Witverif.Proofs.AbiLift3
import Witverif.Abi.Validate
/-! C02: value correctness of the call glue for functions whose parameters and result are passed flat
(memory-free types), by composing `lower_sound` and `lift_sound`. -/
namespace Witverif.Abi
open Spec

/-- all parameters lowered flat, one after the other, are the spec's lowering of the argument tuple -/
theorem lowerParams_sound (p : Nat) (hp4 : p = 4 ∨ p = 8) (c : Cfg) (env : Env) (m : Mem) (st : St)
    (hp : env.p = p) (hfr : env.frames.length = 1) :
    ∀ (ts : List Ty) (vs : List Val) (nth : Nat) (ss : List Stmt) (es : List Expr),
      memFreeAll ts = true → hasTys ts vs = true →
      (∀ (j : Nat) (h : j < vs.length), env.args[nth + j]? = some (.v vs[j])) →
      lowerParams c ts nth = .ok (ss, es) →
      ss = [] ∧ evalList env m es = some ((specLowerAll p ts vs st).1.map MV.c) ∧ (specLowerAll p ts vs st).2 = st := by
  intro ts
  induction ts with
  | nil =>
    intro vs nth ss es _ ht _ h
    cases vs <;> simp [hasTys] at ht
    simp [lowerParams, pure, Except.pure] at h
    obtain ⟨rfl, rfl⟩ := h
    simp [specLowerAll]
  | cons t ts ih =>
    intro vs nth ss es hm ht hargs h
    cases vs with
    | nil => simp [hasTys] at ht
    | cons v vs =>
      simp [hasTys] at ht
      simp [memFreeAll] at hm
      simp only [lowerParams, bind_ok] at h
      obtain ⟨⟨s1, r1⟩, h1, ⟨s2, r2⟩, h2, hpure⟩ := h
      simp [pure, Except.pure] at hpure
      obtain ⟨rfl, rfl⟩ := hpure
      have hx : eval env m (.arg nth) = some (.v v) := by
        have := hargs 0 (by simp)
        simpa [eval] using this
      have hs1 := (lower_shape c t 0 _ s1 r1 h1).1 hm.1
      have e1 := lower_sound p hp4 c v t hm.1 ht.1 0 (.arg nth) env m st s1 r1 hp hfr hx h1
      have ⟨hs2, e2, hst2⟩ := ih vs (nth + 1) s2 r2 hm.2 ht.2
        (by intro j hj; have := hargs (j + 1) (by simpa using hj); simpa [Nat.add_assoc, Nat.add_comm 1 j] using this) h2
      have hst1 := lowerFlat_state p v t st hm.1 ht.1
      refine ⟨by simp [hs1, hs2], ?_, ?_⟩
      · simp only [specLowerAll]
        rw [hst1]
        simpa using evalList_append env m r1 r2 _ _ e1 e2
      · simp only [specLowerAll]; rw [hst1]; exact hst2

end Witverif.Abi

namespace Witverif.Abi
open Spec

theorem evalList_resN (env : Env) (m : Mem) (o : Op) (args : List Expr) (rs : List MV)
    (rest : List (String × List MV)) (hl : env.lets = (keyOf o args, rs) :: rest) :
    evalList env m (resN o args rs.length) = some rs := by
  unfold resN
  suffices ∀ (n off : Nat), off + n = rs.length →
      evalList env m ((List.range' off n).map fun k => Expr.res k o args) = some (rs.drop off) by
    have := this rs.length 0 (by simp)
    simpa [List.range_eq_range'] using this
  intro n
  induction n with
  | zero => intro off h0; simp at h0; subst h0; simp
  | succ n ih =>
    intro off hoff
    have hlt : off < rs.length := by omega
    simp only [List.range'_succ, List.map_cons, evalList_cons]
    rw [ih (off + 1) (by omega)]
    simp [eval, hl, hlt]

theorem lowerParams_length (c : Cfg) : ∀ (ts : List Ty) (nth : Nat) (ss : List Stmt) (es : List Expr),
    lowerParams c ts nth = .ok (ss, es) → es.length = (flattenList ts).length := by
  intro ts
  induction ts with
  | nil => intro nth ss es h; simp [lowerParams, pure, Except.pure] at h; simp [h.2.symm, flattenList]
  | cons t ts ih =>
    intro nth ss es h
    simp only [lowerParams, bind_ok] at h
    obtain ⟨⟨s1, r1⟩, h1, ⟨s2, r2⟩, h2, hpure⟩ := h
    simp [pure, Except.pure] at hpure
    obtain ⟨rfl, rfl⟩ := hpure
    simp [flattenList, (lower_shape c t 0 _ s1 r1 h1).2, ih _ s2 r2 h2]

/-- shape of the import glue when everything is passed flat -/
theorem call_import_flat_shape (canon : Ty → Bool) (f : Func)
    (hflat : (flattenList f.params).length ≤ 16) (hrflat : (flattenOpt f.result).length ≤ 1)
    (ss : List Stmt) (h : call canon .guestImport true false f = .ok ss) :
    ∃ (s0 : List Stmt) (stack0 : List Expr),
      lowerParams ⟨canon, false⟩ f.params 0 = .ok (s0, stack0) ∧
      (match f.result with
       | none => ss = s0 ++ [Stmt.eff (Op.callWasm (flattenList f.params) (flattenOpt f.result)) stack0 []] ++
            [Stmt.eff (.ret 0) (resN (Op.callWasm (flattenList f.params) (flattenOpt f.result)) stack0
              (flattenOpt f.result).length) []]
       | some t => ∃ r, lift ⟨canon, false⟩ 0 t (resN (Op.callWasm (flattenList f.params) (flattenOpt f.result)) stack0
              (flattenOpt f.result).length) = .ok r ∧
          ss = s0 ++ [Stmt.eff (Op.callWasm (flattenList f.params) (flattenOpt f.result)) stack0 []] ++
            [Stmt.eff (.ret 1) [r] []]) := by
  have hsig : wasmSignature .guestImport f =
      ⟨flattenList f.params, flattenOpt f.result, false, false⟩ := by
    have h1 : ¬ (flattenList f.params).length > 16 := by omega
    have h2 : ¬ (flattenOpt f.result).length > 1 := by omega
    simp [wasmSignature, maxFlatParams, maxFlatResults, h1, h2, Variant.isExport]
  cases hlp : lowerParams ⟨canon, false⟩ f.params 0 with
  | error e => simp [call, hsig, hlp, Variant.isExport, bind, Except.bind] at h
  | ok r =>
    obtain ⟨s0, stack0⟩ := r
    have hlen := lowerParams_length _ _ _ _ _ hlp
    refine ⟨s0, stack0, rfl, ?_⟩
    cases hres : f.result with
    | none =>
      simp [call, hsig, hlp, hres, hlen, Variant.isExport, bind, Except.bind, pure, Except.pure, flattenOpt, resN] at h
      simp [flattenOpt, resN, h]
    | some t =>
      have hft : (flatten t).length ≤ 1 := by simpa [hres, flattenOpt] using hrflat
      simp [call, hsig, hlp, hres, hlen, Variant.isExport, bind, Except.bind, pure, Except.pure, flattenOpt, resN] at h
      cases hl : lift { canon := canon, realloc := false } 0 t
          (List.map (fun k => Expr.res k (Op.callWasm (flattenList f.params) (flatten t)) stack0)
            (List.range (flatten t).length)) with
      | error e => simp [hl] at h
      | ok r =>
        simp [hl] at h
        exact ⟨r, by simpa [flattenOpt, resN] using hl, by simp [flattenOpt, ← h]⟩

end Witverif.Abi

namespace Witverif.Abi
open Spec

theorem keyOf_beq (o : Op) (args : List Expr) : (keyOf o args == keyOf o args) = true := by simp

/-- **Import glue, everything flat.**  For an imported function whose parameters and result are
memory-free and passed flat, the glue performs exactly one core call whose operands are the canonical
flat lowering of the arguments, and returns exactly the value the canonical ABI assigns to what the
callee returned (trapping exactly when the spec traps). -/
theorem call_import_flat_correct (p : Nat) (hp4 : p = 4 ∨ p = 8) (canon : Ty → Bool) (f : Func)
    (vals : List Val) (callee : List CVal)
    (hm : memFreeAll f.params = true) (ht : hasTys f.params vals = true)
    (hflat : (flattenList f.params).length ≤ 16)
    (hmr : memFreeOpt f.result = true) (hrflat : (flattenOpt f.result).length ≤ 1)
    (hwfc : WfFlat callee (Spec.flattenOpt p f.result))
    (ss : List Stmt) (h : call canon .guestImport true false f = .ok ss) :
    let env : Env := { p, args := vals.map MV.v, callResults := callee.map MV.c }
    let args := (specLowerAll p f.params vals {}).1.map MV.c
    (execStmts env {} ss).map (fun r => r.2.calls) =
      match f.result with
      | none => some [("Return", []), ("CallWasm", args)]
      | some t => (Spec.liftFlat p [] t callee).map fun rv => [("Return", [MV.v rv]), ("CallWasm", args)] := by
  obtain ⟨im, ps, res⟩ := f
  simp only at hm ht hflat hmr hrflat hwfc
  intro env args
  have ⟨s0, stack0, hlp, hshape⟩ := call_import_flat_shape canon ⟨im, ps, res⟩ hflat hrflat ss h
  simp only at hlp hshape
  have ⟨hs0, hargs, _⟩ := lowerParams_sound p hp4 ⟨canon, false⟩ env [] {} rfl rfl ps vals 0 s0 stack0 hm ht
    (by intro j hj; simp [env, hj]) hlp
  subst hs0
  have hcall : ∀ rs, exec env {} (Stmt.eff (Op.callWasm (flattenList ps) rs) stack0 []) =
      some (env.bind (Op.callWasm (flattenList ps) rs) stack0 (callee.map MV.c), { calls := [("CallWasm", args)] }) := by
    intro rs
    simp [exec, hargs, execOp, env, args]
  cases res with
  | none =>
    simp only at hshape
    have hce : callee = [] := by have := hwfc.1; simpa [Spec.flattenOpt] using this
    subst hshape
    simp only [List.nil_append, List.singleton_append, List.cons_append, execStmts, hcall, Option.bind_some]
    simp [exec, flattenOpt, resN, execOp]
  | some t =>
    simp only at hshape
    obtain ⟨r, hlift, hss⟩ := hshape
    subst hss
    simp only [List.nil_append, List.singleton_append, List.cons_append, execStmts, hcall, Option.bind_some]
    have hlenc : callee.length = (flattenOpt (some t)).length := by
      have := hwfc.length
      rw [this]; simp [Spec.flattenOpt, flattenOpt, ← flatten_len p hp4 t]
    have hden : Denotes (env.bind (Op.callWasm (flattenList ps) (flattenOpt (some t))) stack0 (callee.map MV.c)) []
        (resN (Op.callWasm (flattenList ps) (flattenOpt (some t))) stack0 (flattenOpt (some t)).length) callee := by
      intro fr
      have := evalList_resN ((env.bind (Op.callWasm (flattenList ps) (flattenOpt (some t))) stack0 (callee.map MV.c)).withFrames fr)
        [] (Op.callWasm (flattenList ps) (flattenOpt (some t))) stack0
        (callee.map MV.c) env.lets (by simp [Env.bind, Env.withFrames])
      simpa [hlenc] using this
    have hl := lift_sound p hp4 ⟨canon, false⟩ t (by simpa [memFreeOpt] using hmr) 0 _ _ [] callee r rfl
      (by simpa [Spec.flattenOpt] using hwfc) hden hlift
      (env.bind (Op.callWasm (flattenList ps) (flattenOpt (some t))) stack0 (callee.map MV.c)).frames
    have hl' : eval (env.bind (Op.callWasm (flattenList ps) (flattenOpt (some t))) stack0 (callee.map MV.c)) [] r
        = (Spec.liftFlat p [] t callee).map MV.v := by
      simpa [Env.withFrames] using hl
    cases hlf : Spec.liftFlat p [] t callee with
    | none => simp [exec, hl', hlf]
    | some rv => simp [exec, hl', hlf, execOp]

end Witverif.Abi

namespace Witverif.Abi
open Spec

theorem denotes_args (env : Env) (m : Mem) (cs : List CVal) (off n : Nat)
    (h : ∀ (i : Nat), i < n → env.args[off + i]? = (cs[i]?).map MV.c) (hn : n = cs.length) :
    Denotes env m ((List.range n).map fun i => Expr.arg (off + i)) cs := by
  intro fr
  subst hn
  have hgen : ∀ (k st : Nat), st + k = cs.length →
      evalList (env.withFrames fr) m ((List.range' st k).map fun i => Expr.arg (off + i)) = some ((cs.drop st).map MV.c) := by
    intro k
    induction k with
    | zero => intro st hst; simp at hst; subst hst; simp
    | succ k ih =>
      intro st hst
      have hlt : st < cs.length := by omega
      simp only [List.range'_succ, List.map_cons, evalList_cons]
      rw [ih (st + 1) (by omega)]
      simp [eval, Env.withFrames, h st hlt, hlt]
      rw [← List.map_drop, ← List.map_drop, List.drop_eq_getElem_cons hlt]
      rfl
  simpa [List.range_eq_range'] using hgen cs.length 0 (by simp)

/-- all parameters lifted from consecutive flat arguments are the spec's lifting of the argument tuple -/
theorem liftParams_sound (p : Nat) (hp4 : p = 4 ∨ p = 8) (c : Cfg) (env : Env) (m : Mem) (hp : env.p = p) :
    ∀ (ts : List Ty) (cs : List CVal) (offset : Nat) (es : List Expr),
      memFreeAll ts = true → (flattenList ts).length ≤ 16 → WfFlat cs (Spec.flattenList p ts) →
      (∀ (i : Nat), i < cs.length → env.args[offset + i]? = (cs[i]?).map MV.c) →
      liftParams c 16 ts offset = .ok es →
      evalList env m es = (specLiftAll p m ts cs).map (·.map MV.v) := by
  intro ts
  induction ts with
  | nil =>
    intro cs offset es _ _ _ _ h
    simp [liftParams, pure, Except.pure] at h
    subst h
    simp [specLiftAll]
  | cons t ts ih =>
    intro cs offset es hm hfl hwf hargs h
    simp [memFreeAll] at hm
    simp [flattenList] at hfl
    have hft : (flatten t).length ≤ 16 := by omega
    simp only [liftParams, flatTypes, hft, if_true, bind_ok] at h
    obtain ⟨n, hn, r, hr, rs, hrs, hp'⟩ := h
    simp [pure, Except.pure] at hn hp'
    subst hn; subst hp'
    have hk := flatten_len p hp4 t
    have hwf' : WfFlat cs (Spec.flatten p t ++ Spec.flattenList p ts) := by simpa [Spec.flattenList] using hwf
    have ⟨hw1, hw2⟩ := WfFlat.split hwf'
    have hcl := hwf'.length
    simp at hcl
    have hden : Denotes env m ((List.range (flatten t).length).map fun i => Expr.arg (offset + i))
        (cs.take (Spec.flatten p t).length) := by
      apply denotes_args env m _ offset
      · intro i hi
        have := hargs i (by omega)
        rw [this]
        simp [List.getElem?_take, hk ▸ hi]
      · simp [hk]; omega
    have e1 := lift_sound p hp4 c t hm.1 0 _ env m _ r hp hw1 hden hr env.frames
    have e1' : eval env m r = (Spec.liftFlat p m t (cs.take (Spec.flatten p t).length)).map MV.v := by
      simpa [Env.withFrames] using e1
    have e2 := ih (cs.drop (Spec.flatten p t).length) (offset + (flatten t).length) rs hm.2 (by omega) hw2
      (by
        intro i hi
        have := hargs ((Spec.flatten p t).length + i) (by simp at hi; omega)
        rw [hk, Nat.add_assoc, this]
        simp [List.getElem?_drop])
      hrs
    simp only [evalList_cons, e1', e2, specLiftAll]
    cases Spec.liftFlat p m t (List.take (Spec.flatten p t).length cs) <;> simp
    cases specLiftAll p m ts (List.drop (Spec.flatten p t).length cs) <;> simp

end Witverif.Abi

namespace Witverif.Abi
open Spec

/-- shape of the export glue when everything is passed flat -/
theorem call_export_flat_shape (canon : Ty → Bool) (f : Func) (hnm : f.isMethod = false)
    (hflat : (flattenList f.params).length ≤ 16) (hrflat : (flattenOpt f.result).length ≤ 1)
    (ss : List Stmt) (h : call canon .guestExport false false f = .ok ss) :
    ∃ (args : List Expr), liftParams ⟨canon, true⟩ 16 f.params 0 = .ok args ∧
      (match f.result with
       | none => ss = [Stmt.eff (.callInterface f.params.length 0 false) args [], Stmt.eff (.ret 0) [] []]
       | some t => ∃ s2 rs, lower ⟨canon, true⟩ 0 t (.res 0 (.callInterface f.params.length 1 false) args) = .ok (s2, rs) ∧
           ss = [Stmt.eff (.callInterface f.params.length 1 false) args []] ++ s2 ++ [Stmt.eff (.ret (flatten t).length) rs []]) := by
  have hsig : wasmSignature .guestExport f =
      ⟨flattenList f.params, flattenOpt f.result, false, false⟩ := by
    have h1 : ¬ (flattenList f.params).length > 16 := by omega
    have h2 : ¬ (flattenOpt f.result).length > 1 := by omega
    simp [wasmSignature, maxFlatParams, maxFlatResults, h1, h2, hnm]
  cases hlp : liftParams ⟨canon, true⟩ 16 f.params 0 with
  | error e => simp [call, hsig, hlp, Variant.isExport, maxFlatParams, bind, Except.bind] at h
  | ok args =>
    refine ⟨args, rfl, ?_⟩
    cases hres : f.result with
    | none =>
      simp [call, hsig, hlp, hres, Variant.isExport, maxFlatParams, bind, Except.bind, pure, Except.pure, flattenOpt, resN] at h
      simp [← h]
    | some t =>
      simp [call, hsig, hlp, hres, Variant.isExport, maxFlatParams, bind, Except.bind, pure, Except.pure, flattenOpt, resN, hd] at h
      cases hl : lower { canon := canon, realloc := true } 0 t
          (Expr.res 0 (Op.callInterface f.params.length 1 false) args) with
      | error e => simp [hl] at h
      | ok r =>
        obtain ⟨s2, rs⟩ := r
        have hlen := (lower_shape _ t 0 _ s2 rs hl).2
        simp [hl, hlen] at h
        exact ⟨s2, rs, hl, by simp [← h]⟩

end Witverif.Abi

namespace Witverif.Abi
open Spec

/-- **Export glue, everything flat.**  For an exported (non-method) function whose parameters and
result are memory-free and passed flat: whatever well-formed core values the host passes, the user
function is called exactly once with exactly the values the canonical ABI assigns to them (the glue
traps exactly when the spec traps), and the glue returns the canonical flat lowering of the value the
user function produced; nothing is freed and nothing else is called. -/
theorem call_export_flat_correct (p : Nat) (hp4 : p = 4 ∨ p = 8) (canon : Ty → Bool) (f : Func)
    (hnm : f.isMethod = false)
    (incoming : List CVal) (rv : Option Val)
    (hm : memFreeAll f.params = true) (hflat : (flattenList f.params).length ≤ 16)
    (hwf : WfFlat incoming (Spec.flattenList p f.params))
    (hmr : memFreeOpt f.result = true) (hrflat : (flattenOpt f.result).length ≤ 1)
    (hrv : hasTyOpt f.result rv = true)
    (ss : List Stmt) (h : call canon .guestExport false false f = .ok ss) :
    let env : Env := { p, args := incoming.map MV.c, ifaceResult := rv.toList.map MV.v }
    (execStmts env {} ss).map (fun r => (r.2.calls, r.2.freed)) =
      (specLiftAll p [] f.params incoming).map fun vals =>
        ([("Return", (Spec.lowerOpt p f.result rv {}).1.map MV.c), ("CallInterface", vals.map MV.v)], []) := by
  obtain ⟨im, ps, res⟩ := f
  simp only at hnm hm hflat hwf hmr hrflat hrv
  intro env
  have ⟨args, hlp, hshape⟩ := call_export_flat_shape canon ⟨im, ps, res⟩ hnm hflat hrflat ss h
  simp only at hlp hshape
  have hargs := liftParams_sound p hp4 ⟨canon, true⟩ env [] rfl ps incoming 0 args hm hflat hwf
    (by intro i hi; simp [env, hi]) hlp
  cases hla : specLiftAll p [] ps incoming with
  | none =>
    -- the spec traps on the incoming values: so does the glue, before calling anything
    rw [hla] at hargs
    cases res with
    | none => simp only at hshape; subst hshape; simp [execStmts, exec, hargs]
    | some t =>
      simp only at hshape
      obtain ⟨s2, rs, _, hss⟩ := hshape
      subst hss
      simp [execStmts, exec, hargs]
  | some vals =>
    rw [hla] at hargs
    simp at hargs
    cases res with
    | none =>
      simp only at hshape
      subst hshape
      cases rv with
      | some v => simp [hasTyOpt] at hrv
      | none =>
        simp [env] at hargs
        simp [execStmts, exec, hargs, execOp, Spec.lowerOpt, env]
    | some t =>
      simp only at hshape
      obtain ⟨s2, rs, hlow, hss⟩ := hshape
      subst hss
      cases rv with
      | none => simp [hasTyOpt] at hrv
      | some v =>
        simp [hasTyOpt] at hrv
        simp [memFreeOpt] at hmr
        have hs2 := (lower_shape _ t 0 _ s2 rs hlow).1 hmr
        subst hs2
        have hci : exec env {} (Stmt.eff (.callInterface ps.length 1 false) args []) =
            some (env.bind (.callInterface ps.length 1 false) args [MV.v v],
              { calls := [("CallInterface", vals.map MV.v)] }) := by
          simp [env] at hargs
          simp [exec, hargs, execOp, env]
        have hx : eval (env.bind (.callInterface ps.length 1 false) args [MV.v v]) []
            (.res 0 (.callInterface ps.length 1 false) args) = some (.v v) := by
          simp [eval, Env.bind]
        have hrs := lower_sound p hp4 ⟨canon, true⟩ v t hmr hrv 0 _
          (env.bind (.callInterface ps.length 1 false) args [MV.v v]) [] {} [] rs rfl rfl hx hlow
        simp only [List.singleton_append, List.append_nil, List.cons_append, List.nil_append, execStmts, hci,
          Option.bind_some]
        simp [exec, hrs, execOp, Spec.lowerOpt]

end Witverif.Abi
