import Witverif.Text.Realloc
/-! Helper lemmas for C24 (`Props/C24.lean`): the bump allocator is lawful, and the history
invariant that ties the model state to the host's bookkeeping. -/
namespace Witverif.Text.Realloc
open Witverif.Text.ReallocSpec

theorem validAlign_pos {a : Nat} (h : ValidAlign a) : a ≠ 0 := by
  obtain ⟨k, rfl⟩ := h
  exact Nat.ne_of_gt (Nat.pow_pos (by decide))

theorem alignUp_dvd (n a : Nat) : a ∣ alignUp n a := by
  unfold alignUp; exact Nat.dvd_mul_left _ _

theorem alignUp_ge (n a : Nat) (ha : a ≠ 0) : n ≤ alignUp n a := by
  unfold alignUp
  have hpos : 0 < a := Nat.pos_of_ne_zero ha
  have h1 : (n + a - 1) / a * a + (n + a - 1) % a = n + a - 1 := by
    rw [Nat.mul_comm]; exact Nat.div_add_mod _ _
  have h2 : (n + a - 1) % a < a := Nat.mod_lt _ hpos
  omega

theorem top_pos (l : List Block) : 1 ≤ top l := by
  induction l with
  | nil => simp [top]
  | cons b l ih => simp only [top]; omega

theorem top_ge {l : List Block} {b : Block} (h : b ∈ l) : b.ptr + b.size ≤ top l := by
  induction l with
  | nil => cases h
  | cons c l ih =>
    simp only [top]
    rcases List.mem_cons.mp h with rfl | h'
    · omega
    · have := ih h'; omega

theorem bump_fresh (l : List Block) (a : Nat) (ha : a ≠ 0) :
    ∀ b ∈ l, b.ptr ≠ alignUp (top l + 1) a := by
  intro b hb
  have h1 := top_ge hb
  have h2 := alignUp_ge (top l + 1) a ha
  omega

theorem bump_lawful : Lawful bump where
  alloc_ok := by
    intro h s a _ ha hne
    have ha' := validAlign_pos ha
    refine ⟨alignUp_dvd _ _, rfl, ?_⟩
    exact bump_fresh h.live a ha'
  realloc_ok := by
    intro h p s a n hmem _ ha _
    have ha' := validAlign_pos ha
    refine ⟨alignUp_dvd _ _, rfl, ?_, ?_⟩
    · intro b hb
      exact bump_fresh h.live a ha' b (List.mem_of_mem_erase hb)
    · intro i hi
      simp only [bump]
      have : alignUp (top h.live + 1) a ≤ alignUp (top h.live + 1) a + i := Nat.le_add_right _ _
      simp [hi]
  dealloc_ok := by
    intro h p s a _
    rfl

theorem bump_never_fails : NeverFails bump := by
  constructor
  · intro h s a _ ha
    have ha' := validAlign_pos ha
    have := alignUp_ge (top h.live + 1) a ha'
    show alignUp (top h.live + 1) a ≠ 0
    omega
  · intro h p s a n _ _ ha
    have ha' := validAlign_pos ha
    have := alignUp_ge (top h.live + 1) a ha'
    show alignUp (top h.live + 1) a ≠ 0
    omega

/-- History invariant: the host's bookkeeping `m` mirrors the model state `s`, everything the host
or a live `Cleanup` owns is a live block, and distinct owners own blocks at distinct addresses. -/
structure Inv (s : St) (m : Mon) : Prop where
  slots_eq : ∀ i, m.slots i = ((s.slots i).size, (s.slots i).align)
  ncls_eq : m.ncls = s.ncls
  cls_eq : ∀ i, i < s.ncls → m.cls i = ((s.cl i).size, (s.cl i).align, decide (s.clSt i = .alive))
  slot_live : ∀ i, (s.slots i).size ≠ 0 → s.slots i ∈ s.heap.live
  slot_align : ∀ i, ValidAlign (s.slots i).align
  cl_live : ∀ i, i < s.ncls → s.clSt i = .alive → (s.cl i).size ≠ 0 →
    (⟨(s.cl i).ptr, (s.cl i).size, (s.cl i).align⟩ : Block) ∈ s.heap.live
  slot_disj : ∀ i j, i ≠ j → (s.slots i).size ≠ 0 → (s.slots j).size ≠ 0 → (s.slots i).ptr ≠ (s.slots j).ptr
  slot_cl_disj : ∀ i j, (s.slots i).size ≠ 0 → j < s.ncls → s.clSt j = .alive → (s.cl j).size ≠ 0 →
    (s.slots i).ptr ≠ (s.cl j).ptr
  cl_disj : ∀ i j, i ≠ j → i < s.ncls → j < s.ncls → s.clSt i = .alive → s.clSt j = .alive →
    (s.cl i).size ≠ 0 → (s.cl j).size ≠ 0 → (s.cl i).ptr ≠ (s.cl j).ptr

theorem inv_init (h : Heap) : Inv (St.init h) Mon.init where
  slots_eq := by intro i; rfl
  ncls_eq := rfl
  cls_eq := by intro i hi; simp [St.init] at hi
  slot_live := by intro i hi; simp [St.init] at hi
  slot_align := by intro i; exact ⟨0, rfl⟩
  cl_live := by intro i hi; simp [St.init] at hi
  slot_disj := by intro i j _ hi; simp [St.init] at hi
  slot_cl_disj := by intro i j hi; simp [St.init] at hi
  cl_disj := by intro i j _ hi; simp [St.init] at hi

theorem contains_block {l : List Block} {b : Block} : l.contains b = true ↔ b ∈ l := by
  simp



/-- Re-establish the invariant after slot `slot` was replaced by block `nb` and the heap became `h'`. -/
theorem inv_update (s : St) (m : Mon) (hI : Inv s m) (slot : Nat) (nb : Block) (h' : Heap)
    (h1 : ValidAlign nb.align)
    (h2 : nb.size ≠ 0 → nb ∈ h'.live)
    (h3 : ∀ i, i ≠ slot → (s.slots i).size ≠ 0 → s.slots i ∈ h'.live)
    (h4 : ∀ i, i < s.ncls → s.clSt i = .alive → (s.cl i).size ≠ 0 →
      (⟨(s.cl i).ptr, (s.cl i).size, (s.cl i).align⟩ : Block) ∈ h'.live)
    (h5 : nb.size ≠ 0 → ∀ i, i ≠ slot → (s.slots i).size ≠ 0 → (s.slots i).ptr ≠ nb.ptr)
    (h6 : nb.size ≠ 0 → ∀ j, j < s.ncls → s.clSt j = .alive → (s.cl j).size ≠ 0 → nb.ptr ≠ (s.cl j).ptr) :
    Inv { s with heap := h', slots := setSlot s.slots slot nb }
        { m with slots := fun j => if j = slot then (nb.size, nb.align) else m.slots j } := by
  constructor
  · intro i; simp only [setSlot]; by_cases h : i = slot <;> simp [h, hI.slots_eq]
  · exact hI.ncls_eq
  · exact hI.cls_eq
  · intro i hi; simp only [setSlot] at hi ⊢; by_cases h : i = slot
    · simp only [h, if_true] at hi ⊢; exact h2 hi
    · simp only [h, if_false] at hi ⊢; exact h3 i h hi
  · intro i; simp only [setSlot]; by_cases h : i = slot
    · simp only [h, if_true]; exact h1
    · simp only [h, if_false]; exact hI.slot_align i
  · exact h4
  · intro i j hij hi hj; simp only [setSlot] at hi hj ⊢
    by_cases e1 : i = slot
    · by_cases e2 : j = slot
      · exact absurd (e1.trans e2.symm) hij
      · simp only [e1, e2, if_true, if_false] at hi hj ⊢
        exact fun e => h5 hi j e2 hj e.symm
    · by_cases e2 : j = slot
      · simp only [e1, e2, if_true, if_false] at hi hj ⊢
        exact h5 hj i e1 hi
      · simp only [e1, e2, if_false] at hi hj ⊢; exact hI.slot_disj i j hij hi hj
  · intro i j hi; simp only [setSlot] at hi ⊢
    by_cases e1 : i = slot
    · simp only [e1, if_true] at hi ⊢; exact h6 hi j
    · simp only [e1, if_false] at hi ⊢; exact hI.slot_cl_disj i j hi
  · exact hI.cl_disj

theorem step_r_zero_zero (A : Allocator) (s : St) (m : Mon) (hI : Inv s m) (slot alog : Nat)
    (hb : (s.slots slot).size = 0) :
    let o := step A s (.r slot alog 0)
    observe s (.r slot alog 0) o ≠ .panic ∧ stepOk m (.r slot alog 0) (observe s (.r slot alog 0) o) = true ∧
    Inv o.st (m.next (.r slot alog 0)) := by
  have hm := hI.slots_eq slot
  have hpow : (2:Nat) ^ alog ≠ 0 := Nat.ne_of_gt (Nat.pow_pos (by decide))
  simp only [step, cabiRealloc, cabiReallocCall, hb, if_true, optCall]
  refine ⟨?_, ?_, ?_⟩
  · simp [observe]
  · simp [observe, stepOk, hm, hb, errCount]
  · constructor
    · intro i; simp only [Mon.next, setSlot]; by_cases h : i = slot <;> simp [h, hI.slots_eq]
    · exact hI.ncls_eq
    · exact hI.cls_eq
    · intro i hi; simp only [setSlot] at hi ⊢; by_cases h : i = slot
      · simp [h] at hi
      · simp only [h, if_false] at hi ⊢; exact hI.slot_live i hi
    · intro i; simp only [setSlot]; by_cases h : i = slot
      · simp only [h, if_true]; exact ⟨alog, rfl⟩
      · simp only [h, if_false]; exact hI.slot_align i
    · exact hI.cl_live
    · intro i j hij hi hj; simp only [setSlot] at hi hj ⊢
      by_cases h1 : i = slot
      · simp [h1] at hi
      · by_cases h2 : j = slot
        · simp [h2] at hj
        · simp only [h1, h2, if_false] at hi hj ⊢; exact hI.slot_disj i j hij hi hj
    · intro i j hi; simp only [setSlot] at hi ⊢
      by_cases h1 : i = slot
      · simp [h1] at hi
      · simp only [h1, if_false] at hi ⊢; exact hI.slot_cl_disj i j hi
    · exact hI.cl_disj


theorem step_r_alloc (A : Allocator) (hA : Lawful A) (hNF : NeverFails A) (s : St) (m : Mon) (hI : Inv s m)
    (slot alog new : Nat) (hb : (s.slots slot).size = 0) (hn : new ≠ 0) :
    let o := step A s (.r slot alog new)
    observe s (.r slot alog new) o ≠ .panic ∧ stepOk m (.r slot alog new) (observe s (.r slot alog new) o) = true ∧
    Inv o.st (m.next (.r slot alog new)) := by
  have hm := hI.slots_eq slot
  have hva : ValidAlign (2 ^ alog) := ⟨alog, rfl⟩
  have hz := hNF.1 s.heap new (2 ^ alog) hn hva
  obtain ⟨hdvd, hlive, hfresh⟩ := hA.alloc_ok s.heap new (2 ^ alog) hn hva hz
  simp only [step, cabiRealloc, cabiReallocCall, hb, hn, hz, if_true, if_false, optCall]
  refine ⟨?_, ?_, ?_⟩
  · simp [observe]
  · have hmod : (A.exec s.heap (ACall.alloc new (2 ^ alog))).1 % 2 ^ alog = 0 := Nat.mod_eq_zero_of_dvd hdvd
    simp [observe, stepOk, hm, hb, hn, hz, hlive, errCount, callOkB, callObs, hmod]
  · apply inv_update s m hI slot _ _ hva
    · intro _; rw [hlive]; exact List.mem_cons_self
    · intro i _ hi; rw [hlive]; exact List.mem_cons_of_mem _ (hI.slot_live i hi)
    · intro i hi ha hs; rw [hlive]; exact List.mem_cons_of_mem _ (hI.cl_live i hi ha hs)
    · intro _ i _ hi; exact hfresh _ (hI.slot_live i hi)
    · intro _ j hj ha hs; exact fun e => hfresh _ (hI.cl_live j hj ha hs) e.symm

theorem step_r_realloc (A : Allocator) (hA : Lawful A) (hNF : NeverFails A) (s : St) (m : Mon) (hI : Inv s m)
    (slot alog new : Nat) (hb : (s.slots slot).size ≠ 0) (hn : new ≠ 0) (hal : (s.slots slot).align = 2 ^ alog) :
    let o := step A s (.r slot alog new)
    observe s (.r slot alog new) o ≠ .panic ∧ stepOk m (.r slot alog new) (observe s (.r slot alog new) o) = true ∧
    Inv o.st (m.next (.r slot alog new)) := by
  have hm := hI.slots_eq slot
  have hva : ValidAlign (2 ^ alog) := ⟨alog, rfl⟩
  have hmem : (⟨(s.slots slot).ptr, (s.slots slot).size, 2 ^ alog⟩ : Block) ∈ s.heap.live := by
    have := hI.slot_live slot hb; rw [← hal]; exact this
  have hz := hNF.2 s.heap _ _ _ new hmem hn hva
  obtain ⟨hdvd, hlive, hfresh, _⟩ := hA.realloc_ok s.heap _ _ _ new hmem hn hva hz
  have hbeq : (⟨(s.slots slot).ptr, (s.slots slot).size, 2 ^ alog⟩ : Block) = s.slots slot := by
    rw [← hal]
  simp only [step, cabiRealloc, cabiReallocCall, hb, hn, hz, if_false, optCall]
  refine ⟨?_, ?_, ?_⟩
  · simp [observe]
  · have hmod : (A.exec s.heap (ACall.realloc (s.slots slot).ptr (s.slots slot).size (2 ^ alog) new)).1 % 2 ^ alog = 0 :=
      Nat.mod_eq_zero_of_dvd hdvd
    simp [observe, stepOk, hm, hb, hn, hz, hlive, errCount, callOkB, callObs, hmod, hmem, hal]
  · have other : ∀ x : Block, x ∈ s.heap.live → x.ptr ≠ (s.slots slot).ptr →
        x ∈ (A.exec s.heap (ACall.realloc (s.slots slot).ptr (s.slots slot).size (2 ^ alog) new)).2.live := by
      intro x hx hne
      rw [hlive]
      apply List.mem_cons_of_mem
      rw [hbeq]
      exact (List.mem_erase_of_ne (fun e => hne (by rw [e]))).mpr hx
    apply inv_update s m hI slot _ _ hva
    · intro _; rw [hlive]; exact List.mem_cons_self
    · intro i hne hi
      exact other _ (hI.slot_live i hi) (hI.slot_disj i slot hne hi hb)
    · intro i hi ha hs
      exact other _ (hI.cl_live i hi ha hs) (fun e => hI.slot_cl_disj slot i hb hi ha hs e.symm)
    · intro _ i hne hi
      apply hfresh
      rw [hbeq]
      exact (List.mem_erase_of_ne (fun e => hI.slot_disj i slot hne hi hb (by rw [e]))).mpr (hI.slot_live i hi)
    · intro _ j hj ha hs e
      have hin : (⟨(s.cl j).ptr, (s.cl j).size, (s.cl j).align⟩ : Block) ∈
          s.heap.live.erase ⟨(s.slots slot).ptr, (s.slots slot).size, 2 ^ alog⟩ := by
        rw [hbeq]
        refine (List.mem_erase_of_ne (fun e' => hI.slot_cl_disj slot j hb hj ha hs ?_)).mpr (hI.cl_live j hj ha hs)
        rw [← e']
      exact hfresh _ hin e.symm


theorem step_d (A : Allocator) (hA : Lawful A) (s : St) (m : Mon) (hI : Inv s m) (slot : Nat) :
    let o := step A s (.d slot)
    observe s (.d slot) o ≠ .panic ∧ stepOk m (.d slot) (observe s (.d slot) o) = true ∧
    Inv o.st (m.next (.d slot)) := by
  have hm := hI.slots_eq slot
  have hva : ValidAlign 1 := ⟨0, rfl⟩
  by_cases hb : (s.slots slot).size = 0
  · simp only [step, cabiDealloc, cabiDeallocCall, hb, if_true, optCall]
    refine ⟨by simp [observe], by simp [observe, stepOk, hm, hb, errCount], ?_⟩
    apply inv_update s m hI slot ⟨0, 0, 1⟩ s.heap hva
    · intro h; exact absurd rfl h
    · intro i _ hi; exact hI.slot_live i hi
    · exact hI.cl_live
    · intro h; exact absurd rfl h
    · intro h; exact absurd rfl h
  · have hmem := hI.slot_live slot hb
    have hlive := hA.dealloc_ok s.heap _ _ _ hmem
    simp only [step, cabiDealloc, cabiDeallocCall, hb, if_false, optCall]
    refine ⟨by simp [observe], ?_, ?_⟩
    · simp [observe, stepOk, hm, hb, errCount, callOkB, callObs, hmem]
    · apply inv_update s m hI slot ⟨0, 0, 1⟩ _ hva
      · intro h; exact absurd rfl h
      · intro i hne hi
        rw [hlive]
        exact (List.mem_erase_of_ne (fun e => hI.slot_disj i slot hne hi hb (by rw [e]))).mpr (hI.slot_live i hi)
      · intro i hi ha hs
        rw [hlive]
        refine (List.mem_erase_of_ne (fun e => hI.slot_cl_disj slot i hb hi ha hs ?_)).mpr (hI.cl_live i hi ha hs)
        exact (congrArg Block.ptr e).symm
      · intro h; exact absurd rfl h
      · intro h; exact absurd rfl h

/-- Re-establish the invariant after a new cleanup `c` was created (heap became `h'`). -/
theorem inv_new_cl (s : St) (m : Mon) (hI : Inv s m) (c : Cleanup) (h' : Heap)
    (h2 : c.size ≠ 0 → (⟨c.ptr, c.size, c.align⟩ : Block) ∈ h'.live)
    (h3 : ∀ i, (s.slots i).size ≠ 0 → s.slots i ∈ h'.live)
    (h4 : ∀ i, i < s.ncls → s.clSt i = .alive → (s.cl i).size ≠ 0 →
      (⟨(s.cl i).ptr, (s.cl i).size, (s.cl i).align⟩ : Block) ∈ h'.live)
    (h5 : c.size ≠ 0 → ∀ i, (s.slots i).size ≠ 0 → (s.slots i).ptr ≠ c.ptr)
    (h6 : c.size ≠ 0 → ∀ j, j < s.ncls → s.clSt j = .alive → (s.cl j).size ≠ 0 → (s.cl j).ptr ≠ c.ptr) :
    Inv { s with heap := h', ncls := s.ncls + 1, cl := setCl s.cl s.ncls c, clSt := setSt s.clSt s.ncls .alive }
        { m with ncls := m.ncls + 1, cls := fun j => if j = m.ncls then (c.size, c.align, true) else m.cls j } := by
  have hn := hI.ncls_eq
  constructor
  · exact hI.slots_eq
  · simp [hn]
  · intro i hi
    simp only [setCl, setSt, hn]
    by_cases e : i = s.ncls
    · simp [e]
    · have : i < s.ncls := by simp only at hi; omega
      simp only [e, if_false]; exact hI.cls_eq i this
  · exact h3
  · exact hI.slot_align
  · intro i hi ha hs
    simp only [setCl, setSt] at ha hs ⊢
    by_cases e : i = s.ncls
    · simp only [e, if_true] at hs ⊢; exact h2 hs
    · have : i < s.ncls := by simp only at hi; omega
      simp only [e, if_false] at ha hs ⊢; exact h4 i this ha hs
  · exact hI.slot_disj
  · intro i j hi hj ha hs
    simp only [setCl, setSt] at ha hs ⊢
    by_cases e : j = s.ncls
    · simp only [e, if_true] at hs ⊢; exact h5 hs i hi
    · have : j < s.ncls := by simp only at hj; omega
      simp only [e, if_false] at ha hs ⊢; exact hI.slot_cl_disj i j hi this ha hs
  · intro i j hij hi hj hai haj hsi hsj
    simp only [setCl, setSt] at hai haj hsi hsj ⊢
    by_cases e1 : i = s.ncls
    · by_cases e2 : j = s.ncls
      · exact absurd (e1.trans e2.symm) hij
      · have : j < s.ncls := by simp only at hj; omega
        simp only [e1, e2, if_true, if_false] at haj hsi hsj ⊢
        exact fun e => h6 hsi j this haj hsj e.symm
    · have hi' : i < s.ncls := by simp only at hi; omega
      by_cases e2 : j = s.ncls
      · simp only [e1, e2, if_true, if_false] at hai hsi hsj ⊢
        exact h6 hsj i hi' hai hsi
      · have : j < s.ncls := by simp only at hj; omega
        simp only [e1, e2, if_false] at hai haj hsi hsj ⊢
        exact hI.cl_disj i j hij hi' this hai haj hsi hsj

theorem step_n (A : Allocator) (hA : Lawful A) (hNF : NeverFails A) (s : St) (m : Mon) (hI : Inv s m)
    (size alog : Nat) :
    let o := step A s (.n size alog)
    observe s (.n size alog) o ≠ .panic ∧ stepOk m (.n size alog) (observe s (.n size alog) o) = true ∧
    Inv o.st (m.next (.n size alog)) := by
  have hva : ValidAlign (2 ^ alog) := ⟨alog, rfl⟩
  by_cases hs : size = 0
  · simp only [step, cleanupNew, cleanupNewCall, hs, if_true, optCall]
    refine ⟨by simp [observe], by simp [observe, stepOk], ?_⟩
    exact inv_new_cl s m hI ⟨0, 0, 2 ^ alog⟩ s.heap (fun h => absurd rfl h) hI.slot_live hI.cl_live
      (fun h => absurd rfl h) (fun h => absurd rfl h)
  · have hz := hNF.1 s.heap size (2 ^ alog) hs hva
    obtain ⟨hdvd, hlive, hfresh⟩ := hA.alloc_ok s.heap size (2 ^ alog) hs hva hz
    simp only [step, cleanupNew, cleanupNewCall, hs, hz, if_false, optCall]
    refine ⟨by simp [observe], ?_, ?_⟩
    · have hmod : (A.exec s.heap (ACall.alloc size (2 ^ alog))).1 % 2 ^ alog = 0 := Nat.mod_eq_zero_of_dvd hdvd
      have hbz : ((A.exec s.heap (ACall.alloc size (2 ^ alog))).1 == 0) = false := by simp [hz]
      have hsz : (size == 0) = false := by simp [hs]
      simp [observe, stepOk, hs, errCount, callOkB, callObs, hmod, hbz, hsz]
    · apply inv_new_cl s m hI ⟨_, size, 2 ^ alog⟩ _
      · intro _; rw [hlive]; exact List.mem_cons_self
      · intro i hi; rw [hlive]; exact List.mem_cons_of_mem _ (hI.slot_live i hi)
      · intro i hi ha hsz; rw [hlive]; exact List.mem_cons_of_mem _ (hI.cl_live i hi ha hsz)
      · intro _ i hi; exact hfresh _ (hI.slot_live i hi)
      · intro _ j hj ha hsz; exact hfresh _ (hI.cl_live j hj ha hsz)


/-- Re-establish the invariant after cleanup `i` stopped being alive (dropped or forgotten). -/
theorem inv_retire (s : St) (m : Mon) (hI : Inv s m) (i : Nat) (hi : i < s.ncls) (v : ClSt) (hv : v ≠ .alive)
    (h' : Heap)
    (h3 : ∀ k, (s.slots k).size ≠ 0 → s.slots k ∈ h'.live)
    (h4 : ∀ j, j ≠ i → j < s.ncls → s.clSt j = .alive → (s.cl j).size ≠ 0 →
      (⟨(s.cl j).ptr, (s.cl j).size, (s.cl j).align⟩ : Block) ∈ h'.live) :
    Inv { s with heap := h', clSt := setSt s.clSt i v }
        { m with cls := fun j => if j = i then ((m.cls i).1, (m.cls i).2.1, false) else m.cls j } := by
  constructor
  · exact hI.slots_eq
  · exact hI.ncls_eq
  · intro j hj
    simp only [setSt]
    by_cases e : j = i
    · subst e; simp [hI.cls_eq j hj, hv]
    · simp only [e, if_false]; exact hI.cls_eq j hj
  · exact h3
  · exact hI.slot_align
  · intro j hj ha hs
    simp only [setSt] at ha
    by_cases e : j = i
    · simp only [e, if_true] at ha; exact absurd ha hv
    · simp only [e, if_false] at ha; exact h4 j e hj ha hs
  · exact hI.slot_disj
  · intro k j hk hj ha hs
    simp only [setSt] at ha
    by_cases e : j = i
    · simp only [e, if_true] at ha; exact absurd ha hv
    · simp only [e, if_false] at ha; exact hI.slot_cl_disj k j hk hj ha hs
  · intro j k hjk hj hk haj hak hsj hsk
    simp only [setSt] at haj hak
    by_cases e1 : j = i
    · simp only [e1, if_true] at haj; exact absurd haj hv
    · by_cases e2 : k = i
      · simp only [e2, if_true] at hak; exact absurd hak hv
      · simp only [e1, e2, if_false] at haj hak; exact hI.cl_disj j k hjk hj hk haj hak hsj hsk

theorem step_x (A : Allocator) (hA : Lawful A) (s : St) (m : Mon) (hI : Inv s m) (i : Nat) (hi : i < s.ncls) :
    let o := step A s (.x i)
    observe s (.x i) o ≠ .panic ∧ stepOk m (.x i) (observe s (.x i) o) = true ∧
    Inv o.st (m.next (.x i)) := by
  have hm := hI.cls_eq i hi
  have hn := hI.ncls_eq
  by_cases ha : s.clSt i = .alive
  · by_cases hs : (s.cl i).size = 0
    · simp only [step, hi, ha, hs, if_true]
      refine ⟨by simp [observe], by simp [observe, stepOk, hm, hn, hi, hs, errCount], ?_⟩
      exact inv_retire s m hI i hi .dropped (by decide) s.heap hI.slot_live (fun j _ => hI.cl_live j)
    · have hmem := hI.cl_live i hi ha hs
      have hlive := hA.dealloc_ok
        { s.heap with mem := fun a => if (s.cl i).ptr ≤ a ∧ a < (s.cl i).ptr + (s.cl i).size then 255 else s.heap.mem a }
        _ _ _ hmem
      simp only [step, hi, ha, hs, if_true, if_false]
      refine ⟨by simp [observe], ?_, ?_⟩
      · simp [observe, stepOk, hm, hn, hi, hs, ha, errCount, callOkB, callObs, cleanupDropCall, hmem]
      · apply inv_retire s m hI i hi .dropped (by decide)
        · intro k hk
          simp only [cleanupDrop, cleanupPoison, cleanupDropCall]
          rw [hlive]
          refine (List.mem_erase_of_ne (fun e => hI.slot_cl_disj k i hk hi ha hs ?_)).mpr (hI.slot_live k hk)
          exact congrArg Block.ptr e
        · intro j hji hj haj hsj
          simp only [cleanupDrop, cleanupPoison, cleanupDropCall]
          rw [hlive]
          refine (List.mem_erase_of_ne (fun e => hI.cl_disj j i hji hj hi haj ha hsj hs ?_)).mpr (hI.cl_live j hj haj hsj)
          exact congrArg Block.ptr e
  · simp only [step, hi, ha, if_true, if_false]
    refine ⟨by simp [observe], by simp [observe, stepOk, hm, hn, hi, ha, errCount], ?_⟩
    have : Inv { s with heap := s.heap, clSt := setSt s.clSt i (s.clSt i) }
        { m with cls := fun j => if j = i then ((m.cls i).1, (m.cls i).2.1, false) else m.cls j } :=
      inv_retire s m hI i hi (s.clSt i) ha s.heap hI.slot_live (fun j _ => hI.cl_live j)
    have e : setSt s.clSt i (s.clSt i) = s.clSt := by
      funext j; simp only [setSt]; by_cases h : j = i <;> simp [h]
    rw [e] at this
    exact this

theorem step_f (A : Allocator) (s : St) (m : Mon) (hI : Inv s m) (i : Nat) (hi : i < s.ncls) :
    let o := step A s (.f i)
    observe s (.f i) o ≠ .panic ∧ stepOk m (.f i) (observe s (.f i) o) = true ∧
    Inv o.st (m.next (.f i)) := by
  have hm := hI.cls_eq i hi
  have hn := hI.ncls_eq
  by_cases ha : s.clSt i = .alive
  · simp only [step, hi, ha, if_true, cleanupForget]
    refine ⟨by simp [observe], by simp [observe, stepOk, hn, hi, errCount], ?_⟩
    exact inv_retire s m hI i hi .forgotten (by decide) s.heap hI.slot_live (fun j _ => hI.cl_live j)
  · simp only [step, hi, ha, if_true, if_false]
    refine ⟨by simp [observe], by simp [observe, stepOk, hn, hi, errCount], ?_⟩
    have : Inv { s with heap := s.heap, clSt := setSt s.clSt i (s.clSt i) }
        { m with cls := fun j => if j = i then ((m.cls i).1, (m.cls i).2.1, false) else m.cls j } :=
      inv_retire s m hI i hi (s.clSt i) ha s.heap hI.slot_live (fun j _ => hI.cl_live j)
    have e : setSt s.clSt i (s.clSt i) = s.clSt := by
      funext j; simp only [setSt]; by_cases h : j = i <;> simp [h]
    rw [e] at this
    exact this


/-- One step from a state satisfying the invariant, for an operation meeting the precondition:
the observation is not a panic, the monitor accepts it, and the invariant is re-established. -/
theorem step_spec (A : Allocator) (hA : Lawful A) (hNF : NeverFails A) (s : St) (m : Mon) (hI : Inv s m)
    (op : Op) (hpre : opPre m op = true) :
    observe s op (step A s op) ≠ .panic ∧ stepOk m op (observe s op (step A s op)) = true ∧
    Inv (step A s op).st (m.next op) := by
  cases op with
  | r slot alog new =>
    have hm := hI.slots_eq slot
    simp only [opPre, hm, Bool.or_eq_true, Bool.and_eq_true, beq_iff_eq, bne_iff_ne] at hpre
    by_cases hb : (s.slots slot).size = 0
    · by_cases hn : new = 0
      · subst hn; exact step_r_zero_zero A s m hI slot alog hb
      · exact step_r_alloc A hA hNF s m hI slot alog new hb hn
    · rcases hpre with h | ⟨h1, h2⟩
      · exact absurd h hb
      · exact step_r_realloc A hA hNF s m hI slot alog new hb h2 h1
  | d slot => exact step_d A hA s m hI slot
  | n size alog => exact step_n A hA hNF s m hI size alog
  | x i =>
    simp only [opPre, decide_eq_true_eq] at hpre
    exact step_x A hA s m hI i (hI.ncls_eq ▸ hpre)
  | f i =>
    simp only [opPre, decide_eq_true_eq] at hpre
    exact step_f A s m hI i (hI.ncls_eq ▸ hpre)

/-- allocator calls made by the `x i` / `f i` operations of a history (in order) -/
def xfCalls (A : Allocator) (s : St) (i : Nat) : List Op → List ACall
  | [] => []
  | op :: ops =>
    (if op = .x i ∨ op = .f i then (step A s op).calls else []) ++ xfCalls A (step A s op).st i ops

/-- does the first `x i` / `f i` of a history drop (true) or forget (false) cleanup `i`? -/
def firstRetireIsDrop (i : Nat) : List Op → Bool
  | [] => false
  | op :: ops => if op = .x i then true else if op = .f i then false else firstRetireIsDrop i ops

theorem step_keeps_cl (A : Allocator) (s : St) (i : Nat) (hi : i < s.ncls) (op : Op)
    (h1 : op ≠ .x i) (h2 : op ≠ .f i) :
    i < (step A s op).st.ncls ∧ (step A s op).st.cl i = s.cl i ∧ (step A s op).st.clSt i = s.clSt i := by
  cases op with
  | r slot alog new =>
    simp only [step]; split <;> exact ⟨hi, rfl, rfl⟩
  | d slot => exact ⟨hi, rfl, rfl⟩
  | n size alog =>
    simp only [step]
    split
    · have : i ≠ s.ncls := Nat.ne_of_lt hi
      exact ⟨Nat.lt_succ_of_lt hi, by simp [setCl, this], by simp [setSt, this]⟩
    · exact ⟨hi, rfl, rfl⟩
  | x j =>
    have hji : i ≠ j := fun e => h1 (by rw [e])
    simp only [step]
    split
    · split
      · split <;> exact ⟨hi, rfl, by simp [setSt, hji]⟩
      · exact ⟨hi, rfl, rfl⟩
    · exact ⟨hi, rfl, rfl⟩
  | f j =>
    have hji : i ≠ j := fun e => h2 (by rw [e])
    simp only [step]
    split
    · split
      · exact ⟨hi, rfl, by simp [setSt, hji]⟩
      · exact ⟨hi, rfl, rfl⟩
    · exact ⟨hi, rfl, rfl⟩

theorem xfCalls_retired (A : Allocator) (i : Nat) (ops : List Op) :
    ∀ s, i < s.ncls → s.clSt i ≠ .alive → xfCalls A s i ops = [] := by
  induction ops with
  | nil => intro s _ _; rfl
  | cons op ops ih =>
    intro s hi hna
    simp only [xfCalls]
    by_cases hx : op = .x i
    · subst hx
      have e : step A s (.x i) = ⟨s, .x, []⟩ := by simp [step, hi, hna]
      simp [e, ih s hi hna]
    · by_cases hf : op = .f i
      · subst hf
        have e : step A s (.f i) = ⟨s, .f, []⟩ := by simp [step, hi, hna]
        simp [e, ih s hi hna]
      · obtain ⟨h1, _, h3⟩ := step_keeps_cl A s i hi op hx hf
        simp [hx, hf, ih _ h1 (h3 ▸ hna)]

end Witverif.Text.Realloc
