import Witverif.Scalar.Expr
/-! # Per-language semantics of the constructs that occur in emitted conversion expressions

Sources: the Rust Reference (cast expressions, `From` impls of core), ISO C17 6.3.1 / C++20
[conv.integral] (integral conversions are modular; GCC/Clang define signed narrowing as modular
also for C), ECMA-334 (C#: explicit numeric conversions in an `unchecked` context, implicit
numeric conversions), the Go spec (conversions between integer types), the MoonBit core library
(`Int`, `UInt`, `Int64`, `UInt64`, `Byte`, `Char`, `Float`, `Double` methods), the D spec
(cast expressions, integer promotions).  Validated against real compilers for Rust, C and C++
only (the check's `langs-native` correspondence); for C#, Go, MoonBit, D this file is trusted.

Import-free apart from `Expr`. -/
namespace Witverif.Scalar

/-- keep the low `w` bits -/
def trunc (w : Nat) (b : BitVec 64) : BitVec 64 := (b.setWidth w).setWidth 64
/-- sign-extend from bit `w-1` -/
def sext (w : Nat) (b : BitVec 64) : BitVec 64 := (b.setWidth w).signExtend 64

def mk (t : Ty) (b : BitVec 64) : Val := ⟨t, trunc t.width b⟩

/-- the mathematical value as a 64-bit two's complement number -/
def Val.ext (v : Val) : BitVec 64 := if v.ty.signed then sext v.ty.width v.bits else v.bits

/-- wrapping conversion between integer-like types (value-preserving when representable) -/
def wrapTo (t : Ty) (v : Val) : Val := mk t v.ext

def boolVal (b : Bool) : Val := ⟨.bool, if b then 1 else 0⟩

def validScalar (b : BitVec 64) : Bool := b.ult 0x110000 && !(0xD800 ≤ b && b.ult 0xE000)

/-- Is the language strictly typed for our purposes (no implicit numeric conversions at all)? -/
def Lang.strict : Lang → Bool
  | .rust | .go | .moonbit => true
  | _ => false

/-- explicit cast `(T) e` / `e as T` / `T(e)` / `cast(T) e` -/
def castSem (L : Lang) (to : Ty) (v : Val) : Res :=
  if v.ty = to then .ok v else
  if v.ty.intLike && to.intLike then
    if L = .moonbit then .err "moonbit has no cast syntax"
    else if L = .rust && to = .ch && v.ty != .u8 then .err "rust: only u8 can be cast to char"
    else .ok (wrapTo to v)
  else if v.ty = .bool && to.intLike then
    if L = .rust || L = .c || L = .cpp || L = .d then .ok (wrapTo to v)
    else .err "bool cannot be converted to an integer in this language"
  else if v.ty.intLike && to = .bool then
    if L = .c || L = .cpp || L = .d then .ok (boolVal (v.bits != 0))
    else .err "integer cannot be converted to bool in this language"
  else .err ("cast " ++ v.ty.name ++ " -> " ++ to.name ++ " is not a bit-level conversion (float value conversion or unsupported)")

/-- implicit conversion to a declared type (argument passing, assignment, initialisation, return) -/
def implSem (L : Lang) (to : Ty) (v : Val) : Res :=
  if v.ty = to then .ok v else
  match L with
  | .c | .cpp =>
    if v.ty.kind = .ptr || to.kind = .ptr then .err "implicit pointer/integer conversion" else castSem L to v
  | .csharp =>
    -- ECMA-334 10.2.3 implicit numeric conversions: widening, never from signed to unsigned
    if v.ty.intLike && to.intLike && v.ty.kind != .ptr && to.kind != .ptr
        && to.width > v.ty.width && (!v.ty.signed || to.signed) then .ok (wrapTo to v)
    -- `nint`: implicit from sbyte, byte, short, ushort, int (C# 9 native-sized integers); the reverse is explicit only
    else if to = .isize && (v.ty = .i32 || (v.ty.intLike && v.ty.width < 32 && v.ty.kind != .ptr)) then .ok (wrapTo to v)
    else .err ("c#: no implicit conversion " ++ v.ty.name ++ " -> " ++ to.name)
  | .d =>
    -- D: integer promotions / implicit conversions to a type at least as wide (same-width sign change allowed)
    if (v.ty.intLike || v.ty = .bool) && to.intLike && v.ty.kind != .ptr && to.kind != .ptr
        && to.width ≥ v.ty.width then .ok (wrapTo to v)
    else .err ("d: no implicit conversion " ++ v.ty.name ++ " -> " ++ to.name)
  | _ => .err (L.name ++ ": type mismatch, expected " ++ to.name ++ " got " ++ v.ty.name)

/-- integer promotion of an operand type in an arithmetic / comparison expression -/
def promote (L : Lang) (t : Ty) : Ty :=
  match L with
  | .c | .cpp | .csharp | .d => if (t.intLike || t = .bool) && t.width < 32 then .i32 else t
  | _ => t

/-- common type of a binary arithmetic expression after promotion -/
def common (L : Lang) (a b : Ty) : Option Ty :=
  if a = b then some a else
  if L.strict then none else
  if !(a.intLike && b.intLike) then none else
  if a.width > b.width then some a else
  if b.width > a.width then some b else
  match L with
  | .csharp => if a.width = 32 then some .i64 else none   -- int op uint -> long; long op ulong is an error
  | _ => some (if a.signed then b else a)                 -- same rank: unsigned wins

def binSem (L : Lang) (op : Op) (a b : Val) : Res :=
  let ta := promote L a.ty
  let tb := promote L b.ty
  match op with
  | .shl | .shr =>
    if !(ta.intLike && tb.intLike) then .err "shift of non-integers" else
    let x := (wrapTo ta a)
    let n := (b.ext.toNat % ta.width)
    match op with
    | .shl => .ok (mk ta (x.ext <<< n))
    | _ => .ok (mk ta (if ta.signed then x.ext.sshiftRight n else x.ext >>> n))
  | _ =>
    match common L ta tb with
    | none => .err ("binary operator on " ++ a.ty.name ++ " and " ++ b.ty.name)
    | some t =>
      if !(t.intLike || t = .bool) then .err "arithmetic on non-integers" else
      let x := (wrapTo t a).ext
      let y := (wrapTo t b).ext
      match op with
      | .add => .ok (mk t (x + y))
      | .sub => .ok (mk t (x - y))
      | .band => .ok (mk t (x &&& y))
      | .bor => .ok (mk t (x ||| y))
      | .eq => .ok (boolVal (x == y))
      | _ => .ok (boolVal (x != y))

/-- `From` impls of core between integer types (and bool / char sources) are exactly the lossless ones -/
def rustLossless (src dst : Ty) : Bool :=
  if src = .bool then dst.intLike && dst != .ch && dst.kind != .ptr
  else if src = .ch then dst = .u32 || dst = .u64
  else if src = .u8 && dst = .ch then true
  else if !(src.intLike && dst.intLike) || src.kind = .ptr || dst.kind = .ptr || dst = .ch then false
  else if src.width = 32 && (src = .usize || src = .isize) then false
  else if dst = .usize || dst = .isize then src.width ≤ 16 && (!src.signed || dst.signed)
  else if src.signed then dst.signed && dst.width ≥ src.width
  else dst.width > src.width || (!dst.signed && dst.width = src.width)

def reinterpret (dst : Ty) (v : Val) : Res :=
  if v.ty.memBits = dst.memBits && v.ty != .bool && dst != .bool then .ok ⟨dst, v.bits⟩
  else .err ("reinterpretation between types of different size: " ++ v.ty.name ++ " -> " ++ dst.name)

def expect (t : Ty) (v : Val) (k : Val → Res) : Res :=
  if v.ty = t then k v else .err ("expected " ++ t.name ++ " got " ++ v.ty.name)

def thenRes (r : Res) (k : Val → Res) : Res :=
  match r with
  | .ok v => k v
  | r => r

def appSem (L : Lang) (junk : BitVec 64) (f : Fn) (v : Val) : Res :=
  match f with
  | .rust_from t => if rustLossless v.ty t then .ok (wrapTo t v) else .err ("rust: no From<" ++ v.ty.name ++ "> for " ++ t.name)
  | .rust_to_bits =>
    match v.ty with
    | .f32 => .ok ⟨.u32, v.bits⟩
    | .f64 => .ok ⟨.u64, v.bits⟩
    | _ => .err "to_bits on non-float"
  | .rust_from_bits t =>
    match t, v.ty with
    | .f32, .u32 => .ok ⟨.f32, v.bits⟩
    | .f64, .u64 => .ok ⟨.f64, v.bits⟩
    | _, _ => .err "from_bits: wrong argument type"
  | .rust_char_from_u32_unwrap => expect .u32 v fun v => if validScalar v.bits then .ok ⟨.ch, v.bits⟩ else .trap
  | .rust_char_from_u32_unchecked => expect .u32 v fun v => .ok ⟨.ch, v.bits⟩
  | .rust_mu_new => expect .u64 v fun v => .ok ⟨.mu64, v.bits⟩
  | .rust_mu_assume_init => expect .mu64 v fun v => .ok ⟨.u64, v.bits⟩
  | .rust_mu_write_ptr => expect .ptr v fun v => .ok ⟨.mu64, (junk <<< 32) ||| v.bits⟩
  | .rust_mu_read_ptr => expect .mu64 v fun v => .ok (mk .ptr v.bits)
  | .c_union_pun src dst => thenRes (implSem L src v) (reinterpret dst)
  | .cpp_bit_cast dst src => thenRes (implSem L src v) (reinterpret dst)
  | .cs_Int32BitsToSingle => thenRes (implSem L .i32 v) (reinterpret .f32)
  | .cs_SingleToInt32Bits => expect .f32 v (reinterpret .i32)
  | .cs_Int64BitsToDouble => thenRes (implSem L .i64 v) (reinterpret .f64)
  | .cs_DoubleToInt64Bits => expect .f64 v (reinterpret .i64)
  | .go_Float32bits => expect .f32 v (reinterpret .u32)
  | .go_Float32frombits => expect .u32 v (reinterpret .f32)
  | .go_Float64bits => expect .f64 v (reinterpret .u64)
  | .go_Float64frombits => expect .u64 v (reinterpret .f64)
  | .mbt_to_int =>
    match v.ty with
    | .u8 | .ch | .i64 | .u32 | .i32 => .ok (wrapTo .i32 v)    -- Byte/Char: value; Int64/UInt: wrap
    | _ => .err "to_int: unsupported receiver"
  | .mbt_to_byte => expect .i32 v fun v => .ok (wrapTo .u8 v)
  | .mbt_to_int64 =>
    match v.ty with
    | .i32 | .u32 => .ok (wrapTo .i64 v)                         -- Int: sign-extends, UInt: zero-extends
    | _ => .err "to_int64: unsupported receiver"
  | .mbt_reinterpret_as_int =>
    match v.ty with
    | .u32 | .f32 => reinterpret .i32 v
    | _ => .err "reinterpret_as_int: unsupported receiver"
  | .mbt_reinterpret_as_uint => expect .i32 v (reinterpret .u32)
  | .mbt_reinterpret_as_int64 =>
    match v.ty with
    | .u64 | .f64 => reinterpret .i64 v
    | _ => .err "reinterpret_as_int64: unsupported receiver"
  | .mbt_reinterpret_as_uint64 => expect .i64 v (reinterpret .u64)
  | .mbt_reinterpret_as_float => expect .i32 v (reinterpret .f32)
  | .mbt_reinterpret_as_double => expect .i64 v (reinterpret .f64)
  | .mbt_unsafe_to_char => expect .i32 v (reinterpret .ch)
  | .mbt_Int_to_int64 => expect .i32 v fun v => .ok (wrapTo .i64 v)
  | .mbt_Int64_to_int => expect .i64 v fun v => .ok (wrapTo .i32 v)
  | .wasm_extend n =>
    match v.ty with
    | .i32 | .i64 => .ok (mk v.ty (sext n v.bits))
    | _ => .err "wasm extend on non-integer"
  | .d_reinterpretCast dst => reinterpret dst v

/-- type given to an unsuffixed literal standing next to an operand of type `t` -/
def litVal (L : Lang) (t : Ty) (k : Int) : Val :=
  let t' := promote L t
  mk (if t'.intLike then t' else .i32) (BitVec.ofInt 64 k)

def truthy (L : Lang) (v : Val) : Option Bool :=
  if v.ty = .bool then some (v.bits != 0)
  else match L with
    | .c | .cpp => if v.ty.intLike then some (v.bits != 0) else none
    | _ => none

def eval (L : Lang) (ρ : Env) : Expr → Res
  | .x => .ok ρ.x
  | .dbg => .ok (boolVal ρ.dbg)
  | .lit k => .ok (mk .i32 (BitVec.ofInt 64 k))
  | .tlit t k => .ok (mk t (BitVec.ofInt 64 k))
  | .cast t e => thenRes (eval L ρ e) (castSem L t)
  | .impl t e => thenRes (eval L ρ e) (implSem L t)
  | .bin op a (.lit k) => thenRes (eval L ρ a) fun va => binSem L op va (litVal L va.ty k)
  | .bin op (.lit k) b => thenRes (eval L ρ b) fun vb => binSem L op (litVal L vb.ty k) vb
  | .bin op a b => thenRes (eval L ρ a) fun va => thenRes (eval L ρ b) fun vb => binSem L op va vb
  | .app f a => thenRes (eval L ρ a) (appSem L ρ.junk f)
  | .ite c a b =>
    thenRes (eval L ρ c) fun vc =>
      match truthy L vc with
      | some t => if t then eval L ρ a else eval L ρ b
      | none => .err "condition is not a boolean"
  | .load t => if t = .bool || t = .mu64 then .err "load of bool / MaybeUninit" else .ok ⟨t, trunc t.memBits ρ.mem⟩
  | .wload n sx t => .ok (mk t (if sx then sext n ρ.mem else trunc n ρ.mem))
  | .store t e => thenRes (eval L ρ e) (implSem L t)
  | .wstore n e =>
    thenRes (eval L ρ e) fun v =>
      if v.ty.memBits < n || v.ty = .bool then .err "wasm store of a narrower value" else
      .ok ⟨(if n = 8 then .u8 else if n = 16 then .u16 else if n = 32 then .u32 else .u64), trunc n v.bits⟩
  | .trap => .trap

end Witverif.Scalar
